(* ResetFacts.v — property C08 at HISTORY level: `reset [--soft|--mixed|--hard] HEAD@{n}`
   is TOTAL on the worlds a history reaches, and does exactly what its mode promises.

   ExactFacts.v / Props/C08.v state what each mode changes for ANY world, with
   the facts the command needs spelled out as hypotheses (the argument
   resolves, the target is a stored commit, its tree loads and walks, ...).
   This file discharges those hypotheses from reachability, so that what is
   left to assume is about the position n and the journal only.

   A. The journal of every reachable world
      [unclean_cmd_refused] [JInv_step_any] [JInv_run_any] [reachable_JInv]
         the journal invariant of JournalFacts holds on EVERY history (the
         hypothesis [action_names_clean] of [JInv_run] is not needed: a name
         argument with a newline is refused before the first write);
      [run_cmd_hlog] [step_hlog]  every line any command appends to logs/HEAD is a
         [log_line] whose new id is, at that moment, the value of some branch;
      [log_body_id] [good_line_id]  the id such a line reads back with;
      [reachable_journal_ids] [reachable_HlogGood] [reachable_record_commit]
         Inv.HlogGood — defined in Inv.v, proved nowhere so far — on every
         reachable world: the journal parses and every id it names is a stored
         commit.  This is the journal fact (T1) needs.
   B. (T1) [reset_soft_total] [reset_mixed_total]; [reflog_step] [reflog_line_at]
   C. (T2) [reset_hard_total] with [reset_hard_result]
   D. (T3) [reset_unresolved_refused] [reset_bad_usage_refused] and the named cases,
      [reset_refused_on_reachable], [reset_position_cases] (the cases are exhaustive),
      [reset_to_rename_record_refused]
   E. (T4) [reset_mixed_then_status_clean] [reset_hard_then_status_clean]
   F. a worked history, by computation; the hypotheses of (T2) are necessary
      ([zx_restorable_needed_file] [zx_restorable_needed_dir] [zx_flat_needed]).

   Hypotheses carried by (T1)/(T2)/(T4), besides [Reachable w],
   [w_coll w = false], [SmallStore (w_objs w)], [ctx_of w = Some c] and
   [x_headc c = Some (prev, pc)] (the current branch has a commit):
     n <= 2^63 - 1                      (the number fits Go's int)
     w_hlog w = Some hl, parse_reflog hl = Some rs   (names for the parsed journal;
                                         it always parses: [reachable_journal_parses])
     get_record rs n = Some r, r_id r = Some tid     (position n names the id tid)
   [w_inited w = true] is derived ([rt_inited]).
   (T2) adds: every path of the target snapshot is [restorable] in the work
   tree and no snapshot path lies above another; (T4) for --hard adds: the
   `.goitignore` left in the work tree loads. *)
From Coq Require Import Strings.String Strings.Byte.
From Coq Require Import List Bool NArith ZArith Arith Lia ZifyBool ZifyNat ZifyN Sorted.
From Goit Require Import Bytes Sha1 Obj Tree Index Regex GoRegex Commit Reflog Config Ignore World Repo.
From Goit Require Import BytesFacts ObjFacts IndexFacts TreeFacts DiffFacts RegexFacts ReflogFacts CommitFacts MonadFacts Inv.
From Goit Require Import BranchFacts ConnectedFacts SnapshotFacts ExactFacts CommitCmdFacts JournalFacts RestoreFacts GateFacts.
Import ListNotations.

#[local] Arguments sha1 : simpl never.
#[local] Arguments obj_id : simpl never.
#[local] Arguments payload : simpl never.
#[local] Arguments header : simpl never.


(* ================================================================== *)
(** * A. The journal of every reachable world *)

(** ** A.1 a refused branch name never reaches the journal *)

Lemma rs_is_ctl_nl : is_ctl c_nl = true.
Proof. vm_compute. reflexivity. Qed.

Lemma valid_name_no_nl : forall n, valid_branch_name n = true -> ~ In c_nl n.
Proof.
  intros n Hv Hin. unfold valid_branch_name in Hv.
  apply andb_true_iff in Hv. destruct Hv as [_ Hctl].
  apply negb_true_iff in Hctl.
  assert (Hex : existsb is_ctl n = true).
  { apply existsb_exists. exists c_nl. split; [exact Hin | exact rs_is_ctl_nl]. }
  rewrite Hex in Hctl. discriminate Hctl.
Qed.

Lemma nl_name_invalid : forall n, In c_nl n -> valid_branch_name n = false.
Proof.
  intros n Hin. destruct (valid_branch_name n) eqn:E; [|reflexivity].
  exfalso. exact (valid_name_no_nl n E Hin).
Qed.

Lemma rs_no_nl_dec : forall n : bytes, ~ In c_nl n \/ In c_nl n.
Proof.
  intro n. destruct (in_dec Byte.byte_eq_dec c_nl n) as [Hin|Hnin]; [right | left]; assumption.
Qed.

Lemma rs_all_no_nl_dec : forall l : list bytes,
  Forall (fun a => ~ In c_nl a) l \/ ~ Forall (fun a => ~ In c_nl a) l.
Proof.
  induction l as [|a l IH].
  - left. constructor.
  - destruct (rs_no_nl_dec a) as [Ha|Ha].
    + destruct IH as [IH|IH].
      * left. constructor; assumption.
      * right. intro Hall. inversion Hall as [|x y Hx Hy]; subst. exact (IH Hy).
    + right. intro Hall. inversion Hall as [|x y Hx Hy]; subst. exact (Hx Ha).
Qed.

Lemma cmd_names_clean_dec : forall c, cmd_names_clean c \/ ~ cmd_names_clean c.
Proof.
  intro c. destruct c; try (left; exact Logic.I); cbn [cmd_names_clean].
  - destruct (rs_all_no_nl_dec args) as [Ha|Ha]; [|right; intros [H1 _]; exact (Ha H1)].
    destruct (rs_no_nl_dec rename) as [Hr|Hr]; [left; split; assumption | right; intros [_ H2]; exact (H2 Hr)].
  - destruct (rs_no_nl_dec create) as [Hc|Hc]; [left; exact Hc | right; intro H; exact (H Hc)].
Qed.

(* a [branch] / [switch -c] whose name argument holds a newline is refused
   before its first write *)
Theorem unclean_cmd_refused : forall e c w,
  ~ cmd_names_clean c -> step (ACmd e c) w = (w, OErr, []).
Proof.
  intros e c w Hun.
  assert (Hne : c <> CInit) by (intro Heq; subst c; apply Hun; exact Logic.I).
  destruct (w_inited w) eqn:Hi; [|apply step_not_loaded; [exact Hne | left; exact Hi]].
  destruct (ctx_of w) as [x|] eqn:Hx; [|apply step_not_loaded; [exact Hne | right; exact Hx]].
  rewrite (step_loaded e c w x Hne Hi Hx).
  destruct c; try (exfalso; apply Hun; exact Logic.I); cbn [dispatch cmd_names_clean] in *.
  - (* branch *)
    destruct (cmd_branch_shapes e x args list_flag rename delete (mkMS w [] None))
      as [(name & -> & -> & -> & ->) | [(-> & -> & -> & ->) | [(-> & -> & Hn & ->) | [(-> & -> & -> & Hd) | Herr]]]].
    + assert (Hin : In c_nl name).
      { destruct (rs_no_nl_dec name) as [Hc|Hc]; [|exact Hc]. exfalso. apply Hun.
        split; [constructor; [exact Hc | constructor] | intros []]. }
      rewrite cmd_branch_create_eq, (nl_name_invalid name Hin), andb_false_r.
      destruct (x_headc x) as [[hid cm]|]; reflexivity.
    + exfalso. apply Hun. split; [constructor | intros []].
    + assert (Hin : In c_nl rename).
      { destruct (rs_no_nl_dec rename) as [Hc|Hc]; [|exact Hc]. exfalso. apply Hun.
        split; [constructor | exact Hc]. }
      rewrite (cmd_branch_rename_eq e x rename w [] Hn), (nl_name_invalid rename Hin), andb_false_r.
      destruct (x_headc x) as [[hid cm]|]; reflexivity.
    + exfalso. apply Hun. split; [constructor | intros []].
    + rewrite Herr. reflexivity.
  - (* switch *)
    assert (Hin : In c_nl create).
    { destruct (rs_no_nl_dec create) as [Hc|Hc]; [|exact Hc]. exfalso. exact (Hun Hc). }
    destruct (cmd_switch_shapes e x args create (mkMS w [] None)) as [(a & -> & ->) | [(-> & Hn) | Herr]].
    + destruct Hin.
    + rewrite (cmd_switch_create_eq e x create w [] Hn), (nl_name_invalid create Hin), andb_false_r.
      destruct (x_headc x) as [[hid cm]|]; reflexivity.
    + rewrite Herr. reflexivity.
Qed.

Corollary unclean_step_noop : forall a w, ~ action_names_clean a -> step_w a w = w.
Proof.
  intros [e c|u] w Hun; [|exfalso; apply Hun; exact Logic.I].
  unfold step_w. rewrite (unclean_cmd_refused e c w Hun). reflexivity.
Qed.

(* the journal invariant of JournalFacts holds on EVERY history: the
   hypothesis [action_names_clean] of [JInv_run] is not needed since the name
   validation refuses control characters *)
Theorem JInv_step_any : forall a w, JInv w -> JInv (step_w a w).
Proof.
  intros a w Hi.
  assert (Hd : action_names_clean a \/ ~ action_names_clean a).
  { destruct a as [e c|u]; [apply cmd_names_clean_dec | left; exact Logic.I]. }
  destruct Hd as [Hc|Hc]; [apply JInv_step; assumption | rewrite (unclean_step_noop a w Hc); exact Hi].
Qed.

Theorem JInv_run_any : forall h w, JInv w -> JInv (run h w).
Proof.
  induction h as [|a h IH]; intros w Hi; [exact Hi|].
  rewrite run_cons. apply IH. apply JInv_step_any. exact Hi.
Qed.

Corollary reachable_JInv : forall w, Reachable w -> JInv w.
Proof. intros w (h & _ & ->). apply JInv_run_any. exact JInv_empty. Qed.

(* in particular the journal of a reachable world reads back *)
Corollary reachable_journal_parses : forall w hl,
  Reachable w -> w_hlog w = Some hl -> exists rs, parse_reflog hl = Some rs.
Proof.
  intros w hl Hr Hhl. destruct (reachable_JInv w Hr) as [[[rs Hrs] _] _].
  unfold hlog_bytes in Hrs. rewrite Hhl in Hrs. exists rs. exact Hrs.
Qed.


(** ** A.2 every line written to logs/HEAD names the value of a branch *)

(* what is recorded about an appended journal line, at the world where it is
   appended: it is a [log_line] whose new id, if any, is held by some branch *)
Definition HG (w : world) (e : effect) : Prop :=
  match e with
  | EAppendHlog l =>
      exists from to name email t off ty msg,
        l = log_line from to name email t off ty msg /\
        forall h, to = Some h -> exists n, am_get (w_refs w) n = Some h
  | _ => True
  end.

Lemma HG_quiet : forall w e, is_hlog e = false -> HG w e.
Proof. intros w e H. destruct e; try exact Logic.I. discriminate H. Qed.

Ltac hg_line :=
  cbn [HG]; unfold log_rec; do 8 eexists; split; [reflexivity|];
  let h := fresh "h" in let Hh := fresh "Hh" in
  intros h Hh; first [discriminate Hh | injection Hh as <-; eexists; autorewrite with wfields].

Ltac hg_triv :=
  lazymatch goal with
  | |- HG _ (EAppendHlog _) /\ _ => idtac
  | |- HG _ _ /\ Tr _ /\ _ => split; [exact Logic.I | split; exact Logic.I]
  | |- HG _ _ /\ Tr _ => split; exact Logic.I
  | |- _ => idtac
  end.

Lemma cmd_commit_hlog : forall e c msg w,
  hoare Tr HG (eq w) (cmd_commit e c msg) (fun _ _ => True).
Proof.
  intros e c msg w.
  assert (Hdo : forall w0, hoare Tr HG (eq w0) (do_commit e c msg) (fun _ _ => True)).
  { intro w0. unfold do_commit, put_obj. hsteps.
    apply at_bind_iterM with (J := fun _ => True).
    - intros _. exact Logic.I.
    - intros d w1 _ _ _. hsteps; hg_triv; exact Logic.I.
    - intros w1 _ _. hsteps; hg_triv; try exact Logic.I.
      all: split; [|try split; exact Logic.I]; hg_line; apply ex_am_get_set_same. }
  unfold cmd_commit, head_tree_nodes. hsteps.
  all: try exact Logic.I.
  all: eapply at_bind_call with (P := eq w) (R := fun _ _ => True); [apply Hdo | reflexivity |];
       intros u w' _ _; hsteps; exact Logic.I.
Qed.

Lemma cmd_reset_hlog : forall e c soft mixed hard args w,
  hoare Tr HG (eq w) (cmd_reset e c soft mixed hard args) (fun _ _ => True).
Proof.
  intros e c soft mixed hard args w. unfold cmd_reset. hsteps; hg_triv; try exact Logic.I.
  all: try (split; [|try split; exact Logic.I]; hg_line; apply ex_am_get_set_same).
  apply at_bind_iterM with (J := fun _ => True).
  - intros _. exact Logic.I.
  - intros en w1 _ _ _. hsteps. unfold wt_put. hsteps; hg_triv; exact Logic.I.
  - intros w1 _ _. hsteps. exact Logic.I.
Qed.

Lemma cmd_switch_hlog : forall e c args create w,
  hoare Tr HG (eq w) (cmd_switch e c args create) (fun _ _ => True).
Proof.
  intros e c args create w. unfold cmd_switch, head_update. hsteps; hg_triv; try exact Logic.I.
  all: split; [|try split; exact Logic.I]; hg_line; first [apply ex_am_get_set_same | eassumption].
Qed.

Lemma rename_ref_kept : forall W new b,
  negb (am_mem (w_refs W) new) = true -> am_mem (w_refs W) (w_head W) = true ->
  am_get (w_refs (apply_effect (EDelRef (w_head W)) (apply_effect (ESetHead new) (apply_effect (ESetRef new b) W)))) new = Some b.
Proof.
  intros W new b Hnew Hold. autorewrite with wfields.
  rewrite ConnectedFacts.am_get_del_other; [apply ex_am_get_set_same|].
  intro Heq. rewrite Heq, Hold in Hnew. discriminate Hnew.
Qed.

Lemma cmd_branch_hlog : forall e c args lst rename delete w,
  hoare Tr HG (eq w) (cmd_branch e c args lst rename delete) (fun _ _ => True).
Proof.
  intros e c args lst rename delete w. unfold cmd_branch. hsteps; hg_triv; try exact Logic.I.
  all: split; [|try split; exact Logic.I].
  all: cbn [HG]; unfold log_rec; do 8 eexists; (split; [reflexivity|]).
  all: intros h Hh; first [discriminate Hh | injection Hh as <-].
  all: exists rename; first [apply rename_ref_kept; assumption
                            | rewrite w_refs_EAppendHlog; apply rename_ref_kept; assumption].
Qed.

Theorem run_cmd_hlog : forall e c w,
  hoare Tr HG (eq w) (run_cmd e c) (fun _ _ => True).
Proof.
  intros e c w. destruct (quiet_cmd c) eqn:Q.
  - apply hoare_conseq with (P := eq w) (Q := fun _ w' => cmd_post e c w w'); [| auto | auto].
    apply hoare_weaken_G with (G := JGq False (quiet_cmd c)).
    + intros w0 e0 _ [_ Hq]. apply HG_quiet. apply Hq. exact Q.
    + apply run_cmd_spec. intros [].
  - assert (Hload : forall (k : ctx -> M (list bytes)),
              (forall x, hoare Tr HG (eq w) (k x) (fun _ _ => True)) ->
              hoare Tr HG (eq w) (bind load_ctx k) (fun _ _ => True)).
    { intros k Hk. apply at_bind with (R := fun x w' => w' = w /\ ctx_of w = Some x);
        [apply JournalFacts.load_ctx_at|]. intros x w' _ [-> _]. apply Hk. }
    destruct c; try discriminate Q; unfold run_cmd; hsteps; apply Hload; intro x.
    + apply cmd_commit_hlog.
    + apply cmd_branch_hlog.
    + apply cmd_switch_hlog.
    + apply cmd_reset_hlog.
Qed.

(* at the level of one step: the trace of every command, whatever its outcome *)
Lemma step_hlog : forall e c w w' o tr,
  step (ACmd e c) w = (w', o, tr) -> steps_ok Tr HG w tr.
Proof.
  intros e c w w' o tr Hs.
  destruct (step_cmd_run _ _ _ _ _ _ Hs) as (r & s' & Hrun & _ & _ & ->).
  destruct (hoare_sound Tr HG _ _ _ _ w [] None r s' (run_cmd_hlog e c w) Logic.I eq_refl Hrun)
    as (tr0 & Ht & _ & Hok & _).
  cbn [app] in Ht. rewrite Ht. exact Hok.
Qed.

(** ** A.3 the id a journal line reads back with *)

Lemma id_back_some : forall to id, id_back to = Some id -> to = Some id.
Proof.
  intros to id H. destruct to as [h|]; cbn [id_back] in H; [|discriminate H].
  destruct (bytes_eqb h zero_id); [discriminate H | exact H].
Qed.

(* whatever name, e-mail and message: the reader's id is the line's new id *)
Lemma log_body_id : forall from to name email t off ty msg r,
  (forall h, to = Some h -> length h = 20%nat) ->
  parse_log_line (log_body from to name email t off ty msg) = Some (Some r) ->
  r_id r = id_back to.
Proof.
  intros from to name email t off ty msg r Hto H. unfold log_body, parse_log_line in H.
  rewrite (split1_app_sep c_sp (id_text from) _ (id_text_only_hex c_sp from eq_refl)) in H.
  cbv beta iota in H.
  rewrite (split1_app_sep c_sp (id_text to) _ (id_text_only_hex c_sp to eq_refl)) in H.
  cbv beta iota zeta in H.
  pose proof (read_id_id_text to Hto) as Hid. unfold read_id in Hid. rewrite Hid in H.
  destruct (split1 c_tab _) as [pre [tail|]]; [|discriminate H].
  destruct (split1s [x3a; c_sp] tail) as [tys [m|]]; [|discriminate H].
  destruct (rtype_of_s tys) as [ty'|]; [|discriminate H].
  injection H as <-. reflexivity.
Qed.

Lemma good_line_id : forall from to name email t off ty msg r,
  (forall h, to = Some h -> length h = 20%nat) ->
  good_line (log_line from to name email t off ty msg) r -> r_id r = id_back to.
Proof.
  intros from to name email t off ty msg r Hto (body & Hl & _ & Hp).
  rewrite log_line_body in Hl. apply app_inj_tail in Hl. destruct Hl as [<- _].
  rewrite jf_log_body_drop_cr in Hp. apply (log_body_id _ _ _ _ _ _ _ _ _ Hto Hp).
Qed.


(** ** A.4 the invariant: every id the journal reads back names a stored commit *)

Definition ids_ok (st : store) (r : lrec) : Prop :=
  forall id, r_id r = Some id -> commit_ok st id.

Definition HlogIds (w : world) : Prop :=
  forall rs, parse_reflog (hlog_bytes w) = Some rs -> Forall (ids_ok (w_objs w)) rs.

Lemma ids_ok_ext : forall st st' r, store_ext st st' -> ids_ok st r -> ids_ok st' r.
Proof.
  intros st st' r He H id Hid. destruct (H id Hid) as [c Hc]. exists c.
  apply (get_commit_ext st st'); assumption.
Qed.

Lemma good_ref_commit : forall w n id, Good w -> am_get (w_refs w) n = Some id -> commit_ok (w_objs w) id.
Proof.
  intros w n id Hg H. destruct (good_connected w Hg) as (Hrefs & _). exact (Hrefs n id H).
Qed.

Lemma hlog_ids_effect : forall e w,
  JInv w -> JG e -> HG w e -> Good w -> ~ Bad (apply_effect e w) ->
  HlogIds w -> HlogIds (apply_effect e w).
Proof.
  intros e w Hj Hjg Hhg Hgood Hnb Hids rs Hrs.
  destruct Hj as ([[rs0 Hrs0] Hend] & _).
  destruct (is_hlog e) eqn:Eh.
  - destruct e as [ | pid ppl | name rid | name | old new | hname | ies | line | bname bline | dbname | lst | gst | fpath fdata | rpath | mpath ]; try discriminate Eh.
    cbn [JG] in Hjg. destruct Hjg as [r Hr]. cbn [HG] in Hhg.
    destruct Hhg as (from & to & nm & em & t & off & ty & msg & Hline & Hto).
    rewrite hlog_bytes_effect in Hrs. cbn [hlog_line] in Hrs.
    destruct (journal_append _ rs0 line r Hrs0 Hend Hr) as [Hp _].
    rewrite Hp in Hrs. injection Hrs as <-.
    rewrite w_objs_not_put by reflexivity.
    apply Forall_app. split; [apply Hids; exact Hrs0|]. constructor; [|constructor].
    intros id Hid. subst line.
    assert (Hlen : forall h, to = Some h -> length h = 20%nat).
    { intros h Hh. destruct (Hto h Hh) as [n Hn]. apply (commit_ok_len (w_objs w)).
      apply (good_ref_commit w n h Hgood Hn). }
    rewrite (good_line_id _ _ _ _ _ _ _ _ _ Hlen Hr) in Hid. apply id_back_some in Hid.
    destruct (Hto id Hid) as [n Hn]. apply (good_ref_commit w n id Hgood Hn).
  - assert (Hb : hlog_bytes (apply_effect e w) = hlog_bytes w).
    { rewrite hlog_bytes_effect. destruct e; try discriminate Eh; apply app_nil_r. }
    rewrite Hb in Hrs.
    assert (Hext : store_ext (w_objs w) (w_objs (apply_effect e w))).
    { apply effect_store_ext. apply not_bad_iff in Hnb. exact (proj1 Hnb). }
    apply (Forall_impl _ (P := ids_ok (w_objs w))); [|apply Hids; exact Hrs].
    intros r0 H0. apply (ids_ok_ext _ _ _ Hext H0).
Qed.

Lemma hlog_ids_trace : forall tr w,
  JInv w -> CInv w -> Forall JG tr -> steps_ok Tr HG w tr -> steps_ok CInv CG w tr ->
  ~ Bad (apply_effects tr w) -> HlogIds w -> HlogIds (apply_effects tr w).
Proof.
  induction tr as [|e tr IH]; intros w Hj Hc Hjg Hhg Hcg Hnb Hids; [exact Hids|].
  rewrite apply_effects_cons in Hnb |- *.
  inversion Hjg as [|e' tr' Hje Hjtr]; subst.
  destruct Hhg as (Hhe & _ & Hhtr). destruct Hcg as (_ & Hc1 & Hctr).
  assert (Hnb1 : ~ Bad (apply_effect e w)).
  { intro X. apply Hnb. apply bad_sticky_trace. exact X. }
  assert (Hnb0 : ~ Bad w).
  { intro X. apply Hnb1. apply bad_sticky. exact X. }
  apply IH; try assumption.
  - apply JInv_effect; assumption.
  - apply hlog_ids_effect; try assumption. apply Hc. exact Hnb0.
Qed.

Definition KI (w : world) : Prop := JInv w /\ CInv w /\ (~ Bad w -> HlogIds w).

Lemma KI_empty : KI w_empty.
Proof.
  split; [exact JInv_empty|]. split; [intros _; exact good_empty|].
  intros _ rs Hrs. cbn in Hrs. injection Hrs as <-. constructor.
Qed.

Lemma KI_step : forall a w, action_ok a -> KI w -> KI (step_w a w).
Proof.
  intros a w Hok (Hj & Hc & Hids).
  split; [apply JInv_step_any; exact Hj|]. split; [apply inv_step; assumption|].
  destruct a as [e c|u].
  - destruct (cmd_names_clean_dec c) as [Hcl|Hun].
    2:{ rewrite (unclean_step_noop (ACmd e c) w Hun). exact Hids. }
    unfold step_w. destruct (step (ACmd e c) w) as [[w' o] tr] eqn:Es. cbn [fst].
    pose proof (step_hlog _ _ _ _ _ _ Es) as Hhg.
    destruct (step_cmd_run _ _ _ _ _ _ Es) as (r & s' & Hrun & -> & _ & ->).
    destruct (run_cmd_sound True e c w None r s' (fun _ => conj Hj Hcl) Hrun) as (Hw & Hall & _).
    destruct (hoare_sound CInv CG _ _ _ _ w [] None r s' (run_cmd_conn e c) Hc Logic.I Hrun)
      as (tr0 & Ht & _ & Hcg & _).
    cbn [app] in Ht. subst tr0. rewrite Hw. intro Hnb.
    apply hlog_ids_trace; try assumption.
    + apply (Forall_JG_of True _ _ Logic.I Hall).
    + apply Hids. intro X. apply Hnb. apply bad_sticky_trace. exact X.
  - rewrite step_w_edit. intros Hnb rs Hrs.
    unfold hlog_bytes in Hrs. rewrite w_hlog_apply_edit in Hrs. rewrite w_objs_apply_edit.
    apply Hids; [|exact Hrs]. intro X. apply Hnb. unfold Bad in *.
    rewrite w_coll_apply_edit, w_objs_apply_edit. exact X.
Qed.

Lemma KI_run : forall h w, Forall action_ok h -> KI w -> KI (run h w).
Proof.
  induction h as [|a h IH]; intros w Hall Hk; [exact Hk|].
  inversion Hall as [|a' h' Ha Hh]; subst. rewrite run_cons. apply IH; [exact Hh|].
  apply KI_step; assumption.
Qed.

(* the invariant [Inv.HlogGood], on every reachable world (no SHA-1 collision
   met, no giant object): the journal reads back and every id it names is a
   stored commit *)
Theorem reachable_journal_ids : forall w hl rs,
  Reachable w -> w_coll w = false -> SmallStore (w_objs w) ->
  w_hlog w = Some hl -> parse_reflog hl = Some rs ->
  Forall (fun r => forall id, r_id r = Some id -> commit_ok (w_objs w) id) rs.
Proof.
  intros w hl rs (h & Hall & ->) Hc Hs Hhl Hrs.
  destruct (KI_run h w_empty Hall KI_empty) as (_ & _ & Hids).
  apply Hids.
  - apply not_bad_iff. split; assumption.
  - unfold hlog_bytes. rewrite Hhl. exact Hrs.
Qed.

Corollary reachable_HlogGood : forall w,
  Reachable w -> w_coll w = false -> SmallStore (w_objs w) -> HlogGood w.
Proof.
  intros w Hr Hc Hs. unfold HlogGood. destruct (w_hlog w) as [hl|] eqn:Hhl; [|exact Logic.I].
  destruct (reachable_journal_parses w hl Hr Hhl) as [rs Hrs]. exists rs. split; [exact Hrs|].
  apply (Forall_impl _ (P := fun r => forall id, r_id r = Some id -> commit_ok (w_objs w) id));
    [|apply (reachable_journal_ids w hl rs Hr Hc Hs Hhl Hrs)].
  intros r H. destruct (r_id r) as [id|]; [apply H; reflexivity | exact Logic.I].
Qed.

(* the record at a position: when it names an id, that commit can be loaded *)
Corollary reachable_record_commit : forall w hl rs n r tid,
  Reachable w -> w_coll w = false -> SmallStore (w_objs w) ->
  w_hlog w = Some hl -> parse_reflog hl = Some rs ->
  get_record rs n = Some r -> r_id r = Some tid ->
  exists tc, get_commit (w_objs w) tid = Some tc.
Proof.
  intros w hl rs n r tid Hr Hc Hs Hhl Hrs Hg Hid.
  pose proof (reachable_journal_ids w hl rs Hr Hc Hs Hhl Hrs) as Hall.
  rewrite Forall_forall in Hall. apply (Hall r); [|exact Hid].
  unfold get_record in Hg. destruct (Nat.leb (length rs) n); [discriminate Hg|].
  apply nth_error_In in Hg. exact Hg.
Qed.


(* ================================================================== *)
(** * B. `reset HEAD@{n}` on reachable worlds: totality *)

(* the argument text for position [n] *)
Definition head_at (n : N) : bytes := str "HEAD@{" ++ dec n ++ str "}".

Lemma step_reset_runs : forall e c w soft mixed hard args r tr,
  w_inited w = true -> ctx_of w = Some c ->
  runs (cmd_reset e c soft mixed hard args) w r tr ->
  step (ACmd e (CReset soft mixed hard args)) w = (apply_effects tr w, outcome_of r, tr).
Proof.
  intros e c w soft mixed hard args r tr Hi Hx Hr.
  rewrite (step_loaded e (CReset soft mixed hard args) w c); [|discriminate | exact Hi | exact Hx].
  cbn [dispatch]. rewrite (Hr []). reflexivity.
Qed.

(* position [n] of the parsed journal, within int64: "HEAD@{n}" resolves to
   the id of that record *)
Lemma reset_target_at : forall w n hl rs r tid,
  (n <= 9223372036854775807)%N ->
  w_hlog w = Some hl -> parse_reflog hl = Some rs ->
  get_record rs (N.to_nat n) = Some r -> r_id r = Some tid ->
  ExactFacts.reset_target w (head_at n) = Some tid.
Proof.
  intros w n hl rs r tid Hn Hhl Hrs Hrec Hid.
  assert (Hlt : (N.to_nat n < length rs)%nat) by (apply get_record_total; exists r; exact Hrec).
  apply (reset_target_intro w (head_at n) n hl rs r tid).
  - apply reset_arg_accepts.
  - apply N.leb_le. exact Hn.
  - exact Hhl.
  - exact Hrs.
  - rewrite N.min_l by lia. exact Hrec.
  - exact Hid.
Qed.

(* `reflog` prints the parsed journal, newest first, numbered from 0: the
   line at position [n] is the record [reset HEAD@{n}] resolves *)
Definition reflog_line (x : bytes * nat * rtype * bytes) : bytes :=
  let '(sid, i, ty, msg) := x in sid ++ [c_sp] ++ nat_dec i ++ [c_sp] ++ rtype_s ty ++ [c_sp] ++ msg.

Lemma reflog_step : forall e w c hl rs,
  w_inited w = true -> ctx_of w = Some c -> w_hlog w = Some hl -> parse_reflog hl = Some rs ->
  step (ACmd e CReflog) w = (w, OOk (map reflog_line (show_reflog rs)), []).
Proof.
  intros e w c hl rs Hi Hx Hhl Hrs.
  rewrite (step_loaded e CReflog w c); [|discriminate | exact Hi | exact Hx].
  cbn [dispatch]. unfold cmd_reflog. rewrite ev_bind_getw. cbn [ms_w].
  rewrite Hhl, ev_bind_of_opt, Hrs, ev_bind_of_opt. reflexivity.
Qed.

Lemma reflog_line_at : forall rs n r,
  get_record rs n = Some r ->
  nth_error (map reflog_line (show_reflog rs)) n =
  Some (short_id (r_id r) ++ [c_sp] ++ nat_dec n ++ [c_sp] ++ rtype_s (r_type r) ++ [c_sp] ++ r_msg r).
Proof.
  intros rs n r Hg. rewrite nth_error_map, (show_reflog_get_record rs n r Hg). reflexivity.
Qed.

(* every world a history reaches in which HEAD's branch has a commit is initialised *)
Lemma loaded_head_inited : forall w c prev pc,
  Reachable w -> ctx_of w = Some c -> x_headc c = Some (prev, pc) ->
  w_inited w = true /\ am_get (w_refs w) (w_head w) = Some prev /\ am_mem (w_refs w) (w_head w) = true.
Proof.
  intros w c prev pc Hr Hx Hh. pose proof (loaded_headc w c Hx) as Hl. rewrite Hh in Hl.
  destruct Hl as [Hg _]. split; [|split; [exact Hg | unfold am_mem; rewrite Hg; reflexivity]].
  apply (reachable_inited w Hr). left. intro E. rewrite E in Hg. discriminate Hg.
Qed.

(* the snapshot of a stored commit of a reachable world *)
Lemma reachable_snapshot : forall w tid tc,
  Reachable w -> w_coll w = false -> SmallStore (w_objs w) ->
  get_commit (w_objs w) tid = Some tc ->
  exists d ns, get_kind (w_objs w) KTree (c_tree tc) = Some d /\
               walk_tree (S (length (w_objs w))) (w_objs w) d = Some ns /\
               snapshot (w_objs w) tid = Some (flatten [] ns) /\
               Canonical (flatten [] ns) /\ Forall valid_entry (flatten [] ns).
Proof.
  intros w tid tc Hr Hc Hs Hg.
  destruct (reachable_good w Hr Hc Hs) as (_ & _ & Hsn & _).
  destruct (Hsn tid tc Hg) as (d & its & Hk & Hw & Hwf & Hcan & Hval).
  exists d, (map node_of its). rewrite (flatten_items its Hwf).
  split; [exact Hk|]. split; [exact Hw|]. split; [|split; assumption].
  unfold snapshot. rewrite Hg, Hk, Hw, (flatten_items its Hwf). reflexivity.
Qed.

Section ResetTotal.
  Variables (e : env) (w : world) (c : ctx) (prev : bytes) (pc : commit).
  Variables (n : N) (hl : bytes) (rs : list lrec) (r : lrec) (tid : bytes).
  Hypothesis Hreach : Reachable w.
  Hypothesis Hcoll : w_coll w = false.
  Hypothesis Hsmall : SmallStore (w_objs w).
  Hypothesis Hctx : ctx_of w = Some c.
  Hypothesis Hheadc : x_headc c = Some (prev, pc).
  (* the journal fact: position [n] (an int64) of the parsed journal is a
     record that names the id [tid] *)
  Hypothesis Hn : (n <= 9223372036854775807)%N.
  Hypothesis Hhl : w_hlog w = Some hl.
  Hypothesis Hrs : parse_reflog hl = Some rs.
  Hypothesis Hrec : get_record rs (N.to_nat n) = Some r.
  Hypothesis Hid : r_id r = Some tid.

  Lemma rt_target : ExactFacts.reset_target w (head_at n) = Some tid.
  Proof. exact (reset_target_at w n hl rs r tid Hn Hhl Hrs Hrec Hid). Qed.

  Lemma rt_commit : exists tc, get_commit (w_objs w) tid = Some tc.
  Proof. exact (reachable_record_commit w hl rs (N.to_nat n) r tid Hreach Hcoll Hsmall Hhl Hrs Hrec Hid). Qed.

  Lemma rt_inited : w_inited w = true.
  Proof. exact (proj1 (loaded_head_inited w c prev pc Hreach Hctx Hheadc)). Qed.

  Lemma rt_branch : am_mem (w_refs w) (w_head w) = true.
  Proof. exact (proj2 (proj2 (loaded_head_inited w c prev pc Hreach Hctx Hheadc))). Qed.

  (* (T1) --soft *)
  Theorem reset_soft_total : forall mixed,
    let a := head_at n in
    let tr := reset_head_trace e c w prev tid a in
    let w' := apply_effects tr w in
    step (ACmd e (CReset true mixed false [a])) w = (w', OOk [], tr) /\
    reset_common_post w tid w' /\ w_index w' = w_index w /\ same_wt w w'.
  Proof.
    intros mixed a tr w'. destruct rt_commit as [tc Htc].
    destruct (cmd_reset_soft_spec e c w a prev tid pc tc rt_target Hheadc Htc rt_branch mixed)
      as (Hruns & Hpost & Hidx & Hwt).
    split; [|split; [exact Hpost | split; [exact Hidx | exact Hwt]]].
    apply (step_reset_runs e c w true mixed false [a] (Ok []) tr rt_inited Hctx Hruns).
  Qed.

  (* (T1) --mixed (the default) *)
  Theorem reset_mixed_total :
    exists es, snapshot (w_objs w) tid = Some es /\
      let a := head_at n in
      let tr := reset_head_trace e c w prev tid a ++ [ESetIndex es] in
      let w' := apply_effects tr w in
      step (ACmd e (CReset false true false [a])) w = (w', OOk [], tr) /\
      reset_common_post w tid w' /\ idx_of w' = es /\ same_wt w w'.
  Proof.
    destruct rt_commit as [tc Htc].
    destruct (reachable_snapshot w tid tc Hreach Hcoll Hsmall Htc) as (d & ns & Hk & Hw & Hsn & _).
    exists (flatten [] ns). split; [exact Hsn|]. intros a tr w'.
    destruct (cmd_reset_mixed_spec e c w a prev tid pc tc rt_target Hheadc Htc rt_branch d ns Hk Hw)
      as (Hruns & Hpost & Hidx & Hwt).
    split; [|split; [exact Hpost | split; [exact Hidx | exact Hwt]]].
    apply (step_reset_runs e c w false true false [a] (Ok []) tr rt_inited Hctx Hruns).
  Qed.

  (* the flag --mixed is on by default: [CReset false true false] is what
     `reset HEAD@{n}` runs; switching it off without another mode (--mixed=false)
     is "invalid flags" *)
  Theorem reset_all_modes_off_refused :
    step (ACmd e (CReset false false false [head_at n])) w = (w, OErr, []).
  Proof.
    rewrite (step_loaded e _ w c); [|discriminate | exact rt_inited | exact Hctx].
    cbn [dispatch]. reflexivity.
  Qed.
End ResetTotal.


(* ================================================================== *)
(** * C. (T2) --hard *)

Lemma wt_put_ok_ext : forall w w' q,
  w_files w' = w_files w -> w_dirs w' = w_dirs w -> wt_put_ok w q -> wt_put_ok w' q.
Proof. intros w w' q Hf Hd H. unfold wt_put_ok in *. rewrite Hf, Hd. exact H. Qed.

(* the entries of a stored commit's snapshot name stored blobs *)
Lemma reachable_snapshot_blobs : forall w tid es,
  Reachable w -> w_coll w = false -> SmallStore (w_objs w) ->
  snapshot (w_objs w) tid = Some es ->
  Canonical es /\ Forall valid_entry es /\
  forall en, In en es -> exists data, get_obj (w_objs w) (e_id en) = Some (KBlob, data).
Proof.
  intros w tid es Hr Hc Hs Hsn.
  destruct (snapshot_inv _ _ _ Hsn) as (tc & d & ns & Hg & Hk & Hw & ->).
  destruct (reachable_snapshot w tid tc Hr Hc Hs Hg) as (d' & ns' & Hk' & Hw' & _ & Hcan & Hval).
  rewrite Hk in Hk'. injection Hk' as <-. rewrite Hw in Hw'. injection Hw' as <-.
  split; [exact Hcan|]. split; [exact Hval|].
  destruct Hr as (h & Hall & ->).
  assert (Hgood : Good (run h w_empty)).
  { apply ConnectedFacts.good_run; [exact Hall|]. apply not_bad_iff. split; assumption. }
  destruct Hgood as [Hg0 _]. pose proof (g_trees _ Hg0) as Ht.
  pose proof (flatten_good _ _ (walk_good _ Ht _ _ _ (Ht _ _ Hk) Hw)) as Hall'.
  intros en Hen. rewrite Forall_forall in Hall'. destruct (Hall' en Hen) as [[data Hd] _].
  exists data. apply get_kind_iff. exact Hd.
Qed.

(* what [reset --hard] leaves behind *)
Record reset_hard_result (w : world) (tid : bytes) (es : list entry) (w' : world) : Prop := {
  (* the current branch holds [tid]; HEAD, the other branches, the objects and
     the configuration are untouched *)
  rhr_common : reset_common_post w tid w';
  (* the staging area is the snapshot *)
  rhr_index : idx_of w' = es;
  (* every file of the snapshot holds the committed bytes *)
  rhr_files : forall en, In en es ->
                exists data, get_obj (w_objs w) (e_id en) = Some (KBlob, data) /\
                             file w' (e_path en) = Some data;
  (* every other file is as before (present or absent) *)
  rhr_others : forall q, ~ In q (paths es) -> file w' q = file w q;
  (* directories: none removed; new ones lie above snapshot paths; the parent
     directory of every snapshot path exists *)
  rhr_dirs_mono : forall d, set_mem (w_dirs w) d = true -> set_mem (w_dirs w') d = true;
  rhr_dirs_bound : forall d, set_mem (w_dirs w') d = true ->
                     set_mem (w_dirs w) d = true \/ exists q, In q (paths es) /\ In d (ancestors q);
  rhr_parent : forall q d, In q (paths es) -> parent_dir q = Some d -> wt_stat w' d = SDir
}.

(* the loop of [reset --hard], from the world [w4] whose staging area is [es] *)
Lemma reset_hard_loop : forall w4 es,
  idx_of w4 = es -> Canonical es ->
  (forall en, In en es -> exists data, get_obj (w_objs w4) (e_id en) = Some (KBlob, data)) ->
  (forall q, In q (paths es) -> wt_put_ok w4 q) ->
  (forall q1 q2, In q1 (paths es) -> In q2 (paths es) -> ~ In q1 (ancestors q2)) ->
  exists tr,
    runs (iterM (fun en => w' <- getw ;; kd <- of_opt (get_obj (w_objs w') (e_id en)) ;;
                           wt_put (e_path en) (snd kd)) es) w4 (Ok tt) tr /\
    Forall (wt_G (fun q => In q (paths es)) w4) tr /\
    wd_state w4 (paths es) (apply_effects tr w4).
Proof.
  intros w4 es Hidx Hcan Hblobs Hok Hflat.
  assert (Hblob4 : forall en, In en es -> forall data,
            get_obj (w_objs w4) (e_id en) = Some (KBlob, data) -> blob_of w4 (e_path en) = Some data).
  { intros en Hen data Hd. unfold blob_of. rewrite staged_stg, Hidx, (stg_of_entry es en Hcan Hen), Hd.
    reflexivity. }
  assert (Hblobq : forall q, In q (paths es) -> exists data, blob_of w4 q = Some data).
  { intros q Hq. unfold paths in Hq. apply in_map_iff in Hq. destruct Hq as [en [<- Hen]].
    destruct (Hblobs en Hen) as [data Hd]. exists data. apply (Hblob4 en Hen data Hd). }
  destruct (runs_iterM _ (fun en => w' <- getw ;; kd <- of_opt (get_obj (w_objs w') (e_id en)) ;;
                                    wt_put (e_path en) (snd kd))
              (fun done w1 => wd_state w4 (paths done) w1)
              (wt_G (fun q => In q (paths es)) w4) es w4) as (tr & Hr & Hg & St).
  - apply wd_state_init.
  - intros done x rest w1 El St.
    assert (Hx : In x es) by (rewrite El; apply in_or_app; right; left; reflexivity).
    assert (Hxp : In (e_path x) (paths es)) by (apply in_map; exact Hx).
    assert (Hincl : incl (paths done) (paths es)).
    { intros q Hq. rewrite El. unfold paths. rewrite map_app. apply in_or_app. left. exact Hq. }
    destruct (Hblobs x Hx) as [data Hd].
    pose proof (Hblob4 x Hx data Hd) as Hb.
    pose proof (wd_state_ok w4 (paths es) (paths done) (e_path x) w1 Hok Hflat Hblobq Hincl Hxp St) as Hok1.
    exists (wt_put_trace w1 (e_path x) data). split; [|split].
    + rstep. destruct (wds_objs _ _ _ St) as [Ho _]. rewrite Ho.
      apply (runs_bind_of_opt _ _ _ (KBlob, data)); [exact Hd|]. cbn [snd].
      apply wt_put_runs. exact Hok1.
    + apply (Forall_impl _ (P := wt_G (eq (e_path x)) w1)); [|apply wt_put_trace_eff].
      intros ef Hef. destruct ef; cbn in Hef |- *; try exact Hef. subst path. exact Hxp.
    + unfold paths. rewrite map_app. cbn [map]. apply wd_state_step; assumption.
  - exists tr. auto.
Qed.

Section ResetHard.
  Variables (e : env) (w : world) (c : ctx) (prev : bytes) (pc : commit).
  Variables (n : N) (hl : bytes) (rs : list lrec) (r : lrec) (tid : bytes) (es : list entry).
  Hypothesis Hreach : Reachable w.
  Hypothesis Hcoll : w_coll w = false.
  Hypothesis Hsmall : SmallStore (w_objs w).
  Hypothesis Hctx : ctx_of w = Some c.
  Hypothesis Hheadc : x_headc c = Some (prev, pc).
  Hypothesis Hn : (n <= 9223372036854775807)%N.
  Hypothesis Hhl : w_hlog w = Some hl.
  Hypothesis Hrs : parse_reflog hl = Some rs.
  Hypothesis Hrec : get_record rs (N.to_nat n) = Some r.
  Hypothesis Hid : r_id r = Some tid.
  (* the target's snapshot (it exists: [reset_mixed_total]) can be written to
     the work tree: no file where a directory is needed and no directory at a
     snapshot path ([restorable]); no snapshot path above another *)
  Hypothesis Hsnap : snapshot (w_objs w) tid = Some es.
  Hypothesis Hres : forall q, In q (paths es) -> restorable w q.
  Hypothesis Hflat : forall q1 q2, In q1 (paths es) -> In q2 (paths es) -> ~ In q1 (ancestors q2).

  Theorem reset_hard_total : forall mixed,
    let a := head_at n in
    exists tr, let w' := apply_effects tr w in
      step (ACmd e (CReset false mixed true [a])) w = (w', OOk [], tr) /\
      reset_hard_result w tid es w' /\
      reset_hard_post w tid es w' /\
      Forall (fun ef => match ef with
                        | ESetRef nm id => nm = w_head w /\ id = tid
                        | EAppendHlog _ | EAppendBlog _ _ | EMkdirAll _ => True
                        | ESetIndex i => i = es
                        | EWriteFile q _ => In q (paths es)
                        | _ => False
                        end) tr.
  Proof.
    intros mixed a.
    pose proof (rt_target w n hl rs r tid Hn Hhl Hrs Hrec Hid) as Htgt. fold a in Htgt.
    pose proof (rt_inited w c prev pc Hreach Hctx Hheadc) as Hinit.
    pose proof (rt_branch w c prev pc Hreach Hctx Hheadc) as Hbr.
    destruct (snapshot_inv _ _ _ Hsnap) as (tc & d & ns & Htc & Hk & Hw & Hes).
    destruct (reachable_snapshot_blobs w tid es Hreach Hcoll Hsmall Hsnap) as (Hcan & _ & Hblobs).
    set (tr0 := reset_head_trace e c w prev tid a).
    set (w4 := apply_effect (ESetIndex es) (apply_effects tr0 w)).
    assert (Hf4 : w_files w4 = w_files w) by reflexivity.
    assert (Hd4 : w_dirs w4 = w_dirs w) by reflexivity.
    assert (Ho4 : w_objs w4 = w_objs w) by reflexivity.
    destruct (reset_hard_loop w4 es) as (trl & Hrl & Hgl & St).
    { reflexivity. }
    { exact Hcan. }
    { intros en Hen. rewrite Ho4. apply Hblobs. exact Hen. }
    { intros q Hq. apply (wt_put_ok_ext w w4 q Hf4 Hd4). apply restorable_iff. apply Hres. exact Hq. }
    { exact Hflat. }
    exists (tr0 ++ ESetIndex es :: trl). cbv zeta.
    assert (Hruns : runs (cmd_reset e c false mixed true [a]) w (Ok []) (tr0 ++ ESetIndex es :: trl)).
    { apply (reset_prefix_runs e c w a prev tid pc tc Htgt Hheadc Htc Hbr false mixed true);
        [reflexivity|]. cbn [orb]. cbv zeta.
      ropt d Hk. ropt ns Hw. cbv zeta. rewrite <- Hes.
      apply runs_assoc. rstep. fold w4.
      rewrite <- (app_nil_r trl). apply runs_seq; [exact Hrl|]. rstep. }
    pose proof (step_reset_runs e c w false mixed true [a] (Ok []) _ Hinit Hctx Hruns) as Hstep.
    cbn [outcome_of] in Hstep.
    assert (Hw' : apply_effects (tr0 ++ ESetIndex es :: trl) w = apply_effects trl w4).
    { rewrite apply_effects_app, apply_effects_cons. reflexivity. }
    assert (Hcommon : reset_common_post w tid (apply_effects (tr0 ++ ESetIndex es :: trl) w)).
    { apply reset_common_after. constructor; [exact Logic.I|].
      apply (Forall_impl _ (P := wt_G (fun q => In q (paths es)) w4)); [|exact Hgl].
      intros ef Hef. destruct ef; try contradiction Hef; exact Logic.I. }
    split; [exact Hstep|]. split; [|split].
    - (* the result *)
      rewrite Hw'. destruct St as [Ji Jo Jm Jd Jk Jmono Jbound Jpar].
      assert (Hfile4 : forall q, file w4 q = file w q) by reflexivity.
      constructor.
      + rewrite <- Hw'. exact Hcommon.
      + unfold idx_of in *. rewrite Ji. reflexivity.
      + intros en Hen. destruct (Hblobs en Hen) as [data Hdt]. exists data. split; [exact Hdt|].
        rewrite (Jd (e_path en) (in_map e_path es en Hen)).
        unfold blob_of. rewrite staged_stg. change (idx_of w4) with es.
        rewrite (stg_of_entry es en Hcan Hen), Ho4, Hdt. reflexivity.
      + intros q Hq. rewrite (Jk q Hq). apply Hfile4.
      + intros dd Hdd. apply Jmono. rewrite Hd4. exact Hdd.
      + intros dd Hdd. destruct (Jbound dd Hdd) as [H|H]; [left; rewrite <- Hd4; exact H | right; exact H].
      + (* the parent of a snapshot path is a directory afterwards *)
        intros q dd Hq Hpd.
        pose proof (ex_parent_dir_ancestor q dd Hpd) as Hdq.
        destruct (proj1 (restorable_iff w q) (Hres q Hq)) as (_ & Hanc & _).
        assert (Hnf : forall x, In x (ancestors q) -> am_mem (w_files (apply_effects trl w4)) x = false).
        { intros x Hx. rewrite rf_am_mem_file.
          assert (Hnx : ~ In x (paths es)) by (intro Hin; exact (Hflat x q Hin Hq Hx)).
          rewrite (Jk x Hnx), Hfile4, <- rf_am_mem_file. apply Hanc. exact Hx. }
        unfold wt_stat. destruct (bytes_eqb dd [x2e]) eqn:Edot; [reflexivity|].
        assert (Hex : existsb (fun x => am_mem (w_files (apply_effects trl w4)) x) (ancestors dd) = false).
        { destruct (existsb (fun x => am_mem (w_files (apply_effects trl w4)) x) (ancestors dd)) eqn:E; [|reflexivity].
          apply existsb_exists in E. destruct E as [x [Hx Hm]].
          rewrite (Hnf x (ex_ancestors_trans x dd q Hx Hdq)) in Hm. discriminate Hm. }
        rewrite Hex, (Hnf dd Hdq).
        destruct (Jpar q dd Hq Hpd) as [H|H]; [|rewrite H; reflexivity].
        subst dd. rewrite bytes_eqb_refl in Edot. discriminate Edot.
    - (* in the terms of ExactFacts *)
      destruct (cmd_reset_hard_spec e c mixed a w [] _ _ (runs_run_m _ _ _ _ _ Hruns))
        as (tid' & es' & Ht' & He' & Hpost & _).
      rewrite Htgt in Ht'. injection Ht' as <-.
      rewrite (reset_entries_intro w a tid tc d ns Htgt Htc Hk Hw), <- Hes in He'. injection He' as <-.
      exact Hpost.
    - (* the effects *)
      apply Forall_app. split.
      + unfold tr0, reset_head_trace. repeat constructor.
      + constructor; [reflexivity|].
        apply (Forall_impl _ (P := wt_G (fun q => In q (paths es)) w4)); [|exact Hgl].
        intros ef Hef. destruct ef; try contradiction Hef; exact Hef.
  Qed.
End ResetHard.


(* ================================================================== *)
(** * D. (T3) refused requests change nothing *)

(* on ANY world: an argument that does not resolve is refused without effect *)
Theorem reset_unresolved_refused : forall e soft mixed hard a w,
  ExactFacts.reset_target w a = None ->
  step (ACmd e (CReset soft mixed hard [a])) w = (w, OErr, []).
Proof.
  intros e soft mixed hard a w Ht.
  destruct (w_inited w) eqn:Hi; [|apply step_not_loaded; [discriminate | left; exact Hi]].
  destruct (ctx_of w) as [x|] eqn:Hx; [|apply step_not_loaded; [discriminate | right; exact Hx]].
  destruct (cmd_reset_refused e x soft mixed hard [a] w) as [Hr _].
  { right. right. exists a. auto. }
  rewrite (step_reset_runs e x w soft mixed hard [a] Err [] Hi Hx Hr). reflexivity.
Qed.

(* not exactly one argument, or an invalid combination of mode flags *)
Theorem reset_bad_usage_refused : forall e soft mixed hard args w,
  reset_mode_ok soft mixed hard = false \/ length args <> 1%nat ->
  step (ACmd e (CReset soft mixed hard args)) w = (w, OErr, []).
Proof.
  intros e soft mixed hard args w Hbad.
  destruct (w_inited w) eqn:Hi; [|apply step_not_loaded; [discriminate | left; exact Hi]].
  destruct (ctx_of w) as [x|] eqn:Hx; [|apply step_not_loaded; [discriminate | right; exact Hx]].
  destruct (cmd_reset_refused e x soft mixed hard args w) as [Hr _].
  { destruct Hbad as [H|H]; [left; exact H | right; left; exact H]. }
  rewrite (step_reset_runs e x w soft mixed hard args Err [] Hi Hx Hr). reflexivity.
Qed.

(* a malformed argument: anything but "HEAD@{" digits "}" *)
Corollary reset_malformed_refused : forall e soft mixed hard a w,
  reset_arg a = None -> step (ACmd e (CReset soft mixed hard [a])) w = (w, OErr, []).
Proof. intros e soft mixed hard a w Ha. apply reset_unresolved_refused. apply reset_target_bad_arg. exact Ha. Qed.

(* a position at or beyond the number of journal records *)
Corollary reset_out_of_range_refused : forall e soft mixed hard n w hl rs,
  w_hlog w = Some hl -> parse_reflog hl = Some rs -> (N.of_nat (length rs) <= n)%N ->
  step (ACmd e (CReset soft mixed hard [head_at n])) w = (w, OErr, []).
Proof.
  intros e soft mixed hard n w hl rs Hhl Hrs Hn. apply reset_unresolved_refused.
  apply (reset_target_out_of_range w (head_at n) n hl rs); try assumption. apply reset_arg_accepts.
Qed.

(* a number that does not fit int64 *)
Corollary reset_huge_refused : forall e soft mixed hard n w,
  (9223372036854775807 < n)%N ->
  step (ACmd e (CReset soft mixed hard [head_at n])) w = (w, OErr, []).
Proof.
  intros e soft mixed hard n w Hn. apply reset_unresolved_refused.
  unfold ExactFacts.reset_target, head_at. rewrite reset_arg_accepts.
  assert (E : N.leb n 9223372036854775807 = false) by (apply N.leb_gt; exact Hn).
  rewrite E. reflexivity.
Qed.

(* no journal yet *)
Corollary reset_no_journal_refused : forall e soft mixed hard a w,
  w_hlog w = None -> step (ACmd e (CReset soft mixed hard [a])) w = (w, OErr, []).
Proof.
  intros e soft mixed hard a w Hhl. apply reset_unresolved_refused.
  unfold ExactFacts.reset_target. rewrite Hhl.
  destruct (reset_arg a) as [n|]; [destruct (N.leb n 9223372036854775807)|]; reflexivity.
Qed.

(* a record without commit id *)
Corollary reset_no_id_refused : forall e soft mixed hard n w hl rs r,
  w_hlog w = Some hl -> parse_reflog hl = Some rs ->
  get_record rs (N.to_nat n) = Some r -> r_id r = None ->
  step (ACmd e (CReset soft mixed hard [head_at n])) w = (w, OErr, []).
Proof.
  intros e soft mixed hard n w hl rs r Hhl Hrs Hrec Hid. apply reset_unresolved_refused.
  assert (Hlt : (N.to_nat n < length rs)%nat) by (apply get_record_total; exists r; exact Hrec).
  apply (reset_target_zero_id w (head_at n) n hl rs r); try assumption.
  - apply reset_arg_accepts.
  - rewrite N.min_l by lia. exact Hrec.
Qed.

(* (T3) collected, for a reachable world: the journal reads back (so the
   cases are exhaustive for a well-formed argument) *)
Theorem reset_refused_on_reachable : forall e soft mixed hard a w,
  Reachable w ->
  (reset_arg a = None \/
   (exists n, a = head_at n /\
      (w_hlog w = None \/
       (9223372036854775807 < n)%N \/
       exists hl rs, w_hlog w = Some hl /\ parse_reflog hl = Some rs /\
         ((N.of_nat (length rs) <= n)%N \/
          exists r, get_record rs (N.to_nat n) = Some r /\ r_id r = None)))) ->
  step (ACmd e (CReset soft mixed hard [a])) w = (w, OErr, []).
Proof.
  intros e soft mixed hard a w _ [Hbad | (n & -> & [Hno | [Hbig | (hl & rs & Hhl & Hrs & [Hout | (r & Hrec & Hid)])]])].
  - apply reset_malformed_refused. exact Hbad.
  - apply reset_no_journal_refused. exact Hno.
  - apply reset_huge_refused. exact Hbig.
  - apply (reset_out_of_range_refused e soft mixed hard n w hl rs); assumption.
  - apply (reset_no_id_refused e soft mixed hard n w hl rs r); assumption.
Qed.

(* ... and they ARE exhaustive: on a reachable, loaded world whose current
   branch has a commit, [reset --soft/--mixed HEAD@{n}] either succeeds
   ([reset_soft_total], [reset_mixed_total]) or is one of the cases above *)
Theorem reset_position_cases : forall w n,
  Reachable w ->
  w_hlog w = None \/ (9223372036854775807 < n)%N \/
  exists hl rs, w_hlog w = Some hl /\ parse_reflog hl = Some rs /\
    ((N.of_nat (length rs) <= n)%N \/
     (exists r, get_record rs (N.to_nat n) = Some r /\ r_id r = None) \/
     (n <= 9223372036854775807)%N /\ exists r tid, get_record rs (N.to_nat n) = Some r /\ r_id r = Some tid).
Proof.
  intros w n Hr. destruct (w_hlog w) as [hl|] eqn:Hhl; [|left; reflexivity]. right.
  destruct (N.ltb 9223372036854775807 n) eqn:En; [left; apply N.ltb_lt; exact En|]. right.
  apply N.ltb_ge in En.
  destruct (reachable_journal_parses w hl Hr Hhl) as [rs Hrs]. exists hl, rs.
  split; [reflexivity|]. split; [exact Hrs|].
  destruct (N.leb (N.of_nat (length rs)) n) eqn:El; [left; apply N.leb_le; exact El|]. right.
  apply N.leb_gt in El.
  assert (Hlt : (N.to_nat n < length rs)%nat) by lia.
  apply get_record_total in Hlt. destruct Hlt as [r Hrec].
  destruct (r_id r) as [tid|] eqn:Hid.
  - right. split; [exact En|]. exists r, tid. auto.
  - left. exists r. auto.
Qed.

(* the records without id of a reachable journal: `branch --rename` writes
   one.  After a successful rename the record at position 1 names no commit
   and `reset HEAD@{1}` is refused, in every mode *)
Theorem reset_to_rename_record_refused : forall e args lst rename delete w w' out tr,
  Reachable w -> is_nil rename = false ->
  step (ACmd e (CBranch args lst rename delete)) w = (w', OOk out, tr) ->
  forall e' soft mixed hard, step (ACmd e' (CReset soft mixed hard [head_at 1])) w' = (w', OErr, []).
Proof.
  intros e args lst rename delete w w' out tr Hr Hn Hs e' soft mixed hard.
  assert (Hcl : cmd_names_clean (CBranch args lst rename delete)).
  { destruct (cmd_names_clean_dec (CBranch args lst rename delete)) as [H|H]; [exact H|].
    rewrite (unclean_cmd_refused e _ w H) in Hs. discriminate Hs. }
  destruct (reflog_extends e _ w w' out tr (reachable_JInv w Hr) Hcl Hs) as (rs0 & _ & Hrs').
  cbn [journal_delta] in Hrs'. rewrite Hn in Hrs'.
  destruct (w_hlog w') as [hl'|] eqn:Hhl'.
  2:{ apply reset_no_journal_refused. exact Hhl'. }
  unfold hlog_bytes in Hrs'. rewrite Hhl' in Hrs'.
  apply (reset_no_id_refused e' soft mixed hard 1 w' hl' _ (rec_of None RBranch (rename_msg' (w_head w) rename)) Hhl' Hrs').
  - change (N.to_nat 1) with 1%nat.
    change (rs0 ++ [rec_of None RBranch (rename_msg' (w_head w) rename);
                    rec_of (head_id w') RBranch (rename_msg' (w_head w) rename)])
      with (rs0 ++ [rec_of None RBranch (rename_msg' (w_head w) rename)] ++
                    [rec_of (head_id w') RBranch (rename_msg' (w_head w) rename)]).
    rewrite app_assoc.
    rewrite (proj2 (get_record_app (rs0 ++ [rec_of None RBranch (rename_msg' (w_head w) rename)]) _ 0)).
    apply (proj1 (get_record_app rs0 _ 0)).
  - reflexivity.
Qed.


(* ================================================================== *)
(** * E. (T4) after a --mixed / --hard reset `status` lists nothing as staged *)

Lemma reachable_step : forall a w, action_ok a -> Reachable w -> Reachable (step_w a w).
Proof.
  intros a w Ha (h & Hall & ->). exists (h ++ [a]). split.
  - apply Forall_app. split; [exact Hall | constructor; [exact Ha | constructor]].
  - rewrite run_app. reflexivity.
Qed.

(* whenever the staging area is the snapshot of the commit HEAD resolves to *)
Lemma status_clean_at_snapshot : forall w c tid,
  GoodW w -> w_inited w = true -> ctx_of w = Some c -> tip_of w = Some tid ->
  snapshot (w_objs w) tid = Some (idx_of w) ->
  forall e, step (ACmd e CStatus) w = (w, OOk (unstaged_lines w c), []) /\
            filter is_staged_line (unstaged_lines w c) = [] /\
            (forall l, In l (unstaged_lines w c) -> is_staged_line l = false).
Proof.
  intros w c tid Hg Hi Hx Ht Hsn e.
  destruct (head_nodes_snapshot w c tid _ Hx Ht Hsn) as (cm & d & ns & Hc & Hgc & Hk & Hw & Hn & Hf).
  assert (Hd : diff_with_tree (idx_of w) ns = []).
  { apply (commit_guard w tid cm d ns Hg Hgc Hk Hw). exact Hsn. }
  split; [|split; [apply unstaged_not_staged | apply unstaged_line_not_staged]].
  rewrite (status_step e w c ns Hi Hx).
  - unfold staged_lines. rewrite Hd. reflexivity.
  - unfold status_nodes. rewrite Hc. exact Hn.
Qed.

(* the context the next command loads after a reset *)
Lemma ctx_after_reset : forall w w' c tid tc pats,
  ctx_of w = Some c -> reset_common_post w tid w' -> get_commit (w_objs w) tid = Some tc ->
  ign_load (file w' (str ".goitignore")) = Some pats ->
  ctx_of w' = Some (mkCtx (x_l c) (x_g c) (Some (tid, tc)) pats).
Proof.
  intros w w' c tid tc pats Hx [Hb _ Hh [Ho _] (El & Eg & _)] Htc Hpats.
  unfold ctx_of in *. unfold file in Hpats. rewrite El, Eg, Hpats.
  assert (Hhc : head_commit w' = Some (Some (tid, tc))).
  { unfold head_commit. rewrite Hh, Hb, Ho, Htc. reflexivity. }
  rewrite Hhc.
  destruct (cfg_of (w_gcfg w)) as [g|]; [|discriminate Hx].
  destruct (cfg_of (w_lcfg w)) as [l|]; [|discriminate Hx].
  destruct (head_commit w) as [hc0|]; [|discriminate Hx].
  destruct (ign_load (am_get (w_files w) (str ".goitignore"%string))) as [p0|]; [|discriminate Hx].
  injection Hx as <-. reflexivity.
Qed.

(* the common core: a world [w'] a reset has produced *)
Lemma reset_result_status_clean : forall w w' c' tid es,
  Reachable w' -> w_coll w = false -> SmallStore (w_objs w) -> w_inited w = true ->
  reset_common_post w tid w' -> snapshot (w_objs w) tid = Some es -> idx_of w' = es ->
  ctx_of w' = Some c' ->
  forall e, step (ACmd e CStatus) w' = (w', OOk (unstaged_lines w' c'), []) /\
            filter is_staged_line (unstaged_lines w' c') = [] /\
            (forall l, In l (unstaged_lines w' c') -> is_staged_line l = false).
Proof.
  intros w w' c' tid es Hr' Hc Hs Hi Hpost Hsn Hidx Hx'.
  destruct Hpost as [Hb _ Hh [Ho Hcl] (_ & _ & Hin)].
  apply (status_clean_at_snapshot w' c' tid).
  - apply reachable_good; [exact Hr' | rewrite Hcl; exact Hc | rewrite Ho; exact Hs].
  - rewrite Hin. exact Hi.
  - exact Hx'.
  - unfold tip_of. rewrite Hh. exact Hb.
  - rewrite Ho, Hidx. exact Hsn.
Qed.

Section ResetThenStatus.
  Variables (e : env) (w : world) (c : ctx) (prev : bytes) (pc : commit).
  Variables (n : N) (hl : bytes) (rs : list lrec) (r : lrec) (tid : bytes).
  Hypothesis Hreach : Reachable w.
  Hypothesis Hcoll : w_coll w = false.
  Hypothesis Hsmall : SmallStore (w_objs w).
  Hypothesis Hctx : ctx_of w = Some c.
  Hypothesis Hheadc : x_headc c = Some (prev, pc).
  Hypothesis Hn : (n <= 9223372036854775807)%N.
  Hypothesis Hhl : w_hlog w = Some hl.
  Hypothesis Hrs : parse_reflog hl = Some rs.
  Hypothesis Hrec : get_record rs (N.to_nat n) = Some r.
  Hypothesis Hid : r_id r = Some tid.

  (* --mixed: the next `status` succeeds, changes nothing, and none of its
     lines is a "staged-" line; the context it loads differs from the one of
     the reset only by the commit HEAD resolves to *)
  Theorem reset_mixed_then_status_clean :
    exists w' tr tc,
      step (ACmd e (CReset false true false [head_at n])) w = (w', OOk [], tr) /\
      get_commit (w_objs w) tid = Some tc /\
      let c' := mkCtx (x_l c) (x_g c) (Some (tid, tc)) (x_pats c) in
      ctx_of w' = Some c' /\
      forall e', step (ACmd e' CStatus) w' = (w', OOk (unstaged_lines w' c'), []) /\
                 filter is_staged_line (unstaged_lines w' c') = [] /\
                 (forall l, In l (unstaged_lines w' c') -> is_staged_line l = false).
  Proof.
    destruct (reset_mixed_total e w c prev pc n hl rs r tid Hreach Hcoll Hsmall Hctx Hheadc Hn Hhl Hrs Hrec Hid)
      as (es & Hsn & Hstep & Hpost & Hidx & [Hf Hd]).
    cbv zeta in Hstep, Hpost, Hidx, Hf, Hd.
    set (tr := reset_head_trace e c w prev tid (head_at n) ++ [ESetIndex es]) in *.
    set (w' := apply_effects tr w) in *.
    destruct (snapshot_inv _ _ _ Hsn) as (tc & _ & _ & Htc & _).
    exists w', tr, tc. split; [exact Hstep|]. split; [exact Htc|]. cbv zeta.
    assert (Hpats : ign_load (file w' (str ".goitignore")) = Some (x_pats c)).
    { unfold file. rewrite Hf. unfold ctx_of in Hctx.
      destruct (cfg_of (w_gcfg w)); [|discriminate Hctx].
      destruct (cfg_of (w_lcfg w)); [|discriminate Hctx].
      destruct (head_commit w); [|discriminate Hctx].
      destruct (ign_load (am_get (w_files w) (str ".goitignore"%string))) as [p0|]; [|discriminate Hctx].
      injection Hctx as <-. reflexivity. }
    pose proof (ctx_after_reset w w' c tid tc (x_pats c) Hctx Hpost Htc Hpats) as Hx'.
    split; [exact Hx'|].
    apply (reset_result_status_clean w w' _ tid es); try assumption.
    - assert (Hw' : w' = step_w (ACmd e (CReset false true false [head_at n])) w)
        by (unfold step_w; rewrite Hstep; reflexivity).
      rewrite Hw'. apply reachable_step; [exact Logic.I | exact Hreach].
    - exact (rt_inited w c prev pc Hreach Hctx Hheadc).
  Qed.

  (* --hard: the same, provided the `.goitignore` the reset has left in the
     work tree (it may be a file of the snapshot) is one Goit can load *)
  Theorem reset_hard_then_status_clean : forall mixed es,
    snapshot (w_objs w) tid = Some es ->
    (forall q, In q (paths es) -> restorable w q) ->
    (forall q1 q2, In q1 (paths es) -> In q2 (paths es) -> ~ In q1 (ancestors q2)) ->
    exists w' tr tc,
      step (ACmd e (CReset false mixed true [head_at n])) w = (w', OOk [], tr) /\
      reset_hard_result w tid es w' /\
      get_commit (w_objs w) tid = Some tc /\
      forall pats, ign_load (file w' (str ".goitignore")) = Some pats ->
        let c' := mkCtx (x_l c) (x_g c) (Some (tid, tc)) pats in
        ctx_of w' = Some c' /\
        forall e', step (ACmd e' CStatus) w' = (w', OOk (unstaged_lines w' c'), []) /\
                   filter is_staged_line (unstaged_lines w' c') = [] /\
                   (forall l, In l (unstaged_lines w' c') -> is_staged_line l = false).
  Proof.
    intros mixed es Hsn Hres Hflat.
    destruct (reset_hard_total e w c prev pc n hl rs r tid es Hreach Hcoll Hsmall Hctx Hheadc Hn Hhl Hrs Hrec Hid
                Hsn Hres Hflat mixed) as (tr & Hstep & Hres' & _ & _).
    cbv zeta in Hstep, Hres'. set (w' := apply_effects tr w) in *.
    destruct (snapshot_inv _ _ _ Hsn) as (tc & _ & _ & Htc & _).
    exists w', tr, tc. split; [exact Hstep|]. split; [exact Hres'|]. split; [exact Htc|].
    intros pats Hpats. cbv zeta.
    pose proof (ctx_after_reset w w' c tid tc pats Hctx (rhr_common _ _ _ _ Hres') Htc Hpats) as Hx'.
    split; [exact Hx'|].
    apply (reset_result_status_clean w w' _ tid es); try assumption.
    - assert (Hw' : w' = step_w (ACmd e (CReset false mixed true [head_at n])) w)
        by (unfold step_w; rewrite Hstep; reflexivity).
      rewrite Hw'. apply reachable_step; [exact Logic.I | exact Hreach].
    - exact (rt_inited w c prev pc Hreach Hctx Hheadc).
    - exact (rhr_common _ _ _ _ Hres').
    - exact (rhr_index _ _ _ _ Hres').
  Qed.
End ResetThenStatus.


(* ================================================================== *)
(** * F. Non-vacuity: a history with three commits, a second branch, a
      rename, a dirty work tree, and resets to the positions 0..5 *)

(* decision procedures for the two hypotheses of (T2) *)
Definition restorable_b (w : world) (q : bytes) : bool :=
  match wt_stat w q with SFile | SNone => true | _ => false end.
Definition flat_b (l : list bytes) : bool :=
  forallb (fun q1 => forallb (fun q2 => negb (existsb (bytes_eqb q1) (ancestors q2))) l) l.

Lemma restorable_b_ok : forall w l, forallb (restorable_b w) l = true ->
  forall q, In q l -> restorable w q.
Proof.
  intros w l H q Hq. rewrite forallb_forall in H. specialize (H q Hq).
  unfold restorable_b in H. unfold restorable. destruct (wt_stat w q); try discriminate H; auto.
Qed.

Lemma flat_b_ok : forall l, flat_b l = true ->
  forall q1 q2, In q1 l -> In q2 l -> ~ In q1 (ancestors q2).
Proof.
  intros l H q1 q2 H1 H2 Hin. unfold flat_b in H. rewrite forallb_forall in H.
  specialize (H q1 H1). rewrite forallb_forall in H. specialize (H q2 H2).
  apply negb_true_iff in H.
  assert (Hex : existsb (bytes_eqb q1) (ancestors q2) = true).
  { apply existsb_exists. exists q1. split; [exact Hin | apply bytes_eqb_refl]. }
  rewrite Hex in H. discriminate H.
Qed.

Definition zx_env : env := mkEnv 1700000000 32400.
Definition zx_cmd (c : cmd) : action := ACmd zx_env c.
Definition zx_hist : list action :=
  [ zx_cmd CInit;
    zx_cmd (CConfig false [str "user.name"; str "Ada L"]);
    zx_cmd (CConfig false [str "user.email"; str "ada@example.com"]);
    AEdit (UWrite (str "a") (str "one"));
    AEdit (UWrite (str "d/x") (str "dx"));
    zx_cmd (CAdd [str "."]);
    zx_cmd (CCommit (str "c1"));                       (* journal record 0 *)
    zx_cmd (CBranch [str "side"] false [] []);         (* a second branch at c1 *)
    AEdit (UWrite (str "a") (str "two"));
    zx_cmd (CAdd [str "a"]);
    zx_cmd (CCommit (str "c2"));                       (* record 1 *)
    zx_cmd (CBranch [] false (str "trunk") []);        (* records 2 (no id) and 3 *)
    AEdit (UWrite (str "d/y") (str "dy"));
    zx_cmd (CAdd [str "."]);
    zx_cmd (CCommit (str "c3"));                       (* record 4 *)
    (* the work tree at the time of the reset: a modified, d removed, u untracked *)
    AEdit (UWrite (str "a") (str "dirty"));
    AEdit (URmTree (str "d"));
    AEdit (UWrite (str "u") (str "untracked")) ].

Definition zx_w : world := Eval vm_compute in run zx_hist w_empty.
Lemma zx_w_run : zx_w = run zx_hist w_empty.
Proof. vm_compute. reflexivity. Qed.

Fixpoint zx_outcomes (h : list action) (w : world) : list bool :=
  match h with
  | [] => []
  | a :: r => (match snd (fst (step a w)) with OOk _ => true | _ => false end) :: zx_outcomes r (step_w a w)
  end.
Example zx_all_succeed : forallb (fun b => b) (zx_outcomes zx_hist w_empty) = true.
Proof. vm_compute. reflexivity. Qed.

Lemma zx_reachable : Reachable zx_w.
Proof. exists zx_hist. split; [|exact zx_w_run]. apply action_ok_b_ok. vm_compute. reflexivity. Qed.
Lemma zx_coll : w_coll zx_w = false. Proof. vm_compute. reflexivity. Qed.
Lemma zx_small : SmallStore (w_objs zx_w). Proof. apply small_store_b. vm_compute. reflexivity. Qed.

Definition zx_get {A : Type} (d : A) (o : option A) : A := match o with Some x => x | None => d end.
Definition zx_c := Eval vm_compute in zx_get (mkCtx [] [] None []) (ctx_of zx_w).
Lemma zx_ctx : ctx_of zx_w = Some zx_c. Proof. vm_compute. reflexivity. Qed.
Definition zx_id (o : option bytes) : bytes := match o with Some i => i | None => [] end.
(* the three commits *)
Definition zx_rs := Eval vm_compute in zx_get [] (parse_reflog (hlog_bytes zx_w)).
Definition zx_hl := Eval vm_compute in hlog_bytes zx_w.
Lemma zx_hlog : w_hlog zx_w = Some zx_hl. Proof. vm_compute. reflexivity. Qed.
Lemma zx_parse : parse_reflog zx_hl = Some zx_rs. Proof. vm_compute. reflexivity. Qed.
Definition zx_c1 := Eval vm_compute in zx_id (r_id (nth 0 zx_rs (mkRec None RCommit []))).
Definition zx_c2 := Eval vm_compute in zx_id (r_id (nth 1 zx_rs (mkRec None RCommit []))).
Definition zx_c3 := Eval vm_compute in zx_id (r_id (nth 4 zx_rs (mkRec None RCommit []))).
Definition zx_pc := Eval vm_compute in snd (zx_get ([], mkCommit [] [] None None []) (x_headc zx_c)).
Lemma zx_headc : x_headc zx_c = Some (zx_c3, zx_pc). Proof. vm_compute. reflexivity. Qed.

(* the journal, oldest first, and what `reflog` prints (newest first) *)
Example zx_journal :
  zx_rs = [mkRec (Some zx_c1) RCommit (str "c1");
           mkRec (Some zx_c2) RCommit (str "c2");
           mkRec None RBranch (str "renamed refs/heads/main to refs/heads/trunk");
           mkRec (Some zx_c2) RBranch (str "renamed refs/heads/main to refs/heads/trunk");
           mkRec (Some zx_c3) RCommit (str "c3")]
  /\ zx_c1 <> zx_c2 /\ zx_c2 <> zx_c3 /\ zx_c1 <> zx_c3.
Proof. vm_compute. repeat split; try reflexivity; discriminate. Qed.

Example zx_reflog_output :
  step (zx_cmd CReflog) zx_w =
  (zx_w, OOk [short_id (Some zx_c3) ++ str " 0 commit c3";
              short_id (Some zx_c2) ++ str " 1 branch renamed refs/heads/main to refs/heads/trunk";
              short_id None ++ str " 2 branch renamed refs/heads/main to refs/heads/trunk";
              short_id (Some zx_c2) ++ str " 3 commit c2";
              short_id (Some zx_c1) ++ str " 4 commit c1"], []).
Proof. unfold zx_cmd. rewrite (reflog_step zx_env zx_w zx_c zx_hl zx_rs); [| reflexivity | exact zx_ctx | exact zx_hlog | exact zx_parse]. vm_compute. reflexivity. Qed.

Example zx_state :
  w_head zx_w = str "trunk" /\
  w_refs zx_w = [(str "side", zx_c1); (str "trunk", zx_c3)] /\
  map e_path (idx_of zx_w) = [str "a"; str "d/x"; str "d/y"] /\
  w_files zx_w = [(str "a", str "dirty"); (str "u", str "untracked")] /\ w_dirs zx_w = [].
Proof. vm_compute. repeat split. Qed.

Lemma zx_le : forall k, (k <= 5)%N -> (k <= 9223372036854775807)%N.
Proof. intros k H. lia. Qed.

(* ---------- the positions 0, 1, 3, 4 name commits: every mode succeeds ---------- *)
Definition zx_rec (n : nat) : lrec := nth (4 - n) zx_rs (mkRec None RCommit []).

(* (T1) --soft to position 4 (the first commit) *)
Example zx_soft_4 :
  let a := head_at 4 in
  let tr := reset_head_trace zx_env zx_c zx_w zx_c3 zx_c1 a in
  let w' := apply_effects tr zx_w in
  step (ACmd zx_env (CReset true false false [a])) zx_w = (w', OOk [], tr) /\
  reset_common_post zx_w zx_c1 w' /\ w_index w' = w_index zx_w /\ same_wt zx_w w'.
Proof.
  apply (reset_soft_total zx_env zx_w zx_c zx_c3 zx_pc 4 zx_hl zx_rs (zx_rec 4) zx_c1
           zx_reachable zx_coll zx_small zx_ctx zx_headc).
  - apply zx_le. lia.
  - exact zx_hlog.
  - exact zx_parse.
  - vm_compute. reflexivity.
  - vm_compute. reflexivity.
Qed.

(* the same step, computed: the current branch moved, `side` did not *)
Example zx_soft_4_computed :
  let '(w', o, tr) := step (zx_cmd (CReset true false false [head_at 4])) zx_w in
  o = OOk [] /\ w_head w' = str "trunk" /\
  w_refs w' = [(str "side", zx_c1); (str "trunk", zx_c1)] /\
  w_index w' = w_index zx_w /\ w_files w' = w_files zx_w /\ w_dirs w' = w_dirs zx_w /\
  w_objs w' = w_objs zx_w /\ length tr = 3%nat.
Proof. vm_compute. repeat split. Qed.

(* (T1) --mixed to position 3 (the second commit): its snapshot is a, d/x *)
Definition zx_es2 := Eval vm_compute in zx_get [] (snapshot (w_objs zx_w) zx_c2).
Lemma zx_snap2 : snapshot (w_objs zx_w) zx_c2 = Some zx_es2. Proof. vm_compute. reflexivity. Qed.

Example zx_mixed_3 :
  exists es, snapshot (w_objs zx_w) zx_c2 = Some es /\
    let a := head_at 3 in
    let tr := reset_head_trace zx_env zx_c zx_w zx_c3 zx_c2 a ++ [ESetIndex es] in
    let w' := apply_effects tr zx_w in
    step (ACmd zx_env (CReset false true false [a])) zx_w = (w', OOk [], tr) /\
    reset_common_post zx_w zx_c2 w' /\ idx_of w' = es /\ same_wt zx_w w'.
Proof.
  apply (reset_mixed_total zx_env zx_w zx_c zx_c3 zx_pc 3 zx_hl zx_rs (zx_rec 3) zx_c2
           zx_reachable zx_coll zx_small zx_ctx zx_headc).
  - apply zx_le. lia.
  - exact zx_hlog.
  - exact zx_parse.
  - vm_compute. reflexivity.
  - vm_compute. reflexivity.
Qed.

Example zx_mixed_3_computed :
  let '(w', o, tr) := step (zx_cmd (CReset false true false [head_at 3])) zx_w in
  o = OOk [] /\ w_head w' = str "trunk" /\
  w_refs w' = [(str "side", zx_c1); (str "trunk", zx_c2)] /\
  idx_of w' = zx_es2 /\ map e_path zx_es2 = [str "a"; str "d/x"] /\
  w_files w' = w_files zx_w /\ w_dirs w' = w_dirs zx_w /\ length tr = 4%nat.
Proof. vm_compute. repeat split. Qed.

(* position 1 is the second record of the rename: it names c2 as well *)
Example zx_mixed_1_computed :
  let '(w', o, tr) := step (zx_cmd (CReset false true false [head_at 1])) zx_w in
  o = OOk [] /\ w_refs w' = [(str "side", zx_c1); (str "trunk", zx_c2)] /\ idx_of w' = zx_es2.
Proof. vm_compute. repeat split. Qed.

(* (T4) after that --mixed reset `status` lists nothing as staged; the
   modified file, the two deleted ones and the untracked one are reported *)
Example zx_mixed_3_then_status :
  exists w' tr tc,
    step (ACmd zx_env (CReset false true false [head_at 3])) zx_w = (w', OOk [], tr) /\
    get_commit (w_objs zx_w) zx_c2 = Some tc /\
    let c' := mkCtx (x_l zx_c) (x_g zx_c) (Some (zx_c2, tc)) (x_pats zx_c) in
    ctx_of w' = Some c' /\
    forall e', step (ACmd e' CStatus) w' = (w', OOk (unstaged_lines w' c'), []) /\
               filter is_staged_line (unstaged_lines w' c') = [] /\
               (forall l, In l (unstaged_lines w' c') -> is_staged_line l = false).
Proof.
  apply (reset_mixed_then_status_clean zx_env zx_w zx_c zx_c3 zx_pc 3 zx_hl zx_rs (zx_rec 3) zx_c2
           zx_reachable zx_coll zx_small zx_ctx zx_headc).
  - apply zx_le. lia.
  - exact zx_hlog.
  - exact zx_parse.
  - vm_compute. reflexivity.
  - vm_compute. reflexivity.
Qed.

Example zx_mixed_3_status_computed :
  snd (fst (step (zx_cmd CStatus) (step_w (zx_cmd (CReset false true false [head_at 3])) zx_w))) =
  OOk [str "modified a"; str "deleted d/x"; str "untracked u"].
Proof. vm_compute. reflexivity. Qed.

(* whereas after --soft the staged section shows the difference *)
Example zx_soft_3_status_computed :
  snd (fst (step (zx_cmd CStatus) (step_w (zx_cmd (CReset true false false [head_at 3])) zx_w))) =
  OOk [str "staged-new d/y"; str "modified a"; str "deleted d/x"; str "deleted d/y";
       str "untracked u"].
Proof. vm_compute. reflexivity. Qed.

(* (T2) --hard to position 0 (the third commit, where HEAD already is): the
   snapshot a, d/x, d/y is written over the dirty work tree, the removed
   directory d is made again, the untracked file stays *)
Definition zx_es3 := Eval vm_compute in zx_get [] (snapshot (w_objs zx_w) zx_c3).
Lemma zx_snap3 : snapshot (w_objs zx_w) zx_c3 = Some zx_es3. Proof. vm_compute. reflexivity. Qed.

Example zx_hard_0 : forall mixed,
  let a := head_at 0 in
  exists tr, let w' := apply_effects tr zx_w in
    step (ACmd zx_env (CReset false mixed true [a])) zx_w = (w', OOk [], tr) /\
    reset_hard_result zx_w zx_c3 zx_es3 w' /\
    reset_hard_post zx_w zx_c3 zx_es3 w' /\
    Forall (fun ef => match ef with
                      | ESetRef nm id => nm = w_head zx_w /\ id = zx_c3
                      | EAppendHlog _ | EAppendBlog _ _ | EMkdirAll _ => True
                      | ESetIndex i => i = zx_es3
                      | EWriteFile q _ => In q (paths zx_es3)
                      | _ => False
                      end) tr.
Proof.
  apply (reset_hard_total zx_env zx_w zx_c zx_c3 zx_pc 0 zx_hl zx_rs (zx_rec 0) zx_c3 zx_es3
           zx_reachable zx_coll zx_small zx_ctx zx_headc).
  - apply zx_le. lia.
  - exact zx_hlog.
  - exact zx_parse.
  - vm_compute. reflexivity.
  - vm_compute. reflexivity.
  - exact zx_snap3.
  - apply restorable_b_ok. vm_compute. reflexivity.
  - apply flat_b_ok. vm_compute. reflexivity.
Qed.

Example zx_hard_0_computed :
  let '(w', o, tr) := step (zx_cmd (CReset false false true [head_at 0])) zx_w in
  o = OOk [] /\ w_refs w' = w_refs zx_w /\ idx_of w' = zx_es3 /\
  w_files w' = [(str "a", str "two"); (str "d/x", str "dx"); (str "d/y", str "dy"); (str "u", str "untracked")] /\
  w_dirs w' = [str "d"] /\
  map (fun ef => match ef with EWriteFile q _ => q | EMkdirAll q => str "mkdir " ++ q | _ => [] end) tr =
    [[]; []; []; []; str "a"; str "mkdir d"; str "d/x"; str "d/y"].
Proof. vm_compute. repeat split. Qed.

(* --hard to position 4 (the first commit): a, d/x *)
Definition zx_es1 := Eval vm_compute in zx_get [] (snapshot (w_objs zx_w) zx_c1).
Lemma zx_snap1 : snapshot (w_objs zx_w) zx_c1 = Some zx_es1. Proof. vm_compute. reflexivity. Qed.

Example zx_hard_4_then_status : forall mixed,
  exists w' tr tc,
    step (ACmd zx_env (CReset false mixed true [head_at 4])) zx_w = (w', OOk [], tr) /\
    reset_hard_result zx_w zx_c1 zx_es1 w' /\
    get_commit (w_objs zx_w) zx_c1 = Some tc /\
    forall pats, ign_load (file w' (str ".goitignore")) = Some pats ->
      let c' := mkCtx (x_l zx_c) (x_g zx_c) (Some (zx_c1, tc)) pats in
      ctx_of w' = Some c' /\
      forall e', step (ACmd e' CStatus) w' = (w', OOk (unstaged_lines w' c'), []) /\
                 filter is_staged_line (unstaged_lines w' c') = [] /\
                 (forall l, In l (unstaged_lines w' c') -> is_staged_line l = false).
Proof.
  intro mixed.
  apply (reset_hard_then_status_clean zx_env zx_w zx_c zx_c3 zx_pc 4 zx_hl zx_rs (zx_rec 4) zx_c1
           zx_reachable zx_coll zx_small zx_ctx zx_headc).
  - apply zx_le. lia.
  - exact zx_hlog.
  - exact zx_parse.
  - vm_compute. reflexivity.
  - vm_compute. reflexivity.
  - exact zx_snap1.
  - apply restorable_b_ok. vm_compute. reflexivity.
  - apply flat_b_ok. vm_compute. reflexivity.
Qed.

Example zx_hard_4_computed :
  let w' := step_w (zx_cmd (CReset false false true [head_at 4])) zx_w in
  w_refs w' = [(str "side", zx_c1); (str "trunk", zx_c1)] /\ idx_of w' = zx_es1 /\
  w_files w' = [(str "a", str "one"); (str "d/x", str "dx"); (str "u", str "untracked")] /\
  w_dirs w' = [str "d"] /\
  snd (fst (step (zx_cmd CStatus) w')) = OOk [str "untracked u"].
Proof. vm_compute. repeat split. Qed.

(* ---------- (T3) the positions 2 and 5, and malformed arguments ---------- *)
Example zx_position_2_refused : forall e soft mixed hard,
  step (ACmd e (CReset soft mixed hard [head_at 2])) zx_w = (zx_w, OErr, []).
Proof.
  intros e soft mixed hard. apply reset_refused_on_reachable; [exact zx_reachable|].
  right. exists 2%N. split; [reflexivity|]. right. right. exists zx_hl, zx_rs.
  split; [exact zx_hlog|]. split; [exact zx_parse|]. right. exists (zx_rec 2).
  split; vm_compute; reflexivity.
Qed.

Example zx_position_5_refused : forall e soft mixed hard,
  step (ACmd e (CReset soft mixed hard [head_at 5])) zx_w = (zx_w, OErr, []).
Proof.
  intros e soft mixed hard. apply reset_refused_on_reachable; [exact zx_reachable|].
  right. exists 5%N. split; [reflexivity|]. right. right. exists zx_hl, zx_rs.
  split; [exact zx_hlog|]. split; [exact zx_parse|]. left. vm_compute. discriminate.
Qed.

Example zx_malformed_refused : forall e soft mixed hard a,
  In a [str "HEAD@{}"; str "HEAD@{1}x"; str "xHEAD@{1}"; str "head@{1}"; str "HEAD@{-1}"; str "HEAD@{ 1}";
        str "HEAD"; str "trunk"; str ""; str "HEAD@{1"; head_at 9223372036854775808] ->
  step (ACmd e (CReset soft mixed hard [a])) zx_w = (zx_w, OErr, []).
Proof.
  intros e soft mixed hard a Hin. apply reset_unresolved_refused.
  cbn [In] in Hin.
  repeat (destruct Hin as [<-|Hin]; [vm_compute; reflexivity|]). destruct Hin.
Qed.

Example zx_positions_computed :
  map (fun n => snd (fst (step (zx_cmd (CReset true false false [head_at n])) zx_w))) [0; 1; 2; 3; 4; 5]%N =
  [OOk []; OOk []; OErr; OOk []; OOk []; OErr].
Proof. vm_compute. reflexivity. Qed.

(* ---------- the hypotheses of (T2) are needed ---------- *)
Definition zx_show (x : world * outcome * list effect) :=
  let '(w', o, tr) := x in
  (o, map (fun ef => match ef with
                     | EWriteFile q _ => str "write " ++ q
                     | EMkdirAll q => str "mkdir " ++ q
                     | ESetRef _ _ => str "branch"
                     | ESetIndex _ => str "index"
                     | _ => str "log"
                     end) tr).

(* a FILE where the snapshot needs a directory: d/x cannot be written; the
   command answers Err after it has moved the branch, replaced the staging
   area and written the file a *)
Definition zx_w_file := Eval vm_compute in run [AEdit (UWrite (str "d") (str "in the way"))] zx_w.
Example zx_restorable_needed_file :
  forallb (restorable_b zx_w_file) (paths zx_es1) = false /\ flat_b (paths zx_es1) = true /\
  zx_show (step (zx_cmd (CReset false false true [head_at 4])) zx_w_file) =
  (OErr, [str "branch"; str "log"; str "log"; str "index"; str "write a"]).
Proof. vm_compute. repeat split. Qed.

(* a DIRECTORY at a snapshot path *)
Definition zx_w_dir := Eval vm_compute in run [AEdit (UDelete (str "a")); AEdit (UMkdir (str "a"))] zx_w.
Example zx_restorable_needed_dir :
  forallb (restorable_b zx_w_dir) (paths zx_es1) = false /\
  zx_show (step (zx_cmd (CReset false false true [head_at 4])) zx_w_dir) =
  (OErr, [str "branch"; str "log"; str "log"; str "index"]).
Proof. vm_compute. repeat split. Qed.

(* a snapshot that holds a path AND a path beneath it (d and d/x were both
   staged when the commit was made): every path is restorable on its own in
   the empty work tree, but after d is written d/x cannot be *)
Definition zx_nf_hist : list action :=
  [ zx_cmd CInit;
    zx_cmd (CConfig false [str "user.name"; str "Ada L"]);
    zx_cmd (CConfig false [str "user.email"; str "ada@example.com"]);
    AEdit (UWrite (str "d/x") (str "dx"));
    zx_cmd (CAdd [str "d/x"]);
    AEdit (URmTree (str "d"));
    AEdit (UWrite (str "d") (str "file"));
    zx_cmd (CAdd [str "d"]);
    zx_cmd (CCommit (str "both"));
    AEdit (UDelete (str "d")) ].
Definition zx_w_nf := Eval vm_compute in run zx_nf_hist w_empty.
Example zx_flat_needed :
  forallb (fun b => b) (zx_outcomes zx_nf_hist w_empty) = true /\
  option_map (fun es => (paths es, forallb (restorable_b zx_w_nf) (paths es), flat_b (paths es)))
    (snapshot (w_objs zx_w_nf) (zx_id (am_get (w_refs zx_w_nf) (w_head zx_w_nf)))) =
    Some ([str "d"; str "d/x"], true, false) /\
  zx_show (step (zx_cmd (CReset false false true [head_at 0])) zx_w_nf) =
  (OErr, [str "branch"; str "log"; str "log"; str "index"; str "write d"]).
Proof. vm_compute. repeat split. Qed.

(* ================================================================== *)
Print Assumptions reachable_JInv.
Print Assumptions reachable_journal_ids.
Print Assumptions reachable_HlogGood.
Print Assumptions reset_soft_total.
Print Assumptions reset_mixed_total.
Print Assumptions reset_hard_total.
Print Assumptions reset_refused_on_reachable.
Print Assumptions reset_position_cases.
Print Assumptions reset_to_rename_record_refused.
Print Assumptions reset_mixed_then_status_clean.
Print Assumptions reset_hard_then_status_clean.
Print Assumptions zx_hard_0.
Print Assumptions zx_flat_needed.
