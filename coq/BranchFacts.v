(* BranchFacts.v — property C10 "branch and HEAD state machine", model half.

   1. the algebra of the sorted association list [amap] (World.v);
      [w_refs] stays strictly sorted along every history from [w_empty];
   2. exact evaluation of the six branch operations (branch, branch --delete,
      branch --rename, switch, switch --create, update-ref) on a fault-free
      state, the abstract machine on (current branch, branch map) and the
      refinement theorems; a refused operation leaves the world unchanged;
      the invariant [blogs_cover_refs];
   3. [branch --list] and [rev-parse] report exactly the stored state;
   4. the HEAD and branch file codecs of Refs.v round-trip;
   5. examples. *)
From Coq Require Import Strings.String Strings.Byte.
From Coq Require Import List Bool NArith ZArith Arith Lia Sorted.
From Goit Require Import Bytes Sha1 Obj Refs Tree Index Regex GoRegex Commit Reflog Config Ignore World Repo.
From Goit Require Import BytesFacts ObjFacts RegexFacts MonadFacts.
Import ListNotations.

(* ================================================================== *)
(** * 1. Association-list algebra *)

Section AmapFacts.
  Context {V : Type}.
  Implicit Types (m : amap V) (k : bytes) (v : V).

  Definition key_lt (a b : bytes * V) : Prop := blt (fst a) (fst b) = true.
  Definition am_sorted m : Prop := StronglySorted key_lt m.
  Definition am_keys m : list bytes := map fst m.

  (* ---------- facts that hold for ANY list ---------- *)
  Lemma am_get_set_same : forall m k v, am_get (am_set m k v) k = Some v.
  Proof.
    induction m as [|[k0 v0] r IH]; intros k v; cbn [am_set am_get].
    - rewrite bytes_eqb_refl. reflexivity.
    - destruct (bytes_eqb k0 k) eqn:E0.
      + cbn [am_get]. rewrite bytes_eqb_refl. reflexivity.
      + destruct (blt k k0) eqn:El; cbn [am_get].
        * rewrite bytes_eqb_refl. reflexivity.
        * rewrite E0. apply IH.
  Qed.

  Lemma am_get_set_other : forall m k v k', k' <> k -> am_get (am_set m k v) k' = am_get m k'.
  Proof.
    induction m as [|[k0 v0] r IH]; intros k v k' Hne; cbn [am_set am_get].
    - assert (E : bytes_eqb k k' = false) by (apply bytes_eqb_neq; congruence).
      rewrite E. reflexivity.
    - assert (E : bytes_eqb k k' = false) by (apply bytes_eqb_neq; congruence).
      destruct (bytes_eqb k0 k) eqn:E0.
      + apply bytes_eqb_eq in E0. subst k0. cbn [am_get]. rewrite E. reflexivity.
      + destruct (blt k k0) eqn:El; cbn [am_get].
        * rewrite E. reflexivity.
        * destruct (bytes_eqb k0 k') eqn:E1; [reflexivity|]. apply IH. exact Hne.
  Qed.

  Lemma am_get_del_other : forall m k k', k' <> k -> am_get (am_del m k) k' = am_get m k'.
  Proof.
    induction m as [|[k0 v0] r IH]; intros k k' Hne; cbn [am_del am_get].
    - reflexivity.
    - destruct (bytes_eqb k0 k) eqn:E0.
      + apply bytes_eqb_eq in E0. subst k0.
        assert (E : bytes_eqb k k' = false) by (apply bytes_eqb_neq; congruence).
        rewrite E. reflexivity.
      + cbn [am_get]. destruct (bytes_eqb k0 k') eqn:E1; [reflexivity|]. apply IH. exact Hne.
  Qed.

  Lemma am_mem_get : forall m k, am_mem m k = true <-> exists v, am_get m k = Some v.
  Proof.
    intros m k. unfold am_mem. destruct (am_get m k) as [v|].
    - split; [intros _; exists v; reflexivity | reflexivity].
    - split; [discriminate | intros [v Hv]; discriminate Hv].
  Qed.

  Lemma am_mem_false : forall m k, am_mem m k = false <-> am_get m k = None.
  Proof.
    intros m k. unfold am_mem. destruct (am_get m k) as [v|].
    - split; discriminate.
    - split; reflexivity.
  Qed.

  Lemma am_get_in : forall m k v, am_get m k = Some v -> In (k, v) m.
  Proof.
    induction m as [|[k0 v0] r IH]; intros k v Hg; cbn [am_get] in Hg.
    - discriminate Hg.
    - destruct (bytes_eqb k0 k) eqn:E0.
      + apply bytes_eqb_eq in E0. injection Hg as ->. subst k0. left. reflexivity.
      + right. apply IH. exact Hg.
  Qed.

  Lemma am_mem_iff : forall m k, am_mem m k = true <-> In k (am_keys m).
  Proof.
    induction m as [|[k0 v0] r IH]; intros k; unfold am_mem; cbn [am_get am_keys map fst].
    - split; [discriminate | intros []].
    - destruct (bytes_eqb k0 k) eqn:E0.
      + apply bytes_eqb_eq in E0. split; [intros _; left; exact E0 | reflexivity].
      + apply bytes_eqb_neq in E0. fold (am_mem r k). rewrite IH. unfold am_keys.
        split; [intro H; right; exact H | intros [H|H]; [contradiction | exact H]].
  Qed.

  Lemma am_mem_set_same : forall m k v, am_mem (am_set m k v) k = true.
  Proof. intros m k v. unfold am_mem. rewrite am_get_set_same. reflexivity. Qed.

  Lemma am_mem_set_other : forall m k v k', k' <> k -> am_mem (am_set m k v) k' = am_mem m k'.
  Proof. intros m k v k' Hne. unfold am_mem. rewrite am_get_set_other by exact Hne. reflexivity. Qed.

  Lemma am_mem_del_other : forall m k k', k' <> k -> am_mem (am_del m k) k' = am_mem m k'.
  Proof. intros m k k' Hne. unfold am_mem. rewrite am_get_del_other by exact Hne. reflexivity. Qed.

  Lemma am_mem_set : forall m k v k',
    am_mem (am_set m k v) k' = bytes_eqb k k' || am_mem m k'.
  Proof.
    intros m k v k'. destruct (bytes_eqb k k') eqn:E.
    - apply bytes_eqb_eq in E. subst k'. apply am_mem_set_same.
    - apply bytes_eqb_neq in E. cbn [orb]. apply am_mem_set_other. congruence.
  Qed.

  (* keys after [am_set]: the old keys and the new one *)
  Lemma am_keys_set : forall m k v k', In k' (am_keys (am_set m k v)) <-> k' = k \/ In k' (am_keys m).
  Proof.
    intros m k v k'. rewrite <- !am_mem_iff, am_mem_set.
    rewrite orb_true_iff, bytes_eqb_eq. split; (intros [H|H]; [left; congruence | right; exact H]).
  Qed.

  (* without sortedness [am_del] removes the first occurrence only; its keys
     are among the old ones *)
  Lemma am_keys_del_incl : forall m k k', In k' (am_keys (am_del m k)) -> In k' (am_keys m).
  Proof.
    induction m as [|[k0 v0] r IH]; intros k k' Hin; cbn [am_del] in Hin.
    - exact Hin.
    - destruct (bytes_eqb k0 k) eqn:E0.
      + right. exact Hin.
      + cbn [am_keys map fst] in Hin |- *. destruct Hin as [H|H]; [left; exact H | right; apply (IH k); exact H].
  Qed.

  Lemma am_del_absent : forall m k, am_get m k = None -> am_del m k = m.
  Proof.
    induction m as [|[k0 v0] r IH]; intros k Hg; cbn [am_del am_get] in Hg |- *.
    - reflexivity.
    - destruct (bytes_eqb k0 k) eqn:E0; [discriminate Hg|]. rewrite IH by exact Hg. reflexivity.
  Qed.

  Lemma am_length_del : forall m k, am_mem m k = true -> S (length (am_del m k)) = length m.
  Proof.
    induction m as [|[k0 v0] r IH]; intros k Hm; unfold am_mem in Hm; cbn [am_get am_del] in Hm |- *.
    - discriminate Hm.
    - destruct (bytes_eqb k0 k) eqn:E0; [reflexivity|]. cbn [length]. rewrite (IH k Hm). reflexivity.
  Qed.

  (* ---------- strictly ascending keys ---------- *)
  Lemma am_sorted_nil : am_sorted (@nil (bytes * V)).
  Proof. constructor. Qed.

  Lemma am_sorted_cons : forall k v m,
    am_sorted ((k, v) :: m) <-> am_sorted m /\ Forall (fun kv => blt k (fst kv) = true) m.
  Proof.
    intros k v m. split.
    - intro H. inversion H as [|a l Hs Hf]; subst. split; assumption.
    - intros [Hs Hf]. constructor; assumption.
  Qed.

  Lemma am_sorted_tail : forall kv m, am_sorted (kv :: m) -> am_sorted m.
  Proof. intros [k v] m H. apply am_sorted_cons in H. tauto. Qed.

  Lemma am_get_lt_head : forall m k, Forall (fun kv => blt k (fst kv) = true) m -> am_get m k = None.
  Proof.
    induction m as [|[k0 v0] r IH]; intros k Hf; cbn [am_get].
    - reflexivity.
    - inversion Hf as [|a l Hlt Hr]; subst. cbn [fst] in Hlt.
      assert (E : bytes_eqb k0 k = false).
      { apply bytes_eqb_neq. intro Heq. subst k0. rewrite blt_irrefl in Hlt. discriminate Hlt. }
      rewrite E. apply IH. exact Hr.
  Qed.

  (* a sorted map has no duplicate key *)
  Lemma am_sorted_nodup : forall m, am_sorted m -> NoDup (am_keys m).
  Proof.
    induction m as [|[k0 v0] r IH]; intro Hs; cbn [am_keys map fst].
    - constructor.
    - apply am_sorted_cons in Hs. destruct Hs as [Hs Hf]. constructor; [|apply IH; exact Hs].
      intro Hin. apply am_mem_iff in Hin. unfold am_mem in Hin.
      rewrite (am_get_lt_head r k0 Hf) in Hin. discriminate Hin.
  Qed.

  Lemma am_get_del_same : forall m k, am_sorted m -> am_get (am_del m k) k = None.
  Proof.
    induction m as [|[k0 v0] r IH]; intros k Hs; cbn [am_del].
    - reflexivity.
    - apply am_sorted_cons in Hs. destruct Hs as [Hs Hf].
      destruct (bytes_eqb k0 k) eqn:E0.
      + apply bytes_eqb_eq in E0. subst k0. apply am_get_lt_head. exact Hf.
      + cbn [am_get]. rewrite E0. apply IH. exact Hs.
  Qed.

  Lemma am_mem_del_same : forall m k, am_sorted m -> am_mem (am_del m k) k = false.
  Proof. intros m k Hs. unfold am_mem. rewrite am_get_del_same by exact Hs. reflexivity. Qed.

  Lemma am_mem_del : forall m k k', am_sorted m ->
    am_mem (am_del m k) k' = negb (bytes_eqb k k') && am_mem m k'.
  Proof.
    intros m k k' Hs. destruct (bytes_eqb k k') eqn:E.
    - apply bytes_eqb_eq in E. subst k'. apply am_mem_del_same. exact Hs.
    - apply bytes_eqb_neq in E. cbn [negb andb]. apply am_mem_del_other. congruence.
  Qed.

  Lemma am_keys_del : forall m k k', am_sorted m ->
    (In k' (am_keys (am_del m k)) <-> k' <> k /\ In k' (am_keys m)).
  Proof.
    intros m k k' Hs. rewrite <- !am_mem_iff, am_mem_del by exact Hs.
    rewrite andb_true_iff, negb_true_iff, bytes_eqb_neq. split; (intros [H1 H2]; split; [congruence | exact H2]).
  Qed.

  Lemma Forall_am_set : forall (P : bytes * V -> Prop) m k v,
    Forall P m -> P (k, v) -> Forall P (am_set m k v).
  Proof.
    intros P. induction m as [|[k0 v0] r IH]; intros k v Hf Hp; cbn [am_set].
    - constructor; [exact Hp | constructor].
    - inversion Hf as [|a l H0 Hr]; subst.
      destruct (bytes_eqb k0 k); [constructor; assumption|].
      destruct (blt k k0); [constructor; assumption|].
      constructor; [exact H0 | apply IH; assumption].
  Qed.

  Lemma Forall_am_del : forall (P : bytes * V -> Prop) m k, Forall P m -> Forall P (am_del m k).
  Proof.
    intros P. induction m as [|[k0 v0] r IH]; intros k Hf; cbn [am_del].
    - constructor.
    - inversion Hf as [|a l H0 Hr]; subst.
      destruct (bytes_eqb k0 k); [exact Hr|]. constructor; [exact H0 | apply IH; exact Hr].
  Qed.

  Lemma am_set_sorted : forall m k v, am_sorted m -> am_sorted (am_set m k v).
  Proof.
    induction m as [|[k0 v0] r IH]; intros k v Hs; cbn [am_set].
    - apply am_sorted_cons. split; constructor.
    - pose proof Hs as Hs0. apply am_sorted_cons in Hs. destruct Hs as [Hs Hf].
      destruct (bytes_eqb k0 k) eqn:E0.
      + apply bytes_eqb_eq in E0. subst k0. apply am_sorted_cons. split; assumption.
      + destruct (blt k k0) eqn:El.
        * apply am_sorted_cons. split; [exact Hs0|]. constructor; [exact El|].
          apply (Forall_impl (fun kv => blt k (fst kv) = true)) with (2 := Hf).
          intros kv Hlt. apply (blt_trans k k0 (fst kv)); assumption.
        * apply am_sorted_cons. split; [apply IH; exact Hs|].
          apply Forall_am_set; [exact Hf|]. cbn [fst].
          destruct (blt_total k0 k) as [H|[H|H]]; [exact H | | congruence].
          apply bytes_eqb_neq in E0. contradiction.
  Qed.

  Lemma am_del_sorted : forall m k, am_sorted m -> am_sorted (am_del m k).
  Proof.
    induction m as [|[k0 v0] r IH]; intros k Hs; cbn [am_del].
    - exact Hs.
    - apply am_sorted_cons in Hs. destruct Hs as [Hs Hf].
      destruct (bytes_eqb k0 k); [exact Hs|].
      apply am_sorted_cons. split; [apply IH; exact Hs | apply Forall_am_del; exact Hf].
  Qed.

  (* a sorted map is determined by its lookups *)
  Lemma am_ext : forall m1 m2, am_sorted m1 -> am_sorted m2 ->
    (forall k, am_get m1 k = am_get m2 k) -> m1 = m2.
  Proof.
    induction m1 as [|[k1 v1] r1 IH]; intros m2 Hs1 Hs2 Hext.
    - destruct m2 as [|[k2 v2] r2]; [reflexivity|].
      specialize (Hext k2). cbn [am_get] in Hext. rewrite bytes_eqb_refl in Hext. discriminate Hext.
    - destruct m2 as [|[k2 v2] r2].
      + specialize (Hext k1). cbn [am_get] in Hext. rewrite bytes_eqb_refl in Hext. discriminate Hext.
      + apply am_sorted_cons in Hs1. destruct Hs1 as [Hs1 Hf1].
        apply am_sorted_cons in Hs2. destruct Hs2 as [Hs2 Hf2].
        assert (Hk : k1 = k2).
        { destruct (blt_total k1 k2) as [H|[H|H]]; [|exact H|].
          - pose proof (Hext k1) as He. cbn [am_get] in He. rewrite bytes_eqb_refl in He.
            assert (E : bytes_eqb k2 k1 = false).
            { apply bytes_eqb_neq. intro Heq. subst k2. rewrite blt_irrefl in H. discriminate H. }
            rewrite E in He. rewrite am_get_lt_head in He; [discriminate He|].
            apply (Forall_impl (fun kv => blt k1 (fst kv) = true)) with (2 := Hf2).
            intros kv Hlt. apply (blt_trans k1 k2 (fst kv)); assumption.
          - pose proof (Hext k2) as He. cbn [am_get] in He. rewrite bytes_eqb_refl in He.
            assert (E : bytes_eqb k1 k2 = false).
            { apply bytes_eqb_neq. intro Heq. subst k2. rewrite blt_irrefl in H. discriminate H. }
            rewrite E in He. rewrite am_get_lt_head in He; [discriminate He|].
            apply (Forall_impl (fun kv => blt k2 (fst kv) = true)) with (2 := Hf1).
            intros kv Hlt. apply (blt_trans k2 k1 (fst kv)); assumption. }
        subst k2.
        assert (Hv : v1 = v2).
        { pose proof (Hext k1) as He. cbn [am_get] in He. rewrite bytes_eqb_refl in He. congruence. }
        subst v2. f_equal. apply IH; [exact Hs1 | exact Hs2|].
        intro k. pose proof (Hext k) as He. cbn [am_get] in He.
        destruct (bytes_eqb k1 k) eqn:E; [|exact He].
        apply bytes_eqb_eq in E. subst k.
        rewrite (am_get_lt_head r1 k1 Hf1), (am_get_lt_head r2 k1 Hf2). reflexivity.
  Qed.

  (* consequences of extensionality: the order of independent updates does not matter *)
  Lemma am_set_set_comm : forall m k1 v1 k2 v2, am_sorted m -> k1 <> k2 ->
    am_set (am_set m k1 v1) k2 v2 = am_set (am_set m k2 v2) k1 v1.
  Proof.
    intros m k1 v1 k2 v2 Hs Hne. apply am_ext; try (apply am_set_sorted; apply am_set_sorted; exact Hs).
    intro k. destruct (bytes_eq_dec k k2) as [->|N2].
    - rewrite am_get_set_same, am_get_set_other by congruence. rewrite am_get_set_same. reflexivity.
    - rewrite (am_get_set_other _ k2) by exact N2. destruct (bytes_eq_dec k k1) as [->|N1].
      + rewrite !am_get_set_same. reflexivity.
      + rewrite !am_get_set_other by assumption. reflexivity.
  Qed.

  Lemma am_del_set_same : forall m k v, am_sorted m -> am_get m k = None -> am_del (am_set m k v) k = m.
  Proof.
    intros m k v Hs Hn. apply am_ext; [apply am_del_sorted; apply am_set_sorted; exact Hs | exact Hs |].
    intro k'. destruct (bytes_eq_dec k' k) as [->|N].
    - rewrite am_get_del_same by (apply am_set_sorted; exact Hs). symmetry. exact Hn.
    - rewrite am_get_del_other, am_get_set_other by exact N. reflexivity.
  Qed.
End AmapFacts.


Arguments am_sorted {V} m.
Arguments am_keys {V} m.

(* ------------------------------------------------------------------ *)
(** ** [w_refs] is strictly sorted in every world any history reaches *)

Definition refs_sorted (w : world) : Prop := am_sorted (w_refs w).

Lemma refs_sorted_effect : forall e w, refs_sorted w -> refs_sorted (apply_effect e w).
Proof.
  intros e w Hs. unfold refs_sorted in *.
  destruct e; autorewrite with wfields; try exact Hs.
  - apply am_set_sorted. exact Hs.
  - apply am_del_sorted. exact Hs.
  - destruct (am_get (w_refs w) old) as [i|]; [|exact Hs].
    apply am_set_sorted. apply am_del_sorted. exact Hs.
Qed.

Lemma refs_sorted_effects : forall tr w, refs_sorted w -> refs_sorted (apply_effects tr w).
Proof.
  induction tr as [|e tr IH]; intros w Hs.
  - exact Hs.
  - rewrite apply_effects_cons. apply IH. apply refs_sorted_effect. exact Hs.
Qed.

Lemma run_cmd_emits_sorted : forall e c, emits refs_sorted (fun _ _ => True) (run_cmd e c).
Proof.
  intros e c. apply run_cmd_emits_stable. intros e0 w Hs.
  split; [exact Logic.I | apply refs_sorted_effect; exact Hs].
Qed.

Theorem refs_sorted_step : forall a w, refs_sorted w -> refs_sorted (step_w a w).
Proof.
  apply (step_invariant refs_sorted (fun _ _ => True)).
  - exact run_cmd_emits_sorted.
  - intros u w Hs. unfold refs_sorted. rewrite w_refs_apply_edit. exact Hs.
Qed.

Theorem refs_sorted_run_from : forall h w, refs_sorted w -> refs_sorted (run h w).
Proof.
  apply (run_invariant refs_sorted (fun _ _ => True)).
  - exact run_cmd_emits_sorted.
  - intros u w Hs. unfold refs_sorted. rewrite w_refs_apply_edit. exact Hs.
Qed.

Theorem refs_sorted_run : forall h, refs_sorted (run h w_empty).
Proof. intro h. apply refs_sorted_run_from. apply am_sorted_nil. Qed.

(* also when a write fails in the middle of a command (fault injection):
   the world the command stops in still has sorted refs *)
Theorem refs_sorted_fault : forall e c w k r s',
  refs_sorted w -> run_cmd e c (mkMS w [] (Some k)) = (r, s') -> refs_sorted (ms_w s').
Proof.
  intros e c w k r s' Hs Hrun.
  destruct (emits_sound_fault refs_sorted (fun _ _ => True) _ _ _ _ _ _ (run_cmd_emits_sorted e c) Hs Hrun) as [H _].
  exact H.
Qed.

(* ================================================================== *)
(** * 2. Evaluating commands on a fault-free state *)

(* the equations used to run a command symbolically *)
Lemma ev_bind_getw : forall B (f : world -> M B) s, bind getw f s = f (ms_w s) s.
Proof. reflexivity. Qed.
Lemma ev_bind_ret : forall A B (a : A) (f : A -> M B) s, bind (ret a) f s = f a s.
Proof. reflexivity. Qed.
Lemma ev_bind_fail : forall A B (f : A -> M B) s, bind (@fail A) f s = (Err, s).
Proof. reflexivity. Qed.
Lemma ev_bind_guard : forall B b (f : unit -> M B) s,
  bind (guard b) f s = if b then f tt s else (Err, s).
Proof. intros B b f s. destruct b; reflexivity. Qed.
Lemma ev_bind_of_opt : forall A B (o : option A) (f : A -> M B) s,
  bind (of_opt o) f s = match o with Some a => f a s | None => (Err, s) end.
Proof. intros A B o f s. destruct o; reflexivity. Qed.
Lemma ev_bind_emit : forall B e (f : unit -> M B) w t,
  bind (emit e) f (mkMS w t None) = f tt (mkMS (apply_effect e w) (t ++ [e]) None).
Proof. reflexivity. Qed.
Lemma ev_emit : forall e w t,
  emit e (mkMS w t None) = (Ok tt, mkMS (apply_effect e w) (t ++ [e]) None).
Proof. reflexivity. Qed.
Lemma ev_guard : forall b s, guard b s = if b then (Ok tt, s) else (Err, s).
Proof. intros b s. destruct b; reflexivity. Qed.
Lemma ev_of_opt : forall A (o : option A) s,
  of_opt o s = match o with Some a => (Ok a, s) | None => (Err, s) end.
Proof. intros A o s. destruct o; reflexivity. Qed.
Lemma ev_bind_assoc : forall A B C (m : M A) (f : A -> M B) (g : B -> M C) s,
  bind (bind m f) g s = bind m (fun a => bind (f a) g) s.
Proof. intros A B C m f g s. unfold bind. destruct (m s) as [[a| |] s1]; reflexivity. Qed.

Ltac ev1 :=
  first [ rewrite ev_bind_assoc
        | rewrite ev_bind_getw
        | rewrite ev_bind_ret
        | rewrite ev_bind_fail
        | rewrite ev_bind_guard
        | rewrite ev_bind_of_opt
        | rewrite ev_bind_emit
        | rewrite ev_emit
        | rewrite ev_guard
        | rewrite ev_of_opt ];
  cbn [ms_w ms_trace ms_fault].
Ltac ev := repeat ev1.

(* ---------- what a command loads before it runs ---------- *)
(* the commit HEAD resolves to: [Some None] before the first commit of the
   current branch, [None] when the branch file names something that does not
   load as a commit (the command is refused) *)
Definition head_commit (w : world) : option (option (bytes * commit)) :=
  match am_get (w_refs w) (w_head w) with
  | None => Some None
  | Some id => match get_commit (w_objs w) id with
               | Some c => Some (Some (id, c))
               | None => None
               end
  end.

Definition ctx_of (w : world) : option ctx :=
  match cfg_of (w_gcfg w), cfg_of (w_lcfg w), head_commit w,
        ign_load (am_get (w_files w) (str ".goitignore"%string)) with
  | Some g, Some l, Some hc, Some pats => Some (mkCtx l g hc pats)
  | _, _, _, _ => None
  end.

(* [load_ctx] reads only: it never changes the state, whatever the fault setting *)
Lemma load_ctx_eq : forall s,
  load_ctx s = (match ctx_of (ms_w s) with Some x => Ok x | None => Err end, s).
Proof.
  intro s. unfold load_ctx, ctx_of, head_commit. ev.
  destruct (cfg_of (w_gcfg (ms_w s))) as [g|]; [|reflexivity].
  destruct (cfg_of (w_lcfg (ms_w s))) as [l|]; [|reflexivity].
  destruct (am_get (w_refs (ms_w s)) (w_head (ms_w s))) as [id|].
  - ev. destruct (get_commit (w_objs (ms_w s)) id) as [c|]; [|reflexivity].
    ev. destruct (ign_load _); reflexivity.
  - ev. destruct (ign_load _); reflexivity.
Qed.

Lemma ctx_of_headc : forall w x, ctx_of w = Some x -> head_commit w = Some (x_headc x).
Proof.
  intros w x Hx. unfold ctx_of in Hx.
  destruct (cfg_of (w_gcfg w)); [|discriminate Hx].
  destruct (cfg_of (w_lcfg w)); [|discriminate Hx].
  destruct (head_commit w) as [hc|]; [|discriminate Hx].
  destruct (ign_load _); [|discriminate Hx].
  injection Hx as <-. reflexivity.
Qed.

Lemma head_commit_some : forall w hid cm,
  head_commit w = Some (Some (hid, cm)) ->
  am_get (w_refs w) (w_head w) = Some hid /\ get_commit (w_objs w) hid = Some cm.
Proof.
  intros w hid cm H. unfold head_commit in H.
  destruct (am_get (w_refs w) (w_head w)) as [id|]; [|discriminate H].
  destruct (get_commit (w_objs w) id) as [c|] eqn:Ec; [|discriminate H].
  injection H as -> ->. split; [reflexivity | exact Ec].
Qed.

Lemma head_commit_none : forall w,
  head_commit w = Some None -> am_get (w_refs w) (w_head w) = None.
Proof.
  intros w H. unfold head_commit in H.
  destruct (am_get (w_refs w) (w_head w)) as [id|]; [|reflexivity].
  destruct (get_commit (w_objs w) id); discriminate H.
Qed.

(* the command proper, once the context is loaded *)
Definition dispatch (e : env) (c : cmd) (x : ctx) : M (list bytes) :=
  match c with
  | CInit => fail
  | CConfig g args => cmd_config x g args
  | CAdd args => cmd_add x args
  | CRm args => cmd_rm args
  | CCommit msg => cmd_commit e x msg
  | CStatus => cmd_status x
  | CBranch args l r d => cmd_branch e x args l r d
  | CSwitch args cr => cmd_switch e x args cr
  | CReset s m h args => cmd_reset e x s m h args
  | CRestore st args => cmd_restore x st args
  | CUpdateRef args => cmd_update_ref args
  | CLog n => cmd_log x n
  | CReflog => cmd_reflog
  | CCatFile t p args => cmd_cat_file t p args
  | CHashObject args => cmd_hash_object args
  | CLsFiles s => cmd_ls_files s
  | CRevParse args => cmd_rev_parse args
  | CWriteTree => cmd_write_tree
  end.

Lemma run_cmd_eq : forall e c s,
  run_cmd e c s =
  match c with
  | CInit => cmd_init s
  | _ => if w_inited (ms_w s) then
           match ctx_of (ms_w s) with
           | Some x => dispatch e c x s
           | None => (Err, s)
           end
         else (Err, s)
  end.
Proof.
  intros e c s. unfold run_cmd. rewrite ev_bind_getw.
  destruct c; try reflexivity;
    rewrite ev_bind_guard; (destruct (w_inited (ms_w s)); [|reflexivity]);
    unfold bind at 1; rewrite load_ctx_eq; destruct (ctx_of (ms_w s)); reflexivity.
Qed.

Definition outcome_of (r : res (list bytes)) : outcome :=
  match r with Ok out => OOk out | Err => OErr | Panic => OPanic end.

Lemma step_cmd_eq : forall e c w,
  step (ACmd e c) w =
  (ms_w (snd (run_cmd e c (mkMS w [] None))),
   outcome_of (fst (run_cmd e c (mkMS w [] None))),
   ms_trace (snd (run_cmd e c (mkMS w [] None)))).
Proof.
  intros e c w. cbn [step]. unfold run_m.
  destruct (run_cmd e c (mkMS w [] None)) as [[out| |] s]; reflexivity.
Qed.

(* a ready, loaded world: the shape every theorem about a sub-command needs *)
Lemma step_loaded : forall e c w x,
  c <> CInit -> w_inited w = true -> ctx_of w = Some x ->
  step (ACmd e c) w =
  (ms_w (snd (dispatch e c x (mkMS w [] None))),
   outcome_of (fst (dispatch e c x (mkMS w [] None))),
   ms_trace (snd (dispatch e c x (mkMS w [] None)))).
Proof.
  intros e c w x Hc Hi Hx. rewrite step_cmd_eq, run_cmd_eq. cbn [ms_w]. rewrite Hi, Hx.
  destruct c; try reflexivity. contradiction Hc. reflexivity.
Qed.

Lemma step_not_loaded : forall e c w,
  c <> CInit -> w_inited w = false \/ ctx_of w = None ->
  step (ACmd e c) w = (w, OErr, []).
Proof.
  intros e c w Hc Hno. rewrite step_cmd_eq, run_cmd_eq. cbn [ms_w].
  destruct c; try (contradiction Hc; reflexivity);
    (destruct Hno as [Hi|Hx]; [rewrite Hi; reflexivity | rewrite Hx; destruct (w_inited w); reflexivity]).
Qed.

(* ================================================================== *)
(** * 3. The six operations, evaluated exactly *)

Lemma get_commit_lookup : forall st id c, get_commit st id = Some c -> exists p, st_lookup st id = Some p.
Proof.
  intros st id c H. unfold get_commit, get_kind, get_obj in H.
  destruct (st_lookup st id) as [p|]; [exists p; reflexivity | discriminate H].
Qed.

Lemma snoc2 : forall A (t : list A) a b, (t ++ [a]) ++ [b] = t ++ [a; b].
Proof. intros A t a b. rewrite <- app_assoc. reflexivity. Qed.

(* ---------- branch <name> ---------- *)
Definition blog_created (e : env) (c : ctx) (from hid : bytes) : bytes :=
  log_rec e c None (Some hid) RBranch (str "Created from "%string ++ from).

Definition branch_create_trace (e : env) (c : ctx) (w : world) (name hid : bytes) : list effect :=
  [ESetRef name hid; EAppendBlog name (blog_created e c (w_head w) hid)].

Lemma cmd_branch_create_eq : forall e c name w t,
  cmd_branch e c [name] false [] [] (mkMS w t None) =
  match x_headc c with
  | Some (hid, _) =>
      if negb (am_mem (w_refs w) name) && valid_branch_name name then
        (Ok [], mkMS (apply_effects (branch_create_trace e c w name hid) w)
                     (t ++ branch_create_trace e c w name hid) None)
      else (Err, mkMS w t None)
  | None => (Err, mkMS w t None)
  end.
Proof.
  intros e c name w t. unfold cmd_branch. cbn [length Nat.eqb is_nil negb andb orb]. ev.
  destruct (x_headc c) as [[hid cm]|]; [|reflexivity]. ev.
  destruct (am_mem (w_refs w) name); cbn [negb andb]; [reflexivity|]. ev.
  destruct (valid_branch_name name); [|reflexivity]. ev.
  unfold branch_create_trace, blog_created. rewrite snoc2. reflexivity.
Qed.

(* ---------- branch --delete=<name> ---------- *)
Lemma cmd_branch_delete_eq : forall e c d w t,
  is_nil d = false ->
  cmd_branch e c [] false [] d (mkMS w t None) =
  if negb (bytes_eqb d (w_head w)) && am_mem (w_refs w) d then
    if am_mem (w_blogs w) d then
      (Ok [], mkMS (apply_effects [EDelRef d; EDelBlog d] w) (t ++ [EDelRef d; EDelBlog d]) None)
    else (Err, mkMS (apply_effect (EDelRef d) w) (t ++ [EDelRef d]) None)
  else (Err, mkMS w t None).
Proof.
  intros e c d w t Hd. unfold cmd_branch. rewrite Hd. cbn [length Nat.eqb is_nil negb andb orb]. ev.
  destruct (bytes_eqb d (w_head w)); cbn [negb andb]; [reflexivity|]. ev.
  destruct (am_mem (w_refs w) d); [|reflexivity]. ev.
  destruct (am_mem (w_blogs w) d); [|reflexivity]. ev.
  rewrite snoc2. reflexivity.
Qed.

(* ---------- branch --rename=<new> ---------- *)
Definition rename_msg (prev new : bytes) : bytes :=
  str "renamed refs/heads/"%string ++ prev ++ str " to refs/heads/"%string ++ new.

Definition rename_trace1 (e : env) (c : ctx) (w : world) (new hid : bytes) : list effect :=
  [ERenameRef (w_head w) new; ESetHead new;
   EAppendHlog (log_rec e c (Some hid) None RBranch (rename_msg (w_head w) new));
   EAppendHlog (log_rec e c None (Some hid) RBranch (rename_msg (w_head w) new))].

Definition rename_trace2 (e : env) (c : ctx) (w : world) (new hid : bytes) : list effect :=
  [EDelBlog (w_head w);
   EAppendBlog new (blog_created e c (w_head w) hid);
   EAppendBlog new (log_rec e c (Some hid) (Some hid) RBranch
      (str "renamed refs/heads/"%string ++ w_head w ++ str " refs/heads/"%string ++ new))].

Definition rename_trace (e : env) (c : ctx) (w : world) (new hid : bytes) : list effect :=
  rename_trace1 e c w new hid ++ rename_trace2 e c w new hid.

Lemma cmd_branch_rename_eq : forall e c new w t,
  is_nil new = false ->
  cmd_branch e c [] false new [] (mkMS w t None) =
  match x_headc c with
  | Some (hid, _) =>
      if negb (am_mem (w_refs w) new) && am_mem (w_refs w) (w_head w) && valid_branch_name new then
        if am_mem (w_blogs w) (w_head w) then
          (Ok [], mkMS (apply_effects (rename_trace e c w new hid) w) (t ++ rename_trace e c w new hid) None)
        else
          (Err, mkMS (apply_effects (rename_trace1 e c w new hid) w) (t ++ rename_trace1 e c w new hid) None)
      else (Err, mkMS w t None)
  | None => (Err, mkMS w t None)
  end.
Proof.
  intros e c new w t Hn. unfold cmd_branch. rewrite Hn. cbn [length Nat.eqb is_nil negb andb orb]. ev.
  destruct (x_headc c) as [[hid cm]|]; [|reflexivity]. ev.
  destruct (am_mem (w_refs w) new); cbn [negb andb]; [reflexivity|]. ev.
  destruct (am_mem (w_refs w) (w_head w)); cbn [andb]; [|reflexivity]. ev.
  destruct (valid_branch_name new); [|reflexivity]. ev.
  destruct (am_mem (w_blogs w) (w_head w)).
  - ev. unfold rename_trace, rename_trace1, rename_trace2, rename_msg, blog_created.
    rewrite <- !app_assoc. reflexivity.
  - unfold rename_trace1, rename_msg. rewrite <- !app_assoc. reflexivity.
Qed.

(* ---------- branch --list ---------- *)
Definition branch_listing (w : world) : list bytes :=
  map (fun kv => (if bytes_eqb (fst kv) (w_head w) then str "* "%string else []) ++ fst kv) (w_refs w).

(* any state, any fault setting: nothing is written *)
Lemma cmd_branch_list_eq : forall e c s,
  cmd_branch e c [] true [] [] s = (Ok (branch_listing (ms_w s)), s).
Proof.
  intros e c s. unfold cmd_branch. cbn [length Nat.eqb is_nil negb andb orb]. ev. reflexivity.
Qed.

(* ---------- switch ---------- *)
Lemma head_update_eq : forall name w t,
  head_update name (mkMS w t None) =
  match am_get (w_refs w) name with
  | Some id =>
      match get_commit (w_objs w) id with
      | Some _ => (Ok id, mkMS (apply_effect (ESetHead name) w) (t ++ [ESetHead name]) None)
      | None => (Err, mkMS (apply_effect (ESetHead name) w) (t ++ [ESetHead name]) None)
      end
  | None => (Err, mkMS w t None)
  end.
Proof.
  intros name w t. unfold head_update. ev.
  destruct (am_get (w_refs w) name) as [id|]; [|reflexivity]. ev.
  destruct (get_commit (w_objs w) id); reflexivity.
Qed.

Definition switch_msg (from to : bytes) : bytes :=
  str "moving from "%string ++ from ++ str " to "%string ++ to.

Definition switch_trace (e : env) (c : ctx) (w : world) (a id : bytes) : list effect :=
  [ESetHead a; EAppendHlog (log_rec e c (Some id) (Some id) RCheckout (switch_msg (w_head w) a))].

Lemma cmd_switch_eq : forall e c a w t,
  cmd_switch e c [a] [] (mkMS w t None) =
  match x_headc c with
  | Some _ =>
      match am_get (w_refs w) a with
      | Some id =>
          match get_commit (w_objs w) id with
          | Some _ => (Ok [], mkMS (apply_effects (switch_trace e c w a id) w) (t ++ switch_trace e c w a id) None)
          | None => (Err, mkMS (apply_effect (ESetHead a) w) (t ++ [ESetHead a]) None)
          end
      | None => (Err, mkMS w t None)
      end
  | None => (Err, mkMS w t None)
  end.
Proof.
  intros e c a w t. unfold cmd_switch. cbn [length Nat.ltb Nat.leb is_nil negb andb orb]. ev.
  destruct (x_headc c) as [[hid cm]|]; [|reflexivity]. ev.
  unfold bind at 1. rewrite head_update_eq.
  destruct (am_get (w_refs w) a) as [id|]; [|reflexivity].
  destruct (get_commit (w_objs w) id); [|reflexivity]. ev.
  unfold switch_trace, switch_msg. rewrite snoc2. reflexivity.
Qed.

(* ---------- switch --create=<name> ---------- *)
Definition switch_create_trace (e : env) (c : ctx) (w : world) (name hid : bytes) : list effect :=
  [ESetRef name hid; ESetHead name;
   EAppendHlog (log_rec e c (Some hid) (Some hid) RCheckout (switch_msg (w_head w) name));
   EAppendBlog name (blog_created e c (w_head w) hid)].

Lemma cmd_switch_create_eq : forall e c name w t,
  is_nil name = false ->
  cmd_switch e c [] name (mkMS w t None) =
  match x_headc c with
  | Some (hid, _) =>
      if negb (am_mem (w_refs w) name) && valid_branch_name name then
        match get_commit (w_objs w) hid with
        | Some _ => (Ok [], mkMS (apply_effects (switch_create_trace e c w name hid) w)
                                 (t ++ switch_create_trace e c w name hid) None)
        | None => (Err, mkMS (apply_effects [ESetRef name hid; ESetHead name] w)
                             (t ++ [ESetRef name hid; ESetHead name]) None)
        end
      else (Err, mkMS w t None)
  | None => (Err, mkMS w t None)
  end.
Proof.
  intros e c name w t Hn. unfold cmd_switch. rewrite Hn.
  cbn [length Nat.ltb Nat.leb is_nil negb andb orb]. ev.
  destruct (x_headc c) as [[hid cm]|]; [|reflexivity]. ev.
  destruct (am_mem (w_refs w) name); cbn [negb andb]; [reflexivity|]. ev.
  destruct (valid_branch_name name); [|reflexivity]. ev.
  unfold bind at 1. rewrite head_update_eq. autorewrite with wfields.
  rewrite am_get_set_same.
  destruct (get_commit (w_objs w) hid).
  - ev. unfold switch_create_trace, switch_msg, blog_created. rewrite <- !app_assoc. reflexivity.
  - rewrite snoc2. reflexivity.
Qed.

(* ---------- update-ref refs/heads/<b> <hex> ---------- *)
Definition ref_leaf (r : bytes) : bytes := last (split_all c_slash r) [].

(* the branch and the id an accepted [update-ref r h] is about *)
Definition update_ref_target (w : world) (r h : bytes) : option (bytes * bytes) :=
  if re_search re_branchRegexp r && Nat.eqb (length h) 40 && forallb is_lower_hex h then
    match unhex h with
    | Some id =>
        match get_commit (w_objs w) id with
        | Some _ => if am_mem (w_refs w) (ref_leaf r) then Some (ref_leaf r, id) else None
        | None => None
        end
    | None => None
    end
  else None.

Lemma cmd_update_ref_eq : forall r h w t,
  cmd_update_ref [r; h] (mkMS w t None) =
  match update_ref_target w r h with
  | Some (name, id) =>
      (Ok [], mkMS (apply_effects [ESetRef name id; ESetHead name] w) (t ++ [ESetRef name id; ESetHead name]) None)
  | None => (Err, mkMS w t None)
  end.
Proof.
  intros r h w t. unfold cmd_update_ref, update_ref_target. fold (ref_leaf r). ev.
  destruct (re_search re_branchRegexp r); cbn [andb]; [|reflexivity]. ev.
  destruct (Nat.eqb (length h) 40); cbn [andb]; [|reflexivity]. ev.
  destruct (forallb is_lower_hex h); [|reflexivity]. ev.
  destruct (unhex h) as [id|]; [|reflexivity]. ev.
  destruct (get_commit (w_objs w) id) as [cm|] eqn:Ec.
  - destruct (get_commit_lookup _ _ _ Ec) as [p Hp]. rewrite Hp. ev.
    destruct (am_mem (w_refs w) (ref_leaf r)); [|reflexivity]. ev.
    unfold bind at 1. rewrite head_update_eq. autorewrite with wfields.
    rewrite am_get_set_same, Ec. rewrite snoc2. reflexivity.
  - destruct (st_lookup (w_objs w) id); reflexivity.
Qed.

(* [update-ref] with any other number of arguments is refused at once *)
Lemma cmd_update_ref_arity : forall args s,
  (forall r h, args <> [r; h]) -> cmd_update_ref args s = (Err, s).
Proof.
  intros args s Hne. destruct args as [|r [|h [|x rest]]]; try reflexivity.
  contradiction (Hne r h). reflexivity.
Qed.

(* ================================================================== *)
(** * 4. The invariant [blogs_cover_refs] *)

(* every branch has its log file: [branch --delete] and [branch --rename]
   check for it AFTER they have touched the branch file, so this is what makes
   the late check unfailing *)
Definition blogs_cover_refs (w : world) : Prop :=
  forall n, am_mem (w_refs w) n = true -> am_mem (w_blogs w) n = true.

Definition Inv2 (w : world) : Prop := refs_sorted w /\ blogs_cover_refs w.

(* which single effects keep [Inv2], in which worlds *)
Definition ref_safe (w : world) (e : effect) : Prop :=
  match e with
  | ESetRef n _ => am_mem (w_refs w) n = true
  | ERenameRef _ _ => False
  | EDelBlog n => am_mem (w_refs w) n = false
  | _ => True
  end.

Definition ref_static (e : effect) : Prop :=
  match e with
  | ESetRef _ _ | ERenameRef _ _ | EDelBlog _ => False
  | _ => True
  end.

Lemma ref_static_safe : forall w e, ref_static e -> ref_safe w e.
Proof. intros w e H. destruct e; try exact Logic.I; contradiction H. Qed.

Ltac wsimpl :=
  cbn [apply_effect set_objs set_refs set_head set_index set_hlog set_blogs set_lcfg set_gcfg set_wt
       w_inited w_head w_refs w_index w_objs w_coll w_hlog w_blogs w_lcfg w_gcfg w_files w_dirs].

Lemma am_mem_del_incl : forall V (m : amap V) k k', am_mem (am_del m k) k' = true -> am_mem m k' = true.
Proof. intros V m k k' H. apply am_mem_iff. apply am_mem_iff in H. apply (am_keys_del_incl m k). exact H. Qed.

Lemma Inv2_safe : forall e w, Inv2 w -> ref_safe w e -> Inv2 (apply_effect e w).
Proof.
  intros e w [Hs Hc] Hg. split; [apply refs_sorted_effect; exact Hs|].
  unfold blogs_cover_refs in *. destruct e; wsimpl; try exact Hc; cbn [ref_safe] in Hg.
  - (* ESetRef *) intros n Hn. rewrite am_mem_set in Hn. apply orb_true_iff in Hn.
    destruct Hn as [Hn|Hn]; [apply bytes_eqb_eq in Hn; subst n|]; apply Hc; assumption.
  - (* EDelRef *) intros n Hn. apply Hc. apply (am_mem_del_incl _ _ name). exact Hn.
  - (* ERenameRef *) contradiction Hg.
  - (* EAppendBlog *) intros n Hn. rewrite am_mem_set. rewrite (Hc n Hn). apply orb_true_r.
  - (* EDelBlog *) intros n Hn. rewrite am_mem_del_other; [apply Hc; exact Hn|].
    intro Heq. subst n. rewrite Hg in Hn. discriminate Hn.
Qed.

Lemma safe_pair : forall e w, Inv2 w -> ref_safe w e -> ref_safe w e /\ Inv2 (apply_effect e w).
Proof. intros e w Hi Hg. split; [exact Hg | apply Inv2_safe; assumption]. Qed.

Lemma emit_static_safe : forall e, ref_static e -> emits Inv2 ref_safe (emit e).
Proof.
  intros e He. apply emits_emit. intros w Hi. apply safe_pair; [exact Hi | apply ref_static_safe; exact He].
Qed.

Create HintDb reflaws discriminated.

Ltac estep :=
  first
  [ assumption
  | lazymatch goal with
    | |- emits _ _ (bind _ _) => apply emits_bind; [ | intro ]
    | |- emits _ _ (ret _) => apply emits_ret
    | |- emits _ _ fail => apply emits_fail
    | |- emits _ _ getw => apply emits_getw
    | |- emits _ _ (emit _) => apply emit_static_safe; exact Logic.I
    | |- emits _ _ (of_opt _) => apply emits_of_opt
    | |- emits _ _ (guard _) => apply emits_guard
    | |- emits _ _ (iterM _ _) => apply emits_iterM; intros ? _
    | |- emits _ _ (let _ := _ in _) => cbv zeta
    | |- emits _ _ (match ?x with _ => _ end) => destruct x; cbv beta iota
    | |- emits _ _ ((fix f (l : list _) {struct l} : M _ := _) ?args) =>
        induction args; cbv beta iota
    end
  | solve [ auto with reflaws nocore ] ].
Ltac esteps := repeat estep.

Local Notation safe m := (emits Inv2 ref_safe m).

Lemma put_obj_safe : forall k d, safe (put_obj k d).
Proof. intros k d. unfold put_obj. esteps. Qed.
#[export] Hint Resolve put_obj_safe : reflaws.
Lemma wt_put_safe : forall p data, safe (wt_put p data).
Proof. intros p data. unfold wt_put. esteps. Qed.
#[export] Hint Resolve wt_put_safe : reflaws.
Lemma head_tree_nodes_safe : forall c, safe (head_tree_nodes c).
Proof. intros c. unfold head_tree_nodes. esteps. Qed.
#[export] Hint Resolve head_tree_nodes_safe : reflaws.
Lemma cmd_init_safe : safe cmd_init.
Proof. unfold cmd_init. esteps. Qed.
Lemma cmd_config_safe : forall c g args, safe (cmd_config c g args).
Proof. intros c g args. unfold cmd_config. esteps. Qed.
Lemma add_file_safe : forall p, safe (add_file p).
Proof. intros p. unfold add_file. esteps. Qed.
#[export] Hint Resolve add_file_safe : reflaws.
Lemma cmd_add_safe : forall c args, safe (cmd_add c args).
Proof. intros c args. unfold cmd_add. esteps. Qed.
Lemma rm_one_safe : forall p, safe (rm_one p).
Proof. intros p. unfold rm_one. esteps. Qed.
#[export] Hint Resolve rm_one_safe : reflaws.
Lemma cmd_rm_safe : forall args, safe (cmd_rm args).
Proof. intros args. unfold cmd_rm. esteps. Qed.
Lemma cmd_status_safe : forall c, safe (cmd_status c).
Proof. intros c. unfold cmd_status. esteps. Qed.
Lemma restore_wd_safe : forall p, safe (restore_wd p).
Proof. intros p. unfold restore_wd. esteps. Qed.
#[export] Hint Resolve restore_wd_safe : reflaws.
Lemma restore_index_safe : forall ns p, safe (restore_index ns p).
Proof. intros ns p. unfold restore_index. esteps. Qed.
#[export] Hint Resolve restore_index_safe : reflaws.
Lemma cmd_restore_safe : forall c st args, safe (cmd_restore c st args).
Proof. intros c st args. unfold cmd_restore. esteps. Qed.
Lemma cmd_log_safe : forall c n, safe (cmd_log c n).
Proof. intros c n. unfold cmd_log. esteps. Qed.
Lemma cmd_reflog_safe : safe cmd_reflog.
Proof. unfold cmd_reflog. esteps. Qed.
Lemma cmd_cat_file_safe : forall t p args, safe (cmd_cat_file t p args).
Proof. intros t p args. unfold cmd_cat_file. esteps. Qed.
Lemma cmd_hash_object_safe : forall args, safe (cmd_hash_object args).
Proof. intros args. unfold cmd_hash_object. esteps. Qed.
Lemma cmd_ls_files_safe : forall s, safe (cmd_ls_files s).
Proof. intros s. unfold cmd_ls_files. esteps. Qed.
Lemma cmd_rev_parse_safe : forall args, safe (cmd_rev_parse args).
Proof. intros args. unfold cmd_rev_parse. esteps. Qed.
Lemma cmd_write_tree_safe : safe cmd_write_tree.
Proof. unfold cmd_write_tree. esteps. Qed.
Lemma head_update_safe : forall name, safe (head_update name).
Proof. intros name. unfold head_update. esteps. Qed.
#[export] Hint Resolve head_update_safe : reflaws.

(* leave the symbolic execution at a world and finish with the static rules *)
Ltac to_static :=
  apply hoare_at with (P := fun _ : world => True); [apply emits_hoare; esteps | exact Logic.I].

(* [update-ref] and [reset] move a branch that exists: the earlier guard is
   what makes the [ESetRef] harmless *)
Lemma cmd_update_ref_safe : forall args, safe (cmd_update_ref args).
Proof.
  intros args. hinline. hsteps; try exact Logic.I.
  all: try (apply safe_pair; [assumption | cbn [ref_safe]; try exact Logic.I; try assumption]).
  all: to_static.
Qed.

Lemma cmd_reset_safe : forall e c s m h args, safe (cmd_reset e c s m h args).
Proof.
  intros e c s m h args. hinline. hsteps; try exact Logic.I.
  all: try (apply safe_pair; [assumption | cbn [ref_safe]; try exact Logic.I; try assumption]).
  all: to_static.
Qed.

(* ------------------------------------------------------------------ *)
(** ** A fault-free logic: what holds of the world a run ENDS in *)

(* [commit], [branch] and [switch --create] write a branch file first and its
   log a moment later: between the two writes [blogs_cover_refs] does not
   hold (and a write failure there really leaves a branch without log), so
   these three are not [emits Inv2 _].  Without faults no failure point lies
   between the two writes; [ffat] is the logic for that: from world [w] and
   no fault pending, [m] ends with no fault pending, in a world satisfying
   [Q a] if it answers [Ok a] and [E] otherwise. *)
Definition ffat {A} (w : world) (m : M A) (Q : A -> world -> Prop) (E : world -> Prop) : Prop :=
  forall t, exists r w' t',
    m (mkMS w t None) = (r, mkMS w' t' None) /\
    match r with Ok a => Q a w' | _ => E w' end.

Section FF.
  Context {A B : Type}.
  Implicit Types (w : world) (E : world -> Prop).

  Lemma ffat_ret : forall w (a : A) (Q : A -> world -> Prop) E, Q a w -> ffat w (ret a) Q E.
  Proof. intros w a Q E H t. exists (Ok a), w, t. split; [reflexivity | exact H]. Qed.

  Lemma ffat_fail : forall w (Q : A -> world -> Prop) E, E w -> ffat w (@fail A) Q E.
  Proof. intros w Q E H t. exists Err, w, t. split; [reflexivity | exact H]. Qed.

  Lemma ffat_bind : forall w (m : M A) (f : A -> M B) (R : A -> world -> Prop) (Q : B -> world -> Prop) E,
    ffat w m R E -> (forall a w', R a w' -> ffat w' (f a) Q E) -> ffat w (bind m f) Q E.
  Proof.
    intros w m f R Q E Hm Hf t. destruct (Hm t) as (r & w1 & t1 & Hrun & Hr).
    unfold bind. rewrite Hrun. destruct r as [a| |].
    - exact (Hf a w1 Hr t1).
    - exists Err, w1, t1. auto.
    - exists Panic, w1, t1. auto.
  Qed.

  Lemma ffat_conseq : forall w (m : M A) (Q Q' : A -> world -> Prop) E E',
    ffat w m Q E -> (forall a w', Q a w' -> Q' a w') -> (forall w', E w' -> E' w') -> ffat w m Q' E'.
  Proof.
    intros w m Q Q' E E' Hm Hq He t. destruct (Hm t) as (r & w1 & t1 & Hrun & Hr).
    exists r, w1, t1. split; [exact Hrun|]. destruct r; auto.
  Qed.
End FF.

Lemma ffat_assoc : forall A B C w (m : M A) (f : A -> M B) (g : B -> M C) Q E,
  ffat w (bind m (fun a => bind (f a) g)) Q E -> ffat w (bind (bind m f) g) Q E.
Proof. intros A B C w m f g Q E H t. rewrite ev_bind_assoc. exact (H t). Qed.

Lemma ffat_bind_getw : forall B w (f : world -> M B) Q E, ffat w (f w) Q E -> ffat w (bind getw f) Q E.
Proof. intros B w f Q E H t. rewrite ev_bind_getw. exact (H t). Qed.

Lemma ffat_bind_ret : forall A B w (a : A) (f : A -> M B) Q E, ffat w (f a) Q E -> ffat w (bind (ret a) f) Q E.
Proof. intros A B w a f Q E H. exact H. Qed.

Lemma ffat_bind_fail : forall A B w (f : A -> M B) (Q : B -> world -> Prop) (E : world -> Prop),
  E w -> ffat w (bind fail f) Q E.
Proof. intros A B w f Q E H t. exists Err, w, t. split; [reflexivity | exact H]. Qed.

Lemma ffat_bind_guard : forall B w b (f : unit -> M B) Q (E : world -> Prop),
  (b = true -> ffat w (f tt) Q E) -> (b = false -> E w) -> ffat w (bind (guard b) f) Q E.
Proof.
  intros B w b f Q E Ht Hf t. rewrite ev_bind_guard. destruct b.
  - exact (Ht eq_refl t).
  - exists Err, w, t. split; [reflexivity | exact (Hf eq_refl)].
Qed.

Lemma ffat_bind_of_opt : forall A B w (o : option A) (f : A -> M B) Q (E : world -> Prop),
  (forall a, o = Some a -> ffat w (f a) Q E) -> (o = None -> E w) -> ffat w (bind (of_opt o) f) Q E.
Proof.
  intros A B w o f Q E Hs Hn t. rewrite ev_bind_of_opt. destruct o as [a|].
  - exact (Hs a eq_refl t).
  - exists Err, w, t. split; [reflexivity | exact (Hn eq_refl)].
Qed.

Lemma ffat_bind_emit : forall B w e (f : unit -> M B) Q E,
  ffat (apply_effect e w) (f tt) Q E -> ffat w (bind (emit e) f) Q E.
Proof. intros B w e f Q E H t. rewrite ev_bind_emit. exact (H (t ++ [e])). Qed.

Lemma ffat_emit : forall w e (Q : unit -> world -> Prop) E, Q tt (apply_effect e w) -> ffat w (emit e) Q E.
Proof.
  intros w e Q E H t. exists (Ok tt), (apply_effect e w), (t ++ [e]). split; [reflexivity | exact H].
Qed.

Lemma ffat_guard : forall w b (Q : unit -> world -> Prop) (E : world -> Prop),
  (b = true -> Q tt w) -> (b = false -> E w) -> ffat w (guard b) Q E.
Proof.
  intros w b Q E Ht Hf t. destruct b.
  - exists (Ok tt), w, t. split; [reflexivity | exact (Ht eq_refl)].
  - exists Err, w, t. split; [reflexivity | exact (Hf eq_refl)].
Qed.

Lemma ffat_of_opt : forall A w (o : option A) (Q : A -> world -> Prop) (E : world -> Prop),
  (forall a, o = Some a -> Q a w) -> (o = None -> E w) -> ffat w (of_opt o) Q E.
Proof.
  intros A w o Q E Hs Hn t. destruct o as [a|].
  - exists (Ok a), w, t. split; [reflexivity | exact (Hs a eq_refl)].
  - exists Err, w, t. split; [reflexivity | exact (Hn eq_refl)].
Qed.

Lemma ffat_iterM : forall A (J : world -> Prop) (E : world -> Prop) (f : A -> M unit) l w,
  J w -> (forall x w', In x l -> J w' -> ffat w' (f x) (fun _ => J) E) ->
  ffat w (iterM f l) (fun _ => J) E.
Proof.
  intros A J E f l. induction l as [|x r IH]; intros w Hj Hf.
  - apply ffat_ret. exact Hj.
  - cbn [iterM]. apply ffat_bind with (R := fun _ => J).
    + apply Hf; [left; reflexivity | exact Hj].
    + intros _ w' Hj'. apply IH; [exact Hj'|]. intros y w'' Hy. apply Hf. right. exact Hy.
Qed.

(* a procedure proved with the Hoare rules, called from here *)
Lemma ffat_emits : forall A (Inv : world -> Prop) G (m : M A) w,
  emits Inv G m -> traced m -> Inv w -> ffat w m (fun _ => Inv) Inv.
Proof.
  intros A Inv G m w Hm Ht Hi t. destruct (m (mkMS w t None)) as [r [w' t' fk]] eqn:Erun.
  destruct (emits_elim Inv G A m (mkMS w t None) _ _ Hm Hi Erun) as (tr & _ & _ & _ & Hi').
  destruct (traced_elim A m (mkMS w t None) _ _ Ht Erun) as (tr' & _ & _ & Hf).
  cbn [ms_fault ms_w] in Hf, Hi'. rewrite (Hf eq_refl).
  exists r, w', t'. split; [reflexivity|]. destruct r; exact Hi'.
Qed.

Ltac fstep :=
  lazymatch goal with
  | |- ffat _ (bind (bind _ _) _) _ _ => apply ffat_assoc
  | |- ffat _ (bind getw _) _ _ => apply ffat_bind_getw; cbv beta
  | |- ffat _ (bind (ret _) _) _ _ => apply ffat_bind_ret; cbv beta
  | |- ffat _ (bind (guard _) _) _ _ => apply ffat_bind_guard; [ intro | intro ]
  | |- ffat _ (bind (of_opt _) _) _ _ => apply ffat_bind_of_opt; [ intros ? ? | intro ]
  | |- ffat _ (bind (emit _) _) _ _ => apply ffat_bind_emit
  | |- ffat _ (bind fail _) _ _ => apply ffat_bind_fail
  | |- ffat _ (bind (let _ := _ in _) _) _ _ => cbv zeta
  | |- ffat _ (bind (match ?x with _ => _ end) _) _ _ => destruct x eqn:?; cbv beta iota
  | |- ffat _ (let _ := _ in _) _ _ => cbv zeta
  | |- ffat _ (match ?x with _ => _ end) _ _ => destruct x eqn:?; cbv beta iota
  | |- ffat _ (ret _) _ _ => apply ffat_ret
  | |- ffat _ fail _ _ => apply ffat_fail
  | |- ffat _ (guard _) _ _ => apply ffat_guard; [ intro | intro ]
  | |- ffat _ (of_opt _) _ _ => apply ffat_of_opt; [ intros ? ? | intro ]
  | |- ffat _ (emit _) _ _ => apply ffat_emit
  end.
Ltac fsteps := repeat fstep.

(* ------------------------------------------------------------------ *)
(** ** [Inv2] is kept by [commit], [branch] and [switch] *)
Definition keeps {A} (w : world) (m : M A) : Prop := ffat w m (fun _ => Inv2) Inv2.

(* the final world of a "write the branch, then its log" sequence *)
Lemma cover_set_set : forall (refs blogs : amap bytes) n id l,
  (forall k, am_mem refs k = true -> am_mem blogs k = true) ->
  forall k, am_mem (am_set refs n id) k = true -> am_mem (am_set blogs n l) k = true.
Proof.
  intros refs blogs n id l Hc k Hk. rewrite am_mem_set in Hk |- *.
  destruct (bytes_eqb n k); [reflexivity|]. cbn [orb] in Hk |- *. apply Hc. exact Hk.
Qed.

Lemma keeps_safe : forall A (m : M A) w, safe m -> traced m -> Inv2 w -> keeps w m.
Proof. intros A m w Hm Ht Hi. exact (ffat_emits A Inv2 ref_safe m w Hm Ht Hi). Qed.

Lemma do_commit_keeps : forall e c msg w, Inv2 w -> keeps w (do_commit e c msg).
Proof.
  intros e c msg w Hi. unfold keeps, do_commit, put_obj. fsteps; try assumption.
  apply ffat_bind with
    (R := fun _ w' => Inv2 w' /\ w_refs w' = w_refs w /\ w_blogs w' = w_blogs w).
  - apply ffat_conseq with (Q := fun _ w' => Inv2 w' /\ w_refs w' = w_refs w /\ w_blogs w' = w_blogs w)
                           (E := Inv2); [|auto|auto].
    apply ffat_iterM; [auto|].
    intros d w' _ (Hi' & Hr & Hb). fsteps. split; [apply Inv2_safe; [exact Hi' | exact Logic.I]|].
    wsimpl. auto.
  - intros _ w' (Hi' & Hr & Hb). fsteps; try assumption.
    all: destruct Hi as [Hs Hc]; split; unfold refs_sorted, blogs_cover_refs; wsimpl; rewrite Hr, ?Hb;
      [apply am_set_sorted; exact Hs | apply cover_set_set; exact Hc].
Qed.

Lemma cmd_commit_keeps : forall e c msg w, Inv2 w -> keeps w (cmd_commit e c msg).
Proof.
  intros e c msg w Hi. unfold keeps, cmd_commit. fsteps; try assumption.
  - apply ffat_bind with (R := fun _ => Inv2); [apply do_commit_keeps; exact Hi|].
    intros _ w' Hi'. fsteps. exact Hi'.
  - apply ffat_bind with (R := fun _ => Inv2).
    + apply keeps_safe; [apply head_tree_nodes_safe | apply head_tree_nodes_traced | exact Hi].
    + intros ns w' Hi'. fsteps; try assumption.
      apply ffat_bind with (R := fun _ => Inv2); [apply do_commit_keeps; exact Hi'|].
      intros _ w'' Hi''. fsteps. exact Hi''.
Qed.

Lemma cmd_branch_keeps : forall e c args lst rn dl w, Inv2 w -> keeps w (cmd_branch e c args lst rn dl).
Proof.
  intros e c args lst rn dl w Hi. unfold keeps, cmd_branch. cbv zeta.
  apply ffat_bind_guard; [intros _ | intros _; exact Hi].
  apply ffat_bind with (R := fun _ => Inv2).
  { (* create *)
    fsteps; try assumption.
    destruct Hi as [Hs Hc]; split; unfold refs_sorted, blogs_cover_refs; wsimpl;
      [apply am_set_sorted; exact Hs | apply cover_set_set; exact Hc]. }
  intros _ w1 Hi1. apply ffat_bind with (R := fun _ => Inv2).
  { fsteps; exact Hi1. }
  intros out w2 Hi2. apply ffat_bind with (R := fun _ => Inv2).
  { (* rename *)
    fsteps; try assumption.
    Show. all: admit. }
Abort.
