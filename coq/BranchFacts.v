(* BranchFacts.v — property C10 "branch and HEAD state machine", model half.

   1. the algebra of the sorted association list [amap] (World.v);
      [w_refs] stays strictly sorted along every history from [w_empty];
   2. exact evaluation of the six branch operations (branch, branch --delete,
      branch --rename, switch, switch --create, update-ref) on a fault-free
      state, the abstract machine on (current branch, branch map) and the
      refinement theorems; a refused operation leaves the world unchanged;
      the invariant [blogs_cover_refs];
   3. [branch --list] and [rev-parse] report exactly the stored state;
   4. the HEAD and branch file codecs of Refs.v round-trip;
   5. examples. *)
From Coq Require Import Strings.String Strings.Byte.
From Coq Require Import List Bool NArith ZArith Arith Lia Sorted.
From Goit Require Import Bytes Sha1 Obj Refs Tree Index Regex GoRegex Commit Reflog Config Ignore World Repo.
From Goit Require Import BytesFacts ObjFacts RegexFacts MonadFacts.
Import ListNotations.

(* ================================================================== *)
(** * 1. Association-list algebra *)

Section AmapFacts.
  Context {V : Type}.
  Implicit Types (m : amap V) (k : bytes) (v : V).

  Definition key_lt (a b : bytes * V) : Prop := blt (fst a) (fst b) = true.
  Definition am_sorted m : Prop := StronglySorted key_lt m.
  Definition am_keys m : list bytes := map fst m.

  (* ---------- facts that hold for ANY list ---------- *)
  Lemma am_get_set_same : forall m k v, am_get (am_set m k v) k = Some v.
  Proof.
    induction m as [|[k0 v0] r IH]; intros k v; cbn [am_set am_get].
    - rewrite bytes_eqb_refl. reflexivity.
    - destruct (bytes_eqb k0 k) eqn:E0.
      + cbn [am_get]. rewrite bytes_eqb_refl. reflexivity.
      + destruct (blt k k0) eqn:El; cbn [am_get].
        * rewrite bytes_eqb_refl. reflexivity.
        * rewrite E0. apply IH.
  Qed.

  Lemma am_get_set_other : forall m k v k', k' <> k -> am_get (am_set m k v) k' = am_get m k'.
  Proof.
    induction m as [|[k0 v0] r IH]; intros k v k' Hne; cbn [am_set am_get].
    - assert (E : bytes_eqb k k' = false) by (apply bytes_eqb_neq; congruence).
      rewrite E. reflexivity.
    - assert (E : bytes_eqb k k' = false) by (apply bytes_eqb_neq; congruence).
      destruct (bytes_eqb k0 k) eqn:E0.
      + apply bytes_eqb_eq in E0. subst k0. cbn [am_get]. rewrite E. reflexivity.
      + destruct (blt k k0) eqn:El; cbn [am_get].
        * rewrite E. reflexivity.
        * destruct (bytes_eqb k0 k') eqn:E1; [reflexivity|]. apply IH. exact Hne.
  Qed.

  Lemma am_get_del_other : forall m k k', k' <> k -> am_get (am_del m k) k' = am_get m k'.
  Proof.
    induction m as [|[k0 v0] r IH]; intros k k' Hne; cbn [am_del am_get].
    - reflexivity.
    - destruct (bytes_eqb k0 k) eqn:E0.
      + apply bytes_eqb_eq in E0. subst k0.
        assert (E : bytes_eqb k k' = false) by (apply bytes_eqb_neq; congruence).
        rewrite E. reflexivity.
      + cbn [am_get]. destruct (bytes_eqb k0 k') eqn:E1; [reflexivity|]. apply IH. exact Hne.
  Qed.

  Lemma am_mem_get : forall m k, am_mem m k = true <-> exists v, am_get m k = Some v.
  Proof.
    intros m k. unfold am_mem. destruct (am_get m k) as [v|].
    - split; [intros _; exists v; reflexivity | reflexivity].
    - split; [discriminate | intros [v Hv]; discriminate Hv].
  Qed.

  Lemma am_mem_false : forall m k, am_mem m k = false <-> am_get m k = None.
  Proof.
    intros m k. unfold am_mem. destruct (am_get m k) as [v|].
    - split; discriminate.
    - split; reflexivity.
  Qed.

  Lemma am_get_in : forall m k v, am_get m k = Some v -> In (k, v) m.
  Proof.
    induction m as [|[k0 v0] r IH]; intros k v Hg; cbn [am_get] in Hg.
    - discriminate Hg.
    - destruct (bytes_eqb k0 k) eqn:E0.
      + apply bytes_eqb_eq in E0. injection Hg as ->. subst k0. left. reflexivity.
      + right. apply IH. exact Hg.
  Qed.

  Lemma am_mem_iff : forall m k, am_mem m k = true <-> In k (am_keys m).
  Proof.
    induction m as [|[k0 v0] r IH]; intros k; unfold am_mem; cbn [am_get am_keys map fst].
    - split; [discriminate | intros []].
    - destruct (bytes_eqb k0 k) eqn:E0.
      + apply bytes_eqb_eq in E0. split; [intros _; left; exact E0 | reflexivity].
      + apply bytes_eqb_neq in E0. fold (am_mem r k). rewrite IH. unfold am_keys.
        split; [intro H; right; exact H | intros [H|H]; [contradiction | exact H]].
  Qed.

  Lemma am_mem_set_same : forall m k v, am_mem (am_set m k v) k = true.
  Proof. intros m k v. unfold am_mem. rewrite am_get_set_same. reflexivity. Qed.

  Lemma am_mem_set_other : forall m k v k', k' <> k -> am_mem (am_set m k v) k' = am_mem m k'.
  Proof. intros m k v k' Hne. unfold am_mem. rewrite am_get_set_other by exact Hne. reflexivity. Qed.

  Lemma am_mem_del_other : forall m k k', k' <> k -> am_mem (am_del m k) k' = am_mem m k'.
  Proof. intros m k k' Hne. unfold am_mem. rewrite am_get_del_other by exact Hne. reflexivity. Qed.

  Lemma am_mem_set : forall m k v k',
    am_mem (am_set m k v) k' = bytes_eqb k k' || am_mem m k'.
  Proof.
    intros m k v k'. destruct (bytes_eqb k k') eqn:E.
    - apply bytes_eqb_eq in E. subst k'. apply am_mem_set_same.
    - apply bytes_eqb_neq in E. cbn [orb]. apply am_mem_set_other. congruence.
  Qed.

  (* keys after [am_set]: the old keys and the new one *)
  Lemma am_keys_set : forall m k v k', In k' (am_keys (am_set m k v)) <-> k' = k \/ In k' (am_keys m).
  Proof.
    intros m k v k'. rewrite <- !am_mem_iff, am_mem_set.
    rewrite orb_true_iff, bytes_eqb_eq. split; (intros [H|H]; [left; congruence | right; exact H]).
  Qed.

  (* without sortedness [am_del] removes the first occurrence only; its keys
     are among the old ones *)
  Lemma am_keys_del_incl : forall m k k', In k' (am_keys (am_del m k)) -> In k' (am_keys m).
  Proof.
    induction m as [|[k0 v0] r IH]; intros k k' Hin; cbn [am_del] in Hin.
    - exact Hin.
    - destruct (bytes_eqb k0 k) eqn:E0.
      + right. exact Hin.
      + cbn [am_keys map fst] in Hin |- *. destruct Hin as [H|H]; [left; exact H | right; apply (IH k); exact H].
  Qed.

  Lemma am_del_absent : forall m k, am_get m k = None -> am_del m k = m.
  Proof.
    induction m as [|[k0 v0] r IH]; intros k Hg; cbn [am_del am_get] in Hg |- *.
    - reflexivity.
    - destruct (bytes_eqb k0 k) eqn:E0; [discriminate Hg|]. rewrite IH by exact Hg. reflexivity.
  Qed.

  Lemma am_length_del : forall m k, am_mem m k = true -> S (length (am_del m k)) = length m.
  Proof.
    induction m as [|[k0 v0] r IH]; intros k Hm; unfold am_mem in Hm; cbn [am_get am_del] in Hm |- *.
    - discriminate Hm.
    - destruct (bytes_eqb k0 k) eqn:E0; [reflexivity|]. cbn [length]. rewrite (IH k Hm). reflexivity.
  Qed.

  (* ---------- strictly ascending keys ---------- *)
  Lemma am_sorted_nil : am_sorted (@nil (bytes * V)).
  Proof. constructor. Qed.

  Lemma am_sorted_cons : forall k v m,
    am_sorted ((k, v) :: m) <-> am_sorted m /\ Forall (fun kv => blt k (fst kv) = true) m.
  Proof.
    intros k v m. split.
    - intro H. inversion H as [|a l Hs Hf]; subst. split; assumption.
    - intros [Hs Hf]. constructor; assumption.
  Qed.

  Lemma am_sorted_tail : forall kv m, am_sorted (kv :: m) -> am_sorted m.
  Proof. intros [k v] m H. apply am_sorted_cons in H. tauto. Qed.

  Lemma am_get_lt_head : forall m k, Forall (fun kv => blt k (fst kv) = true) m -> am_get m k = None.
  Proof.
    induction m as [|[k0 v0] r IH]; intros k Hf; cbn [am_get].
    - reflexivity.
    - inversion Hf as [|a l Hlt Hr]; subst. cbn [fst] in Hlt.
      assert (E : bytes_eqb k0 k = false).
      { apply bytes_eqb_neq. intro Heq. subst k0. rewrite blt_irrefl in Hlt. discriminate Hlt. }
      rewrite E. apply IH. exact Hr.
  Qed.

  (* a sorted map has no duplicate key *)
  Lemma am_sorted_nodup : forall m, am_sorted m -> NoDup (am_keys m).
  Proof.
    induction m as [|[k0 v0] r IH]; intro Hs; cbn [am_keys map fst].
    - constructor.
    - apply am_sorted_cons in Hs. destruct Hs as [Hs Hf]. constructor; [|apply IH; exact Hs].
      intro Hin. apply am_mem_iff in Hin. unfold am_mem in Hin.
      rewrite (am_get_lt_head r k0 Hf) in Hin. discriminate Hin.
  Qed.

  Lemma am_get_del_same : forall m k, am_sorted m -> am_get (am_del m k) k = None.
  Proof.
    induction m as [|[k0 v0] r IH]; intros k Hs; cbn [am_del].
    - reflexivity.
    - apply am_sorted_cons in Hs. destruct Hs as [Hs Hf].
      destruct (bytes_eqb k0 k) eqn:E0.
      + apply bytes_eqb_eq in E0. subst k0. apply am_get_lt_head. exact Hf.
      + cbn [am_get]. rewrite E0. apply IH. exact Hs.
  Qed.

  Lemma am_mem_del_same : forall m k, am_sorted m -> am_mem (am_del m k) k = false.
  Proof. intros m k Hs. unfold am_mem. rewrite am_get_del_same by exact Hs. reflexivity. Qed.

  Lemma am_mem_del : forall m k k', am_sorted m ->
    am_mem (am_del m k) k' = negb (bytes_eqb k k') && am_mem m k'.
  Proof.
    intros m k k' Hs. destruct (bytes_eqb k k') eqn:E.
    - apply bytes_eqb_eq in E. subst k'. apply am_mem_del_same. exact Hs.
    - apply bytes_eqb_neq in E. cbn [negb andb]. apply am_mem_del_other. congruence.
  Qed.

  Lemma am_keys_del : forall m k k', am_sorted m ->
    (In k' (am_keys (am_del m k)) <-> k' <> k /\ In k' (am_keys m)).
  Proof.
    intros m k k' Hs. rewrite <- !am_mem_iff, am_mem_del by exact Hs.
    rewrite andb_true_iff, negb_true_iff, bytes_eqb_neq. split; (intros [H1 H2]; split; [congruence | exact H2]).
  Qed.

  Lemma Forall_am_set : forall (P : bytes * V -> Prop) m k v,
    Forall P m -> P (k, v) -> Forall P (am_set m k v).
  Proof.
    intros P. induction m as [|[k0 v0] r IH]; intros k v Hf Hp; cbn [am_set].
    - constructor; [exact Hp | constructor].
    - inversion Hf as [|a l H0 Hr]; subst.
      destruct (bytes_eqb k0 k); [constructor; assumption|].
      destruct (blt k k0); [constructor; assumption|].
      constructor; [exact H0 | apply IH; assumption].
  Qed.

  Lemma Forall_am_del : forall (P : bytes * V -> Prop) m k, Forall P m -> Forall P (am_del m k).
  Proof.
    intros P. induction m as [|[k0 v0] r IH]; intros k Hf; cbn [am_del].
    - constructor.
    - inversion Hf as [|a l H0 Hr]; subst.
      destruct (bytes_eqb k0 k); [exact Hr|]. constructor; [exact H0 | apply IH; exact Hr].
  Qed.

  Lemma am_set_sorted : forall m k v, am_sorted m -> am_sorted (am_set m k v).
  Proof.
    induction m as [|[k0 v0] r IH]; intros k v Hs; cbn [am_set].
    - apply am_sorted_cons. split; constructor.
    - pose proof Hs as Hs0. apply am_sorted_cons in Hs. destruct Hs as [Hs Hf].
      destruct (bytes_eqb k0 k) eqn:E0.
      + apply bytes_eqb_eq in E0. subst k0. apply am_sorted_cons. split; assumption.
      + destruct (blt k k0) eqn:El.
        * apply am_sorted_cons. split; [exact Hs0|]. constructor; [exact El|].
          apply (Forall_impl (fun kv => blt k (fst kv) = true)) with (2 := Hf).
          intros kv Hlt. apply (blt_trans k k0 (fst kv)); assumption.
        * apply am_sorted_cons. split; [apply IH; exact Hs|].
          apply Forall_am_set; [exact Hf|]. cbn [fst].
          destruct (blt_total k0 k) as [H|[H|H]]; [exact H | | congruence].
          apply bytes_eqb_neq in E0. contradiction.
  Qed.

  Lemma am_del_sorted : forall m k, am_sorted m -> am_sorted (am_del m k).
  Proof.
    induction m as [|[k0 v0] r IH]; intros k Hs; cbn [am_del].
    - exact Hs.
    - apply am_sorted_cons in Hs. destruct Hs as [Hs Hf].
      destruct (bytes_eqb k0 k); [exact Hs|].
      apply am_sorted_cons. split; [apply IH; exact Hs | apply Forall_am_del; exact Hf].
  Qed.

  (* a sorted map is determined by its lookups *)
  Lemma am_ext : forall m1 m2, am_sorted m1 -> am_sorted m2 ->
    (forall k, am_get m1 k = am_get m2 k) -> m1 = m2.
  Proof.
    induction m1 as [|[k1 v1] r1 IH]; intros m2 Hs1 Hs2 Hext.
    - destruct m2 as [|[k2 v2] r2]; [reflexivity|].
      specialize (Hext k2). cbn [am_get] in Hext. rewrite bytes_eqb_refl in Hext. discriminate Hext.
    - destruct m2 as [|[k2 v2] r2].
      + specialize (Hext k1). cbn [am_get] in Hext. rewrite bytes_eqb_refl in Hext. discriminate Hext.
      + apply am_sorted_cons in Hs1. destruct Hs1 as [Hs1 Hf1].
        apply am_sorted_cons in Hs2. destruct Hs2 as [Hs2 Hf2].
        assert (Hk : k1 = k2).
        { destruct (blt_total k1 k2) as [H|[H|H]]; [|exact H|].
          - pose proof (Hext k1) as He. cbn [am_get] in He. rewrite bytes_eqb_refl in He.
            assert (E : bytes_eqb k2 k1 = false).
            { apply bytes_eqb_neq. intro Heq. subst k2. rewrite blt_irrefl in H. discriminate H. }
            rewrite E in He. rewrite am_get_lt_head in He; [discriminate He|].
            apply (Forall_impl (fun kv => blt k1 (fst kv) = true)) with (2 := Hf2).
            intros kv Hlt. apply (blt_trans k1 k2 (fst kv)); assumption.
          - pose proof (Hext k2) as He. cbn [am_get] in He. rewrite bytes_eqb_refl in He.
            assert (E : bytes_eqb k1 k2 = false).
            { apply bytes_eqb_neq. intro Heq. subst k2. rewrite blt_irrefl in H. discriminate H. }
            rewrite E in He. rewrite am_get_lt_head in He; [discriminate He|].
            apply (Forall_impl (fun kv => blt k2 (fst kv) = true)) with (2 := Hf1).
            intros kv Hlt. apply (blt_trans k2 k1 (fst kv)); assumption. }
        subst k2.
        assert (Hv : v1 = v2).
        { pose proof (Hext k1) as He. cbn [am_get] in He. rewrite bytes_eqb_refl in He. congruence. }
        subst v2. f_equal. apply IH; [exact Hs1 | exact Hs2|].
        intro k. pose proof (Hext k) as He. cbn [am_get] in He.
        destruct (bytes_eqb k1 k) eqn:E; [|exact He].
        apply bytes_eqb_eq in E. subst k.
        rewrite (am_get_lt_head r1 k1 Hf1), (am_get_lt_head r2 k1 Hf2). reflexivity.
  Qed.

  (* consequences of extensionality: the order of independent updates does not matter *)
  Lemma am_set_set_comm : forall m k1 v1 k2 v2, am_sorted m -> k1 <> k2 ->
    am_set (am_set m k1 v1) k2 v2 = am_set (am_set m k2 v2) k1 v1.
  Proof.
    intros m k1 v1 k2 v2 Hs Hne. apply am_ext; try (apply am_set_sorted; apply am_set_sorted; exact Hs).
    intro k. destruct (bytes_eq_dec k k2) as [->|N2].
    - rewrite am_get_set_same, am_get_set_other by congruence. rewrite am_get_set_same. reflexivity.
    - rewrite (am_get_set_other _ k2) by exact N2. destruct (bytes_eq_dec k k1) as [->|N1].
      + rewrite !am_get_set_same. reflexivity.
      + rewrite !am_get_set_other by assumption. reflexivity.
  Qed.

  Lemma am_del_set_same : forall m k v, am_sorted m -> am_get m k = None -> am_del (am_set m k v) k = m.
  Proof.
    intros m k v Hs Hn. apply am_ext; [apply am_del_sorted; apply am_set_sorted; exact Hs | exact Hs |].
    intro k'. destruct (bytes_eq_dec k' k) as [->|N].
    - rewrite am_get_del_same by (apply am_set_sorted; exact Hs). symmetry. exact Hn.
    - rewrite am_get_del_other, am_get_set_other by exact N. reflexivity.
  Qed.

  (* a deletion and an update of two different keys commute: writing the new
     branch before removing the old one ends in the same map as the other order *)
  Lemma am_del_set_comm : forall m k1 v k2, am_sorted m -> k1 <> k2 ->
    am_del (am_set m k1 v) k2 = am_set (am_del m k2) k1 v.
  Proof.
    intros m k1 v k2 Hs Hne.
    apply am_ext; [apply am_del_sorted, am_set_sorted; exact Hs | apply am_set_sorted, am_del_sorted; exact Hs |].
    intro k. destruct (bytes_eq_dec k k2) as [->|N2].
    - rewrite am_get_del_same by (apply am_set_sorted; exact Hs).
      rewrite am_get_set_other by congruence. rewrite am_get_del_same by exact Hs. reflexivity.
    - rewrite am_get_del_other by exact N2. destruct (bytes_eq_dec k k1) as [->|N1].
      + rewrite !am_get_set_same. reflexivity.
      + rewrite !am_get_set_other by exact N1. rewrite am_get_del_other by exact N2. reflexivity.
  Qed.
End AmapFacts.


Arguments am_sorted {V} m.
Arguments am_keys {V} m.

(* ------------------------------------------------------------------ *)
(** ** [w_refs] is strictly sorted in every world any history reaches *)

Definition refs_sorted (w : world) : Prop := am_sorted (w_refs w).

Lemma refs_sorted_effect : forall e w, refs_sorted w -> refs_sorted (apply_effect e w).
Proof.
  intros e w Hs. unfold refs_sorted in *.
  destruct e; autorewrite with wfields; try exact Hs.
  - apply am_set_sorted. exact Hs.
  - apply am_del_sorted. exact Hs.
  - destruct (am_get (w_refs w) old) as [i|]; [|exact Hs].
    apply am_set_sorted. apply am_del_sorted. exact Hs.
Qed.

Lemma refs_sorted_effects : forall tr w, refs_sorted w -> refs_sorted (apply_effects tr w).
Proof.
  induction tr as [|e tr IH]; intros w Hs.
  - exact Hs.
  - rewrite apply_effects_cons. apply IH. apply refs_sorted_effect. exact Hs.
Qed.

Lemma run_cmd_emits_sorted : forall e c, emits refs_sorted (fun _ _ => True) (run_cmd e c).
Proof.
  intros e c. apply run_cmd_emits_stable. intros e0 w Hs.
  split; [exact Logic.I | apply refs_sorted_effect; exact Hs].
Qed.

Theorem refs_sorted_step : forall a w, refs_sorted w -> refs_sorted (step_w a w).
Proof.
  apply (step_invariant refs_sorted (fun _ _ => True)).
  - exact run_cmd_emits_sorted.
  - intros u w Hs. unfold refs_sorted. rewrite w_refs_apply_edit. exact Hs.
Qed.

Theorem refs_sorted_run_from : forall h w, refs_sorted w -> refs_sorted (run h w).
Proof.
  apply (run_invariant refs_sorted (fun _ _ => True)).
  - exact run_cmd_emits_sorted.
  - intros u w Hs. unfold refs_sorted. rewrite w_refs_apply_edit. exact Hs.
Qed.

Theorem refs_sorted_run : forall h, refs_sorted (run h w_empty).
Proof. intro h. apply refs_sorted_run_from. apply am_sorted_nil. Qed.

(* also when a write fails in the middle of a command (fault injection):
   the world the command stops in still has sorted refs *)
Theorem refs_sorted_fault : forall e c w k r s',
  refs_sorted w -> run_cmd e c (mkMS w [] (Some k)) = (r, s') -> refs_sorted (ms_w s').
Proof.
  intros e c w k r s' Hs Hrun.
  destruct (emits_sound_fault refs_sorted (fun _ _ => True) _ _ _ _ _ _ (run_cmd_emits_sorted e c) Hs Hrun) as [H _].
  exact H.
Qed.

(* ================================================================== *)
(** * 2. Evaluating commands on a fault-free state *)

(* the equations used to run a command symbolically *)
Lemma ev_bind_getw : forall B (f : world -> M B) s, bind getw f s = f (ms_w s) s.
Proof. reflexivity. Qed.
Lemma ev_bind_ret : forall A B (a : A) (f : A -> M B) s, bind (ret a) f s = f a s.
Proof. reflexivity. Qed.
Lemma ev_bind_fail : forall A B (f : A -> M B) s, bind (@fail A) f s = (Err, s).
Proof. reflexivity. Qed.
Lemma ev_bind_guard : forall B b (f : unit -> M B) s,
  bind (guard b) f s = if b then f tt s else (Err, s).
Proof. intros B b f s. destruct b; reflexivity. Qed.
Lemma ev_bind_of_opt : forall A B (o : option A) (f : A -> M B) s,
  bind (of_opt o) f s = match o with Some a => f a s | None => (Err, s) end.
Proof. intros A B o f s. destruct o; reflexivity. Qed.
Lemma ev_bind_emit : forall B e (f : unit -> M B) w t,
  bind (emit e) f (mkMS w t None) = f tt (mkMS (apply_effect e w) (t ++ [e]) None).
Proof. reflexivity. Qed.
Lemma ev_emit : forall e w t,
  emit e (mkMS w t None) = (Ok tt, mkMS (apply_effect e w) (t ++ [e]) None).
Proof. reflexivity. Qed.
Lemma ev_guard : forall b s, guard b s = if b then (Ok tt, s) else (Err, s).
Proof. intros b s. destruct b; reflexivity. Qed.
Lemma ev_of_opt : forall A (o : option A) s,
  of_opt o s = match o with Some a => (Ok a, s) | None => (Err, s) end.
Proof. intros A o s. destruct o; reflexivity. Qed.
Lemma ev_bind_assoc : forall A B C (m : M A) (f : A -> M B) (g : B -> M C) s,
  bind (bind m f) g s = bind m (fun a => bind (f a) g) s.
Proof. intros A B C m f g s. unfold bind. destruct (m s) as [[a| |] s1]; reflexivity. Qed.

Ltac ev1 :=
  first [ rewrite ev_bind_assoc
        | rewrite ev_bind_getw
        | rewrite ev_bind_ret
        | rewrite ev_bind_fail
        | rewrite ev_bind_guard
        | rewrite ev_bind_of_opt
        | rewrite ev_bind_emit
        | rewrite ev_emit
        | rewrite ev_guard
        | rewrite ev_of_opt ];
  cbn [ms_w ms_trace ms_fault].
Ltac ev := repeat ev1.

(* ---------- what a command loads before it runs ---------- *)
(* the commit HEAD resolves to: [Some None] before the first commit of the
   current branch, [None] when the branch file names something that does not
   load as a commit (the command is refused) *)
Definition head_commit (w : world) : option (option (bytes * commit)) :=
  match am_get (w_refs w) (w_head w) with
  | None => Some None
  | Some id => match get_commit (w_objs w) id with
               | Some c => Some (Some (id, c))
               | None => None
               end
  end.

Definition ctx_of (w : world) : option ctx :=
  match cfg_of (w_gcfg w), cfg_of (w_lcfg w), head_commit w,
        ign_load (am_get (w_files w) (str ".goitignore"%string)) with
  | Some g, Some l, Some hc, Some pats => Some (mkCtx l g hc pats)
  | _, _, _, _ => None
  end.

(* [load_ctx] reads only: it never changes the state, whatever the fault setting *)
Lemma load_ctx_eq : forall s,
  load_ctx s = (match ctx_of (ms_w s) with Some x => Ok x | None => Err end, s).
Proof.
  intro s. unfold load_ctx, ctx_of, head_commit. ev.
  destruct (cfg_of (w_gcfg (ms_w s))) as [g|]; [|reflexivity].
  destruct (cfg_of (w_lcfg (ms_w s))) as [l|]; [|reflexivity].
  destruct (am_get (w_refs (ms_w s)) (w_head (ms_w s))) as [id|].
  - ev. destruct (get_commit (w_objs (ms_w s)) id) as [c|]; [|reflexivity].
    ev. destruct (ign_load _); reflexivity.
  - ev. destruct (ign_load _); reflexivity.
Qed.

Lemma ctx_of_headc : forall w x, ctx_of w = Some x -> head_commit w = Some (x_headc x).
Proof.
  intros w x Hx. unfold ctx_of in Hx.
  destruct (cfg_of (w_gcfg w)); [|discriminate Hx].
  destruct (cfg_of (w_lcfg w)); [|discriminate Hx].
  destruct (head_commit w) as [hc|]; [|discriminate Hx].
  destruct (ign_load _); [|discriminate Hx].
  injection Hx as <-. reflexivity.
Qed.

Lemma head_commit_some : forall w hid cm,
  head_commit w = Some (Some (hid, cm)) ->
  am_get (w_refs w) (w_head w) = Some hid /\ get_commit (w_objs w) hid = Some cm.
Proof.
  intros w hid cm H. unfold head_commit in H.
  destruct (am_get (w_refs w) (w_head w)) as [id|]; [|discriminate H].
  destruct (get_commit (w_objs w) id) as [c|] eqn:Ec; [|discriminate H].
  injection H as -> ->. split; [reflexivity | exact Ec].
Qed.

Lemma head_commit_none : forall w,
  head_commit w = Some None -> am_get (w_refs w) (w_head w) = None.
Proof.
  intros w H. unfold head_commit in H.
  destruct (am_get (w_refs w) (w_head w)) as [id|]; [|reflexivity].
  destruct (get_commit (w_objs w) id); discriminate H.
Qed.

(* the command proper, once the context is loaded *)
Definition dispatch (e : env) (c : cmd) (x : ctx) : M (list bytes) :=
  match c with
  | CInit => fail
  | CConfig g args => cmd_config x g args
  | CAdd args => cmd_add x args
  | CRm args => cmd_rm args
  | CCommit msg => cmd_commit e x msg
  | CStatus => cmd_status x
  | CBranch args l r d => cmd_branch e x args l r d
  | CSwitch args cr => cmd_switch e x args cr
  | CReset s m h args => cmd_reset e x s m h args
  | CRestore st args => cmd_restore x st args
  | CUpdateRef args => cmd_update_ref args
  | CLog n => cmd_log x n
  | CReflog => cmd_reflog
  | CCatFile t p args => cmd_cat_file t p args
  | CHashObject args => cmd_hash_object args
  | CLsFiles s => cmd_ls_files s
  | CRevParse args => cmd_rev_parse args
  | CWriteTree => cmd_write_tree
  end.

Lemma run_cmd_eq : forall e c s,
  run_cmd e c s =
  match c with
  | CInit => cmd_init s
  | _ => if w_inited (ms_w s) then
           match ctx_of (ms_w s) with
           | Some x => dispatch e c x s
           | None => (Err, s)
           end
         else (Err, s)
  end.
Proof.
  intros e c s. unfold run_cmd. rewrite ev_bind_getw.
  destruct c; try reflexivity;
    rewrite ev_bind_guard; (destruct (w_inited (ms_w s)); [|reflexivity]);
    unfold bind at 1; rewrite load_ctx_eq; destruct (ctx_of (ms_w s)); reflexivity.
Qed.

Definition outcome_of (r : res (list bytes)) : outcome :=
  match r with Ok out => OOk out | Err => OErr | Panic => OPanic end.

Lemma step_cmd_eq : forall e c w,
  step (ACmd e c) w =
  (ms_w (snd (run_cmd e c (mkMS w [] None))),
   outcome_of (fst (run_cmd e c (mkMS w [] None))),
   ms_trace (snd (run_cmd e c (mkMS w [] None)))).
Proof.
  intros e c w. cbn [step]. unfold run_m.
  destruct (run_cmd e c (mkMS w [] None)) as [[out| |] s]; reflexivity.
Qed.

(* a ready, loaded world: the shape every theorem about a sub-command needs *)
Lemma step_loaded : forall e c w x,
  c <> CInit -> w_inited w = true -> ctx_of w = Some x ->
  step (ACmd e c) w =
  (ms_w (snd (dispatch e c x (mkMS w [] None))),
   outcome_of (fst (dispatch e c x (mkMS w [] None))),
   ms_trace (snd (dispatch e c x (mkMS w [] None)))).
Proof.
  intros e c w x Hc Hi Hx. rewrite step_cmd_eq, run_cmd_eq. cbn [ms_w]. rewrite Hi, Hx.
  destruct c; try reflexivity. contradiction Hc. reflexivity.
Qed.

Lemma step_not_loaded : forall e c w,
  c <> CInit -> w_inited w = false \/ ctx_of w = None ->
  step (ACmd e c) w = (w, OErr, []).
Proof.
  intros e c w Hc Hno. rewrite step_cmd_eq, run_cmd_eq. cbn [ms_w].
  destruct c; try (contradiction Hc; reflexivity);
    (destruct Hno as [Hi|Hx]; [rewrite Hi; reflexivity | rewrite Hx; destruct (w_inited w); reflexivity]).
Qed.

(* ================================================================== *)
(** * 3. The six operations, evaluated exactly *)

Lemma get_commit_lookup : forall st id c, get_commit st id = Some c -> exists p, st_lookup st id = Some p.
Proof.
  intros st id c H. unfold get_commit, get_kind, get_obj in H.
  destruct (st_lookup st id) as [p|]; [exists p; reflexivity | discriminate H].
Qed.

Lemma snoc2 : forall A (t : list A) a b, (t ++ [a]) ++ [b] = t ++ [a; b].
Proof. intros A t a b. rewrite <- app_assoc. reflexivity. Qed.

(* ---------- branch <name> ---------- *)
Definition blog_created (e : env) (c : ctx) (from hid : bytes) : bytes :=
  log_rec e c None (Some hid) RBranch (str "Created from "%string ++ from).

Definition branch_create_trace (e : env) (c : ctx) (w : world) (name hid : bytes) : list effect :=
  [ESetRef name hid; EAppendBlog name (blog_created e c (w_head w) hid)].

Lemma cmd_branch_create_eq : forall e c name w t,
  cmd_branch e c [name] false [] [] (mkMS w t None) =
  match x_headc c with
  | Some (hid, _) =>
      if negb (am_mem (w_refs w) name) && valid_branch_name name then
        (Ok [], mkMS (apply_effects (branch_create_trace e c w name hid) w)
                     (t ++ branch_create_trace e c w name hid) None)
      else (Err, mkMS w t None)
  | None => (Err, mkMS w t None)
  end.
Proof.
  intros e c name w t. unfold cmd_branch. cbn [length Nat.eqb is_nil negb andb orb]. ev.
  destruct (x_headc c) as [[hid cm]|]; [|reflexivity]. ev.
  destruct (am_mem (w_refs w) name); cbn [negb andb]; [reflexivity|]. ev.
  destruct (valid_branch_name name); [|reflexivity]. ev.
  unfold branch_create_trace, blog_created. rewrite snoc2. reflexivity.
Qed.

(* ---------- branch --delete=<name> ---------- *)
Lemma cmd_branch_delete_eq : forall e c d w t,
  is_nil d = false ->
  cmd_branch e c [] false [] d (mkMS w t None) =
  if negb (bytes_eqb d (w_head w)) && am_mem (w_refs w) d then
    if am_mem (w_blogs w) d then
      (Ok [], mkMS (apply_effects [EDelRef d; EDelBlog d] w) (t ++ [EDelRef d; EDelBlog d]) None)
    else (Err, mkMS (apply_effect (EDelRef d) w) (t ++ [EDelRef d]) None)
  else (Err, mkMS w t None).
Proof.
  intros e c d w t Hd. unfold cmd_branch. rewrite Hd. cbn [length Nat.eqb is_nil negb andb orb]. ev.
  destruct (bytes_eqb d (w_head w)); cbn [negb andb]; [reflexivity|]. ev.
  destruct (am_mem (w_refs w) d); [|reflexivity]. ev.
  destruct (am_mem (w_blogs w) d); [|reflexivity]. ev.
  rewrite snoc2. reflexivity.
Qed.

(* ---------- branch --rename=<new> ---------- *)
Definition rename_msg (prev new : bytes) : bytes :=
  str "renamed refs/heads/"%string ++ prev ++ str " to refs/heads/"%string ++ new.

Definition rename_trace1 (e : env) (c : ctx) (w : world) (new hid : bytes) : list effect :=
  [ESetRef new hid; ESetHead new; EDelRef (w_head w);
   EAppendHlog (log_rec e c (Some hid) None RBranch (rename_msg (w_head w) new));
   EAppendHlog (log_rec e c None (Some hid) RBranch (rename_msg (w_head w) new))].

Definition rename_trace2 (e : env) (c : ctx) (w : world) (new hid : bytes) : list effect :=
  [EDelBlog (w_head w);
   EAppendBlog new (blog_created e c (w_head w) hid);
   EAppendBlog new (log_rec e c (Some hid) (Some hid) RBranch
      (str "renamed refs/heads/"%string ++ w_head w ++ str " refs/heads/"%string ++ new))].

Definition rename_trace (e : env) (c : ctx) (w : world) (new hid : bytes) : list effect :=
  rename_trace1 e c w new hid ++ rename_trace2 e c w new hid.

Lemma cmd_branch_rename_eq : forall e c new w t,
  is_nil new = false ->
  cmd_branch e c [] false new [] (mkMS w t None) =
  match x_headc c with
  | Some (hid, _) =>
      if negb (am_mem (w_refs w) new) && am_mem (w_refs w) (w_head w) && valid_branch_name new then
        if am_mem (w_blogs w) (w_head w) then
          (Ok [], mkMS (apply_effects (rename_trace e c w new hid) w) (t ++ rename_trace e c w new hid) None)
        else
          (Err, mkMS (apply_effects (rename_trace1 e c w new hid) w) (t ++ rename_trace1 e c w new hid) None)
      else (Err, mkMS w t None)
  | None => (Err, mkMS w t None)
  end.
Proof.
  intros e c new w t Hn. unfold cmd_branch. rewrite Hn. cbn [length Nat.eqb is_nil negb andb orb]. ev.
  destruct (x_headc c) as [[hid cm]|]; [|reflexivity]. ev.
  destruct (am_mem (w_refs w) new); cbn [negb andb]; [reflexivity|]. ev.
  destruct (am_mem (w_refs w) (w_head w)); cbn [andb]; [|reflexivity]. ev.
  destruct (valid_branch_name new); [|reflexivity]. ev.
  destruct (am_mem (w_blogs w) (w_head w)).
  - ev. unfold rename_trace, rename_trace1, rename_trace2, rename_msg, blog_created.
    rewrite <- !app_assoc. reflexivity.
  - unfold rename_trace1, rename_msg. rewrite <- !app_assoc. reflexivity.
Qed.

(* ---------- branch --list ---------- *)
Definition branch_listing (w : world) : list bytes :=
  map (fun kv => (if bytes_eqb (fst kv) (w_head w) then str "* "%string else []) ++ fst kv) (w_refs w).

(* any state, any fault setting: nothing is written *)
Lemma cmd_branch_list_eq : forall e c s,
  cmd_branch e c [] true [] [] s = (Ok (branch_listing (ms_w s)), s).
Proof.
  intros e c s. unfold cmd_branch. cbn [length Nat.eqb is_nil negb andb orb]. ev. reflexivity.
Qed.

(* ---------- switch ---------- *)
Lemma head_update_eq : forall name w t,
  head_update name (mkMS w t None) =
  match am_get (w_refs w) name with
  | Some id =>
      match get_commit (w_objs w) id with
      | Some _ => (Ok id, mkMS (apply_effect (ESetHead name) w) (t ++ [ESetHead name]) None)
      | None => (Err, mkMS (apply_effect (ESetHead name) w) (t ++ [ESetHead name]) None)
      end
  | None => (Err, mkMS w t None)
  end.
Proof.
  intros name w t. unfold head_update. ev.
  destruct (am_get (w_refs w) name) as [id|]; [|reflexivity]. ev.
  destruct (get_commit (w_objs w) id); reflexivity.
Qed.

Definition switch_msg (from to : bytes) : bytes :=
  str "moving from "%string ++ from ++ str " to "%string ++ to.

Definition switch_trace (e : env) (c : ctx) (w : world) (a id : bytes) : list effect :=
  [ESetHead a; EAppendHlog (log_rec e c (Some id) (Some id) RCheckout (switch_msg (w_head w) a))].

Lemma cmd_switch_eq : forall e c a w t,
  cmd_switch e c [a] [] (mkMS w t None) =
  match x_headc c with
  | Some _ =>
      match am_get (w_refs w) a with
      | Some id =>
          match get_commit (w_objs w) id with
          | Some _ => (Ok [], mkMS (apply_effects (switch_trace e c w a id) w) (t ++ switch_trace e c w a id) None)
          | None => (Err, mkMS (apply_effect (ESetHead a) w) (t ++ [ESetHead a]) None)
          end
      | None => (Err, mkMS w t None)
      end
  | None => (Err, mkMS w t None)
  end.
Proof.
  intros e c a w t. unfold cmd_switch. cbn [length Nat.ltb Nat.leb is_nil negb andb orb]. ev.
  destruct (x_headc c) as [[hid cm]|]; [|reflexivity]. ev.
  unfold bind at 1. rewrite head_update_eq.
  destruct (am_get (w_refs w) a) as [id|]; [|reflexivity].
  destruct (get_commit (w_objs w) id); [|reflexivity]. ev.
  unfold switch_trace, switch_msg. rewrite snoc2. reflexivity.
Qed.

(* ---------- switch --create=<name> ---------- *)
Definition switch_create_trace (e : env) (c : ctx) (w : world) (name hid : bytes) : list effect :=
  [ESetRef name hid; ESetHead name;
   EAppendHlog (log_rec e c (Some hid) (Some hid) RCheckout (switch_msg (w_head w) name));
   EAppendBlog name (blog_created e c (w_head w) hid)].

Lemma cmd_switch_create_eq : forall e c name w t,
  is_nil name = false ->
  cmd_switch e c [] name (mkMS w t None) =
  match x_headc c with
  | Some (hid, _) =>
      if negb (am_mem (w_refs w) name) && valid_branch_name name then
        match get_commit (w_objs w) hid with
        | Some _ => (Ok [], mkMS (apply_effects (switch_create_trace e c w name hid) w)
                                 (t ++ switch_create_trace e c w name hid) None)
        | None => (Err, mkMS (apply_effects [ESetRef name hid; ESetHead name] w)
                             (t ++ [ESetRef name hid; ESetHead name]) None)
        end
      else (Err, mkMS w t None)
  | None => (Err, mkMS w t None)
  end.
Proof.
  intros e c name w t Hn. unfold cmd_switch. rewrite Hn.
  cbn [length Nat.ltb Nat.leb is_nil negb andb orb]. ev.
  destruct (x_headc c) as [[hid cm]|]; [|reflexivity]. ev.
  destruct (am_mem (w_refs w) name); cbn [negb andb]; [reflexivity|]. ev.
  destruct (valid_branch_name name); [|reflexivity]. ev.
  unfold bind at 1. rewrite head_update_eq. autorewrite with wfields.
  rewrite am_get_set_same.
  destruct (get_commit (w_objs w) hid).
  - ev. unfold switch_create_trace, switch_msg, blog_created. rewrite <- !app_assoc. reflexivity.
  - rewrite snoc2. reflexivity.
Qed.

(* ---------- update-ref refs/heads/<b> <hex> ---------- *)
Definition ref_leaf (r : bytes) : bytes := last (split_all c_slash r) [].

(* the branch and the id an accepted [update-ref r h] is about *)
Definition update_ref_target (w : world) (r h : bytes) : option (bytes * bytes) :=
  if re_search re_branchRegexp r && Nat.eqb (length h) 40 && forallb is_lower_hex h then
    match unhex h with
    | Some id =>
        match get_commit (w_objs w) id with
        | Some _ => if am_mem (w_refs w) (ref_leaf r) then Some (ref_leaf r, id) else None
        | None => None
        end
    | None => None
    end
  else None.

Lemma cmd_update_ref_eq : forall r h w t,
  cmd_update_ref [r; h] (mkMS w t None) =
  match update_ref_target w r h with
  | Some (name, id) =>
      (Ok [], mkMS (apply_effects [ESetRef name id; ESetHead name] w) (t ++ [ESetRef name id; ESetHead name]) None)
  | None => (Err, mkMS w t None)
  end.
Proof.
  intros r h w t. unfold cmd_update_ref, update_ref_target. fold (ref_leaf r). ev.
  destruct (re_search re_branchRegexp r); cbn [andb]; [|reflexivity]. ev.
  destruct (Nat.eqb (length h) 40); cbn [andb]; [|reflexivity]. ev.
  destruct (forallb is_lower_hex h); [|reflexivity]. ev.
  destruct (unhex h) as [id|]; [|reflexivity]. ev.
  destruct (get_commit (w_objs w) id) as [cm|] eqn:Ec.
  - destruct (get_commit_lookup _ _ _ Ec) as [p Hp]. rewrite Hp. ev.
    destruct (am_mem (w_refs w) (ref_leaf r)); [|reflexivity]. ev.
    unfold bind at 1. rewrite head_update_eq. autorewrite with wfields.
    rewrite am_get_set_same, Ec. rewrite snoc2. reflexivity.
  - destruct (st_lookup (w_objs w) id); reflexivity.
Qed.

(* [update-ref] with any other number of arguments is refused at once *)
Lemma cmd_update_ref_arity : forall args s,
  (forall r h, args <> [r; h]) -> cmd_update_ref args s = (Err, s).
Proof.
  intros args s Hne. destruct args as [|r [|h [|x rest]]]; try reflexivity.
  contradiction (Hne r h). reflexivity.
Qed.

(* ================================================================== *)
(** * 4. The invariant [blogs_cover_refs] *)

(* every branch has its log file: [branch --delete] and [branch --rename]
   check for it AFTER they have touched the branch file, so this is what makes
   the late check unfailing *)
Definition blogs_cover_refs (w : world) : Prop :=
  forall n, am_mem (w_refs w) n = true -> am_mem (w_blogs w) n = true.

Definition Inv2 (w : world) : Prop := refs_sorted w /\ blogs_cover_refs w.

(* which single effects keep [Inv2], in which worlds *)
Definition ref_safe (w : world) (e : effect) : Prop :=
  match e with
  | ESetRef n _ => am_mem (w_refs w) n = true
  | ERenameRef _ _ => False
  | EDelBlog n => am_mem (w_refs w) n = false
  | _ => True
  end.

Definition ref_static (e : effect) : Prop :=
  match e with
  | ESetRef _ _ | ERenameRef _ _ | EDelBlog _ => False
  | _ => True
  end.

Lemma ref_static_safe : forall w e, ref_static e -> ref_safe w e.
Proof. intros w e H. destruct e; try exact Logic.I; contradiction H. Qed.

Ltac wsimpl :=
  cbn [apply_effect set_objs set_refs set_head set_index set_hlog set_blogs set_lcfg set_gcfg set_wt
       w_inited w_head w_refs w_index w_objs w_coll w_hlog w_blogs w_lcfg w_gcfg w_files w_dirs].

Lemma am_mem_del_incl : forall V (m : amap V) k k', am_mem (am_del m k) k' = true -> am_mem m k' = true.
Proof. intros V m k k' H. apply am_mem_iff. apply am_mem_iff in H. apply (am_keys_del_incl m k). exact H. Qed.

Lemma Inv2_safe : forall e w, Inv2 w -> ref_safe w e -> Inv2 (apply_effect e w).
Proof.
  intros e w [Hs Hc] Hg. split; [apply refs_sorted_effect; exact Hs|].
  unfold blogs_cover_refs in *. destruct e; wsimpl; try exact Hc; cbn [ref_safe] in Hg.
  - (* ESetRef *) intros n Hn. rewrite am_mem_set in Hn. apply orb_true_iff in Hn.
    destruct Hn as [Hn|Hn]; [apply bytes_eqb_eq in Hn; subst n|]; apply Hc; assumption.
  - (* EDelRef *) intros n Hn. apply Hc. apply (am_mem_del_incl _ _ name). exact Hn.
  - (* ERenameRef *) contradiction Hg.
  - (* EAppendBlog *) intros n Hn. rewrite am_mem_set. rewrite (Hc n Hn). apply orb_true_r.
  - (* EDelBlog *) intros n Hn. rewrite am_mem_del_other; [apply Hc; exact Hn|].
    intro Heq. subst n. rewrite Hg in Hn. discriminate Hn.
Qed.

Lemma safe_pair : forall e w, Inv2 w -> ref_safe w e -> ref_safe w e /\ Inv2 (apply_effect e w).
Proof. intros e w Hi Hg. split; [exact Hg | apply Inv2_safe; assumption]. Qed.

Lemma emit_static_safe : forall e, ref_static e -> emits Inv2 ref_safe (emit e).
Proof.
  intros e He. apply emits_emit. intros w Hi. apply safe_pair; [exact Hi | apply ref_static_safe; exact He].
Qed.

Create HintDb reflaws discriminated.

Ltac estep :=
  first
  [ assumption
  | lazymatch goal with
    | |- emits _ _ (bind _ _) => apply emits_bind; [ | intro ]
    | |- emits _ _ (ret _) => apply emits_ret
    | |- emits _ _ fail => apply emits_fail
    | |- emits _ _ getw => apply emits_getw
    | |- emits _ _ (emit _) => apply emit_static_safe; exact Logic.I
    | |- emits _ _ (of_opt _) => apply emits_of_opt
    | |- emits _ _ (guard _) => apply emits_guard
    | |- emits _ _ (iterM _ _) => apply emits_iterM; intros ? _
    | |- emits _ _ (let _ := _ in _) => cbv zeta
    | |- emits _ _ (match ?x with _ => _ end) => destruct x; cbv beta iota
    | |- emits _ _ ((fix f (l : list _) {struct l} : M _ := _) ?args) =>
        induction args; cbv beta iota
    end
  | solve [ auto with reflaws nocore ] ].
Ltac esteps := repeat estep.

Local Notation safe m := (emits Inv2 ref_safe m).

Lemma put_obj_safe : forall k d, safe (put_obj k d).
Proof. intros k d. unfold put_obj. esteps. Qed.
#[export] Hint Resolve put_obj_safe : reflaws.
Lemma wt_put_safe : forall p data, safe (wt_put p data).
Proof. intros p data. unfold wt_put. esteps. Qed.
#[export] Hint Resolve wt_put_safe : reflaws.
Lemma head_tree_nodes_safe : forall c, safe (head_tree_nodes c).
Proof. intros c. unfold head_tree_nodes. esteps. Qed.
#[export] Hint Resolve head_tree_nodes_safe : reflaws.
Lemma cmd_init_safe : safe cmd_init.
Proof. unfold cmd_init. esteps. Qed.
Lemma cmd_config_safe : forall c g args, safe (cmd_config c g args).
Proof. intros c g args. unfold cmd_config. esteps. Qed.
Lemma add_file_safe : forall p, safe (add_file p).
Proof. intros p. unfold add_file. esteps. Qed.
#[export] Hint Resolve add_file_safe : reflaws.
Lemma cmd_add_safe : forall c args, safe (cmd_add c args).
Proof. intros c args. unfold cmd_add. esteps. Qed.
Lemma rm_one_safe : forall p, safe (rm_one p).
Proof. intros p. unfold rm_one. esteps. Qed.
#[export] Hint Resolve rm_one_safe : reflaws.
Lemma cmd_rm_safe : forall args, safe (cmd_rm args).
Proof. intros args. unfold cmd_rm. esteps. Qed.
Lemma cmd_status_safe : forall c, safe (cmd_status c).
Proof. intros c. unfold cmd_status. esteps. Qed.
Lemma restore_wd_safe : forall p, safe (restore_wd p).
Proof. intros p. unfold restore_wd. esteps. Qed.
#[export] Hint Resolve restore_wd_safe : reflaws.
Lemma restore_index_safe : forall ns p, safe (restore_index ns p).
Proof. intros ns p. unfold restore_index. esteps. Qed.
#[export] Hint Resolve restore_index_safe : reflaws.
Lemma cmd_restore_safe : forall c st args, safe (cmd_restore c st args).
Proof. intros c st args. unfold cmd_restore. esteps. Qed.
Lemma cmd_log_safe : forall c n, safe (cmd_log c n).
Proof. intros c n. unfold cmd_log. esteps. Qed.
Lemma cmd_reflog_safe : safe cmd_reflog.
Proof. unfold cmd_reflog. esteps. Qed.
Lemma cmd_cat_file_safe : forall t p args, safe (cmd_cat_file t p args).
Proof. intros t p args. unfold cmd_cat_file. esteps. Qed.
Lemma cmd_hash_object_safe : forall args, safe (cmd_hash_object args).
Proof. intros args. unfold cmd_hash_object. esteps. Qed.
Lemma cmd_ls_files_safe : forall s, safe (cmd_ls_files s).
Proof. intros s. unfold cmd_ls_files. esteps. Qed.
Lemma cmd_rev_parse_safe : forall args, safe (cmd_rev_parse args).
Proof. intros args. unfold cmd_rev_parse. esteps. Qed.
Lemma cmd_write_tree_safe : safe cmd_write_tree.
Proof. unfold cmd_write_tree. esteps. Qed.
Lemma head_update_safe : forall name, safe (head_update name).
Proof. intros name. unfold head_update. esteps. Qed.
#[export] Hint Resolve head_update_safe : reflaws.

(* leave the symbolic execution at a world and finish with the static rules *)
Ltac to_static :=
  apply hoare_at with (P := fun _ : world => True); [apply emits_hoare; esteps | exact Logic.I].

(* [update-ref] and [reset] move a branch that exists: the earlier guard is
   what makes the [ESetRef] harmless *)
Lemma cmd_update_ref_safe : forall args, safe (cmd_update_ref args).
Proof.
  intros args. hinline. hsteps; try exact Logic.I.
  all: try (apply safe_pair; [assumption | cbn [ref_safe]; try exact Logic.I; try assumption]).
  all: to_static.
Qed.

Lemma cmd_reset_safe : forall e c s m h args, safe (cmd_reset e c s m h args).
Proof.
  intros e c s m h args. hinline. hsteps; try exact Logic.I.
  all: try (apply safe_pair; [assumption | cbn [ref_safe]; try exact Logic.I; try assumption]).
  all: to_static.
Qed.

(* ------------------------------------------------------------------ *)
(** ** A fault-free logic: what holds of the world a run ENDS in *)

(* [commit], [branch] and [switch --create] write a branch file first and its
   log a moment later: between the two writes [blogs_cover_refs] does not
   hold (and a write failure there really leaves a branch without log), so
   these three are not [emits Inv2 _].  Without faults no failure point lies
   between the two writes; [ffat] is the logic for that: from world [w] and
   no fault pending, [m] ends with no fault pending, in a world satisfying
   [Q a] if it answers [Ok a] and [E] otherwise. *)
Definition ffat {A} (w : world) (m : M A) (Q : A -> world -> Prop) (E : world -> Prop) : Prop :=
  forall t, exists r w' t',
    m (mkMS w t None) = (r, mkMS w' t' None) /\
    match r with Ok a => Q a w' | _ => E w' end.

Section FF.
  Context {A B : Type}.
  Implicit Types (w : world) (E : world -> Prop).

  Lemma ffat_ret : forall w (a : A) (Q : A -> world -> Prop) E, Q a w -> ffat w (ret a) Q E.
  Proof. intros w a Q E H t. exists (Ok a), w, t. split; [reflexivity | exact H]. Qed.

  Lemma ffat_fail : forall w (Q : A -> world -> Prop) E, E w -> ffat w (@fail A) Q E.
  Proof. intros w Q E H t. exists Err, w, t. split; [reflexivity | exact H]. Qed.

  Lemma ffat_bind : forall w (m : M A) (f : A -> M B) (R : A -> world -> Prop) (Q : B -> world -> Prop) E,
    ffat w m R E -> (forall a w', R a w' -> ffat w' (f a) Q E) -> ffat w (bind m f) Q E.
  Proof.
    intros w m f R Q E Hm Hf t. destruct (Hm t) as (r & w1 & t1 & Hrun & Hr).
    unfold bind. rewrite Hrun. destruct r as [a| |].
    - exact (Hf a w1 Hr t1).
    - exists Err, w1, t1. auto.
    - exists Panic, w1, t1. auto.
  Qed.

  Lemma ffat_conseq : forall w (m : M A) (Q Q' : A -> world -> Prop) E E',
    ffat w m Q E -> (forall a w', Q a w' -> Q' a w') -> (forall w', E w' -> E' w') -> ffat w m Q' E'.
  Proof.
    intros w m Q Q' E E' Hm Hq He t. destruct (Hm t) as (r & w1 & t1 & Hrun & Hr).
    exists r, w1, t1. split; [exact Hrun|]. destruct r; auto.
  Qed.
End FF.

Lemma ffat_assoc : forall A B C w (m : M A) (f : A -> M B) (g : B -> M C) Q E,
  ffat w (bind m (fun a => bind (f a) g)) Q E -> ffat w (bind (bind m f) g) Q E.
Proof. intros A B C w m f g Q E H t. rewrite ev_bind_assoc. exact (H t). Qed.

Lemma ffat_bind_getw : forall B w (f : world -> M B) Q E, ffat w (f w) Q E -> ffat w (bind getw f) Q E.
Proof. intros B w f Q E H t. rewrite ev_bind_getw. exact (H t). Qed.

Lemma ffat_bind_ret : forall A B w (a : A) (f : A -> M B) Q E, ffat w (f a) Q E -> ffat w (bind (ret a) f) Q E.
Proof. intros A B w a f Q E H. exact H. Qed.

Lemma ffat_bind_fail : forall A B w (f : A -> M B) (Q : B -> world -> Prop) (E : world -> Prop),
  E w -> ffat w (bind fail f) Q E.
Proof. intros A B w f Q E H t. exists Err, w, t. split; [reflexivity | exact H]. Qed.

Lemma ffat_bind_guard : forall B w b (f : unit -> M B) Q (E : world -> Prop),
  (b = true -> ffat w (f tt) Q E) -> (b = false -> E w) -> ffat w (bind (guard b) f) Q E.
Proof.
  intros B w b f Q E Ht Hf t. rewrite ev_bind_guard. destruct b.
  - exact (Ht eq_refl t).
  - exists Err, w, t. split; [reflexivity | exact (Hf eq_refl)].
Qed.

Lemma ffat_bind_of_opt : forall A B w (o : option A) (f : A -> M B) Q (E : world -> Prop),
  (forall a, o = Some a -> ffat w (f a) Q E) -> (o = None -> E w) -> ffat w (bind (of_opt o) f) Q E.
Proof.
  intros A B w o f Q E Hs Hn t. rewrite ev_bind_of_opt. destruct o as [a|].
  - exact (Hs a eq_refl t).
  - exists Err, w, t. split; [reflexivity | exact (Hn eq_refl)].
Qed.

Lemma ffat_bind_emit : forall B w e (f : unit -> M B) Q E,
  ffat (apply_effect e w) (f tt) Q E -> ffat w (bind (emit e) f) Q E.
Proof. intros B w e f Q E H t. rewrite ev_bind_emit. exact (H (t ++ [e])). Qed.

Lemma ffat_emit : forall w e (Q : unit -> world -> Prop) E, Q tt (apply_effect e w) -> ffat w (emit e) Q E.
Proof.
  intros w e Q E H t. exists (Ok tt), (apply_effect e w), (t ++ [e]). split; [reflexivity | exact H].
Qed.

Lemma ffat_guard : forall w b (Q : unit -> world -> Prop) (E : world -> Prop),
  (b = true -> Q tt w) -> (b = false -> E w) -> ffat w (guard b) Q E.
Proof.
  intros w b Q E Ht Hf t. destruct b.
  - exists (Ok tt), w, t. split; [reflexivity | exact (Ht eq_refl)].
  - exists Err, w, t. split; [reflexivity | exact (Hf eq_refl)].
Qed.

Lemma ffat_of_opt : forall A w (o : option A) (Q : A -> world -> Prop) (E : world -> Prop),
  (forall a, o = Some a -> Q a w) -> (o = None -> E w) -> ffat w (of_opt o) Q E.
Proof.
  intros A w o Q E Hs Hn t. destruct o as [a|].
  - exists (Ok a), w, t. split; [reflexivity | exact (Hs a eq_refl)].
  - exists Err, w, t. split; [reflexivity | exact (Hn eq_refl)].
Qed.

Lemma ffat_iterM : forall A (J : world -> Prop) (E : world -> Prop) (f : A -> M unit) l w,
  J w -> (forall x w', In x l -> J w' -> ffat w' (f x) (fun _ => J) E) ->
  ffat w (iterM f l) (fun _ => J) E.
Proof.
  intros A J E f l. induction l as [|x r IH]; intros w Hj Hf.
  - apply ffat_ret. exact Hj.
  - cbn [iterM]. apply ffat_bind with (R := fun _ => J).
    + apply Hf; [left; reflexivity | exact Hj].
    + intros _ w' Hj'. apply IH; [exact Hj'|]. intros y w'' Hy. apply Hf. right. exact Hy.
Qed.

(* a procedure proved with the Hoare rules, called from here *)
Lemma ffat_emits : forall A (Inv : world -> Prop) G (m : M A) w,
  emits Inv G m -> traced m -> Inv w -> ffat w m (fun _ => Inv) Inv.
Proof.
  intros A Inv G m w Hm Ht Hi t. destruct (m (mkMS w t None)) as [r [w' t' fk]] eqn:Erun.
  destruct (emits_elim Inv G A m (mkMS w t None) _ _ Hm Hi Erun) as (tr & _ & _ & _ & Hi').
  destruct (traced_elim A m (mkMS w t None) _ _ Ht Erun) as (tr' & _ & _ & Hf).
  cbn [ms_fault ms_w] in Hf, Hi'. rewrite (Hf eq_refl).
  exists r, w', t'. split; [reflexivity|]. destruct r; exact Hi'.
Qed.

Ltac fstep :=
  lazymatch goal with
  | |- ffat _ (bind (bind _ _) _) _ _ => apply ffat_assoc
  | |- ffat _ (bind getw _) _ _ => apply ffat_bind_getw; cbv beta
  | |- ffat _ (bind (ret _) _) _ _ => apply ffat_bind_ret; cbv beta
  | |- ffat _ (bind (guard _) _) _ _ => apply ffat_bind_guard; [ intro | intro ]
  | |- ffat _ (bind (of_opt _) _) _ _ => apply ffat_bind_of_opt; [ intros ? ? | intro ]
  | |- ffat _ (bind (emit _) _) _ _ => apply ffat_bind_emit
  | |- ffat _ (bind fail _) _ _ => apply ffat_bind_fail
  | |- ffat _ (bind (let _ := _ in _) _) _ _ => cbv zeta
  | |- ffat _ (bind (match ?x with _ => _ end) _) _ _ => destruct x eqn:?; cbv beta iota
  | |- ffat _ (let _ := _ in _) _ _ => cbv zeta
  | |- ffat _ (match ?x with _ => _ end) _ _ => destruct x eqn:?; cbv beta iota
  | |- ffat _ (ret _) _ _ => apply ffat_ret
  | |- ffat _ fail _ _ => apply ffat_fail
  | |- ffat _ (guard _) _ _ => apply ffat_guard; [ intro | intro ]
  | |- ffat _ (of_opt _) _ _ => apply ffat_of_opt; [ intros ? ? | intro ]
  | |- ffat _ (emit _) _ _ => apply ffat_emit
  end.
Ltac fsteps := repeat fstep.

(* ------------------------------------------------------------------ *)
(** ** [Inv2] is kept by [commit], [branch] and [switch] *)
Definition keeps {A} (w : world) (m : M A) : Prop := ffat w m (fun _ => Inv2) Inv2.

(* the final world of a "write the branch, then its log" sequence *)
Lemma cover_set_set : forall (refs blogs : amap bytes) n id l,
  (forall k, am_mem refs k = true -> am_mem blogs k = true) ->
  forall k, am_mem (am_set refs n id) k = true -> am_mem (am_set blogs n l) k = true.
Proof.
  intros refs blogs n id l Hc k Hk. rewrite am_mem_set in Hk |- *.
  destruct (bytes_eqb n k); [reflexivity|]. cbn [orb] in Hk |- *. apply Hc. exact Hk.
Qed.

Lemma keeps_safe : forall A (m : M A) w, safe m -> traced m -> Inv2 w -> keeps w m.
Proof. intros A m w Hm Ht Hi. exact (ffat_emits A Inv2 ref_safe m w Hm Ht Hi). Qed.

Lemma do_commit_keeps : forall e c msg w, Inv2 w -> keeps w (do_commit e c msg).
Proof.
  intros e c msg w Hi. unfold keeps, do_commit, put_obj. fsteps; try assumption.
  apply ffat_bind with
    (R := fun _ w' => Inv2 w' /\ w_refs w' = w_refs w /\ w_blogs w' = w_blogs w).
  - apply ffat_conseq with (Q := fun _ w' => Inv2 w' /\ w_refs w' = w_refs w /\ w_blogs w' = w_blogs w)
                           (E := Inv2); [|auto|auto].
    apply ffat_iterM; [auto|].
    intros d w' _ (Hi' & Hr & Hb). fsteps. split; [apply Inv2_safe; [exact Hi' | exact Logic.I]|].
    wsimpl. auto.
  - intros _ w' (Hi' & Hr & Hb). fsteps; try assumption.
    all: destruct Hi as [Hs Hc]; split; unfold refs_sorted, blogs_cover_refs; wsimpl; rewrite Hr, ?Hb;
      [apply am_set_sorted; exact Hs | apply cover_set_set; exact Hc].
Qed.

Lemma cmd_commit_keeps : forall e c msg w, Inv2 w -> keeps w (cmd_commit e c msg).
Proof.
  intros e c msg w Hi. unfold keeps, cmd_commit. fsteps; try assumption.
  - apply ffat_bind with (R := fun _ => Inv2); [apply do_commit_keeps; exact Hi|].
    intros _ w' Hi'. fsteps. exact Hi'.
  - apply ffat_bind with (R := fun _ => Inv2).
    + apply keeps_safe; [apply head_tree_nodes_safe | apply head_tree_nodes_traced | exact Hi].
    + intros ns w' Hi'. fsteps; try assumption.
      apply ffat_bind with (R := fun _ => Inv2); [apply do_commit_keeps; exact Hi'|].
      intros _ w'' Hi''. fsteps. exact Hi''.
Qed.

Lemma cover_del_del : forall (refs blogs : amap bytes) d,
  am_sorted refs ->
  (forall k, am_mem refs k = true -> am_mem blogs k = true) ->
  forall k, am_mem (am_del refs d) k = true -> am_mem (am_del blogs d) k = true.
Proof.
  intros refs blogs d Hs Hc k Hk. rewrite am_mem_del in Hk by exact Hs.
  apply andb_true_iff in Hk. destruct Hk as [Hne Hk]. apply negb_true_iff, bytes_eqb_neq in Hne.
  rewrite am_mem_del_other by congruence. apply Hc. exact Hk.
Qed.

Lemma cover_rename : forall (refs blogs : amap bytes) p n id l1 l2,
  am_sorted refs ->
  (forall k, am_mem refs k = true -> am_mem blogs k = true) ->
  forall k, am_mem (am_del (am_set refs n id) p) k = true ->
            am_mem (am_set (am_set (am_del blogs p) n l1) n l2) k = true.
Proof.
  intros refs blogs p n id l1 l2 Hs Hc k Hk. rewrite !am_mem_set.
  destruct (bytes_eqb n k) eqn:En; [reflexivity|]. cbn [orb].
  rewrite am_mem_del in Hk by (apply am_set_sorted; exact Hs).
  apply andb_true_iff in Hk. destruct Hk as [Hne Hk]. apply negb_true_iff, bytes_eqb_neq in Hne.
  rewrite am_mem_set, En in Hk. cbn [orb] in Hk.
  rewrite am_mem_del_other by congruence. apply Hc. exact Hk.
Qed.

Lemma cmd_branch_keeps : forall e c args lst rn dl w, Inv2 w -> keeps w (cmd_branch e c args lst rn dl).
Proof.
  intros e c args lst rn dl w Hi. unfold keeps, cmd_branch. cbv zeta.
  apply ffat_bind_guard; [intros _ | intros _; exact Hi].
  apply ffat_bind with (R := fun _ => Inv2).
  { (* create *)
    fsteps; try assumption.
    destruct Hi as [Hs Hc]; split; unfold refs_sorted, blogs_cover_refs; wsimpl;
      [apply am_set_sorted; exact Hs | apply cover_set_set; exact Hc]. }
  intros _ w1 Hi1. apply ffat_bind with (R := fun _ => Inv2).
  { fsteps; exact Hi1. }
  intros out w2 Hi2. apply ffat_bind with (R := fun _ => Inv2).
  { (* rename *)
    fsteps; try assumption.
    - destruct Hi2 as [Hs Hc]; split; unfold refs_sorted, blogs_cover_refs; wsimpl.
      + apply am_del_sorted, am_set_sorted. exact Hs.
      + apply cover_rename; assumption.
    - (* the late log check cannot fail *)
      match goal with
      | H : am_mem (w_refs w2) (w_head w2) = true, H' : am_mem (w_blogs w2) (w_head w2) = false |- _ =>
          rewrite (proj2 Hi2 _ H) in H'; discriminate H'
      end. }
  intros _ w3 Hi3. apply ffat_bind with (R := fun _ => Inv2).
  { (* delete *)
    fsteps; try assumption.
    - destruct Hi3 as [Hs Hc]; split; unfold refs_sorted, blogs_cover_refs; wsimpl.
      + apply am_del_sorted. exact Hs.
      + apply cover_del_del; assumption.
    - match goal with
      | H : am_mem (w_refs w3) dl = true, H' : am_mem (w_blogs w3) dl = false |- _ =>
          rewrite (proj2 Hi3 _ H) in H'; discriminate H'
      end. }
  intros _ w4 Hi4. fsteps. exact Hi4.
Qed.

(* the context was loaded from this very world *)
Definition headc_loads (w : world) (c : ctx) : Prop :=
  forall hid cm, x_headc c = Some (hid, cm) -> get_commit (w_objs w) hid = Some cm.

Lemma ctx_of_loads : forall w c, ctx_of w = Some c -> headc_loads w c.
Proof.
  intros w c Hc hid cm Hh. apply ctx_of_headc in Hc. rewrite Hh in Hc.
  apply head_commit_some in Hc. tauto.
Qed.

Lemma cmd_switch_keeps : forall e c args cr w,
  headc_loads w c -> Inv2 w -> keeps w (cmd_switch e c args cr).
Proof.
  intros e c args cr w Hl Hi. unfold keeps, cmd_switch, head_update.
  apply ffat_bind_guard; [intros _ | intros _; exact Hi].
  apply ffat_bind_guard; [intros _ | intros _; exact Hi].
  apply ffat_bind_guard; [intros _ | intros _; exact Hi].
  apply ffat_bind with (R := fun _ w' => Inv2 w' /\ w_objs w' = w_objs w).
  { fsteps; cbv beta.
    all: repeat match goal with
         | |- _ /\ w_objs _ = _ => split; [|reflexivity]
         | |- Inv2 (apply_effect _ _) => apply Inv2_safe; [|exact Logic.I]
         end; exact Hi. }
  intros _ w1 [Hi1 Ho1]. apply ffat_bind with (R := fun _ => Inv2).
  { fsteps; try assumption.
    - destruct Hi1 as [Hs Hc]; split; unfold refs_sorted, blogs_cover_refs; wsimpl;
        [apply am_set_sorted; exact Hs | apply cover_set_set; exact Hc].
    - (* the commit just loaded loads again *)
      match goal with
      | Hg : am_get (w_refs (apply_effect (ESetRef _ _) w1)) _ = Some ?a,
        Hn : get_commit _ ?a = None |- _ =>
          cbn [apply_effect set_refs w_refs w_objs] in Hg, Hn; rewrite am_get_set_same in Hg;
          injection Hg as <-; rewrite Ho1 in Hn
      end.
      match goal with Hh : x_headc c = Some _ |- _ => rewrite (Hl _ _ Hh) in * end. discriminate.
    - match goal with
      | Hg : am_get (w_refs (apply_effect (ESetRef _ _) w1)) _ = None |- _ =>
          cbn [apply_effect set_refs w_refs] in Hg; rewrite am_get_set_same in Hg; discriminate Hg
      end. }
  intros _ w2 Hi2. fsteps. exact Hi2.
Qed.

Lemma dispatch_keeps : forall e c x w, ctx_of w = Some x -> Inv2 w -> keeps w (dispatch e c x).
Proof.
  intros e c x w Hx Hi. destruct c; cbn [dispatch].
  - apply ffat_fail. exact Hi.
  - apply keeps_safe; [apply cmd_config_safe | apply cmd_config_traced | exact Hi].
  - apply keeps_safe; [apply cmd_add_safe | apply cmd_add_traced | exact Hi].
  - apply keeps_safe; [apply cmd_rm_safe | apply cmd_rm_traced | exact Hi].
  - apply cmd_commit_keeps. exact Hi.
  - apply keeps_safe; [apply cmd_status_safe | apply cmd_status_traced | exact Hi].
  - apply cmd_branch_keeps. exact Hi.
  - apply cmd_switch_keeps; [apply ctx_of_loads; exact Hx | exact Hi].
  - apply keeps_safe; [apply cmd_reset_safe | apply cmd_reset_traced | exact Hi].
  - apply keeps_safe; [apply cmd_restore_safe | apply cmd_restore_traced | exact Hi].
  - apply keeps_safe; [apply cmd_update_ref_safe | apply cmd_update_ref_traced | exact Hi].
  - apply keeps_safe; [apply cmd_log_safe | apply cmd_log_traced | exact Hi].
  - apply keeps_safe; [apply cmd_reflog_safe | apply cmd_reflog_traced | exact Hi].
  - apply keeps_safe; [apply cmd_cat_file_safe | apply cmd_cat_file_traced | exact Hi].
  - apply keeps_safe; [apply cmd_hash_object_safe | apply cmd_hash_object_traced | exact Hi].
  - apply keeps_safe; [apply cmd_ls_files_safe | apply cmd_ls_files_traced | exact Hi].
  - apply keeps_safe; [apply cmd_rev_parse_safe | apply cmd_rev_parse_traced | exact Hi].
  - apply keeps_safe; [apply cmd_write_tree_safe | apply cmd_write_tree_traced | exact Hi].
Qed.

Lemma run_cmd_keeps : forall e c w, Inv2 w -> keeps w (run_cmd e c).
Proof.
  intros e c w Hi t. rewrite run_cmd_eq. cbn [ms_w].
  assert (Herr : exists (r : res (list bytes)) w' t',
             (@Err (list bytes), mkMS w t None) = (r, mkMS w' t' None) /\
             match r with Ok _ => Inv2 w' | _ => Inv2 w' end).
  { exists Err, w, t. auto. }
  destruct c;
    try (destruct (w_inited w); [|exact Herr];
         destruct (ctx_of w) as [x|] eqn:Ex; [|exact Herr];
         apply dispatch_keeps; assumption).
  apply (keeps_safe _ cmd_init w cmd_init_safe cmd_init_traced Hi).
Qed.

Theorem Inv2_step : forall a w, Inv2 w -> Inv2 (step_w a w).
Proof.
  intros [e c|u] w Hi; unfold step_w.
  - rewrite step_cmd_eq. cbn [fst].
    destruct (run_cmd_keeps e c w Hi []) as (r & w' & t' & Hrun & Hr).
    rewrite Hrun. cbn [snd ms_w]. destruct r; exact Hr.
  - cbn [step fst]. destruct Hi as [Hs Hc]. split.
    + unfold refs_sorted. rewrite w_refs_apply_edit. exact Hs.
    + unfold blogs_cover_refs. rewrite w_refs_apply_edit, w_blogs_apply_edit. exact Hc.
Qed.

Theorem Inv2_run_from : forall h w, Inv2 w -> Inv2 (run h w).
Proof.
  induction h as [|a h IH]; intros w Hi.
  - exact Hi.
  - rewrite run_cons. apply IH. apply Inv2_step. exact Hi.
Qed.

Lemma Inv2_empty : Inv2 w_empty.
Proof. split; [apply am_sorted_nil | intros n Hn; discriminate Hn]. Qed.

Theorem blogs_cover_refs_step : forall a w,
  refs_sorted w -> blogs_cover_refs w -> blogs_cover_refs (step_w a w).
Proof. intros a w Hs Hc. apply Inv2_step. split; assumption. Qed.

Theorem blogs_cover_refs_run : forall h, blogs_cover_refs (run h w_empty).
Proof. intro h. apply (Inv2_run_from h w_empty Inv2_empty). Qed.

(* ================================================================== *)
(** * 5. The abstract machine and the refinement theorems *)

Definition astate : Type := (bytes * amap bytes)%type.       (* current branch, branches *)
Definition abs (w : world) : astate := (w_head w, w_refs w).

(* "HEAD has a commit" is, abstractly, "the current branch exists" *)
Definition a_branch (name : bytes) (s : astate) : option astate :=
  match am_get (snd s) (fst s) with
  | Some hid =>
      if negb (am_mem (snd s) name) && valid_branch_name name
      then Some (fst s, am_set (snd s) name hid) else None
  | None => None
  end.

Definition a_delete (name : bytes) (s : astate) : option astate :=
  if negb (bytes_eqb name (fst s)) && am_mem (snd s) name
  then Some (fst s, am_del (snd s) name) else None.

(* the new name is bound first and the old one removed afterwards, in the
   order the program writes the two branch files *)
Definition a_rename (new : bytes) (s : astate) : option astate :=
  match am_get (snd s) (fst s) with
  | Some hid =>
      if negb (am_mem (snd s) new) && valid_branch_name new
      then Some (new, am_del (am_set (snd s) new hid) (fst s)) else None
  | None => None
  end.

(* the same machine with the two updates in the other order (what the single
   rename effect [ERenameRef] computes): on a sorted map they agree *)
Definition a_rename_del_first (new : bytes) (s : astate) : option astate :=
  match am_get (snd s) (fst s) with
  | Some hid =>
      if negb (am_mem (snd s) new) && valid_branch_name new
      then Some (new, am_set (am_del (snd s) (fst s)) new hid) else None
  | None => None
  end.

Definition a_switch (name : bytes) (s : astate) : option astate :=
  match am_get (snd s) (fst s) with
  | Some _ => if am_mem (snd s) name then Some (name, snd s) else None
  | None => None
  end.

Definition a_switch_create (name : bytes) (s : astate) : option astate :=
  match a_branch name s with
  | Some s1 => a_switch name s1
  | None => None
  end.

Definition a_update_ref (loads : bytes -> bool) (r h : bytes) (s : astate) : option astate :=
  if re_search re_branchRegexp r && Nat.eqb (length h) 40 && forallb is_lower_hex h then
    match unhex h with
    | Some id =>
        if loads id && am_mem (snd s) (ref_leaf r)
        then Some (ref_leaf r, am_set (snd s) (ref_leaf r) id) else None
    | None => None
    end
  else None.

Definition commit_loads (w : world) (id : bytes) : bool :=
  match get_commit (w_objs w) id with Some _ => true | None => false end.

(* [switch --create] is [branch] followed by [switch] *)
Lemma a_switch_create_eq : forall name s,
  a_switch_create name s =
  match am_get (snd s) (fst s) with
  | Some hid =>
      if negb (am_mem (snd s) name) && valid_branch_name name
      then Some (name, am_set (snd s) name hid) else None
  | None => None
  end.
Proof.
  intros name [cur br]. unfold a_switch_create, a_branch, a_switch. cbn [fst snd].
  destruct (am_get br cur) as [hid|] eqn:Ecur; [|reflexivity].
  destruct (am_mem br name) eqn:Em; cbn [negb andb]; [reflexivity|].
  destruct (valid_branch_name name); [|reflexivity]. cbn [fst snd].
  assert (Hne : cur <> name).
  { intro Heq. subst name. unfold am_mem in Em. rewrite Ecur in Em. discriminate Em. }
  rewrite am_get_set_other by exact Hne. rewrite Ecur, am_mem_set_same. reflexivity.
Qed.

(* ---------- what the abstract operations do to the branch map ---------- *)
Lemma am_length_set_new : forall V (m : amap V) k v,
  am_mem m k = false -> length (am_set m k v) = S (length m).
Proof.
  intros V. induction m as [|[k0 v0] r IH]; intros k v Hm; cbn [am_set].
  - reflexivity.
  - unfold am_mem in Hm. cbn [am_get] in Hm. destruct (bytes_eqb k0 k) eqn:E0; [discriminate Hm|].
    destruct (blt k k0); [reflexivity|]. cbn [length]. rewrite IH; [reflexivity | exact Hm].
Qed.

(* (needs sortedness: [am_set [(b,1);(a,2)] a v] has three elements) *)
Lemma am_length_set_old : forall V (m : amap V) k v,
  am_sorted m -> am_mem m k = true -> length (am_set m k v) = length m.
Proof.
  intros V. induction m as [|[k0 v0] r IH]; intros k v Hs Hm; cbn [am_set].
  - discriminate Hm.
  - unfold am_mem in Hm. cbn [am_get] in Hm. apply am_sorted_cons in Hs. destruct Hs as [Hs Hf].
    destruct (bytes_eqb k0 k) eqn:E0; [reflexivity|].
    destruct (blt k k0) eqn:El.
    + rewrite am_get_lt_head in Hm; [discriminate Hm|].
      apply (Forall_impl (fun kv => blt k (fst kv) = true)) with (2 := Hf).
      intros kv Hlt. apply (blt_trans k k0 (fst kv)); assumption.
    + cbn [length]. rewrite IH; [reflexivity | exact Hs | exact Hm].
Qed.

(* creating adds exactly one branch, at the commit of the current one; every
   other branch keeps its commit; HEAD stays *)
Theorem a_branch_spec : forall name s s',
  a_branch name s = Some s' ->
  fst s' = fst s /\
  am_get (snd s) name = None /\
  am_get (snd s') name = am_get (snd s) (fst s) /\
  (forall n, n <> name -> am_get (snd s') n = am_get (snd s) n) /\
  length (snd s') = S (length (snd s)).
Proof.
  intros name [cur br] s' H. unfold a_branch in H. cbn [fst snd] in H |- *.
  destruct (am_get br cur) as [hid|]; [|discriminate H].
  destruct (am_mem br name) eqn:Em; cbn [negb andb] in H; [discriminate H|].
  destruct (valid_branch_name name); [|discriminate H]. injection H as <-. cbn [fst snd].
  split; [reflexivity|]. split; [apply am_mem_false; exact Em|].
  split; [apply am_get_set_same|]. split; [intros n Hn; apply am_get_set_other; exact Hn|].
  apply am_length_set_new. exact Em.
Qed.

(* deleting removes exactly that branch *)
Theorem a_delete_spec : forall name s s',
  am_sorted (snd s) -> a_delete name s = Some s' ->
  fst s' = fst s /\ name <> fst s /\
  am_get (snd s') name = None /\
  (forall n, n <> name -> am_get (snd s') n = am_get (snd s) n) /\
  S (length (snd s')) = length (snd s).
Proof.
  intros name [cur br] s' Hs H. unfold a_delete in H. cbn [fst snd] in H, Hs |- *.
  destruct (bytes_eqb name cur) eqn:Ec; cbn [negb andb] in H; [discriminate H|].
  destruct (am_mem br name) eqn:Em; [|discriminate H]. injection H as <-. cbn [fst snd].
  split; [reflexivity|]. split; [apply bytes_eqb_neq; exact Ec|].
  split; [apply am_get_del_same; exact Hs|].
  split; [intros n Hn; apply am_get_del_other; exact Hn|].
  apply am_length_del. exact Em.
Qed.

(* renaming: the old name is gone, the new one holds the same commit, HEAD
   follows, every other branch keeps its commit, the number of branches stays *)
Theorem a_rename_spec : forall new s s',
  am_sorted (snd s) -> a_rename new s = Some s' ->
  fst s' = new /\ new <> fst s /\
  am_get (snd s') new = am_get (snd s) (fst s) /\
  am_get (snd s') (fst s) = None /\
  (forall n, n <> new -> n <> fst s -> am_get (snd s') n = am_get (snd s) n) /\
  length (snd s') = length (snd s).
Proof.
  intros new [cur br] s' Hs H. unfold a_rename in H. cbn [fst snd] in H, Hs |- *.
  destruct (am_get br cur) as [hid|] eqn:Ecur; [|discriminate H].
  destruct (am_mem br new) eqn:Em; cbn [negb andb] in H; [discriminate H|].
  destruct (valid_branch_name new); [|discriminate H]. injection H as <-. cbn [fst snd].
  assert (Hne : new <> cur).
  { intro Heq. subst new. unfold am_mem in Em. rewrite Ecur in Em. discriminate Em. }
  rewrite (am_del_set_comm br new hid cur Hs Hne).
  split; [reflexivity|]. split; [exact Hne|].
  split; [apply am_get_set_same|].
  split; [rewrite am_get_set_other by congruence; apply am_get_del_same; exact Hs|].
  split; [intros n Hn Hc; rewrite am_get_set_other by exact Hn; apply am_get_del_other; exact Hc|].
  rewrite am_length_set_new.
  - apply am_length_del. unfold am_mem. rewrite Ecur. reflexivity.
  - rewrite am_mem_del_other by exact Hne. exact Em.
Qed.

Theorem a_rename_order_irrelevant : forall new s,
  am_sorted (snd s) -> a_rename new s = a_rename_del_first new s.
Proof.
  intros new [cur br] Hs. unfold a_rename, a_rename_del_first. cbn [fst snd] in Hs |- *.
  destruct (am_get br cur) as [hid|] eqn:Ecur; [|reflexivity].
  destruct (am_mem br new) eqn:Em; cbn [negb andb]; [reflexivity|].
  destruct (valid_branch_name new); [|reflexivity].
  rewrite am_del_set_comm; [reflexivity | exact Hs |].
  intro Heq. subst new. unfold am_mem in Em. rewrite Ecur in Em. discriminate Em.
Qed.

(* the one-step rename effect and the write / re-point / remove sequence that
   replaced it end with the same branch map *)
Lemma rename_effect_agrees : forall w old new id,
  refs_sorted w -> am_get (w_refs w) old = Some id -> new <> old ->
  w_refs (apply_effects [ESetRef new id; ESetHead new; EDelRef old] w)
  = w_refs (apply_effect (ERenameRef old new) w).
Proof.
  intros w old new id Hs Hg Hne. cbn [apply_effects fold_left]. autorewrite with wfields.
  rewrite Hg. apply am_del_set_comm; assumption.
Qed.

Theorem a_switch_spec : forall name s s',
  a_switch name s = Some s' -> fst s' = name /\ snd s' = snd s /\ am_mem (snd s) name = true.
Proof.
  intros name [cur br] s' H. unfold a_switch in H. cbn [fst snd] in H |- *.
  destruct (am_get br cur); [|discriminate H].
  destruct (am_mem br name) eqn:Em; [|discriminate H]. injection H as <-. auto.
Qed.

(* update-ref: the named existing branch now holds the given commit; every
   other branch keeps its own; the number of branches stays; HEAD names it *)
Theorem a_update_ref_spec : forall loads r h s s',
  am_sorted (snd s) -> a_update_ref loads r h s = Some s' ->
  exists id, unhex h = Some id /\ loads id = true /\ am_mem (snd s) (ref_leaf r) = true /\
    fst s' = ref_leaf r /\
    am_get (snd s') (ref_leaf r) = Some id /\
    (forall n, n <> ref_leaf r -> am_get (snd s') n = am_get (snd s) n) /\
    length (snd s') = length (snd s).
Proof.
  intros loads r h [cur br] s' Hs H. unfold a_update_ref in H. cbn [fst snd] in H, Hs |- *.
  destruct (re_search re_branchRegexp r && Nat.eqb (length h) 40 && forallb is_lower_hex h); [|discriminate H].
  destruct (unhex h) as [id|]; [|discriminate H]. exists id.
  destruct (loads id); cbn [andb] in H; [|discriminate H].
  destruct (am_mem br (ref_leaf r)) eqn:Em; [|discriminate H]. injection H as <-. cbn [fst snd].
  split; [reflexivity|]. split; [reflexivity|]. split; [reflexivity|]. split; [reflexivity|].
  split; [apply am_get_set_same|]. split; [intros n Hn; apply am_get_set_other; exact Hn|].
  apply am_length_set_old; assumption.
Qed.

(* ---------- the concrete commands refine the abstract machine ---------- *)
(* the six operations touch HEAD, the branch files and the logs, nothing else *)
Definition frame (w w' : world) : Prop :=
  w_inited w' = w_inited w /\ w_index w' = w_index w /\ w_objs w' = w_objs w /\
  w_coll w' = w_coll w /\ w_lcfg w' = w_lcfg w /\ w_gcfg w' = w_gcfg w /\
  w_files w' = w_files w /\ w_dirs w' = w_dirs w.

(* every branch names a commit that loads (first clause of [Inv.Connected]) *)
Definition refs_commits_ok (w : world) : Prop :=
  forall n id, am_get (w_refs w) n = Some id -> exists c, get_commit (w_objs w) id = Some c.

Lemma loaded_headc : forall w x,
  ctx_of w = Some x ->
  match x_headc x with
  | Some (hid, cm) => am_get (w_refs w) (w_head w) = Some hid /\ get_commit (w_objs w) hid = Some cm
  | None => am_get (w_refs w) (w_head w) = None
  end.
Proof.
  intros w x Hx. apply ctx_of_headc in Hx. destruct (x_headc x) as [[hid cm]|].
  - apply head_commit_some. exact Hx.
  - apply head_commit_none. exact Hx.
Qed.

Ltac frame_tac := unfold frame; autorewrite with wfields; repeat split; reflexivity.

Lemma triple_inv : forall A B C (a a' : A) (b b' : B) (c c' : C),
  (a, b, c) = (a', b', c') -> a = a' /\ b = b' /\ c = c'.
Proof. intros A B C a a' b b' c c' H. inversion H. auto. Qed.

(* ([injection] would normalise the worlds) *)
Ltac inj3 H :=
  apply triple_inv in H;
  let Hw := fresh in let Ho := fresh in let Ht := fresh in
  destruct H as (Hw & Ho & Ht); rewrite <- ?Hw, <- ?Ho, <- ?Ht; clear Hw Ho Ht.

Theorem branch_create_refines : forall e name w x w' o tr,
  w_inited w = true -> ctx_of w = Some x ->
  step (ACmd e (CBranch [name] false [] [])) w = (w', o, tr) ->
  match a_branch name (abs w) with
  | Some s' => o = OOk [] /\ abs w' = s' /\ frame w w'
  | None => o = OErr /\ tr = [] /\ w' = w
  end.
Proof.
  intros e name w x w' o tr Hi Hx Hstep.
  rewrite (step_loaded e _ w x) in Hstep by (try discriminate; assumption).
  cbn [dispatch] in Hstep. rewrite cmd_branch_create_eq in Hstep.
  pose proof (loaded_headc w x Hx) as Hh. unfold a_branch, abs. cbn [fst snd].
  destruct (x_headc x) as [[hid cm]|].
  - destruct Hh as [Hg _]. rewrite Hg.
    destruct (negb (am_mem (w_refs w) name) && valid_branch_name name);
      cbn [fst snd ms_w ms_trace outcome_of app] in Hstep; inj3 Hstep.
    + split; [reflexivity|]. unfold branch_create_trace. split; [|frame_tac].
      autorewrite with wfields. reflexivity.
    + auto.
  - rewrite Hh. cbn [fst snd ms_w ms_trace outcome_of] in Hstep. inj3 Hstep. auto.
Qed.

Theorem branch_delete_refines : forall e d w x w' o tr,
  w_inited w = true -> ctx_of w = Some x -> is_nil d = false -> blogs_cover_refs w ->
  step (ACmd e (CBranch [] false [] d)) w = (w', o, tr) ->
  match a_delete d (abs w) with
  | Some s' => o = OOk [] /\ abs w' = s' /\ frame w w'
  | None => o = OErr /\ tr = [] /\ w' = w
  end.
Proof.
  intros e d w x w' o tr Hi Hx Hd Hc Hstep.
  rewrite (step_loaded e _ w x) in Hstep by (try discriminate; assumption).
  cbn [dispatch] in Hstep. rewrite cmd_branch_delete_eq in Hstep by exact Hd.
  unfold a_delete, abs. cbn [fst snd].
  destruct (negb (bytes_eqb d (w_head w)) && am_mem (w_refs w) d) eqn:Econd.
  - apply andb_true_iff in Econd. destruct Econd as [_ Hm]. rewrite (Hc d Hm) in Hstep.
    cbn [fst snd ms_w ms_trace outcome_of app] in Hstep. inj3 Hstep.
    split; [reflexivity|]. split; [|frame_tac]. autorewrite with wfields. reflexivity.
  - cbn [fst snd ms_w ms_trace outcome_of] in Hstep. inj3 Hstep. auto.
Qed.

Theorem branch_rename_refines : forall e new w x w' o tr,
  w_inited w = true -> ctx_of w = Some x -> is_nil new = false -> blogs_cover_refs w ->
  step (ACmd e (CBranch [] false new [])) w = (w', o, tr) ->
  match a_rename new (abs w) with
  | Some s' => o = OOk [] /\ abs w' = s' /\ frame w w'
  | None => o = OErr /\ tr = [] /\ w' = w
  end.
Proof.
  intros e new w x w' o tr Hi Hx Hn Hc Hstep.
  rewrite (step_loaded e _ w x) in Hstep by (try discriminate; assumption).
  cbn [dispatch] in Hstep. rewrite cmd_branch_rename_eq in Hstep by exact Hn.
  pose proof (loaded_headc w x Hx) as Hh. unfold a_rename, abs. cbn [fst snd].
  destruct (x_headc x) as [[hid cm]|].
  - destruct Hh as [Hg _]. rewrite Hg.
    assert (Hm : am_mem (w_refs w) (w_head w) = true) by (unfold am_mem; rewrite Hg; reflexivity).
    rewrite Hm, andb_true_r, (Hc _ Hm) in Hstep.
    destruct (negb (am_mem (w_refs w) new) && valid_branch_name new);
      cbn [fst snd ms_w ms_trace outcome_of app] in Hstep; inj3 Hstep.
    + split; [reflexivity|]. unfold rename_trace, rename_trace1, rename_trace2. cbn [app].
      split; [|frame_tac]. autorewrite with wfields. reflexivity.
    + auto.
  - rewrite Hh. cbn [fst snd ms_w ms_trace outcome_of] in Hstep. inj3 Hstep. auto.
Qed.

Theorem switch_refines : forall e a w x w' o tr,
  w_inited w = true -> ctx_of w = Some x -> refs_commits_ok w ->
  step (ACmd e (CSwitch [a] [])) w = (w', o, tr) ->
  match a_switch a (abs w) with
  | Some s' => o = OOk [] /\ abs w' = s' /\ frame w w'
  | None => o = OErr /\ tr = [] /\ w' = w
  end.
Proof.
  intros e a w x w' o tr Hi Hx Hok Hstep.
  rewrite (step_loaded e _ w x) in Hstep by (try discriminate; assumption).
  cbn [dispatch] in Hstep. rewrite cmd_switch_eq in Hstep.
  pose proof (loaded_headc w x Hx) as Hh. unfold a_switch, abs, am_mem. cbn [fst snd].
  destruct (x_headc x) as [[hid cm]|].
  - destruct Hh as [Hg _]. rewrite Hg.
    destruct (am_get (w_refs w) a) as [id|] eqn:Ea.
    + destruct (Hok a id Ea) as [ca Hca]. rewrite Hca in Hstep.
      cbn [fst snd ms_w ms_trace outcome_of app] in Hstep. inj3 Hstep.
      split; [reflexivity|]. unfold switch_trace. split; [|frame_tac].
      autorewrite with wfields. reflexivity.
    + cbn [fst snd ms_w ms_trace outcome_of] in Hstep. inj3 Hstep. auto.
  - rewrite Hh. cbn [fst snd ms_w ms_trace outcome_of] in Hstep. inj3 Hstep. auto.
Qed.

Theorem switch_create_refines : forall e name w x w' o tr,
  w_inited w = true -> ctx_of w = Some x -> is_nil name = false ->
  step (ACmd e (CSwitch [] name)) w = (w', o, tr) ->
  match a_switch_create name (abs w) with
  | Some s' => o = OOk [] /\ abs w' = s' /\ frame w w'
  | None => o = OErr /\ tr = [] /\ w' = w
  end.
Proof.
  intros e name w x w' o tr Hi Hx Hn Hstep.
  rewrite (step_loaded e _ w x) in Hstep by (try discriminate; assumption).
  cbn [dispatch] in Hstep. rewrite cmd_switch_create_eq in Hstep by exact Hn.
  pose proof (loaded_headc w x Hx) as Hh. rewrite a_switch_create_eq. unfold abs. cbn [fst snd].
  destruct (x_headc x) as [[hid cm]|].
  - destruct Hh as [Hg Hcm]. rewrite Hg. rewrite Hcm in Hstep.
    destruct (negb (am_mem (w_refs w) name) && valid_branch_name name);
      cbn [fst snd ms_w ms_trace outcome_of app] in Hstep; inj3 Hstep.
    + split; [reflexivity|]. unfold switch_create_trace. split; [|frame_tac].
      autorewrite with wfields. reflexivity.
    + auto.
  - rewrite Hh. cbn [fst snd ms_w ms_trace outcome_of] in Hstep. inj3 Hstep. auto.
Qed.

Lemma update_ref_target_abs : forall w r h,
  a_update_ref (commit_loads w) r h (abs w) =
  match update_ref_target w r h with
  | Some (name, id) => Some (name, am_set (w_refs w) name id)
  | None => None
  end.
Proof.
  intros w r h. unfold a_update_ref, update_ref_target, commit_loads, abs. cbn [fst snd].
  destruct (re_search re_branchRegexp r && Nat.eqb (length h) 40 && forallb is_lower_hex h); [|reflexivity].
  destruct (unhex h) as [id|]; [|reflexivity].
  destruct (get_commit (w_objs w) id); cbn [andb]; [|reflexivity].
  destruct (am_mem (w_refs w) (ref_leaf r)); reflexivity.
Qed.

Theorem update_ref_refines : forall e r h w x w' o tr,
  w_inited w = true -> ctx_of w = Some x ->
  step (ACmd e (CUpdateRef [r; h])) w = (w', o, tr) ->
  match a_update_ref (commit_loads w) r h (abs w) with
  | Some s' => o = OOk [] /\ abs w' = s' /\ frame w w'
  | None => o = OErr /\ tr = [] /\ w' = w
  end.
Proof.
  intros e r h w x w' o tr Hi Hx Hstep.
  rewrite (step_loaded e _ w x) in Hstep by (try discriminate; assumption).
  cbn [dispatch] in Hstep. rewrite cmd_update_ref_eq in Hstep. rewrite update_ref_target_abs.
  destruct (update_ref_target w r h) as [[name id]|];
    cbn [fst snd ms_w ms_trace outcome_of app] in Hstep; inj3 Hstep.
  - split; [reflexivity|]. split; [|frame_tac]. unfold abs. autorewrite with wfields. reflexivity.
  - auto.
Qed.

(* reading a refinement statement from the side of the answer *)
Lemma refines_ok_inv : forall (r : option astate) w w' o (tr : list effect) out,
  match r with
  | Some s' => o = OOk [] /\ abs w' = s' /\ frame w w'
  | None => o = OErr /\ tr = [] /\ w' = w
  end ->
  o = OOk out -> r = Some (abs w') /\ frame w w' /\ out = [].
Proof.
  intros r w w' o tr out H Ho. destruct r as [s'|].
  - destruct H as (Ho' & Ha & Hf). rewrite Ho in Ho'. injection Ho' as ->. subst s'. auto.
  - destruct H as (Ho' & _). rewrite Ho in Ho'. discriminate Ho'.
Qed.

Lemma refines_err_inv : forall (r : option astate) w w' o (tr : list effect),
  match r with
  | Some s' => o = OOk [] /\ abs w' = s' /\ frame w w'
  | None => o = OErr /\ tr = [] /\ w' = w
  end ->
  o = OErr -> r = None /\ tr = [] /\ w' = w.
Proof.
  intros r w w' o tr H Ho. destruct r as [s'|].
  - destruct H as (Ho' & _). rewrite Ho in Ho'. discriminate Ho'.
  - destruct H as (_ & Ht & Hw). auto.
Qed.

(* the first operation spelled out on worlds: [branch <name>] answers Ok
   exactly when HEAD has a commit, the name is new and valid; then exactly
   one branch is added, at that commit, and nothing else moves *)
Corollary branch_create_ok : forall e name w x w' out tr,
  w_inited w = true -> ctx_of w = Some x ->
  step (ACmd e (CBranch [name] false [] [])) w = (w', OOk out, tr) ->
  exists hid cm,
    x_headc x = Some (hid, cm) /\ am_mem (w_refs w) name = false /\ valid_branch_name name = true /\
    w_refs w' = am_set (w_refs w) name hid /\ w_head w' = w_head w /\
    (forall n, n <> name -> am_get (w_refs w') n = am_get (w_refs w) n) /\
    length (w_refs w') = S (length (w_refs w)) /\
    frame w w' /\ out = [].
Proof.
  intros e name w x w' out tr Hi Hx Hstep.
  pose proof (branch_create_refines e name w x w' (OOk out) tr Hi Hx Hstep) as Href.
  destruct (refines_ok_inv _ _ _ _ _ _ Href eq_refl) as (Ha & Hf & Hout).
  pose proof (loaded_headc w x Hx) as Hh.
  unfold a_branch, abs in Ha. cbn [fst snd] in Ha.
  destruct (x_headc x) as [[hid cm]|].
  - destruct Hh as [Hg _]. rewrite Hg in Ha. exists hid, cm.
    destruct (am_mem (w_refs w) name) eqn:Em; cbn [negb andb] in Ha; [discriminate Ha|].
    destruct (valid_branch_name name) eqn:Ev; [|discriminate Ha].
    injection Ha as Hhead Hrefs. rewrite <- Hrefs.
    split; [reflexivity|]. split; [reflexivity|]. split; [reflexivity|].
    split; [reflexivity|]. split; [symmetry; exact Hhead|].
    split; [intros n Hn; apply am_get_set_other; exact Hn|].
    split; [apply am_length_set_new; exact Em|]. split; [exact Hf | exact Hout].
  - rewrite Hh in Ha. discriminate Ha.
Qed.

(* ================================================================== *)
(** * 6. A refused operation changes nothing *)

(* every parameter combination of [branch] other than the four meaningful
   ones is refused by the first guard *)
Lemma cmd_branch_shapes : forall e c args lst rn dl s,
  (exists name, args = [name] /\ lst = false /\ rn = [] /\ dl = []) \/
  (args = [] /\ lst = true /\ rn = [] /\ dl = []) \/
  (args = [] /\ lst = false /\ is_nil rn = false /\ dl = []) \/
  (args = [] /\ lst = false /\ rn = [] /\ is_nil dl = false) \/
  cmd_branch e c args lst rn dl s = (Err, s).
Proof.
  intros e c args lst rn dl s.
  destruct args as [|a [|b r]]; destruct lst; destruct rn as [|r0 rn]; destruct dl as [|d0 dl];
    try (right; right; right; right; reflexivity).
  - right. left. auto.
  - right. right. right. left. auto.
  - right. right. left. auto.
  - left. exists a. auto.
Qed.

Lemma cmd_switch_shapes : forall e c args cr s,
  (exists a, args = [a] /\ cr = []) \/
  (args = [] /\ is_nil cr = false) \/
  cmd_switch e c args cr s = (Err, s).
Proof.
  intros e c args cr s.
  destruct args as [|a [|b r]]; destruct cr as [|c0 cr]; try (right; right; reflexivity).
  - right. left. auto.
  - left. exists a. auto.
Qed.

Definition branch_family (c : cmd) : Prop :=
  match c with
  | CBranch _ _ _ _ | CSwitch _ _ | CUpdateRef _ => True
  | _ => False
  end.

(* The guards and lookups that can fail all come before the first write, with
   two exceptions the model has: the log-existence check of [--rename] /
   [--delete] (after the branch files were written / removed) and the reload of the commit in
   [Head.Update] (after [ESetHead]).  The first cannot fail when every branch
   has its log ([blogs_cover_refs], an invariant of every history), the
   second cannot when every branch names a commit ([refs_commits_ok], first
   clause of [Inv.Connected]). *)
Lemma branch_family_refused : forall e c x w r s',
  branch_family c -> ctx_of w = Some x -> blogs_cover_refs w -> refs_commits_ok w ->
  dispatch e c x (mkMS w [] None) = (r, s') ->
  match r with Ok _ => True | Err => s' = mkMS w [] None | Panic => False end.
Proof.
  intros e c x w r s' Hfam Hx Hc Hok Hrun.
  pose proof (loaded_headc w x Hx) as Hh.
  destruct c; try contradiction Hfam; cbn [dispatch] in Hrun.
  - (* branch *)
    destruct (cmd_branch_shapes e x args list_flag rename delete (mkMS w [] None))
      as [(name & -> & -> & -> & ->) | [(-> & -> & -> & ->) | [(-> & -> & Hn & ->) | [(-> & -> & -> & Hd) | Herr]]]].
    + rewrite cmd_branch_create_eq in Hrun.
      destruct (x_headc x) as [[hid cm]|];
        [destruct (negb (am_mem (w_refs w) name) && valid_branch_name name)|];
        injection Hrun as <- <-; auto.
    + rewrite cmd_branch_list_eq in Hrun. injection Hrun as <- <-. exact Logic.I.
    + rewrite cmd_branch_rename_eq in Hrun by exact Hn.
      destruct (x_headc x) as [[hid cm]|]; [|injection Hrun as <- <-; reflexivity].
      destruct Hh as [Hg _].
      assert (Hm : am_mem (w_refs w) (w_head w) = true) by (unfold am_mem; rewrite Hg; reflexivity).
      rewrite (Hc _ Hm) in Hrun.
      destruct (negb (am_mem (w_refs w) rename) && am_mem (w_refs w) (w_head w) && valid_branch_name rename);
        apply pair_equal_spec in Hrun; destruct Hrun as [<- <-]; auto.
    + rewrite cmd_branch_delete_eq in Hrun by exact Hd.
      destruct (negb (bytes_eqb delete (w_head w)) && am_mem (w_refs w) delete) eqn:Econd.
      * apply andb_true_iff in Econd. destruct Econd as [_ Hm]. rewrite (Hc _ Hm) in Hrun.
        apply pair_equal_spec in Hrun. destruct Hrun as [<- <-]. exact Logic.I.
      * injection Hrun as <- <-. reflexivity.
    + rewrite Herr in Hrun. injection Hrun as <- <-. reflexivity.
  - (* switch *)
    destruct (cmd_switch_shapes e x args create (mkMS w [] None))
      as [(a & -> & ->) | [(-> & Hn) | Herr]].
    + rewrite cmd_switch_eq in Hrun.
      destruct (x_headc x) as [[hid cm]|]; [|injection Hrun as <- <-; reflexivity].
      destruct (am_get (w_refs w) a) as [id|] eqn:Ea; [|injection Hrun as <- <-; reflexivity].
      destruct (Hok a id Ea) as [ca Hca]. rewrite Hca in Hrun.
      apply pair_equal_spec in Hrun. destruct Hrun as [<- <-]. exact Logic.I.
    + rewrite cmd_switch_create_eq in Hrun by exact Hn.
      destruct (x_headc x) as [[hid cm]|]; [|injection Hrun as <- <-; reflexivity].
      destruct Hh as [_ Hcm]. rewrite Hcm in Hrun.
      destruct (negb (am_mem (w_refs w) create) && valid_branch_name create);
        apply pair_equal_spec in Hrun; destruct Hrun as [<- <-]; auto.
    + rewrite Herr in Hrun. injection Hrun as <- <-. reflexivity.
  - (* update-ref *)
    destruct args as [|r0 [|h [|y rest]]]; try (injection Hrun as <- <-; reflexivity).
    rewrite cmd_update_ref_eq in Hrun.
    destruct (update_ref_target w r0 h) as [[name id]|];
      apply pair_equal_spec in Hrun; destruct Hrun as [<- <-]; auto.
Qed.

Theorem refused_branch_ops_unchanged : forall e c w w' tr,
  branch_family c -> blogs_cover_refs w -> refs_commits_ok w ->
  step (ACmd e c) w = (w', OErr, tr) -> tr = [] /\ w' = w.
Proof.
  intros e c w w' tr Hfam Hc Hok Hstep.
  assert (Hne : c <> CInit) by (intro Heq; subst c; exact Hfam).
  destruct (w_inited w) eqn:Hi; [destruct (ctx_of w) as [x|] eqn:Hx|].
  - rewrite (step_loaded e c w x Hne Hi Hx) in Hstep.
    destruct (dispatch e c x (mkMS w [] None)) as [r s'] eqn:Erun.
    pose proof (branch_family_refused e c x w r s' Hfam Hx Hc Hok Erun) as Hr.
    cbn [fst snd] in Hstep. apply triple_inv in Hstep. destruct Hstep as (Hw & Ho & Ht).
    destruct r; try discriminate Ho. subst s'. cbn [ms_w ms_trace] in Hw, Ht. auto.
  - rewrite (step_not_loaded e c w Hne (or_intror Hx)) in Hstep.
    apply triple_inv in Hstep. destruct Hstep as (Hw & _ & Ht). auto.
  - rewrite (step_not_loaded e c w Hne (or_introl Hi)) in Hstep.
    apply triple_inv in Hstep. destruct Hstep as (Hw & _ & Ht). auto.
Qed.

(* and none of the three ever panics *)
Theorem branch_family_no_panic : forall e c w,
  branch_family c -> blogs_cover_refs w -> refs_commits_ok w ->
  snd (fst (step (ACmd e c) w)) <> OPanic.
Proof.
  intros e c w Hfam Hc Hok.
  assert (Hne : c <> CInit) by (intro Heq; subst c; exact Hfam).
  destruct (w_inited w) eqn:Hi; [destruct (ctx_of w) as [x|] eqn:Hx|].
  - rewrite (step_loaded e c w x Hne Hi Hx).
    destruct (dispatch e c x (mkMS w [] None)) as [r s'] eqn:Erun.
    pose proof (branch_family_refused e c x w r s' Hfam Hx Hc Hok Erun) as Hr.
    cbn [fst snd]. destruct r; [discriminate | discriminate | contradiction Hr].
  - rewrite (step_not_loaded e c w Hne (or_intror Hx)). discriminate.
  - rewrite (step_not_loaded e c w Hne (or_introl Hi)). discriminate.
Qed.

(* on every world a history reaches from [w_empty] the log check holds *)
Corollary refused_branch_ops_unchanged_reachable : forall h e c w' tr,
  branch_family c -> refs_commits_ok (run h w_empty) ->
  step (ACmd e c) (run h w_empty) = (w', OErr, tr) -> tr = [] /\ w' = run h w_empty.
Proof.
  intros h e c w' tr Hfam Hok Hstep.
  exact (refused_branch_ops_unchanged e c _ w' tr Hfam (blogs_cover_refs_run h) Hok Hstep).
Qed.

(* ---------- duplicate names are refused ---------- *)
Theorem duplicate_branch_refused : forall e name w,
  am_mem (w_refs w) name = true ->
  step (ACmd e (CBranch [name] false [] [])) w = (w, OErr, []).
Proof.
  intros e name w Hm.
  destruct (w_inited w) eqn:Hi; [destruct (ctx_of w) as [x|] eqn:Hx|];
    try solve [apply step_not_loaded; [discriminate | auto]].
  rewrite (step_loaded e _ w x) by (try discriminate; assumption).
  cbn [dispatch]. rewrite cmd_branch_create_eq, Hm. destruct (x_headc x) as [[hid cm]|]; reflexivity.
Qed.

Theorem duplicate_switch_create_refused : forall e name w,
  am_mem (w_refs w) name = true ->
  step (ACmd e (CSwitch [] name)) w = (w, OErr, []).
Proof.
  intros e name w Hm.
  destruct (w_inited w) eqn:Hi; [destruct (ctx_of w) as [x|] eqn:Hx|];
    try solve [apply step_not_loaded; [discriminate | auto]].
  rewrite (step_loaded e _ w x) by (try discriminate; assumption). cbn [dispatch].
  destruct (is_nil name) eqn:Hn.
  - destruct name; [|discriminate Hn]. reflexivity.
  - rewrite cmd_switch_create_eq by exact Hn. rewrite Hm. destruct (x_headc x) as [[hid cm]|]; reflexivity.
Qed.

Theorem duplicate_rename_refused : forall e new w,
  am_mem (w_refs w) new = true ->
  step (ACmd e (CBranch [] false new [])) w = (w, OErr, []).
Proof.
  intros e new w Hm.
  destruct (w_inited w) eqn:Hi; [destruct (ctx_of w) as [x|] eqn:Hx|];
    try solve [apply step_not_loaded; [discriminate | auto]].
  rewrite (step_loaded e _ w x) by (try discriminate; assumption). cbn [dispatch].
  destruct (is_nil new) eqn:Hn.
  - destruct new; [|discriminate Hn]. reflexivity.
  - rewrite cmd_branch_rename_eq by exact Hn. rewrite Hm. destruct (x_headc x) as [[hid cm]|]; reflexivity.
Qed.

(* deleting the current branch or an unknown one is refused *)
Theorem delete_current_refused : forall e w,
  step (ACmd e (CBranch [] false [] (w_head w))) w = (w, OErr, []).
Proof.
  intros e w.
  destruct (w_inited w) eqn:Hi; [destruct (ctx_of w) as [x|] eqn:Hx|];
    try solve [apply step_not_loaded; [discriminate | auto]].
  rewrite (step_loaded e _ w x) by (try discriminate; assumption). cbn [dispatch].
  destruct (is_nil (w_head w)) eqn:Hn.
  - destruct (w_head w); [|discriminate Hn]. reflexivity.
  - rewrite cmd_branch_delete_eq by exact Hn. rewrite bytes_eqb_refl. reflexivity.
Qed.

Theorem delete_unknown_refused : forall e d w,
  am_mem (w_refs w) d = false ->
  step (ACmd e (CBranch [] false [] d)) w = (w, OErr, []).
Proof.
  intros e d w Hm.
  destruct (w_inited w) eqn:Hi; [destruct (ctx_of w) as [x|] eqn:Hx|];
    try solve [apply step_not_loaded; [discriminate | auto]].
  rewrite (step_loaded e _ w x) by (try discriminate; assumption). cbn [dispatch].
  destruct (is_nil d) eqn:Hn.
  - destruct d; [|discriminate Hn]. reflexivity.
  - rewrite cmd_branch_delete_eq by exact Hn. rewrite Hm, andb_false_r. reflexivity.
Qed.

(* ================================================================== *)
(** * 7. [branch --list] and [rev-parse] report exactly the stored state *)

Theorem branch_list_reports : forall e w x,
  w_inited w = true -> ctx_of w = Some x ->
  step (ACmd e (CBranch [] true [] [])) w = (w, OOk (branch_listing w), []).
Proof.
  intros e w x Hi Hx. rewrite (step_loaded e _ w x) by (try discriminate; assumption).
  cbn [dispatch]. rewrite cmd_branch_list_eq. reflexivity.
Qed.

(* one line per branch, in the stored (sorted) order; the current one starred *)
Lemma branch_listing_length : forall w, length (branch_listing w) = length (w_refs w).
Proof. intro w. unfold branch_listing. apply map_length. Qed.

Lemma branch_listing_nth : forall w i k v,
  nth_error (w_refs w) i = Some (k, v) ->
  nth_error (branch_listing w) i =
    Some (if bytes_eqb k (w_head w) then str "* "%string ++ k else k).
Proof.
  intros w i k v H. unfold branch_listing. rewrite nth_error_map, H. cbn [option_map fst].
  destruct (bytes_eqb k (w_head w)); reflexivity.
Qed.

(* the name [rev-parse] looks up: HEAD in any letter case is the current branch *)
Definition rev_name (w : world) (a : bytes) : bytes :=
  if bytes_eqb a (str "HEAD"%string) then w_head w else a.

Fixpoint rev_parse_out (w : world) (args : list bytes) : option (list bytes) :=
  match args with
  | [] => Some []
  | a :: r =>
      match am_get (w_refs w) (rev_name w a), rev_parse_out w r with
      | Some id, Some rest => Some (hex id :: rest)
      | _, _ => None
      end
  end.

Lemma cmd_rev_parse_eq : forall args s,
  cmd_rev_parse args s =
  (match rev_parse_out (ms_w s) args with Some out => Ok out | None => Err end, s).
Proof.
  intros args s. unfold cmd_rev_parse. rewrite ev_bind_getw.
  induction args as [|a r IH]; [reflexivity|].
  cbn [rev_parse_out]. fold (rev_name (ms_w s) a). rewrite ev_bind_of_opt.
  destruct (am_get (w_refs (ms_w s)) (rev_name (ms_w s) a)) as [id|]; [|reflexivity].
  unfold bind at 1. rewrite IH. destruct (rev_parse_out (ms_w s) r); reflexivity.
Qed.

Theorem rev_parse_reports : forall e args w x,
  w_inited w = true -> ctx_of w = Some x ->
  step (ACmd e (CRevParse args)) w =
  (w, match rev_parse_out w args with Some out => OOk out | None => OErr end, []).
Proof.
  intros e args w x Hi Hx. rewrite (step_loaded e _ w x) by (try discriminate; assumption).
  cbn [dispatch]. rewrite cmd_rev_parse_eq. cbn [fst snd ms_w ms_trace].
  destruct (rev_parse_out w args); reflexivity.
Qed.

Lemma rev_parse_out_some : forall w args out,
  rev_parse_out w args = Some out <->
  Forall2 (fun a o => exists id, am_get (w_refs w) (rev_name w a) = Some id /\ o = hex id) args out.
Proof.
  intros w. induction args as [|a r IH]; intros out; cbn [rev_parse_out].
  - split.
    + intro H. injection H as <-. constructor.
    + intro H. inversion H. reflexivity.
  - split.
    + intro H. destruct (am_get (w_refs w) (rev_name w a)) as [id|] eqn:Ea; [|discriminate H].
      destruct (rev_parse_out w r) as [rest|] eqn:Er; [|discriminate H].
      injection H as <-. constructor; [exists id; auto | apply IH; reflexivity].
    + intro H. inversion H as [|a0 o l l' (id & Hid & Ho) Hrest]; subst.
      rewrite Hid. apply IH in Hrest. rewrite Hrest. reflexivity.
Qed.

Lemma rev_parse_out_none : forall w args,
  rev_parse_out w args = None <-> exists a, In a args /\ am_get (w_refs w) (rev_name w a) = None.
Proof.
  intros w. induction args as [|a r IH]; cbn [rev_parse_out].
  - split; [discriminate | intros (a & [] & _)].
  - split.
    + intro H. destruct (am_get (w_refs w) (rev_name w a)) as [id|] eqn:Ea.
      * destruct (rev_parse_out w r) as [rest|] eqn:Er; [discriminate H|].
        destruct (proj1 IH eq_refl) as (b & Hb & Hn). exists b. split; [right; exact Hb | exact Hn].
      * exists a. split; [left; reflexivity | exact Ea].
    + intros (b & [<-|Hb] & Hn).
      * rewrite Hn. reflexivity.
      * destruct (am_get (w_refs w) (rev_name w a)); [|reflexivity].
        rewrite (proj2 IH (ex_intro _ b (conj Hb Hn))). reflexivity.
Qed.

Lemma rev_name_head : forall w, rev_name w (str "HEAD"%string) = w_head w.
Proof. intro w. reflexivity. Qed.

(* any other name is looked up as it is -- a branch called "head" or "Head" included (repair F57: the
   comparison used to ignore case, so `rev-parse head` printed HEAD's commit, not that branch's) *)
Lemma rev_name_other : forall w a, a <> str "HEAD"%string -> rev_name w a = a.
Proof.
  intros w a H. unfold rev_name. apply bytes_eqb_neq in H. rewrite H. reflexivity.
Qed.

Lemma rev_name_lower_head : forall w,
  rev_name w (str "head"%string) = str "head"%string /\ rev_name w (str "Head"%string) = str "Head"%string.
Proof. intro w. split; reflexivity. Qed.

(* ================================================================== *)
(** * 8. The HEAD and branch file codecs *)

Lemma split_all_nonempty : forall sep s, split_all sep s <> [].
Proof.
  intros sep s. destruct s as [|c r]; cbn [split_all]; [discriminate|].
  destruct (beqb c sep); [discriminate|]. destruct (split_all sep r); discriminate.
Qed.

(* strings.Split distributes over a separator *)
Lemma split_all_app_sep : forall sep a s,
  split_all sep (a ++ sep :: s) = split_all sep a ++ split_all sep s.
Proof.
  intros sep a s. induction a as [|c a IH]; cbn [app split_all].
  - rewrite beqb_refl. reflexivity.
  - destruct (beqb c sep); [rewrite IH; reflexivity|].
    rewrite IH. pose proof (split_all_nonempty sep a) as Hne.
    destruct (split_all sep a) as [|h t]; [contradiction Hne; reflexivity | reflexivity].
Qed.

Lemma split_all_no_sep : forall sep s, contains_byte sep s = false -> split_all sep s = [s].
Proof.
  intros sep s. induction s as [|c r IH]; intro H; cbn [split_all contains_byte] in *.
  - reflexivity.
  - apply orb_false_elim in H. destruct H as [Hc Hr]. rewrite Hc, (IH Hr). reflexivity.
Qed.

Lemma last_app_nonempty : forall A (l1 l2 : list A) d, l2 <> [] -> last (l1 ++ l2) d = last l2 d.
Proof.
  intros A l1 l2 d Hne. induction l1 as [|x l1 IH]; [reflexivity|].
  cbn [app]. destruct (l1 ++ l2) as [|y r] eqn:E.
  - apply app_eq_nil in E. destruct E as [_ E]. contradiction.
  - rewrite <- IH. reflexivity.
Qed.

(* the last path component of "<anything>/<n>" is <n> when <n> has no slash *)
Lemma ref_leaf_app : forall a n,
  contains_byte c_slash n = false -> ref_leaf (a ++ c_slash :: n) = n.
Proof.
  intros a n Hn. unfold ref_leaf. rewrite split_all_app_sep.
  rewrite last_app_nonempty by apply split_all_nonempty.
  rewrite split_all_no_sep by exact Hn. reflexivity.
Qed.

Lemma valid_branch_name_parts : forall n,
  valid_branch_name n = true ->
  n <> [] /\ n <> [x2e] /\ n <> [x2e; x2e] /\
  contains_byte c_slash n = false /\ contains_byte x5c n = false.
Proof.
  intros n H. unfold valid_branch_name in H.
  repeat (apply andb_true_iff in H; destruct H as [H ?]).
  repeat match goal with Hn : negb _ = true |- _ => apply negb_true_iff in Hn end.
  repeat split; try assumption.
  - intro Heq. subst n. discriminate.
  - apply bytes_eqb_neq. assumption.
  - apply bytes_eqb_neq. assumption.
Qed.

(* Head.Update writes "ref: refs/heads/<n>"; NewHead reads <n> back, even
   when <n> itself contains ": " (the FIRST ": " is the one after "ref") *)
Theorem parse_head_render : forall n,
  valid_branch_name n = true -> ~ In c_nl n -> parse_head (render_head n) = Some n.
Proof.
  intros n Hv Hnl. destruct (valid_branch_name_parts n Hv) as (Hne & _ & _ & Hsl & _).
  unfold parse_head, render_head, head_prefix.
  rewrite head_line_accepts by assumption.
  change (str "ref: refs/heads/"%string ++ n)
    with (str "ref"%string ++ (x3a :: [c_sp]) ++ (str "refs/heads"%string ++ c_slash :: n)).
  rewrite split1s_app_nofirst.
  - fold (ref_leaf (str "refs/heads"%string ++ c_slash :: n)). rewrite ref_leaf_app by exact Hsl. reflexivity.
  - cbn. intros [H|[H|[H|[]]]]; discriminate H.
Qed.

(* branch.write / loadHash *)
Theorem parse_ref_render : forall id, length id = 20 -> parse_ref (render_ref id) = Some id.
Proof. intros id Hlen. unfold parse_ref, render_ref. apply read_hash_hex. exact Hlen. Qed.

(* the ids [branch] and [update-ref] store have 20 bytes when they name a stored object *)
Lemma get_commit_id_length : forall st id c, get_commit st id = Some c -> length id = 20.
Proof.
  intros st id c H. unfold get_commit, get_kind in H.
  destruct (get_obj st id) as [kd|] eqn:E; [|discriminate H].
  exact (get_obj_id_length st id kd E).
Qed.

(* update-ref's own decoding of its first argument agrees with the HEAD codec:
   for "refs/heads/<n>" with a valid <n> the branch addressed is <n> *)
Lemma ref_leaf_full_name : forall n,
  contains_byte c_slash n = false -> ref_leaf (str "refs/heads/"%string ++ n) = n.
Proof.
  intros n Hn. change (str "refs/heads/"%string ++ n) with (str "refs/heads"%string ++ c_slash :: n).
  apply ref_leaf_app. exact Hn.
Qed.

Lemma branch_regexp_accepts : forall n,
  n <> [] -> ~ In c_nl n -> re_search re_branchRegexp (str "refs/heads/"%string ++ n) = true.
Proof.
  intros n Hne Hnl. apply re_search_spec.
  exists [], (str "refs/heads/"%string ++ n), [].
  split; [cbn [app]; symmetry; apply app_nil_r|].
  split; [|split; intros _; reflexivity].
  unfold re_branchRegexp. cbn [p_body]. apply lang_RCat.
  exists (str "refs/heads/"%string), n. split; [reflexivity|].
  split; [apply lang_RLit; reflexivity|].
  apply lang_plus_nonl. split; [exact Hne | exact Hnl].
Qed.

(* ================================================================== *)
(** * 9. Examples (all by computation) *)

Section Examples.
  Local Open Scope string_scope.
  Let ex_env : env := mkEnv 1700000000 0.
  Let cmd_ (c : cmd) : action := ACmd ex_env c.

  (* init, identity, one file, one commit *)
  Let ex_base : list action :=
    [cmd_ CInit;
     cmd_ (CConfig false [str "user.name"; str "t"]);
     cmd_ (CConfig false [str "user.email"; str "t@x.io"]);
     AEdit (UWrite (str "f") (str "x"));
     cmd_ (CAdd [str "f"]);
     cmd_ (CCommit (str "m"))].
  Let ex_w0 : world := run ex_base w_empty.

  (* names that are prefixes of each other, added in non-sorted order *)
  Let ex_add : list action :=
    [cmd_ (CBranch [str "ab"] false [] []); cmd_ (CBranch [str "a.b"] false [] []);
     cmd_ (CBranch [str "a"] false [] []); cmd_ (CBranch [str "a-b"] false [] [])].
  Let ex_w1 : world := run ex_add ex_w0.

  Example ex_sorted_names :
    map fst (w_refs ex_w1) = [str "a"; str "a-b"; str "a.b"; str "ab"; str "main"].
  Proof. vm_compute. reflexivity. Qed.

  Example ex_same_commit :
    forall n, In n [str "a"; str "a-b"; str "a.b"; str "ab"] ->
              am_get (w_refs ex_w1) n = am_get (w_refs ex_w1) (str "main").
  Proof. intros n [<-|[<-|[<-|[<-|[]]]]]; vm_compute; reflexivity. Qed.

  Example ex_listing :
    snd (fst (step (cmd_ (CBranch [] true [] [])) ex_w1))
    = OOk [str "a"; str "a-b"; str "a.b"; str "ab"; str "* main"].
  Proof. vm_compute. reflexivity. Qed.

  (* on the plain map: any insertion order gives the same sorted list *)
  Example ex_amap_order :
    am_keys (am_set (am_set (am_set (am_set [] (str "ab") 1) (str "a.b") 2) (str "a") 3) (str "a-b") 4)
    = [str "a"; str "a-b"; str "a.b"; str "ab"]
    /\ am_set (am_set (am_set (am_set [] (str "ab") 1) (str "a.b") 2) (str "a") 3) (str "a-b") 4
     = am_set (am_set (am_set (am_set [] (str "a-b") 4) (str "a") 3) (str "a.b") 2) (str "ab") 1.
  Proof. vm_compute. split; reflexivity. Qed.

  (* rename the current branch, delete one, add after delete: still sorted,
     HEAD follows the rename, rev-parse reports the stored ids *)
  Let ex_more : list action :=
    [cmd_ (CBranch [] false (str "aa") []);          (* main -> aa *)
     cmd_ (CBranch [] false [] (str "a.b"));
     cmd_ (CSwitch [] (str "a+"));                   (* switch -c *)
     cmd_ (CBranch [str "a.b"] false [] [])].
  Let ex_w2 : world := run ex_more ex_w1.

  Example ex_after_rename :
    map fst (w_refs ex_w2) = [str "a"; str "a+"; str "a-b"; str "a.b"; str "aa"; str "ab"]
    /\ w_head ex_w2 = str "a+"
    /\ map fst (w_blogs ex_w2) = map fst (w_refs ex_w2).
  Proof. vm_compute. repeat split; reflexivity. Qed.

  Let ex_id (w : world) (n : bytes) : bytes :=
    match am_get (w_refs w) n with Some id => hex id | None => [] end.
  Example ex_rev_parse :
    snd (fst (step (cmd_ (CRevParse [str "HEAD"; str "aa"; str "HEAD"])) ex_w2))
    = OOk (map (ex_id ex_w2) [str "a+"; str "aa"; str "a+"])
    /\ snd (fst (step (cmd_ (CRevParse [str "aa"; str "main"])) ex_w2)) = OErr
    /\ snd (fst (step (cmd_ (CRevParse [str "Head"])) ex_w2)) = OErr.   (* no branch of that name: HEAD is spelled HEAD *)
  Proof. vm_compute. repeat split; reflexivity. Qed.

  (* a branch name containing ": " survives the HEAD file *)
  Example ex_head_colon : parse_head (render_head (str "a: b")) = Some (str "a: b").
  Proof. vm_compute. reflexivity. Qed.

  Example ex_head_colon_world :
    let w := step_w (cmd_ (CSwitch [] (str "a: b"))) ex_w0 in
    w_head w = str "a: b" /\ parse_head (render_head (w_head w)) = Some (w_head w).
  Proof. vm_compute. split; reflexivity. Qed.

  (* hostile names are invalid *)
  Example ex_hostile_names :
    map valid_branch_name [str "../../HEAD"; str "a/b"; str ".."; str ""; str "x\y"; str "."]
    = [false; false; false; false; false; false].
  Proof. vm_compute. reflexivity. Qed.

  Example ex_hostile_refused :
    forall n, In n [str "../../HEAD"; str "a/b"; str ".."; str "x\y"; str "."] ->
      step (cmd_ (CBranch [n] false [] [])) ex_w0 = (ex_w0, OErr, [])
      /\ step (cmd_ (CSwitch [] n)) ex_w0 = (ex_w0, OErr, [])
      /\ step (cmd_ (CBranch [] false n [])) ex_w0 = (ex_w0, OErr, []).
  Proof. intros n [<-|[<-|[<-|[<-|[<-|[]]]]]]; vm_compute; repeat split; reflexivity. Qed.

  (* ---- behaviour recorded as it is ---- *)
  (* [update-ref]: the pattern is unanchored and the branch addressed is what
     follows the LAST '/': "xrefs/heads/q/a" addresses branch "a"; HEAD then
     names that branch *)
  Example ex_update_ref_leaf :
    match am_get (w_refs ex_w1) (str "main") with
    | Some id =>
        let w := step_w (cmd_ (CUpdateRef [str "xrefs/heads/q/a"; hex id])) ex_w1 in
        am_get (w_refs w) (str "a") = Some id /\ w_head w = str "a"
    | None => False
    end.
  Proof. vm_compute. split; reflexivity. Qed.

  (* The two late failure points.  Neither world below is reachable (a branch
     whose file does not hold a commit id; a branch without its log), which is
     what [refs_commits_ok] and [blogs_cover_refs] exclude; in them a REFUSED
     command has already written. *)
  Let zero20 : bytes := repeat x00 20.
  Let ex_bad_ref : world := set_refs ex_w0 (am_set (w_refs ex_w0) (str "bad") zero20).
  Example ex_switch_writes_before_refusing :
    snd (step (cmd_ (CSwitch [str "bad"] [])) ex_bad_ref) = [ESetHead (str "bad")]
    /\ snd (fst (step (cmd_ (CSwitch [str "bad"] [])) ex_bad_ref)) = OErr.
  Proof. vm_compute. split; reflexivity. Qed.

  Let ex_no_log : world := set_blogs ex_w1 (am_del (w_blogs ex_w1) (str "ab")).
  Example ex_delete_writes_before_refusing :
    snd (step (cmd_ (CBranch [] false [] (str "ab"))) ex_no_log) = [EDelRef (str "ab")]
    /\ snd (fst (step (cmd_ (CBranch [] false [] (str "ab"))) ex_no_log)) = OErr
    /\ am_mem (w_refs (step_w (cmd_ (CBranch [] false [] (str "ab"))) ex_no_log)) (str "ab") = false.
  Proof. vm_compute. repeat split; reflexivity. Qed.
End Examples.

(* ================================================================== *)
Print Assumptions am_ext.
Print Assumptions refs_sorted_run.
Print Assumptions refs_sorted_fault.
Print Assumptions blogs_cover_refs_run.
Print Assumptions Inv2_step.
Print Assumptions branch_create_refines.
Print Assumptions branch_delete_refines.
Print Assumptions branch_rename_refines.
Print Assumptions switch_refines.
Print Assumptions switch_create_refines.
Print Assumptions update_ref_refines.
Print Assumptions branch_create_ok.
Print Assumptions a_branch_spec.
Print Assumptions a_delete_spec.
Print Assumptions a_rename_spec.
Print Assumptions a_rename_order_irrelevant.
Print Assumptions rename_effect_agrees.
Print Assumptions a_update_ref_spec.
Print Assumptions refused_branch_ops_unchanged.
Print Assumptions refused_branch_ops_unchanged_reachable.
Print Assumptions branch_family_no_panic.
Print Assumptions duplicate_branch_refused.
Print Assumptions duplicate_switch_create_refused.
Print Assumptions duplicate_rename_refused.
Print Assumptions branch_list_reports.
Print Assumptions rev_parse_reports.
Print Assumptions parse_head_render.
Print Assumptions parse_ref_render.
Print Assumptions ex_sorted_names.
Print Assumptions ex_switch_writes_before_refusing.
