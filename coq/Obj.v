(* Obj.v — object header codec, object ids, the object store.
   The store maps the 20-byte id under which a file is stored to the *inflated*
   bytes of that file (zlib is outside the model, see DESIGN §9). *)
From Coq Require Import Strings.Byte.
From Coq Require Import List Bool NArith ZArith.
From Goit Require Import Bytes Sha1.
Import ListNotations.

Inductive kind := KBlob | KTree | KCommit | KTag.

Definition kind_eqb (a b : kind) : bool :=
  match a, b with
  | KBlob, KBlob | KTree, KTree | KCommit, KCommit | KTag, KTag => true
  | _, _ => false
  end.

Definition kind_s (k : kind) : bytes :=
  match k with
  | KBlob => [x62; x6c; x6f; x62]                         (* "blob" *)
  | KTree => [x74; x72; x65; x65]                         (* "tree" *)
  | KCommit => [x63; x6f; x6d; x6d; x69; x74]             (* "commit" *)
  | KTag => [x74; x61; x67]                               (* "tag" *)
  end.

Definition kind_of_s (s : bytes) : option kind :=
  if bytes_eqb s (kind_s KBlob) then Some KBlob
  else if bytes_eqb s (kind_s KTree) then Some KTree
  else if bytes_eqb s (kind_s KCommit) then Some KCommit
  else if bytes_eqb s (kind_s KTag) then Some KTag
  else None.

(* "<kind> <len>\0" *)
Definition header (k : kind) (n : N) : bytes := kind_s k ++ [c_sp] ++ dec n ++ [c_nul].
Definition payload (k : kind) (d : bytes) : bytes := header k (lenN d) ++ d.

(* the id Goit (and Git) assigns *)
Definition obj_id (k : kind) (d : bytes) : bytes := sha1 (payload k d).

(* fmt.Sscanf(s, "%d", &n) as readHeader uses it: leading blanks skipped (a
   newline is an error), optional sign, at least one digit, the rest ignored;
   values outside int64 are errors *)
Definition is_blank (c : byte) : bool :=
  let n := bN c in N.eqb n 32 || N.eqb n 9 || N.eqb n 11 || N.eqb n 12 || N.eqb n 13.
Fixpoint skip_blanks (s : bytes) : bytes :=
  match s with
  | c :: r => if is_blank c then skip_blanks r else s
  | [] => []
  end.
Definition sscanf_d (s : bytes) : option Z :=
  let s1 := skip_blanks s in
  let '(neg, s2) :=
    match s1 with
    | c :: r => if beqb c x2d then (true, r) else if beqb c x2b then (false, r) else (false, s1)
    | [] => (false, s1)
    end in
  let '(ds, _) := span_digits s2 in
  match ds with
  | [] => None
  | _ =>
      let v := Z.of_N (digits_val ds) in
      if neg then (if Z.leb v 9223372036854775808 then Some (- v)%Z else None)
      else (if Z.leb v 9223372036854775807 then Some v else None)
  end.

(* GetObject's decoding of an inflated file: header up to the first NUL (or,
   without one, up to the last byte but one), "<kind> <size>", and the rest
   must have exactly <size> bytes *)
Definition parse_payload (p : bytes) : option (kind * bytes) :=
  let '(hdr0, rest) := split1 c_nul p in
  (* ReadNullTerminatedString reads byte by byte and stops at io.EOF BEFORE
     keeping the byte delivered with it: the zlib reader hands over the last
     byte of the stream together with io.EOF, so a header that runs to the
     end of the file loses its final byte *)
  let hdr := match rest with Some _ => hdr0 | None => removelast hdr0 end in
  let data := match rest with Some d => d | None => [] end in
  match split1 c_sp hdr with
  | (ty, Some sz) =>
      match kind_of_s ty, sscanf_d sz with
      | Some k, Some n => if Z.eqb n (Z.of_nat (length data)) then Some (k, data) else None
      | _, _ => None
      end
  | (_, None) => None
  end.

(* ---------- the store ---------- *)
Definition store := list (bytes * bytes).           (* id |-> inflated file *)

Fixpoint st_lookup (st : store) (id : bytes) : option bytes :=
  match st with
  | [] => None
  | (k, v) :: r => if bytes_eqb k id then Some v else st_lookup r id
  end.

Fixpoint st_set (st : store) (id v : bytes) : store :=
  match st with
  | [] => [(id, v)]
  | (k, v0) :: r => if bytes_eqb k id then (k, v) :: r else (k, v0) :: st_set r id v
  end.

(* Object.Write: (re)create objects/<id> with the payload.  [collides] is the
   situation no theorem covers: a different payload already under that id. *)
Definition st_collides (st : store) (id v : bytes) : bool :=
  match st_lookup st id with
  | Some v0 => negb (bytes_eqb v0 v)
  | None => false
  end.

(* GetObject (after the checksum repair): the file must decode and its
   SHA-1 must be the id it was asked for *)
Definition get_obj (st : store) (id : bytes) : option (kind * bytes) :=
  match st_lookup st id with
  | None => None
  | Some p =>
      match parse_payload p with
      | Some kd => if bytes_eqb (sha1 p) id then Some kd else None
      | None => None
      end
  end.

Definition get_kind (st : store) (k : kind) (id : bytes) : option bytes :=
  match get_obj st id with
  | Some (k', d) => if kind_eqb k k' then Some d else None
  | None => None
  end.

(* sha.ReadHash: the text contains 40 consecutive lower-case hex digits
   somewhere (unanchored [0-9a-f]{40}) and the whole text decodes as hex *)
Fixpoint has_hex_run (need : nat) (cur : nat) (s : bytes) : bool :=
  match s with
  | [] => false
  | c :: r =>
      if is_lower_hex c then
        (if Nat.eqb (S cur) need then true else has_hex_run need (S cur) r)
      else has_hex_run need 0 r
  end.
Definition read_hash (s : bytes) : option bytes :=
  if has_hex_run 40 0 s then unhex s else None.
