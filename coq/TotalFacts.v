(* TotalFacts.v — property C18 "no command crashes", model half.

   1. [no_panic]: no command value and no world makes the model answer
      [OPanic]; proved compositionally ([nopanic], in the style of [traced]).
      The monad's [panic] occurs in no procedure of Repo.v.
   2. a command refused for invalid arguments has written nothing:
      [refused_unchanged_generic] and one theorem per refusal (the stated
      condition implies outcome [OErr], trace [[]], world unchanged).
   3. the hand-written loops, as modelled, do not run out of fuel
      (binary search of the index: proved here for ANY list; tree writer,
      history walk, tree lookup: restated from the fact libraries).

   Needs BranchFacts.vo (evaluation equations [ev_*], [ctx_of], [run_cmd_eq],
   [step_loaded], the argument-shape lemmas of branch/switch/update-ref). *)
From Coq Require Import Strings.String Strings.Byte.
From Coq Require Import List Bool NArith ZArith Arith Lia.
From Goit Require Import Bytes Sha1 Obj Refs Tree Index Regex GoRegex Commit Reflog Config Ignore World Repo.
From Goit Require Import BytesFacts ObjFacts IndexFacts TreeFacts DiffFacts LogFacts MonadFacts BranchFacts.
Import ListNotations.

(* ================================================================== *)
(** * 1. No panicking site *)

Definition nopanic {A} (m : M A) : Prop := forall s, fst (m s) <> Panic.

Lemma nopanic_ret : forall A (a : A), nopanic (ret a).
Proof. intros A a s. discriminate. Qed.
Lemma nopanic_fail : forall A, nopanic (@fail A).
Proof. intros A s. discriminate. Qed.
Lemma nopanic_getw : nopanic getw.
Proof. intros s. discriminate. Qed.
Lemma nopanic_emit : forall e, nopanic (emit e).
Proof. intros e s. unfold emit. destruct (ms_fault s) as [[|k]|]; discriminate. Qed.
Lemma nopanic_bind : forall A B (m : M A) (f : A -> M B),
  nopanic m -> (forall a, nopanic (f a)) -> nopanic (bind m f).
Proof.
  intros A B m f Hm Hf s. unfold bind. pose proof (Hm s) as Hms.
  destruct (m s) as [[a| |] s1]; cbn [fst] in Hms.
  - apply Hf.
  - discriminate.
  - contradiction Hms. reflexivity.
Qed.
Lemma nopanic_of_opt : forall A (o : option A), nopanic (of_opt o).
Proof. intros A o. destruct o; [apply nopanic_ret | apply nopanic_fail]. Qed.
Lemma nopanic_guard : forall b, nopanic (guard b).
Proof. intros b. destruct b; [apply nopanic_ret | apply nopanic_fail]. Qed.
Lemma nopanic_iterM : forall A (f : A -> M unit) l, (forall x, nopanic (f x)) -> nopanic (iterM f l).
Proof.
  intros A f l Hf. induction l as [|x r IH].
  - apply nopanic_ret.
  - cbn [iterM]. apply nopanic_bind; [apply Hf | intros _; exact IH].
Qed.

(* [panic] itself is of course not [nopanic]: there is deliberately no rule
   for it, so the tactic below fails on any procedure that mentions it *)
Lemma panic_panics : forall A s, fst (@panic A s) = Panic.
Proof. reflexivity. Qed.

Create HintDb nplaws discriminated.

Ltac npstep :=
  first
  [ assumption
  | lazymatch goal with
    | |- nopanic (bind _ _) => apply nopanic_bind; [ | intro ]
    | |- nopanic (ret _) => apply nopanic_ret
    | |- nopanic fail => apply nopanic_fail
    | |- nopanic getw => apply nopanic_getw
    | |- nopanic (emit _) => apply nopanic_emit
    | |- nopanic (of_opt _) => apply nopanic_of_opt
    | |- nopanic (guard _) => apply nopanic_guard
    | |- nopanic (iterM _ _) => apply nopanic_iterM; intro
    | |- nopanic (let _ := _ in _) => cbv zeta
    | |- nopanic (match ?x with _ => _ end) => destruct x; cbv beta iota
    | |- nopanic ((fix f (l : list _) {struct l} : M _ := _) ?args) =>
        induction args; cbv beta iota
    end
  | solve [ auto with nplaws nocore ] ].
Ltac nopanic_tac := repeat npstep.

(* one lemma per procedure of Repo.v *)
Lemma load_ctx_nopanic : nopanic load_ctx.
Proof. unfold load_ctx. nopanic_tac. Qed.
#[export] Hint Resolve load_ctx_nopanic : nplaws.
Lemma the_index_nopanic : nopanic the_index.
Proof. unfold the_index. nopanic_tac. Qed.
#[export] Hint Resolve the_index_nopanic : nplaws.
Lemma put_obj_nopanic : forall k d, nopanic (put_obj k d).
Proof. intros k d. unfold put_obj. nopanic_tac. Qed.
#[export] Hint Resolve put_obj_nopanic : nplaws.
Lemma wt_put_nopanic : forall p data, nopanic (wt_put p data).
Proof. intros p data. unfold wt_put. nopanic_tac. Qed.
#[export] Hint Resolve wt_put_nopanic : nplaws.
Lemma head_tree_nodes_nopanic : forall c, nopanic (head_tree_nodes c).
Proof. intros c. unfold head_tree_nodes. nopanic_tac. Qed.
#[export] Hint Resolve head_tree_nodes_nopanic : nplaws.
Lemma cmd_init_nopanic : nopanic cmd_init.
Proof. unfold cmd_init. nopanic_tac. Qed.
#[export] Hint Resolve cmd_init_nopanic : nplaws.
Lemma cmd_config_nopanic : forall c global args, nopanic (cmd_config c global args).
Proof. intros c global args. unfold cmd_config. nopanic_tac. Qed.
#[export] Hint Resolve cmd_config_nopanic : nplaws.
Lemma add_file_nopanic : forall p, nopanic (add_file p).
Proof. intros p. unfold add_file. nopanic_tac. Qed.
#[export] Hint Resolve add_file_nopanic : nplaws.
Lemma cmd_add_nopanic : forall c args, nopanic (cmd_add c args).
Proof. intros c args. unfold cmd_add. nopanic_tac. Qed.
#[export] Hint Resolve cmd_add_nopanic : nplaws.
Lemma rm_one_nopanic : forall p, nopanic (rm_one p).
Proof. intros p. unfold rm_one. nopanic_tac. Qed.
#[export] Hint Resolve rm_one_nopanic : nplaws.
Lemma cmd_rm_nopanic : forall args, nopanic (cmd_rm args).
Proof. intros args. unfold cmd_rm. nopanic_tac. Qed.
#[export] Hint Resolve cmd_rm_nopanic : nplaws.
Lemma do_commit_nopanic : forall e c msg, nopanic (do_commit e c msg).
Proof. intros e c msg. unfold do_commit. nopanic_tac. Qed.
#[export] Hint Resolve do_commit_nopanic : nplaws.
Lemma cmd_commit_nopanic : forall e c msg, nopanic (cmd_commit e c msg).
Proof. intros e c msg. unfold cmd_commit. nopanic_tac. Qed.
#[export] Hint Resolve cmd_commit_nopanic : nplaws.
Lemma cmd_status_nopanic : forall c, nopanic (cmd_status c).
Proof. intros c. unfold cmd_status. nopanic_tac. Qed.
#[export] Hint Resolve cmd_status_nopanic : nplaws.
Lemma cmd_branch_nopanic : forall e c args lst rename delete, nopanic (cmd_branch e c args lst rename delete).
Proof. intros e c args lst rename delete. unfold cmd_branch. nopanic_tac. Qed.
#[export] Hint Resolve cmd_branch_nopanic : nplaws.
Lemma head_update_nopanic : forall name, nopanic (head_update name).
Proof. intros name. unfold head_update. nopanic_tac. Qed.
#[export] Hint Resolve head_update_nopanic : nplaws.
Lemma cmd_switch_nopanic : forall e c args create, nopanic (cmd_switch e c args create).
Proof. intros e c args create. unfold cmd_switch. nopanic_tac. Qed.
#[export] Hint Resolve cmd_switch_nopanic : nplaws.
Lemma cmd_reset_nopanic : forall e c soft mixed hard args, nopanic (cmd_reset e c soft mixed hard args).
Proof. intros e c soft mixed hard args. unfold cmd_reset. nopanic_tac. Qed.
#[export] Hint Resolve cmd_reset_nopanic : nplaws.
Lemma restore_wd_nopanic : forall p, nopanic (restore_wd p).
Proof. intros p. unfold restore_wd. nopanic_tac. Qed.
#[export] Hint Resolve restore_wd_nopanic : nplaws.
Lemma restore_index_nopanic : forall ns p, nopanic (restore_index ns p).
Proof. intros ns p. unfold restore_index. nopanic_tac. Qed.
#[export] Hint Resolve restore_index_nopanic : nplaws.
Lemma cmd_restore_nopanic : forall c staged args, nopanic (cmd_restore c staged args).
Proof. intros c staged args. unfold cmd_restore. nopanic_tac. Qed.
#[export] Hint Resolve cmd_restore_nopanic : nplaws.
Lemma cmd_update_ref_nopanic : forall args, nopanic (cmd_update_ref args).
Proof. intros args. unfold cmd_update_ref. nopanic_tac. Qed.
#[export] Hint Resolve cmd_update_ref_nopanic : nplaws.
Lemma cmd_log_nopanic : forall c n, nopanic (cmd_log c n).
Proof. intros c n. unfold cmd_log. nopanic_tac. Qed.
#[export] Hint Resolve cmd_log_nopanic : nplaws.
Lemma cmd_reflog_nopanic : nopanic cmd_reflog.
Proof. unfold cmd_reflog. nopanic_tac. Qed.
#[export] Hint Resolve cmd_reflog_nopanic : nplaws.
Lemma cmd_cat_file_nopanic : forall t p args, nopanic (cmd_cat_file t p args).
Proof. intros t p args. unfold cmd_cat_file. nopanic_tac. Qed.
#[export] Hint Resolve cmd_cat_file_nopanic : nplaws.
Lemma cmd_hash_object_nopanic : forall args, nopanic (cmd_hash_object args).
Proof. intros args. unfold cmd_hash_object. nopanic_tac. Qed.
#[export] Hint Resolve cmd_hash_object_nopanic : nplaws.
Lemma cmd_ls_files_nopanic : forall s, nopanic (cmd_ls_files s).
Proof. intros s. unfold cmd_ls_files. nopanic_tac. Qed.
#[export] Hint Resolve cmd_ls_files_nopanic : nplaws.
Lemma cmd_rev_parse_nopanic : forall args, nopanic (cmd_rev_parse args).
Proof. intros args. unfold cmd_rev_parse. nopanic_tac. Qed.
#[export] Hint Resolve cmd_rev_parse_nopanic : nplaws.
Lemma cmd_write_tree_nopanic : nopanic cmd_write_tree.
Proof. unfold cmd_write_tree. nopanic_tac. Qed.
#[export] Hint Resolve cmd_write_tree_nopanic : nplaws.

Theorem run_cmd_nopanic : forall e c, nopanic (run_cmd e c).
Proof. intros e c. unfold run_cmd. nopanic_tac. Qed.

(* for every action, every world (reachable or not), with or without an
   injected write failure *)
Theorem no_panic : forall a w, snd (fst (step a w)) <> OPanic.
Proof.
  intros [e c|u] w.
  - rewrite step_cmd_eq. cbn [fst snd].
    pose proof (run_cmd_nopanic e c (mkMS w [] None)) as Hnp.
    destruct (fst (run_cmd e c (mkMS w [] None))); [discriminate | discriminate | contradiction Hnp; reflexivity].
  - cbn [step fst snd]. discriminate.
Qed.

Theorem no_panic_fault : forall e c w k, fst (run_cmd e c (mkMS w [] (Some k))) <> Panic.
Proof. intros e c w k. apply run_cmd_nopanic. Qed.

Corollary no_panic_run : forall h a, snd (fst (step a (run h w_empty))) <> OPanic.
Proof. intros h a. apply no_panic. Qed.

(* ================================================================== *)
(** * 2. A refused command has written nothing *)

Theorem refused_unchanged_generic : forall a w w' tr,
  step a w = (w', OErr, tr) -> tr = [] -> w' = w.
Proof.
  intros a w w' tr Hstep Htr. pose proof (step_trace a w w' OErr tr Hstep) as Hw.
  destruct a as [e c|u].
  - subst tr. exact Hw.
  - cbn [step] in Hstep. inversion Hstep.
Qed.

(* ---------- loading ---------- *)
(* [load_ctx] only reads: whatever it answers, the state is the one it got *)
Lemma load_ctx_pure : forall s, snd (load_ctx s) = s.
Proof. intro s. rewrite load_ctx_eq. reflexivity. Qed.

Definition loaded (w : world) (x : ctx) : Prop :=
  load_ctx (mkMS w [] None) = (Ok x, mkMS w [] None).

Lemma loaded_ctx_of : forall w x, loaded w x <-> ctx_of w = Some x.
Proof.
  intros w x. unfold loaded. rewrite load_ctx_eq. cbn [ms_w]. split.
  - intro H. destruct (ctx_of w); [injection H as ->; reflexivity | discriminate H].
  - intros ->. reflexivity.
Qed.

(* how every refusal below reaches [step] *)
Lemma step_refused : forall e c w x,
  c <> CInit -> w_inited w = true -> loaded w x ->
  dispatch e c x (mkMS w [] None) = (Err, mkMS w [] None) ->
  step (ACmd e c) w = (w, OErr, []).
Proof.
  intros e c w x Hc Hi Hx Hd. apply loaded_ctx_of in Hx.
  rewrite (step_loaded e c w x Hc Hi Hx), Hd. reflexivity.
Qed.

(* ---------- not initialised / initialised twice / nothing loads ---------- *)
Theorem not_inited_refused : forall e c w,
  c <> CInit -> w_inited w = false -> step (ACmd e c) w = (w, OErr, []).
Proof. intros e c w Hc Hi. apply step_not_loaded; auto. Qed.

Theorem init_twice_refused : forall e w,
  w_inited w = true -> step (ACmd e CInit) w = (w, OErr, []).
Proof.
  intros e w Hi. rewrite step_cmd_eq, run_cmd_eq. unfold cmd_init.
  rewrite ev_bind_getw, ev_bind_guard. cbn [ms_w]. rewrite Hi. reflexivity.
Qed.

Theorem load_failure_refused : forall e c w,
  c <> CInit -> fst (load_ctx (mkMS w [] None)) = Err -> step (ACmd e c) w = (w, OErr, []).
Proof.
  intros e c w Hc Hl. apply step_not_loaded; [exact Hc|]. right.
  rewrite load_ctx_eq in Hl. cbn [ms_w fst] in Hl. destruct (ctx_of w); [discriminate Hl | reflexivity].
Qed.

(* ---------- add ---------- *)
Lemma forallb_false_ex : forall A (f : A -> bool) l a, In a l -> f a = false -> forallb f l = false.
Proof.
  intros A f l a Hin Hf. destruct (forallb f l) eqn:E; [|reflexivity].
  rewrite forallb_forall in E. rewrite (E a Hin) in Hf. discriminate Hf.
Qed.

Lemma cmd_add_nil : forall c s, cmd_add c [] s = (Err, s).
Proof. reflexivity. Qed.

Lemma cmd_add_missing : forall c args s a,
  In a args -> exists_on_disk (ms_w s) a = false -> tracked (ms_w s) a = false ->
  is_dir (idx_of (ms_w s)) a = false ->
  cmd_add c args s = (Err, s).
Proof.
  intros c args s a Hin Hd Ht Hdir. unfold cmd_add.
  destruct args as [|a0 r]; [reflexivity|]. cbn [is_nil negb]. ev.
  rewrite (forallb_false_ex _ _ _ a Hin); [reflexivity|]. rewrite Hd, Ht, Hdir. reflexivity.
Qed.

Theorem add_nothing_refused : forall e w x,
  w_inited w = true -> loaded w x -> step (ACmd e (CAdd [])) w = (w, OErr, []).
Proof. intros e w x Hi Hx. apply (step_refused e _ w x); try assumption; [discriminate | reflexivity]. Qed.

Theorem add_missing_refused : forall e w x args a,
  w_inited w = true -> loaded w x ->
  In a args -> exists_on_disk w a = false -> tracked w a = false -> is_dir (idx_of w) a = false ->
  step (ACmd e (CAdd args)) w = (w, OErr, []).
Proof.
  intros e w x args a Hi Hx Hin Hd Ht Hdir. apply (step_refused e _ w x); try assumption; [discriminate|].
  cbn [dispatch]. apply (cmd_add_missing x args _ a); assumption.
Qed.

(* ---------- rm ---------- *)
Lemma cmd_rm_unknown : forall args s a,
  In a args -> tracked (ms_w s) a = false -> is_dir (idx_of (ms_w s)) a = false ->
  cmd_rm args s = (Err, s).
Proof.
  intros args s a Hin Ht Hd. unfold cmd_rm. ev.
  rewrite (forallb_false_ex _ _ _ a Hin); [reflexivity|]. rewrite Ht, Hd. reflexivity.
Qed.

Theorem rm_unknown_refused : forall e w x args a,
  w_inited w = true -> loaded w x ->
  In a args -> tracked w a = false -> is_dir (idx_of w) a = false ->
  step (ACmd e (CRm args)) w = (w, OErr, []).
Proof.
  intros e w x args a Hi Hx Hin Ht Hd. apply (step_refused e _ w x); try assumption; [discriminate|].
  cbn [dispatch]. apply (cmd_rm_unknown args _ a); assumption.
Qed.

(* ---------- restore ---------- *)
Lemma cmd_restore_nil : forall c st s, cmd_restore c st [] s = (Err, s).
Proof. reflexivity. Qed.

Lemma cmd_restore_nothing : forall c args s a,
  In a args -> restore_targets (ms_w s) false [] a = [] ->
  cmd_restore c false args s = (Err, s).
Proof.
  intros c args s a Hin Hn. unfold cmd_restore.
  destruct args as [|a0 r]; [reflexivity|]. cbn [is_nil negb]. ev.
  rewrite (forallb_false_ex _ _ _ (restore_targets (ms_w s) false [] a)); [reflexivity | | rewrite Hn; reflexivity].
  apply in_map. exact Hin.
Qed.

Theorem restore_nothing_refused : forall e w x st,
  w_inited w = true -> loaded w x -> step (ACmd e (CRestore st [])) w = (w, OErr, []).
Proof. intros e w x st Hi Hx. apply (step_refused e _ w x); try assumption; [discriminate | reflexivity]. Qed.

Theorem restore_unknown_refused : forall e w x args a,
  w_inited w = true -> loaded w x ->
  In a args -> restore_targets w false [] a = [] ->
  step (ACmd e (CRestore false args)) w = (w, OErr, []).
Proof.
  intros e w x args a Hi Hx Hin Hn. apply (step_refused e _ w x); try assumption; [discriminate|].
  cbn [dispatch]. apply (cmd_restore_nothing x args _ a); assumption.
Qed.

(* ---------- reset ---------- *)
Definition reset_flags_ok (soft mixed hard : bool) : bool :=
  (soft && negb (if soft || hard then false else mixed) && negb hard)
  || (negb soft && (if soft || hard then false else mixed) && negb hard)
  || (negb soft && negb (if soft || hard then false else mixed) && hard).

(* exactly one of --soft / --hard, or neither together with --mixed *)
Lemma reset_flags_ok_spec : forall soft mixed hard,
  reset_flags_ok soft mixed hard = (xorb soft hard || (negb soft && negb hard && mixed)).
Proof. intros [] [] []; reflexivity. Qed.

(* the journal record the argument "HEAD@{n}" denotes, when every check passes *)
Definition reset_target (w : world) (args : list bytes) : option (bytes * bytes) :=
  match args with
  | [a] =>
      match reset_arg a with
      | Some n =>
          if N.leb n 9223372036854775807 then
            match w_hlog w with
            | Some hl =>
                match parse_reflog hl with
                | Some rs =>
                    match get_record rs (N.to_nat (N.min n (N.of_nat (length rs)))) with
                    | Some r => match r_id r with Some tid => Some (a, tid) | None => None end
                    | None => None
                    end
                | None => None
                end
            | None => None
            end
          else None
      | None => None
      end
  | _ => None
  end.

Lemma cmd_reset_refused : forall e c soft mixed hard args s,
  reset_flags_ok soft mixed hard = false \/ reset_target (ms_w s) args = None ->
  cmd_reset e c soft mixed hard args s = (Err, s).
Proof.
  intros e c soft mixed hard args s H. unfold cmd_reset. cbv zeta. rewrite ev_bind_guard.
  unfold reset_flags_ok in H.
  destruct H as [H|H]; [rewrite H; reflexivity|].
  match goal with |- (if ?b then _ else _) = _ => destruct b end; [|reflexivity].
  unfold reset_target in H.
  destruct args as [|a [|b r]]; try reflexivity.
  rewrite ev_bind_of_opt. destruct (reset_arg a) as [n|]; [|reflexivity].
  rewrite ev_bind_guard. destruct (N.leb n 9223372036854775807); [|reflexivity].
  rewrite ev_bind_getw, ev_bind_of_opt. destruct (w_hlog (ms_w s)) as [hl|]; [|reflexivity].
  rewrite ev_bind_of_opt. destruct (parse_reflog hl) as [rs|]; [|reflexivity].
  rewrite ev_bind_of_opt.
  destruct (get_record rs (N.to_nat (N.min n (N.of_nat (length rs))))) as [rc|]; [|reflexivity].
  rewrite ev_bind_of_opt. destruct (r_id rc); [discriminate H | reflexivity].
Qed.

Lemma reset_target_arity : forall w args, (forall a, args <> [a]) -> reset_target w args = None.
Proof.
  intros w args H. destruct args as [|a [|b r]]; try reflexivity. contradiction (H a). reflexivity.
Qed.
Lemma reset_target_bad_arg : forall w a, reset_arg a = None -> reset_target w [a] = None.
Proof. intros w a H. unfold reset_target. rewrite H. reflexivity. Qed.
Lemma reset_target_no_journal : forall w a, w_hlog w = None -> reset_target w [a] = None.
Proof.
  intros w a H. unfold reset_target. rewrite H.
  destruct (reset_arg a) as [n|]; [destruct (N.leb n 9223372036854775807)|]; reflexivity.
Qed.
Lemma reset_target_beyond : forall w a n hl rs,
  reset_arg a = Some n -> w_hlog w = Some hl -> parse_reflog hl = Some rs ->
  (N.of_nat (length rs) <= n)%N -> reset_target w [a] = None.
Proof.
  intros w a n hl rs Ha Hh Hp Hn. unfold reset_target. rewrite Ha, Hh, Hp.
  destruct (N.leb n 9223372036854775807); [|reflexivity].
  unfold get_record. rewrite N.min_r by exact Hn. rewrite Nat2N.id, Nat.leb_refl. reflexivity.
Qed.
Lemma reset_target_zero_id : forall w a n hl rs r,
  reset_arg a = Some n -> w_hlog w = Some hl -> parse_reflog hl = Some rs ->
  get_record rs (N.to_nat (N.min n (N.of_nat (length rs)))) = Some r -> r_id r = None ->
  reset_target w [a] = None.
Proof.
  intros w a n hl rs r Ha Hh Hp Hg Hr. unfold reset_target. rewrite Ha, Hh, Hp, Hg, Hr.
  destruct (N.leb n 9223372036854775807); reflexivity.
Qed.

Theorem reset_refused : forall e w x soft mixed hard args,
  w_inited w = true -> loaded w x ->
  reset_flags_ok soft mixed hard = false \/ reset_target w args = None ->
  step (ACmd e (CReset soft mixed hard args)) w = (w, OErr, []).
Proof.
  intros e w x soft mixed hard args Hi Hx H. apply (step_refused e _ w x); try assumption; [discriminate|].
  cbn [dispatch]. apply cmd_reset_refused. exact H.
Qed.

Corollary reset_flags_refused : forall e w x soft mixed hard args,
  w_inited w = true -> loaded w x ->
  (soft = true /\ hard = true) \/ (soft = false /\ hard = false /\ mixed = false) ->
  step (ACmd e (CReset soft mixed hard args)) w = (w, OErr, []).
Proof.
  intros e w x soft mixed hard args Hi Hx H. apply (reset_refused e w x); try assumption. left.
  destruct H as [[-> ->]|(-> & -> & ->)]; [destruct mixed|]; reflexivity.
Qed.

Corollary reset_arity_refused : forall e w x soft mixed hard args,
  w_inited w = true -> loaded w x -> (forall a, args <> [a]) ->
  step (ACmd e (CReset soft mixed hard args)) w = (w, OErr, []).
Proof.
  intros e w x soft mixed hard args Hi Hx H. apply (reset_refused e w x); try assumption.
  right. apply reset_target_arity. exact H.
Qed.

Corollary reset_bad_arg_refused : forall e w x soft mixed hard a,
  w_inited w = true -> loaded w x -> reset_arg a = None ->
  step (ACmd e (CReset soft mixed hard [a])) w = (w, OErr, []).
Proof.
  intros e w x soft mixed hard a Hi Hx H. apply (reset_refused e w x); try assumption.
  right. apply reset_target_bad_arg. exact H.
Qed.

Corollary reset_beyond_refused : forall e w x soft mixed hard a n hl rs,
  w_inited w = true -> loaded w x ->
  reset_arg a = Some n -> w_hlog w = Some hl -> parse_reflog hl = Some rs ->
  (N.of_nat (length rs) <= n)%N ->
  step (ACmd e (CReset soft mixed hard [a])) w = (w, OErr, []).
Proof.
  intros e w x soft mixed hard a n hl rs Hi Hx Ha Hh Hp Hn. apply (reset_refused e w x); try assumption.
  right. apply (reset_target_beyond w a n hl rs); assumption.
Qed.

Corollary reset_zero_id_refused : forall e w x soft mixed hard a n hl rs r,
  w_inited w = true -> loaded w x ->
  reset_arg a = Some n -> w_hlog w = Some hl -> parse_reflog hl = Some rs ->
  get_record rs (N.to_nat (N.min n (N.of_nat (length rs)))) = Some r -> r_id r = None ->
  step (ACmd e (CReset soft mixed hard [a])) w = (w, OErr, []).
Proof.
  intros e w x soft mixed hard a n hl rs r Hi Hx Ha Hh Hp Hg Hr. apply (reset_refused e w x); try assumption.
  right. apply (reset_target_zero_id w a n hl rs r); assumption.
Qed.

(* ---------- config ---------- *)
Lemma cmd_config_arity : forall c g args s,
  (forall k v, args <> [k; v]) -> cmd_config c g args s = (Err, s).
Proof.
  intros c g args s H. destruct args as [|k [|v [|y r]]]; try reflexivity.
  contradiction (H k v). reflexivity.
Qed.

Lemma cmd_config_bad_key : forall c g key value s,
  (forall sec k, split_all x2e key <> [sec; k]) -> cmd_config c g [key; value] s = (Err, s).
Proof.
  intros c g key value s H. unfold cmd_config.
  destruct (split_all x2e key) as [|sec [|k [|y r]]]; try reflexivity.
  contradiction (H sec k). reflexivity.
Qed.

(* strings.Split gives one piece more than there are separators *)
Definition count_byte (c : byte) (s : bytes) : nat := length (filter (fun x => beqb x c) s).

Lemma split_all_length : forall sep s, length (split_all sep s) = S (count_byte sep s).
Proof.
  intros sep s. unfold count_byte. induction s as [|c r IH]; cbn [split_all filter].
  - reflexivity.
  - destruct (beqb c sep).
    + cbn [length]. rewrite IH. reflexivity.
    + destruct (split_all sep r) as [|h t]; cbn [length] in IH |- *; [discriminate IH | exact IH].
Qed.

Lemma config_key_dots : forall key,
  count_byte x2e key <> 1 -> forall sec k, split_all x2e key <> [sec; k].
Proof.
  intros key Hc sec k Heq. apply (f_equal (@length bytes)) in Heq.
  rewrite split_all_length in Heq. cbn [length] in Heq. apply Hc. lia.
Qed.

Theorem config_arity_refused : forall e w x g args,
  w_inited w = true -> loaded w x -> (forall k v, args <> [k; v]) ->
  step (ACmd e (CConfig g args)) w = (w, OErr, []).
Proof.
  intros e w x g args Hi Hx H. apply (step_refused e _ w x); try assumption; [discriminate|].
  cbn [dispatch]. apply cmd_config_arity. exact H.
Qed.

Theorem config_key_refused : forall e w x g key value,
  w_inited w = true -> loaded w x -> count_byte x2e key <> 1 ->
  step (ACmd e (CConfig g [key; value])) w = (w, OErr, []).
Proof.
  intros e w x g key value Hi Hx H. apply (step_refused e _ w x); try assumption; [discriminate|].
  cbn [dispatch]. apply cmd_config_bad_key. apply config_key_dots. exact H.
Qed.

(* ---------- cat-file ---------- *)
Lemma cmd_cat_file_arity : forall t p args s,
  (forall a, args <> [a]) -> cmd_cat_file t p args s = (Err, s).
Proof.
  intros t p args s H. destruct args as [|a [|b r]]; try reflexivity. contradiction (H a). reflexivity.
Qed.

Lemma cmd_cat_file_bad : forall t p a s,
  t && p = true \/ read_hash a = None \/
  (exists id, read_hash a = Some id /\ get_obj (w_objs (ms_w s)) id = None) ->
  cmd_cat_file t p [a] s = (Err, s).
Proof.
  intros t p a s H. unfold cmd_cat_file. ev.
  destruct (t && p) eqn:Etp; cbn [negb]; [reflexivity|].
  destruct H as [H|[H|(id & Hr & Hg)]]; [discriminate H | rewrite H; reflexivity|].
  rewrite Hr. ev. rewrite Hg. reflexivity.
Qed.

Theorem cat_file_arity_refused : forall e w x t p args,
  w_inited w = true -> loaded w x -> (forall a, args <> [a]) ->
  step (ACmd e (CCatFile t p args)) w = (w, OErr, []).
Proof.
  intros e w x t p args Hi Hx H. apply (step_refused e _ w x); try assumption; [discriminate|].
  cbn [dispatch]. apply cmd_cat_file_arity. exact H.
Qed.

Theorem cat_file_bad_refused : forall e w x t p a,
  w_inited w = true -> loaded w x ->
  t && p = true \/ read_hash a = None \/
  (exists id, read_hash a = Some id /\ get_obj (w_objs w) id = None) ->
  step (ACmd e (CCatFile t p [a])) w = (w, OErr, []).
Proof.
  intros e w x t p a Hi Hx H. apply (step_refused e _ w x); try assumption; [discriminate|].
  cbn [dispatch]. apply cmd_cat_file_bad. exact H.
Qed.

(* ---------- update-ref ---------- *)
Theorem update_ref_arity_refused : forall e w x args,
  w_inited w = true -> loaded w x -> (forall r h, args <> [r; h]) ->
  step (ACmd e (CUpdateRef args)) w = (w, OErr, []).
Proof.
  intros e w x args Hi Hx H. apply (step_refused e _ w x); try assumption; [discriminate|].
  cbn [dispatch]. apply cmd_update_ref_arity. exact H.
Qed.

(* wrong pattern, wrong length, a non-hex digit, an id that is not a stored
   commit, an unknown branch: [update_ref_target] is [None] *)
Theorem update_ref_format_refused : forall e w x r h,
  w_inited w = true -> loaded w x -> update_ref_target w r h = None ->
  step (ACmd e (CUpdateRef [r; h])) w = (w, OErr, []).
Proof.
  intros e w x r h Hi Hx H. apply (step_refused e _ w x); try assumption; [discriminate|].
  cbn [dispatch]. rewrite cmd_update_ref_eq, H. reflexivity.
Qed.

Lemma update_ref_target_none : forall w r h,
  re_search re_branchRegexp r = false \/ length h <> 40 \/ forallb is_lower_hex h = false \/
  (forall id, unhex h = Some id -> get_commit (w_objs w) id = None) \/
  am_mem (w_refs w) (ref_leaf r) = false ->
  update_ref_target w r h = None.
Proof.
  intros w r h H. unfold update_ref_target.
  destruct (re_search re_branchRegexp r) eqn:E1; cbn [andb]; [|reflexivity].
  destruct (Nat.eqb (length h) 40) eqn:E2; cbn [andb]; [|reflexivity].
  destruct (forallb is_lower_hex h) eqn:E3; [|reflexivity].
  destruct (unhex h) as [id|] eqn:E4; [|reflexivity].
  destruct (get_commit (w_objs w) id) eqn:E5; [|reflexivity].
  destruct (am_mem (w_refs w) (ref_leaf r)) eqn:E6; [|reflexivity].
  apply Nat.eqb_eq in E2.
  destruct H as [H|[H|[H|[H|H]]]]; try discriminate H; try contradiction.
  rewrite (H id eq_refl) in E5. discriminate E5.
Qed.

(* ---------- switch: flag combinations ---------- *)
Theorem switch_flags_refused : forall e w x args create,
  w_inited w = true -> loaded w x ->
  2 <= length args \/ (args = [] /\ create = []) \/ (args <> [] /\ create <> []) ->
  step (ACmd e (CSwitch args create)) w = (w, OErr, []).
Proof.
  intros e w x args create Hi Hx H. apply (step_refused e _ w x); try assumption; [discriminate|].
  cbn [dispatch].
  destruct (cmd_switch_shapes e x args create (mkMS w [] None)) as [(a & -> & ->) | [(-> & Hn) | Herr]];
    [| | exact Herr].
  - destruct H as [H|[[H _]|[_ H]]]; [cbn [length] in H; lia | discriminate H | contradiction H; reflexivity].
  - destruct H as [H|[[_ H]|[H _]]]; [cbn [length] in H; lia | subst create; discriminate Hn | contradiction H; reflexivity].
Qed.

(* ---------- branch: parameter combinations ---------- *)
Definition branch_params_ok (args : list bytes) (lst : bool) (rn dl : bytes) : bool :=
  (Nat.eqb (length args) 1 && negb lst && is_nil rn && is_nil dl)
  || (is_nil args && lst && is_nil rn && is_nil dl)
  || (is_nil args && negb lst && negb (is_nil rn) && is_nil dl)
  || (is_nil args && negb lst && is_nil rn && negb (is_nil dl)).

Lemma cmd_branch_params : forall e c args lst rn dl s,
  branch_params_ok args lst rn dl = false -> cmd_branch e c args lst rn dl s = (Err, s).
Proof.
  intros e c args lst rn dl s H. unfold cmd_branch. cbv zeta. rewrite ev_bind_guard.
  unfold branch_params_ok in H. rewrite H. reflexivity.
Qed.

Theorem branch_params_refused : forall e w x args lst rn dl,
  w_inited w = true -> loaded w x -> branch_params_ok args lst rn dl = false ->
  step (ACmd e (CBranch args lst rn dl)) w = (w, OErr, []).
Proof.
  intros e w x args lst rn dl Hi Hx H. apply (step_refused e _ w x); try assumption; [discriminate|].
  cbn [dispatch]. apply cmd_branch_params. exact H.
Qed.

(* e.g. two names, a name together with --list, --rename together with --delete, nothing at all *)
Example branch_params_examples : forall a b r d,
  branch_params_ok [a; b] false [] [] = false /\
  branch_params_ok [a] true [] [] = false /\
  branch_params_ok [] false (x61 :: r) (x62 :: d) = false /\
  branch_params_ok [a] false (x61 :: r) [] = false /\
  branch_params_ok [] false [] [] = false.
Proof. intros a b r d. repeat split; reflexivity. Qed.

(* ---------- commit without identity ---------- *)
Lemma cmd_commit_no_identity : forall e c msg s,
  user_set (x_l c) (x_g c) = false -> cmd_commit e c msg s = (Err, s).
Proof. intros e c msg s H. unfold cmd_commit. rewrite ev_bind_guard, H. reflexivity. Qed.

Theorem commit_no_identity_refused : forall e w x msg,
  w_inited w = true -> loaded w x -> user_set (x_l x) (x_g x) = false ->
  step (ACmd e (CCommit msg)) w = (w, OErr, []).
Proof.
  intros e w x msg Hi Hx H. apply (step_refused e _ w x); try assumption; [discriminate|].
  cbn [dispatch]. apply cmd_commit_no_identity. exact H.
Qed.

(* further refusals that come for free *)
Theorem commit_nothing_staged_refused : forall e w x msg,
  w_inited w = true -> loaded w x -> w_refs w = [] -> idx_of w = [] ->
  step (ACmd e (CCommit msg)) w = (w, OErr, []).
Proof.
  intros e w x msg Hi Hx Hr Hidx. apply (step_refused e _ w x); try assumption; [discriminate|].
  cbn [dispatch]. unfold cmd_commit. ev.
  destruct (user_set (x_l x) (x_g x)); [|reflexivity]. ev. rewrite Hr. cbn [is_nil]. ev.
  rewrite Hidx. reflexivity.
Qed.

Theorem log_no_branch_refused : forall e w x n,
  w_inited w = true -> loaded w x -> w_refs w = [] ->
  step (ACmd e (CLog n)) w = (w, OErr, []).
Proof.
  intros e w x n Hi Hx Hr. apply (step_refused e _ w x); try assumption; [discriminate|].
  cbn [dispatch]. unfold cmd_log. ev. rewrite Hr. reflexivity.
Qed.

Theorem reflog_no_journal_refused : forall e w x,
  w_inited w = true -> loaded w x -> w_hlog w = None ->
  step (ACmd e CReflog) w = (w, OErr, []).
Proof.
  intros e w x Hi Hx Hh. apply (step_refused e _ w x); try assumption; [discriminate|].
  cbn [dispatch]. unfold cmd_reflog. ev. rewrite Hh. reflexivity.
Qed.

(* ================================================================== *)
(** * 3. The hand-written loops do not run out of fuel *)

(* ---------- the binary search of the index (Index.GetEntry) ---------- *)
(* On ANY list — sorted or not — the search interval shrinks at every round,
   so the fuel [S (length es)] that [get_entry] passes is never used up:
   more fuel gives the same answer. *)
Lemma bsearch_mid : forall l r, l < r -> l <= Nat.div (l + r) 2 < r.
Proof.
  intros l r Hlt. split.
  - apply Nat.div_le_lower_bound; lia.
  - apply Nat.div_lt_upper_bound; lia.
Qed.

Lemma bsearch_fuel_irrelevant : forall f1 f2 es p l r,
  l < r -> r - l < f1 -> r - l < f2 -> bsearch f1 es p l r = bsearch f2 es p l r.
Proof.
  induction f1 as [|f1 IH]; intros f2 es p l r Hlr H1 H2; [lia|].
  destruct f2 as [|f2]; [lia|]. cbn [bsearch]. cbv zeta.
  destruct (bsearch_mid l r Hlr) as [Hlo Hhi].
  destruct (nth_error es (Nat.div (l + r) 2)) as [e|]; [|reflexivity].
  destruct (bytes_eqb (e_path e) p); [reflexivity|].
  destruct (blt (e_path e) p).
  - destruct (Nat.ltb (S (Nat.div (l + r) 2)) r) eqn:E; [|reflexivity].
    apply Nat.ltb_lt in E. apply IH; lia.
  - destruct (Nat.ltb l (Nat.div (l + r) 2)) eqn:E; [|reflexivity].
    apply Nat.ltb_lt in E. apply IH; lia.
Qed.

Theorem get_entry_fuel : forall es p k,
  es <> [] -> bsearch (S (length es) + k) es p 0 (length es) = get_entry es p.
Proof.
  intros es p k Hne. unfold get_entry. destruct es as [|x r]; [contradiction Hne; reflexivity|].
  apply bsearch_fuel_irrelevant; cbn [length]; lia.
Qed.

(* and on a canonical index it finds exactly the tracked paths (IndexFacts) *)
Theorem get_entry_total : forall (es : list entry) (p : bytes),
  Canonical es ->
  (forall i e, get_entry es p = Some (i, e) -> nth_error es i = Some e /\ e_path e = p) /\
  ((exists e, In e es /\ e_path e = p) -> exists i e, get_entry es p = Some (i, e)).
Proof. exact get_entry_correct. Qed.

(* ---------- the tree writer (write-tree, commit) ---------- *)
Theorem write_tree_total : forall es, exists r, write_tree_top es = Some r.
Proof. exact write_tree_fuel_any. Qed.

Theorem write_tree_total_valid : forall es,
  Forall valid_entry es -> exists r, write_tree_top es = Some r.
Proof. exact write_tree_fuel. Qed.

(* ---------- the history walk of [log] ---------- *)
Theorem walk_history_fuel : forall st tip l k,
  chain st tip l -> NoDup l ->
  walk_history (S (S (2 * length st))) st [tip] [] 0 k = Some (firstn (Z.to_nat k) l).
Proof. exact cmd_log_fuel. Qed.

(* ---------- the tree lookup (Tree.GetNode) ---------- *)
Theorem get_node_fuel : forall its p f,
  Forall wf_item its -> Canonical (flat_items [] its) ->
  In p (paths_of its) -> path_depth p < f ->
  exists x, get_node_fuel f (map node_of its) p = Some x /\ is_leaf x = true /\
            In (mkE (n_id x) p) (flat_items [] its).
Proof. exact get_node_fuel_enough. Qed.

(* ================================================================== *)
Print Assumptions no_panic.
Print Assumptions no_panic_fault.
Print Assumptions run_cmd_nopanic.
Print Assumptions refused_unchanged_generic.
Print Assumptions load_ctx_pure.
Print Assumptions not_inited_refused.
Print Assumptions init_twice_refused.
Print Assumptions load_failure_refused.
Print Assumptions add_nothing_refused.
Print Assumptions add_missing_refused.
Print Assumptions rm_unknown_refused.
Print Assumptions restore_nothing_refused.
Print Assumptions restore_unknown_refused.
Print Assumptions reset_refused.
Print Assumptions reset_flags_refused.
Print Assumptions reset_arity_refused.
Print Assumptions reset_bad_arg_refused.
Print Assumptions reset_beyond_refused.
Print Assumptions reset_zero_id_refused.
Print Assumptions config_arity_refused.
Print Assumptions config_key_refused.
Print Assumptions cat_file_arity_refused.
Print Assumptions cat_file_bad_refused.
Print Assumptions update_ref_arity_refused.
Print Assumptions update_ref_format_refused.
Print Assumptions switch_flags_refused.
Print Assumptions branch_params_refused.
Print Assumptions commit_no_identity_refused.
Print Assumptions commit_nothing_staged_refused.
Print Assumptions get_entry_fuel.
Print Assumptions get_entry_total.
Print Assumptions write_tree_total.
Print Assumptions walk_history_fuel.
Print Assumptions get_node_fuel.
