(* TotalFacts.v — property C18 "no command crashes", model half.

   1. [no_panic]: no command value and no world makes the model answer
      [OPanic]; proved compositionally ([nopanic], in the style of [traced]).
      The monad's [panic] occurs in no procedure of Repo.v.
   2. a command refused for invalid arguments has written nothing:
      [refused_unchanged_generic] and one theorem per refusal (the stated
      condition implies outcome [OErr], trace [[]], world unchanged).
   3. the hand-written loops, as modelled, do not run out of fuel
      (binary search of the index: proved here for ANY list; tree writer,
      history walk, tree lookup: restated from the fact libraries).

   Needs BranchFacts.vo (evaluation equations [ev_*], [ctx_of], [run_cmd_eq],
   [step_loaded], the argument-shape lemmas of branch/switch/update-ref). *)
From Coq Require Import Strings.String Strings.Byte.
From Coq Require Import List Bool NArith ZArith Arith Lia.
From Goit Require Import Bytes Sha1 Obj Refs Tree Index Regex GoRegex Commit Reflog Config Ignore World Repo.
From Goit Require Import BytesFacts ObjFacts IndexFacts TreeFacts DiffFacts LogFacts MonadFacts BranchFacts.
Import ListNotations.

(* ================================================================== *)
(** * 1. No panicking site *)

Definition nopanic {A} (m : M A) : Prop := forall s, fst (m s) <> Panic.

Lemma nopanic_ret : forall A (a : A), nopanic (ret a).
Proof. intros A a s. discriminate. Qed.
Lemma nopanic_fail : forall A, nopanic (@fail A).
Proof. intros A s. discriminate. Qed.
Lemma nopanic_getw : nopanic getw.
Proof. intros s. discriminate. Qed.
Lemma nopanic_emit : forall e, nopanic (emit e).
Proof. intros e s. unfold emit. destruct (ms_fault s) as [[|k]|]; discriminate. Qed.
Lemma nopanic_bind : forall A B (m : M A) (f : A -> M B),
  nopanic m -> (forall a, nopanic (f a)) -> nopanic (bind m f).
Proof.
  intros A B m f Hm Hf s. unfold bind. pose proof (Hm s) as Hms.
  destruct (m s) as [[a| |] s1]; cbn [fst] in Hms.
  - apply Hf.
  - discriminate.
  - contradiction Hms. reflexivity.
Qed.
Lemma nopanic_of_opt : forall A (o : option A), nopanic (of_opt o).
Proof. intros A o. destruct o; [apply nopanic_ret | apply nopanic_fail]. Qed.
Lemma nopanic_guard : forall b, nopanic (guard b).
Proof. intros b. destruct b; [apply nopanic_ret | apply nopanic_fail]. Qed.
Lemma nopanic_iterM : forall A (f : A -> M unit) l, (forall x, nopanic (f x)) -> nopanic (iterM f l).
Proof.
  intros A f l Hf. induction l as [|x r IH].
  - apply nopanic_ret.
  - cbn [iterM]. apply nopanic_bind; [apply Hf | intros _; exact IH].
Qed.

(* [panic] itself is of course not [nopanic]: there is deliberately no rule
   for it, so the tactic below fails on any procedure that mentions it *)
Lemma panic_panics : forall A s, fst (@panic A s) = Panic.
Proof. reflexivity. Qed.

Create HintDb nplaws discriminated.

Ltac npstep :=
  first
  [ assumption
  | lazymatch goal with
    | |- nopanic (bind _ _) => apply nopanic_bind; [ | intro ]
    | |- nopanic (ret _) => apply nopanic_ret
    | |- nopanic fail => apply nopanic_fail
    | |- nopanic getw => apply nopanic_getw
    | |- nopanic (emit _) => apply nopanic_emit
    | |- nopanic (of_opt _) => apply nopanic_of_opt
    | |- nopanic (guard _) => apply nopanic_guard
    | |- nopanic (iterM _ _) => apply nopanic_iterM; intro
    | |- nopanic (let _ := _ in _) => cbv zeta
    | |- nopanic (match ?x with _ => _ end) => destruct x; cbv beta iota
    | |- nopanic ((fix f (l : list _) {struct l} : M _ := _) ?args) =>
        induction args; cbv beta iota
    end
  | solve [ auto with nplaws nocore ] ].
Ltac nopanic_tac := repeat npstep.

(* one lemma per procedure of Repo.v *)
Lemma load_ctx_nopanic : nopanic load_ctx.
Proof. unfold load_ctx. nopanic_tac. Qed.
#[export] Hint Resolve load_ctx_nopanic : nplaws.
Lemma the_index_nopanic : nopanic the_index.
Proof. unfold the_index. nopanic_tac. Qed.
#[export] Hint Resolve the_index_nopanic : nplaws.
Lemma put_obj_nopanic : forall k d, nopanic (put_obj k d).
Proof. intros k d. unfold put_obj. nopanic_tac. Qed.
#[export] Hint Resolve put_obj_nopanic : nplaws.
Lemma wt_put_nopanic : forall p data, nopanic (wt_put p data).
Proof. intros p data. unfold wt_put. nopanic_tac. Qed.
#[export] Hint Resolve wt_put_nopanic : nplaws.
Lemma head_tree_nodes_nopanic : forall c, nopanic (head_tree_nodes c).
Proof. intros c. unfold head_tree_nodes. nopanic_tac. Qed.
#[export] Hint Resolve head_tree_nodes_nopanic : nplaws.
Lemma cmd_init_nopanic : nopanic cmd_init.
Proof. unfold cmd_init. nopanic_tac. Qed.
#[export] Hint Resolve cmd_init_nopanic : nplaws.
Lemma cmd_config_nopanic : forall c global args, nopanic (cmd_config c global args).
Proof. intros c global args. unfold cmd_config. nopanic_tac. Qed.
#[export] Hint Resolve cmd_config_nopanic : nplaws.
Lemma add_file_nopanic : forall p, nopanic (add_file p).
Proof. intros p. unfold add_file. nopanic_tac. Qed.
#[export] Hint Resolve add_file_nopanic : nplaws.
Lemma cmd_add_nopanic : forall c args, nopanic (cmd_add c args).
Proof. intros c args. unfold cmd_add. nopanic_tac. Qed.
#[export] Hint Resolve cmd_add_nopanic : nplaws.
Lemma rm_one_nopanic : forall p, nopanic (rm_one p).
Proof. intros p. unfold rm_one. nopanic_tac. Qed.
#[export] Hint Resolve rm_one_nopanic : nplaws.
Lemma cmd_rm_nopanic : forall args, nopanic (cmd_rm args).
Proof. intros args. unfold cmd_rm. nopanic_tac. Qed.
#[export] Hint Resolve cmd_rm_nopanic : nplaws.
Lemma do_commit_nopanic : forall e c msg, nopanic (do_commit e c msg).
Proof. intros e c msg. unfold do_commit. nopanic_tac. Qed.
#[export] Hint Resolve do_commit_nopanic : nplaws.
Lemma cmd_commit_nopanic : forall e c msg, nopanic (cmd_commit e c msg).
Proof. intros e c msg. unfold cmd_commit. nopanic_tac. Qed.
#[export] Hint Resolve cmd_commit_nopanic : nplaws.
Lemma cmd_status_nopanic : forall c, nopanic (cmd_status c).
Proof. intros c. unfold cmd_status. nopanic_tac. Qed.
#[export] Hint Resolve cmd_status_nopanic : nplaws.
Lemma cmd_branch_nopanic : forall e c args lst rename delete, nopanic (cmd_branch e c args lst rename delete).
Proof. intros e c args lst rename delete. unfold cmd_branch. nopanic_tac. Qed.
#[export] Hint Resolve cmd_branch_nopanic : nplaws.
Lemma head_update_nopanic : forall name, nopanic (head_update name).
Proof. intros name. unfold head_update. nopanic_tac. Qed.
#[export] Hint Resolve head_update_nopanic : nplaws.
Lemma cmd_switch_nopanic : forall e c args create, nopanic (cmd_switch e c args create).
Proof. intros e c args create. unfold cmd_switch. nopanic_tac. Qed.
#[export] Hint Resolve cmd_switch_nopanic : nplaws.
Lemma cmd_reset_nopanic : forall e c soft mixed hard args, nopanic (cmd_reset e c soft mixed hard args).
Proof. intros e c soft mixed hard args. unfold cmd_reset. nopanic_tac. Qed.
#[export] Hint Resolve cmd_reset_nopanic : nplaws.
Lemma restore_wd_nopanic : forall p, nopanic (restore_wd p).
Proof. intros p. unfold restore_wd. nopanic_tac. Qed.
#[export] Hint Resolve restore_wd_nopanic : nplaws.
Lemma restore_index_nopanic : forall ns p, nopanic (restore_index ns p).
Proof. intros ns p. unfold restore_index. nopanic_tac. Qed.
#[export] Hint Resolve restore_index_nopanic : nplaws.
Lemma cmd_restore_nopanic : forall c staged args, nopanic (cmd_restore c staged args).
Proof. intros c staged args. unfold cmd_restore. nopanic_tac. Qed.
#[export] Hint Resolve cmd_restore_nopanic : nplaws.
Lemma cmd_update_ref_nopanic : forall args, nopanic (cmd_update_ref args).
Proof. intros args. unfold cmd_update_ref. nopanic_tac. Qed.
#[export] Hint Resolve cmd_update_ref_nopanic : nplaws.
Lemma cmd_log_nopanic : forall c n, nopanic (cmd_log c n).
Proof. intros c n. unfold cmd_log. nopanic_tac. Qed.
#[export] Hint Resolve cmd_log_nopanic : nplaws.
Lemma cmd_reflog_nopanic : nopanic cmd_reflog.
Proof. unfold cmd_reflog. nopanic_tac. Qed.
#[export] Hint Resolve cmd_reflog_nopanic : nplaws.
Lemma cmd_cat_file_nopanic : forall t p args, nopanic (cmd_cat_file t p args).
Proof. intros t p args. unfold cmd_cat_file. nopanic_tac. Qed.
#[export] Hint Resolve cmd_cat_file_nopanic : nplaws.
Lemma cmd_hash_object_nopanic : forall args, nopanic (cmd_hash_object args).
Proof. intros args. unfold cmd_hash_object. nopanic_tac. Qed.
#[export] Hint Resolve cmd_hash_object_nopanic : nplaws.
Lemma cmd_ls_files_nopanic : forall s, nopanic (cmd_ls_files s).
Proof. intros s. unfold cmd_ls_files. nopanic_tac. Qed.
#[export] Hint Resolve cmd_ls_files_nopanic : nplaws.
Lemma cmd_rev_parse_nopanic : forall args, nopanic (cmd_rev_parse args).
Proof. intros args. unfold cmd_rev_parse. nopanic_tac. Qed.
#[export] Hint Resolve cmd_rev_parse_nopanic : nplaws.
Lemma cmd_write_tree_nopanic : nopanic cmd_write_tree.
Proof. unfold cmd_write_tree. nopanic_tac. Qed.
#[export] Hint Resolve cmd_write_tree_nopanic : nplaws.

Theorem run_cmd_nopanic : forall e c, nopanic (run_cmd e c).
Proof. intros e c. unfold run_cmd. nopanic_tac. Qed.

(* for every action, every world (reachable or not), with or without an
   injected write failure *)
Theorem no_panic : forall a w, snd (fst (step a w)) <> OPanic.
Proof.
  intros [e c|u] w.
  - rewrite step_cmd_eq. cbn [fst snd].
    pose proof (run_cmd_nopanic e c (mkMS w [] None)) as Hnp.
    destruct (fst (run_cmd e c (mkMS w [] None))); [discriminate | discriminate | contradiction Hnp; reflexivity].
  - cbn [step fst snd]. discriminate.
Qed.

Theorem no_panic_fault : forall e c w k, fst (run_cmd e c (mkMS w [] (Some k))) <> Panic.
Proof. intros e c w k. apply run_cmd_nopanic. Qed.

Corollary no_panic_run : forall h a, snd (fst (step a (run h w_empty))) <> OPanic.
Proof. intros h a. apply no_panic. Qed.
