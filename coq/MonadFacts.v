(* MonadFacts.v — a small program logic for the command monad of World.v.

   1. [traced]  : trace soundness as a compositional predicate; [traced_tac].
   2. [fsim]    : fault simulation (a fault at the k-th effect stops the
                  command with exactly the first k effects of the fault-free run).
   3. [hoare] / [emits] : a Hoare-style rule set for invariants that must hold
                  in EVERY intermediate world; [hstep] / [hsteps].
   4. frame lemmas for [apply_effect] (rewrite database [wfields]),
      [coll_sticky], and the StoreGrows theorems.
   No file of the model is unfolded by later users: they use the rules. *)
From Coq Require Import Strings.String Strings.Byte.
From Coq Require Import List Bool NArith ZArith Arith Lia.
From Goit Require Import Bytes Sha1 Obj Tree Index Regex GoRegex Commit Reflog Config Ignore World Repo.
From Goit Require Import BytesFacts ObjFacts.
Import ListNotations.

(* ================================================================== *)
(** * 0. [apply_effects] *)

Lemma apply_effects_nil : forall w, apply_effects [] w = w.
Proof. reflexivity. Qed.

Lemma apply_effects_cons : forall e tr w,
  apply_effects (e :: tr) w = apply_effects tr (apply_effect e w).
Proof. reflexivity. Qed.

Lemma apply_effects_app : forall a b w,
  apply_effects (a ++ b) w = apply_effects b (apply_effects a w).
Proof. intros a b w. unfold apply_effects. apply fold_left_app. Qed.

Lemma apply_effects_snoc : forall a e w,
  apply_effects (a ++ [e]) w = apply_effect e (apply_effects a w).
Proof. intros a e w. rewrite apply_effects_app. reflexivity. Qed.

Lemma apply_effects_one : forall e w, apply_effects [e] w = apply_effect e w.
Proof. reflexivity. Qed.

(* ================================================================== *)
(** * 1. Trace soundness: [traced] *)

(* Holds for ARBITRARY [ms_fault s]; only the third conjunct needs [None]. *)
Definition traced {A} (m : M A) : Prop :=
  forall s, exists tr,
    ms_trace (snd (m s)) = ms_trace s ++ tr /\
    ms_w (snd (m s)) = apply_effects tr (ms_w s) /\
    (ms_fault s = None -> ms_fault (snd (m s)) = None).

Lemma traced_elim : forall A (m : M A) s r s',
  traced m -> m s = (r, s') ->
  exists tr, ms_trace s' = ms_trace s ++ tr /\ ms_w s' = apply_effects tr (ms_w s)
             /\ (ms_fault s = None -> ms_fault s' = None).
Proof.
  intros A m s r s' Hm Hrun. destruct (Hm s) as (tr & Ht & Hw & Hf).
  rewrite Hrun in Ht, Hw, Hf. exists tr. auto.
Qed.

Lemma traced_ret : forall A (a : A), traced (ret a).
Proof.
  intros A a s. exists []. cbn. rewrite app_nil_r. auto.
Qed.

Lemma traced_fail : forall A, traced (@fail A).
Proof.
  intros A s. exists []. cbn. rewrite app_nil_r. auto.
Qed.

Lemma traced_panic : forall A, traced (@panic A).
Proof.
  intros A s. exists []. cbn. rewrite app_nil_r. auto.
Qed.

Lemma traced_getw : traced getw.
Proof.
  intros s. exists []. cbn. rewrite app_nil_r. auto.
Qed.

Lemma traced_emit : forall e, traced (emit e).
Proof.
  intros e s. unfold emit. destruct (ms_fault s) as [[|k]|] eqn:Ef.
  - exists []. cbn. rewrite app_nil_r. auto.
  - exists [e]. cbn. repeat split. intro Hn. discriminate Hn.
  - exists [e]. cbn. auto.
Qed.

Lemma traced_bind : forall A B (m : M A) (f : A -> M B),
  traced m -> (forall a, traced (f a)) -> traced (bind m f).
Proof.
  intros A B m f Hm Hf s. destruct (Hm s) as (tr1 & Ht1 & Hw1 & Hf1).
  unfold bind. destruct (m s) as [r s1]. cbn [fst snd] in Ht1, Hw1, Hf1.
  destruct r as [a| |].
  - destruct (Hf a s1) as (tr2 & Ht2 & Hw2 & Hf2).
    exists (tr1 ++ tr2). rewrite Ht2, Hw2, Ht1, Hw1, apply_effects_app, app_assoc.
    repeat split. intro Hn. apply Hf2. apply Hf1. exact Hn.
  - exists tr1. cbn [snd]. auto.
  - exists tr1. cbn [snd]. auto.
Qed.

Lemma traced_of_opt : forall A (o : option A), traced (of_opt o).
Proof.
  intros A o. destruct o as [a|]; [apply traced_ret | apply traced_fail].
Qed.

Lemma traced_guard : forall b, traced (guard b).
Proof.
  intros b. destruct b; [apply traced_ret | apply traced_fail].
Qed.

Lemma traced_iterM : forall A (f : A -> M unit) l,
  (forall x, traced (f x)) -> traced (iterM f l).
Proof.
  intros A f l Hf. induction l as [|x r IH].
  - apply traced_ret.
  - cbn [iterM]. apply traced_bind; [apply Hf | intros _; exact IH].
Qed.

(* when only the elements of the list matter *)
Lemma traced_iterM_in : forall A (f : A -> M unit) l,
  (forall x, In x l -> traced (f x)) -> traced (iterM f l).
Proof.
  intros A f l. induction l as [|x r IH]; intro Hf.
  - apply traced_ret.
  - cbn [iterM]. apply traced_bind.
    + apply Hf. left. reflexivity.
    + intros _. apply IH. intros y Hy. apply Hf. right. exact Hy.
Qed.

(* ================================================================== *)
(** * 2. Fault semantics: [emit] under faults and [fsim] *)

Lemma emit_nofault : forall e s, ms_fault s = None ->
  emit e s = (Ok tt, {| ms_w := apply_effect e (ms_w s); ms_trace := ms_trace s ++ [e]; ms_fault := None |}).
Proof. intros e s Hf. unfold emit. rewrite Hf. reflexivity. Qed.

Lemma emit_fault_0 : forall e s, ms_fault s = Some 0 ->
  emit e s = (Err, {| ms_w := ms_w s; ms_trace := ms_trace s; ms_fault := None |}).
Proof. intros e s Hf. unfold emit. rewrite Hf. reflexivity. Qed.

Lemma emit_fault_S : forall e s k, ms_fault s = Some (S k) ->
  emit e s = (Ok tt, {| ms_w := apply_effect e (ms_w s); ms_trace := ms_trace s ++ [e]; ms_fault := Some k |}).
Proof. intros e s k Hf. unfold emit. rewrite Hf. reflexivity. Qed.

(* The fault-free run performs [tr] and answers [r]; the run with a fault at
   position [k] is the same when [length tr <= k] (the counter is decremented),
   and otherwise answers [Err] after exactly the first [k] effects of [tr].
   (No combinator can catch [Err], so nothing runs after the failed effect.) *)
Definition fsim {A} (m : M A) : Prop :=
  forall w t, exists r tr,
    m (mkMS w t None) = (r, mkMS (apply_effects tr w) (t ++ tr) None) /\
    forall k, m (mkMS w t (Some k)) =
      if Nat.ltb k (length tr)
      then (Err, mkMS (apply_effects (firstn k tr) w) (t ++ firstn k tr) None)
      else (r, mkMS (apply_effects tr w) (t ++ tr) (Some (k - length tr))).

Lemma fsim_pure : forall A (m : M A) r, (forall s, m s = (r, s)) -> fsim m.
Proof.
  intros A m r Hm w t. exists r, []. split.
  - rewrite Hm, app_nil_r. reflexivity.
  - intro k. rewrite Hm. cbn [length Nat.ltb Nat.leb]. rewrite app_nil_r, Nat.sub_0_r. reflexivity.
Qed.

Lemma fsim_ret : forall A (a : A), fsim (ret a).
Proof. intros A a. apply (fsim_pure _ _ (Ok a)). reflexivity. Qed.

Lemma fsim_fail : forall A, fsim (@fail A).
Proof. intros A. apply (fsim_pure _ _ Err). reflexivity. Qed.

Lemma fsim_panic : forall A, fsim (@panic A).
Proof. intros A. apply (fsim_pure _ _ Panic). reflexivity. Qed.

Lemma fsim_getw : fsim getw.
Proof.
  intros w t. exists (Ok w), []. split.
  - cbn. rewrite app_nil_r. reflexivity.
  - intro k. cbn. rewrite app_nil_r, Nat.sub_0_r. reflexivity.
Qed.

Lemma fsim_emit : forall e, fsim (emit e).
Proof.
  intros e w t. exists (Ok tt), [e]. split.
  - reflexivity.
  - intros [|k].
    + cbn. rewrite app_nil_r. reflexivity.
    + cbn. rewrite Nat.sub_0_r. reflexivity.
Qed.

Lemma fsim_bind : forall A B (m : M A) (f : A -> M B),
  fsim m -> (forall a, fsim (f a)) -> fsim (bind m f).
Proof.
  intros A B m f Hm Hf w t. destruct (Hm w t) as (r1 & tr1 & H1 & H1k).
  destruct r1 as [a| |].
  - destruct (Hf a (apply_effects tr1 w) (t ++ tr1)) as (r2 & tr2 & H2 & H2k).
    exists r2, (tr1 ++ tr2). split.
    + unfold bind. rewrite H1. cbv beta iota. rewrite H2, apply_effects_app, app_assoc. reflexivity.
    + intro k. unfold bind. rewrite H1k, app_length.
      destruct (Nat.ltb k (length tr1)) eqn:E1.
      * apply Nat.ltb_lt in E1.
        replace (Nat.ltb k (length tr1 + length tr2)) with true
          by (symmetry; apply Nat.ltb_lt; lia).
        rewrite firstn_app. replace (k - length tr1) with 0 by lia.
        rewrite firstn_O, app_nil_r. reflexivity.
      * apply Nat.ltb_ge in E1. cbv beta iota. rewrite H2k.
        destruct (Nat.ltb (k - length tr1) (length tr2)) eqn:E2.
        -- apply Nat.ltb_lt in E2.
           replace (Nat.ltb k (length tr1 + length tr2)) with true
             by (symmetry; apply Nat.ltb_lt; lia).
           rewrite firstn_app, (firstn_all2 tr1) by lia.
           rewrite apply_effects_app, app_assoc. reflexivity.
        -- apply Nat.ltb_ge in E2.
           replace (Nat.ltb k (length tr1 + length tr2)) with false
             by (symmetry; apply Nat.ltb_ge; lia).
           rewrite apply_effects_app, app_assoc.
           replace (k - (length tr1 + length tr2)) with (k - length tr1 - length tr2) by lia.
           reflexivity.
  - exists Err, tr1. split.
    + unfold bind. rewrite H1. reflexivity.
    + intro k. unfold bind. rewrite H1k. destruct (Nat.ltb k (length tr1)); reflexivity.
  - exists Panic, tr1. split.
    + unfold bind. rewrite H1. reflexivity.
    + intro k. unfold bind. rewrite H1k. destruct (Nat.ltb k (length tr1)); reflexivity.
Qed.

Lemma fsim_of_opt : forall A (o : option A), fsim (of_opt o).
Proof. intros A o. destruct o as [a|]; [apply fsim_ret | apply fsim_fail]. Qed.

Lemma fsim_guard : forall b, fsim (guard b).
Proof. intros b. destruct b; [apply fsim_ret | apply fsim_fail]. Qed.

Lemma fsim_iterM : forall A (f : A -> M unit) l,
  (forall x, fsim (f x)) -> fsim (iterM f l).
Proof.
  intros A f l Hf. induction l as [|x r IH].
  - apply fsim_ret.
  - cbn [iterM]. apply fsim_bind; [apply Hf | intros _; exact IH].
Qed.

(* [fsim] is stronger than [traced] *)
Lemma fsim_traced : forall A (m : M A), fsim m -> traced m.
Proof.
  intros A m Hm [w t fk]. destruct (Hm w t) as (r & tr & H0 & Hk).
  destruct fk as [k|].
  - rewrite Hk. destruct (Nat.ltb k (length tr)).
    + exists (firstn k tr). cbn. auto.
    + exists tr. cbn. repeat split. intro Hn. discriminate Hn.
  - rewrite H0. exists tr. cbn. auto.
Qed.

(* ================================================================== *)
(** * 3. The generic structural tactic *)

(* Lemmas about helper procedures and commands are registered in [mlaws]. *)
Create HintDb mlaws discriminated.

(* one structural step on a goal [traced m] or [fsim m]; matches on the goal only *)
Ltac mstep :=
  first
  [ assumption
  | lazymatch goal with
    | |- traced (bind _ _) => apply traced_bind; [ | intro ]
    | |- traced (ret _) => apply traced_ret
    | |- traced fail => apply traced_fail
    | |- traced panic => apply traced_panic
    | |- traced getw => apply traced_getw
    | |- traced (emit _) => apply traced_emit
    | |- traced (of_opt _) => apply traced_of_opt
    | |- traced (guard _) => apply traced_guard
    | |- traced (iterM _ _) => apply traced_iterM; intro
    | |- fsim (bind _ _) => apply fsim_bind; [ | intro ]
    | |- fsim (ret _) => apply fsim_ret
    | |- fsim fail => apply fsim_fail
    | |- fsim panic => apply fsim_panic
    | |- fsim getw => apply fsim_getw
    | |- fsim (emit _) => apply fsim_emit
    | |- fsim (of_opt _) => apply fsim_of_opt
    | |- fsim (guard _) => apply fsim_guard
    | |- fsim (iterM _ _) => apply fsim_iterM; intro
    | |- _ (let _ := _ in _) => cbv zeta
    | |- _ (match ?x with _ => _ end) => destruct x; cbv beta iota
    | |- _ ((fix f (l : list _) {struct l} : M _ := _) ?args) =>
        induction args; cbv beta iota
    end
  | solve [ auto with mlaws nocore ] ].

Ltac traced_tac := repeat mstep.

(* last resort: unfold the head constant of the command *)
Ltac head_of t := lazymatch t with ?f _ => head_of f | _ => t end.
Ltac munfold :=
  lazymatch goal with
  | |- _ ?m => let h := head_of m in unfold h
  end.

(* ================================================================== *)
(** * 4. Every procedure of Repo.v is [traced] and [fsim] *)

(* helpers first; each lemma is registered so that callers find it *)
Lemma load_ctx_traced : traced load_ctx.
Proof. unfold load_ctx. traced_tac. Qed.
Lemma load_ctx_fsim : fsim load_ctx.
Proof. unfold load_ctx. traced_tac. Qed.
#[export] Hint Resolve load_ctx_traced load_ctx_fsim : mlaws.
Lemma the_index_traced : traced the_index.
Proof. unfold the_index. traced_tac. Qed.
Lemma the_index_fsim : fsim the_index.
Proof. unfold the_index. traced_tac. Qed.
#[export] Hint Resolve the_index_traced the_index_fsim : mlaws.

Lemma put_obj_traced : forall k d, traced (put_obj k d).
Proof. intros k d. unfold put_obj. traced_tac. Qed.
Lemma put_obj_fsim : forall k d, fsim (put_obj k d).
Proof. intros k d. unfold put_obj. traced_tac. Qed.
#[export] Hint Resolve put_obj_traced put_obj_fsim : mlaws.

Lemma wt_put_traced : forall p data, traced (wt_put p data).
Proof. intros p data. unfold wt_put. traced_tac. Qed.
Lemma wt_put_fsim : forall p data, fsim (wt_put p data).
Proof. intros p data. unfold wt_put. traced_tac. Qed.
#[export] Hint Resolve wt_put_traced wt_put_fsim : mlaws.

Lemma head_tree_nodes_traced : forall c, traced (head_tree_nodes c).
Proof. intros c. unfold head_tree_nodes. traced_tac. Qed.
Lemma head_tree_nodes_fsim : forall c, fsim (head_tree_nodes c).
Proof. intros c. unfold head_tree_nodes. traced_tac. Qed.
#[export] Hint Resolve head_tree_nodes_traced head_tree_nodes_fsim : mlaws.

Lemma cmd_init_traced : traced cmd_init.
Proof. unfold cmd_init. traced_tac. Qed.
Lemma cmd_init_fsim : fsim cmd_init.
Proof. unfold cmd_init. traced_tac. Qed.
#[export] Hint Resolve cmd_init_traced cmd_init_fsim : mlaws.

Lemma cmd_config_traced : forall c global args, traced (cmd_config c global args).
Proof. intros c global args. unfold cmd_config. traced_tac. Qed.
Lemma cmd_config_fsim : forall c global args, fsim (cmd_config c global args).
Proof. intros c global args. unfold cmd_config. traced_tac. Qed.
#[export] Hint Resolve cmd_config_traced cmd_config_fsim : mlaws.

Lemma add_file_traced : forall p, traced (add_file p).
Proof. intros p. unfold add_file. traced_tac. Qed.
Lemma add_file_fsim : forall p, fsim (add_file p).
Proof. intros p. unfold add_file. traced_tac. Qed.
#[export] Hint Resolve add_file_traced add_file_fsim : mlaws.

Lemma cmd_add_traced : forall c args, traced (cmd_add c args).
Proof. intros c args. unfold cmd_add. traced_tac. Qed.
Lemma cmd_add_fsim : forall c args, fsim (cmd_add c args).
Proof. intros c args. unfold cmd_add. traced_tac. Qed.
#[export] Hint Resolve cmd_add_traced cmd_add_fsim : mlaws.

Lemma rm_one_traced : forall p, traced (rm_one p).
Proof. intros p. unfold rm_one. traced_tac. Qed.
Lemma rm_one_fsim : forall p, fsim (rm_one p).
Proof. intros p. unfold rm_one. traced_tac. Qed.
#[export] Hint Resolve rm_one_traced rm_one_fsim : mlaws.

Lemma cmd_rm_traced : forall args, traced (cmd_rm args).
Proof. intros args. unfold cmd_rm. traced_tac. Qed.
Lemma cmd_rm_fsim : forall args, fsim (cmd_rm args).
Proof. intros args. unfold cmd_rm. traced_tac. Qed.
#[export] Hint Resolve cmd_rm_traced cmd_rm_fsim : mlaws.

Lemma do_commit_traced : forall e c msg, traced (do_commit e c msg).
Proof. intros e c msg. unfold do_commit. traced_tac. Qed.
Lemma do_commit_fsim : forall e c msg, fsim (do_commit e c msg).
Proof. intros e c msg. unfold do_commit. traced_tac. Qed.
#[export] Hint Resolve do_commit_traced do_commit_fsim : mlaws.

Lemma cmd_commit_traced : forall e c msg, traced (cmd_commit e c msg).
Proof. intros e c msg. unfold cmd_commit. traced_tac. Qed.
Lemma cmd_commit_fsim : forall e c msg, fsim (cmd_commit e c msg).
Proof. intros e c msg. unfold cmd_commit. traced_tac. Qed.
#[export] Hint Resolve cmd_commit_traced cmd_commit_fsim : mlaws.

Lemma cmd_status_traced : forall c, traced (cmd_status c).
Proof. intros c. unfold cmd_status. traced_tac. Qed.
Lemma cmd_status_fsim : forall c, fsim (cmd_status c).
Proof. intros c. unfold cmd_status. traced_tac. Qed.
#[export] Hint Resolve cmd_status_traced cmd_status_fsim : mlaws.

Lemma cmd_branch_traced : forall e c args lst rename delete, traced (cmd_branch e c args lst rename delete).
Proof. intros e c args lst rename delete. unfold cmd_branch. traced_tac. Qed.
Lemma cmd_branch_fsim : forall e c args lst rename delete, fsim (cmd_branch e c args lst rename delete).
Proof. intros e c args lst rename delete. unfold cmd_branch. traced_tac. Qed.
#[export] Hint Resolve cmd_branch_traced cmd_branch_fsim : mlaws.

Lemma head_update_traced : forall name, traced (head_update name).
Proof. intros name. unfold head_update. traced_tac. Qed.
Lemma head_update_fsim : forall name, fsim (head_update name).
Proof. intros name. unfold head_update. traced_tac. Qed.
#[export] Hint Resolve head_update_traced head_update_fsim : mlaws.

Lemma cmd_switch_traced : forall e c args create, traced (cmd_switch e c args create).
Proof. intros e c args create. unfold cmd_switch. traced_tac. Qed.
Lemma cmd_switch_fsim : forall e c args create, fsim (cmd_switch e c args create).
Proof. intros e c args create. unfold cmd_switch. traced_tac. Qed.
#[export] Hint Resolve cmd_switch_traced cmd_switch_fsim : mlaws.

Lemma cmd_reset_traced : forall e c soft mixed hard args, traced (cmd_reset e c soft mixed hard args).
Proof. intros e c soft mixed hard args. unfold cmd_reset. traced_tac. Qed.
Lemma cmd_reset_fsim : forall e c soft mixed hard args, fsim (cmd_reset e c soft mixed hard args).
Proof. intros e c soft mixed hard args. unfold cmd_reset. traced_tac. Qed.
#[export] Hint Resolve cmd_reset_traced cmd_reset_fsim : mlaws.

Lemma restore_wd_traced : forall p, traced (restore_wd p).
Proof. intros p. unfold restore_wd. traced_tac. Qed.
Lemma restore_wd_fsim : forall p, fsim (restore_wd p).
Proof. intros p. unfold restore_wd. traced_tac. Qed.
#[export] Hint Resolve restore_wd_traced restore_wd_fsim : mlaws.

Lemma restore_index_traced : forall ns p, traced (restore_index ns p).
Proof. intros ns p. unfold restore_index. traced_tac. Qed.
Lemma restore_index_fsim : forall ns p, fsim (restore_index ns p).
Proof. intros ns p. unfold restore_index. traced_tac. Qed.
#[export] Hint Resolve restore_index_traced restore_index_fsim : mlaws.

Lemma cmd_restore_traced : forall c staged args, traced (cmd_restore c staged args).
Proof. intros c staged args. unfold cmd_restore. traced_tac. Qed.
Lemma cmd_restore_fsim : forall c staged args, fsim (cmd_restore c staged args).
Proof. intros c staged args. unfold cmd_restore. traced_tac. Qed.
#[export] Hint Resolve cmd_restore_traced cmd_restore_fsim : mlaws.

Lemma cmd_update_ref_traced : forall args, traced (cmd_update_ref args).
Proof. intros args. unfold cmd_update_ref. traced_tac. Qed.
Lemma cmd_update_ref_fsim : forall args, fsim (cmd_update_ref args).
Proof. intros args. unfold cmd_update_ref. traced_tac. Qed.
#[export] Hint Resolve cmd_update_ref_traced cmd_update_ref_fsim : mlaws.

Lemma cmd_log_traced : forall c n, traced (cmd_log c n).
Proof. intros c n. unfold cmd_log. traced_tac. Qed.
Lemma cmd_log_fsim : forall c n, fsim (cmd_log c n).
Proof. intros c n. unfold cmd_log. traced_tac. Qed.
#[export] Hint Resolve cmd_log_traced cmd_log_fsim : mlaws.

Lemma cmd_reflog_traced : traced cmd_reflog.
Proof. unfold cmd_reflog. traced_tac. Qed.
Lemma cmd_reflog_fsim : fsim cmd_reflog.
Proof. unfold cmd_reflog. traced_tac. Qed.
#[export] Hint Resolve cmd_reflog_traced cmd_reflog_fsim : mlaws.

Lemma cmd_cat_file_traced : forall t p args, traced (cmd_cat_file t p args).
Proof. intros t p args. unfold cmd_cat_file. traced_tac. Qed.
Lemma cmd_cat_file_fsim : forall t p args, fsim (cmd_cat_file t p args).
Proof. intros t p args. unfold cmd_cat_file. traced_tac. Qed.
#[export] Hint Resolve cmd_cat_file_traced cmd_cat_file_fsim : mlaws.

Lemma cmd_hash_object_traced : forall args, traced (cmd_hash_object args).
Proof. intros args. unfold cmd_hash_object. traced_tac. Qed.
Lemma cmd_hash_object_fsim : forall args, fsim (cmd_hash_object args).
Proof. intros args. unfold cmd_hash_object. traced_tac. Qed.
#[export] Hint Resolve cmd_hash_object_traced cmd_hash_object_fsim : mlaws.

Lemma cmd_ls_files_traced : forall s, traced (cmd_ls_files s).
Proof. intros s. unfold cmd_ls_files. traced_tac. Qed.
Lemma cmd_ls_files_fsim : forall s, fsim (cmd_ls_files s).
Proof. intros s. unfold cmd_ls_files. traced_tac. Qed.
#[export] Hint Resolve cmd_ls_files_traced cmd_ls_files_fsim : mlaws.

Lemma cmd_rev_parse_traced : forall args, traced (cmd_rev_parse args).
Proof. intros args. unfold cmd_rev_parse. traced_tac. Qed.
Lemma cmd_rev_parse_fsim : forall args, fsim (cmd_rev_parse args).
Proof. intros args. unfold cmd_rev_parse. traced_tac. Qed.
#[export] Hint Resolve cmd_rev_parse_traced cmd_rev_parse_fsim : mlaws.

Lemma cmd_write_tree_traced : traced cmd_write_tree.
Proof. unfold cmd_write_tree. traced_tac. Qed.
Lemma cmd_write_tree_fsim : fsim cmd_write_tree.
Proof. unfold cmd_write_tree. traced_tac. Qed.
#[export] Hint Resolve cmd_write_tree_traced cmd_write_tree_fsim : mlaws.

Lemma run_cmd_traced : forall e c, traced (run_cmd e c).
Proof. intros e c. unfold run_cmd. traced_tac. Qed.
Lemma run_cmd_fsim : forall e c, fsim (run_cmd e c).
Proof. intros e c. unfold run_cmd. traced_tac. Qed.
#[export] Hint Resolve run_cmd_traced run_cmd_fsim : mlaws.

(* ================================================================== *)
(** * 5. Consequences for [run_m], [step] *)

Lemma run_m_eq : forall A (m : M A) w,
  run_m m w = (fst (m (mkMS w [] None)), ms_w (snd (m (mkMS w [] None))), ms_trace (snd (m (mkMS w [] None)))).
Proof. intros A m w. unfold run_m. destruct (m (mkMS w [] None)) as [r s]. reflexivity. Qed.

Theorem run_m_traced : forall A (m : M A) w r w' tr,
  traced m -> run_m m w = (r, w', tr) -> w' = apply_effects tr w.
Proof.
  intros A m w r w' tr Hm Hrun. rewrite run_m_eq in Hrun.
  destruct (Hm (mkMS w [] None)) as (tr0 & Ht & Hw & _).
  injection Hrun as _ Hw' Htr. cbn [ms_trace ms_w app] in Ht, Hw.
  rewrite <- Hw', <- Htr, Ht. exact Hw.
Qed.

Theorem step_trace : forall a w w' o tr, step a w = (w', o, tr) ->
  match a with ACmd _ _ => w' = apply_effects tr w | AEdit _ => tr = [] end.
Proof.
  intros [e c|u] w w' o tr Hstep; cbn [step] in Hstep.
  - destruct (run_m (run_cmd e c) w) as [[r w1] tr1] eqn:Erun.
    assert (Hw1 : w1 = apply_effects tr1 w).
    { apply (run_m_traced _ (run_cmd e c) w r w1 tr1 (run_cmd_traced e c) Erun). }
    destruct r; injection Hstep as Hw _ Ht; subst; reflexivity.
  - injection Hstep as _ _ Ht. symmetry. exact Ht.
Qed.

Corollary step_cmd_world : forall e c w, exists tr,
  step (ACmd e c) w = (apply_effects tr w, snd (fst (step (ACmd e c) w)), tr).
Proof.
  intros e c w. destruct (step (ACmd e c) w) as [[w' o] tr] eqn:Es.
  exists tr. rewrite (step_trace _ _ _ _ _ Es). reflexivity.
Qed.

(* the general fault theorem: a fault at position [k] of a run whose
   fault-free trace is [tr] yields [Err] and the world after [firstn k tr]
   when [k < length tr], and changes nothing but the counter otherwise *)
Theorem fsim_run : forall A (m : M A) w r w' tr,
  fsim m -> run_m m w = (r, w', tr) ->
  w' = apply_effects tr w /\
  forall k, m (mkMS w [] (Some k)) =
    if Nat.ltb k (length tr)
    then (Err, mkMS (apply_effects (firstn k tr) w) (firstn k tr) None)
    else (r, mkMS w' tr (Some (k - length tr))).
Proof.
  intros A m w r w' tr Hm Hrun. destruct (Hm w []) as (r0 & tr0 & H0 & Hk).
  unfold run_m in Hrun. rewrite H0 in Hrun. cbn [ms_w ms_trace app] in Hrun.
  injection Hrun as Hr Hw Ht. subst r0 tr0. split.
  - symmetry. exact Hw.
  - intro k. rewrite Hk, Hw. reflexivity.
Qed.

Corollary cmd_fault_prefix : forall e c w r w' tr k,
  run_m (run_cmd e c) w = (r, w', tr) -> k < length tr ->
  run_cmd e c (mkMS w [] (Some k)) =
    (Err, mkMS (apply_effects (firstn k tr) w) (firstn k tr) None).
Proof.
  intros e c w r w' tr k Hrun Hk.
  destruct (fsim_run _ _ _ _ _ _ (run_cmd_fsim e c) Hrun) as [_ Hf].
  rewrite Hf. apply Nat.ltb_lt in Hk. rewrite Hk. reflexivity.
Qed.

Corollary cmd_fault_beyond : forall e c w r w' tr k,
  run_m (run_cmd e c) w = (r, w', tr) -> length tr <= k ->
  run_cmd e c (mkMS w [] (Some k)) = (r, mkMS w' tr (Some (k - length tr))).
Proof.
  intros e c w r w' tr k Hrun Hk.
  destruct (fsim_run _ _ _ _ _ _ (run_cmd_fsim e c) Hrun) as [_ Hf].
  rewrite Hf. apply Nat.ltb_ge in Hk. rewrite Hk. reflexivity.
Qed.

(* ================================================================== *)
(** * 6. A Hoare-style rule set: invariants over effects *)

Section Hoare.
  Variable Inv : world -> Prop.              (* must hold in every intermediate world *)
  Variable G : world -> effect -> Prop.      (* what may be emitted in a world satisfying Inv *)

  (* every effect of [tr], applied in turn from [w], is allowed in the world
     reached so far, and [Inv] holds again after it *)
  Fixpoint steps_ok (w : world) (tr : list effect) : Prop :=
    match tr with
    | [] => True
    | e :: r => G w e /\ Inv (apply_effect e w) /\ steps_ok (apply_effect e w) r
    end.

  Lemma steps_ok_nil : forall w, steps_ok w [].
  Proof. intro w. exact Logic.I. Qed.

  Lemma steps_ok_one : forall w e, G w e -> Inv (apply_effect e w) -> steps_ok w [e].
  Proof. intros w e Hg Hi. cbn. auto. Qed.

  Lemma steps_ok_app : forall a b w,
    steps_ok w (a ++ b) <-> steps_ok w a /\ steps_ok (apply_effects a w) b.
  Proof.
    induction a as [|e a IH]; intros b w.
    - cbn. tauto.
    - cbn [app steps_ok]. rewrite apply_effects_cons, IH. tauto.
  Qed.

  Lemma steps_ok_end : forall tr w, Inv w -> steps_ok w tr -> Inv (apply_effects tr w).
  Proof.
    induction tr as [|e tr IH]; intros w Hi Hs.
    - exact Hi.
    - rewrite apply_effects_cons. destruct Hs as (_ & Hi' & Hs'). apply IH; assumption.
  Qed.

  Lemma steps_ok_firstn : forall n tr w, steps_ok w tr -> steps_ok w (firstn n tr).
  Proof.
    induction n as [|n IH]; intros tr w Hs.
    - exact Logic.I.
    - destruct tr as [|e tr]; [exact Logic.I|].
      cbn [firstn steps_ok]. destruct Hs as (Hg & Hi & Hs'). auto.
  Qed.

  (* [Inv] holds in the world reached after ANY prefix of the trace *)
  Lemma steps_ok_prefix : forall tr w n,
    Inv w -> steps_ok w tr -> Inv (apply_effects (firstn n tr) w).
  Proof.
    intros tr w n Hi Hs. apply steps_ok_end; [exact Hi | apply steps_ok_firstn; exact Hs].
  Qed.

  Lemma steps_ok_prefix_app : forall l1 l2 w,
    Inv w -> steps_ok w (l1 ++ l2) -> Inv (apply_effects l1 w).
  Proof.
    intros l1 l2 w Hi Hs. apply steps_ok_app in Hs. apply steps_ok_end; tauto.
  Qed.

  (* each single effect was allowed where it was emitted *)
  Lemma steps_ok_split : forall l1 e l2 w,
    steps_ok w (l1 ++ e :: l2) ->
    G (apply_effects l1 w) e /\ Inv (apply_effect e (apply_effects l1 w)).
  Proof.
    intros l1 e l2 w Hs. apply steps_ok_app in Hs. destruct Hs as (_ & Hg & Hi & _). auto.
  Qed.

  (* the triple: from any state (ANY fault setting) whose world satisfies
     [Inv] and [P], [m] performs a trace that is [steps_ok]; if it answers
     [Ok a] then [Q a] holds of the final world *)
  Definition hoare {A} (P : world -> Prop) (m : M A) (Q : A -> world -> Prop) : Prop :=
    forall s, Inv (ms_w s) -> P (ms_w s) ->
      exists tr,
        ms_trace (snd (m s)) = ms_trace s ++ tr /\
        steps_ok (ms_w s) tr /\
        ms_w (snd (m s)) = apply_effects tr (ms_w s) /\
        forall a, fst (m s) = Ok a -> Q a (ms_w (snd (m s))).

  Definition emits {A} (m : M A) : Prop := hoare (fun _ => True) m (fun _ _ => True).

  (* ---------- structural rules ---------- *)
  Lemma hoare_conseq : forall A (P P' : world -> Prop) (m : M A) (Q Q' : A -> world -> Prop),
    hoare P m Q ->
    (forall w, Inv w -> P' w -> P w) ->
    (forall a w, Inv w -> Q a w -> Q' a w) ->
    hoare P' m Q'.
  Proof.
    intros A P P' m Q Q' Hm Hp Hq s Hi Hp'.
    destruct (Hm s Hi (Hp _ Hi Hp')) as (tr & Ht & Hs & Hw & Hr).
    exists tr. repeat split; try assumption.
    intros a Ha. apply Hq; [|apply Hr; exact Ha].
    rewrite Hw. apply steps_ok_end; assumption.
  Qed.

  (* fix the current world: the premise may talk about it as a Coq variable *)
  Lemma hoare_world : forall A (P : world -> Prop) (m : M A) Q,
    (forall w, Inv w -> P w -> hoare (eq w) m Q) -> hoare P m Q.
  Proof. intros A P m Q H s Hi Hp. exact (H (ms_w s) Hi Hp s Hi eq_refl). Qed.

  Lemma hoare_at : forall A (P : world -> Prop) (m : M A) Q w,
    hoare P m Q -> P w -> hoare (eq w) m Q.
  Proof. intros A P m Q w H Hp s Hi He. apply H; [exact Hi | rewrite <- He; exact Hp]. Qed.

  (* a pure precondition moves to the Coq context *)
  Lemma hoare_pure : forall A (phi : Prop) (P : world -> Prop) (m : M A) Q,
    (phi -> hoare P m Q) -> hoare (fun w => phi /\ P w) m Q.
  Proof. intros A phi P m Q H s Hi [Hphi Hp]. exact (H Hphi s Hi Hp). Qed.

  Lemma hoare_false : forall A (P : world -> Prop) (m : M A) Q,
    (forall w, Inv w -> P w -> False) -> hoare P m Q.
  Proof. intros A P m Q H s Hi Hp. destruct (H _ Hi Hp). Qed.

  Lemma hoare_ext : forall A (P : world -> Prop) (m m' : M A) Q,
    (forall s, m s = m' s) -> hoare P m Q -> hoare P m' Q.
  Proof. intros A P m m' Q He H s Hi Hp. rewrite <- He. apply H; assumption. Qed.

  (* ---------- primitives (weakest-precondition shape) ---------- *)
  Lemma hoare_noeffect : forall A (P : world -> Prop) (m : M A) (r : mstate -> res A) (Q : A -> world -> Prop),
    (forall s, m s = (r s, s)) ->
    (forall s a, Inv (ms_w s) -> P (ms_w s) -> r s = Ok a -> Q a (ms_w s)) ->
    hoare P m Q.
  Proof.
    intros A P m r Q Hm Hq s Hi Hp. exists []. rewrite Hm. cbn [fst snd].
    rewrite app_nil_r. repeat split. intros a Ha. apply Hq; assumption.
  Qed.

  Lemma hoare_ret : forall A (P : world -> Prop) (a : A) (Q : A -> world -> Prop),
    (forall w, Inv w -> P w -> Q a w) -> hoare P (ret a) Q.
  Proof.
    intros A P a Q H. apply (hoare_noeffect _ _ _ (fun _ => Ok a)); [reflexivity|].
    intros s a' Hi Hp Ha. injection Ha as <-. apply H; assumption.
  Qed.

  Lemma hoare_fail : forall A (P : world -> Prop) (Q : A -> world -> Prop), hoare P fail Q.
  Proof.
    intros A P Q. apply (hoare_noeffect _ _ _ (fun _ => Err)); [reflexivity|].
    intros s a _ _ Ha. discriminate Ha.
  Qed.

  Lemma hoare_panic : forall A (P : world -> Prop) (Q : A -> world -> Prop), hoare P panic Q.
  Proof.
    intros A P Q. apply (hoare_noeffect _ _ _ (fun _ => Panic)); [reflexivity|].
    intros s a _ _ Ha. discriminate Ha.
  Qed.

  Lemma hoare_getw : forall (P : world -> Prop) (Q : world -> world -> Prop),
    (forall w, Inv w -> P w -> Q w w) -> hoare P getw Q.
  Proof.
    intros P Q H. apply (hoare_noeffect _ _ _ (fun s => Ok (ms_w s))); [reflexivity|].
    intros s a Hi Hp Ha. injection Ha as <-. apply H; assumption.
  Qed.

  Lemma hoare_of_opt : forall A (P : world -> Prop) (o : option A) (Q : A -> world -> Prop),
    (forall a w, o = Some a -> Inv w -> P w -> Q a w) -> hoare P (of_opt o) Q.
  Proof.
    intros A P o Q H. destruct o as [a|]; [|apply hoare_fail].
    apply hoare_ret. intros w Hi Hp. apply H; auto.
  Qed.

  Lemma hoare_guard : forall (P : world -> Prop) (b : bool) (Q : unit -> world -> Prop),
    (forall w, b = true -> Inv w -> P w -> Q tt w) -> hoare P (guard b) Q.
  Proof.
    intros P b Q H. destruct b; [|apply hoare_fail].
    apply hoare_ret. intros w Hi Hp. apply H; auto.
  Qed.

  Lemma hoare_emit : forall (P : world -> Prop) (e : effect) (Q : unit -> world -> Prop),
    (forall w, Inv w -> P w -> G w e /\ Inv (apply_effect e w) /\ Q tt (apply_effect e w)) ->
    hoare P (emit e) Q.
  Proof.
    intros P e Q H s Hi Hp. destruct (H _ Hi Hp) as (Hg & Hi' & Hq).
    unfold emit. destruct (ms_fault s) as [[|k]|].
    - exists []. cbn [fst snd ms_w ms_trace]. rewrite app_nil_r. repeat split.
      intros a Ha. discriminate Ha.
    - exists [e]. cbn [fst snd ms_w ms_trace]. repeat split; try assumption.
      intros [] _. exact Hq.
    - exists [e]. cbn [fst snd ms_w ms_trace]. repeat split; try assumption.
      intros [] _. exact Hq.
  Qed.

  Lemma hoare_bind : forall A B (P : world -> Prop) (m : M A) (f : A -> M B)
                            (R : A -> world -> Prop) (Q : B -> world -> Prop),
    hoare P m R -> (forall a, hoare (R a) (f a) Q) -> hoare P (bind m f) Q.
  Proof.
    intros A B P m f R Q Hm Hf s Hi Hp.
    destruct (Hm s Hi Hp) as (tr1 & Ht1 & Hs1 & Hw1 & Hr1).
    unfold bind. destruct (m s) as [r s1]. cbn [fst snd] in Ht1, Hw1, Hr1.
    destruct r as [a| |].
    - assert (Hi1 : Inv (ms_w s1)) by (rewrite Hw1; apply steps_ok_end; assumption).
      destruct (Hf a s1 Hi1 (Hr1 a eq_refl)) as (tr2 & Ht2 & Hs2 & Hw2 & Hr2).
      exists (tr1 ++ tr2). rewrite Ht2, Ht1, app_assoc. split; [reflexivity|].
      split; [apply steps_ok_app; split; [exact Hs1 | rewrite <- Hw1; exact Hs2]|].
      split; [rewrite Hw2, Hw1, apply_effects_app; reflexivity | exact Hr2].
    - exists tr1. cbn [fst snd]. repeat split; try assumption. intros a Ha. discriminate Ha.
    - exists tr1. cbn [fst snd]. repeat split; try assumption. intros a Ha. discriminate Ha.
  Qed.

  (* loop rule: [J] is a loop invariant on worlds (besides [Inv]) *)
  Lemma hoare_iterM : forall A (J : world -> Prop) (f : A -> M unit) (l : list A),
    (forall x, In x l -> hoare J (f x) (fun _ => J)) ->
    hoare J (iterM f l) (fun _ => J).
  Proof.
    intros A J f l. induction l as [|x r IH]; intro Hf.
    - apply hoare_ret. auto.
    - cbn [iterM]. apply hoare_bind with (R := fun _ => J).
      + apply Hf. left. reflexivity.
      + intros _. apply IH. intros y Hy. apply Hf. right. exact Hy.
  Qed.

  Lemma bind_assoc : forall A B C (m : M A) (f : A -> M B) (g : B -> M C) s,
    bind (bind m f) g s = bind m (fun a => bind (f a) g) s.
  Proof.
    intros A B C m f g s. unfold bind. destruct (m s) as [[a| |] s1]; reflexivity.
  Qed.

  Lemma hoare_assoc : forall A B C (P : world -> Prop) (m : M A) (f : A -> M B) (g : B -> M C) Q,
    hoare P (bind m (fun a => bind (f a) g)) Q -> hoare P (bind (bind m f) g) Q.
  Proof.
    intros A B C P m f g Q H. apply (hoare_ext _ _ _ _ _ (fun s => eq_sym (bind_assoc _ _ _ m f g s))).
    exact H.
  Qed.

  (* ---------- rules for [emits] (no pre/postcondition) ---------- *)
  Lemma emits_hoare : forall A (P : world -> Prop) (m : M A), emits m -> hoare P m (fun _ _ => True).
  Proof. intros A P m H. apply (hoare_conseq _ _ _ _ _ _ H); auto. Qed.

  Lemma hoare_emits : forall A (m : M A) Q, hoare (fun _ => True) m Q -> emits m.
  Proof. intros A m Q H. apply (hoare_conseq _ _ _ _ _ _ H); auto. Qed.

  (* to prove [emits m], fix the starting world *)
  Lemma emits_intro : forall A (m : M A),
    (forall w, Inv w -> hoare (eq w) m (fun _ _ => True)) -> emits m.
  Proof. intros A m H. apply hoare_world. intros w Hi _. apply H. exact Hi. Qed.

  Lemma emits_ret : forall A (a : A), emits (ret a).
  Proof. intros A a. apply hoare_ret. auto. Qed.
  Lemma emits_fail : forall A, emits (@fail A).
  Proof. intros A. apply hoare_fail. Qed.
  Lemma emits_panic : forall A, emits (@panic A).
  Proof. intros A. apply hoare_panic. Qed.
  Lemma emits_getw : emits getw.
  Proof. apply hoare_getw. auto. Qed.
  Lemma emits_of_opt : forall A (o : option A), emits (of_opt o).
  Proof. intros A o. apply hoare_of_opt. auto. Qed.
  Lemma emits_guard : forall b, emits (guard b).
  Proof. intros b. apply hoare_guard. auto. Qed.

  Lemma emits_emit : forall e,
    (forall w, Inv w -> G w e /\ Inv (apply_effect e w)) -> emits (emit e).
  Proof.
    intros e H. apply hoare_emit. intros w Hi _. destruct (H w Hi). auto.
  Qed.

  Lemma emits_bind : forall A B (m : M A) (f : A -> M B),
    emits m -> (forall a, emits (f a)) -> emits (bind m f).
  Proof. intros A B m f Hm Hf. apply hoare_bind with (R := fun _ _ => True); [exact Hm | exact Hf]. Qed.

  Lemma emits_iterM : forall A (f : A -> M unit) l,
    (forall x, In x l -> emits (f x)) -> emits (iterM f l).
  Proof. intros A f l H. apply (hoare_iterM _ (fun _ => True)). exact H. Qed.

  (* the continuation may assume the guard / the option / learn the world *)
  Lemma emits_bind_guard : forall B b (f : unit -> M B),
    (b = true -> emits (f tt)) -> emits (bind (guard b) f).
  Proof.
    intros B b f H. destruct b.
    - apply emits_bind; [apply emits_guard | intros []; apply H; reflexivity].
    - apply hoare_bind with (R := fun _ _ => False); [apply hoare_fail|].
      intros a. apply hoare_false. auto.
  Qed.

  Lemma emits_bind_of_opt : forall A B (o : option A) (f : A -> M B),
    (forall a, o = Some a -> emits (f a)) -> emits (bind (of_opt o) f).
  Proof.
    intros A B o f H. destruct o as [a|].
    - apply hoare_bind with (R := fun a' _ => a' = a).
      + apply hoare_ret. auto.
      + intros a'. apply hoare_world. intros w _ ->. apply hoare_at with (P := fun _ => True); [|exact Logic.I].
        apply H. reflexivity.
    - apply hoare_bind with (R := fun _ _ => False); [apply hoare_fail|].
      intros a. apply hoare_false. auto.
  Qed.

  (* the continuation receives the current world [w], [Inv w], and runs AT [w] *)
  Lemma emits_bind_getw : forall B (f : world -> M B),
    (forall w, Inv w -> hoare (eq w) (f w) (fun _ _ => True)) -> emits (bind getw f).
  Proof.
    intros B f H. apply hoare_bind with (R := fun a w => a = w).
    - apply hoare_getw. auto.
    - intros a. apply hoare_world. intros w Hi ->. apply H. exact Hi.
  Qed.

  (* a pure precondition in front of [emits] *)
  Lemma emits_pre : forall A (phi : Prop) (m : M A),
    (phi -> emits m) -> hoare (fun _ => phi) m (fun _ _ => True).
  Proof.
    intros A phi m H s Hi Hphi. exact (H Hphi s Hi Logic.I).
  Qed.

  (* ---------- symbolic execution AT a known world: [hoare (eq w) m Q] ---------- *)
  Lemma at_Inv : forall A (m : M A) Q w, (Inv w -> hoare (eq w) m Q) -> hoare (eq w) m Q.
  Proof. intros A m Q w H s Hi He. apply H; [rewrite He; exact Hi | exact Hi | exact He]. Qed.

  Lemma at_ret : forall A (a : A) (Q : A -> world -> Prop) w, (Inv w -> Q a w) -> hoare (eq w) (ret a) Q.
  Proof. intros A a Q w H. apply hoare_ret. intros w' Hi <-. apply H. exact Hi. Qed.

  Lemma at_getw : forall (Q : world -> world -> Prop) w, (Inv w -> Q w w) -> hoare (eq w) getw Q.
  Proof. intros Q w H. apply hoare_getw. intros w' Hi <-. apply H. exact Hi. Qed.

  Lemma at_guard : forall b (Q : unit -> world -> Prop) w,
    (b = true -> Inv w -> Q tt w) -> hoare (eq w) (guard b) Q.
  Proof. intros b Q w H. apply hoare_guard. intros w' Hb Hi <-. apply H; assumption. Qed.

  Lemma at_of_opt : forall A (o : option A) (Q : A -> world -> Prop) w,
    (forall a, o = Some a -> Inv w -> Q a w) -> hoare (eq w) (of_opt o) Q.
  Proof. intros A o Q w H. apply hoare_of_opt. intros a w' Ho Hi <-. apply H; assumption. Qed.

  Lemma at_emit : forall e (Q : unit -> world -> Prop) w,
    (Inv w -> G w e /\ Inv (apply_effect e w) /\ Q tt (apply_effect e w)) ->
    hoare (eq w) (emit e) Q.
  Proof. intros e Q w H. apply hoare_emit. intros w' Hi <-. apply H. exact Hi. Qed.

  (* general sequencing at a world: [R] describes result and world after [m] *)
  Lemma at_bind : forall A B (m : M A) (f : A -> M B) (R : A -> world -> Prop) Q w,
    hoare (eq w) m R ->
    (forall a w', Inv w' -> R a w' -> hoare (eq w') (f a) Q) ->
    hoare (eq w) (bind m f) Q.
  Proof.
    intros A B m f R Q w Hm Hf. apply hoare_bind with (R := R); [exact Hm|].
    intros a. apply hoare_world. intros w' Hi Hr. apply Hf; assumption.
  Qed.

  (* call a procedure with a proven specification [hoare P m R] *)
  Lemma at_bind_call : forall A B (P : world -> Prop) (m : M A) (f : A -> M B)
                             (R : A -> world -> Prop) Q w,
    hoare P m R -> (Inv w -> P w) ->
    (forall a w', Inv w' -> R a w' -> hoare (eq w') (f a) Q) ->
    hoare (eq w) (bind m f) Q.
  Proof.
    intros A B P m f R Q w Hm Hp Hf. apply at_bind with (R := R); [|exact Hf].
    apply at_Inv. intro Hi. apply hoare_at with (P := P); [exact Hm | apply Hp; exact Hi].
  Qed.

  (* call a procedure known only to be [emits]: the world after it is unknown *)
  Lemma at_bind_emits : forall A B (m : M A) (f : A -> M B) Q w,
    emits m ->
    (forall a w', Inv w' -> hoare (eq w') (f a) Q) ->
    hoare (eq w) (bind m f) Q.
  Proof.
    intros A B m f Q w Hm Hf.
    apply at_bind_call with (P := fun _ => True) (R := fun _ _ => True); [exact Hm | auto |].
    intros a w' Hi _. apply Hf. exact Hi.
  Qed.

  Lemma at_call : forall A (P : world -> Prop) (m : M A) (R Q : A -> world -> Prop) w,
    hoare P m R -> (Inv w -> P w) -> (forall a w', Inv w' -> R a w' -> Q a w') ->
    hoare (eq w) m Q.
  Proof.
    intros A P m R Q w Hm Hp Hq. apply at_Inv. intro Hi.
    apply hoare_conseq with (P := P) (Q := R); [exact Hm | | exact Hq].
    intros w' _ <-. apply Hp. exact Hi.
  Qed.

  Lemma at_bind_ret : forall A B (a : A) (f : A -> M B) Q w,
    hoare (eq w) (f a) Q -> hoare (eq w) (bind (ret a) f) Q.
  Proof. intros A B a f Q w H. exact H. Qed.

  Lemma at_bind_fail : forall A B (f : A -> M B) Q w, hoare (eq w) (bind fail f) Q.
  Proof. intros A B f Q w. apply (hoare_fail B (eq w) Q). Qed.

  Lemma at_bind_panic : forall A B (f : A -> M B) Q w, hoare (eq w) (bind panic f) Q.
  Proof. intros A B f Q w. apply (hoare_panic B (eq w) Q). Qed.

  (* the continuation runs at the SAME world, which [getw] returns *)
  Lemma at_bind_getw : forall B (f : world -> M B) Q w,
    hoare (eq w) (f w) Q -> hoare (eq w) (bind getw f) Q.
  Proof.
    intros B f Q w H. apply at_bind with (R := fun a w' => a = w /\ w' = w).
    - apply at_getw. auto.
    - intros a w' _ [-> ->]. exact H.
  Qed.

  (* after [guard b] the continuation may assume [b = true] *)
  Lemma at_bind_guard : forall B b (f : unit -> M B) Q w,
    (b = true -> hoare (eq w) (f tt) Q) -> hoare (eq w) (bind (guard b) f) Q.
  Proof.
    intros B b f Q w H. apply at_bind with (R := fun _ w' => b = true /\ w' = w).
    - apply at_guard. auto.
    - intros [] w' _ [Hb ->]. apply H. exact Hb.
  Qed.

  (* after [of_opt o] the continuation may assume [o = Some a] *)
  Lemma at_bind_of_opt : forall A B (o : option A) (f : A -> M B) Q w,
    (forall a, o = Some a -> hoare (eq w) (f a) Q) -> hoare (eq w) (bind (of_opt o) f) Q.
  Proof.
    intros A B o f Q w H. apply at_bind with (R := fun a w' => o = Some a /\ w' = w).
    - apply at_of_opt. auto.
    - intros a w' _ [Ho ->]. apply H. exact Ho.
  Qed.

  (* an effect: show it is allowed HERE (all guards passed so far are in the
     context) and re-establish [Inv]; the continuation runs at the new world *)
  Lemma at_bind_emit : forall B e (f : unit -> M B) Q w,
    (Inv w -> G w e /\ Inv (apply_effect e w)) ->
    hoare (eq (apply_effect e w)) (f tt) Q ->
    hoare (eq w) (bind (emit e) f) Q.
  Proof.
    intros B e f Q w He H. apply at_bind with (R := fun _ w' => w' = apply_effect e w).
    - apply at_emit. intro Hi. destruct (He Hi). auto.
    - intros [] w' _ ->. exact H.
  Qed.

  (* loop at a world with loop invariant [J] *)
  Lemma at_iterM : forall A (J : world -> Prop) (f : A -> M unit) (l : list A) (Q : unit -> world -> Prop) w,
    (Inv w -> J w) ->
    (forall x w', In x l -> Inv w' -> J w' -> hoare (eq w') (f x) (fun _ => J)) ->
    (forall w', Inv w' -> J w' -> Q tt w') ->
    hoare (eq w) (iterM f l) Q.
  Proof.
    intros A J f l Q w Hj Hf Hq.
    apply at_call with (P := J) (R := fun _ => J); [| exact Hj | intros [] w' Hi Hjw; apply Hq; assumption].
    apply hoare_iterM. intros x Hx. apply hoare_world. intros w' Hi Hjw. apply Hf; assumption.
  Qed.

  Lemma at_bind_iterM : forall A B (J : world -> Prop) (f : A -> M unit) (l : list A) (g : unit -> M B) Q w,
    (Inv w -> J w) ->
    (forall x w', In x l -> Inv w' -> J w' -> hoare (eq w') (f x) (fun _ => J)) ->
    (forall w', Inv w' -> J w' -> hoare (eq w') (g tt) Q) ->
    hoare (eq w) (bind (iterM f l) g) Q.
  Proof.
    intros A B J f l g Q w Hj Hf Hg. apply at_bind with (R := fun _ => J).
    - apply at_iterM with (J := J); auto.
    - intros [] w' Hi Hjw. apply Hg; assumption.
  Qed.

  (* ---------- soundness ---------- *)
  Theorem hoare_sound : forall A (P : world -> Prop) (m : M A) Q w t fk r s',
    hoare P m Q -> Inv w -> P w -> m (mkMS w t fk) = (r, s') ->
    exists tr,
      ms_trace s' = t ++ tr /\ ms_w s' = apply_effects tr w /\
      steps_ok w tr /\ Inv (ms_w s') /\
      (forall n, Inv (apply_effects (firstn n tr) w)) /\
      (forall l1 l2, tr = l1 ++ l2 -> Inv (apply_effects l1 w)) /\
      (forall a, r = Ok a -> Q a (ms_w s')).
  Proof.
    intros A P m Q w t fk r s' Hm Hi Hp Hrun.
    destruct (Hm (mkMS w t fk) Hi Hp) as (tr & Ht & Hs & Hw & Hr).
    rewrite Hrun in Ht, Hw, Hr. cbn [fst snd ms_w ms_trace] in Ht, Hs, Hw, Hr.
    exists tr. split; [exact Ht|]. split; [exact Hw|]. split; [exact Hs|].
    split; [rewrite Hw; apply steps_ok_end; assumption|].
    split; [intro n; apply steps_ok_prefix; assumption|].
    split; [intros l1 l2 ->; apply steps_ok_prefix_app with (l2 := l2); assumption | exact Hr].
  Qed.

  (* fault-free run, in the shape of [run_m] *)
  Theorem emits_sound : forall A (m : M A) w r w' tr,
    emits m -> Inv w -> run_m m w = (r, w', tr) ->
    Inv w' /\ w' = apply_effects tr w /\ steps_ok w tr /\
    (forall n, Inv (apply_effects (firstn n tr) w)) /\
    (forall l1 l2, tr = l1 ++ l2 -> Inv (apply_effects l1 w)).
  Proof.
    intros A m w r w' tr Hm Hi Hrun. unfold run_m in Hrun.
    destruct (m (mkMS w [] None)) as [r0 s'] eqn:Em. injection Hrun as _ Hw' Htr.
    destruct (hoare_sound _ _ _ _ _ _ _ _ _ Hm Hi Logic.I Em) as (tr0 & Ht & Hw & Hs & Hi' & Hpre & Hpre' & _).
    cbn [app] in Ht. rewrite Htr in Ht. subst tr0. rewrite Hw' in Hw, Hi'. auto.
  Qed.

  (* the same under an injected fault: the world the command stops in
     still satisfies [Inv] *)
  Theorem emits_sound_fault : forall A (m : M A) w k r s',
    emits m -> Inv w -> m (mkMS w [] (Some k)) = (r, s') ->
    Inv (ms_w s') /\ ms_w s' = apply_effects (ms_trace s') w /\ steps_ok w (ms_trace s').
  Proof.
    intros A m w k r s' Hm Hi Hrun.
    destruct (hoare_sound _ _ _ _ _ _ _ _ _ Hm Hi Logic.I Hrun) as (tr0 & Ht & Hw & Hs & Hi' & _).
    cbn [app] in Ht. rewrite Ht. auto.
  Qed.

  (* lifting to [step] and [run] *)
  Theorem step_invariant :
    (forall e c, emits (run_cmd e c)) ->
    (forall u w, Inv w -> Inv (apply_edit u w)) ->
    forall a w, Inv w -> Inv (step_w a w).
  Proof.
    intros Hc Hu [e c|u] w Hi; unfold step_w; cbn [step].
    - destruct (run_m (run_cmd e c) w) as [[r w'] tr] eqn:Erun.
      destruct (emits_sound _ _ _ _ _ _ (Hc e c) Hi Erun) as (Hi' & _).
      destruct r; exact Hi'.
    - cbn [fst]. apply Hu. exact Hi.
  Qed.

  Theorem run_invariant :
    (forall e c, emits (run_cmd e c)) ->
    (forall u w, Inv w -> Inv (apply_edit u w)) ->
    forall h w, Inv w -> Inv (run h w).
  Proof.
    intros Hc Hu h. induction h as [|a h IH]; intros w Hi.
    - exact Hi.
    - unfold run. cbn [fold_left]. apply IH. apply step_invariant; assumption.
  Qed.
End Hoare.

Arguments hoare Inv G {A} P m Q.
Arguments emits Inv G {A} m.

(* [emits] in the shape "for a fault-free start state" *)
Lemma emits_elim : forall Inv G A (m : M A) s r s',
  emits Inv G m -> Inv (ms_w s) -> m s = (r, s') ->
  exists tr, ms_trace s' = ms_trace s ++ tr /\ steps_ok Inv G (ms_w s) tr
             /\ ms_w s' = apply_effects tr (ms_w s) /\ Inv (ms_w s').
Proof.
  intros Inv G A m s r s' Hm Hi Hrun. destruct (Hm s Hi Logic.I) as (tr & Ht & Hs & Hw & _).
  rewrite Hrun in Ht, Hw. cbn [snd] in Ht, Hw. exists tr.
  split; [exact Ht|]. split; [exact Hs|]. split; [exact Hw|].
  rewrite Hw. apply (steps_ok_end Inv G tr); assumption.
Qed.

(* ---------- changing the invariant / the effect predicate ---------- *)
Lemma steps_ok_weaken : forall (Inv : world -> Prop) (G G' : world -> effect -> Prop),
  (forall w e, Inv w -> G w e -> G' w e) ->
  forall tr w, Inv w -> steps_ok Inv G w tr -> steps_ok Inv G' w tr.
Proof.
  intros Inv G G' Hg tr. induction tr as [|e tr IH]; intros w Hi Hs.
  - exact Logic.I.
  - destruct Hs as (Hge & Hi' & Hs'). cbn [steps_ok]. auto.
Qed.

Lemma hoare_weaken_G : forall (Inv : world -> Prop) (G G' : world -> effect -> Prop)
                              A (P : world -> Prop) (m : M A) Q,
  (forall w e, Inv w -> G w e -> G' w e) -> hoare Inv G P m Q -> hoare Inv G' P m Q.
Proof.
  intros Inv G G' A P m Q Hg Hm s Hi Hp. destruct (Hm s Hi Hp) as (tr & Ht & Hs & Hw & Hr).
  exists tr. split; [exact Ht|]. split; [|auto]. apply (steps_ok_weaken Inv G G' Hg); assumption.
Qed.

Lemma steps_ok_conj : forall (I1 I2 : world -> Prop) (G1 G2 : world -> effect -> Prop) tr w,
  steps_ok I1 G1 w tr -> steps_ok I2 G2 w tr ->
  steps_ok (fun w => I1 w /\ I2 w) (fun w e => G1 w e /\ G2 w e) w tr.
Proof.
  intros I1 I2 G1 G2 tr. induction tr as [|e tr IH]; intros w H1 H2.
  - exact Logic.I.
  - destruct H1 as (Hg1 & Hi1 & Hs1). destruct H2 as (Hg2 & Hi2 & Hs2).
    cbn [steps_ok]. auto.
Qed.

(* two invariants proved separately hold together *)
Lemma hoare_conj : forall (I1 I2 : world -> Prop) (G1 G2 : world -> effect -> Prop)
                          A (P1 P2 : world -> Prop) (m : M A) (Q1 Q2 : A -> world -> Prop),
  hoare I1 G1 P1 m Q1 -> hoare I2 G2 P2 m Q2 ->
  hoare (fun w => I1 w /\ I2 w) (fun w e => G1 w e /\ G2 w e)
        (fun w => P1 w /\ P2 w) m (fun a w => Q1 a w /\ Q2 a w).
Proof.
  intros I1 I2 G1 G2 A P1 P2 m Q1 Q2 H1 H2 s [Hi1 Hi2] [Hp1 Hp2].
  destruct (H1 s Hi1 Hp1) as (tr1 & Ht1 & Hs1 & Hw1 & Hr1).
  destruct (H2 s Hi2 Hp2) as (tr2 & Ht2 & Hs2 & Hw2 & Hr2).
  assert (Heq : tr2 = tr1).
  { apply (app_inv_head (ms_trace s)). rewrite <- Ht1, <- Ht2. reflexivity. }
  subst tr2. exists tr1. split; [exact Ht1|].
  split; [apply steps_ok_conj; assumption|]. split; [exact Hw1|].
  intros a Ha. split; [apply Hr1 | apply Hr2]; exact Ha.
Qed.

Lemma emits_conj : forall (I1 I2 : world -> Prop) (G1 G2 : world -> effect -> Prop) A (m : M A),
  emits I1 G1 m -> emits I2 G2 m ->
  emits (fun w => I1 w /\ I2 w) (fun w e => G1 w e /\ G2 w e) m.
Proof.
  intros I1 I2 G1 G2 A m H1 H2.
  apply (hoare_conseq _ _ _ _ _ _ _ _ (hoare_conj _ _ _ _ _ _ _ _ _ _ H1 H2)); auto.
Qed.

(* ---------- the symbolic-execution tactic ---------- *)
(* Goal shape: [hoare Inv G (eq w) m Q].  One step consumes the first
   primitive of [m]; guards and options that were passed become hypotheses;
   at an [emit] the first subgoal is [G w e /\ Inv (apply_effect e w)] (after
   [intro] of [Inv w]), the second continues at the new world.
   It never unfolds procedure names and stops at calls and loops; use
   [hinline] (unfold the callee), [at_bind_call], [at_bind_emits],
   [at_bind_iterM] there. *)
Ltac hstep :=
  lazymatch goal with
  | |- hoare _ _ (eq _) (bind (bind _ _) _) _ => apply hoare_assoc
  | |- hoare _ _ (eq _) (bind getw _) _ => apply at_bind_getw; cbv beta
  | |- hoare _ _ (eq _) (bind (ret _) _) _ => apply at_bind_ret; cbv beta
  | |- hoare _ _ (eq _) (bind (guard _) _) _ => apply at_bind_guard; intro
  | |- hoare _ _ (eq _) (bind (of_opt _) _) _ => apply at_bind_of_opt; intros ? ?
  | |- hoare _ _ (eq _) (bind (emit _) _) _ => apply at_bind_emit; [ intro | ]
  | |- hoare _ _ (eq _) (bind fail _) _ => apply at_bind_fail
  | |- hoare _ _ (eq _) (bind panic _) _ => apply at_bind_panic
  | |- hoare _ _ (eq _) (bind (let _ := _ in _) _) _ => cbv zeta
  | |- hoare _ _ (eq _) (bind (match ?x with _ => _ end) _) _ => destruct x eqn:?; cbv beta iota
  | |- hoare _ _ (eq _) (let _ := _ in _) _ => cbv zeta
  | |- hoare _ _ (eq _) (match ?x with _ => _ end) _ => destruct x eqn:?; cbv beta iota
  | |- hoare _ _ _ fail _ => apply hoare_fail
  | |- hoare _ _ _ panic _ => apply hoare_panic
  | |- hoare _ _ (eq _) (ret _) _ => apply at_ret; intro
  | |- hoare _ _ (eq _) getw _ => apply at_getw; intro
  | |- hoare _ _ (eq _) (guard _) _ => apply at_guard; intros ? ?
  | |- hoare _ _ (eq _) (of_opt _) _ => apply at_of_opt; intros ? ? ?
  | |- hoare _ _ (eq _) (emit _) _ => apply at_emit; intro
  | |- emits _ _ _ => apply emits_intro; intros ? ?
  end.

Ltac hsteps := repeat hstep.

(* unfold the procedure that is called first *)
Ltac hinline :=
  lazymatch goal with
  | |- hoare _ _ _ (bind ?m _) _ =>
      let h := head_of m in
      lazymatch h with
      | @iterM => fail "hinline: a loop; use at_bind_iterM"
      | _ => unfold h
      end
  | |- hoare _ _ _ ?m _ =>
      let h := head_of m in
      lazymatch h with
      | @iterM => fail "hinline: a loop; use at_iterM"
      | _ => unfold h
      end
  | |- emits _ _ ?m => let h := head_of m in unfold h
  end.

(* demonstration: [update-ref] only ever points a ref at an id that is in the
   store at that moment (the guard passed earlier is available at the emit) *)
Definition demo_G (w : world) (e : effect) : Prop :=
  match e with
  | ESetRef _ id => st_lookup (w_objs w) id <> None
  | _ => True
  end.

Example cmd_update_ref_emits : forall args, emits (fun _ => True) demo_G (cmd_update_ref args).
Proof.
  intros args. hinline. hsteps; try exact Logic.I.
  - (* the ESetRef: the guard on [st_lookup] passed earlier is in the context *)
    split; [|exact Logic.I]. cbn [demo_G].
    match goal with
    | Hg : (match st_lookup ?st ?i with Some _ => true | None => false end) = true
      |- st_lookup ?st ?i <> None => intro Hn; rewrite Hn in Hg; discriminate Hg
    end.
  - (* the call of [head_update], inlined *)
    hinline. hsteps; try exact Logic.I. split; exact Logic.I.
Qed.

(* ================================================================== *)
(** * 7. Frame lemmas: which fields [apply_effect e] touches *)

(* One equation per (field, effect constructor): the new value when the
   effect writes the field, the old one otherwise.  All are registered in the
   rewrite database [wfields]: [autorewrite with wfields] normalises every
   field projection of an [apply_effect] (and of [apply_edit] / [apply_effects]
   of explicit lists). *)
Lemma w_inited_EInit : forall w, w_inited (apply_effect EInit w) = true.
Proof. reflexivity. Qed.
Lemma w_head_EInit : forall w, w_head (apply_effect EInit w) = str "main"%string.
Proof. reflexivity. Qed.
Lemma w_refs_EInit : forall w, w_refs (apply_effect EInit w) = w_refs w.
Proof. reflexivity. Qed.
Lemma w_index_EInit : forall w, w_index (apply_effect EInit w) = w_index w.
Proof. reflexivity. Qed.
Lemma w_objs_EInit : forall w, w_objs (apply_effect EInit w) = w_objs w.
Proof. reflexivity. Qed.
Lemma w_coll_EInit : forall w, w_coll (apply_effect EInit w) = w_coll w.
Proof. reflexivity. Qed.
Lemma w_hlog_EInit : forall w, w_hlog (apply_effect EInit w) = w_hlog w.
Proof. reflexivity. Qed.
Lemma w_blogs_EInit : forall w, w_blogs (apply_effect EInit w) = w_blogs w.
Proof. reflexivity. Qed.
Lemma w_lcfg_EInit : forall w, w_lcfg (apply_effect EInit w) = CfgFile (Some []).
Proof. reflexivity. Qed.
Lemma w_gcfg_EInit : forall w, w_gcfg (apply_effect EInit w) = w_gcfg w.
Proof. reflexivity. Qed.
Lemma w_files_EInit : forall w, w_files (apply_effect EInit w) = w_files w.
Proof. reflexivity. Qed.
Lemma w_dirs_EInit : forall w, w_dirs (apply_effect EInit w) = w_dirs w.
Proof. reflexivity. Qed.

Lemma w_inited_EPutObj : forall i p w, w_inited (apply_effect (EPutObj i p) w) = w_inited w.
Proof. reflexivity. Qed.
Lemma w_head_EPutObj : forall i p w, w_head (apply_effect (EPutObj i p) w) = w_head w.
Proof. reflexivity. Qed.
Lemma w_refs_EPutObj : forall i p w, w_refs (apply_effect (EPutObj i p) w) = w_refs w.
Proof. reflexivity. Qed.
Lemma w_index_EPutObj : forall i p w, w_index (apply_effect (EPutObj i p) w) = w_index w.
Proof. reflexivity. Qed.
Lemma w_objs_EPutObj : forall i p w, w_objs (apply_effect (EPutObj i p) w) = st_set (w_objs w) i p.
Proof. reflexivity. Qed.
Lemma w_coll_EPutObj : forall i p w, w_coll (apply_effect (EPutObj i p) w) = w_coll w || st_collides (w_objs w) i p.
Proof. reflexivity. Qed.
Lemma w_hlog_EPutObj : forall i p w, w_hlog (apply_effect (EPutObj i p) w) = w_hlog w.
Proof. reflexivity. Qed.
Lemma w_blogs_EPutObj : forall i p w, w_blogs (apply_effect (EPutObj i p) w) = w_blogs w.
Proof. reflexivity. Qed.
Lemma w_lcfg_EPutObj : forall i p w, w_lcfg (apply_effect (EPutObj i p) w) = w_lcfg w.
Proof. reflexivity. Qed.
Lemma w_gcfg_EPutObj : forall i p w, w_gcfg (apply_effect (EPutObj i p) w) = w_gcfg w.
Proof. reflexivity. Qed.
Lemma w_files_EPutObj : forall i p w, w_files (apply_effect (EPutObj i p) w) = w_files w.
Proof. reflexivity. Qed.
Lemma w_dirs_EPutObj : forall i p w, w_dirs (apply_effect (EPutObj i p) w) = w_dirs w.
Proof. reflexivity. Qed.

Lemma w_inited_ESetRef : forall n i w, w_inited (apply_effect (ESetRef n i) w) = w_inited w.
Proof. reflexivity. Qed.
Lemma w_head_ESetRef : forall n i w, w_head (apply_effect (ESetRef n i) w) = w_head w.
Proof. reflexivity. Qed.
Lemma w_refs_ESetRef : forall n i w, w_refs (apply_effect (ESetRef n i) w) = am_set (w_refs w) n i.
Proof. reflexivity. Qed.
Lemma w_index_ESetRef : forall n i w, w_index (apply_effect (ESetRef n i) w) = w_index w.
Proof. reflexivity. Qed.
Lemma w_objs_ESetRef : forall n i w, w_objs (apply_effect (ESetRef n i) w) = w_objs w.
Proof. reflexivity. Qed.
Lemma w_coll_ESetRef : forall n i w, w_coll (apply_effect (ESetRef n i) w) = w_coll w.
Proof. reflexivity. Qed.
Lemma w_hlog_ESetRef : forall n i w, w_hlog (apply_effect (ESetRef n i) w) = w_hlog w.
Proof. reflexivity. Qed.
Lemma w_blogs_ESetRef : forall n i w, w_blogs (apply_effect (ESetRef n i) w) = w_blogs w.
Proof. reflexivity. Qed.
Lemma w_lcfg_ESetRef : forall n i w, w_lcfg (apply_effect (ESetRef n i) w) = w_lcfg w.
Proof. reflexivity. Qed.
Lemma w_gcfg_ESetRef : forall n i w, w_gcfg (apply_effect (ESetRef n i) w) = w_gcfg w.
Proof. reflexivity. Qed.
Lemma w_files_ESetRef : forall n i w, w_files (apply_effect (ESetRef n i) w) = w_files w.
Proof. reflexivity. Qed.
Lemma w_dirs_ESetRef : forall n i w, w_dirs (apply_effect (ESetRef n i) w) = w_dirs w.
Proof. reflexivity. Qed.

Lemma w_inited_EDelRef : forall n w, w_inited (apply_effect (EDelRef n) w) = w_inited w.
Proof. reflexivity. Qed.
Lemma w_head_EDelRef : forall n w, w_head (apply_effect (EDelRef n) w) = w_head w.
Proof. reflexivity. Qed.
Lemma w_refs_EDelRef : forall n w, w_refs (apply_effect (EDelRef n) w) = am_del (w_refs w) n.
Proof. reflexivity. Qed.
Lemma w_index_EDelRef : forall n w, w_index (apply_effect (EDelRef n) w) = w_index w.
Proof. reflexivity. Qed.
Lemma w_objs_EDelRef : forall n w, w_objs (apply_effect (EDelRef n) w) = w_objs w.
Proof. reflexivity. Qed.
Lemma w_coll_EDelRef : forall n w, w_coll (apply_effect (EDelRef n) w) = w_coll w.
Proof. reflexivity. Qed.
Lemma w_hlog_EDelRef : forall n w, w_hlog (apply_effect (EDelRef n) w) = w_hlog w.
Proof. reflexivity. Qed.
Lemma w_blogs_EDelRef : forall n w, w_blogs (apply_effect (EDelRef n) w) = w_blogs w.
Proof. reflexivity. Qed.
Lemma w_lcfg_EDelRef : forall n w, w_lcfg (apply_effect (EDelRef n) w) = w_lcfg w.
Proof. reflexivity. Qed.
Lemma w_gcfg_EDelRef : forall n w, w_gcfg (apply_effect (EDelRef n) w) = w_gcfg w.
Proof. reflexivity. Qed.
Lemma w_files_EDelRef : forall n w, w_files (apply_effect (EDelRef n) w) = w_files w.
Proof. reflexivity. Qed.
Lemma w_dirs_EDelRef : forall n w, w_dirs (apply_effect (EDelRef n) w) = w_dirs w.
Proof. reflexivity. Qed.

Lemma w_inited_ERenameRef : forall o n w, w_inited (apply_effect (ERenameRef o n) w) = w_inited w.
Proof. intros o n w. cbn [apply_effect]. destruct (am_get (w_refs w) o); reflexivity. Qed.
Lemma w_head_ERenameRef : forall o n w, w_head (apply_effect (ERenameRef o n) w) = w_head w.
Proof. intros o n w. cbn [apply_effect]. destruct (am_get (w_refs w) o); reflexivity. Qed.
Lemma w_refs_ERenameRef : forall o n w, w_refs (apply_effect (ERenameRef o n) w) = match am_get (w_refs w) o with Some i => am_set (am_del (w_refs w) o) n i | None => w_refs w end.
Proof. intros o n w. cbn [apply_effect]. destruct (am_get (w_refs w) o); reflexivity. Qed.
Lemma w_index_ERenameRef : forall o n w, w_index (apply_effect (ERenameRef o n) w) = w_index w.
Proof. intros o n w. cbn [apply_effect]. destruct (am_get (w_refs w) o); reflexivity. Qed.
Lemma w_objs_ERenameRef : forall o n w, w_objs (apply_effect (ERenameRef o n) w) = w_objs w.
Proof. intros o n w. cbn [apply_effect]. destruct (am_get (w_refs w) o); reflexivity. Qed.
Lemma w_coll_ERenameRef : forall o n w, w_coll (apply_effect (ERenameRef o n) w) = w_coll w.
Proof. intros o n w. cbn [apply_effect]. destruct (am_get (w_refs w) o); reflexivity. Qed.
Lemma w_hlog_ERenameRef : forall o n w, w_hlog (apply_effect (ERenameRef o n) w) = w_hlog w.
Proof. intros o n w. cbn [apply_effect]. destruct (am_get (w_refs w) o); reflexivity. Qed.
Lemma w_blogs_ERenameRef : forall o n w, w_blogs (apply_effect (ERenameRef o n) w) = w_blogs w.
Proof. intros o n w. cbn [apply_effect]. destruct (am_get (w_refs w) o); reflexivity. Qed.
Lemma w_lcfg_ERenameRef : forall o n w, w_lcfg (apply_effect (ERenameRef o n) w) = w_lcfg w.
Proof. intros o n w. cbn [apply_effect]. destruct (am_get (w_refs w) o); reflexivity. Qed.
Lemma w_gcfg_ERenameRef : forall o n w, w_gcfg (apply_effect (ERenameRef o n) w) = w_gcfg w.
Proof. intros o n w. cbn [apply_effect]. destruct (am_get (w_refs w) o); reflexivity. Qed.
Lemma w_files_ERenameRef : forall o n w, w_files (apply_effect (ERenameRef o n) w) = w_files w.
Proof. intros o n w. cbn [apply_effect]. destruct (am_get (w_refs w) o); reflexivity. Qed.
Lemma w_dirs_ERenameRef : forall o n w, w_dirs (apply_effect (ERenameRef o n) w) = w_dirs w.
Proof. intros o n w. cbn [apply_effect]. destruct (am_get (w_refs w) o); reflexivity. Qed.

Lemma w_inited_ESetHead : forall n w, w_inited (apply_effect (ESetHead n) w) = w_inited w.
Proof. reflexivity. Qed.
Lemma w_head_ESetHead : forall n w, w_head (apply_effect (ESetHead n) w) = n.
Proof. reflexivity. Qed.
Lemma w_refs_ESetHead : forall n w, w_refs (apply_effect (ESetHead n) w) = w_refs w.
Proof. reflexivity. Qed.
Lemma w_index_ESetHead : forall n w, w_index (apply_effect (ESetHead n) w) = w_index w.
Proof. reflexivity. Qed.
Lemma w_objs_ESetHead : forall n w, w_objs (apply_effect (ESetHead n) w) = w_objs w.
Proof. reflexivity. Qed.
Lemma w_coll_ESetHead : forall n w, w_coll (apply_effect (ESetHead n) w) = w_coll w.
Proof. reflexivity. Qed.
Lemma w_hlog_ESetHead : forall n w, w_hlog (apply_effect (ESetHead n) w) = w_hlog w.
Proof. reflexivity. Qed.
Lemma w_blogs_ESetHead : forall n w, w_blogs (apply_effect (ESetHead n) w) = w_blogs w.
Proof. reflexivity. Qed.
Lemma w_lcfg_ESetHead : forall n w, w_lcfg (apply_effect (ESetHead n) w) = w_lcfg w.
Proof. reflexivity. Qed.
Lemma w_gcfg_ESetHead : forall n w, w_gcfg (apply_effect (ESetHead n) w) = w_gcfg w.
Proof. reflexivity. Qed.
Lemma w_files_ESetHead : forall n w, w_files (apply_effect (ESetHead n) w) = w_files w.
Proof. reflexivity. Qed.
Lemma w_dirs_ESetHead : forall n w, w_dirs (apply_effect (ESetHead n) w) = w_dirs w.
Proof. reflexivity. Qed.

Lemma w_inited_ESetIndex : forall es w, w_inited (apply_effect (ESetIndex es) w) = w_inited w.
Proof. reflexivity. Qed.
Lemma w_head_ESetIndex : forall es w, w_head (apply_effect (ESetIndex es) w) = w_head w.
Proof. reflexivity. Qed.
Lemma w_refs_ESetIndex : forall es w, w_refs (apply_effect (ESetIndex es) w) = w_refs w.
Proof. reflexivity. Qed.
Lemma w_index_ESetIndex : forall es w, w_index (apply_effect (ESetIndex es) w) = Some es.
Proof. reflexivity. Qed.
Lemma w_objs_ESetIndex : forall es w, w_objs (apply_effect (ESetIndex es) w) = w_objs w.
Proof. reflexivity. Qed.
Lemma w_coll_ESetIndex : forall es w, w_coll (apply_effect (ESetIndex es) w) = w_coll w.
Proof. reflexivity. Qed.
Lemma w_hlog_ESetIndex : forall es w, w_hlog (apply_effect (ESetIndex es) w) = w_hlog w.
Proof. reflexivity. Qed.
Lemma w_blogs_ESetIndex : forall es w, w_blogs (apply_effect (ESetIndex es) w) = w_blogs w.
Proof. reflexivity. Qed.
Lemma w_lcfg_ESetIndex : forall es w, w_lcfg (apply_effect (ESetIndex es) w) = w_lcfg w.
Proof. reflexivity. Qed.
Lemma w_gcfg_ESetIndex : forall es w, w_gcfg (apply_effect (ESetIndex es) w) = w_gcfg w.
Proof. reflexivity. Qed.
Lemma w_files_ESetIndex : forall es w, w_files (apply_effect (ESetIndex es) w) = w_files w.
Proof. reflexivity. Qed.
Lemma w_dirs_ESetIndex : forall es w, w_dirs (apply_effect (ESetIndex es) w) = w_dirs w.
Proof. reflexivity. Qed.

Lemma w_inited_EAppendHlog : forall l w, w_inited (apply_effect (EAppendHlog l) w) = w_inited w.
Proof. reflexivity. Qed.
Lemma w_head_EAppendHlog : forall l w, w_head (apply_effect (EAppendHlog l) w) = w_head w.
Proof. reflexivity. Qed.
Lemma w_refs_EAppendHlog : forall l w, w_refs (apply_effect (EAppendHlog l) w) = w_refs w.
Proof. reflexivity. Qed.
Lemma w_index_EAppendHlog : forall l w, w_index (apply_effect (EAppendHlog l) w) = w_index w.
Proof. reflexivity. Qed.
Lemma w_objs_EAppendHlog : forall l w, w_objs (apply_effect (EAppendHlog l) w) = w_objs w.
Proof. reflexivity. Qed.
Lemma w_coll_EAppendHlog : forall l w, w_coll (apply_effect (EAppendHlog l) w) = w_coll w.
Proof. reflexivity. Qed.
Lemma w_hlog_EAppendHlog : forall l w, w_hlog (apply_effect (EAppendHlog l) w) = Some (match w_hlog w with Some b => b ++ l | None => l end).
Proof. reflexivity. Qed.
Lemma w_blogs_EAppendHlog : forall l w, w_blogs (apply_effect (EAppendHlog l) w) = w_blogs w.
Proof. reflexivity. Qed.
Lemma w_lcfg_EAppendHlog : forall l w, w_lcfg (apply_effect (EAppendHlog l) w) = w_lcfg w.
Proof. reflexivity. Qed.
Lemma w_gcfg_EAppendHlog : forall l w, w_gcfg (apply_effect (EAppendHlog l) w) = w_gcfg w.
Proof. reflexivity. Qed.
Lemma w_files_EAppendHlog : forall l w, w_files (apply_effect (EAppendHlog l) w) = w_files w.
Proof. reflexivity. Qed.
Lemma w_dirs_EAppendHlog : forall l w, w_dirs (apply_effect (EAppendHlog l) w) = w_dirs w.
Proof. reflexivity. Qed.

Lemma w_inited_EAppendBlog : forall n l w, w_inited (apply_effect (EAppendBlog n l) w) = w_inited w.
Proof. reflexivity. Qed.
Lemma w_head_EAppendBlog : forall n l w, w_head (apply_effect (EAppendBlog n l) w) = w_head w.
Proof. reflexivity. Qed.
Lemma w_refs_EAppendBlog : forall n l w, w_refs (apply_effect (EAppendBlog n l) w) = w_refs w.
Proof. reflexivity. Qed.
Lemma w_index_EAppendBlog : forall n l w, w_index (apply_effect (EAppendBlog n l) w) = w_index w.
Proof. reflexivity. Qed.
Lemma w_objs_EAppendBlog : forall n l w, w_objs (apply_effect (EAppendBlog n l) w) = w_objs w.
Proof. reflexivity. Qed.
Lemma w_coll_EAppendBlog : forall n l w, w_coll (apply_effect (EAppendBlog n l) w) = w_coll w.
Proof. reflexivity. Qed.
Lemma w_hlog_EAppendBlog : forall n l w, w_hlog (apply_effect (EAppendBlog n l) w) = w_hlog w.
Proof. reflexivity. Qed.
Lemma w_blogs_EAppendBlog : forall n l w, w_blogs (apply_effect (EAppendBlog n l) w) = am_set (w_blogs w) n (match am_get (w_blogs w) n with Some b => b ++ l | None => l end).
Proof. reflexivity. Qed.
Lemma w_lcfg_EAppendBlog : forall n l w, w_lcfg (apply_effect (EAppendBlog n l) w) = w_lcfg w.
Proof. reflexivity. Qed.
Lemma w_gcfg_EAppendBlog : forall n l w, w_gcfg (apply_effect (EAppendBlog n l) w) = w_gcfg w.
Proof. reflexivity. Qed.
Lemma w_files_EAppendBlog : forall n l w, w_files (apply_effect (EAppendBlog n l) w) = w_files w.
Proof. reflexivity. Qed.
Lemma w_dirs_EAppendBlog : forall n l w, w_dirs (apply_effect (EAppendBlog n l) w) = w_dirs w.
Proof. reflexivity. Qed.

Lemma w_inited_EDelBlog : forall n w, w_inited (apply_effect (EDelBlog n) w) = w_inited w.
Proof. reflexivity. Qed.
Lemma w_head_EDelBlog : forall n w, w_head (apply_effect (EDelBlog n) w) = w_head w.
Proof. reflexivity. Qed.
Lemma w_refs_EDelBlog : forall n w, w_refs (apply_effect (EDelBlog n) w) = w_refs w.
Proof. reflexivity. Qed.
Lemma w_index_EDelBlog : forall n w, w_index (apply_effect (EDelBlog n) w) = w_index w.
Proof. reflexivity. Qed.
Lemma w_objs_EDelBlog : forall n w, w_objs (apply_effect (EDelBlog n) w) = w_objs w.
Proof. reflexivity. Qed.
Lemma w_coll_EDelBlog : forall n w, w_coll (apply_effect (EDelBlog n) w) = w_coll w.
Proof. reflexivity. Qed.
Lemma w_hlog_EDelBlog : forall n w, w_hlog (apply_effect (EDelBlog n) w) = w_hlog w.
Proof. reflexivity. Qed.
Lemma w_blogs_EDelBlog : forall n w, w_blogs (apply_effect (EDelBlog n) w) = am_del (w_blogs w) n.
Proof. reflexivity. Qed.
Lemma w_lcfg_EDelBlog : forall n w, w_lcfg (apply_effect (EDelBlog n) w) = w_lcfg w.
Proof. reflexivity. Qed.
Lemma w_gcfg_EDelBlog : forall n w, w_gcfg (apply_effect (EDelBlog n) w) = w_gcfg w.
Proof. reflexivity. Qed.
Lemma w_files_EDelBlog : forall n w, w_files (apply_effect (EDelBlog n) w) = w_files w.
Proof. reflexivity. Qed.
Lemma w_dirs_EDelBlog : forall n w, w_dirs (apply_effect (EDelBlog n) w) = w_dirs w.
Proof. reflexivity. Qed.

Lemma w_inited_ESetLcfg : forall c w, w_inited (apply_effect (ESetLcfg c) w) = w_inited w.
Proof. reflexivity. Qed.
Lemma w_head_ESetLcfg : forall c w, w_head (apply_effect (ESetLcfg c) w) = w_head w.
Proof. reflexivity. Qed.
Lemma w_refs_ESetLcfg : forall c w, w_refs (apply_effect (ESetLcfg c) w) = w_refs w.
Proof. reflexivity. Qed.
Lemma w_index_ESetLcfg : forall c w, w_index (apply_effect (ESetLcfg c) w) = w_index w.
Proof. reflexivity. Qed.
Lemma w_objs_ESetLcfg : forall c w, w_objs (apply_effect (ESetLcfg c) w) = w_objs w.
Proof. reflexivity. Qed.
Lemma w_coll_ESetLcfg : forall c w, w_coll (apply_effect (ESetLcfg c) w) = w_coll w.
Proof. reflexivity. Qed.
Lemma w_hlog_ESetLcfg : forall c w, w_hlog (apply_effect (ESetLcfg c) w) = w_hlog w.
Proof. reflexivity. Qed.
Lemma w_blogs_ESetLcfg : forall c w, w_blogs (apply_effect (ESetLcfg c) w) = w_blogs w.
Proof. reflexivity. Qed.
Lemma w_lcfg_ESetLcfg : forall c w, w_lcfg (apply_effect (ESetLcfg c) w) = c.
Proof. reflexivity. Qed.
Lemma w_gcfg_ESetLcfg : forall c w, w_gcfg (apply_effect (ESetLcfg c) w) = w_gcfg w.
Proof. reflexivity. Qed.
Lemma w_files_ESetLcfg : forall c w, w_files (apply_effect (ESetLcfg c) w) = w_files w.
Proof. reflexivity. Qed.
Lemma w_dirs_ESetLcfg : forall c w, w_dirs (apply_effect (ESetLcfg c) w) = w_dirs w.
Proof. reflexivity. Qed.

Lemma w_inited_ESetGcfg : forall c w, w_inited (apply_effect (ESetGcfg c) w) = w_inited w.
Proof. reflexivity. Qed.
Lemma w_head_ESetGcfg : forall c w, w_head (apply_effect (ESetGcfg c) w) = w_head w.
Proof. reflexivity. Qed.
Lemma w_refs_ESetGcfg : forall c w, w_refs (apply_effect (ESetGcfg c) w) = w_refs w.
Proof. reflexivity. Qed.
Lemma w_index_ESetGcfg : forall c w, w_index (apply_effect (ESetGcfg c) w) = w_index w.
Proof. reflexivity. Qed.
Lemma w_objs_ESetGcfg : forall c w, w_objs (apply_effect (ESetGcfg c) w) = w_objs w.
Proof. reflexivity. Qed.
Lemma w_coll_ESetGcfg : forall c w, w_coll (apply_effect (ESetGcfg c) w) = w_coll w.
Proof. reflexivity. Qed.
Lemma w_hlog_ESetGcfg : forall c w, w_hlog (apply_effect (ESetGcfg c) w) = w_hlog w.
Proof. reflexivity. Qed.
Lemma w_blogs_ESetGcfg : forall c w, w_blogs (apply_effect (ESetGcfg c) w) = w_blogs w.
Proof. reflexivity. Qed.
Lemma w_lcfg_ESetGcfg : forall c w, w_lcfg (apply_effect (ESetGcfg c) w) = w_lcfg w.
Proof. reflexivity. Qed.
Lemma w_gcfg_ESetGcfg : forall c w, w_gcfg (apply_effect (ESetGcfg c) w) = c.
Proof. reflexivity. Qed.
Lemma w_files_ESetGcfg : forall c w, w_files (apply_effect (ESetGcfg c) w) = w_files w.
Proof. reflexivity. Qed.
Lemma w_dirs_ESetGcfg : forall c w, w_dirs (apply_effect (ESetGcfg c) w) = w_dirs w.
Proof. reflexivity. Qed.

Lemma w_inited_EWriteFile : forall p d w, w_inited (apply_effect (EWriteFile p d) w) = w_inited w.
Proof. reflexivity. Qed.
Lemma w_head_EWriteFile : forall p d w, w_head (apply_effect (EWriteFile p d) w) = w_head w.
Proof. reflexivity. Qed.
Lemma w_refs_EWriteFile : forall p d w, w_refs (apply_effect (EWriteFile p d) w) = w_refs w.
Proof. reflexivity. Qed.
Lemma w_index_EWriteFile : forall p d w, w_index (apply_effect (EWriteFile p d) w) = w_index w.
Proof. reflexivity. Qed.
Lemma w_objs_EWriteFile : forall p d w, w_objs (apply_effect (EWriteFile p d) w) = w_objs w.
Proof. reflexivity. Qed.
Lemma w_coll_EWriteFile : forall p d w, w_coll (apply_effect (EWriteFile p d) w) = w_coll w.
Proof. reflexivity. Qed.
Lemma w_hlog_EWriteFile : forall p d w, w_hlog (apply_effect (EWriteFile p d) w) = w_hlog w.
Proof. reflexivity. Qed.
Lemma w_blogs_EWriteFile : forall p d w, w_blogs (apply_effect (EWriteFile p d) w) = w_blogs w.
Proof. reflexivity. Qed.
Lemma w_lcfg_EWriteFile : forall p d w, w_lcfg (apply_effect (EWriteFile p d) w) = w_lcfg w.
Proof. reflexivity. Qed.
Lemma w_gcfg_EWriteFile : forall p d w, w_gcfg (apply_effect (EWriteFile p d) w) = w_gcfg w.
Proof. reflexivity. Qed.
Lemma w_files_EWriteFile : forall p d w, w_files (apply_effect (EWriteFile p d) w) = am_set (w_files w) p d.
Proof. reflexivity. Qed.
Lemma w_dirs_EWriteFile : forall p d w, w_dirs (apply_effect (EWriteFile p d) w) = w_dirs w.
Proof. reflexivity. Qed.

Lemma w_inited_ERemovePath : forall p w, w_inited (apply_effect (ERemovePath p) w) = w_inited w.
Proof. reflexivity. Qed.
Lemma w_head_ERemovePath : forall p w, w_head (apply_effect (ERemovePath p) w) = w_head w.
Proof. reflexivity. Qed.
Lemma w_refs_ERemovePath : forall p w, w_refs (apply_effect (ERemovePath p) w) = w_refs w.
Proof. reflexivity. Qed.
Lemma w_index_ERemovePath : forall p w, w_index (apply_effect (ERemovePath p) w) = w_index w.
Proof. reflexivity. Qed.
Lemma w_objs_ERemovePath : forall p w, w_objs (apply_effect (ERemovePath p) w) = w_objs w.
Proof. reflexivity. Qed.
Lemma w_coll_ERemovePath : forall p w, w_coll (apply_effect (ERemovePath p) w) = w_coll w.
Proof. reflexivity. Qed.
Lemma w_hlog_ERemovePath : forall p w, w_hlog (apply_effect (ERemovePath p) w) = w_hlog w.
Proof. reflexivity. Qed.
Lemma w_blogs_ERemovePath : forall p w, w_blogs (apply_effect (ERemovePath p) w) = w_blogs w.
Proof. reflexivity. Qed.
Lemma w_lcfg_ERemovePath : forall p w, w_lcfg (apply_effect (ERemovePath p) w) = w_lcfg w.
Proof. reflexivity. Qed.
Lemma w_gcfg_ERemovePath : forall p w, w_gcfg (apply_effect (ERemovePath p) w) = w_gcfg w.
Proof. reflexivity. Qed.
Lemma w_files_ERemovePath : forall p w, w_files (apply_effect (ERemovePath p) w) = am_del (w_files w) p.
Proof. reflexivity. Qed.
Lemma w_dirs_ERemovePath : forall p w, w_dirs (apply_effect (ERemovePath p) w) = set_del (w_dirs w) p.
Proof. reflexivity. Qed.

Lemma w_inited_EMkdirAll : forall p w, w_inited (apply_effect (EMkdirAll p) w) = w_inited w.
Proof. reflexivity. Qed.
Lemma w_head_EMkdirAll : forall p w, w_head (apply_effect (EMkdirAll p) w) = w_head w.
Proof. reflexivity. Qed.
Lemma w_refs_EMkdirAll : forall p w, w_refs (apply_effect (EMkdirAll p) w) = w_refs w.
Proof. reflexivity. Qed.
Lemma w_index_EMkdirAll : forall p w, w_index (apply_effect (EMkdirAll p) w) = w_index w.
Proof. reflexivity. Qed.
Lemma w_objs_EMkdirAll : forall p w, w_objs (apply_effect (EMkdirAll p) w) = w_objs w.
Proof. reflexivity. Qed.
Lemma w_coll_EMkdirAll : forall p w, w_coll (apply_effect (EMkdirAll p) w) = w_coll w.
Proof. reflexivity. Qed.
Lemma w_hlog_EMkdirAll : forall p w, w_hlog (apply_effect (EMkdirAll p) w) = w_hlog w.
Proof. reflexivity. Qed.
Lemma w_blogs_EMkdirAll : forall p w, w_blogs (apply_effect (EMkdirAll p) w) = w_blogs w.
Proof. reflexivity. Qed.
Lemma w_lcfg_EMkdirAll : forall p w, w_lcfg (apply_effect (EMkdirAll p) w) = w_lcfg w.
Proof. reflexivity. Qed.
Lemma w_gcfg_EMkdirAll : forall p w, w_gcfg (apply_effect (EMkdirAll p) w) = w_gcfg w.
Proof. reflexivity. Qed.
Lemma w_files_EMkdirAll : forall p w, w_files (apply_effect (EMkdirAll p) w) = w_files w.
Proof. reflexivity. Qed.
Lemma w_dirs_EMkdirAll : forall p w, w_dirs (apply_effect (EMkdirAll p) w) = fold_left set_add (ancestors p ++ [p]) (w_dirs w).
Proof. reflexivity. Qed.

#[export] Hint Rewrite w_inited_EInit w_head_EInit w_refs_EInit w_index_EInit w_objs_EInit w_coll_EInit w_hlog_EInit w_blogs_EInit w_lcfg_EInit w_gcfg_EInit w_files_EInit w_dirs_EInit : wfields.
#[export] Hint Rewrite w_inited_EPutObj w_head_EPutObj w_refs_EPutObj w_index_EPutObj w_objs_EPutObj w_coll_EPutObj w_hlog_EPutObj w_blogs_EPutObj w_lcfg_EPutObj w_gcfg_EPutObj w_files_EPutObj w_dirs_EPutObj : wfields.
#[export] Hint Rewrite w_inited_ESetRef w_head_ESetRef w_refs_ESetRef w_index_ESetRef w_objs_ESetRef w_coll_ESetRef w_hlog_ESetRef w_blogs_ESetRef w_lcfg_ESetRef w_gcfg_ESetRef w_files_ESetRef w_dirs_ESetRef : wfields.
#[export] Hint Rewrite w_inited_EDelRef w_head_EDelRef w_refs_EDelRef w_index_EDelRef w_objs_EDelRef w_coll_EDelRef w_hlog_EDelRef w_blogs_EDelRef w_lcfg_EDelRef w_gcfg_EDelRef w_files_EDelRef w_dirs_EDelRef : wfields.
#[export] Hint Rewrite w_inited_ERenameRef w_head_ERenameRef w_refs_ERenameRef w_index_ERenameRef w_objs_ERenameRef w_coll_ERenameRef w_hlog_ERenameRef w_blogs_ERenameRef w_lcfg_ERenameRef w_gcfg_ERenameRef w_files_ERenameRef w_dirs_ERenameRef : wfields.
#[export] Hint Rewrite w_inited_ESetHead w_head_ESetHead w_refs_ESetHead w_index_ESetHead w_objs_ESetHead w_coll_ESetHead w_hlog_ESetHead w_blogs_ESetHead w_lcfg_ESetHead w_gcfg_ESetHead w_files_ESetHead w_dirs_ESetHead : wfields.
#[export] Hint Rewrite w_inited_ESetIndex w_head_ESetIndex w_refs_ESetIndex w_index_ESetIndex w_objs_ESetIndex w_coll_ESetIndex w_hlog_ESetIndex w_blogs_ESetIndex w_lcfg_ESetIndex w_gcfg_ESetIndex w_files_ESetIndex w_dirs_ESetIndex : wfields.
#[export] Hint Rewrite w_inited_EAppendHlog w_head_EAppendHlog w_refs_EAppendHlog w_index_EAppendHlog w_objs_EAppendHlog w_coll_EAppendHlog w_hlog_EAppendHlog w_blogs_EAppendHlog w_lcfg_EAppendHlog w_gcfg_EAppendHlog w_files_EAppendHlog w_dirs_EAppendHlog : wfields.
#[export] Hint Rewrite w_inited_EAppendBlog w_head_EAppendBlog w_refs_EAppendBlog w_index_EAppendBlog w_objs_EAppendBlog w_coll_EAppendBlog w_hlog_EAppendBlog w_blogs_EAppendBlog w_lcfg_EAppendBlog w_gcfg_EAppendBlog w_files_EAppendBlog w_dirs_EAppendBlog : wfields.
#[export] Hint Rewrite w_inited_EDelBlog w_head_EDelBlog w_refs_EDelBlog w_index_EDelBlog w_objs_EDelBlog w_coll_EDelBlog w_hlog_EDelBlog w_blogs_EDelBlog w_lcfg_EDelBlog w_gcfg_EDelBlog w_files_EDelBlog w_dirs_EDelBlog : wfields.
#[export] Hint Rewrite w_inited_ESetLcfg w_head_ESetLcfg w_refs_ESetLcfg w_index_ESetLcfg w_objs_ESetLcfg w_coll_ESetLcfg w_hlog_ESetLcfg w_blogs_ESetLcfg w_lcfg_ESetLcfg w_gcfg_ESetLcfg w_files_ESetLcfg w_dirs_ESetLcfg : wfields.
#[export] Hint Rewrite w_inited_ESetGcfg w_head_ESetGcfg w_refs_ESetGcfg w_index_ESetGcfg w_objs_ESetGcfg w_coll_ESetGcfg w_hlog_ESetGcfg w_blogs_ESetGcfg w_lcfg_ESetGcfg w_gcfg_ESetGcfg w_files_ESetGcfg w_dirs_ESetGcfg : wfields.
#[export] Hint Rewrite w_inited_EWriteFile w_head_EWriteFile w_refs_EWriteFile w_index_EWriteFile w_objs_EWriteFile w_coll_EWriteFile w_hlog_EWriteFile w_blogs_EWriteFile w_lcfg_EWriteFile w_gcfg_EWriteFile w_files_EWriteFile w_dirs_EWriteFile : wfields.
#[export] Hint Rewrite w_inited_ERemovePath w_head_ERemovePath w_refs_ERemovePath w_index_ERemovePath w_objs_ERemovePath w_coll_ERemovePath w_hlog_ERemovePath w_blogs_ERemovePath w_lcfg_ERemovePath w_gcfg_ERemovePath w_files_ERemovePath w_dirs_ERemovePath : wfields.
#[export] Hint Rewrite w_inited_EMkdirAll w_head_EMkdirAll w_refs_EMkdirAll w_index_EMkdirAll w_objs_EMkdirAll w_coll_EMkdirAll w_hlog_EMkdirAll w_blogs_EMkdirAll w_lcfg_EMkdirAll w_gcfg_EMkdirAll w_files_EMkdirAll w_dirs_EMkdirAll : wfields.

Lemma w_inited_apply_edit : forall u w, w_inited (apply_edit u w) = w_inited w.
Proof. intros u w. destruct u; cbn [apply_edit]; try destruct (parent_dir _); reflexivity. Qed.
Lemma w_head_apply_edit : forall u w, w_head (apply_edit u w) = w_head w.
Proof. intros u w. destruct u; cbn [apply_edit]; try destruct (parent_dir _); reflexivity. Qed.
Lemma w_refs_apply_edit : forall u w, w_refs (apply_edit u w) = w_refs w.
Proof. intros u w. destruct u; cbn [apply_edit]; try destruct (parent_dir _); reflexivity. Qed.
Lemma w_index_apply_edit : forall u w, w_index (apply_edit u w) = w_index w.
Proof. intros u w. destruct u; cbn [apply_edit]; try destruct (parent_dir _); reflexivity. Qed.
Lemma w_objs_apply_edit : forall u w, w_objs (apply_edit u w) = w_objs w.
Proof. intros u w. destruct u; cbn [apply_edit]; try destruct (parent_dir _); reflexivity. Qed.
Lemma w_coll_apply_edit : forall u w, w_coll (apply_edit u w) = w_coll w.
Proof. intros u w. destruct u; cbn [apply_edit]; try destruct (parent_dir _); reflexivity. Qed.
Lemma w_hlog_apply_edit : forall u w, w_hlog (apply_edit u w) = w_hlog w.
Proof. intros u w. destruct u; cbn [apply_edit]; try destruct (parent_dir _); reflexivity. Qed.
Lemma w_blogs_apply_edit : forall u w, w_blogs (apply_edit u w) = w_blogs w.
Proof. intros u w. destruct u; cbn [apply_edit]; try destruct (parent_dir _); reflexivity. Qed.
Lemma w_lcfg_apply_edit : forall u w, w_lcfg (apply_edit u w) = w_lcfg w.
Proof. intros u w. destruct u; cbn [apply_edit]; try destruct (parent_dir _); reflexivity. Qed.
Lemma w_gcfg_apply_edit : forall u w, w_gcfg (apply_edit u w) = w_gcfg w.
Proof. intros u w. destruct u; cbn [apply_edit]; try destruct (parent_dir _); reflexivity. Qed.
#[export] Hint Rewrite w_inited_apply_edit w_head_apply_edit w_refs_apply_edit w_index_apply_edit w_objs_apply_edit w_coll_apply_edit w_hlog_apply_edit w_blogs_apply_edit w_lcfg_apply_edit w_gcfg_apply_edit : wfields.
#[export] Hint Rewrite apply_effects_nil apply_effects_cons : wfields.

(* a projection that every effect of a trace preserves is preserved by the trace *)
Lemma apply_effects_preserve : forall (T : Type) (f : world -> T) (ok : effect -> Prop),
  (forall e w, ok e -> f (apply_effect e w) = f w) ->
  forall tr w, Forall ok tr -> f (apply_effects tr w) = f w.
Proof.
  intros T f ok Hstep tr. induction tr as [|e tr IH]; intros w Hall.
  - reflexivity.
  - rewrite apply_effects_cons. inversion Hall as [|e' tr' He Htr]; subst.
    rewrite IH by exact Htr. apply Hstep. exact He.
Qed.

Definition is_put (e : effect) : bool := match e with EPutObj _ _ => true | _ => false end.

Lemma w_objs_not_put : forall e w, is_put e = false -> w_objs (apply_effect e w) = w_objs w.
Proof.
  intros e w He. destruct e; try discriminate He; autorewrite with wfields; reflexivity.
Qed.

Lemma w_coll_not_put : forall e w, is_put e = false -> w_coll (apply_effect e w) = w_coll w.
Proof.
  intros e w He. destruct e; try discriminate He; autorewrite with wfields; reflexivity.
Qed.

(* ================================================================== *)
(** * 8. StoreGrows: no command deletes or alters a stored object unless a
      SHA-1 collision is flagged *)

Lemma coll_sticky : forall e w, w_coll w = true -> w_coll (apply_effect e w) = true.
Proof.
  intros e w Hc. destruct (is_put e) eqn:Ep.
  - destruct e; try discriminate Ep. rewrite w_coll_EPutObj, Hc. reflexivity.
  - rewrite w_coll_not_put by exact Ep. exact Hc.
Qed.

Lemma coll_sticky_trace : forall tr w, w_coll w = true -> w_coll (apply_effects tr w) = true.
Proof.
  induction tr as [|e tr IH]; intros w Hc.
  - exact Hc.
  - rewrite apply_effects_cons. apply IH. apply coll_sticky. exact Hc.
Qed.

Lemma coll_false_before : forall tr w, w_coll (apply_effects tr w) = false -> w_coll w = false.
Proof.
  intros tr w Hc. destruct (w_coll w) eqn:E; [|reflexivity].
  rewrite (coll_sticky_trace tr w E) in Hc. discriminate Hc.
Qed.

(* [st_set] either adds a new id or overwrites the same id; without a
   collision the overwritten payload is the same one *)
Lemma st_set_keeps : forall st i q id p,
  st_collides st i q = false -> st_lookup st id = Some p ->
  st_lookup (st_set st i q) id = Some p.
Proof.
  intros st i q id p Hc Hl. destruct (bytes_eqb id i) eqn:E.
  - apply bytes_eqb_eq in E. subst i. unfold st_collides in Hc. rewrite Hl in Hc.
    apply negb_false_iff in Hc. apply bytes_eqb_eq in Hc. subst q.
    apply st_lookup_set_same.
  - apply bytes_eqb_neq in E. rewrite st_lookup_set_other by exact E. exact Hl.
Qed.

Lemma effect_store_grows : forall e w id p,
  w_coll (apply_effect e w) = false ->
  st_lookup (w_objs w) id = Some p ->
  st_lookup (w_objs (apply_effect e w)) id = Some p.
Proof.
  intros e w id p Hc Hl. destruct (is_put e) eqn:Ep.
  - destruct e; try discriminate Ep. rewrite w_coll_EPutObj in Hc.
    apply orb_false_elim in Hc. destruct Hc as [_ Hcol].
    rewrite w_objs_EPutObj. apply st_set_keeps; assumption.
  - rewrite w_objs_not_put by exact Ep. exact Hl.
Qed.

Lemma trace_store_grows : forall tr w id p,
  w_coll (apply_effects tr w) = false ->
  st_lookup (w_objs w) id = Some p ->
  st_lookup (w_objs (apply_effects tr w)) id = Some p.
Proof.
  induction tr as [|e tr IH]; intros w id p Hc Hl.
  - exact Hl.
  - rewrite apply_effects_cons in Hc |- *. apply IH; [exact Hc|].
    apply effect_store_grows; [|exact Hl]. apply (coll_false_before tr). exact Hc.
Qed.

Theorem cmd_store_grows : forall e c w w' o tr,
  step (ACmd e c) w = (w', o, tr) -> w_coll w' = false ->
  forall id p, st_lookup (w_objs w) id = Some p -> st_lookup (w_objs w') id = Some p.
Proof.
  intros e c w w' o tr Hstep Hc id p Hl.
  pose proof (step_trace _ _ _ _ _ Hstep) as Hw. cbn beta iota in Hw. subst w'.
  apply trace_store_grows; assumption.
Qed.

Theorem edit_store_grows : forall u w w' o tr,
  step (AEdit u) w = (w', o, tr) ->
  forall id p, st_lookup (w_objs w) id = Some p -> st_lookup (w_objs w') id = Some p.
Proof.
  intros u w w' o tr Hstep id p Hl. cbn [step] in Hstep. injection Hstep as Hw _ _. subst w'.
  rewrite w_objs_apply_edit. exact Hl.
Qed.

Theorem step_store_grows : forall a w w' o tr,
  step a w = (w', o, tr) -> w_coll w' = false ->
  forall id p, st_lookup (w_objs w) id = Some p -> st_lookup (w_objs w') id = Some p.
Proof.
  intros [e c|u] w w' o tr Hstep Hc id p Hl.
  - exact (cmd_store_grows _ _ _ _ _ _ Hstep Hc id p Hl).
  - exact (edit_store_grows _ _ _ _ _ Hstep id p Hl).
Qed.

Lemma step_coll_sticky : forall a w, w_coll w = true -> w_coll (step_w a w) = true.
Proof.
  intros a w Hc. unfold step_w. destruct (step a w) as [[w' o] tr] eqn:Es. cbn [fst].
  pose proof (step_trace _ _ _ _ _ Es) as Hw. destruct a as [e c|u].
  - subst w'. apply coll_sticky_trace. exact Hc.
  - cbn [step] in Es. injection Es as Hw' _ _. subst w'. rewrite w_coll_apply_edit. exact Hc.
Qed.

Lemma run_cons : forall a h w, run (a :: h) w = run h (step_w a w).
Proof. reflexivity. Qed.

Lemma run_coll_sticky : forall h w, w_coll w = true -> w_coll (run h w) = true.
Proof.
  induction h as [|a h IH]; intros w Hc.
  - exact Hc.
  - rewrite run_cons. apply IH. apply step_coll_sticky. exact Hc.
Qed.

Lemma step_w_store_grows : forall a w,
  w_coll (step_w a w) = false ->
  forall id p, st_lookup (w_objs w) id = Some p -> st_lookup (w_objs (step_w a w)) id = Some p.
Proof.
  intros a w Hc id p Hl. unfold step_w in Hc |- *.
  destruct (step a w) as [[w' o] tr] eqn:Es. cbn [fst] in Hc |- *.
  exact (step_store_grows _ _ _ _ _ Es Hc id p Hl).
Qed.

Theorem run_store_grows : forall h w,
  w_coll (run h w) = false ->
  forall id p, st_lookup (w_objs w) id = Some p -> st_lookup (w_objs (run h w)) id = Some p.
Proof.
  induction h as [|a h IH]; intros w Hc id p Hl.
  - exact Hl.
  - rewrite run_cons in Hc |- *. apply IH; [exact Hc|].
    apply step_w_store_grows; [|exact Hl].
    destruct (w_coll (step_w a w)) eqn:E; [|reflexivity].
    rewrite (run_coll_sticky h _ E) in Hc. discriminate Hc.
Qed.

(* ================================================================== *)
(** * 9. Effect-stable invariants come for free; demonstrations *)

(* If every effect is allowed and preserves [Inv] in every world satisfying
   [Inv], then every [traced] computation is [emits Inv G]. *)
Lemma stable_steps_ok : forall (Inv : world -> Prop) (G : world -> effect -> Prop),
  (forall e w, Inv w -> G w e /\ Inv (apply_effect e w)) ->
  forall tr w, Inv w -> steps_ok Inv G w tr.
Proof.
  intros Inv G Hst tr. induction tr as [|e tr IH]; intros w Hi.
  - exact Logic.I.
  - destruct (Hst e w Hi) as [Hg Hi']. cbn [steps_ok]. auto.
Qed.

Theorem traced_emits : forall (Inv : world -> Prop) (G : world -> effect -> Prop) A (m : M A),
  (forall e w, Inv w -> G w e /\ Inv (apply_effect e w)) ->
  traced m -> emits Inv G m.
Proof.
  intros Inv G A m Hst Hm s Hi _. destruct (Hm s) as (tr & Ht & Hw & _).
  exists tr. split; [exact Ht|]. split; [apply stable_steps_ok; assumption|].
  split; [exact Hw | auto].
Qed.

Corollary run_cmd_emits_stable : forall (Inv : world -> Prop) (G : world -> effect -> Prop),
  (forall e w, Inv w -> G w e /\ Inv (apply_effect e w)) ->
  forall e c, emits Inv G (run_cmd e c).
Proof. intros Inv G Hst e c. apply traced_emits; [exact Hst | apply run_cmd_traced]. Qed.

(* StoreGrows once more, this time through [run_invariant] *)
Theorem run_store_grows_via_logic : forall h w id p,
  st_lookup (w_objs w) id = Some p ->
  w_coll (run h w) = true \/ st_lookup (w_objs (run h w)) id = Some p.
Proof.
  intros h w id p Hl.
  apply (run_invariant
           (fun w' => w_coll w' = true \/ st_lookup (w_objs w') id = Some p)
           (fun _ _ => True)).
  - apply run_cmd_emits_stable. intros e w' [Hc|Hs]; (split; [exact Logic.I|]).
    + left. apply coll_sticky. exact Hc.
    + destruct (w_coll (apply_effect e w')) eqn:Ec; [left; reflexivity|].
      right. apply effect_store_grows; assumption.
  - intros u w' Hi. rewrite w_coll_apply_edit, w_objs_apply_edit. exact Hi.
  - right. exact Hl.
Qed.

(* a loop through the Hoare rules: [write-tree] emits object writes only *)
Example cmd_write_tree_emits :
  emits (fun _ => True) (fun _ e => is_put e = true) cmd_write_tree.
Proof.
  hinline. hsteps.
  apply at_bind_iterM with (J := fun _ => True).
  - auto.
  - intros d w' _ _ _. cbv beta. hinline. hsteps; auto.
  - intros w' _ _. hsteps. auto.
Qed.

Example wfields_demo : forall n i l es w,
  w_index (apply_effects [ESetRef n i; EAppendHlog l; ESetIndex es; EPutObj n l] w) = Some es
  /\ w_refs (apply_effect (EAppendHlog l) (apply_effect (ESetRef n i) w)) = am_set (w_refs w) n i.
Proof. intros n i l es w. autorewrite with wfields. split; reflexivity. Qed.

(* ================================================================== *)
Print Assumptions run_cmd_traced.
Print Assumptions run_cmd_fsim.
Print Assumptions step_trace.
Print Assumptions fsim_run.
Print Assumptions cmd_fault_prefix.
Print Assumptions hoare_sound.
Print Assumptions emits_sound.
Print Assumptions emits_sound_fault.
Print Assumptions run_invariant.
Print Assumptions traced_emits.
Print Assumptions cmd_store_grows.
Print Assumptions run_store_grows.
Print Assumptions run_store_grows_via_logic.
Print Assumptions coll_sticky.
Print Assumptions cmd_update_ref_emits.
Print Assumptions cmd_write_tree_emits.
