(* GoRegex.v — the REFERENCE patterns the model and its theorems are written against (the translator's output on the tree the proofs were developed on; no longer regenerated: SrcRegex.v is, and Bridge.v proves the two equivalent on every run) *)
From Coq Require Import Strings.Byte.
From Coq Require Import List NArith.
From Goit Require Import Bytes Regex.
Import ListNotations.

(* cmd: branchRegexp = "refs/heads/.+" *)
Definition re_branchRegexp : pattern :=
  mkPat false (RCat (RLit [x72; x65; x66; x73; x2f; x68; x65; x61; x64; x73; x2f]) (RPlus RAnyNoNL)) false.
Definition src_branchRegexp : bytes := [x72; x65; x66; x73; x2f; x68; x65; x61; x64; x73; x2f; x2e; x2b].

(* internal/store: directoryRegexp = ".*\\/" *)
Definition re_directoryRegexp : pattern :=
  mkPat false (RCat (RStar RAnyNoNL) (RLit [x2f])) false.
Definition src_directoryRegexp : bytes := [x2e; x2a; x5c; x2f].

(* internal/store: headRegexp = "ref: refs/heads/.+" *)
Definition re_headRegexp : pattern :=
  mkPat false (RCat (RLit [x72; x65; x66; x3a; x20; x72; x65; x66; x73; x2f; x68; x65; x61; x64; x73; x2f]) (RPlus RAnyNoNL)) false.
Definition src_headRegexp : bytes := [x72; x65; x66; x3a; x20; x72; x65; x66; x73; x2f; x68; x65; x61; x64; x73; x2f; x2e; x2b].

(* internal/store: identRegexp = "^\\[.*\\]$" *)
Definition re_identRegexp : pattern :=
  mkPat true (RCat (RLit [x5b]) (RCat (RStar RAnyNoNL) (RLit [x5d]))) true.
Definition src_identRegexp : bytes := [x5e; x5c; x5b; x2e; x2a; x5c; x5d; x24].

(* cmd: resetRegexp = "^HEAD@\\{(\\d+)\\}$" *)
Definition re_resetRegexp : pattern :=
  mkPat true (RCat (RLit [x48; x45; x41; x44; x40; x7b]) (RCat (RPlus (RCls (mkCls false [(48, 57)]%N))) (RLit [x7d]))) true.
Definition src_resetRegexp : bytes := [x5e; x48; x45; x41; x44; x40; x5c; x7b; x28; x5c; x64; x2b; x29; x5c; x7d; x24].

(* internal/sha: sha1Regexp = "[0-9a-f]{40}" *)
Definition re_sha1Regexp : pattern :=
  mkPat false (RRep 40 (RCls (mkCls false [(48, 57); (97, 102)]%N))) false.
Definition src_sha1Regexp : bytes := [x5b; x30; x2d; x39; x61; x2d; x66; x5d; x7b; x34; x30; x7d].

(* internal/object: signRegexp = "^[^<]* <([a-zA-Z0-9_.+-]+@([a-zA-Z0-9][a-zA-Z0-9-]*[a-zA-Z0-9]*\\.)+[a-zA-Z]{2,})> ([1-9][0-9]* [+-][0-9]{4})$" *)
Definition re_signRegexp : pattern :=
  mkPat true (RCat (RStar (RCls (mkCls false [(0, 59); (61, 255)]%N))) (RCat (RLit [x20; x3c]) (RCat (RPlus (RCls (mkCls false [(43, 43); (45, 46); (48, 57); (65, 90); (95, 95); (97, 122)]%N))) (RCat (RLit [x40]) (RCat (RPlus (RCat (RCls (mkCls false [(48, 57); (65, 90); (97, 122)]%N)) (RCat (RStar (RCls (mkCls false [(45, 45); (48, 57); (65, 90); (97, 122)]%N))) (RCat (RStar (RCls (mkCls false [(48, 57); (65, 90); (97, 122)]%N))) (RLit [x2e]))))) (RCat (RRepMin 2 (RCls (mkCls false [(65, 90); (97, 122)]%N))) (RCat (RLit [x3e; x20]) (RCat (RCls (mkCls false [(49, 57)]%N)) (RCat (RStar (RCls (mkCls false [(48, 57)]%N))) (RCat (RLit [x20]) (RCat (RCls (mkCls false [(43, 43); (45, 45)]%N)) (RRep 4 (RCls (mkCls false [(48, 57)]%N)))))))))))))) true.
Definition src_signRegexp : bytes := [x5e; x5b; x5e; x3c; x5d; x2a; x20; x3c; x28; x5b; x61; x2d; x7a; x41; x2d; x5a; x30; x2d; x39; x5f; x2e; x2b; x2d; x5d; x2b; x40; x28; x5b; x61; x2d; x7a; x41; x2d; x5a; x30; x2d; x39; x5d; x5b; x61; x2d; x7a; x41; x2d; x5a; x30; x2d; x39; x2d; x5d; x2a; x5b; x61; x2d; x7a; x41; x2d; x5a; x30; x2d; x39; x5d; x2a; x5c; x2e; x29; x2b; x5b; x61; x2d; x7a; x41; x2d; x5a; x5d; x7b; x32; x2c; x7d; x29; x3e; x20; x28; x5b; x31; x2d; x39; x5d; x5b; x30; x2d; x39; x5d; x2a; x20; x5b; x2b; x2d; x5d; x5b; x30; x2d; x39; x5d; x7b; x34; x7d; x29; x24].

