(* CrashBranchFacts.v — property C15 "a command interrupted by a failing write",
   the branch clause:

     "Each branch points either to the commit it named before the interrupted
      command or to the commit the command was about to install, never to
      anything else."

   and the same for HEAD.  Proved for EVERY command on EVERY world (no
   invariant, no reachability hypothesis).

   1. a generic lemma on traces: if every effect that touches an observed cell
      is emitted while the cell still holds its initial value, every prefix
      state shows the initial or the final value of the cell;
   2. the discipline [Gw w0]: a ref effect on name [n] is emitted in a world
      where [n] still holds what it held in [w0]; a HEAD effect in a world
      where HEAD is still that of [w0];
   3. every sub-command obeys the discipline (program logic of MonadFacts);
   4. the theorems, in the shapes of [run_m], [step], fault injection and
      [Reachable];
   5. non-vacuity: `branch --rename` on a reachable world, all prefix states. *)
From Coq Require Import Strings.String Strings.Byte.
From Coq Require Import List Bool NArith ZArith Arith Lia ZifyBool ZifyNat ZifyN.
From Goit Require Import Bytes Sha1 Obj Tree Index Regex GoRegex Commit Reflog Config Ignore World Repo.
From Goit Require Import BytesFacts ObjFacts MonadFacts BranchFacts Inv.
From Goit Require GateFacts.
Import ListNotations.

Arguments sha1 : simpl never.

(* ================================================================== *)
(** * 1. One observed cell along a trace *)

Section Cell.
  Variable T : Type.
  Variable obs : world -> T.                 (* the cell *)
  Variable touch : effect -> bool.           (* the effects that may change it *)
  Hypothesis T_dec : forall a b : T, a = b \/ a <> b.
  Hypothesis frame : forall e w, touch e = false -> obs (apply_effect e w) = obs w.
  Variable v0 : T.                           (* the value before the command *)

  (* every touching effect is emitted while the cell still holds [v0] *)
  Fixpoint disciplined (w : world) (tr : list effect) : Prop :=
    match tr with
    | [] => True
    | e :: r => (touch e = true -> obs w = v0) /\ disciplined (apply_effect e w) r
    end.

  (* once the cell has left [v0] nothing touches it any more *)
  Lemma cell_frozen : forall tr w, disciplined w tr -> obs w <> v0 ->
    forall k, obs (apply_effects (firstn k tr) w) = obs w.
  Proof.
    induction tr as [|e tr IH]; intros w Hd Hne k.
    - destruct k; reflexivity.
    - destruct k as [|k]; [reflexivity|]. cbn [firstn]. rewrite apply_effects_cons.
      destruct Hd as [Ht Hd]. destruct (touch e) eqn:Et.
      + exfalso. apply Hne. apply Ht. reflexivity.
      + rewrite IH; [apply frame; exact Et | exact Hd | rewrite frame by exact Et; exact Hne].
  Qed.

  Lemma cell_old_or_new : forall tr w, disciplined w tr ->
    forall k, obs (apply_effects (firstn k tr) w) = obs w \/
              obs (apply_effects (firstn k tr) w) = obs (apply_effects tr w).
  Proof.
    induction tr as [|e tr IH]; intros w Hd k.
    - left. destruct k; reflexivity.
    - destruct k as [|k]; [left; reflexivity|]. cbn [firstn]. rewrite !apply_effects_cons.
      destruct Hd as [Ht Hd].
      destruct (IH (apply_effect e w) Hd k) as [Hk|Hk]; [|right; exact Hk].
      destruct (touch e) eqn:Et.
      + destruct (T_dec (obs (apply_effect e w)) v0) as [Heq|Hne].
        * left. rewrite Hk, Heq. symmetry. apply Ht. reflexivity.
        * right. rewrite Hk.
          pose proof (cell_frozen tr (apply_effect e w) Hd Hne (length tr)) as Hall.
          rewrite firstn_all in Hall. symmetry. exact Hall.
      + left. rewrite Hk. apply frame. exact Et.
  Qed.
End Cell.

(* ================================================================== *)
(** * 2. The discipline *)

(* the branch names an effect writes or deletes *)
Definition rnames (e : effect) : list bytes :=
  match e with
  | ESetRef n _ => [n]
  | EDelRef n => [n]
  | ERenameRef o n => [o; n]
  | _ => []
  end.

(* the effects that write HEAD *)
Definition is_head (e : effect) : bool :=
  match e with
  | ESetHead _ | EInit => true
  | _ => false
  end.

Definition Gw (w0 w : world) (e : effect) : Prop :=
  (forall n, In n (rnames e) -> am_get (w_refs w) n = am_get (w_refs w0) n) /\
  (is_head e = true -> w_head w = w_head w0).

Definition touches (n : bytes) (e : effect) : bool := existsb (bytes_eqb n) (rnames e).

Lemma touches_in : forall n e, touches n e = true -> In n (rnames e).
Proof.
  intros n e H. unfold touches in H. apply existsb_exists in H. destruct H as (x & Hin & Hx).
  apply bytes_eqb_eq in Hx. subst x. exact Hin.
Qed.

Lemma touches_not_in : forall n e, touches n e = false -> ~ In n (rnames e).
Proof.
  intros n e H Hin. unfold touches in H.
  assert (Ht : existsb (bytes_eqb n) (rnames e) = true).
  { apply existsb_exists. exists n. split; [exact Hin | apply bytes_eqb_refl]. }
  rewrite H in Ht. discriminate Ht.
Qed.

Lemma ref_frame : forall n e w, touches n e = false ->
  am_get (w_refs (apply_effect e w)) n = am_get (w_refs w) n.
Proof.
  intros n e w H. apply touches_not_in in H.
  destruct e; autorewrite with wfields; try reflexivity; cbn [rnames In] in H.
  - apply am_get_set_other. intro Heq. apply H. left. symmetry. exact Heq.
  - apply am_get_del_other. intro Heq. apply H. left. symmetry. exact Heq.
  - destruct (am_get (w_refs w) old) as [i|]; [|reflexivity].
    rewrite am_get_set_other by (intro Heq; apply H; right; left; symmetry; exact Heq).
    apply am_get_del_other. intro Heq. apply H. left. symmetry. exact Heq.
Qed.

Lemma head_frame : forall e w, is_head e = false -> w_head (apply_effect e w) = w_head w.
Proof.
  intros e w H. destruct e; autorewrite with wfields; try reflexivity; discriminate H.
Qed.

Lemma bytes_dec : forall a b : bytes, a = b \/ a <> b.
Proof.
  intros a b. destruct (bytes_eqb a b) eqn:E.
  - left. apply bytes_eqb_eq. exact E.
  - right. apply bytes_eqb_neq. exact E.
Qed.

Lemma obytes_dec : forall a b : option bytes, a = b \/ a <> b.
Proof.
  intros [a|] [b|].
  - destruct (bytes_dec a b) as [->|Hne]; [left; reflexivity | right; congruence].
  - right. discriminate.
  - right. discriminate.
  - left. reflexivity.
Qed.

Notation Itrue := (fun _ : world => True).

Lemma steps_disciplined_ref : forall w0 n tr w,
  steps_ok Itrue (Gw w0) w tr ->
  disciplined (option bytes) (fun x => am_get (w_refs x) n) (touches n) (am_get (w_refs w0) n) w tr.
Proof.
  intros w0 n tr. induction tr as [|e tr IH]; intros w Hs.
  - exact Logic.I.
  - destruct Hs as ([Hg _] & _ & Hs). cbn [disciplined]. split.
    + intro Ht. apply Hg. apply touches_in. exact Ht.
    + apply IH. exact Hs.
Qed.

Lemma steps_disciplined_head : forall w0 tr w,
  steps_ok Itrue (Gw w0) w tr ->
  disciplined bytes w_head is_head (w_head w0) w tr.
Proof.
  intros w0 tr. induction tr as [|e tr IH]; intros w Hs.
  - exact Logic.I.
  - destruct Hs as ([_ Hg] & _ & Hs). cbn [disciplined]. split.
    + exact Hg.
    + apply IH. exact Hs.
Qed.

(* what the discipline gives for a whole trace *)
Theorem discipline_ref : forall w0 tr k n,
  steps_ok Itrue (Gw w0) w0 tr ->
  am_get (w_refs (apply_effects (firstn k tr) w0)) n = am_get (w_refs w0) n \/
  am_get (w_refs (apply_effects (firstn k tr) w0)) n = am_get (w_refs (apply_effects tr w0)) n.
Proof.
  intros w0 tr k n Hs.
  exact (cell_old_or_new (option bytes) (fun x => am_get (w_refs x) n) (touches n) obytes_dec
           (ref_frame n) (am_get (w_refs w0) n) tr w0 (steps_disciplined_ref w0 n tr w0 Hs) k).
Qed.

Theorem discipline_head : forall w0 tr k,
  steps_ok Itrue (Gw w0) w0 tr ->
  w_head (apply_effects (firstn k tr) w0) = w_head w0 \/
  w_head (apply_effects (firstn k tr) w0) = w_head (apply_effects tr w0).
Proof.
  intros w0 tr k Hs.
  exact (cell_old_or_new bytes w_head is_head bytes_dec head_frame (w_head w0) tr w0
           (steps_disciplined_head w0 tr w0 Hs) k).
Qed.

(* ================================================================== *)
(** * 3. Every sub-command obeys the discipline *)

(** ** procedures that emit no ref and no HEAD effect at all *)
Definition plainb (e : effect) : bool :=
  match e with
  | ESetRef _ _ | EDelRef _ | ERenameRef _ _ | ESetHead _ | EInit => false
  | _ => true
  end.

Definition Gplain : world -> effect -> Prop := fun _ e => plainb e = true.

Local Notation pl m := (emits Itrue Gplain m).

Lemma plain_Gw : forall w0 w e, plainb e = true -> Gw w0 w e.
Proof.
  intros w0 w e H. destruct e; try discriminate H; (split; [intros n [] | intro Hh; discriminate Hh]).
Qed.

Lemma plain_refs : forall e w, plainb e = true -> w_refs (apply_effect e w) = w_refs w.
Proof. intros e w H. destruct e; try discriminate H; autorewrite with wfields; reflexivity. Qed.

Lemma plain_head : forall e w, plainb e = true -> w_head (apply_effect e w) = w_head w.
Proof. intros e w H. destruct e; try discriminate H; autorewrite with wfields; reflexivity. Qed.

Lemma steps_plain_Forall : forall tr w, steps_ok Itrue Gplain w tr -> Forall (fun e => plainb e = true) tr.
Proof.
  induction tr as [|e tr IH]; intros w Hs.
  - constructor.
  - destruct Hs as (Hg & _ & Hs). constructor; [exact Hg | exact (IH _ Hs)].
Qed.

Lemma emit_pl : forall e, plainb e = true -> pl (emit e).
Proof. intros e H. apply emits_emit. intros w _. split; [exact H | exact Logic.I]. Qed.

Create HintDb pllaws discriminated.

Ltac pstep :=
  first
  [ assumption
  | lazymatch goal with
    | |- emits _ _ (bind _ _) => apply emits_bind; [ | intro ]
    | |- emits _ _ (ret _) => apply emits_ret
    | |- emits _ _ fail => apply emits_fail
    | |- emits _ _ panic => apply emits_panic
    | |- emits _ _ getw => apply emits_getw
    | |- emits _ _ (emit _) => apply emit_pl; reflexivity
    | |- emits _ _ (of_opt _) => apply emits_of_opt
    | |- emits _ _ (guard _) => apply emits_guard
    | |- emits _ _ (iterM _ _) => apply emits_iterM; intros ? _
    | |- emits _ _ (let _ := _ in _) => cbv zeta
    | |- emits _ _ (match ?x with _ => _ end) => destruct x; cbv beta iota
    | |- emits _ _ ((fix f (l : list _) {struct l} : M _ := _) ?args) =>
        induction args; cbv beta iota
    end
  | solve [ auto with pllaws nocore ] ].
Ltac psteps := repeat pstep.

Lemma put_obj_pl : forall k d, pl (put_obj k d).
Proof. intros k d. unfold put_obj. psteps. Qed.
#[export] Hint Resolve put_obj_pl : pllaws.
Lemma wt_put_pl : forall p data, pl (wt_put p data).
Proof. intros p data. unfold wt_put. psteps. Qed.
#[export] Hint Resolve wt_put_pl : pllaws.
Lemma head_tree_nodes_pl : forall c, pl (head_tree_nodes c).
Proof. intros c. unfold head_tree_nodes. psteps. Qed.
#[export] Hint Resolve head_tree_nodes_pl : pllaws.
Lemma load_ctx_pl : pl load_ctx.
Proof. unfold load_ctx. psteps. Qed.
#[export] Hint Resolve load_ctx_pl : pllaws.
Lemma cmd_config_pl : forall c g args, pl (cmd_config c g args).
Proof. intros c g args. unfold cmd_config. psteps. Qed.
Lemma add_file_pl : forall p, pl (add_file p).
Proof. intros p. unfold add_file. psteps. Qed.
#[export] Hint Resolve add_file_pl : pllaws.
Lemma cmd_add_pl : forall c args, pl (cmd_add c args).
Proof. intros c args. unfold cmd_add. psteps. Qed.
Lemma rm_one_pl : forall p, pl (rm_one p).
Proof. intros p. unfold rm_one. psteps. Qed.
#[export] Hint Resolve rm_one_pl : pllaws.
Lemma cmd_rm_pl : forall args, pl (cmd_rm args).
Proof. intros args. unfold cmd_rm. psteps. Qed.
Lemma cmd_status_pl : forall c, pl (cmd_status c).
Proof. intros c. unfold cmd_status. psteps. Qed.
Lemma restore_wd_pl : forall p, pl (restore_wd p).
Proof. intros p. unfold restore_wd. psteps. Qed.
#[export] Hint Resolve restore_wd_pl : pllaws.
Lemma restore_index_pl : forall ns p, pl (restore_index ns p).
Proof. intros ns p. unfold restore_index. psteps. Qed.
#[export] Hint Resolve restore_index_pl : pllaws.
Lemma cmd_restore_pl : forall c st args, pl (cmd_restore c st args).
Proof. intros c st args. unfold cmd_restore. psteps. Qed.
Lemma cmd_log_pl : forall c n, pl (cmd_log c n).
Proof. intros c n. unfold cmd_log. psteps. Qed.
Lemma cmd_reflog_pl : pl cmd_reflog.
Proof. unfold cmd_reflog. psteps. Qed.
Lemma cmd_cat_file_pl : forall t p args, pl (cmd_cat_file t p args).
Proof. intros t p args. unfold cmd_cat_file. psteps. Qed.
Lemma cmd_hash_object_pl : forall args, pl (cmd_hash_object args).
Proof. intros args. unfold cmd_hash_object. psteps. Qed.
Lemma cmd_ls_files_pl : forall s, pl (cmd_ls_files s).
Proof. intros s. unfold cmd_ls_files. psteps. Qed.
Lemma cmd_rev_parse_pl : forall args, pl (cmd_rev_parse args).
Proof. intros args. unfold cmd_rev_parse. psteps. Qed.
Lemma cmd_write_tree_pl : pl cmd_write_tree.
Proof. unfold cmd_write_tree. psteps. Qed.

(** ** from "plain" to the discipline *)
Section Discipline.
  Variable w0 : world.

  (* the branch map and HEAD are still those of [w0] *)
  Definition P0 (w : world) : Prop := w_refs w = w_refs w0 /\ w_head w = w_head w0.

  (* a plain procedure run at [w]: allowed, and it keeps the two regions *)
  Lemma pl_frame : forall A (m : M A) w, pl m ->
    hoare Itrue (Gw w0) (eq w) m (fun _ w' => w_refs w' = w_refs w /\ w_head w' = w_head w).
  Proof.
    intros A m w Hm s _ Heq. destruct (Hm s Logic.I Logic.I) as (tr & Ht & Hs & Hw & _).
    exists tr. split; [exact Ht|]. split.
    - apply (steps_ok_weaken Itrue Gplain (Gw w0)); [|exact Logic.I | exact Hs].
      intros w1 e _ Hp. apply plain_Gw. exact Hp.
    - split; [exact Hw|]. intros a _. rewrite Hw, <- Heq.
      pose proof (steps_plain_Forall _ _ Hs) as Hall. split.
      + apply (apply_effects_preserve _ w_refs (fun e => plainb e = true)); [|exact Hall].
        intros e w1 He. apply plain_refs. exact He.
      + apply (apply_effects_preserve _ w_head (fun e => plainb e = true)); [|exact Hall].
        intros e w1 He. apply plain_head. exact He.
  Qed.

  (* call a plain procedure in the middle of a symbolic execution *)
  Lemma at_bind_pl : forall A B (m : M A) (f : A -> M B) Q w,
    pl m ->
    (forall a w', w_refs w' = w_refs w -> w_head w' = w_head w -> hoare Itrue (Gw w0) (eq w') (f a) Q) ->
    hoare Itrue (Gw w0) (eq w) (bind m f) Q.
  Proof.
    intros A B m f Q w Hm Hf.
    apply at_bind with (R := fun _ w' => w_refs w' = w_refs w /\ w_head w' = w_head w).
    - apply pl_frame. exact Hm.
    - intros a w' _ [Hr Hh]. apply Hf; assumption.
  Qed.

  (* finish a symbolic execution with a plain tail *)
  Lemma at_pl_last : forall A (m : M A) w, pl m -> hoare Itrue (Gw w0) (eq w) m (fun _ _ => True).
  Proof.
    intros A m w Hm. apply (hoare_conseq _ _ _ _ _ _ _ _ (pl_frame A m w Hm)); auto.
  Qed.

  (* the specification of a command *)
  Definition cb {A} (m : M A) : Prop := hoare Itrue (Gw w0) P0 m (fun _ _ => True).

  Lemma pl_cb : forall A (m : M A), pl m -> cb m.
  Proof.
    intros A m Hm. apply hoare_world. intros w _ _. apply at_pl_last. exact Hm.
  Qed.

  Lemma cb_bind_pl : forall A B (m : M A) (f : A -> M B),
    pl m -> (forall a, cb (f a)) -> cb (bind m f).
  Proof.
    intros A B m f Hm Hf. apply hoare_bind with (R := fun _ w => P0 w); [|exact Hf].
    apply hoare_world. intros w _ [Hr Hh].
    apply (hoare_conseq _ _ _ _ _ _ _ _ (pl_frame A m w Hm)); [auto|].
    intros a w' _ [Hr' Hh']. split; congruence.
  Qed.

  Lemma cb_then_pl : forall A B (m : M A) (f : A -> M B),
    cb m -> (forall a, pl (f a)) -> cb (bind m f).
  Proof.
    intros A B m f Hm Hf. apply hoare_bind with (R := fun _ _ => True); [exact Hm|].
    intro a. apply hoare_world. intros w _ _. apply at_pl_last. apply Hf.
  Qed.
End Discipline.

(** ** the commands that write a branch or HEAD: symbolic execution *)

Ltac gstep :=
  first
  [ match goal with H : false = true |- _ => discriminate H end
  | match goal with H : true = false |- _ => discriminate H end
  | hstep ].
Ltac gsteps := repeat gstep.


Ltac gw_split :=
  lazymatch goal with
  | |- Gw _ _ _ /\ True /\ True => split; [|split; exact Logic.I]
  | |- Gw _ _ _ /\ True => split; [|exact Logic.I]
  end.
Ltac gw_solve :=
  gw_split;
  first
  [ apply plain_Gw; reflexivity
  | split;
    [ let n0 := fresh "n0" in let Hin0 := fresh "Hin0" in
      intros n0 Hin0; cbn [rnames In] in Hin0;
      first [ contradiction | destruct Hin0 as [<-|[]]; autorewrite with wfields; try congruence ]
    | let Hd0 := fresh "Hd0" in
      intro Hd0; try discriminate Hd0; autorewrite with wfields; try congruence ] ].
Ltac to_pl := apply at_pl_last; psteps.

Lemma cmd_init_cb : forall w0, cb w0 cmd_init.
Proof.
  intros w0. apply hoare_world. intros w _ [Hr Hh]. hinline. gsteps; try exact Logic.I.
  all: gw_solve.
Qed.

Lemma cmd_update_ref_cb : forall w0 args, cb w0 (cmd_update_ref args).
Proof.
  intros w0 args. apply hoare_world. intros w _ [Hr Hh]. hinline. gsteps; try exact Logic.I.
  all: try gw_solve.
  hinline. gsteps; try exact Logic.I.
  all: try gw_solve.
Qed.

Lemma cmd_reset_cb : forall w0 e c s m h args, cb w0 (cmd_reset e c s m h args).
Proof.
  intros w0 e c s m h args. apply hoare_world. intros w _ [Hr Hh]. hinline. gsteps; try exact Logic.I.
  all: try gw_solve.
  all: try to_pl.
Qed.

Lemma cmd_switch_cb : forall w0 e c args create, cb w0 (cmd_switch e c args create).
Proof.
  intros w0 e c args create. apply hoare_world. intros w _ [Hr Hh]. hinline.
  destruct create as [|c0 create]; destruct args as [|a [|a2 args]];
    cbn [length Nat.ltb Nat.leb is_nil negb andb orb].
  all: gsteps; try exact Logic.I.
  all: try gw_solve.
  all: hinline; gsteps; try exact Logic.I.
  all: try gw_solve.
Qed.

Lemma cmd_branch_cb : forall w0 e c args lst rename delete, cb w0 (cmd_branch e c args lst rename delete).
Proof.
  intros w0 e c args lst rename delete. apply hoare_world. intros w _ [Hr Hh]. hinline.
  destruct rename as [|r0 rename]; destruct delete as [|d0 delete];
    destruct args as [|a [|a2 args]]; destruct lst;
    cbn [length Nat.eqb is_nil negb andb orb].
  all: gsteps; try exact Logic.I.
  all: try gw_solve.
  (* --rename: the old name is not the new one *)
  match goal with
  | Hnew : negb (am_mem (w_refs ?w1) ?nn) = true, Hold : am_mem (w_refs ?w1) (w_head ?w1) = true
    |- am_get (am_set (w_refs ?w1) ?nn _) (w_head ?w1) = _ =>
      rewrite am_get_set_other; [congruence|];
      intro Heq; rewrite <- Heq, Hold in Hnew; discriminate Hnew
  end.
Qed.

Lemma do_commit_cb : forall w0 e c msg, cb w0 (do_commit e c msg).
Proof.
  intros w0 e c msg. apply hoare_world. intros w _ [Hr Hh]. hinline. gsteps.
  apply at_bind_pl; [psteps|]. intros [] w' Hr' Hh'.
  gsteps. 
  apply at_bind_pl; [psteps|]. intros cid w2 Hr2 Hh2.
  gsteps; try exact Logic.I.
  all: try gw_solve.
Qed.

Lemma cmd_commit_cb : forall w0 e c msg, cb w0 (cmd_commit e c msg).
Proof.
  intros w0 e c msg. unfold cmd_commit.
  apply cb_bind_pl; [psteps | intros _].
  apply cb_then_pl; [|intros _; psteps].
  apply cb_bind_pl; [psteps | intro w].
  destruct (is_nil (w_refs w)).
  - apply cb_bind_pl; [psteps | intros _]. apply do_commit_cb.
  - destruct (x_headc c) as [hc|]; [|apply pl_cb; psteps].
    apply cb_bind_pl; [psteps | intro ns].
    apply cb_bind_pl; [psteps | intros _]. apply do_commit_cb.
Qed.

Theorem run_cmd_cb : forall w0 e c, cb w0 (run_cmd e c).
Proof.
  intros w0 e c. unfold run_cmd.
  apply cb_bind_pl; [apply emits_getw | intro w].
  destruct c;
    try (apply cb_bind_pl; [apply emits_guard | intros _];
         apply cb_bind_pl; [apply load_ctx_pl | intro x]).
  - apply cmd_init_cb.
  - apply pl_cb. apply cmd_config_pl.
  - apply pl_cb. apply cmd_add_pl.
  - apply pl_cb. apply cmd_rm_pl.
  - apply cmd_commit_cb.
  - apply pl_cb. apply cmd_status_pl.
  - apply cmd_branch_cb.
  - apply cmd_switch_cb.
  - apply cmd_reset_cb.
  - apply pl_cb. apply cmd_restore_pl.
  - apply cmd_update_ref_cb.
  - apply pl_cb. apply cmd_log_pl.
  - apply pl_cb. apply cmd_reflog_pl.
  - apply pl_cb. apply cmd_cat_file_pl.
  - apply pl_cb. apply cmd_hash_object_pl.
  - apply pl_cb. apply cmd_ls_files_pl.
  - apply pl_cb. apply cmd_rev_parse_pl.
  - apply pl_cb. apply cmd_write_tree_pl.
Qed.

(* ================================================================== *)
(** * 4. The theorems *)

(* the fault-free run of any command, from any world, obeys the discipline
   relative to the world it starts in *)
Lemma run_cmd_steps : forall e c w r w' tr,
  run_m (run_cmd e c) w = (r, w', tr) ->
  w' = apply_effects tr w /\ steps_ok Itrue (Gw w) w tr.
Proof.
  intros e c w r w' tr Hrun. unfold run_m in Hrun.
  destruct (run_cmd e c (mkMS w [] None)) as [r0 s'] eqn:Em. injection Hrun as _ Hw' Htr.
  destruct (hoare_sound Itrue (Gw w) _ (P0 w) (run_cmd e c) (fun _ _ => True) w [] None r0 s'
              (run_cmd_cb w e c) Logic.I (conj eq_refl eq_refl) Em)
    as (tr0 & Ht & Hw & Hs & _).
  cbn [app] in Ht. rewrite Htr in Ht. subst tr0. rewrite Hw' in Hw. split; assumption.
Qed.

(* C15, branch clause, strongest form: in the world reached after ANY prefix of
   the effects of a command, what is stored under a branch name (an id, or
   nothing) is what was stored before the command or what the complete command
   stores *)
Theorem branch_prefix_old_or_new : forall e c w r w' tr k n,
  run_m (run_cmd e c) w = (r, w', tr) ->
  am_get (w_refs (apply_effects (firstn k tr) w)) n = am_get (w_refs w) n \/
  am_get (w_refs (apply_effects (firstn k tr) w)) n = am_get (w_refs w') n.
Proof.
  intros e c w r w' tr k n Hrun. destruct (run_cmd_steps e c w r w' tr Hrun) as [Hw Hs].
  rewrite Hw. apply discipline_ref. exact Hs.
Qed.

Theorem branch_old_or_new : forall e c w r w' tr k n id,
  run_m (run_cmd e c) w = (r, w', tr) ->
  am_get (w_refs (apply_effects (firstn k tr) w)) n = Some id ->
  am_get (w_refs w) n = Some id \/ am_get (w_refs w') n = Some id.
Proof.
  intros e c w r w' tr k n id Hrun Hk.
  destruct (branch_prefix_old_or_new e c w r w' tr k n Hrun) as [H|H]; rewrite H in Hk; auto.
Qed.

(* a branch that is missing in an intermediate state was missing before or is
   deleted by the command *)
Theorem branch_missing_old_or_new : forall e c w r w' tr k n,
  run_m (run_cmd e c) w = (r, w', tr) ->
  am_get (w_refs (apply_effects (firstn k tr) w)) n = None ->
  am_get (w_refs w) n = None \/ am_get (w_refs w') n = None.
Proof.
  intros e c w r w' tr k n Hrun Hk.
  destruct (branch_prefix_old_or_new e c w r w' tr k n Hrun) as [H|H]; rewrite H in Hk; auto.
Qed.

(* the same for HEAD *)
Theorem head_old_or_new : forall e c w r w' tr k,
  run_m (run_cmd e c) w = (r, w', tr) ->
  w_head (apply_effects (firstn k tr) w) = w_head w \/
  w_head (apply_effects (firstn k tr) w) = w_head w'.
Proof.
  intros e c w r w' tr k Hrun. destruct (run_cmd_steps e c w r w' tr Hrun) as [Hw Hs].
  rewrite Hw. apply discipline_head. exact Hs.
Qed.

(* ---------- in the shape of [step] ---------- *)
Lemma step_run_m : forall e c w w' o tr,
  step (ACmd e c) w = (w', o, tr) -> exists r, run_m (run_cmd e c) w = (r, w', tr).
Proof.
  intros e c w w' o tr Hstep. cbn [step] in Hstep.
  destruct (run_m (run_cmd e c) w) as [[r w1] tr1] eqn:Erun.
  exists r. destruct r; injection Hstep as Hw _ Ht; subst; reflexivity.
Qed.

Theorem step_branch_old_or_new : forall e c w w' o tr k n id,
  step (ACmd e c) w = (w', o, tr) ->
  am_get (w_refs (apply_effects (firstn k tr) w)) n = Some id ->
  am_get (w_refs w) n = Some id \/ am_get (w_refs w') n = Some id.
Proof.
  intros e c w w' o tr k n id Hstep Hk. destruct (step_run_m _ _ _ _ _ _ Hstep) as [r Hrun].
  exact (branch_old_or_new e c w r w' tr k n id Hrun Hk).
Qed.

Theorem step_head_old_or_new : forall e c w w' o tr k,
  step (ACmd e c) w = (w', o, tr) ->
  w_head (apply_effects (firstn k tr) w) = w_head w \/
  w_head (apply_effects (firstn k tr) w) = w_head w'.
Proof.
  intros e c w w' o tr k Hstep. destruct (step_run_m _ _ _ _ _ _ Hstep) as [r Hrun].
  exact (head_old_or_new e c w r w' tr k Hrun).
Qed.

(* ---------- under fault injection ---------- *)
(* the world a run with a failing write stops in is a prefix state of the
   fault-free run (or its final world when the fault lies beyond the run) *)
Lemma fault_world : forall e c w r w' tr k r' s',
  run_m (run_cmd e c) w = (r, w', tr) ->
  run_cmd e c (mkMS w [] (Some k)) = (r', s') ->
  ms_w s' = apply_effects (firstn k tr) w.
Proof.
  intros e c w r w' tr k r' s' Hrun Hf.
  destruct (Nat.ltb k (length tr)) eqn:Ek.
  - apply Nat.ltb_lt in Ek. rewrite (cmd_fault_prefix e c w r w' tr k Hrun Ek) in Hf.
    injection Hf as _ Hs. subst s'. reflexivity.
  - apply Nat.ltb_ge in Ek. rewrite (cmd_fault_beyond e c w r w' tr k Hrun Ek) in Hf.
    injection Hf as _ Hs. subst s'. cbn [ms_w]. rewrite firstn_all2 by exact Ek.
    exact (run_m_traced _ (run_cmd e c) w r w' tr (run_cmd_traced e c) Hrun).
Qed.

Theorem fault_branch_old_or_new : forall e c w r w' tr k r' s' n id,
  run_m (run_cmd e c) w = (r, w', tr) ->               (* what the command would have done *)
  run_cmd e c (mkMS w [] (Some k)) = (r', s') ->       (* its k-th write fails instead *)
  am_get (w_refs (ms_w s')) n = Some id ->
  am_get (w_refs w) n = Some id \/ am_get (w_refs w') n = Some id.
Proof.
  intros e c w r w' tr k r' s' n id Hrun Hf Hk.
  rewrite (fault_world e c w r w' tr k r' s' Hrun Hf) in Hk.
  exact (branch_old_or_new e c w r w' tr k n id Hrun Hk).
Qed.

Theorem fault_branch_slot_old_or_new : forall e c w r w' tr k r' s' n,
  run_m (run_cmd e c) w = (r, w', tr) ->
  run_cmd e c (mkMS w [] (Some k)) = (r', s') ->
  am_get (w_refs (ms_w s')) n = am_get (w_refs w) n \/
  am_get (w_refs (ms_w s')) n = am_get (w_refs w') n.
Proof.
  intros e c w r w' tr k r' s' n Hrun Hf.
  rewrite (fault_world e c w r w' tr k r' s' Hrun Hf).
  exact (branch_prefix_old_or_new e c w r w' tr k n Hrun).
Qed.

Theorem fault_head_old_or_new : forall e c w r w' tr k r' s',
  run_m (run_cmd e c) w = (r, w', tr) ->
  run_cmd e c (mkMS w [] (Some k)) = (r', s') ->
  w_head (ms_w s') = w_head w \/ w_head (ms_w s') = w_head w'.
Proof.
  intros e c w r w' tr k r' s' Hrun Hf.
  rewrite (fault_world e c w r w' tr k r' s' Hrun Hf).
  exact (head_old_or_new e c w r w' tr k Hrun).
Qed.

(* the interrupted command in the exact shape of [cmd_fault_prefix] *)
Corollary fault_prefix_branch_old_or_new : forall e c w r w' tr k n id,
  run_m (run_cmd e c) w = (r, w', tr) -> k < length tr ->
  run_cmd e c (mkMS w [] (Some k)) =
    (Err, mkMS (apply_effects (firstn k tr) w) (firstn k tr) None) /\
  (am_get (w_refs (apply_effects (firstn k tr) w)) n = Some id ->
   am_get (w_refs w) n = Some id \/ am_get (w_refs w') n = Some id) /\
  (w_head (apply_effects (firstn k tr) w) = w_head w \/
   w_head (apply_effects (firstn k tr) w) = w_head w').
Proof.
  intros e c w r w' tr k n id Hrun Hk. split; [exact (cmd_fault_prefix e c w r w' tr k Hrun Hk)|].
  split; [exact (branch_old_or_new e c w r w' tr k n id Hrun) | exact (head_old_or_new e c w r w' tr k Hrun)].
Qed.

(* ---------- along histories ---------- *)
(* nothing about the world is used, so the statement holds in particular in
   every world a history of commands and edits leads to *)
Corollary reachable_branch_old_or_new : forall w e c w' o tr k n id,
  Reachable w -> step (ACmd e c) w = (w', o, tr) ->
  am_get (w_refs (apply_effects (firstn k tr) w)) n = Some id ->
  am_get (w_refs w) n = Some id \/ am_get (w_refs w') n = Some id.
Proof. intros w e c w' o tr k n id _. apply step_branch_old_or_new. Qed.

Corollary reachable_head_old_or_new : forall w e c w' o tr k,
  Reachable w -> step (ACmd e c) w = (w', o, tr) ->
  w_head (apply_effects (firstn k tr) w) = w_head w \/
  w_head (apply_effects (firstn k tr) w) = w_head w'.
Proof. intros w e c w' o tr k _. apply step_head_old_or_new. Qed.

Corollary reachable_fault_branch_old_or_new : forall h e c k r' s' n id,
  Forall action_ok h ->
  run_cmd e c (mkMS (run h w_empty) [] (Some k)) = (r', s') ->
  am_get (w_refs (ms_w s')) n = Some id ->
  am_get (w_refs (run h w_empty)) n = Some id \/
  am_get (w_refs (run (h ++ [ACmd e c]) w_empty)) n = Some id.
Proof.
  intros h e c k r' s' n id _ Hf Hk.
  destruct (run_m (run_cmd e c) (run h w_empty)) as [[r w'] tr] eqn:Erun.
  assert (Hw' : run (h ++ [ACmd e c]) w_empty = w').
  { unfold run. rewrite fold_left_app. cbn [fold_left]. fold (run h w_empty).
    unfold step_w. cbn [step]. rewrite Erun. destruct r; reflexivity. }
  rewrite Hw'. exact (fault_branch_old_or_new e c _ r w' tr k r' s' n id Erun Hf Hk).
Qed.

(* ================================================================== *)
(** * 5. Non-vacuity *)

(* GateFacts.gx_w (reachable: init; identity; files; add; commit; edits; add)
   has one branch, "main", at the commit [gx_hid].  `branch --rename trunk`
   there performs eight writes; the first three are
     ESetRef trunk hid ; ESetHead trunk ; EDelRef main *)
Definition rx_cmd : cmd := CBranch [] false (str "trunk"%string) [].
Definition rx_tr : list effect :=
  Eval vm_compute in snd (run_m (run_cmd GateFacts.gx_env rx_cmd) GateFacts.gx_w).
Definition rx_w' : world :=
  Eval vm_compute in snd (fst (run_m (run_cmd GateFacts.gx_env rx_cmd) GateFacts.gx_w)).

Lemma rx_run : run_m (run_cmd GateFacts.gx_env rx_cmd) GateFacts.gx_w = (Ok [], rx_w', rx_tr).
Proof. vm_compute. reflexivity. Qed.

Example rx_trace_shape :
  length rx_tr = 8 /\
  firstn 3 rx_tr = [ESetRef (str "trunk"%string) GateFacts.gx_hid;
                    ESetHead (str "trunk"%string);
                    EDelRef (str "main"%string)].
Proof. split; vm_compute; reflexivity. Qed.

(* the state after k = 0, 1, 2, 3 writes (and after all eight): HEAD, and what
   the two names hold *)
Definition rx_view (k : nat) : bytes * option bytes * option bytes :=
  let wk := apply_effects (firstn k rx_tr) GateFacts.gx_w in
  (w_head wk, am_get (w_refs wk) (str "main"%string), am_get (w_refs wk) (str "trunk"%string)).

Example rx_prefix_states :
  map rx_view [0; 1; 2; 3; 8] =
  [ (str "main"%string,  Some GateFacts.gx_hid, None);
    (str "main"%string,  Some GateFacts.gx_hid, Some GateFacts.gx_hid);
    (str "trunk"%string, Some GateFacts.gx_hid, Some GateFacts.gx_hid);
    (str "trunk"%string, None,                  Some GateFacts.gx_hid);
    (str "trunk"%string, None,                  Some GateFacts.gx_hid) ].
Proof. vm_compute. reflexivity. Qed.

(* the theorems, instantiated there: every name, every prefix *)
Example rx_branch_old_or_new : forall k n id,
  am_get (w_refs (apply_effects (firstn k rx_tr) GateFacts.gx_w)) n = Some id ->
  am_get (w_refs GateFacts.gx_w) n = Some id \/ am_get (w_refs rx_w') n = Some id.
Proof. intros k n id. exact (branch_old_or_new _ _ _ _ _ _ k n id rx_run). Qed.

Example rx_head_old_or_new : forall k,
  w_head (apply_effects (firstn k rx_tr) GateFacts.gx_w) = str "main"%string \/
  w_head (apply_effects (firstn k rx_tr) GateFacts.gx_w) = str "trunk"%string.
Proof. intro k. exact (head_old_or_new _ _ _ _ _ _ k rx_run). Qed.

(* the same three states reached by fault injection: the write number k fails *)
Example rx_faulted_runs :
  map (fun k => let '(r, s) := run_cmd GateFacts.gx_env rx_cmd (mkMS GateFacts.gx_w [] (Some k)) in
                (match r with Err => true | _ => false end,
                 w_head (ms_w s), map fst (w_refs (ms_w s)), length (ms_trace s)))
      [0; 1; 2; 3] =
  [ (true, str "main"%string,  [str "main"%string], 0);
    (true, str "main"%string,  [str "main"%string; str "trunk"%string], 1);
    (true, str "trunk"%string, [str "main"%string; str "trunk"%string], 2);
    (true, str "trunk"%string, [str "trunk"%string], 3) ].
Proof. vm_compute. reflexivity. Qed.

Example rx_fault_theorem : forall k r' s' n id,
  run_cmd GateFacts.gx_env rx_cmd (mkMS GateFacts.gx_w [] (Some k)) = (r', s') ->
  am_get (w_refs (ms_w s')) n = Some id -> id = GateFacts.gx_hid.
Proof.
  intros k r' s' n id Hf Hk.
  destruct (fault_branch_old_or_new _ _ _ _ _ _ k r' s' n id rx_run Hf Hk) as [H|H].
  - assert (Hin : In (n, id) (w_refs GateFacts.gx_w)) by (apply am_get_in; exact H).
    vm_compute in Hin. destruct Hin as [Hin|[]]. injection Hin as _ <-. vm_compute. reflexivity.
  - assert (Hin : In (n, id) (w_refs rx_w')) by (apply am_get_in; exact H).
    vm_compute in Hin. destruct Hin as [Hin|[]]. injection Hin as _ <-. vm_compute. reflexivity.
Qed.

(* the discipline is not empty: a trace that writes two different ids under
   one name is rejected (its middle state shows neither the old nor the new
   content of the name) *)
Example two_writes_rejected : forall w n a b, am_get (w_refs w) n <> Some a ->
  ~ steps_ok Itrue (Gw w) w [ESetRef n a; ESetRef n b].
Proof.
  intros w n a b Hne (_ & _ & [Hg _] & _).
  specialize (Hg n (or_introl eq_refl)). autorewrite with wfields in Hg.
  rewrite am_get_set_same in Hg. apply Hne. symmetry. exact Hg.
Qed.

(* ------------------------------------------------------------------ *)
Print Assumptions run_cmd_cb.
Print Assumptions branch_prefix_old_or_new.
Print Assumptions branch_old_or_new.
Print Assumptions branch_missing_old_or_new.
Print Assumptions head_old_or_new.
Print Assumptions step_branch_old_or_new.
Print Assumptions step_head_old_or_new.
Print Assumptions fault_branch_old_or_new.
Print Assumptions fault_branch_slot_old_or_new.
Print Assumptions fault_head_old_or_new.
Print Assumptions fault_prefix_branch_old_or_new.
Print Assumptions reachable_branch_old_or_new.
Print Assumptions reachable_head_old_or_new.
Print Assumptions reachable_fault_branch_old_or_new.
Print Assumptions rx_prefix_states.
Print Assumptions rx_fault_theorem.
Print Assumptions two_writes_rejected.
