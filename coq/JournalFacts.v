(* JournalFacts.v — property C11 at HISTORY level: logs/HEAD is an append-only
   journal that every command of every history leaves readable.

   1. append-only: every step (and every history) only appends to logs/HEAD
      and never removes the file ([hlog_append_only_step/_run], [hlog_kept_*]);
   2. one appended line reads back ([journal_append]);
   3. the invariant [JInv] = [JournalOk] (the journal parses and ends in a
      newline) + [NamesClean] (no newline in a branch name or in HEAD) +
      [CfgVals] (no tab/newline in a configured value);
   4. [cfg_load] only produces such values ([cfg_load_vals_clean]);
   5. every command through the program logic of MonadFacts: which effects it
      emits ([run_cmd_spec]) and what it has appended when it succeeds
      ([cmd_post]: commit, switch, switch -c, reset, branch --rename; all
      other commands never write to logs/HEAD);
   6. [JInv_step] / [JInv_run] / [JInv_fault]: the invariant is kept by every
      step whose branch-name ARGUMENTS hold no newline, also when the command
      is refused half-way or stopped by a write failure; [reflog_total];
      [commit_appends], [switch_appends], [reset_appends], [rename_appends],
      [quiet_cmd_untouched];
   7. [reflog_extends]: a successful step extends the PARSED journal by the
      records of the lines it appended ([journal_delta]); positions of the
      earlier records shift by that number; [reflog_head_entry]: HEAD@{0} is
      the commit HEAD now resolves to, with the action's kind;
      [journal_extends_run] for whole histories and every outcome;
   8. a worked history, by computation;
   9. counterexamples, by computation.

   Three statements suggested for this file are FALSE for the model; each is
   exhibited in section 9 and the corrected statement is the one proved:
   - a branch name could contain a newline ([valid_branch_name] only excluded
     '/', '\', "", ".", ".."): [switch -c "a\nx y z"] succeeded and wrote a
     journal that no longer parsed, so [reflog] and [reset] were refused from
     then on (the Go program behaved the same: "fail to read hash y: invalid
     hash").  That defect has since been repaired in the program and in the
     model (control characters are refused); the theorems still carry the
     hypothesis [action_names_clean], which the repaired validation implies
     for every accepted name;
   - [Inv.CfgGood] (no tab in any SECTION name) is not kept by [config]:
     [config "a\tb.k" v] reloads with the section "a\tb"
     ([jx_cfggood_not_kept]).  Values and keys are tab-free, which is all
     the journal needs: [CfgVals] (and [CfgGood_CfgVals]);
   - a record reads back with [id_back] of its id and [drop_cr] of its
     message ([rec_of]): a first line ending in '\r' loses that byte, and the
     all-zero id reads back as "no id". *)
From Coq Require Import Strings.String Strings.Byte.
From Coq Require Import List Bool NArith ZArith Arith Lia ZifyBool ZifyNat ZifyN.
From Goit Require Import Bytes Sha1 Obj Tree Index Regex GoRegex Commit Reflog Config Ignore World Repo.
From Goit Require Import BytesFacts ObjFacts RegexFacts ReflogFacts MonadFacts BranchFacts ExactFacts Inv.
Import ListNotations.

Arguments sha1 : simpl never.

(* ================================================================== *)
(** * 0. Helpers *)

Lemma jf_drop_cr_app : forall a b : bytes, b <> [] -> drop_cr (a ++ b) = a ++ drop_cr b.
Proof.
  intros a b Hb. unfold drop_cr. rewrite rev_app_distr.
  destruct (rev b) as [|c r] eqn:Eb.
  - exfalso. apply Hb. rewrite <- (rev_involutive b), Eb. reflexivity.
  - cbn [app]. destruct (beqb c c_cr).
    + rewrite rev_app_distr, rev_involutive. reflexivity.
    + reflexivity.
Qed.

Lemma jf_drop_cr_incl : forall (l : bytes) c, In c (drop_cr l) -> In c l.
Proof.
  intros l c Hin. unfold drop_cr in Hin. destruct (rev l) as [|x r] eqn:El; [exact Hin|].
  destruct (beqb x c_cr); [|exact Hin].
  apply in_rev. rewrite El. right. apply in_rev in Hin. exact Hin.
Qed.

Lemma jf_drop_cr_cons_sp : forall m : bytes, drop_cr (c_sp :: m) = c_sp :: drop_cr m.
Proof.
  intro m. destruct m as [|x m'].
  - reflexivity.
  - change (c_sp :: x :: m') with ([c_sp] ++ (x :: m')).
    rewrite jf_drop_cr_app by discriminate. reflexivity.
Qed.

(* the journal as bytes: an absent file reads as the empty one *)
Definition hlog_bytes (w : world) : bytes := match w_hlog w with Some b => b | None => [] end.

Definition is_hlog (e : effect) : bool := match e with EAppendHlog _ => true | _ => false end.
Definition hlog_line (e : effect) : bytes := match e with EAppendHlog l => l | _ => [] end.
Definition hlog_lines (tr : list effect) : bytes := flat_map hlog_line tr.

(* ================================================================== *)
(** * 1. logs/HEAD is append-only *)

Lemma hlog_bytes_effect : forall e w, hlog_bytes (apply_effect e w) = hlog_bytes w ++ hlog_line e.
Proof.
  intros e w. unfold hlog_bytes.
  destruct e; autorewrite with wfields; cbn [hlog_line]; try (rewrite app_nil_r; reflexivity).
  destruct (w_hlog w); reflexivity.
Qed.

Lemma hlog_kept_effect : forall e w, w_hlog w <> None -> w_hlog (apply_effect e w) <> None.
Proof.
  intros e w Hw. destruct e; autorewrite with wfields; try exact Hw. discriminate.
Qed.

Lemma hlog_bytes_effects : forall tr w, hlog_bytes (apply_effects tr w) = hlog_bytes w ++ hlog_lines tr.
Proof.
  induction tr as [|e tr IH]; intro w.
  - cbn. rewrite app_nil_r. reflexivity.
  - rewrite apply_effects_cons, IH, hlog_bytes_effect. unfold hlog_lines. cbn [flat_map].
    rewrite app_assoc. reflexivity.
Qed.

Lemma hlog_kept_effects : forall tr w, w_hlog w <> None -> w_hlog (apply_effects tr w) <> None.
Proof.
  induction tr as [|e tr IH]; intros w Hw.
  - exact Hw.
  - rewrite apply_effects_cons. apply IH. apply hlog_kept_effect. exact Hw.
Qed.

Lemma hlog_lines_quiet : forall tr, Forall (fun e => is_hlog e = false) tr -> hlog_lines tr = [].
Proof.
  induction tr as [|e tr IH]; intro Hall.
  - reflexivity.
  - inversion Hall as [|e' tr' He Htr]; subst. unfold hlog_lines. cbn [flat_map].
    fold (hlog_lines tr). rewrite (IH Htr), app_nil_r.
    destruct e; try reflexivity. discriminate He.
Qed.

(* the world a step ends in is the start world after the step's trace *)
Lemma step_w_cmd_trace : forall e c w,
  step_w (ACmd e c) w = apply_effects (snd (step (ACmd e c) w)) w.
Proof.
  intros e c w. unfold step_w. destruct (step (ACmd e c) w) as [[w' o] tr] eqn:Es.
  cbn [fst snd]. exact (step_trace _ _ _ _ _ Es).
Qed.

Lemma step_w_edit : forall u w, step_w (AEdit u) w = apply_edit u w.
Proof. reflexivity. Qed.

Theorem hlog_append_only_step : forall a w,
  exists suffix, hlog_bytes (step_w a w) = hlog_bytes w ++ suffix.
Proof.
  intros [e c|u] w.
  - exists (hlog_lines (snd (step (ACmd e c) w))). rewrite step_w_cmd_trace. apply hlog_bytes_effects.
  - exists []. rewrite step_w_edit. unfold hlog_bytes. rewrite w_hlog_apply_edit, app_nil_r. reflexivity.
Qed.

(* the file is never removed *)
Theorem hlog_kept_step : forall a w, w_hlog w <> None -> w_hlog (step_w a w) <> None.
Proof.
  intros [e c|u] w Hw.
  - rewrite step_w_cmd_trace. apply hlog_kept_effects. exact Hw.
  - rewrite step_w_edit, w_hlog_apply_edit. exact Hw.
Qed.

(* in the shape of the task statement *)
Corollary hlog_append_only_step_opt : forall a w, exists suffix,
  match w_hlog w with
  | Some b => w_hlog (step_w a w) = Some (b ++ suffix)
  | None => (w_hlog (step_w a w) = None /\ suffix = []) \/ w_hlog (step_w a w) = Some suffix
  end.
Proof.
  intros a w. destruct (hlog_append_only_step a w) as [suffix Hs]. exists suffix.
  unfold hlog_bytes in Hs. destruct (w_hlog w) as [b|] eqn:Ew.
  - assert (Hk : w_hlog (step_w a w) <> None) by (apply hlog_kept_step; rewrite Ew; discriminate).
    destruct (w_hlog (step_w a w)) as [b'|]; [|contradiction Hk; reflexivity].
    rewrite Hs. reflexivity.
  - cbn [app] in Hs. destruct (w_hlog (step_w a w)) as [b'|].
    + right. rewrite Hs. reflexivity.
    + left. split; [reflexivity | symmetry; exact Hs].
Qed.

Theorem hlog_append_only_run : forall h w,
  exists suffix, hlog_bytes (run h w) = hlog_bytes w ++ suffix.
Proof.
  induction h as [|a h IH]; intro w.
  - exists []. rewrite app_nil_r. reflexivity.
  - rewrite run_cons. destruct (IH (step_w a w)) as [s2 H2].
    destruct (hlog_append_only_step a w) as [s1 H1].
    exists (s1 ++ s2). rewrite H2, H1, app_assoc. reflexivity.
Qed.

Theorem hlog_kept_run : forall h w, w_hlog w <> None -> w_hlog (run h w) <> None.
Proof.
  induction h as [|a h IH]; intros w Hw.
  - exact Hw.
  - rewrite run_cons. apply IH. apply hlog_kept_step. exact Hw.
Qed.

(* a later world's journal starts with every earlier world's journal *)
Corollary hlog_prefix_run : forall h1 h2 w,
  exists suffix, hlog_bytes (run (h1 ++ h2) w) = hlog_bytes (run h1 w) ++ suffix.
Proof.
  intros h1 h2 w. unfold run. rewrite fold_left_app. apply hlog_append_only_run.
Qed.

(* ================================================================== *)
(** * 2. One appended line reads back *)

Lemma jf_log_body_split : forall from to name email t off ty,
  exists A, forall msg, log_body from to name email t off ty msg = A ++ c_sp :: msg.
Proof.
  intros from to name email t off ty.
  exists (id_text from ++ c_sp :: id_text to ++ c_sp ::
          (name ++ [c_sp; x3c] ++ email ++ [x3e; c_sp] ++ dec_z t ++ [c_sp] ++ log_tz off)
          ++ c_tab :: rtype_s ty ++ [x3a]).
  intro msg. unfold log_body.
  repeat (rewrite <- app_assoc; cbn [app]). reflexivity.
Qed.

Lemma jf_log_body_drop_cr : forall from to name email t off ty msg,
  drop_cr (log_body from to name email t off ty msg)
  = log_body from to name email t off ty (drop_cr msg).
Proof.
  intros from to name email t off ty msg.
  destruct (jf_log_body_split from to name email t off ty) as [A HA].
  rewrite !HA. rewrite jf_drop_cr_app by discriminate. rewrite jf_drop_cr_cons_sp. reflexivity.
Qed.

(* the record a line reads back as: the reader sees the all-zero id as "no
   id" and the line splitter drops one final '\r' *)
Definition rec_of (to : option bytes) (ty : rtype) (msg : bytes) : lrec :=
  mkRec (id_back to) ty (drop_cr msg).

Lemma jf_line_reads : forall from to name email t off ty msg,
  (forall h, to = Some h -> length h = 20) -> ~ In c_tab name -> ~ In c_tab email ->
  parse_log_line (drop_cr (log_body from to name email t off ty msg)) = Some (Some (rec_of to ty msg)).
Proof.
  intros from to name email t off ty msg Hto Hn He.
  rewrite jf_log_body_drop_cr. apply log_line_roundtrip_gen; assumption.
Qed.

(* a line that the reader turns into the record [r] *)
Definition good_line (l : bytes) (r : lrec) : Prop :=
  exists body, l = body ++ [c_nl] /\ ~ In c_nl body /\ parse_log_line (drop_cr body) = Some (Some r).

Lemma log_line_good : forall from to name email t off ty msg,
  (forall h, to = Some h -> length h = 20) ->
  no_ctl name -> no_ctl email -> ~ In c_nl msg ->
  good_line (log_line from to name email t off ty msg) (rec_of to ty msg).
Proof.
  intros from to name email t off ty msg Hto [Hnn Hnt] [Hen Het] Hm.
  exists (log_body from to name email t off ty msg). split; [apply log_line_body|]. split.
  - apply log_body_no_nl; assumption.
  - apply jf_line_reads; assumption.
Qed.

Lemma jf_scan_one : forall body, ~ In c_nl body -> scan_lines (body ++ [c_nl]) = [drop_cr body].
Proof.
  intros body Hb. unfold scan_lines. change (body ++ [c_nl]) with (body ++ c_nl :: []).
  rewrite (scan_lines_aux_app_nl body [] [] Hb). reflexivity.
Qed.

Lemma jf_last_snoc_nl : forall a body : bytes, last (a ++ body ++ [c_nl]) x00 = c_nl.
Proof. intros a body. rewrite app_assoc. apply last_last. Qed.

(* the journal lemma: one good line after a readable, newline-terminated file *)
Theorem journal_append : forall file rs l r,
  parse_reflog file = Some rs -> (file = [] \/ last file x00 = c_nl) -> good_line l r ->
  parse_reflog (file ++ l) = Some (rs ++ [r]) /\ last (file ++ l) x00 = c_nl.
Proof.
  intros file rs l r Hfile Hend (body & -> & Hnl & Hline). split; [|apply jf_last_snoc_nl].
  unfold parse_reflog in *. rewrite (scan_lines_app file (body ++ [c_nl]) Hend).
  rewrite parse_log_lines_app, Hfile, (jf_scan_one body Hnl).
  cbn [parse_log_lines]. rewrite Hline. reflexivity.
Qed.

(* two lines *)
Corollary journal_append2 : forall file rs l1 r1 l2 r2,
  parse_reflog file = Some rs -> (file = [] \/ last file x00 = c_nl) ->
  good_line l1 r1 -> good_line l2 r2 ->
  parse_reflog (file ++ l1 ++ l2) = Some (rs ++ [r1; r2]) /\ last (file ++ l1 ++ l2) x00 = c_nl.
Proof.
  intros file rs l1 r1 l2 r2 Hfile Hend H1 H2.
  destruct (journal_append file rs l1 r1 Hfile Hend H1) as [Hp1 He1].
  destruct (journal_append (file ++ l1) (rs ++ [r1]) l2 r2 Hp1 (or_intror He1) H2) as [Hp2 He2].
  rewrite <- !app_assoc in Hp2. rewrite <- app_assoc in He2. cbn [app] in Hp2. split; assumption.
Qed.

(* ================================================================== *)
(** * 3. The invariant *)

(* 3.1 the journal reads back and ends in a newline *)
Definition JournalOk (w : world) : Prop :=
  (exists rs, parse_reflog (hlog_bytes w) = Some rs) /\
  (hlog_bytes w = [] \/ last (hlog_bytes w) x00 = c_nl).

Lemma JournalOk_empty : JournalOk w_empty.
Proof. split; [exists []; reflexivity | left; reflexivity]. Qed.

Lemma JournalOk_bytes : forall w w', hlog_bytes w' = hlog_bytes w -> JournalOk w -> JournalOk w'.
Proof. intros w w' He H. unfold JournalOk. rewrite He. exact H. Qed.

Lemma JournalOk_append : forall w l r, JournalOk w -> good_line l r ->
  JournalOk (apply_effect (EAppendHlog l) w).
Proof.
  intros w l r [[rs Hp] He] Hl. unfold JournalOk. rewrite hlog_bytes_effect. cbn [hlog_line].
  destruct (journal_append _ rs l r Hp He Hl) as [Hp' He']. split; [exists (rs ++ [r]); exact Hp' | right; exact He'].
Qed.

(* 3.2 no branch name, and not the name in HEAD, contains a newline *)
Definition NamesClean (w : world) : Prop :=
  (forall n, am_mem (w_refs w) n = true -> ~ In c_nl n) /\ ~ In c_nl (w_head w).

Lemma NamesClean_empty : NamesClean w_empty.
Proof. split; [intros n Hn; discriminate Hn | intros []]. Qed.

Lemma NamesClean_get : forall w n id, NamesClean w -> am_get (w_refs w) n = Some id -> ~ In c_nl n.
Proof.
  intros w n id [Hr _] Hg. apply Hr. unfold am_mem. rewrite Hg. reflexivity.
Qed.

(* 3.3 the values both config files load to hold no tab and no newline *)
Definition vals_ok (m : kvs) : Prop := Forall (fun kv => no_ctl (snd kv)) m.
Definition cfg_vals_clean (c : cfg) : Prop := Forall (fun sm => vals_ok (snd sm)) c.
Definition st_vals_clean (s : cfgst) : Prop := forall c, cfg_of s = Some c -> cfg_vals_clean c.
Definition CfgVals (w : world) : Prop := st_vals_clean (w_lcfg w) /\ st_vals_clean (w_gcfg w).

Lemma st_vals_clean_absent : st_vals_clean CfgAbsent.
Proof. intros c Hc. injection Hc as <-. constructor. Qed.

Lemma st_vals_clean_nil : st_vals_clean (CfgFile (Some [])).
Proof. intros c Hc. injection Hc as <-. constructor. Qed.

Lemma CfgVals_empty : CfgVals w_empty.
Proof. split; apply st_vals_clean_absent. Qed.

(* what Inv.v asks for is stronger (section names and keys as well) *)
Lemma cfg_clean_vals : forall c, cfg_clean c -> cfg_vals_clean c.
Proof.
  intros c Hc. unfold cfg_clean in Hc. unfold cfg_vals_clean.
  apply (Forall_impl _ (P := fun sm => no_ctl (fst sm) /\ Forall (fun kv => no_ctl (fst kv) /\ no_ctl (snd kv)) (snd sm))); [|exact Hc].
  intros sm [_ Hkv]. unfold vals_ok.
  apply (Forall_impl _ (P := fun kv => no_ctl (fst kv) /\ no_ctl (snd kv))); [|exact Hkv].
  intros kv [_ Hv]. exact Hv.
Qed.

Lemma CfgGood_CfgVals : forall w, CfgGood w -> CfgVals w.
Proof.
  intros w [Hl Hg]. split; intros c Hc; apply cfg_clean_vals; [apply Hl | apply Hg]; exact Hc.
Qed.

Definition JInv (w : world) : Prop := JournalOk w /\ NamesClean w /\ CfgVals w.

Lemma JInv_empty : JInv w_empty.
Proof. split; [apply JournalOk_empty | split; [apply NamesClean_empty | apply CfgVals_empty]]. Qed.

(* 3.4 which single effects keep [JInv] *)
Definition JG (e : effect) : Prop :=
  match e with
  | EAppendHlog l => exists r, good_line l r
  | ESetRef n _ | ERenameRef _ n | ESetHead n => ~ In c_nl n
  | ESetLcfg st | ESetGcfg st => st_vals_clean st
  | _ => True
  end.

Definition jg_static (e : effect) : Prop :=
  match e with
  | EAppendHlog _ | ESetRef _ _ | ERenameRef _ _ | ESetHead _ | ESetLcfg _ | ESetGcfg _ => False
  | _ => True
  end.

Lemma jg_static_JG : forall e, jg_static e -> JG e.
Proof. intros e H. destruct e; try exact Logic.I; contradiction H. Qed.

Lemma jg_static_quiet : forall e, jg_static e -> is_hlog e = false.
Proof. intros e H. destruct e; try reflexivity; contradiction H. Qed.

Lemma JournalOk_effect : forall e w, JG e -> JournalOk w -> JournalOk (apply_effect e w).
Proof.
  intros e w Hg Hj. destruct (is_hlog e) eqn:Eh.
  - destruct e as [ | pid ppl | name rid | name | old new | hname | ies | line | bname bline | dbname | lst | gst | fpath fdata | rpath | mpath ]; try discriminate Eh. cbn [JG] in Hg. destruct Hg as [r Hr].
    apply (JournalOk_append w line r Hj Hr).
  - apply (JournalOk_bytes w); [|exact Hj]. rewrite hlog_bytes_effect.
    destruct e; try discriminate Eh; cbn [hlog_line]; apply app_nil_r.
Qed.

Lemma jf_main_clean : ~ In c_nl (str "main"%string).
Proof. cbn. intuition discriminate. Qed.

Lemma NamesClean_effect : forall e w, JG e -> NamesClean w -> NamesClean (apply_effect e w).
Proof.
  intros e w Hg [Hr Hh]. unfold NamesClean.
  destruct e as [ | pid ppl | name rid | name | old new | hname | ies | line | bname bline | dbname | lst | gst | fpath fdata | rpath | mpath ]; autorewrite with wfields; cbn [JG] in Hg; try (split; assumption).
  - (* EInit *) split; [exact Hr | exact jf_main_clean].
  - (* ESetRef *) split; [|exact Hh]. intros n Hn. rewrite am_mem_set in Hn.
    apply orb_true_iff in Hn. destruct Hn as [Hn|Hn]; [apply bytes_eqb_eq in Hn; subst n; exact Hg | apply Hr; exact Hn].
  - (* EDelRef *) split; [|exact Hh]. intros n Hn. apply Hr. apply (am_mem_del_incl _ _ name). exact Hn.
  - (* ERenameRef *) split; [|exact Hh]. destruct (am_get (w_refs w) old) as [i|]; [|exact Hr].
    intros n Hn. rewrite am_mem_set in Hn. apply orb_true_iff in Hn.
    destruct Hn as [Hn|Hn]; [apply bytes_eqb_eq in Hn; subst n; exact Hg|].
    apply Hr. apply (am_mem_del_incl _ _ old). exact Hn.
Qed.

Lemma CfgVals_effect : forall e w, JG e -> CfgVals w -> CfgVals (apply_effect e w).
Proof.
  intros e w Hg [Hl Hgl]. unfold CfgVals.
  destruct e; autorewrite with wfields; cbn [JG] in Hg; try (split; assumption).
  split; [apply st_vals_clean_nil | exact Hgl].
Qed.

Lemma JInv_effect : forall e w, JG e -> JInv w -> JInv (apply_effect e w).
Proof.
  intros e w Hg (Hj & Hn & Hc).
  split; [apply JournalOk_effect | split; [apply NamesClean_effect | apply CfgVals_effect]]; assumption.
Qed.

Lemma JInv_effects : forall tr w, Forall JG tr -> JInv w -> JInv (apply_effects tr w).
Proof.
  induction tr as [|e tr IH]; intros w Hall Hi.
  - exact Hi.
  - inversion Hall as [|e' tr' He Htr]; subst. rewrite apply_effects_cons.
    apply IH; [exact Htr | apply JInv_effect; assumption].
Qed.

Lemma JInv_edit : forall u w, JInv w -> JInv (apply_edit u w).
Proof.
  intros u w (Hj & Hn & Hc). unfold JInv, JournalOk, NamesClean, CfgVals, hlog_bytes.
  autorewrite with wfields. auto.
Qed.

(* ================================================================== *)
(** * 4. What [cfg_load] can produce: values without tab or newline *)

Lemma jf_trim_left_incl : forall s c, In c (trim_left s) -> In c s.
Proof.
  induction s as [|x s IH]; intros c H; [exact H|].
  cbn [trim_left] in H. destruct (is_space x); [right; apply IH; exact H | exact H].
Qed.

Lemma jf_trim_space_incl : forall s c, In c (trim_space s) -> In c s.
Proof.
  intros s c H. unfold trim_space in H.
  apply <- in_rev in H. apply jf_trim_left_incl in H. apply <- in_rev in H.
  apply jf_trim_left_incl. exact H.
Qed.

Lemma jf_scan_aux_no_nl : forall s cur l,
  ~ In c_nl cur -> In l (scan_lines_aux cur s) -> ~ In c_nl l.
Proof.
  assert (Hdrop : forall cur, ~ In c_nl cur -> ~ In c_nl (drop_cr (rev cur))).
  { intros cur Hcur Hin. apply jf_drop_cr_incl in Hin. apply <- in_rev in Hin. apply Hcur. exact Hin. }
  induction s as [|a s IH]; intros cur l Hcur Hin.
  - cbn [scan_lines_aux] in Hin. destruct cur as [|c0 cur0]; [destruct Hin|].
    destruct Hin as [<-|[]]. apply Hdrop. exact Hcur.
  - rewrite scan_lines_aux_cons in Hin. destruct (beqb a c_nl) eqn:Ea.
    + destruct Hin as [<-|Hin]; [apply Hdrop; exact Hcur|].
      apply (IH [] l); [intros [] | exact Hin].
    + apply (IH (a :: cur) l); [|exact Hin].
      intros [Ha|Hc]; [apply beqb_neq in Ea; apply Ea; exact Ha | apply Hcur; exact Hc].
Qed.

Lemma jf_scan_lines_no_nl : forall s, Forall (fun l => ~ In c_nl l) (scan_lines s).
Proof.
  intro s. apply Forall_forall. intros l Hl. apply (jf_scan_aux_no_nl s [] l); [intros [] | exact Hl].
Qed.

Lemma no_ctl_nil : no_ctl [].
Proof. split; intros []. Qed.

Lemma kv_set_vals : forall m k v, vals_ok m -> no_ctl v -> vals_ok (kv_set m k v).
Proof.
  induction m as [|[k0 v0] m IH]; intros k v Hm Hv; cbn [kv_set].
  - constructor; [exact Hv | constructor].
  - inversion Hm as [|kv m' Hkv Hm']; subst. destruct (bytes_eqb k0 k).
    + constructor; [exact Hv | exact Hm'].
    + constructor; [exact Hkv | apply IH; assumption].
Qed.

Lemma kv_get_vals : forall m k v, vals_ok m -> kv_get m k = Some v -> no_ctl v.
Proof.
  induction m as [|[k0 v0] m IH]; intros k v Hm Hg; cbn [kv_get] in Hg; [discriminate Hg|].
  inversion Hm as [|kv m' Hkv Hm']; subst. destruct (bytes_eqb k0 k).
  - injection Hg as <-. exact Hkv.
  - apply (IH k v Hm' Hg).
Qed.

Lemma sec_set_vals : forall c s m, cfg_vals_clean c -> vals_ok m -> cfg_vals_clean (sec_set c s m).
Proof.
  induction c as [|[s0 m0] c IH]; intros s m Hc Hm; cbn [sec_set].
  - constructor; [exact Hm | constructor].
  - inversion Hc as [|sm c' Hsm Hc']; subst. destruct (bytes_eqb s0 s).
    + constructor; [exact Hm | exact Hc'].
    + constructor; [exact Hsm | apply IH; assumption].
Qed.

Lemma sec_get_vals : forall c s m, cfg_vals_clean c -> sec_get c s = Some m -> vals_ok m.
Proof.
  induction c as [|[s0 m0] c IH]; intros s m Hc Hg; cbn [sec_get] in Hg; [discriminate Hg|].
  inversion Hc as [|sm c' Hsm Hc']; subst. destruct (bytes_eqb s0 s).
  - injection Hg as <-. exact Hsm.
  - apply (IH s m Hc' Hg).
Qed.

Lemma jf_cfg_load_lines_cons : forall l r c cur,
  cfg_load_lines (l :: r) c cur =
    if re_search re_identRegexp l then
      if Nat.leb (length l) 2 then None
      else
        let ident := firstn (length l - 2) (skipn 1 l) in
        cfg_load_lines r (sec_set c ident []) (Some ident)
    else if is_nil (trim_space l) then cfg_load_lines r c cur
    else
      match split1 x3d (remove_tabs l), cur with
      | (k, Some v), Some s =>
          let m := match sec_get c s with Some m => m | None => [] end in
          cfg_load_lines r (sec_set c s (kv_set m (trim_space k) (trim_space v))) cur
      | _, _ => None
      end.
Proof. reflexivity. Qed.

(* the value of a "key = value" line: tabs were removed from the whole line,
   and a line has no newline *)
Lemma jf_loaded_value_clean : forall l k v,
  ~ In c_nl l -> split1 x3d (remove_tabs l) = (k, Some v) -> no_ctl (trim_space v).
Proof.
  intros l k v Hl Hs. destruct (split1_inv_some _ _ _ _ Hs) as [Heq _].
  assert (Hsub : forall x, In x (trim_space v) -> In x l /\ negb (beqb x c_tab) = true).
  { intros x Hx. apply jf_trim_space_incl in Hx.
    assert (Hx' : In x (remove_tabs l)) by (rewrite Heq; apply in_or_app; right; right; exact Hx).
    unfold remove_tabs in Hx'. apply filter_In in Hx'. exact Hx'. }
  split; intro Hin; destruct (Hsub _ Hin) as [Hxl Hxt].
  - apply Hl. exact Hxl.
  - discriminate Hxt.
Qed.

Lemma jf_cfg_load_lines_vals : forall ls c cur c',
  Forall (fun l => ~ In c_nl l) ls -> cfg_vals_clean c ->
  cfg_load_lines ls c cur = Some c' -> cfg_vals_clean c'.
Proof.
  induction ls as [|l ls IH]; intros c cur c' Hls Hc Hload.
  - cbn [cfg_load_lines] in Hload. injection Hload as <-. exact Hc.
  - rewrite jf_cfg_load_lines_cons in Hload. inversion Hls as [|l0 ls0 Hl Hls']; subst.
    destruct (re_search re_identRegexp l) eqn:Eid.
    + destruct (Nat.leb (length l) 2) eqn:Elen; [discriminate Hload|]. cbv zeta in Hload.
      apply (IH _ _ _ Hls') in Hload; [exact Hload|].
      apply sec_set_vals; [exact Hc | constructor].
    + destruct (is_nil (trim_space l)) eqn:Eblank.
      * apply (IH _ _ _ Hls' Hc Hload).
      * destruct (split1 x3d (remove_tabs l)) as [k ov] eqn:Es.
        destruct ov as [v|]; [|discriminate Hload].
        destruct cur as [s|]; [|discriminate Hload]. cbv zeta in Hload.
        apply (IH _ _ _ Hls') in Hload; [exact Hload|].
        apply sec_set_vals; [exact Hc|]. apply kv_set_vals.
        -- destruct (sec_get c s) as [m|] eqn:Eg; [apply (sec_get_vals c s m Hc Eg) | constructor].
        -- apply (jf_loaded_value_clean l k v Hl Es).
Qed.

(* CORRECTED form of the suggested [cfg_load_clean]: values only (see
   [ex_section_tab] in section 9 for a loaded section name with a tab) *)
Theorem cfg_load_vals_clean : forall b c, cfg_load b = Some c -> cfg_vals_clean c.
Proof.
  intros b c H. unfold cfg_load in H.
  apply (jf_cfg_load_lines_vals (scan_lines b) [] None c (jf_scan_lines_no_nl b)); [constructor | exact H].
Qed.

Lemma st_vals_clean_written : forall c, st_vals_clean (cfg_written c).
Proof. intros c c' H. unfold cfg_written in H. cbn [cfg_of] in H. apply (cfg_load_vals_clean _ _ H). Qed.

(* the identity a command writes into its log lines *)
Definition ident_clean (c : ctx) : Prop :=
  no_ctl (user_name (x_l c) (x_g c)) /\ no_ctl (user_email (x_l c) (x_g c)).

Lemma ident_get_clean : forall l g key v,
  cfg_vals_clean l -> cfg_vals_clean g -> ident_get l g key = Some v -> no_ctl v.
Proof.
  intros l g key v Hl Hg H. unfold ident_get in H.
  assert (Hglob : match sec_get g (str "user"%string) with Some m' => kv_get m' key | None => None end = Some v
                  -> no_ctl v).
  { intro H'. destruct (sec_get g (str "user"%string)) as [m'|] eqn:Eg; [|discriminate H'].
    apply (kv_get_vals m' key v (sec_get_vals g _ m' Hg Eg) H'). }
  destruct (sec_get l (str "user"%string)) as [m|] eqn:El; [|apply Hglob; exact H].
  destruct (kv_get m key) as [v0|] eqn:Ek; [|apply Hglob; exact H].
  injection H as <-. apply (kv_get_vals m key v0 (sec_get_vals l _ m Hl El) Ek).
Qed.

Lemma ident_clean_of : forall c, cfg_vals_clean (x_l c) -> cfg_vals_clean (x_g c) -> ident_clean c.
Proof.
  intros c Hl Hg. unfold ident_clean, user_name, user_email. split.
  - destruct (ident_get (x_l c) (x_g c) (str "name"%string)) as [v|] eqn:E; [|apply no_ctl_nil].
    apply (ident_get_clean _ _ _ _ Hl Hg E).
  - destruct (ident_get (x_l c) (x_g c) (str "email"%string)) as [v|] eqn:E; [|apply no_ctl_nil].
    apply (ident_get_clean _ _ _ _ Hl Hg E).
Qed.

Lemma ctx_ident_clean : forall w x, CfgVals w -> ctx_of w = Some x -> ident_clean x.
Proof.
  intros w x [Hl Hg] Hx. unfold ctx_of in Hx.
  destruct (cfg_of (w_gcfg w)) as [g|] eqn:Eg; [|discriminate Hx].
  destruct (cfg_of (w_lcfg w)) as [l|] eqn:El; [|discriminate Hx].
  destruct (head_commit w) as [hc|]; [|discriminate Hx].
  destruct (ign_load _) as [pats|]; [|discriminate Hx].
  injection Hx as <-. apply ident_clean_of; cbn [x_l x_g]; [apply Hl | apply Hg]; assumption.
Qed.

(* ================================================================== *)
(** * 5. Every command, through the program logic *)

(* The logic runs with the trivial intermediate invariant; what is recorded
   about each emitted effect is
   - [JG e] (it keeps [JInv]) PROVIDED the static hypothesis [H] holds
     ([H] will be: [JInv] of the start world and newline-free name arguments);
   - when the flag [q] is set: it is not a write to logs/HEAD.
   Postconditions (what was appended, on success) need no hypothesis. *)
Definition Tr (w : world) : Prop := True.
Definition JGq (H : Prop) (q : bool) (w : world) (e : effect) : Prop :=
  (H -> JG e) /\ (q = true -> is_hlog e = false).

Lemma JGq_intro : forall (H : Prop) q w e, (H -> JG e) -> (q = true -> is_hlog e = false) ->
  Tr w -> JGq H q w e /\ Tr (apply_effect e w).
Proof. intros H q w e H1 H2 _. split; [split; assumption | exact Logic.I]. Qed.

(* effects that keep [JInv] whatever the world *)
Definition jg_free (e : effect) : Prop :=
  match e with
  | EAppendHlog _ | ESetRef _ _ | ERenameRef _ _ | ESetHead _ => False
  | ESetLcfg st | ESetGcfg st => st_vals_clean st
  | _ => True
  end.

Lemma jg_free_JG : forall e, jg_free e -> JG e.
Proof. intros e H. destruct e; try exact Logic.I; try contradiction H; exact H. Qed.

Lemma jg_free_quiet : forall e, jg_free e -> is_hlog e = false.
Proof. intros e H. destruct e; try reflexivity; contradiction H. Qed.

Lemma emit_free : forall H q e, jg_free e -> emits Tr (JGq H q) (emit e).
Proof.
  intros H q e He. apply emits_emit. intros w Hi. apply JGq_intro; [| |exact Hi].
  - intros _. apply jg_free_JG. exact He.
  - intros _. apply jg_free_quiet. exact He.
Qed.

Create HintDb jlaws discriminated.

Ltac jfree :=
  cbn [jg_free]; first [ exact Logic.I | apply st_vals_clean_nil | apply st_vals_clean_written ].

Ltac jstep :=
  first
  [ assumption
  | lazymatch goal with
    | |- emits _ _ (bind _ _) => apply emits_bind; [ | intro ]
    | |- emits _ _ (ret _) => apply emits_ret
    | |- emits _ _ fail => apply emits_fail
    | |- emits _ _ getw => apply emits_getw
    | |- emits _ _ (emit _) => apply emit_free; jfree
    | |- emits _ _ (of_opt _) => apply emits_of_opt
    | |- emits _ _ (guard _) => apply emits_guard
    | |- emits _ _ (iterM _ _) => apply emits_iterM; intros ? _
    | |- emits _ _ (let _ := _ in _) => cbv zeta
    | |- emits _ _ (match ?x with _ => _ end) => destruct x; cbv beta iota
    | |- emits _ _ ((fix f (l : list _) {struct l} : M _ := _) ?args) =>
        induction args; cbv beta iota
    end
  | solve [ auto with jlaws nocore ] ].
Ltac jsteps := repeat jstep.

Section StaticCommands.
  Variables (H : Prop) (q : bool).
  Local Notation je m := (emits Tr (JGq H q) m).

  Lemma put_obj_je : forall k d, je (put_obj k d).
  Proof. intros k d. unfold put_obj. jsteps. Qed.
  Hint Resolve put_obj_je : jlaws.
  Lemma wt_put_je : forall p data, je (wt_put p data).
  Proof. intros p data. unfold wt_put. jsteps. Qed.
  Hint Resolve wt_put_je : jlaws.
  Lemma head_tree_nodes_je : forall c, je (head_tree_nodes c).
  Proof. intros c. unfold head_tree_nodes. jsteps. Qed.
  Hint Resolve head_tree_nodes_je : jlaws.
  Lemma cmd_init_je : je cmd_init.
  Proof. unfold cmd_init. jsteps. Qed.
  Lemma cmd_config_je : forall c g args, je (cmd_config c g args).
  Proof. intros c g args. unfold cmd_config. jsteps. Qed.
  Lemma add_file_je : forall p, je (add_file p).
  Proof. intros p. unfold add_file. jsteps. Qed.
  Hint Resolve add_file_je : jlaws.
  Lemma cmd_add_je : forall c args, je (cmd_add c args).
  Proof. intros c args. unfold cmd_add. jsteps. Qed.
  Lemma rm_one_je : forall p, je (rm_one p).
  Proof. intros p. unfold rm_one. jsteps. Qed.
  Hint Resolve rm_one_je : jlaws.
  Lemma cmd_rm_je : forall args, je (cmd_rm args).
  Proof. intros args. unfold cmd_rm. jsteps. Qed.
  Lemma cmd_status_je : forall c, je (cmd_status c).
  Proof. intros c. unfold cmd_status. jsteps. Qed.
  Lemma restore_wd_je : forall p, je (restore_wd p).
  Proof. intros p. unfold restore_wd. jsteps. Qed.
  Hint Resolve restore_wd_je : jlaws.
  Lemma restore_index_je : forall ns p, je (restore_index ns p).
  Proof. intros ns p. unfold restore_index. jsteps. Qed.
  Hint Resolve restore_index_je : jlaws.
  Lemma cmd_restore_je : forall c st args, je (cmd_restore c st args).
  Proof. intros c st args. unfold cmd_restore. jsteps. Qed.
  Lemma cmd_log_je : forall c n, je (cmd_log c n).
  Proof. intros c n. unfold cmd_log. jsteps. Qed.
  Lemma cmd_reflog_je : je cmd_reflog.
  Proof. unfold cmd_reflog. jsteps. Qed.
  Lemma cmd_cat_file_je : forall t p args, je (cmd_cat_file t p args).
  Proof. intros t p args. unfold cmd_cat_file. jsteps. Qed.
  Lemma cmd_hash_object_je : forall args, je (cmd_hash_object args).
  Proof. intros args. unfold cmd_hash_object. jsteps. Qed.
  Lemma cmd_ls_files_je : forall s, je (cmd_ls_files s).
  Proof. intros s. unfold cmd_ls_files. jsteps. Qed.
  Lemma cmd_rev_parse_je : forall args, je (cmd_rev_parse args).
  Proof. intros args. unfold cmd_rev_parse. jsteps. Qed.
  Lemma cmd_write_tree_je : je cmd_write_tree.
  Proof. unfold cmd_write_tree. jsteps. Qed.
End StaticCommands.

(* [load_ctx] reads only *)
Lemma load_ctx_at : forall (I : world -> Prop) (G : world -> effect -> Prop) w,
  hoare I G (eq w) load_ctx (fun x w' => w' = w /\ ctx_of w = Some x).
Proof.
  intros I G w.
  apply (hoare_noeffect I G _ _ _ (fun s => match ctx_of (ms_w s) with Some x => Ok x | None => Err end)).
  - intro s. apply load_ctx_eq.
  - intros s a _ Hw Hr. rewrite <- Hw in Hr. split; [symmetry; exact Hw|].
    destruct (ctx_of w) as [x|]; [injection Hr as <-; reflexivity | discriminate Hr].
Qed.

(* ------------------------------------------------------------------ *)
(** ** The journaling commands *)

Lemma JGq_ok : forall (H : Prop) q w e, (H -> JG e) -> (q = true -> is_hlog e = false) ->
  JGq H q w e /\ Tr (apply_effect e w).
Proof. intros H q w e H1 H2. split; [split; assumption | exact Logic.I]. Qed.

Lemma log_rec_good : forall e c from to ty msg,
  ident_clean c -> (forall h, to = Some h -> length h = 20) -> ~ In c_nl msg ->
  good_line (log_rec e c from to ty msg) (rec_of to ty msg).
Proof.
  intros e c from to ty msg [Hn He] Hto Hm. unfold log_rec. apply log_line_good; assumption.
Qed.

Lemma jf_lit_app_clean : forall (lit a : bytes), forallb (fun x => negb (beqb x c_nl)) lit = true ->
  ~ In c_nl a -> ~ In c_nl (lit ++ a).
Proof.
  intros lit a Hl Ha. apply not_in_app; [|exact Ha].
  intro Hin. rewrite forallb_forall in Hl. specialize (Hl _ Hin). discriminate Hl.
Qed.

Lemma switch_msg_clean : forall from to, ~ In c_nl from -> ~ In c_nl to ->
  ~ In c_nl (str "moving from "%string ++ from ++ str " to "%string ++ to).
Proof.
  intros from to Hf Ht. apply jf_lit_app_clean; [reflexivity|].
  apply not_in_app; [exact Hf|]. apply jf_lit_app_clean; [reflexivity | exact Ht].
Qed.

Lemma some_len : forall (id : bytes) , length id = 20 -> forall h, Some id = Some h -> length h = 20.
Proof. intros id Hl h Hh. injection Hh as <-. exact Hl. Qed.

Definition switch_post (e : env) (c : ctx) (w : world) (args : list bytes) (create : bytes) (w' : world) : Prop :=
  exists id, length id = 20 /\ am_get (w_refs w') (w_head w') = Some id /\
    hlog_bytes w' = hlog_bytes w ++
      log_rec e c (Some id) (Some id) RCheckout (str "moving from "%string ++ w_head w ++ str " to "%string ++ w_head w') /\
    ((args = [w_head w'] /\ create = [] /\ am_get (w_refs w) (w_head w') = Some id) \/
     (args = [] /\ create = w_head w' /\ is_nil create = false /\ am_get (w_refs w) (w_head w) = Some id)).

Ltac absurd_guard := match goal with Hf : false = true |- _ => discriminate Hf end.
Ltac jg_open Hh :=
  apply JGq_ok; [intro Hh; cbn [JG] | let Hq := fresh "Hq" in intro Hq; first [reflexivity | discriminate Hq]].

Lemma cmd_switch_spec : forall (H : Prop) e c args create w,
  ctx_of w = Some c ->
  (H -> NamesClean w /\ ident_clean c /\ ~ In c_nl create) ->
  hoare Tr (JGq H false) (eq w) (cmd_switch e c args create) (fun _ w' => switch_post e c w args create w').
Proof.
  intros H e c args create w Hctx Hhyp.
  pose proof (loaded_headc w c Hctx) as Hhead.
  destruct (is_nil create) eqn:Enil.
  - destruct create as [|c0 cr]; [clear Enil | discriminate Enil].
    destruct args as [|a [|b r]];
      unfold cmd_switch, head_update; cbn [length Nat.ltb Nat.leb is_nil negb andb orb]; hsteps;
      try absurd_guard.
    all: try match goal with Hc : get_commit _ ?i = Some _ |- _ =>
           pose proof (get_commit_id_length _ _ _ Hc) as Hlen end.
    all: try match goal with Hg : am_get _ _ = Some _ |- _ => pose proof Hg as Hga end.
    + jg_open Hh. destruct (Hhyp Hh) as (Hn & _ & _). apply (NamesClean_get w a _ Hn Hga).
    + jg_open Hh. destruct (Hhyp Hh) as (Hn & Hi & _). eexists. apply log_rec_good.
      * exact Hi.
      * apply some_len. exact Hlen.
      * apply switch_msg_clean; [exact (proj2 Hn) | apply (NamesClean_get w a _ Hn Hga)].
    + eexists. split; [exact Hlen|]. rewrite !hlog_bytes_effect. autorewrite with wfields.
      cbn [hlog_line]. rewrite app_nil_r. split; [exact Hga|]. split; [reflexivity|].
      left. auto.
  - destruct args as [|a [|b r]];
      unfold cmd_switch, head_update; rewrite Enil;
      cbn [length Nat.ltb Nat.leb is_nil negb andb orb]; hsteps; try absurd_guard.
    all: destruct Hhead as [Hhd Hhc]; pose proof (get_commit_id_length _ _ _ Hhc) as Hlen.
    + jg_open Hh. exact (proj2 (proj2 (Hhyp Hh))).
    + jg_open Hh. exact (proj2 (proj2 (Hhyp Hh))).
    + jg_open Hh. destruct (Hhyp Hh) as (Hn & Hi & Hcr). eexists. apply log_rec_good.
      * exact Hi.
      * apply some_len. exact Hlen.
      * apply switch_msg_clean; [exact (proj2 Hn) | exact Hcr].
    + jg_open Hh. exact Logic.I.
    + eexists. split; [exact Hlen|]. rewrite !hlog_bytes_effect. autorewrite with wfields.
      cbn [hlog_line]. rewrite !app_nil_r. split; [apply am_get_set_same|]. split; [reflexivity|].
      right. auto.
Qed.

(* the part of the world the journal lines talk about *)
Definition jframe (w0 w : world) : Prop :=
  hlog_bytes w = hlog_bytes w0 /\ w_refs w = w_refs w0 /\ w_head w = w_head w0.

Lemma jframe_refl : forall w, jframe w w.
Proof. intro w. repeat split. Qed.

Definition commit_post (e : env) (c : ctx) (w : world) (msg : bytes) (w' : world) : Prop :=
  exists cid, length cid = 20 /\ am_get (w_refs w') (w_head w') = Some cid /\ w_head w' = w_head w /\
    hlog_bytes w' = hlog_bytes w ++
      log_rec e c (am_get (w_refs w) (w_head w)) (Some cid) RCommit (first_line msg).

Definition jg_frame (e : effect) : Prop :=
  match e with
  | EInit | EAppendHlog _ | ESetRef _ _ | EDelRef _ | ERenameRef _ _ | ESetHead _ => False
  | _ => True
  end.

Lemma jframe_static : forall w0 w e, jg_frame e -> jframe w0 w -> jframe w0 (apply_effect e w).
Proof.
  intros w0 w e He (Hb & Hr & Hh). unfold jframe. rewrite hlog_bytes_effect.
  destruct e; try contradiction He; autorewrite with wfields; cbn [hlog_line]; rewrite app_nil_r; auto.
Qed.

Lemma JGq_ok3 : forall (H : Prop) q w e (Q : Prop), (H -> JG e) -> (q = true -> is_hlog e = false) -> Q ->
  JGq H q w e /\ Tr (apply_effect e w) /\ Q.
Proof. intros H q w e Q H1 H2 H3. split; [split; assumption | split; [exact Logic.I | exact H3]]. Qed.

(* turn the obligations left by [hsteps] into [H -> JG e] goals and postconditions *)
Ltac jg_split :=
  lazymatch goal with
  | |- JGq _ _ _ _ /\ Tr _ /\ _ =>
      apply JGq_ok3; [ | let Hq := fresh "Hq" in intro Hq; first [reflexivity | discriminate Hq] | ]
  | |- JGq _ _ _ _ /\ Tr _ =>
      apply JGq_ok; [ | let Hq := fresh "Hq" in intro Hq; first [reflexivity | discriminate Hq] ]
  | |- _ => idtac
  end.

Lemma do_commit_spec : forall (H : Prop) e c msg w,
  ctx_of w = Some c ->
  (H -> NamesClean w /\ ident_clean c) ->
  hoare Tr (JGq H false) (eq w) (do_commit e c msg) (fun _ w' => commit_post e c w msg w').
Proof.
  intros H e c msg w Hctx Hhyp.
  pose proof (loaded_headc w c Hctx) as Hhead.
  unfold do_commit, put_obj. hsteps.
  apply at_bind_iterM with (J := jframe w).
  - intros _. apply jframe_refl.
  - intros d w1 _ _ Hfr. hsteps.
    + jg_open Hh. exact Logic.I.
    + apply jframe_static; [exact Logic.I | exact Hfr].
  - intros w1 _ Hfr. hsteps.
    all: try absurd_guard.
    all: destruct Hfr as (Hfb & Hfrf & Hfh).
    all: jg_split.
    all: lazymatch goal with
         | |- _ -> JG (EPutObj _ _) => intros _; exact Logic.I
         | |- _ -> JG (EAppendBlog _ _) => intros _; exact Logic.I
         | |- _ -> JG (ESetRef _ _) => intro Hh; exact (proj2 (proj1 (Hhyp Hh)))
         | |- _ -> JG (ESetHead _) => intro Hh; exact (proj2 (proj1 (Hhyp Hh)))
         | |- _ -> JG (EAppendHlog _) =>
             intro Hh; destruct (Hhyp Hh) as [Hn Hi]; eexists; apply log_rec_good;
             [exact Hi | apply some_len; unfold obj_id; apply sha1_length | apply first_line_no_nl]
         | |- _ => idtac
         end.
    + eexists. split; [apply sha1_length|]. rewrite !hlog_bytes_effect. autorewrite with wfields.
      cbn [hlog_line]. rewrite !app_nil_r, Hfb, Hfrf, (proj1 Hhead).
      split; [apply am_get_set_same|]. split; reflexivity.
    + assert (Hnone : am_get (w_refs w) (w_head w) = None) by (apply am_mem_false; assumption).
      eexists. split; [apply sha1_length|]. rewrite !hlog_bytes_effect. autorewrite with wfields.
      cbn [hlog_line]. rewrite !app_nil_r, Hfb, Hfrf, Hnone.
      split; [apply am_get_set_same|]. split; reflexivity.
Qed.

Lemma cmd_commit_spec : forall (H : Prop) e c msg w,
  ctx_of w = Some c ->
  (H -> NamesClean w /\ ident_clean c) ->
  hoare Tr (JGq H false) (eq w) (cmd_commit e c msg) (fun _ w' => commit_post e c w msg w').
Proof.
  intros H e c msg w Hctx Hhyp.
  assert (Hcall : forall (f : unit -> M (list bytes)),
            (forall u w', commit_post e c w msg w' -> hoare Tr (JGq H false) (eq w') (f u) (fun _ w'' => commit_post e c w msg w'')) ->
            hoare Tr (JGq H false) (eq w) (bind (do_commit e c msg) f) (fun _ w' => commit_post e c w msg w')).
  { intros f Hf. apply at_bind_call with (P := eq w) (R := fun _ w' => commit_post e c w msg w').
    - apply do_commit_spec; assumption.
    - intros _. reflexivity.
    - intros u w' _ Hp. apply Hf. exact Hp. }
  unfold cmd_commit, head_tree_nodes. hsteps.
  all: apply Hcall; intros u w' Hp; hsteps; exact Hp.
Qed.

Lemma reset_arg_no_nl : forall a n, reset_arg a = Some n -> ~ In c_nl a.
Proof.
  intros a n Ha. destruct (reset_arg_only a n Ha) as (ds & -> & _ & Hd & _).
  apply jf_lit_app_clean; [reflexivity|]. apply not_in_app.
  - intro Hin. rewrite forallb_forall in Hd. specialize (Hd _ Hin). discriminate Hd.
  - cbn. intuition discriminate.
Qed.

(* a procedure that only emits frame effects keeps the frame *)
Lemma wt_put_frame : forall (H : Prop) q w0 p data,
  hoare Tr (JGq H q) (jframe w0) (wt_put p data) (fun _ => jframe w0).
Proof.
  intros H q w0 p data. apply hoare_world. intros w _ Hfr.
  unfold wt_put. hsteps; jg_split.
  all: try (intros _; exact Logic.I).
  all: repeat (apply jframe_static; [exact Logic.I|]); exact Hfr.
Qed.

Definition reset_post (e : env) (c : ctx) (w : world) (args : list bytes) (w' : world) : Prop :=
  exists prev tid a, args = [a] /\ reset_target w a = Some tid /\
    am_get (w_refs w) (w_head w) = Some prev /\ length tid = 20 /\
    am_get (w_refs w') (w_head w') = Some tid /\ w_head w' = w_head w /\
    hlog_bytes w' = hlog_bytes w ++
      log_rec e c (Some prev) (Some tid) RReset (str "moving to "%string ++ a).

Lemma cmd_reset_spec : forall (H : Prop) e c soft mixed hard args w,
  ctx_of w = Some c ->
  (H -> NamesClean w /\ ident_clean c) ->
  hoare Tr (JGq H false) (eq w) (cmd_reset e c soft mixed hard args) (fun _ w' => reset_post e c w args w').
Proof.
  intros H e c soft mixed hard args w Hctx Hhyp.
  pose proof (loaded_headc w c Hctx) as Hhead.
  destruct args as [|a [|a' r]]; unfold cmd_reset; hsteps.
  all: destruct Hhead as [Hhd Hhc].
  all: match goal with Hc : get_commit _ ?t = Some _, Hr : r_id _ = Some ?t |- _ =>
         pose proof (get_commit_id_length _ _ _ Hc) as Hlen;
         assert (Htgt : reset_target w a = Some t) by (eapply reset_target_intro; eassumption);
         match type of Hhd with _ = Some ?prev =>
           assert (HQ : forall w',
             jframe (apply_effect (EAppendBlog (w_head w) (log_rec e c (Some prev) (Some t) RReset (str "moving to "%string ++ a)))
                      (apply_effect (EAppendHlog (log_rec e c (Some prev) (Some t) RReset (str "moving to "%string ++ a)))
                         (apply_effect (ESetRef (w_head w) t) w))) w' ->
             reset_post e c w [a] w')
         end
       end.
  all: try (intros w' (Hfb & Hfr & Hfh); eexists; eexists; exists a;
            split; [reflexivity|]; split; [exact Htgt|]; split; [exact Hhd|]; split; [exact Hlen|];
            rewrite Hfb, Hfr, Hfh, !hlog_bytes_effect; autorewrite with wfields; cbn [hlog_line];
            rewrite !app_nil_r; split; [apply am_get_set_same|]; split; reflexivity).
  all: jg_split.
  all: lazymatch goal with
       | |- _ -> JG (ESetRef _ _) => intro Hh; exact (proj2 (proj1 (Hhyp Hh)))
       | |- _ -> JG (EAppendBlog _ _) => intros _; exact Logic.I
       | |- _ -> JG (ESetIndex _) => intros _; exact Logic.I
       | |- _ -> JG (EAppendHlog _) =>
           intro Hh; destruct (Hhyp Hh) as [Hn Hi]; eexists; apply log_rec_good;
           [exact Hi | apply some_len; exact Hlen
            | apply jf_lit_app_clean; [reflexivity | eapply reset_arg_no_nl; eassumption]]
       | |- reset_post _ _ _ _ _ =>
           apply HQ; first [apply jframe_refl | apply jframe_static; [exact Logic.I | apply jframe_refl]]
       | |- hoare _ _ (eq _) (bind (iterM _ _) _) _ =>
           match type of HQ with forall w', jframe ?w0 w' -> _ =>
             apply at_bind_iterM with (J := jframe w0);
             [ intros _; apply jframe_static; [exact Logic.I | apply jframe_refl]
             | intros en w1 _ _ Hfr1; hsteps;
               apply at_call with (P := jframe w0) (R := fun _ => jframe w0);
               [apply wt_put_frame | intros _; exact Hfr1 | intros u w2 _ Hw2; exact Hw2]
             | intros w1 _ Hfr1; hsteps; apply HQ; exact Hfr1 ]
           end
       end.
Qed.

Lemma rename_msg_clean : forall prev new, ~ In c_nl prev -> ~ In c_nl new ->
  ~ In c_nl (str "renamed refs/heads/"%string ++ prev ++ str " to refs/heads/"%string ++ new).
Proof.
  intros prev new Hp Hn. apply jf_lit_app_clean; [reflexivity|].
  apply not_in_app; [exact Hp|]. apply jf_lit_app_clean; [reflexivity | exact Hn].
Qed.

Definition rename_lines (e : env) (c : ctx) (hid prev new : bytes) : bytes :=
  log_rec e c (Some hid) None RBranch (str "renamed refs/heads/"%string ++ prev ++ str " to refs/heads/"%string ++ new)
  ++ log_rec e c None (Some hid) RBranch (str "renamed refs/heads/"%string ++ prev ++ str " to refs/heads/"%string ++ new).

Definition branch_post (e : env) (c : ctx) (w : world) (rename : bytes) (w' : world) : Prop :=
  is_nil rename = false ->
  exists hid, am_get (w_refs w) (w_head w) = Some hid /\ length hid = 20 /\
    w_head w' = rename /\ am_get (w_refs w') (w_head w') = Some hid /\
    hlog_bytes w' = hlog_bytes w ++ rename_lines e c hid (w_head w) rename.

Lemma cmd_branch_spec : forall (H : Prop) e c args lst rename delete w,
  ctx_of w = Some c ->
  (H -> NamesClean w /\ ident_clean c /\ Forall (fun a => ~ In c_nl a) args /\ ~ In c_nl rename) ->
  hoare Tr (JGq H (is_nil rename)) (eq w) (cmd_branch e c args lst rename delete)
        (fun _ w' => branch_post e c w rename w').
Proof.
  intros H e c args lst rename delete w Hctx Hhyp.
  pose proof (loaded_headc w c Hctx) as Hhead.
  destruct (is_nil rename) eqn:Enil.
  - destruct rename as [|r0 rn]; [clear Enil | discriminate Enil].
    destruct args as [|a [|a' r]]; destruct lst; destruct delete as [|d0 dl];
      unfold cmd_branch; cbn [length Nat.eqb is_nil negb andb orb]; hsteps; try absurd_guard.
    all: jg_split.
    all: lazymatch goal with
         | |- branch_post _ _ _ [] _ => intro Hn; discriminate Hn
         | |- _ -> JG (ESetRef _ _) =>
             intro Hh; destruct (Hhyp Hh) as (_ & _ & Hargs & _); exact (Forall_inv Hargs)
         | |- _ -> JG _ => intros _; exact Logic.I
         end.
  - destruct args as [|a [|a' r]]; destruct lst; destruct delete as [|d0 dl];
      unfold cmd_branch; rewrite Enil; cbn [length Nat.eqb is_nil negb andb orb]; hsteps; try absurd_guard.
    all: jg_split.
    all: destruct Hhead as [Hhd Hhc]; pose proof (get_commit_id_length _ _ _ Hhc) as Hlen.
    all: lazymatch goal with
         | |- _ -> JG (ESetRef _ _) => intro Hh; exact (proj2 (proj2 (proj2 (Hhyp Hh))))
         | |- _ -> JG (ESetHead _) => intro Hh; exact (proj2 (proj2 (proj2 (Hhyp Hh))))
         | |- _ -> JG (EAppendHlog (log_rec _ _ _ None _ _)) =>
             intro Hh; destruct (Hhyp Hh) as (Hn & Hi & _ & Hrn); eexists; apply log_rec_good;
             [exact Hi | intros h0 Hh0; discriminate Hh0 | apply rename_msg_clean; [exact (proj2 Hn) | exact Hrn]]
         | |- _ -> JG (EAppendHlog (log_rec _ _ _ (Some _) _ _)) =>
             intro Hh; destruct (Hhyp Hh) as (Hn & Hi & _ & Hrn); eexists; apply log_rec_good;
             [exact Hi | apply some_len; exact Hlen | apply rename_msg_clean; [exact (proj2 Hn) | exact Hrn]]
         | |- _ -> JG _ => intros _; exact Logic.I
         | |- branch_post _ _ _ _ _ =>
             intros _; eexists; split; [exact Hhd|]; split; [exact Hlen|];
             rewrite !hlog_bytes_effect; autorewrite with wfields; cbn [hlog_line];
             rewrite !app_nil_r, <- app_assoc;
             split; [reflexivity|]; split; [ | reflexivity]
         end.
    all: match goal with
         | Hnew : negb (am_mem (w_refs _) _) = true, Hold : am_get (w_refs _) (w_head _) = Some _ |- _ =>
             rewrite am_get_del_other;
             [ apply am_get_set_same
             | intro Heq; rewrite Heq in Hnew; unfold am_mem in Hnew; rewrite Hold in Hnew; discriminate Hnew ]
         end.
Qed.

Lemma cmd_update_ref_spec : forall (H : Prop) args w,
  (H -> NamesClean w) ->
  hoare Tr (JGq H true) (eq w) (cmd_update_ref args) (fun _ _ => True).
Proof.
  intros H args w Hhyp.
  destruct args as [|r [|h [|x rest]]]; unfold cmd_update_ref, head_update; hsteps; jg_split;
    try exact Logic.I.
  all: intro Hh; cbn [JG]; apply (proj1 (Hhyp Hh));
       match goal with Hm : am_mem (w_refs _) _ = true |- _ => exact Hm end.
Qed.

(* ------------------------------------------------------------------ *)
(** ** All commands *)

Definition cmd_names_clean (c : cmd) : Prop :=
  match c with
  | CBranch args _ rename _ => Forall (fun a => ~ In c_nl a) args /\ ~ In c_nl rename
  | CSwitch _ create => ~ In c_nl create
  | _ => True
  end.

Definition action_names_clean (a : action) : Prop :=
  match a with ACmd _ c => cmd_names_clean c | AEdit _ => True end.

(* the commands that never write to logs/HEAD *)
Definition quiet_cmd (c : cmd) : bool :=
  match c with
  | CCommit _ | CSwitch _ _ | CReset _ _ _ _ => false
  | CBranch _ _ rename _ => is_nil rename
  | _ => true
  end.

(* what a successful command has appended *)
Definition cmd_post (e : env) (c : cmd) (w w' : world) : Prop :=
  match c with
  | CCommit msg => exists x, ctx_of w = Some x /\ commit_post e x w msg w'
  | CSwitch args create => exists x, ctx_of w = Some x /\ switch_post e x w args create w'
  | CReset _ _ _ args => exists x, ctx_of w = Some x /\ reset_post e x w args w'
  | CBranch _ _ rename _ => exists x, ctx_of w = Some x /\ branch_post e x w rename w'
  | _ => True
  end.

Lemma hoare_post_ex : forall (I : world -> Prop) G A (P : world -> Prop) (m : M A) (Q : A -> world -> Prop) (Q' : A -> world -> Prop),
  (forall a w, Q a w -> Q' a w) -> hoare I G P m Q -> hoare I G P m Q'.
Proof.
  intros I G A P m Q Q' Himp Hm.
  apply (hoare_conseq I G A P P m Q Q' Hm); auto.
Qed.

Theorem run_cmd_spec : forall (H : Prop) e c w,
  (H -> JInv w /\ cmd_names_clean c) ->
  hoare Tr (JGq H (quiet_cmd c)) (eq w) (run_cmd e c) (fun _ w' => cmd_post e c w w').
Proof.
  intros H e c w Hhyp.
  assert (Hstat : forall (m : M (list bytes)) q, emits Tr (JGq H q) m ->
            hoare Tr (JGq H q) (eq w) m (fun _ _ => True)).
  { intros m q Hm. apply hoare_at with (P := fun _ : world => True); [apply emits_hoare; exact Hm | exact Logic.I]. }
  unfold run_cmd. apply at_bind_getw.
  destruct c as [ | global cargs | aargs | rmargs | msg | | bargs blist rename delete | sargs create | soft mixed hard rargs | staged rsargs | uargs | ln | | ct cp cfargs | hoargs | lss | rpargs | ]; cbn [quiet_cmd cmd_post].
  1: { apply Hstat. apply cmd_init_je. }
  all: apply at_bind_guard; intros Hinit;
       apply at_bind with (R := fun x w' => w' = w /\ ctx_of w = Some x); [apply load_ctx_at|];
       intros x w' _ [-> Hx].
  all: assert (Hid : H -> NamesClean w /\ ident_clean x)
         by (intro Hh; destruct (Hhyp Hh) as [(_ & Hn & Hc) _]; split; [exact Hn | apply (ctx_ident_clean w x Hc Hx)]).
  - apply Hstat, cmd_config_je.
  - apply Hstat, cmd_add_je.
  - apply Hstat, cmd_rm_je.
  - apply hoare_post_ex with (Q := fun _ w' => commit_post e x w msg w');
      [intros _ w' Hp; exists x; auto | apply cmd_commit_spec; assumption].
  - apply Hstat, cmd_status_je.
  - apply hoare_post_ex with (Q := fun _ w' => branch_post e x w rename w');
      [intros _ w' Hp; exists x; auto | apply cmd_branch_spec; [exact Hx|]].
    intro Hh. destruct (Hid Hh) as [Hn Hi]. destruct (Hhyp Hh) as [_ [Ha Hr]]. auto.
  - apply hoare_post_ex with (Q := fun _ w' => switch_post e x w sargs create w');
      [intros _ w' Hp; exists x; auto | apply cmd_switch_spec; [exact Hx|]].
    intro Hh. destruct (Hid Hh) as [Hn Hi]. destruct (Hhyp Hh) as [_ Hc]. auto.
  - apply hoare_post_ex with (Q := fun _ w' => reset_post e x w rargs w');
      [intros _ w' Hp; exists x; auto | apply cmd_reset_spec; assumption].
  - apply Hstat, cmd_restore_je.
  - apply cmd_update_ref_spec. intro Hh. exact (proj1 (Hid Hh)).
  - apply Hstat, cmd_log_je.
  - apply Hstat, cmd_reflog_je.
  - apply Hstat, cmd_cat_file_je.
  - apply Hstat, cmd_hash_object_je.
  - apply Hstat, cmd_ls_files_je.
  - apply Hstat, cmd_rev_parse_je.
  - apply Hstat, cmd_write_tree_je.
Qed.

(* ================================================================== *)
(** * 6. Steps and histories *)

(* what the logic says about one run of a command, under ANY fault setting *)
Lemma run_cmd_sound : forall (H : Prop) e c w fk r s',
  (H -> JInv w /\ cmd_names_clean c) ->
  run_cmd e c (mkMS w [] fk) = (r, s') ->
  ms_w s' = apply_effects (ms_trace s') w /\
  Forall (fun x => (H -> JG x) /\ (quiet_cmd c = true -> is_hlog x = false)) (ms_trace s') /\
  (forall out, r = Ok out -> cmd_post e c w (ms_w s')).
Proof.
  intros H e c w fk r s' Hhyp Hrun.
  destruct (hoare_sound Tr (JGq H (quiet_cmd c)) _ _ _ _ w [] fk r s'
              (run_cmd_spec H e c w Hhyp) Logic.I eq_refl Hrun)
    as (tr & Ht & Hw & Hs & _ & _ & _ & Hq).
  cbn [app] in Ht. rewrite Ht. split; [exact Hw|]. split; [|exact Hq].
  apply (steps_ok_forall Tr (JGq H (quiet_cmd c)) _ (fun w0 x Hg => Hg) tr w Hs).
Qed.

Lemma step_cmd_run : forall e c w w' o tr,
  step (ACmd e c) w = (w', o, tr) ->
  exists r s', run_cmd e c (mkMS w [] None) = (r, s') /\ w' = ms_w s' /\ o = outcome_of r /\ tr = ms_trace s'.
Proof.
  intros e c w w' o tr Hs. rewrite step_cmd_eq in Hs.
  destruct (run_cmd e c (mkMS w [] None)) as [r s']. cbn [fst snd] in Hs.
  apply triple_inv in Hs. destruct Hs as (Hw & Ho & Ht).
  exists r, s'. split; [reflexivity|]. split; [symmetry; exact Hw|]. split; symmetry; assumption.
Qed.

Lemma Forall_JG_of : forall (H : Prop) (P : effect -> Prop) tr,
  H -> Forall (fun x => (H -> JG x) /\ P x) tr -> Forall JG tr.
Proof.
  intros H P tr Hh Hall. apply (Forall_impl _ (P := fun x => (H -> JG x) /\ P x)); [|exact Hall].
  intros x [Hx _]. apply Hx. exact Hh.
Qed.

(* 6.1 the invariant is kept *)
Theorem JInv_cmd : forall e c w fk r s',
  cmd_names_clean c -> JInv w -> run_cmd e c (mkMS w [] fk) = (r, s') -> JInv (ms_w s').
Proof.
  intros e c w fk r s' Hc Hi Hrun.
  destruct (run_cmd_sound True e c w fk r s' (fun _ => conj Hi Hc) Hrun) as (Hw & Hall & _).
  rewrite Hw. apply JInv_effects; [|exact Hi]. apply (Forall_JG_of True _ _ Logic.I Hall).
Qed.

Theorem JInv_step : forall a w, action_names_clean a -> JInv w -> JInv (step_w a w).
Proof.
  intros [e c|u] w Ha Hi.
  - unfold step_w. destruct (step (ACmd e c) w) as [[w' o] tr] eqn:Es. cbn [fst].
    destruct (step_cmd_run _ _ _ _ _ _ Es) as (r & s' & Hrun & -> & _ & _).
    apply (JInv_cmd e c w None r s' Ha Hi Hrun).
  - rewrite step_w_edit. apply JInv_edit. exact Hi.
Qed.

Theorem JInv_run : forall h w, Forall action_names_clean h -> JInv w -> JInv (run h w).
Proof.
  induction h as [|a h IH]; intros w Hh Hi.
  - exact Hi.
  - inversion Hh as [|a' h' Ha Hh']; subst. rewrite run_cons. apply IH; [exact Hh'|].
    apply JInv_step; assumption.
Qed.

(* in the words of the task: the journal stays readable through every step
   from a world whose configuration is clean ([Inv.CfgGood]) *)
Corollary JournalOk_step : forall a w,
  action_names_clean a -> JournalOk w -> NamesClean w -> CfgGood w -> JournalOk (step_w a w).
Proof.
  intros a w Ha Hj Hn Hc.
  exact (proj1 (JInv_step a w Ha (conj Hj (conj Hn (CfgGood_CfgVals w Hc))))).
Qed.

(* every history Goit itself produced, with newline-free branch-name
   arguments, leaves a journal that reads back *)
Corollary journal_reads_back : forall h, Forall action_names_clean h ->
  exists rs, parse_reflog (hlog_bytes (run h w_empty)) = Some rs.
Proof.
  intros h Hh. destruct (JInv_run h w_empty Hh JInv_empty) as [[Hrs _] _]. exact Hrs.
Qed.

(* a command stopped by a write failure also leaves a readable journal *)
Corollary JInv_fault : forall e c w k r s',
  cmd_names_clean c -> JInv w -> run_cmd e c (mkMS w [] (Some k)) = (r, s') -> JInv (ms_w s').
Proof. intros e c w k r s'. apply JInv_cmd. Qed.

(* [reflog] succeeds in such a world as soon as the file exists *)
Theorem reflog_total : forall w hl t fk, JournalOk w -> w_hlog w = Some hl ->
  exists out, cmd_reflog (mkMS w t fk) = (Ok out, mkMS w t fk).
Proof.
  intros w hl t fk [[rs Hrs] _] Hhl. unfold hlog_bytes in Hrs. rewrite Hhl in Hrs.
  unfold cmd_reflog. rewrite ev_bind_getw. cbn [ms_w]. rewrite Hhl, ev_bind_of_opt, Hrs, ev_bind_of_opt.
  eexists. reflexivity.
Qed.

(* 6.2 what is appended *)
Lemma w_hlog_quiet_effect : forall x w, is_hlog x = false -> w_hlog (apply_effect x w) = w_hlog w.
Proof. intros x w Hx. destruct x; try discriminate Hx; autorewrite with wfields; reflexivity. Qed.

Lemma w_hlog_quiet_effects : forall tr w, Forall (fun x => is_hlog x = false) tr ->
  w_hlog (apply_effects tr w) = w_hlog w.
Proof.
  induction tr as [|x tr IH]; intros w Hall; [reflexivity|].
  inversion Hall as [|x' tr' Hx Htr]; subst. rewrite apply_effects_cons, (IH _ Htr).
  apply w_hlog_quiet_effect. exact Hx.
Qed.

(* every command other than commit / switch / reset / branch --rename leaves
   logs/HEAD untouched, whatever its outcome *)
Theorem quiet_cmd_untouched : forall e c w w' o tr,
  quiet_cmd c = true -> step (ACmd e c) w = (w', o, tr) -> w_hlog w' = w_hlog w.
Proof.
  intros e c w w' o tr Hq Hs.
  destruct (step_cmd_run _ _ _ _ _ _ Hs) as (r & s' & Hrun & -> & _ & _).
  destruct (run_cmd_sound False e c w None r s' (fun f => match f with end) Hrun) as (Hw & Hall & _).
  rewrite Hw. apply w_hlog_quiet_effects.
  apply (Forall_impl _ (P := fun x => (False -> JG x) /\ (quiet_cmd c = true -> is_hlog x = false))); [|exact Hall].
  intros x [_ Hx]. apply Hx. exact Hq.
Qed.

Theorem edit_untouched : forall u w, w_hlog (step_w (AEdit u) w) = w_hlog w.
Proof. intros u w. rewrite step_w_edit. apply w_hlog_apply_edit. Qed.

(* a successful command has appended exactly the lines of [cmd_post] *)
Theorem appended_step : forall e c w w' out tr,
  step (ACmd e c) w = (w', OOk out, tr) -> cmd_post e c w w'.
Proof.
  intros e c w w' out tr Hs.
  destruct (step_cmd_run _ _ _ _ _ _ Hs) as (r & s' & Hrun & -> & Ho & _).
  destruct (run_cmd_sound False e c w None r s' (fun f => match f with end) Hrun) as (_ & _ & Hq).
  destruct r as [out'| |]; try discriminate Ho. apply (Hq out' eq_refl).
Qed.

(* the commit HEAD resolves to *)
Definition head_id (w : world) : option bytes := am_get (w_refs w) (w_head w).

(* in readable form, one theorem per journaling command *)
Theorem commit_appends : forall e msg w w' out tr,
  step (ACmd e (CCommit msg)) w = (w', OOk out, tr) ->
  exists x cid, ctx_of w = Some x /\ head_id w' = Some cid /\ length cid = 20 /\
    hlog_bytes w' = hlog_bytes w ++ log_rec e x (head_id w) (Some cid) RCommit (first_line msg).
Proof.
  intros e msg w w' out tr Hs. pose proof (appended_step _ _ _ _ _ _ Hs) as Hp. cbn [cmd_post] in Hp.
  destruct Hp as (x & Hx & cid & Hlen & Hhead & _ & Hb). exists x, cid. auto.
Qed.

Theorem switch_appends : forall e args create w w' out tr,
  step (ACmd e (CSwitch args create)) w = (w', OOk out, tr) ->
  exists x id, ctx_of w = Some x /\ head_id w' = Some id /\ length id = 20 /\
    hlog_bytes w' = hlog_bytes w ++
      log_rec e x (Some id) (Some id) RCheckout
        (str "moving from "%string ++ w_head w ++ str " to "%string ++ w_head w') /\
    ((args = [w_head w'] /\ create = [] /\ am_get (w_refs w) (w_head w') = Some id) \/
     (args = [] /\ create = w_head w' /\ is_nil create = false /\ head_id w = Some id)).
Proof.
  intros e args create w w' out tr Hs. pose proof (appended_step _ _ _ _ _ _ Hs) as Hp. cbn [cmd_post] in Hp.
  destruct Hp as (x & Hx & id & Hlen & Hhead & Hb & Hsh). exists x, id. auto.
Qed.

Theorem reset_appends : forall e soft mixed hard args w w' out tr,
  step (ACmd e (CReset soft mixed hard args)) w = (w', OOk out, tr) ->
  exists x prev tid a, ctx_of w = Some x /\ args = [a] /\ reset_target w a = Some tid /\
    head_id w = Some prev /\ head_id w' = Some tid /\ length tid = 20 /\
    hlog_bytes w' = hlog_bytes w ++
      log_rec e x (Some prev) (Some tid) RReset (str "moving to "%string ++ a).
Proof.
  intros e soft mixed hard args w w' out tr Hs.
  pose proof (appended_step _ _ _ _ _ _ Hs) as Hp. cbn [cmd_post] in Hp.
  destruct Hp as (x & Hx & prev & tid & a & Ha & Ht & Hprev & Hlen & Hhead & _ & Hb).
  exists x, prev, tid, a. repeat split; assumption.
Qed.

Theorem rename_appends : forall e args lst rename delete w w' out tr,
  is_nil rename = false ->
  step (ACmd e (CBranch args lst rename delete)) w = (w', OOk out, tr) ->
  exists x hid, ctx_of w = Some x /\ head_id w = Some hid /\ head_id w' = Some hid /\ length hid = 20 /\
    w_head w' = rename /\
    hlog_bytes w' = hlog_bytes w ++
      log_rec e x (Some hid) None RBranch
        (str "renamed refs/heads/"%string ++ w_head w ++ str " to refs/heads/"%string ++ rename) ++
      log_rec e x None (Some hid) RBranch
        (str "renamed refs/heads/"%string ++ w_head w ++ str " to refs/heads/"%string ++ rename).
Proof.
  intros e args lst rename delete w w' out tr Hn Hs.
  pose proof (appended_step _ _ _ _ _ _ Hs) as Hp. cbn [cmd_post] in Hp.
  destruct Hp as (x & Hx & Hp). destruct (Hp Hn) as (hid & Hprev & Hlen & Hh & Hhead & Hb).
  exists x, hid. repeat split; assumption.
Qed.

(* ================================================================== *)
(** * 7. The parsed journal is extended *)

Definition rename_msg' (prev new : bytes) : bytes :=
  str "renamed refs/heads/"%string ++ prev ++ str " to refs/heads/"%string ++ new.

(* the records a successful command adds *)
Definition journal_delta (c : cmd) (w w' : world) : list lrec :=
  match c with
  | CCommit msg => [rec_of (head_id w') RCommit (first_line msg)]
  | CSwitch _ _ =>
      [rec_of (head_id w') RCheckout (str "moving from "%string ++ w_head w ++ str " to "%string ++ w_head w')]
  | CReset _ _ _ args => [rec_of (head_id w') RReset (str "moving to "%string ++ hd [] args)]
  | CBranch _ _ rename _ =>
      if is_nil rename then []
      else [rec_of None RBranch (rename_msg' (w_head w) rename);
            rec_of (head_id w') RBranch (rename_msg' (w_head w) rename)]
  | _ => []
  end.

Definition journal_kind (c : cmd) : option rtype :=
  match c with
  | CCommit _ => Some RCommit
  | CSwitch _ _ => Some RCheckout
  | CReset _ _ _ _ => Some RReset
  | CBranch _ _ rename _ => if is_nil rename then None else Some RBranch
  | _ => None
  end.

Lemma journal_kind_quiet : forall c, journal_kind c = None <-> quiet_cmd c = true.
Proof.
  intro c. destruct c as [ | global cargs | aargs | rmargs | msg | | bargs blist rename delete | sargs create | soft mixed hard rargs | staged rsargs | uargs | ln | | ct cp cfargs | hoargs | lss | rpargs | ]; cbn [journal_kind quiet_cmd]; try (split; [reflexivity | reflexivity]);
    try (split; intro Hd; discriminate Hd).
  destruct (is_nil rename); split; intro Hd; try reflexivity; discriminate Hd.
Qed.

Theorem reflog_extends : forall e c w w' out tr,
  JInv w -> cmd_names_clean c -> step (ACmd e c) w = (w', OOk out, tr) ->
  exists rs, parse_reflog (hlog_bytes w) = Some rs /\
             parse_reflog (hlog_bytes w') = Some (rs ++ journal_delta c w w').
Proof.
  intros e c w w' out tr Hi Hc Hs.
  destruct Hi as ([[rs Hrs] Hend] & Hn & Hcfg). exists rs. split; [exact Hrs|].
  assert (Hquiet : quiet_cmd c = true -> journal_delta c w w' = [] ->
                   parse_reflog (hlog_bytes w') = Some (rs ++ journal_delta c w w')).
  { intros Hq Hd. rewrite Hd, app_nil_r. unfold hlog_bytes.
    rewrite (quiet_cmd_untouched _ _ _ _ _ _ Hq Hs). exact Hrs. }
  pose proof (appended_step _ _ _ _ _ _ Hs) as Hp.
  destruct c as [ | global cargs | aargs | rmargs | msg | | bargs blist rename delete | sargs create | soft mixed hard rargs | staged rsargs | uargs | ln | | ct cp cfargs | hoargs | lss | rpargs | ]; cbn [cmd_post] in Hp; try (apply Hquiet; reflexivity).
  - (* commit *)
    destruct Hp as (x & Hx & cid & Hlen & Hhead & _ & Hb).
    pose proof (ctx_ident_clean w x Hcfg Hx) as Hid.
    cbn [journal_delta]. unfold head_id. rewrite Hhead, Hb.
    apply (journal_append _ rs _ _ Hrs Hend). apply log_rec_good;
      [exact Hid | apply some_len; exact Hlen | apply first_line_no_nl].
  - (* branch *)
    destruct Hp as (x & Hx & Hp). destruct (is_nil rename) eqn:Enil.
    + apply Hquiet; [exact Enil | cbn [journal_delta]; rewrite Enil; reflexivity].
    + cbn [journal_delta]. rewrite Enil. destruct (Hp Enil) as (hid & Hprev & Hlen & Hh & Hhead & Hb).
      pose proof (ctx_ident_clean w x Hcfg Hx) as Hid.
      assert (Hmsg : ~ In c_nl (rename_msg' (w_head w) rename))
        by (apply rename_msg_clean; [exact (proj2 Hn) | exact (proj2 Hc)]).
      unfold head_id. rewrite Hhead, Hb. unfold rename_lines.
      apply (journal_append2 _ rs _ _ _ _ Hrs Hend); apply log_rec_good;
        try exact Hid; try exact Hmsg;
        [intros h0 Hh0; discriminate Hh0 | apply some_len; exact Hlen].
  - (* switch *)
    destruct Hp as (x & Hx & id & Hlen & Hhead & Hb & Hsh).
    pose proof (ctx_ident_clean w x Hcfg Hx) as Hid.
    cbn [journal_delta]. unfold head_id. rewrite Hhead, Hb.
    apply (journal_append _ rs _ _ Hrs Hend). apply log_rec_good;
      [exact Hid | apply some_len; exact Hlen |].
    apply switch_msg_clean; [exact (proj2 Hn)|].
    destruct Hsh as [(_ & _ & Hg) | (_ & Hcr & _ & _)].
    * apply (NamesClean_get w _ _ Hn Hg).
    * cbn [cmd_names_clean] in Hc. rewrite <- Hcr. exact Hc.
  - (* reset *)
    destruct Hp as (x & Hx & prev & tid & a & -> & Ht & Hprev & Hlen & Hhead & _ & Hb).
    pose proof (ctx_ident_clean w x Hcfg Hx) as Hid.
    cbn [journal_delta hd]. unfold head_id. rewrite Hhead, Hb.
    apply (journal_append _ rs _ _ Hrs Hend). apply log_rec_good;
      [exact Hid | apply some_len; exact Hlen |].
    apply jf_lit_app_clean; [reflexivity|].
    destruct (reset_target_elim w a tid Ht) as (n & _ & _ & _ & Ha & _).
    apply (reset_arg_no_nl a n Ha).
Qed.

(* earlier entries keep content and order; their positions shift by the
   number of records added *)
Corollary reflog_extends_positions : forall e c w w' out tr,
  JInv w -> cmd_names_clean c -> step (ACmd e c) w = (w', OOk out, tr) ->
  exists rs rs', parse_reflog (hlog_bytes w) = Some rs /\
    parse_reflog (hlog_bytes w') = Some (rs ++ rs') /\
    (forall i, (i < length rs)%nat -> nth_error (rs ++ rs') i = nth_error rs i) /\
    (forall n, get_record (rs ++ rs') (length rs' + n) = get_record rs n) /\
    length rs' = match journal_kind c with
                 | None => 0%nat
                 | Some RBranch => 2%nat
                 | Some _ => 1%nat
                 end.
Proof.
  intros e c w w' out tr Hi Hc Hs.
  destruct (reflog_extends e c w w' out tr Hi Hc Hs) as (rs & Hrs & Hrs').
  exists rs, (journal_delta c w w'). split; [exact Hrs|]. split; [exact Hrs'|].
  split; [intros i Hlt; apply nth_error_app1; exact Hlt|].
  split; [intro n; apply get_record_app_many|].
  destruct c as [ | global cargs | aargs | rmargs | msg | | bargs blist rename delete | sargs create | soft mixed hard rargs | staged rsargs | uargs | ln | | ct cp cfargs | hoargs | lss | rpargs | ]; cbn [journal_delta journal_kind]; try reflexivity.
  destruct (is_nil rename); reflexivity.
Qed.

(* the newest entry: the commit HEAD now resolves to, with the action's kind;
   [reflog] prints it at position 0 and [reset HEAD@{0}] resolves to it *)
Theorem reflog_head_entry : forall e c w w' out tr ty,
  JInv w -> cmd_names_clean c -> step (ACmd e c) w = (w', OOk out, tr) ->
  journal_kind c = Some ty ->
  exists rs' r, parse_reflog (hlog_bytes w') = Some rs' /\
    get_record rs' 0 = Some r /\
    r_type r = ty /\ r_id r = id_back (head_id w') /\
    nth_error (show_reflog rs') 0 = Some (short_id (r_id r), 0%nat, ty, r_msg r).
Proof.
  intros e c w w' out tr ty Hi Hc Hs Hk.
  destruct (reflog_extends e c w w' out tr Hi Hc Hs) as (rs & _ & Hrs').
  assert (Hlast : exists pre msg, journal_delta c w w' = pre ++ [rec_of (head_id w') ty msg]).
  { destruct c as [ | global cargs | aargs | rmargs | msg | | bargs blist rename delete | sargs create | soft mixed hard rargs | staged rsargs | uargs | ln | | ct cp cfargs | hoargs | lss | rpargs | ]; cbn [journal_kind] in Hk; try discriminate Hk; cbn [journal_delta].
    - injection Hk as <-. exists [], (first_line msg). reflexivity.
    - destruct (is_nil rename); [discriminate Hk|]. injection Hk as <-.
      exists [rec_of None RBranch (rename_msg' (w_head w) rename)], (rename_msg' (w_head w) rename). reflexivity.
    - injection Hk as <-. eexists [], _. reflexivity.
    - injection Hk as <-. eexists [], _. reflexivity. }
  destruct Hlast as (pre & msg & Hd). rewrite Hd, app_assoc in Hrs'.
  exists ((rs ++ pre) ++ [rec_of (head_id w') ty msg]), (rec_of (head_id w') ty msg).
  split; [exact Hrs'|].
  pose proof (proj1 (get_record_app (rs ++ pre) (rec_of (head_id w') ty msg) 0)) as Hg.
  split; [exact Hg|]. split; [reflexivity|]. split; [reflexivity|].
  apply (show_reflog_get_record _ _ _ Hg).
Qed.

(* the id reads back unchanged unless it is the all-zero id *)
Lemma id_back_head : forall w, head_id w <> Some (repeat x00 20) -> id_back (head_id w) = head_id w.
Proof. intros w Hz. apply id_back_id. exact Hz. Qed.

(* the message reads back unchanged unless it ends in '\r' *)
Lemma rec_of_msg : forall to ty msg, (msg = [] \/ last msg x00 <> c_cr) -> r_msg (rec_of to ty msg) = msg.
Proof. intros to ty msg Hm. cbn [rec_of r_msg]. apply drop_cr_id. exact Hm. Qed.

(* whatever the outcome (refused half-way, stopped by a write failure): the
   parsed journal only grows at its end *)
Lemma journal_effects_extend : forall tr w rs,
  Forall JG tr -> parse_reflog (hlog_bytes w) = Some rs ->
  (hlog_bytes w = [] \/ last (hlog_bytes w) x00 = c_nl) ->
  exists rs', parse_reflog (hlog_bytes (apply_effects tr w)) = Some (rs ++ rs').
Proof.
  induction tr as [|x tr IH]; intros w rs Hall Hrs Hend.
  - exists []. rewrite app_nil_r. exact Hrs.
  - inversion Hall as [|x' tr' Hx Htr]; subst. rewrite apply_effects_cons.
    destruct (is_hlog x) eqn:Ex.
    + destruct x as [ | pid ppl | name rid | name | old new | hname | ies | line | bname bline | dbname | lst | gst | fpath fdata | rpath | mpath ]; try discriminate Ex. cbn [JG] in Hx. destruct Hx as [r Hr].
      destruct (journal_append _ rs line r Hrs Hend Hr) as [Hp He].
      destruct (IH (apply_effect (EAppendHlog line) w) (rs ++ [r]) Htr) as [rs' Hrs'].
      * rewrite hlog_bytes_effect. exact Hp.
      * rewrite hlog_bytes_effect. right. exact He.
      * exists (r :: rs'). rewrite Hrs', <- app_assoc. reflexivity.
    + assert (Hb : hlog_bytes (apply_effect x w) = hlog_bytes w).
      { rewrite hlog_bytes_effect. destruct x; try discriminate Ex; apply app_nil_r. }
      apply IH; [exact Htr | rewrite Hb; exact Hrs | rewrite Hb; exact Hend].
Qed.

Theorem journal_extends_cmd : forall e c w fk r s',
  cmd_names_clean c -> JInv w -> run_cmd e c (mkMS w [] fk) = (r, s') ->
  exists rs rs', parse_reflog (hlog_bytes w) = Some rs /\
                 parse_reflog (hlog_bytes (ms_w s')) = Some (rs ++ rs').
Proof.
  intros e c w fk r s' Hc Hi Hrun.
  destruct (run_cmd_sound True e c w fk r s' (fun _ => conj Hi Hc) Hrun) as (Hw & Hall & _).
  destruct Hi as ([[rs Hrs] Hend] & _).
  destruct (journal_effects_extend (ms_trace s') w rs (Forall_JG_of True _ _ Logic.I Hall) Hrs Hend) as [rs' Hrs'].
  exists rs, rs'. rewrite Hw. auto.
Qed.

Theorem journal_extends_step : forall a w, action_names_clean a -> JInv w ->
  exists rs rs', parse_reflog (hlog_bytes w) = Some rs /\
                 parse_reflog (hlog_bytes (step_w a w)) = Some (rs ++ rs').
Proof.
  intros [e c|u] w Ha Hi.
  - unfold step_w. destruct (step (ACmd e c) w) as [[w' o] tr] eqn:Es. cbn [fst].
    destruct (step_cmd_run _ _ _ _ _ _ Es) as (r & s' & Hrun & -> & _ & _).
    apply (journal_extends_cmd e c w None r s' Ha Hi Hrun).
  - destruct Hi as ([[rs Hrs] _] & _). exists rs, []. rewrite step_w_edit, app_nil_r.
    unfold hlog_bytes. rewrite w_hlog_apply_edit. auto.
Qed.

Theorem journal_extends_run : forall h w, Forall action_names_clean h -> JInv w ->
  exists rs rs', parse_reflog (hlog_bytes w) = Some rs /\
                 parse_reflog (hlog_bytes (run h w)) = Some (rs ++ rs').
Proof.
  induction h as [|a h IH]; intros w Hh Hi.
  - destruct Hi as ([[rs Hrs] _] & _). exists rs, []. rewrite app_nil_r. auto.
  - inversion Hh as [|a' h' Ha Hh']; subst. rewrite run_cons.
    destruct (journal_extends_step a w Ha Hi) as (rs & rs1 & Hrs & Hrs1).
    destruct (IH _ Hh' (JInv_step a w Ha Hi)) as (rs1' & rs2 & Hrs1' & Hrs2).
    rewrite Hrs1 in Hrs1'. injection Hrs1' as <-.
    exists rs, (rs1 ++ rs2). rewrite Hrs2, app_assoc. auto.
Qed.

(* ================================================================== *)
(** * 8. A worked history (by computation) *)

Definition jx_env : env := mkEnv 1700000000 32400.
Definition jx_cmd (c : cmd) : action := ACmd jx_env c.

(* "fix: a: b\tc" and a second line of four words *)
Definition jx_msg1 : bytes := str "fix: a: b"%string ++ [c_tab] ++ str "c"%string ++ [c_nl] ++ str "more words here now"%string.
(* a first line that ends in '\r' *)
Definition jx_msg2 : bytes := str "second"%string ++ [c_cr; c_nl] ++ str "body"%string.

Definition jx_base : list action :=
  [jx_cmd CInit;
   jx_cmd (CConfig false [str "user.name"%string; str "Al Bo"%string]);
   jx_cmd (CConfig false [str "user.email"%string; str "a@b.co"%string]);
   AEdit (UWrite (str "f"%string) (str "x"%string));
   jx_cmd (CAdd [str "f"%string]);
   jx_cmd (CCommit jx_msg1)].

Definition jx_more : list action :=
  [jx_cmd (CSwitch [] (str "dev"%string));
   AEdit (UWrite (str "g"%string) (str "y"%string));
   jx_cmd (CAdd [str "g"%string]);
   jx_cmd (CCommit jx_msg2)].

Definition jx_w1 : world := Eval vm_compute in run jx_base w_empty.
Definition jx_w2 : world := Eval vm_compute in run jx_more jx_w1.
Definition jx_reset : world * outcome * list effect :=
  Eval vm_compute in step (jx_cmd (CReset true false false [str "HEAD@{1}"%string])) jx_w2.
Definition jx_w3 : world := fst (fst jx_reset).

Example jx_names_clean : Forall action_names_clean (jx_base ++ jx_more).
Proof. repeat constructor; cbn; intuition discriminate. Qed.

Example jx_reset_ok : snd (fst jx_reset) = OOk [].
Proof. vm_compute. reflexivity. Qed.

(* the journal of the final world: four records, oldest first; HEAD@{1} was
   the checkout record, which names the first commit *)
Example jx_journal :
  parse_reflog (hlog_bytes jx_w3) =
  Some [mkRec (head_id jx_w1) RCommit (str "fix: a: b"%string ++ [c_tab] ++ str "c"%string);
        mkRec (head_id jx_w1) RCheckout (str "moving from main to dev"%string);
        mkRec (head_id jx_w2) RCommit (str "second"%string);
        mkRec (head_id jx_w1) RReset (str "moving to HEAD@{1}"%string)]
  /\ head_id jx_w3 = head_id jx_w1
  /\ w_head jx_w3 = str "dev"%string
  /\ head_id jx_w1 <> head_id jx_w2 /\ head_id jx_w1 <> None /\ head_id jx_w2 <> None.
Proof. vm_compute. repeat split; try reflexivity; discriminate. Qed.

(* what [reflog] prints in that world: newest first, numbered from 0 *)
Example jx_reflog_output :
  snd (fst (step (jx_cmd CReflog) jx_w3)) =
  OOk [short_id (head_id jx_w1) ++ str " 0 reset moving to HEAD@{1}"%string;
       short_id (head_id jx_w2) ++ str " 1 commit second"%string;
       short_id (head_id jx_w1) ++ str " 2 checkout moving from main to dev"%string;
       short_id (head_id jx_w1) ++ str " 3 commit fix: a: b"%string ++ [c_tab] ++ str "c"%string].
Proof. vm_compute. reflexivity. Qed.

Example jx_w2_eq : jx_w2 = run (jx_base ++ jx_more) w_empty.
Proof. vm_compute. reflexivity. Qed.

Example jx_inv : JInv jx_w2.
Proof. rewrite jx_w2_eq. apply JInv_run; [exact jx_names_clean | apply JInv_empty]. Qed.

(* the general theorems applied to the last step of that history *)
Example jx_reset_extends :
  exists rs, parse_reflog (hlog_bytes jx_w2) = Some rs /\
             parse_reflog (hlog_bytes jx_w3) =
             Some (rs ++ [rec_of (head_id jx_w3) RReset (str "moving to HEAD@{1}"%string)]).
Proof.
  assert (Hs : step (jx_cmd (CReset true false false [str "HEAD@{1}"%string])) jx_w2 = (jx_w3, OOk [], snd jx_reset))
    by (vm_compute; reflexivity).
  exact (reflog_extends jx_env (CReset true false false [str "HEAD@{1}"%string]) _ _ _ _ jx_inv Logic.I Hs).
Qed.

(* ================================================================== *)
(** * 9. The three corrections, exhibited *)

(* 9.1 a branch name with a newline WOULD break the journal: the checkout
   line would span two lines and the second one, "x y z", would be read as a
   record whose id field "y" is not a hash, so that [reflog] and [reset] fail
   from then on.  This was a defect of the program (found by the proof of
   [JInv_step], which needs the hypothesis on name arguments; confirmed on the
   binary; repaired: refs.go now refuses control characters, and so does
   [valid_branch_name]).  After the repair such a name is refused and nothing
   is written. *)
Definition jx_bad_name : bytes := str "a"%string ++ [c_nl] ++ str "x y z"%string.

Example jx_bad_name_refused : valid_branch_name jx_bad_name = false.
Proof. vm_compute. reflexivity. Qed.

Example jx_bad_switch_refused :
  step (jx_cmd (CSwitch [] jx_bad_name)) jx_w1 = (jx_w1, OErr, []).
Proof. vm_compute. reflexivity. Qed.

(* what the forged line would do to the reader, shown on the bytes directly *)
Example jx_forged_line_breaks_reader :
  parse_reflog (hlog_bytes jx_w1 ++ str "x y z"%string ++ [c_nl]) = None.
Proof. vm_compute. reflexivity. Qed.

(* 9.2 [Inv.CfgGood] asks for tab-free SECTION names, which [config] does
   not guarantee: the section of "a\tb.k" is written as "[a\tb]" and loaded
   back with its tab *)
Definition jx_tab_key : bytes := str "a"%string ++ [c_tab] ++ str "b.k"%string.

Example ex_section_tab :
  cfg_load (cfg_render [(str "a"%string ++ [c_tab] ++ str "b"%string, [(str "k"%string, str "v"%string)])])
  = Some [(str "a"%string ++ [c_tab] ++ str "b"%string, [(str "k"%string, str "v"%string)])].
Proof. vm_compute. reflexivity. Qed.

Example jx_cfggood_not_kept :
  CfgGood (run [jx_cmd CInit] w_empty) /\
  ~ CfgGood (run [jx_cmd CInit; jx_cmd (CConfig false [jx_tab_key; str "v"%string])] w_empty).
Proof.
  split.
  - split; intros c Hc; vm_compute in Hc; injection Hc as <-; constructor.
  - intros [Hl _].
    specialize (Hl [(str "a"%string ++ [c_tab] ++ str "b"%string, [(str "k"%string, str "v"%string)])]).
    assert (Hc : cfg_of (w_lcfg (run [jx_cmd CInit; jx_cmd (CConfig false [jx_tab_key; str "v"%string])] w_empty))
                 = Some [(str "a"%string ++ [c_tab] ++ str "b"%string, [(str "k"%string, str "v"%string)])])
      by (vm_compute; reflexivity).
    specialize (Hl Hc). inversion Hl as [|sm c' [[_ Htab] _] _]; subst.
    apply Htab. cbn. auto.
Qed.

(* 9.3 the record reads back with [drop_cr] of the message and [id_back] of
   the id: see the third record of [jx_journal] (the first line of the
   message was "second\r") and [ReflogFacts.ex_zero_id_reads_none] *)
Example jx_cr_dropped : first_line jx_msg2 = str "second"%string ++ [c_cr]
  /\ r_msg (rec_of None RCommit (first_line jx_msg2)) = str "second"%string.
Proof. vm_compute. split; reflexivity. Qed.

(* ================================================================== *)
Print Assumptions hlog_append_only_step.
Print Assumptions hlog_append_only_run.
Print Assumptions hlog_kept_run.
Print Assumptions journal_append.
Print Assumptions cfg_load_vals_clean.
Print Assumptions run_cmd_spec.
Print Assumptions JInv_step.
Print Assumptions JournalOk_step.
Print Assumptions JInv_run.
Print Assumptions JInv_fault.
Print Assumptions journal_reads_back.
Print Assumptions reflog_total.
Print Assumptions quiet_cmd_untouched.
Print Assumptions appended_step.
Print Assumptions commit_appends.
Print Assumptions switch_appends.
Print Assumptions reset_appends.
Print Assumptions rename_appends.
Print Assumptions reflog_extends.
Print Assumptions reflog_extends_positions.
Print Assumptions reflog_head_entry.
Print Assumptions journal_extends_step.
Print Assumptions journal_extends_run.
Print Assumptions jx_journal.
Print Assumptions jx_reflog_output.
Print Assumptions jx_reset_extends.
Print Assumptions jx_cfggood_not_kept.
