(* LogFacts.v — property C14: `log` lists the history reachable from HEAD,
   newest first, each commit once, bounded by -n.

   Program: Repo.walk_history (the loop of cmd/log.go) and Repo.cmd_log.

   Main results
     walk_history_chain     on a single-parent chain l (tip first) the walk returns
                            firstn (Z.to_nat k) l for EVERY integer k, given fuel > length l
     chain_length_le_store  pigeonhole: a duplicate-free chain is no longer than the store
     cmd_log_fuel           the fuel S (S (2 * length st)) chosen by cmd_log is enough
     cmd_log_chain          the whole command: Ok (map hex (firstn (Z.to_nat n) l)), no effect
     walk_history_indep / cmd_log_reads / cmd_log_indep
                            the output depends on the object store, the tip and n only
     walk_history_commits   every listed id loads as a commit
     walk_history_bounded   at most max(0, k - count) ids, for ANY history (merges, cycles)
     walk_history_nodup     no id is listed twice, for ANY history
     ex_*                   a three-commit store with real SHA-1 ids; k = 0, 1, 2, 3, 5 *)
From Coq Require Import Strings.String Strings.Byte.
From Coq Require Import List Bool NArith ZArith Arith.
From Coq Require Import Lia ZifyBool ZifyNat ZifyN.
From Goit Require Import Bytes Sha1 Obj Tree Index Regex GoRegex Commit Reflog Config Ignore World Repo.
From Goit Require Import BytesFacts ObjFacts CommitFacts.
Import ListNotations.

(* ------------------------------------------------------------------ *)
(** * 0. Small facts: sets of ids, keys of the store *)

Lemma set_mem_In : forall (s : list bytes) (k : bytes), set_mem s k = true <-> In k s.
Proof.
  intros s k. unfold set_mem. rewrite existsb_exists. split.
  - intros [x [Hin Heq]]. apply bytes_eqb_eq in Heq. subst x. exact Hin.
  - intro Hin. exists k. split; [exact Hin | apply bytes_eqb_refl].
Qed.

Lemma set_mem_notin : forall (s : list bytes) (k : bytes), ~ In k s -> set_mem s k = false.
Proof.
  intros s k Hnot. destruct (set_mem s k) eqn:Hmem; [|reflexivity].
  apply set_mem_In in Hmem. contradiction.
Qed.

Lemma st_lookup_key : forall (st : store) id, st_lookup st id <> None -> In id (map fst st).
Proof.
  induction st as [|[k v] r IH]; intros id Hl.
  - exfalso. apply Hl. reflexivity.
  - cbn [st_lookup] in Hl. cbn [map fst].
    destruct (bytes_eqb k id) eqn:Hk.
    + left. apply bytes_eqb_eq. exact Hk.
    + right. apply IH. exact Hl.
Qed.

(* pigeonhole: distinct ids all bound in an association list *)
Lemma nodup_keys_length : forall (st : store) (l : list bytes),
  NoDup l -> (forall id, In id l -> st_lookup st id <> None) -> (length l <= length st)%nat.
Proof.
  intros st l Hnd Hbound.
  rewrite <- (map_length fst st).
  apply NoDup_incl_length; [exact Hnd|].
  intros id Hin. apply st_lookup_key. apply Hbound. exact Hin.
Qed.

Lemma get_commit_lookup : forall st id c, get_commit st id = Some c -> st_lookup st id <> None.
Proof.
  intros st id c Hget Hnone.
  unfold get_commit, get_kind, get_obj in Hget. rewrite Hnone in Hget. discriminate Hget.
Qed.

(* ------------------------------------------------------------------ *)
(** * 1. The parent chain of a single-parent history *)

Inductive chain (st : store) : bytes -> list bytes -> Prop :=
| chain_root : forall id c,
    get_commit st id = Some c -> c_parents c = [] -> chain st id [id]
| chain_step : forall id c p l,
    get_commit st id = Some c -> c_parents c = [p] -> chain st p l -> chain st id (id :: l).

Lemma chain_head : forall st tip l, chain st tip l -> exists l', l = tip :: l'.
Proof.
  intros st tip l Hch. destruct Hch as [id c Hget Hpar | id c p l0 Hget Hpar Hch].
  - exists []. reflexivity.
  - exists l0. reflexivity.
Qed.

Lemma chain_commits : forall st tip l, chain st tip l ->
  Forall (fun id => exists c, get_commit st id = Some c) l.
Proof.
  intros st tip l Hch.
  induction Hch as [id c Hget Hpar | id c p l0 Hget Hpar Hch IH].
  - constructor; [exists c; exact Hget | constructor].
  - constructor; [exists c; exact Hget | exact IH].
Qed.

(* the chain is a function of the store and the tip *)
Lemma chain_functional : forall st tip l1, chain st tip l1 -> forall l2, chain st tip l2 -> l1 = l2.
Proof.
  intros st tip l1 Hch1.
  induction Hch1 as [id c Hget Hpar | id c p l0 Hget Hpar Hch IH]; intros l2 Hch2.
  - destruct Hch2 as [id c2 Hget2 Hpar2 | id c2 p2 l3 Hget2 Hpar2 Hch2].
    + reflexivity.
    + rewrite Hget in Hget2. injection Hget2 as Hc. subst c2.
      rewrite Hpar in Hpar2. discriminate Hpar2.
  - destruct Hch2 as [id c2 Hget2 Hpar2 | id c2 p2 l3 Hget2 Hpar2 Hch2].
    + rewrite Hget in Hget2. injection Hget2 as Hc. subst c2.
      rewrite Hpar in Hpar2. discriminate Hpar2.
    + rewrite Hget in Hget2. injection Hget2 as Hc. subst c2.
      rewrite Hpar in Hpar2. injection Hpar2 as Hp. subst p2.
      f_equal. apply IH. exact Hch2.
Qed.

(* ------------------------------------------------------------------ *)
(** * 2. The walk on a chain *)

(* Loop invariant: the queue holds exactly the next commit of the chain,
   [vis] holds ids that do not occur in the rest of the chain, [cnt] iterations
   have been spent.  Neither [0 <= cnt] nor [0 <= k] is needed. *)
Lemma walk_history_chain_gen : forall st k cur l,
  chain st cur l ->
  forall fuel vis cnt,
  NoDup l -> (forall x, In x l -> ~ In x vis) -> (length l < fuel)%nat ->
  walk_history fuel st [cur] vis cnt k = Some (firstn (Z.to_nat (k - cnt)) l).
Proof.
  intros st k cur l Hch.
  induction Hch as [id c Hget Hpar | id c p l0 Hget Hpar Hch IH];
    intros fuel vis cnt Hnd Hdis Hfuel.
  - destruct fuel as [|f]; [cbn [length] in Hfuel; lia|].
    cbn [walk_history].
    destruct (Z.ltb k (cnt + 1)) eqn:Hlt.
    + replace (Z.to_nat (k - cnt)) with 0%nat by lia. reflexivity.
    + rewrite (set_mem_notin vis id (Hdis id (or_introl eq_refl))).
      rewrite Hget, Hpar. cbn [app].
      destruct f as [|f']; [cbn [length] in Hfuel; lia|].
      cbn [walk_history].
      replace (Z.to_nat (k - cnt)) with (S (Z.to_nat (k - (cnt + 1)))) by lia.
      cbn [firstn]. rewrite firstn_nil. reflexivity.
  - destruct fuel as [|f]; [cbn [length] in Hfuel; lia|].
    cbn [walk_history].
    destruct (Z.ltb k (cnt + 1)) eqn:Hlt.
    + replace (Z.to_nat (k - cnt)) with 0%nat by lia. reflexivity.
    + rewrite (set_mem_notin vis id (Hdis id (or_introl eq_refl))).
      rewrite Hget, Hpar. cbn [app].
      inversion Hnd as [|x xs Hnotin Hnd0]; subst x xs.
      rewrite (IH f (id :: vis) (cnt + 1)%Z).
      * replace (Z.to_nat (k - cnt)) with (S (Z.to_nat (k - (cnt + 1)))) by lia.
        reflexivity.
      * exact Hnd0.
      * intros x Hx [Heq | Hin].
        -- subst x. exact (Hnotin Hx).
        -- exact (Hdis x (or_intror Hx) Hin).
      * cbn [length] in Hfuel. lia.
Qed.

(* MAIN: the first min(k, length l) commits of the chain, newest first, each
   once; [] when k <= 0 *)
Theorem walk_history_chain : forall st tip l k fuel,
  chain st tip l -> NoDup l -> (length l < fuel)%nat ->
  walk_history fuel st [tip] [] 0 k = Some (firstn (Z.to_nat k) l).
Proof.
  intros st tip l k fuel Hch Hnd Hfuel.
  rewrite (walk_history_chain_gen st k tip l Hch fuel [] 0%Z Hnd).
  - rewrite Z.sub_0_r. reflexivity.
  - intros x Hx Hin. exact Hin.
  - exact Hfuel.
Qed.

Corollary walk_history_chain_nonpos : forall st tip l k fuel,
  chain st tip l -> NoDup l -> (length l < fuel)%nat -> (k <= 0)%Z ->
  walk_history fuel st [tip] [] 0 k = Some [].
Proof.
  intros st tip l k fuel Hch Hnd Hfuel Hk.
  rewrite (walk_history_chain st tip l k fuel Hch Hnd Hfuel).
  replace (Z.to_nat k) with 0%nat by lia. reflexivity.
Qed.

Corollary walk_history_chain_length : forall st tip l k fuel,
  chain st tip l -> NoDup l -> (length l < fuel)%nat ->
  exists ids, walk_history fuel st [tip] [] 0 k = Some ids /\
              length ids = Nat.min (Z.to_nat k) (length l).
Proof.
  intros st tip l k fuel Hch Hnd Hfuel.
  exists (firstn (Z.to_nat k) l). split.
  - exact (walk_history_chain st tip l k fuel Hch Hnd Hfuel).
  - apply firstn_length.
Qed.

(* all of it, when -n is at least the length of the history *)
Corollary walk_history_chain_all : forall st tip l k fuel,
  chain st tip l -> NoDup l -> (length l < fuel)%nat -> (Z.of_nat (length l) <= k)%Z ->
  walk_history fuel st [tip] [] 0 k = Some l.
Proof.
  intros st tip l k fuel Hch Hnd Hfuel Hk.
  rewrite (walk_history_chain st tip l k fuel Hch Hnd Hfuel).
  rewrite firstn_all2 by lia. reflexivity.
Qed.

(* ------------------------------------------------------------------ *)
(** * 3. The fuel cmd_log passes is enough *)

Lemma chain_length_le_store : forall st tip l,
  chain st tip l -> NoDup l -> (length l <= length st)%nat.
Proof.
  intros st tip l Hch Hnd.
  apply nodup_keys_length; [exact Hnd|].
  intros id Hin.
  pose proof (chain_commits st tip l Hch) as Hall.
  rewrite Forall_forall in Hall.
  destruct (Hall id Hin) as [c Hget].
  exact (get_commit_lookup st id c Hget).
Qed.

Theorem cmd_log_fuel : forall st tip l k,
  chain st tip l -> NoDup l ->
  walk_history (S (S (2 * length st))) st [tip] [] 0 k = Some (firstn (Z.to_nat k) l).
Proof.
  intros st tip l k Hch Hnd.
  apply walk_history_chain; [exact Hch | exact Hnd |].
  pose proof (chain_length_le_store st tip l Hch Hnd) as Hle. lia.
Qed.

(* ------------------------------------------------------------------ *)
(** * 4. What cmd_log reads; independence from index, work tree, other branches *)

(* same store, same tip, same k => same result (a function of its arguments;
   stated so that the property sheet can cite it) *)
Lemma walk_history_indep : forall fuel st1 st2 tip1 tip2 k1 k2,
  st1 = st2 -> tip1 = tip2 -> k1 = k2 ->
  walk_history fuel st1 [tip1] [] 0 k1 = walk_history fuel st2 [tip2] [] 0 k2.
Proof. intros fuel st1 st2 tip1 tip2 k1 k2 Hst Htip Hk. subst. reflexivity. Qed.

(* the command, unfolded: no effect is emitted and the machine state is returned
   untouched; the result is computed from w_objs, emptiness of w_refs, the id in
   x_headc and n *)
Definition log_result (objs : store) (refs_empty : bool) (tip : option bytes) (n : Z)
  : res (list bytes) :=
  if refs_empty then Err
  else match tip with
       | None => Err
       | Some hid =>
           match walk_history (S (S (2 * length objs))) objs [hid] [] 0 n with
           | Some ids => Ok (map hex ids)
           | None => Err
           end
       end.

Lemma cmd_log_reads : forall c n s,
  cmd_log c n s =
  (log_result (w_objs (ms_w s)) (is_nil (w_refs (ms_w s))) (option_map fst (x_headc c)) n, s).
Proof.
  intros c n s.
  unfold cmd_log, log_result, bind, getw, guard.
  destruct (is_nil (w_refs (ms_w s))) eqn:Hnil; cbn [negb]; unfold fail, ret.
  - reflexivity.
  - destruct (x_headc c) as [[hid cm]|]; cbn [option_map fst].
    + unfold of_opt.
      destruct (walk_history (S (S (2 * length (w_objs (ms_w s))))) (w_objs (ms_w s)) [hid] [] 0 n)
        as [ids|]; reflexivity.
    + reflexivity.
Qed.

Corollary cmd_log_pure : forall c n s, snd (cmd_log c n s) = s.
Proof. intros c n s. rewrite cmd_log_reads. reflexivity. Qed.

(* two runs agree as soon as the object stores, the emptiness of refs/heads,
   the commit HEAD resolves to and -n agree: the index, the work tree, the
   configuration, the reflogs, the ignore patterns, the fault counter and the
   refs of other branches are irrelevant *)
Theorem cmd_log_indep : forall c1 c2 n s1 s2,
  w_objs (ms_w s1) = w_objs (ms_w s2) ->
  is_nil (w_refs (ms_w s1)) = is_nil (w_refs (ms_w s2)) ->
  option_map fst (x_headc c1) = option_map fst (x_headc c2) ->
  fst (cmd_log c1 n s1) = fst (cmd_log c2 n s2).
Proof.
  intros c1 c2 n s1 s2 Hobjs Hrefs Hhead.
  rewrite !cmd_log_reads. cbn [fst]. rewrite Hobjs, Hrefs, Hhead. reflexivity.
Qed.

(* the command on a single-parent history *)
Theorem cmd_log_chain : forall c n s tip cm l,
  w_refs (ms_w s) <> [] ->
  x_headc c = Some (tip, cm) ->
  chain (w_objs (ms_w s)) tip l -> NoDup l ->
  cmd_log c n s = (Ok (map hex (firstn (Z.to_nat n) l)), s).
Proof.
  intros c n s tip cm l Hrefs Hhead Hch Hnd.
  rewrite cmd_log_reads. unfold log_result.
  destruct (w_refs (ms_w s)) as [|r rs] eqn:Hr; [exfalso; apply Hrefs; reflexivity|].
  cbn [is_nil]. rewrite Hhead. cbn [option_map fst].
  rewrite (cmd_log_fuel (w_objs (ms_w s)) tip l n Hch Hnd). reflexivity.
Qed.

(* ------------------------------------------------------------------ *)
(** * 5. Facts about the walk on ANY history (merges, cycles, any loop state) *)

(* every listed id loads as a commit *)
Theorem walk_history_commits : forall fuel st queue vis cnt k ids,
  walk_history fuel st queue vis cnt k = Some ids ->
  Forall (fun id => exists c, get_commit st id = Some c) ids.
Proof.
  induction fuel as [|f IH]; intros st queue vis cnt k ids Hw.
  - discriminate Hw.
  - cbn [walk_history] in Hw.
    destruct queue as [|h q].
    + injection Hw as Hids. subst ids. constructor.
    + destruct (Z.ltb k (cnt + 1)) eqn:Hlt.
      * injection Hw as Hids. subst ids. constructor.
      * destruct (set_mem vis h) eqn:Hmem.
        -- exact (IH st q vis (cnt + 1)%Z k ids Hw).
        -- destruct (get_commit st h) as [cm|] eqn:Hget; [|discriminate Hw].
           destruct (walk_history f st (q ++ c_parents cm) (h :: vis) (cnt + 1) k) as [l0|] eqn:Hrec;
             [|discriminate Hw].
           injection Hw as Hids. subst ids.
           constructor; [exists cm; exact Hget | exact (IH _ _ _ _ _ _ Hrec)].
Qed.

(* with its own author, committer and message: the listed id is the SHA-1 of a
   stored file that decodes as a commit object whose text parses *)
Corollary walk_history_commit_data : forall fuel st queue vis cnt k ids id,
  walk_history fuel st queue vis cnt k = Some ids -> In id ids ->
  exists p d c, st_lookup st id = Some p /\ sha1 p = id /\
                parse_payload p = Some (KCommit, d) /\ parse_commit d = Some c /\
                get_commit st id = Some c.
Proof.
  intros fuel st queue vis cnt k ids id Hw Hin.
  pose proof (walk_history_commits fuel st queue vis cnt k ids Hw) as Hall.
  rewrite Forall_forall in Hall. destruct (Hall id Hin) as [c Hget].
  pose proof Hget as Hget0.
  unfold get_commit in Hget.
  destruct (get_kind st KCommit id) as [d|] eqn:Hk; [|discriminate Hget].
  unfold get_kind in Hk.
  destruct (get_obj st id) as [[k' d']|] eqn:Hobj; [|discriminate Hk].
  destruct (kind_eqb KCommit k') eqn:Hkk; [|discriminate Hk].
  injection Hk as Hd. subst d'. apply kind_eqb_eq in Hkk. subst k'.
  destruct (get_obj_integrity st id KCommit d Hobj) as [p [Hl [Hsha Hpp]]].
  exists p, d, c.
  split; [exact Hl|]. split; [exact Hsha|]. split; [exact Hpp|]. split; [exact Hget | exact Hget0].
Qed.

(* "bounded by -n": never more than k - cnt ids *)
Theorem walk_history_bounded : forall fuel st queue vis cnt k ids,
  walk_history fuel st queue vis cnt k = Some ids ->
  (length ids <= Z.to_nat (k - cnt))%nat.
Proof.
  induction fuel as [|f IH]; intros st queue vis cnt k ids Hw.
  - discriminate Hw.
  - cbn [walk_history] in Hw.
    destruct queue as [|h q].
    + injection Hw as Hids. subst ids. cbn [length]. lia.
    + destruct (Z.ltb k (cnt + 1)) eqn:Hlt.
      * injection Hw as Hids. subst ids. cbn [length]. lia.
      * destruct (set_mem vis h) eqn:Hmem.
        -- pose proof (IH st q vis (cnt + 1)%Z k ids Hw) as Hb. lia.
        -- destruct (get_commit st h) as [cm|] eqn:Hget; [|discriminate Hw].
           destruct (walk_history f st (q ++ c_parents cm) (h :: vis) (cnt + 1) k) as [l0|] eqn:Hrec;
             [|discriminate Hw].
           injection Hw as Hids. subst ids.
           pose proof (IH _ _ _ _ _ _ Hrec) as Hb. cbn [length]. lia.
Qed.

Corollary cmd_log_bounded : forall fuel st tip k ids,
  walk_history fuel st [tip] [] 0 k = Some ids -> (length ids <= Z.to_nat k)%nat.
Proof.
  intros fuel st tip k ids Hw.
  pose proof (walk_history_bounded fuel st [tip] [] 0%Z k ids Hw) as Hb.
  rewrite Z.sub_0_r in Hb. exact Hb.
Qed.

(* "each once": nothing already visited is listed, nothing is listed twice *)
Theorem walk_history_nodup : forall fuel st queue vis cnt k ids,
  walk_history fuel st queue vis cnt k = Some ids ->
  NoDup ids /\ (forall x, In x ids -> ~ In x vis).
Proof.
  induction fuel as [|f IH]; intros st queue vis cnt k ids Hw.
  - discriminate Hw.
  - cbn [walk_history] in Hw.
    destruct queue as [|h q].
    + injection Hw as Hids. subst ids. split; [constructor | intros x []].
    + destruct (Z.ltb k (cnt + 1)) eqn:Hlt.
      * injection Hw as Hids. subst ids. split; [constructor | intros x []].
      * destruct (set_mem vis h) eqn:Hmem.
        -- exact (IH st q vis (cnt + 1)%Z k ids Hw).
        -- destruct (get_commit st h) as [cm|] eqn:Hget; [|discriminate Hw].
           destruct (walk_history f st (q ++ c_parents cm) (h :: vis) (cnt + 1) k) as [l0|] eqn:Hrec;
             [|discriminate Hw].
           injection Hw as Hids. subst ids.
           destruct (IH _ _ _ _ _ _ Hrec) as [Hnd Hdis].
           split.
           ++ constructor; [|exact Hnd].
              intro Hin. exact (Hdis h Hin (or_introl eq_refl)).
           ++ intros x [Hx | Hx] Hv.
              ** subst x.
                 assert (Ht : set_mem vis h = true) by (apply set_mem_In; exact Hv).
                 rewrite Ht in Hmem. discriminate Hmem.
              ** exact (Hdis x Hx (or_intror Hv)).
Qed.

(* ------------------------------------------------------------------ *)
(** * 6. Non-vacuity: three commits with real SHA-1 ids *)

Definition ex_sig : bytes := sign_string (str "A") (str "a@b.cc") 1700000000 0.
Definition ex_tree : bytes := Eval vm_compute in obj_id KTree [].     (* the empty tree *)

Definition ex_t1 : bytes := commit_text ex_tree None ex_sig ex_sig (str "first").
Definition ex_id1 : bytes := Eval vm_compute in obj_id KCommit ex_t1.
Definition ex_t2 : bytes := commit_text ex_tree (Some (hex ex_id1)) ex_sig ex_sig (str "second").
Definition ex_id2 : bytes := Eval vm_compute in obj_id KCommit ex_t2.
Definition ex_t3 : bytes := commit_text ex_tree (Some (hex ex_id2)) ex_sig ex_sig (str "third").
Definition ex_id3 : bytes := Eval vm_compute in obj_id KCommit ex_t3.

Definition ex_st : store :=
  st_set (st_set (st_set [] ex_id1 (payload KCommit ex_t1))
                 ex_id2 (payload KCommit ex_t2))
         ex_id3 (payload KCommit ex_t3).

Definition ex_l : list bytes := [ex_id3; ex_id2; ex_id1].

(* the ids are the real SHA-1 of the payloads (the empty tree has Git's
   well-known id 4b825dc6...) *)
Example ex_ids_real :
  ex_tree = obj_id KTree [] /\ hex ex_tree = str "4b825dc642cb6eb9a060e54bf8d69288fbee4904" /\
  ex_id1 = sha1 (payload KCommit ex_t1) /\
  ex_id2 = sha1 (payload KCommit ex_t2) /\
  ex_id3 = sha1 (payload KCommit ex_t3).
Proof. vm_compute. repeat split; reflexivity. Qed.

Example ex_sig_text : ex_sig = str "A <a@b.cc> 1700000000 +0000".
Proof. vm_compute. reflexivity. Qed.

Definition ex_who : option sign := Some (mkSign (str "A") (str "a@b.cc") 1700000000 0).

Example ex_get3 : get_commit ex_st ex_id3 = Some (mkCommit ex_tree [ex_id2] ex_who ex_who (str "third")).
Proof. vm_compute. reflexivity. Qed.
Example ex_get2 : get_commit ex_st ex_id2 = Some (mkCommit ex_tree [ex_id1] ex_who ex_who (str "second")).
Proof. vm_compute. reflexivity. Qed.
Example ex_get1 : get_commit ex_st ex_id1 = Some (mkCommit ex_tree [] ex_who ex_who (str "first")).
Proof. vm_compute. reflexivity. Qed.

Example ex_chain : chain ex_st ex_id3 ex_l.
Proof.
  unfold ex_l.
  eapply chain_step; [exact ex_get3 | reflexivity |].
  eapply chain_step; [exact ex_get2 | reflexivity |].
  eapply chain_root; [exact ex_get1 | reflexivity].
Qed.

Example ex_nodup : NoDup ex_l.
Proof.
  unfold ex_l.
  assert (H32 : ex_id3 <> ex_id2) by (apply bytes_eqb_neq; vm_compute; reflexivity).
  assert (H31 : ex_id3 <> ex_id1) by (apply bytes_eqb_neq; vm_compute; reflexivity).
  assert (H21 : ex_id2 <> ex_id1) by (apply bytes_eqb_neq; vm_compute; reflexivity).
  constructor.
  - intros [H | [H | []]]; [exact (H32 (eq_sym H)) | exact (H31 (eq_sym H))].
  - constructor.
    + intros [H | []]. exact (H21 (eq_sym H)).
    + constructor; [intros [] | constructor].
Qed.

(* by the theorem, with the fuel of cmd_log, for every k at once *)
Example ex_walk_thm : forall k,
  walk_history (S (S (2 * length ex_st))) ex_st [ex_id3] [] 0 k = Some (firstn (Z.to_nat k) ex_l).
Proof. intro k. exact (cmd_log_fuel ex_st ex_id3 ex_l k ex_chain ex_nodup). Qed.

(* and by evaluation of the model *)
Example ex_walk_m1 : walk_history (S (S (2 * length ex_st))) ex_st [ex_id3] [] 0 (-1) = Some [].
Proof. vm_compute. reflexivity. Qed.
Example ex_walk_0 : walk_history (S (S (2 * length ex_st))) ex_st [ex_id3] [] 0 0 = Some [].
Proof. vm_compute. reflexivity. Qed.
Example ex_walk_1 : walk_history (S (S (2 * length ex_st))) ex_st [ex_id3] [] 0 1 = Some [ex_id3].
Proof. vm_compute. reflexivity. Qed.
Example ex_walk_2 : walk_history (S (S (2 * length ex_st))) ex_st [ex_id3] [] 0 2 = Some [ex_id3; ex_id2].
Proof. vm_compute. reflexivity. Qed.
Example ex_walk_3 : walk_history (S (S (2 * length ex_st))) ex_st [ex_id3] [] 0 3 = Some [ex_id3; ex_id2; ex_id1].
Proof. vm_compute. reflexivity. Qed.
Example ex_walk_5 : walk_history (S (S (2 * length ex_st))) ex_st [ex_id3] [] 0 5 = Some [ex_id3; ex_id2; ex_id1].
Proof. vm_compute. reflexivity. Qed.

(* the fuel bound of [walk_history_chain] is tight: with fuel = length l the
   walk of the whole chain runs dry *)
Example ex_fuel_tight : walk_history (length ex_l) ex_st [ex_id3] [] 0 5 = None.
Proof. vm_compute. reflexivity. Qed.

(* the whole command, HEAD loaded by [load_ctx]: two worlds that differ in the
   index, the work tree and a second branch print the same three lines *)
Definition ex_w1 : world :=
  mkW true (str "main") [(str "main", ex_id3)] None ex_st false None [] CfgAbsent CfgAbsent [] [].
Definition ex_w2 : world :=
  mkW true (str "main") [(str "dev", ex_id1); (str "main", ex_id3)] (Some []) ex_st false None []
      CfgAbsent CfgAbsent [(str "f.txt", str "hello")] [str "d"].

Definition run_log (w : world) (n : Z) : res (list bytes) :=
  fst ((c <- load_ctx ;; cmd_log c n) (mkMS w [] None)).

Example ex_cmd_log_w1 : run_log ex_w1 5 = Ok [hex ex_id3; hex ex_id2; hex ex_id1].
Proof. vm_compute. reflexivity. Qed.
Example ex_cmd_log_w2 : run_log ex_w2 5 = Ok [hex ex_id3; hex ex_id2; hex ex_id1].
Proof. vm_compute. reflexivity. Qed.
Example ex_cmd_log_n2 : run_log ex_w2 2 = Ok [hex ex_id3; hex ex_id2].
Proof. vm_compute. reflexivity. Qed.
Example ex_cmd_log_n0 : run_log ex_w2 0 = Ok [].
Proof. vm_compute. reflexivity. Qed.
Example ex_cmd_log_dev : run_log (mkW true (str "dev") (w_refs ex_w2) None ex_st false None []
                                      CfgAbsent CfgAbsent [] []) 5 = Ok [hex ex_id1].
Proof. vm_compute. reflexivity. Qed.

(* REMARK (outside C14's single-parent scope; Goit itself never writes a commit
   with two parents).  -n bounds loop ITERATIONS, and an already visited id
   consumes one: on a hand-made commit whose parents are A, A, B the walk with
   k = 3 lists only two of the three reachable commits.  So
   [walk_history_chain] does not extend to "firstn k of the reachable set" for
   multi-parent histories; [walk_history_bounded] and [walk_history_nodup]
   are what holds there. *)
Definition ex_tb : bytes := commit_text ex_tree None ex_sig ex_sig (str "other").
Definition ex_idb : bytes := Eval vm_compute in obj_id KCommit ex_tb.
Definition ex_tm : bytes :=
  str "tree " ++ hex ex_tree ++ [c_nl]
  ++ str "parent " ++ hex ex_id1 ++ [c_nl]
  ++ str "parent " ++ hex ex_id1 ++ [c_nl]
  ++ str "parent " ++ hex ex_idb ++ [c_nl]
  ++ str "author " ++ ex_sig ++ [c_nl] ++ str "committer " ++ ex_sig ++ [c_nl]
  ++ [c_nl] ++ str "merge" ++ [c_nl].
Definition ex_idm : bytes := Eval vm_compute in obj_id KCommit ex_tm.
Definition ex_st_m : store :=
  st_set (st_set (st_set [] ex_id1 (payload KCommit ex_t1)) ex_idb (payload KCommit ex_tb))
         ex_idm (payload KCommit ex_tm).

Example ex_merge_parents :
  option_map c_parents (get_commit ex_st_m ex_idm) = Some [ex_id1; ex_id1; ex_idb].
Proof. vm_compute. reflexivity. Qed.
Example ex_visited_counts :
  walk_history (S (S (2 * length ex_st_m))) ex_st_m [ex_idm] [] 0 3 = Some [ex_idm; ex_id1] /\
  walk_history (S (S (2 * length ex_st_m))) ex_st_m [ex_idm] [] 0 4 = Some [ex_idm; ex_id1; ex_idb].
Proof. vm_compute. split; reflexivity. Qed.

Print Assumptions walk_history_chain.
Print Assumptions cmd_log_fuel.
Print Assumptions cmd_log_chain.
Print Assumptions cmd_log_reads.
Print Assumptions cmd_log_indep.
Print Assumptions walk_history_commits.
Print Assumptions walk_history_commit_data.
Print Assumptions walk_history_bounded.
Print Assumptions walk_history_nodup.
Print Assumptions ex_chain.
Print Assumptions ex_walk_thm.
