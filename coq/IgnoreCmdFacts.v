(* IgnoreCmdFacts.v — C17 at the level of whole commands and whole histories.

   "No form of `add` ever stages a path inside Goit's metadata directory or a
   path excluded by .goitignore, and `status` never lists such paths; hence
   `reset --hard` and `restore` never overwrite Goit's own files.  With no
   .goitignore, no path outside the metadata directory is hidden or skipped."

   1. (I1) [add_never_stages_excluded_gen] [add_never_stages_excluded]
           [add_never_stages_goit_dir] [add_step_never_stages_excluded]
           any world / context / argument list / outcome; [cx_inconsistent_tree]
           shows why the work tree must be one a file system can hold
   2. (I4) [no_ignore_file_staged] [no_ignore_dir_all_staged]
           [no_ignore_add_dot_all_staged] [no_ignore_nothing_hidden]
   3. (I2) [status_never_lists_excluded]  every line of `status`
   4. (I3) [restore_writes_tracked_only] [reset_writes_snapshot_only]
           which work-tree paths these commands write, every mode, every outcome
   5. the NEW invariant [NoGoit] (no staged path, no path of a stored commit's
      snapshot, is inside .goit/), carried together with SnapshotFacts.GoodW:
      [run_cmd_emits2] [step_Inv2] [run_Inv2] [no_goit_step] [no_goit_run]
      [reachable_tracks_no_goit_path]
   6. (I3) [restore_spares_goit] [reset_spares_goit] [goit_dir_never_overwritten]
   7. (I2) [status_step_never_lists_excluded]
   8. examples by computation, including [c17_newline_no_longer_escapes]: a
      file ".goit/a\nb" is NOT staged by `add .` (the patterns are compiled with
      the `s` flag, so `.` matches a newline), which is why [goit_path] has no
      clause about newlines. *)
From Coq Require Import Strings.String Strings.Byte.
From Coq Require Import List Bool NArith ZArith Arith Lia Sorted.
From Goit Require Import Bytes Sha1 Obj Tree Index Regex GoRegex Commit Reflog Config Ignore World Repo.
From Goit Require Import BytesFacts ObjFacts IndexFacts TreeFacts DiffFacts CommitFacts IgnoreFacts MonadFacts Inv.
From Goit Require Import BranchFacts SnapshotFacts ExactFacts.
Import ListNotations.

#[local] Arguments sha1 : simpl never.
#[local] Arguments obj_id : simpl never.
#[local] Arguments payload : simpl never.
#[local] Arguments header : simpl never.

(* ================================================================== *)
(** * 1. (I1) [add] never stages an excluded path *)

(* [q] went through the exclusion test of [add]: it names a file of the work
   tree, and in some world with the same work tree (only the staging area
   differs) [ignored] answered false for it *)
Definition passed (w0 : world) (pats : list regex) (q : bytes) : Prop :=
  file w0 q <> None /\
  exists w1, w_files w1 = w_files w0 /\ w_dirs w1 = w_dirs w0 /\ ignored w1 pats q = false.

Definition addx_inv (w0 : world) (pats : list regex) (w : world) : Prop :=
  Canonical (idx_of w) /\ w_files w = w_files w0 /\ w_dirs w = w_dirs w0 /\
  forall q, staged w q <> staged w0 q -> staged w q <> None -> passed w0 pats q.

Lemma addx_inv_put : forall w0 pats w i p,
  addx_inv w0 pats w -> addx_inv w0 pats (apply_effect (EPutObj i p) w).
Proof. intros w0 pats w i p H. exact H. Qed.

Lemma addx_inv_setidx : forall w0 pats w p es',
  addx_inv w0 pats w -> passed w0 pats p ->
  Canonical es' -> (forall q, q <> p -> stg es' q = stg (idx_of w) q) ->
  addx_inv w0 pats (apply_effect (ESetIndex es') w).
Proof.
  intros w0 pats w p es' (Hc & Hf & Hd & Hsel) Hp Hc' Ho.
  split; [exact Hc'|]. split; [exact Hf|]. split; [exact Hd|].
  intros q Hq Hq'. destruct (bytes_eq_dec q p) as [->|Hne]; [exact Hp|].
  rewrite staged_stg in Hq, Hq'.
  change (idx_of (apply_effect (ESetIndex es') w)) with es' in Hq, Hq'.
  rewrite (Ho q Hne) in Hq, Hq'. apply Hsel; assumption.
Qed.

Lemma addx_inv_add_file_idx : forall w0 pats w p id i0 pl,
  addx_inv w0 pats w -> passed w0 pats p ->
  addx_inv w0 pats (apply_effect
     (ESetIndex (match idx_update (idx_of w) id p with Some i => i | None => idx_of w end))
     (apply_effect (EPutObj i0 pl) w)).
Proof.
  intros w0 pats w p id i0 pl Hi Hp.
  apply addx_inv_setidx with (p := p); [apply addx_inv_put; exact Hi | exact Hp | |].
  - destruct Hi as [Hc _]. destruct (idx_update (idx_of w) id p) as [i|] eqn:Hu; [|exact Hc].
    exact (proj1 (stg_update _ _ _ _ Hc Hu)).
  - intros q Hq. destruct Hi as [Hc _]. destruct (idx_update (idx_of w) id p) as [i|] eqn:Hu; [|reflexivity].
    exact (proj2 (proj2 (stg_update _ _ _ _ Hc Hu)) q Hq).
Qed.

(* un-staging a path that is gone never makes a staged value appear *)
Lemma addx_inv_delete : forall w0 pats w p i,
  addx_inv w0 pats w -> idx_delete (idx_of w) p = Some i ->
  addx_inv w0 pats (apply_effect (ESetIndex i) w).
Proof.
  intros w0 pats w p i (Hc & Hf & Hd & Hsel) Hdel.
  destruct (stg_delete _ _ _ Hc Hdel) as (Hc' & Hnone & Ho).
  split; [exact Hc'|]. split; [exact Hf|]. split; [exact Hd|].
  intros q Hq Hq'. rewrite staged_stg in Hq, Hq'.
  change (idx_of (apply_effect (ESetIndex i) w)) with i in Hq, Hq'.
  destruct (bytes_eq_dec q p) as [->|Hne]; [contradiction (Hq' Hnone)|].
  rewrite (Ho q Hne) in Hq, Hq'. apply Hsel; assumption.
Qed.

Lemma add_file_emits_x : forall w0 pats p, passed w0 pats p ->
  emits (addx_inv w0 pats) add_G (add_file p).
Proof.
  intros w0 pats p Hp. hinline. unfold put_obj. hsteps; try exact Logic.I;
    repeat match goal with
    | |- _ /\ _ => split
    | |- True => exact Logic.I
    | |- add_G _ _ => exact Logic.I
    | |- addx_inv _ _ (apply_effect (EPutObj _ _) _) => apply addx_inv_put; assumption
    | |- addx_inv _ _ (apply_effect (ESetIndex _) (apply_effect (EPutObj _ _) _)) =>
        apply addx_inv_add_file_idx; assumption
    end.
Qed.

Lemma passed_intro : forall w0 pats w1 q data,
  w_files w1 = w_files w0 -> w_dirs w1 = w_dirs w0 ->
  file w1 q = Some data -> ignored w1 pats q = false -> passed w0 pats q.
Proof.
  intros w0 pats w1 q data Hf Hd Hq Hig. split.
  - unfold file in *. rewrite <- Hf, Hq. discriminate.
  - exists w1. auto.
Qed.

Theorem cmd_add_emits_x : forall w0 c args,
  emits (addx_inv w0 (x_pats c)) add_G (cmd_add c args).
Proof.
  intros w0 c args. rewrite cmd_add_uses_arg. hsteps.
  apply at_bind_iterM with (J := fun _ => True).
  - auto.
  - intros x w1 Hx Hi _. unfold add_arg. hsteps; try exact Logic.I.
    + (* an existing file *)
      destruct (file w1 x) as [data|] eqn:Hdata.
      * apply at_call with (P := fun _ => True) (R := fun _ _ => True); [|auto|auto].
        apply add_file_emits_x. destruct Hi as (_ & Hfw & Hdw & _).
        match goal with Hig : ignored w1 _ x = false |- _ =>
          exact (passed_intro w0 (x_pats c) w1 x data Hfw Hdw Hdata Hig) end.
      * unfold add_file. hsteps; exfalso; unfold file in Hdata; congruence.
    + (* a directory: every file below it *)
      apply at_iterM with (J := fun _ => True); [auto| |auto].
      intros f w2 Hf Hi2 _. unfold add_dir_body. hsteps; try exact Logic.I.
      destruct (file w2 f) as [data|] eqn:Hdata.
      * apply at_call with (P := fun _ => True) (R := fun _ _ => True); [|auto|auto].
        apply add_file_emits_x. destruct Hi2 as (_ & Hfw & Hdw & _).
        match goal with Hig : ignored w2 _ f = false |- _ =>
          exact (passed_intro w0 (x_pats c) w2 f data Hfw Hdw Hdata Hig) end.
      * unfold add_file. hsteps; exfalso; unfold file in Hdata; congruence.
    + (* a tracked path, or a tracked directory, that is gone: only un-staging *)
      apply at_Inv. intro Hi1. unfold add_missing_body. hsteps; try exact Logic.I.
      * split; [exact Logic.I|]. split; [|exact Logic.I].
        eapply addx_inv_delete; eassumption.
      * apply at_iterM with (J := fun _ => True); [auto| |auto].
        intros q w2 Hq Hi2 _. unfold add_unstage_one. hsteps; try exact Logic.I.
        split; [exact Logic.I|]. split; [|exact Logic.I].
        eapply addx_inv_delete; eassumption.
    + apply at_Inv. intro Hi1. unfold add_missing_body. hsteps; try exact Logic.I.
      * split; [exact Logic.I|]. split; [|exact Logic.I].
        eapply addx_inv_delete; eassumption.
      * apply at_iterM with (J := fun _ => True); [auto| |auto].
        intros q w2 Hq Hi2 _. unfold add_unstage_one. hsteps; try exact Logic.I.
        split; [exact Logic.I|]. split; [|exact Logic.I].
        eapply addx_inv_delete; eassumption.
  - intros w1 _ _. hsteps. exact Logic.I.
Qed.

(* (I1), most general form: ANY world with a canonical staging area, ANY
   context, ANY argument list, ANY outcome.  A path whose staged value changed
   to [Some _] names a file of the work tree that passed the exclusion test. *)
Theorem add_never_stages_excluded_gen : forall c w args r w' tr,
  Canonical (idx_of w) -> run_m (cmd_add c args) w = (r, w', tr) ->
  forall q, staged w' q <> staged w q -> staged w' q <> None -> passed w (x_pats c) q.
Proof.
  intros c w args r w' tr Hc Hrun.
  assert (Hi : addx_inv w (x_pats c) w).
  { split; [exact Hc|]. split; [reflexivity|]. split; [reflexivity|].
    intros q Hq. contradiction Hq. reflexivity. }
  destruct (emits_sound (addx_inv w (x_pats c)) add_G _ _ w r w' tr (cmd_add_emits_x w c args) Hi Hrun)
    as (Hi' & _).
  destruct Hi' as (_ & _ & _ & Hsel). exact Hsel.
Qed.

(* on a work tree a file system can hold (no file below a file), the test is
   the one of the initial world and only looks at the patterns *)
Lemma passed_consistent : forall w pats q, ex_wt_consistent w -> passed w pats q ->
  wt_stat w q = SFile /\ ignored w pats q = false /\ ign_match pats q = false.
Proof.
  intros w pats q Hcons [Hf (w1 & Hf1 & Hd1 & Hig)].
  destruct (file w q) as [data|] eqn:Hdata; [|contradiction Hf; reflexivity].
  pose proof (Hcons q data Hdata) as Hs.
  destruct (ignored_file_indep w w1 pats q Hf1 Hd1 Hs) as [H1 H2].
  split; [exact Hs|]. split; congruence.
Qed.

Theorem add_never_stages_excluded : forall c w args r w' tr,
  Canonical (idx_of w) -> ex_wt_consistent w ->
  run_m (cmd_add c args) w = (r, w', tr) ->
  forall q, staged w' q <> staged w q -> staged w' q <> None ->
    ignored w (x_pats c) q = false /\ ign_match (x_pats c) q = false /\
    wt_stat w q = SFile.
Proof.
  intros c w args r w' tr Hc Hcons Hrun q Hq Hq'.
  destruct (passed_consistent w (x_pats c) q Hcons
              (add_never_stages_excluded_gen c w args r w' tr Hc Hrun q Hq Hq')) as (H1 & H2 & H3).
  auto.
Qed.

(* what the model calls "inside Goit's directory": a component ".goit" with
   something (any bytes at all) below it -- exactly what the built-in pattern
   `\.goit/.*`, compiled with the `s` flag, matches at a component boundary
   ([goit_path_iff_builtin]) *)
Definition goit_path (q : bytes) : Prop :=
  exists a rest, q = a ++ str ".goit/" ++ rest /\ (a = [] \/ last a x00 = c_slash).

Lemma goit_path_top : forall rest, goit_path (str ".goit/" ++ rest).
Proof. intros rest. exists [], rest. split; [reflexivity | left; reflexivity]. Qed.

Lemma goit_path_iff_builtin : forall q, goit_path q <-> ign_match [ign_builtin] q = true.
Proof.
  intro q. split.
  - intros (a & rest & -> & Ha). apply builtin_excludes_at. exact Ha.
  - intro Hm. exact (builtin_only q Hm).
Qed.

Lemma goit_path_iff_under_named : forall q, goit_path q <-> under_named [str ".goit"] q.
Proof. intro q. rewrite goit_path_iff_builtin. apply builtin_under_named_iff. Qed.

Lemma goit_path_ignored : forall w pats q, In ign_builtin pats -> goit_path q -> ignored w pats q = true.
Proof.
  intros w pats q Hin (a & rest & -> & Ha). apply ignored_goit_at; assumption.
Qed.

Lemma passed_not_goit : forall w pats q, In ign_builtin pats -> passed w pats q -> ~ goit_path q.
Proof.
  intros w pats q Hin [_ (w1 & _ & _ & Hig)] Hg.
  rewrite (goit_path_ignored w1 pats q Hin Hg) in Hig. discriminate Hig.
Qed.

Lemma opt_bytes_dec : forall a b : option bytes, {a = b} + {a <> b}.
Proof.
  intros [a|] [b|]; try (right; discriminate); [|left; reflexivity].
  destruct (bytes_eq_dec a b) as [->|Hne]; [left; reflexivity | right; congruence].
Qed.

(* no hypothesis on the work tree here: nothing inside .goit/ is ever staged
   by [add], whatever .goitignore says *)
Theorem add_never_stages_goit_dir : forall c w args r w' tr,
  Canonical (idx_of w) -> In ign_builtin (x_pats c) ->
  run_m (cmd_add c args) w = (r, w', tr) ->
  forall q, goit_path q -> staged w' q = staged w q \/ staged w' q = None.
Proof.
  intros c w args r w' tr Hc Hin Hrun q Hg.
  destruct (opt_bytes_dec (staged w' q) (staged w q)) as [E|Hne]; [left; exact E|].
  destruct (opt_bytes_dec (staged w' q) None) as [E|Hne']; [right; exact E|].
  exfalso. apply (passed_not_goit w (x_pats c) q Hin); [|exact Hg].
  apply (add_never_stages_excluded_gen c w args r w' tr Hc Hrun q Hne Hne').
Qed.

(* the context every command really runs with *)
Lemma ctx_of_pats : forall w c, ctx_of w = Some c ->
  ign_load (am_get (w_files w) (str ".goitignore")) = Some (x_pats c).
Proof.
  intros w c H. unfold ctx_of in H.
  destruct (cfg_of (w_gcfg w)); [|discriminate H].
  destruct (cfg_of (w_lcfg w)); [|discriminate H].
  destruct (head_commit w); [|discriminate H].
  destruct (ign_load _) as [pats|]; [|discriminate H].
  injection H as <-. reflexivity.
Qed.

Lemma ctx_of_builtin : forall w c, ctx_of w = Some c -> In ign_builtin (x_pats c).
Proof. intros w c H. exact (ign_load_builtin _ _ (ctx_of_pats w c H)). Qed.

Lemma run_m_eq3 : forall A (m : M A) w,
  run_m m w = (fst (m (mkMS w [] None)), ms_w (snd (m (mkMS w [] None))), ms_trace (snd (m (mkMS w [] None)))).
Proof. intros A m w. unfold run_m. destruct (m (mkMS w [] None)) as [r s]. reflexivity. Qed.

(* the same through [step]: the command as the user runs it *)
Theorem add_step_never_stages_excluded : forall e args w w' o tr,
  Canonical (idx_of w) -> step (ACmd e (CAdd args)) w = (w', o, tr) ->
  (forall q, goit_path q -> staged w' q = staged w q \/ staged w' q = None) /\
  (ex_wt_consistent w -> forall c, ctx_of w = Some c ->
     forall q, staged w' q <> staged w q -> staged w' q <> None ->
       ignored w (x_pats c) q = false /\ ign_match (x_pats c) q = false).
Proof.
  intros e args w w' o tr Hc Hstep.
  destruct (w_inited w) eqn:Hin.
  2:{ rewrite (step_not_loaded e (CAdd args) w) in Hstep; [|discriminate | left; exact Hin].
      injection Hstep as <- _ _. split; [intros q _; left; reflexivity|].
      intros _ c _ q Hq. contradiction Hq. reflexivity. }
  destruct (ctx_of w) as [c|] eqn:Hctx.
  2:{ rewrite (step_not_loaded e (CAdd args) w) in Hstep; [|discriminate | right; exact Hctx].
      injection Hstep as <- _ _. split; [intros q _; left; reflexivity|].
      intros _ c0 Hc'. discriminate Hc'. }
  rewrite (step_loaded e (CAdd args) w c) in Hstep; [|discriminate | exact Hin | exact Hctx].
  cbn [dispatch] in Hstep. injection Hstep as Hw' _ Htr.
  assert (Hrun : run_m (cmd_add c args) w = (fst (cmd_add c args (mkMS w [] None)), w', tr)).
  { rewrite run_m_eq3, Hw', Htr. reflexivity. }
  split.
  - apply (add_never_stages_goit_dir c w args _ w' tr Hc (ctx_of_builtin w c Hctx) Hrun).
  - intros Hcons c' Hc' q Hq Hq'. injection Hc' as Ec. subst c'.
    destruct (add_never_stages_excluded c w args _ w' tr Hc Hcons Hrun q Hq Hq') as (H1 & H2 & _). auto.
Qed.

(* The hypothesis [ex_wt_consistent] cannot be dropped from
   [add_never_stages_excluded]: in a "work tree" no file system can hold (a/b
   is a file AND has a file below it, and the list of files is not in path
   order) the test for a/b is made with the target "a/b/" once a/b/c is staged,
   and the entry "b" no longer matches.  (Not a defect of the program: such a
   tree does not exist on disk.) *)
Definition cx_w : world :=
  mkW true [] [] None [] false None [] CfgAbsent CfgAbsent
      [(str "a/b/c", str "1"); (str "a/b", str "2"); (str "a", str "3")] [].
Definition cx_pats : list regex :=
  match ign_line (str "b") with Some r => [ign_builtin; r] | None => [] end.
Definition cx_c : ctx := mkCtx [] [] None cx_pats.

Example cx_inconsistent_tree :
  let '(_, w', _) := run_m (cmd_add cx_c [str "."]) cx_w in
  (ignored cx_w cx_pats (str "a/b"), tracked cx_w (str "a/b"), tracked w' (str "a/b")) = (true, false, true).
Proof. vm_compute. reflexivity. Qed.

(* ================================================================== *)
(** * 2. (I4) With no .goitignore nothing outside .goit is skipped *)

Lemma am_get_In : forall (V : Type) (m : amap V) k v, am_get m k = Some v -> In (k, v) m.
Proof.
  intros V m k v. induction m as [|[k' v'] r IH]; cbn [am_get]; [discriminate|].
  destruct (bytes_eqb k' k) eqn:E.
  - intro H. injection H as ->. apply bytes_eqb_eq in E. subst k'. left. reflexivity.
  - intro H. right. apply IH. exact H.
Qed.

(* one existing file outside .goit: staged with the id of its content *)
Theorem no_ignore_file_staged : forall c w p data,
  x_pats c = [ign_builtin] -> Canonical (idx_of w) ->
  wt_stat w p = SFile -> file w p = Some data -> ~ In (str ".goit") (comps p) ->
  exists tr, runs (cmd_add c [p]) w (Ok []) tr /\ Forall add_eff tr /\
             add_file_post w p data (apply_effects tr w).
Proof.
  intros c w p data Hp Hc Hs Hf Hn.
  destruct (cmd_add_file_spec c w p data Hc Hs) as (tr & Hr & Hg & _ & Hpost).
  - rewrite Hp. exact (proj1 (no_ignore_not_ignored w p Hn)).
  - exact Hf.
  - exists tr. auto.
Qed.

Lemma comps_dot : comps [x2e] = [[x2e]].
Proof. reflexivity. Qed.

(* a directory argument outside .goit: EVERY file below it that is outside
   .goit is staged with the id of its content *)
Theorem no_ignore_dir_all_staged : forall c w d,
  x_pats c = [ign_builtin] -> Canonical (idx_of w) -> ex_wt_consistent w ->
  wt_stat w d = SDir -> ~ In (str ".goit") (comps d) ->
  exists tr, runs (cmd_add c [d]) w (Ok []) tr /\ Forall add_eff tr /\
    Canonical (idx_of (apply_effects tr w)) /\
    (forall q data, file w q = Some data -> under_dir d q = true -> ~ In (str ".goit") (comps q) ->
       staged (apply_effects tr w) q = Some (blob_id data)) /\
    (forall q, ~ (file w q <> None /\ under_dir d q = true) ->
       staged (apply_effects tr w) q = staged w q).
Proof.
  intros c w d Hp Hc Hcons Hs Hn.
  destruct (cmd_add_dir_spec c w d Hc Hcons Hs) as (tr & Hr & Hg & Hpost & _).
  - rewrite Hp. exact (proj1 (no_ignore_not_ignored w d Hn)).
  - exists tr. split; [exact Hr|]. split; [exact Hg|].
    destruct Hpost as [Pc _ _ Ps Po]. split; [exact Pc|]. split.
    + intros q data Hq Hu Hnq. rewrite (Ps q).
      * rewrite Hq. reflexivity.
      * apply (files_under_intro w d q data); [apply am_get_In; exact Hq | exact Hu].
      * rewrite Hp. apply builtin_needs_goit_comp. exact Hnq.
    + intros q Hq. apply Po. intros [Hin _]. apply Hq.
      destruct (files_under_in w d q Hin) as [Hu [data Hd]]. split; [congruence | exact Hu].
Qed.

(* `add .` *)
Corollary no_ignore_add_dot_all_staged : forall c w,
  x_pats c = [ign_builtin] -> Canonical (idx_of w) -> ex_wt_consistent w ->
  exists tr, runs (cmd_add c [[x2e]]) w (Ok []) tr /\ Forall add_eff tr /\
    forall q data, file w q = Some data -> q <> [] -> ~ In (str ".goit") (comps q) ->
      staged (apply_effects tr w) q = Some (blob_id data).
Proof.
  intros c w Hp Hc Hcons.
  destruct (no_ignore_dir_all_staged c w [x2e] Hp Hc Hcons) as (tr & Hr & Hg & _ & Hs & _).
  - reflexivity.
  - rewrite comps_dot. intros [E|[]]. discriminate E.
  - exists tr. split; [exact Hr|]. split; [exact Hg|].
    intros q data Hq Hne Hn. apply (Hs q data Hq); [|exact Hn]. apply under_dir_dot. exact Hne.
Qed.

(* "with no .goitignore": the patterns [load_ctx] produces are the built-in one *)
Lemma ctx_no_ignore_file : forall w c, ctx_of w = Some c ->
  am_get (w_files w) (str ".goitignore") = None -> x_pats c = [ign_builtin].
Proof.
  intros w c Hc Hn. pose proof (ctx_of_pats w c Hc) as H. rewrite Hn in H.
  cbn [ign_load] in H. injection H as <-. reflexivity.
Qed.

(* and nothing outside .goit is hidden from `status` either *)
Theorem no_ignore_nothing_hidden : forall w c f,
  ctx_of w = Some c -> am_get (w_files w) (str ".goitignore") = None ->
  ~ In (str ".goit") (comps f) ->
  visible w (x_pats c) f = true /\ ignored w (x_pats c) f = false.
Proof.
  intros w c f Hc Hn Hf. rewrite (ctx_no_ignore_file w c Hc Hn).
  split; [apply no_ignore_visible; exact Hf | exact (proj1 (no_ignore_not_ignored w f Hf))].
Qed.

(* ================================================================== *)
(** * 3. (I2) what `status` lists *)

Lemma head_tree_nodes_pure : forall c s, snd (head_tree_nodes c s) = s.
Proof.
  intros c s. unfold head_tree_nodes, bind, getw.
  destruct (x_headc c) as [[hid cm]|]; [|reflexivity].
  destruct (get_kind (w_objs (ms_w s)) KTree (c_tree cm)) as [d|]; cbn [of_opt ret fail]; [|reflexivity].
  destruct (walk_tree _ _ d); reflexivity.
Qed.

Definition status_lines (w : world) (pats : list regex) (ns : list node) : list bytes :=
  map (fun d => dkind_tag (fst d) ++ snd d) (diff_with_tree (idx_of w) ns)
  ++ map (fun kv => str "modified " ++ fst kv) (st_modified w pats)
  ++ map (fun e => str "deleted " ++ e_path e) (st_deleted w)
  ++ map (fun kv => str "untracked " ++ fst kv) (st_untracked w pats).

(* the nodes `status` compares the staging area with: HEAD's snapshot *)
Definition head_ns (c : ctx) (w : world) (ns : list node) : Prop :=
  match x_headc c with
  | None => ns = []
  | Some (_, cm) => exists d, get_kind (w_objs w) KTree (c_tree cm) = Some d /\
                              walk_tree (S (length (w_objs w))) (w_objs w) d = Some ns
  end.

Lemma head_tree_nodes_ok : forall c s ns s', head_tree_nodes c s = (Ok ns, s') -> head_ns c (ms_w s) ns.
Proof.
  intros c s ns s' H. unfold head_tree_nodes, bind, getw in H. unfold head_ns.
  destruct (x_headc c) as [[hid cm]|].
  - destruct (get_kind (w_objs (ms_w s)) KTree (c_tree cm)) as [d|]; cbn [of_opt ret fail] in H; [|discriminate H].
    exists d. split; [reflexivity|].
    destruct (walk_tree _ _ d) as [ns0|]; cbn [of_opt ret fail] in H; [|discriminate H].
    injection H as <- _. reflexivity.
  - unfold ret in H. injection H as <- _. reflexivity.
Qed.

(* [status] reads only, and its output is [status_lines] of HEAD's snapshot *)
Lemma cmd_status_eq : forall c w r w' tr,
  run_m (cmd_status c) w = (r, w', tr) ->
  w' = w /\ tr = [] /\
  forall out, r = Ok out -> exists ns, head_ns c w ns /\ out = status_lines w (x_pats c) ns.
Proof.
  intros c w r w' tr Hrun. rewrite cmd_status_uses_filters in Hrun.
  unfold run_m, bind at 1, getw in Hrun. cbn [ms_w] in Hrun. unfold bind in Hrun.
  pose proof (head_tree_nodes_pure c (mkMS w [] None)) as Hp.
  pose proof (head_tree_nodes_ok c (mkMS w [] None)) as Hok.
  destruct (head_tree_nodes c (mkMS w [] None)) as [[ns| |] s1]; cbn [snd] in Hp; subst s1;
    cbn [ret ms_w ms_trace] in Hrun; injection Hrun as <- <- <-;
    (split; [reflexivity|]; split; [reflexivity|]); intros out Ho; try discriminate Ho.
  injection Ho as <-. exists ns. split; [exact (Hok ns _ eq_refl) | reflexivity].
Qed.

(* the four kinds of line are told apart by their first byte *)
Lemma tag_not_untracked : forall k p p', dkind_tag k ++ p' <> str "untracked " ++ p.
Proof. intros k p p' H. destruct k; vm_compute in H; discriminate H. Qed.
Lemma tag_not_modified : forall k p p', dkind_tag k ++ p' <> str "modified " ++ p.
Proof. intros k p p' H. destruct k; vm_compute in H; discriminate H. Qed.
Lemma tag_not_deleted : forall k p p', dkind_tag k ++ p' <> str "deleted " ++ p.
Proof. intros k p p' H. destruct k; vm_compute in H; discriminate H. Qed.

Lemma in_status_lines : forall w pats ns l,
  In l (status_lines w pats ns) ->
  (exists d, In d (diff_with_tree (idx_of w) ns) /\ l = dkind_tag (fst d) ++ snd d) \/
  (exists kv, In kv (st_modified w pats) /\ l = str "modified " ++ fst kv) \/
  (exists e, In e (st_deleted w) /\ l = str "deleted " ++ e_path e) \/
  (exists kv, In kv (st_untracked w pats) /\ l = str "untracked " ++ fst kv).
Proof.
  intros w pats ns l H. unfold status_lines in H.
  apply in_app_or in H. destruct H as [H|H].
  { left. apply in_map_iff in H. destruct H as [d [E Hd]]. exists d. auto. }
  apply in_app_or in H. destruct H as [H|H].
  { right. left. apply in_map_iff in H. destruct H as [d [E Hd]]. exists d. auto. }
  apply in_app_or in H. destruct H as [H|H].
  { right. right. left. apply in_map_iff in H. destruct H as [d [E Hd]]. exists d. auto. }
  right. right. right. apply in_map_iff in H. destruct H as [d [E Hd]]. exists d. auto.
Qed.

Lemma untracked_line : forall w pats ns p,
  In (str "untracked " ++ p) (status_lines w pats ns) ->
  exists data, In (p, data) (st_untracked w pats).
Proof.
  intros w pats ns p H. apply in_status_lines in H.
  destruct H as [[d [_ E]]|[[kv [_ E]]|[[e [_ E]]|[[q data] [Hin E]]]]].
  - symmetry in E. contradiction (tag_not_untracked _ _ _ E).
  - vm_compute in E. discriminate E.
  - vm_compute in E. discriminate E.
  - cbn [fst] in E. apply app_inv_head in E. subst q. exists data. exact Hin.
Qed.

Lemma modified_line : forall w pats ns p,
  In (str "modified " ++ p) (status_lines w pats ns) ->
  exists data, In (p, data) (st_modified w pats).
Proof.
  intros w pats ns p H. apply in_status_lines in H.
  destruct H as [[d [_ E]]|[[[q data] [Hin E]]|[[e [_ E]]|[kv [_ E]]]]].
  - symmetry in E. contradiction (tag_not_modified _ _ _ E).
  - cbn [fst] in E. apply app_inv_head in E. subst q. exists data. exact Hin.
  - vm_compute in E. discriminate E.
  - vm_compute in E. discriminate E.
Qed.

Lemma deleted_line : forall w pats ns p,
  In (str "deleted " ++ p) (status_lines w pats ns) ->
  exists e, In e (st_deleted w) /\ e_path e = p.
Proof.
  intros w pats ns p H. apply in_status_lines in H.
  destruct H as [[d [_ E]]|[[kv [_ E]]|[[e [Hin E]]|[kv [_ E]]]]].
  - symmetry in E. contradiction (tag_not_deleted _ _ _ E).
  - vm_compute in E. discriminate E.
  - apply app_inv_head in E. exists e. auto.
  - vm_compute in E. discriminate E.
Qed.

Lemma tag_inj : forall k k' p p', dkind_tag k ++ p = dkind_tag k' ++ p' -> k = k' /\ p = p'.
Proof.
  intros k k' p p' H. destruct k, k'; vm_compute in H; try discriminate H;
    (split; [reflexivity|]); repeat (injection H as H); exact H.
Qed.

Lemma staged_line : forall w pats ns k p,
  In (dkind_tag k ++ p) (status_lines w pats ns) -> In (k, p) (diff_with_tree (idx_of w) ns).
Proof.
  intros w pats ns k p H. apply in_status_lines in H.
  destruct H as [[[k' p'] [Hin E]]|[[kv [_ E]]|[[e [_ E]]|[kv [_ E]]]]].
  - cbn [fst snd] in E. destruct (tag_inj _ _ _ _ E) as [-> ->]. exact Hin.
  - contradiction (tag_not_modified _ _ _ E).
  - contradiction (tag_not_deleted _ _ _ E).
  - contradiction (tag_not_untracked _ _ _ E).
Qed.

(* a "staged-..." line names a staged path or a path of HEAD's snapshot *)
Lemma diff_paths : forall es ns k p, In (k, p) (diff_with_tree es ns) ->
  In p (paths es) \/ In p (paths (flatten [] ns)).
Proof.
  intros es ns k p H. unfold diff_with_tree in H. apply in_app_or in H. destruct H as [H|H].
  - apply in_flat_map in H. destruct H as [g [Hg Hin]].
    destruct (get_entry es (e_path g)) as [[i e]|] eqn:Eg.
    + destruct (bytes_eqb (e_id e) (e_id g)); [destruct Hin|]. destruct Hin as [E|[]].
      injection E as _ <-. left. apply get_entry_sound in Eg. destruct Eg as [Hn _].
      apply in_map. exact (nth_error_In _ _ Hn).
    + destruct Hin as [E|[]]. injection E as _ <-. right. apply in_map. exact Hg.
  - apply in_flat_map in H. destruct H as [e [He Hin]]. left.
    destruct (get_node ns (e_path e)) as [n|].
    + destruct (is_leaf n); [destruct Hin|]. destruct Hin as [E|[]]. injection E as _ <-. apply in_map. exact He.
    + destruct Hin as [E|[]]. injection E as _ <-. apply in_map. exact He.
Qed.

Lemma visible_untracked_not_ignored : forall w pats p,
  visible w pats p = true -> tracked w p = false -> ignored w pats p = false.
Proof.
  intros w pats p Hv Ht. unfold visible in Hv. apply andb_true_iff in Hv. destruct Hv as [_ Hv].
  rewrite Ht in Hv. cbn [negb] in Hv. rewrite andb_true_r in Hv.
  apply negb_true_iff in Hv. exact Hv.
Qed.

Lemma In_tracked : forall w e, Canonical (idx_of w) -> In e (idx_of w) -> tracked w (e_path e) = true.
Proof.
  intros w e Hc Hin. unfold tracked.
  destruct (proj2 (get_entry_some_iff (idx_of w) (e_path e) e Hc) (conj Hin eq_refl)) as [i Hg].
  rewrite Hg. reflexivity.
Qed.

(* (I2) every line `status` prints about the work tree:
   - "untracked p": p is a file, not staged, NOT excluded ([ignored] is false
     for it and for none of its ancestors that hold no staged path), hence not
     inside .goit/;
   - "modified p" / "deleted p": p is staged.
   Whatever the outcome, [status] changes nothing. *)
Theorem status_never_lists_excluded : forall c w r w' tr,
  run_m (cmd_status c) w = (r, w', tr) ->
  w' = w /\ tr = [] /\
  forall out, r = Ok out ->
    (forall p, In (str "untracked " ++ p) out ->
       file w p <> None /\ tracked w p = false /\
       visible w (x_pats c) p = true /\ ignored w (x_pats c) p = false /\
       (In ign_builtin (x_pats c) -> ~ goit_path p)) /\
    (forall p, In (str "modified " ++ p) out -> tracked w p = true /\ file w p <> None) /\
    (forall p, In (str "deleted " ++ p) out -> In p (paths (idx_of w)) /\
                                               (Canonical (idx_of w) -> tracked w p = true)) /\
    (exists ns, head_ns c w ns /\ forall k p, In (dkind_tag k ++ p) out ->
                  In p (paths (idx_of w)) \/ In p (paths (flatten [] ns))).
Proof.
  intros c w r w' tr Hrun. destruct (cmd_status_eq c w r w' tr Hrun) as (Hw & Htr & Hout).
  split; [exact Hw|]. split; [exact Htr|]. intros out Ho. destruct (Hout out Ho) as [ns [Hns ->]].
  split; [|split; [|split]].
  - intros p Hp. destruct (untracked_line _ _ _ _ Hp) as [data Hin].
    apply untracked_exact in Hin. cbn [fst] in Hin. destruct Hin as (Hf & Hv & Ht).
    pose proof (visible_untracked_not_ignored w (x_pats c) p Hv Ht) as Hig.
    split.
    { destruct (ex_am_get_in _ _ _ _ Hf) as [v Hg]. unfold file. rewrite Hg. discriminate. }
    split; [exact Ht|]. split; [exact Hv|]. split; [exact Hig|].
    intros Hb Hg. rewrite (goit_path_ignored w (x_pats c) p Hb Hg) in Hig. discriminate Hig.
  - intros p Hp. destruct (modified_line _ _ _ _ Hp) as [data Hin].
    apply modified_exact in Hin. destruct Hin as (Hf & _ & i & e & Hg & _). split.
    + unfold tracked. rewrite Hg. reflexivity.
    + destruct (ex_am_get_in _ _ _ _ Hf) as [v Hg']. unfold file. rewrite Hg'. discriminate.
  - intros p Hp. destruct (deleted_line _ _ _ _ Hp) as [e [Hin <-]].
    apply deleted_exact in Hin. destruct Hin as [Hin _]. split.
    + apply in_map. exact Hin.
    + intro Hc. apply In_tracked; assumption.
  - exists ns. split; [exact Hns|]. intros k p Hp.
    apply (diff_paths _ _ k). apply (staged_line _ _ _ _ _ Hp).
Qed.

(* ================================================================== *)
(** * 4. (I3) which work-tree paths [restore] and [reset] write *)

(* The model's work tree [w_files] holds the user's files only; Goit's own
   files (.goit/HEAD, .goit/index, ...) are the other fields of [world].
   "Goit's files are never overwritten" therefore reads: no [EWriteFile] /
   [ERemovePath] effect of these commands has a path inside .goit/ -- such an
   effect is what would, on disk, clobber .goit/HEAD or .goit/index. *)

(* ---------- restore ---------- *)
Definition restore_allowed (w : world) (staged_flag : bool) (e : effect) : Prop :=
  match e with
  | EWriteFile q _ => staged_flag = false /\ In q (paths (idx_of w))
  | EMkdirAll _ => staged_flag = false
  | ESetIndex _ => staged_flag = true
  | _ => False
  end.

Lemma wd_targets_tracked : forall w args q, In q (wd_targets w args) -> In q (paths (idx_of w)).
Proof.
  intros w args q H. unfold wd_targets in H. apply in_concat in H. destruct H as [t [Ht Hq]].
  apply in_map_iff in Ht. destruct Ht as [a [<- _]]. unfold restore_targets in Hq.
  destruct (tracked w a) eqn:Et.
  - destruct Hq as [<-|[]]. destruct (tracked_In w a Et) as [e [Hin <-]]. apply in_map. exact Hin.
  - apply in_map_iff in Hq. destruct Hq as [e [<- Hin]]. apply in_map.
    unfold entries_by_dir in Hin. apply filter_In in Hin. exact (proj1 Hin).
Qed.

Theorem restore_writes_tracked_only : forall c st args w r w' tr,
  Canonical (idx_of w) -> run_m (cmd_restore c st args) w = (r, w', tr) ->
  w' = apply_effects tr w /\ Forall (restore_allowed w st) tr.
Proof.
  intros c st args w r w' tr Hc Hrun. destruct st.
  - destruct (cmd_restore_idx_frame c args w r w' tr Hc Hrun) as (Hw & Hall & _).
    split; [exact Hw|]. eapply Forall_impl; [|exact Hall].
    intros e He. destruct e; try discriminate He. reflexivity.
  - destruct (cmd_restore_wd_frame c args w r w' tr Hrun) as (Hw & Hall).
    split; [exact Hw|]. eapply Forall_impl; [|exact Hall].
    intros e He. destruct e; try contradiction He.
    + split; [reflexivity | apply (wd_targets_tracked w args); exact He].
    + reflexivity.
Qed.

(* ---------- reset, every mode ---------- *)
Definition reset_allowed (w : world) (args : list bytes) (e : effect) : Prop :=
  match e with
  | ESetRef _ _ | EAppendHlog _ | EAppendBlog _ _ | ESetIndex _ | EMkdirAll _ => True
  | EWriteFile q _ => exists a es, args = [a] /\ reset_entries w a = Some es /\ In q (paths es)
  | _ => False
  end.
Definition reset_allowed_G (w : world) (args : list bytes) (_ : world) (e : effect) : Prop :=
  reset_allowed w args e.

Lemma cmd_reset_hoare_wt : forall e c soft mixed hard args w,
  hoare (fun _ => True) (reset_allowed_G w args) (eq w) (cmd_reset e c soft mixed hard args)
        (fun _ _ => True).
Proof.
  intros e c soft mixed hard args w. hinline. hsteps; try (split; exact Logic.I); try exact Logic.I.
  match goal with Ha : args = [?b0] |- _ => rename b0 into arg end.
  match goal with H : r_id _ = Some ?t |- _ =>
    assert (Ht : reset_target w arg = Some t) by (eapply reset_target_intro; eassumption) end.
  match goal with H : walk_tree _ _ _ = Some ?n |- _ =>
    assert (He : reset_entries w arg = Some (flatten [] n)) by (eapply reset_entries_intro; eassumption);
    set (es := flatten [] n) in * end.
  apply at_bind_iterM with (J := fun _ => True).
  - auto.
  - intros en w1 Hen _ _. hsteps.
    apply at_call with (P := eq w1) (R := fun _ _ => True); [| auto | auto].
    eapply hoare_conseq with (P := eq w1); [|auto|auto].
    apply hoare_weaken_G with (G := wt_G (fun q => In q (paths es))).
    { intros w0 ef _ Hg. destruct ef; try contradiction Hg; try exact Logic.I.
      exists arg, es. split; [reflexivity|]. split; [exact He | exact Hg]. }
    apply wt_put_hoare. apply in_map. exact Hen.
  - intros w1 _ _. hsteps. exact Logic.I.
Qed.

(* (I3) for reset, all modes, all argument lists, all outcomes: a file is only
   ever written at a path of the snapshot being reset to, nothing is removed *)
Theorem reset_writes_snapshot_only : forall e c soft mixed hard args w r w' tr,
  run_m (cmd_reset e c soft mixed hard args) w = (r, w', tr) ->
  w' = apply_effects tr w /\ Forall (reset_allowed w args) tr.
Proof.
  intros e c soft mixed hard args w r w' tr Hrun. unfold run_m in Hrun.
  destruct (cmd_reset e c soft mixed hard args (mkMS w [] None)) as [r0 s'] eqn:Em.
  injection Hrun as -> <- <-.
  destruct (hoare_sound _ _ _ _ _ _ w [] None r s' (cmd_reset_hoare_wt e c soft mixed hard args w)
              Logic.I eq_refl Em) as (tr0 & Ht & Hw & Hs & _).
  cbn [app] in Ht. subst tr0. split; [exact Hw|].
  apply (steps_ok_forall _ _ _ (fun w1 e0 He => He) _ _ Hs).
Qed.

(* ================================================================== *)
(** * 5. The invariant: nothing inside .goit/ is ever tracked *)

(* NEW invariant (not in Inv.v): no staged path and no path of any stored
   commit's snapshot is a [goit_path].  Its preservation needs the invariant
   [GoodW] of SnapshotFacts (snapshots read back), so the two are carried
   together, under the same [Live] proviso (no SHA-1 collision flagged, no
   object of 2^63 bytes). *)
Definition ng_entries (es : list entry) : Prop := Forall (fun e => ~ goit_path (e_path e)) es.
Definition NoGoitIdx (w : world) : Prop := ng_entries (idx_of w).
Definition NoGoitSnaps (st : store) : Prop :=
  forall id es, snapshot st id = Some es -> ng_entries es.
Definition NoGoit (w : world) : Prop := NoGoitIdx w /\ NoGoitSnaps (w_objs w).

Definition Good2 (w : world) : Prop := GoodW w /\ NoGoit w.
Definition Inv2 (w : world) : Prop := Live w -> Good2 w.
Definition G2 (w : world) (e : effect) : Prop := True.

Lemma ng_In : forall es e, ng_entries es -> In e es -> ~ goit_path (e_path e).
Proof. intros es e H. unfold ng_entries in H. rewrite Forall_forall in H. apply H. Qed.

Lemma snapshot_commit : forall st id es, snapshot st id = Some es -> exists c, get_commit st id = Some c.
Proof.
  intros st id es H. unfold snapshot in H. destruct (get_commit st id) as [c|]; [|discriminate H].
  exists c. reflexivity.
Qed.

(* writing one object: old snapshots keep their reading, the new id is checked *)
Lemma NoGoitSnaps_set : forall st id p,
  NoGoitSnaps st -> SnapshotsGood' st -> st_collides st id p = false ->
  (forall c, st_lookup st id = None -> get_commit (st_set st id p) id = Some c ->
             forall es, snapshot (st_set st id p) id = Some es -> ng_entries es) ->
  NoGoitSnaps (st_set st id p).
Proof.
  intros st id p Hng Hg Hcol Hnew id0 es Hs.
  pose proof (store_ext_set st id p Hcol) as He.
  destruct (snapshot_commit _ _ _ Hs) as [c Hc].
  destruct (bytes_eq_dec id0 id) as [->|Hne].
  - destruct (st_lookup st id) as [p0|] eqn:El.
    + assert (Hp : p0 = p).
      { unfold st_collides in Hcol. rewrite El in Hcol.
        apply negb_false_iff in Hcol. apply bytes_eqb_eq in Hcol. exact Hcol. }
      subst p0. rewrite (put_idempotent st id p El) in Hs. apply (Hng id es Hs).
    + apply (Hnew c eq_refl Hc es Hs).
  - assert (Hc0 : get_commit st id0 = Some c).
    { unfold get_commit, get_kind in Hc |- *. rewrite (get_frame_gen st id p id0 Hne) in Hc. exact Hc. }
    destruct (snap_ok_snapshot st id0 c Hc0 (Hg id0 c Hc0)) as (its & Hs0 & _).
    pose proof (snapshot_ext st _ id0 _ He Hs0) as Hs1. rewrite Hs in Hs1. injection Hs1 as ->.
    apply (Hng id0 _ Hs0).
Qed.

Lemma NoGoit_effect : forall e w,
  NoGoit w -> SnapshotsGood' (w_objs w) ->
  (forall es, e = ESetIndex es -> ng_entries es) ->
  (forall id p, e = EPutObj id p -> NoGoitSnaps (st_set (w_objs w) id p)) ->
  NoGoit (apply_effect e w).
Proof.
  intros e w [Hi Hs] Hg H1 H2. split.
  - unfold NoGoitIdx. destruct (is_setidx e) eqn:E.
    + destruct e; try discriminate E. rewrite idx_of_set. apply (H1 es). reflexivity.
    + rewrite (idx_of_not_set e w E). exact Hi.
  - destruct (is_put e) eqn:Ep.
    + destruct e; try discriminate Ep. rewrite w_objs_EPutObj. apply (H2 id payload). reflexivity.
    + rewrite w_objs_not_put by exact Ep. exact Hs.
Qed.

Lemma Good2_effect : forall e w,
  Good2 w ->
  (forall p d, e = EWriteFile p d -> valid_path p) ->
  (forall es, e = ESetIndex es -> (Canonical es /\ Forall valid_entry es) /\ ng_entries es) ->
  (forall id p, e = EPutObj id p ->
     SnapshotsGood' (st_set (w_objs w) id p) /\ NoGoitSnaps (st_set (w_objs w) id p)) ->
  (forall c, e = ESetLcfg c -> cfgst_nl c) -> (forall c, e = ESetGcfg c -> cfgst_nl c) ->
  Good2 (apply_effect e w).
Proof.
  intros e w [Hg Hn] H1 H2 H3 H4 H5. split.
  - apply GoodW_effect; try assumption.
    + intros es E. exact (proj1 (H2 es E)).
    + intros id p E. exact (proj1 (H3 id p E)).
  - apply NoGoit_effect; [exact Hn | apply Hg | |].
    + intros es E. exact (proj2 (H2 es E)).
    + intros id p E. exact (proj2 (H3 id p E)).
Qed.

Lemma inv2_effect : forall e w,
  Inv2 w -> (Live (apply_effect e w) -> Good2 w -> Good2 (apply_effect e w)) ->
  Inv2 (apply_effect e w).
Proof.
  intros e w Hi H. intro HL. apply H; [exact HL|]. apply Hi. exact (Live_effect_before e w HL).
Qed.

Lemma inv2_benign : forall e w, benign e = true -> Inv2 w -> Inv2 (apply_effect e w).
Proof.
  intros e w He Hi. apply inv2_effect; [exact Hi|]. intros _ Hg.
  apply Good2_effect; [exact Hg| | | | |]; intros; subst e; discriminate He.
Qed.

Lemma inv2_set_index : forall es w,
  Inv2 w -> (Live w -> Good2 w -> (Canonical es /\ Forall valid_entry es) /\ ng_entries es) ->
  Inv2 (apply_effect (ESetIndex es) w).
Proof.
  intros es w Hi H. apply inv2_effect; [exact Hi|]. intros HL Hg.
  apply Good2_effect; [exact Hg| | | | |]; try (intros; discriminate).
  intros es0 E. injection E as <-. apply H; [|exact Hg]. exact (Live_effect_before _ _ HL).
Qed.

Lemma inv2_write_file : forall p d w,
  Inv2 w -> (Live w -> Good2 w -> valid_path p) ->
  Inv2 (apply_effect (EWriteFile p d) w).
Proof.
  intros p d w Hi H. apply inv2_effect; [exact Hi|]. intros HL Hg.
  apply Good2_effect; [exact Hg| | | | |]; try (intros; discriminate).
  intros p0 d0 E. injection E as <- _. apply H; [|exact Hg]. exact (Live_effect_before _ _ HL).
Qed.

Lemma inv2_set_lcfg : forall c w, Inv2 w -> Inv2 (apply_effect (ESetLcfg (cfg_written c)) w).
Proof.
  intros c w Hi. apply inv2_effect; [exact Hi|]. intros _ Hg.
  apply Good2_effect; [exact Hg| | | | |]; try (intros; discriminate).
  intros c0 E. injection E as <-. apply cfg_written_nl.
Qed.

Lemma inv2_set_gcfg : forall s w, cfgst_nl s -> Inv2 w -> Inv2 (apply_effect (ESetGcfg s) w).
Proof.
  intros s w Hs Hi. apply inv2_effect; [exact Hi|]. intros _ Hg.
  apply Good2_effect; [exact Hg| | | | |]; try (intros; discriminate).
  intros c0 E. injection E as <-. exact Hs.
Qed.

Lemma inv2_put : forall k d w,
  k <> KCommit -> Inv2 w ->
  Inv2 (apply_effect (EPutObj (obj_id k d) (payload k d)) w).
Proof.
  intros k d w Hk Hi. apply inv2_effect; [exact Hi|]. intros [Hc _] Hg.
  apply Good2_effect; [exact Hg| | | | |]; try (intros; discriminate).
  intros id p E. injection E as <- <-. destruct Hg as [Hg [_ Hns]]. split.
  - apply SnapshotsGood'_set; [apply Hg | exact (put_coll_false _ _ _ Hc) |].
    intros c _ Hgc. destruct (get_commit_put _ _ _ _ Hgc) as [Hk' _]. contradiction.
  - apply NoGoitSnaps_set; [exact Hns | apply Hg | exact (put_coll_false _ _ _ Hc) |].
    intros c _ Hgc. destruct (get_commit_put _ _ _ _ Hgc) as [Hk' _]. contradiction.
Qed.

Lemma inv2_put_commit : forall d w,
  Inv2 w ->
  (Live (apply_effect (EPutObj (obj_id KCommit d) (payload KCommit d)) w) -> Good2 w ->
   forall c, parse_commit d = Some c ->
     snap_ok (st_set (w_objs w) (obj_id KCommit d) (payload KCommit d)) c /\
     forall es, snapshot (st_set (w_objs w) (obj_id KCommit d) (payload KCommit d)) (obj_id KCommit d) = Some es ->
                ng_entries es) ->
  Inv2 (apply_effect (EPutObj (obj_id KCommit d) (payload KCommit d)) w).
Proof.
  intros d w Hi H. apply inv2_effect; [exact Hi|]. intros HL Hg.
  apply Good2_effect; [exact Hg| | | | |]; try (intros; discriminate).
  intros id p E. injection E as <- <-. pose proof Hg as [Hgw [_ Hns]]. split.
  - apply SnapshotsGood'_set; [apply Hgw | exact (put_coll_false _ _ _ (proj1 HL)) |].
    intros c _ Hgc. destruct (get_commit_put _ _ _ _ Hgc) as (_ & Hp & _).
    exact (proj1 (H HL Hg c Hp)).
  - apply NoGoitSnaps_set; [exact Hns | apply Hgw | exact (put_coll_false _ _ _ (proj1 HL)) |].
    intros c _ Hgc. destruct (get_commit_put _ _ _ _ Hgc) as (_ & Hp & _).
    exact (proj2 (H HL Hg c Hp)).
Qed.

(* index updates keep [ng_entries] *)
Lemma idx_update_ng : forall es id p es',
  Canonical es -> ng_entries es -> ~ goit_path p ->
  idx_update es id p = Some es' -> ng_entries es'.
Proof.
  intros es id p es' Hc Hn Hp Hu.
  destruct (idx_update_spec es id p es' Hc Hu) as (_ & _ & _ & Hother).
  apply Forall_forall. intros e He.
  destruct (bytes_eq_dec (e_path e) p) as [Ep|Ep].
  - rewrite Ep. exact Hp.
  - apply (ng_In es); [exact Hn|]. apply (Hother e Ep). exact He.
Qed.

Lemma idx_delete_ng : forall es p es', ng_entries es -> idx_delete es p = Some es' -> ng_entries es'.
Proof.
  intros es p es' Hn Hd. unfold idx_delete in Hd.
  destruct (get_entry es p) as [[pos e0]|]; [|discriminate Hd]. injection Hd as <-.
  apply Forall_forall. intros e He. apply (ng_In es); [exact Hn|].
  exact (remove_nth_incl _ _ _ _ He).
Qed.

Ltac gsplit2 :=
  lazymatch goal with
  | |- G2 _ _ /\ Inv2 _ /\ _ => split; [exact Logic.I | split]
  | |- G2 _ _ /\ Inv2 _ => split; [exact Logic.I | ]
  end.
Ltac benign2 := gsplit2; [apply inv2_benign; [reflexivity | assumption] | ..].
Ltac call_emits2 L := apply hoare_at with (P := fun _ : world => True); [apply L | exact Logic.I].

Definition CtxOk2 (w : world) (x : ctx) : Prop := CtxOk w x /\ In ign_builtin (x_pats x).

Lemma load_ctx_spec2 : forall w, hoare Inv2 G2 (eq w) load_ctx (fun x w' => w' = w /\ CtxOk2 w x).
Proof.
  intro w. unfold load_ctx. hsteps.
  - split; [reflexivity|]. split; [unfold CtxOk; cbn [x_l x_g x_headc]; auto|].
    cbn [x_pats]. eapply ign_load_builtin; eassumption.
  - split; [reflexivity|]. split; [unfold CtxOk; cbn [x_l x_g x_headc]; auto|].
    cbn [x_pats]. eapply ign_load_builtin; eassumption.
Qed.

Lemma add_file_tail2 : forall w p a,
  am_get (w_files w) p = Some a -> ~ goit_path p ->
  hoare Inv2 G2 (eq w)
    (put_obj KBlob a;;;
     emit (ESetIndex match idx_update (idx_of w) (obj_id KBlob a) p with
                     | Some i => i
                     | None => idx_of w
                     end)) (fun _ _ => True).
Proof.
  intros w p a Hf Hp. hinline. hsteps.
  - gsplit2. apply inv2_put; [discriminate | assumption].
  - gsplit2; [|exact Logic.I]. apply inv2_set_index; [assumption|].
    intros _ ((Hwt & [Hc Hv] & _) & [Hn _]). unfold NoGoitIdx in Hn.
    rewrite idx_of_not_set in Hc, Hv, Hn by reflexivity.
    unfold WtValid in Hwt. rewrite w_files_EPutObj in Hwt.
    destruct (idx_update (idx_of w) (obj_id KBlob a) p) as [i|] eqn:Eu; [|auto].
    split.
    + apply (idx_update_good _ _ _ _ Hc Hv (sha1_length _) (Hwt p a Hf) Eu).
    + apply (idx_update_ng _ _ _ _ Hc Hn Hp Eu).
Qed.

Lemma add_file_emits2 : forall p, ~ goit_path p -> emits Inv2 G2 (add_file p).
Proof.
  intros p Hp. hinline. hsteps; try exact Logic.I; apply (add_file_tail2 w p a); assumption.
Qed.

Lemma set_index_delete2 : forall w p i,
  idx_delete (idx_of w) p = Some i -> Inv2 w -> Inv2 (apply_effect (ESetIndex i) w).
Proof.
  intros w p i Hd Hi. apply inv2_set_index; [exact Hi|].
  intros _ ((_ & [Hc Hv] & _) & [Hn _]). split.
  - apply (idx_delete_good _ _ _ Hc Hv Hd).
  - apply (idx_delete_ng _ _ _ Hn Hd).
Qed.

Lemma not_ignored_not_goit : forall w pats p,
  In ign_builtin pats -> ignored w pats p = false -> ~ goit_path p.
Proof.
  intros w pats p Hb Hig Hg. rewrite (goit_path_ignored w pats p Hb Hg) in Hig. discriminate Hig.
Qed.

Lemma cmd_add_emits2 : forall c args, In ign_builtin (x_pats c) -> emits Inv2 G2 (cmd_add c args).
Proof.
  intros c args Hb. unfold cmd_add.
  apply emits_bind_guard; intros _.
  apply emits_bind. { apply emits_bind_getw. intros w Hi. hsteps. exact Logic.I. } intros _.
  apply emits_bind; [|intros; apply emits_ret].
  apply emits_iterM. intros a _. apply emits_bind_getw. intros w Hi.
  destruct (ignored w (x_pats c) a) eqn:Hig; [hsteps; exact Logic.I|].
  destruct (wt_stat w a).
  - call_emits2 add_file_emits2. exact (not_ignored_not_goit w _ a Hb Hig).
  - apply hoare_at with (P := fun _ : world => True); [|exact Logic.I].
    apply emits_iterM. intros f _. apply emits_bind_getw. intros w' _.
    destruct (ignored w' (x_pats c) f) eqn:Hig'; [hsteps; exact Logic.I|].
    call_emits2 add_file_emits2. exact (not_ignored_not_goit w' _ f Hb Hig').
  - destruct (tracked w a).
    + hsteps. gsplit2; [|exact Logic.I]. apply (set_index_delete2 w a); assumption.
    + destruct (is_dir (idx_of w) a); [|hsteps].
      apply hoare_at with (P := fun _ : world => True); [|exact Logic.I].
      apply emits_iterM. intros q _. apply emits_bind_getw. intros w' Hi'.
      hsteps. gsplit2; [|exact Logic.I]. apply (set_index_delete2 w' q); assumption.
  - destruct (tracked w a).
    + hsteps. gsplit2; [|exact Logic.I]. apply (set_index_delete2 w a); assumption.
    + destruct (is_dir (idx_of w) a); [|hsteps].
      apply hoare_at with (P := fun _ : world => True); [|exact Logic.I].
      apply emits_iterM. intros q _. apply emits_bind_getw. intros w' Hi'.
      hsteps. gsplit2; [|exact Logic.I]. apply (set_index_delete2 w' q); assumption.
Qed.

Lemma rm_one_emits2 : forall p, emits Inv2 G2 (rm_one p).
Proof.
  intro p. hinline. hsteps; try benign2; try exact Logic.I;
    (gsplit2; [|exact Logic.I]);
    match goal with Hd : idx_delete (idx_of ?w) _ = Some _ |- _ => apply (set_index_delete2 w p); assumption end.
Qed.

Lemma cmd_rm_emits2 : forall args, emits Inv2 G2 (cmd_rm args).
Proof.
  intros args. unfold cmd_rm.
  apply emits_bind. { apply emits_bind_getw. intros w Hi. hsteps. exact Logic.I. } intros _.
  apply emits_bind; [|intros; apply emits_ret].
  apply emits_iterM. intros a _. apply emits_bind_getw. intros w Hi.
  destruct (tracked w a); [call_emits2 rm_one_emits2|].
  apply hoare_at with (P := fun _ : world => True); [|exact Logic.I].
  apply emits_iterM. intros f _. apply rm_one_emits2.
Qed.

Lemma cmd_init_emits2 : emits Inv2 G2 cmd_init.
Proof. hinline. hsteps; try benign2; exact Logic.I. Qed.

Lemma cmd_config_emits2 : forall c global args, emits Inv2 G2 (cmd_config c global args).
Proof.
  intros c global args. hinline. hsteps; try exact Logic.I; gsplit2.
  - apply inv2_set_gcfg; [|assumption]. intros c0 Hc0. cbn in Hc0. injection Hc0 as <-. constructor.
  - apply inv2_set_gcfg; [apply cfg_written_nl | assumption].
  - apply inv2_set_gcfg; [apply cfg_written_nl | assumption].
  - apply inv2_set_lcfg. assumption.
Qed.

Lemma head_update_emits2 : forall name, emits Inv2 G2 (head_update name).
Proof. intro name. hinline. hsteps; try benign2; exact Logic.I. Qed.

Lemma cmd_branch_emits2 : forall e c args lst rename delete, emits Inv2 G2 (cmd_branch e c args lst rename delete).
Proof. intros. hinline. hsteps; try benign2; try exact Logic.I. Qed.

Lemma cmd_switch_emits2 : forall e c args create, emits Inv2 G2 (cmd_switch e c args create).
Proof.
  intros. hinline. repeat (hsteps; try unfold head_update); try benign2; try exact Logic.I.
Qed.

Lemma cmd_update_ref_emits2 : forall args, emits Inv2 G2 (cmd_update_ref args).
Proof.
  intros. hinline. repeat (hsteps; try unfold head_update); try benign2; try exact Logic.I.
Qed.

Lemma head_tree_nodes_emits2 : forall c, emits Inv2 G2 (head_tree_nodes c).
Proof. intros. hinline. hsteps; exact Logic.I. Qed.

Lemma cmd_status_emits2 : forall c, emits Inv2 G2 (cmd_status c).
Proof.
  intros. unfold cmd_status. apply emits_bind_getw. intros w Hi.
  apply at_bind_emits; [apply head_tree_nodes_emits2|]. intros ns w' Hi'. hsteps. exact Logic.I.
Qed.

Lemma cmd_log_emits2 : forall c n, emits Inv2 G2 (cmd_log c n).
Proof. intros. hinline. hsteps; exact Logic.I. Qed.

Lemma cmd_reflog_emits2 : emits Inv2 G2 cmd_reflog.
Proof. hinline. hsteps; exact Logic.I. Qed.

Lemma cmd_cat_file_emits2 : forall t p args, emits Inv2 G2 (cmd_cat_file t p args).
Proof. intros. hinline. hsteps; exact Logic.I. Qed.

Lemma cmd_ls_files_emits2 : forall s, emits Inv2 G2 (cmd_ls_files s).
Proof. intros. hinline. hsteps; exact Logic.I. Qed.

Lemma cmd_hash_object_emits2 : forall args, emits Inv2 G2 (cmd_hash_object args).
Proof.
  intros. unfold cmd_hash_object. apply emits_bind_getw. intros w Hi.
  apply hoare_at with (P := fun _ : world => True); [|exact Logic.I]. clear Hi.
  induction args as [|a r IH]; [apply emits_ret|].
  destruct (wt_stat w a); try apply emits_fail.
  apply emits_bind_of_opt. intros d _. apply emits_bind; [exact IH|]. intros rest. apply emits_ret.
Qed.

Lemma cmd_rev_parse_emits2 : forall args, emits Inv2 G2 (cmd_rev_parse args).
Proof.
  intros. unfold cmd_rev_parse. apply emits_bind_getw. intros w Hi.
  apply hoare_at with (P := fun _ : world => True); [|exact Logic.I]. clear Hi.
  induction args as [|a r IH]; [apply emits_ret|].
  cbv zeta. apply emits_bind_of_opt. intros d _. apply emits_bind; [exact IH|]. intros rest. apply emits_ret.
Qed.

Lemma cmd_write_tree_emits2 : emits Inv2 G2 cmd_write_tree.
Proof.
  hinline. hsteps.
  apply at_bind_iterM with (J := fun _ => True).
  - auto.
  - intros d w' _ _ _. cbv beta. hinline. hsteps; auto.
    gsplit2. apply inv2_put; [discriminate | assumption].
  - intros w' _ _. hsteps. auto.
Qed.

Lemma wt_put_spec2 : forall (P : Prop) p data w,
  (Live w -> P) -> (Live w -> valid_path p) ->
  hoare Inv2 G2 (eq w) (wt_put p data) (fun _ w' => Live w' -> P).
Proof.
  intros P p data w HP Hv. unfold wt_put. hsteps; try benign2.
  all: gsplit2.
  all: try (apply inv2_write_file; [assumption|]; intros HL _; apply Hv).
  all: try (intro HL; apply HP).
  all: repeat (first [assumption | apply Live_effect_before in HL]).
Qed.

Lemma wt_put_emits_at2 : forall p data w,
  (Live w -> valid_path p) -> hoare Inv2 G2 (eq w) (wt_put p data) (fun _ _ => True).
Proof.
  intros p data w Hv.
  apply hoare_conseq with (P := eq w) (Q := fun (_ : unit) w' => Live w' -> True); auto.
  apply wt_put_spec2; auto.
Qed.

Lemma restore_wd_emits2 : forall p, emits Inv2 G2 (restore_wd p).
Proof.
  intro p. hinline. hsteps. apply wt_put_emits_at2.
  intro HL.
  match goal with Hi : Inv2 _ |- _ => destruct (Hi HL) as ((_ & [_ Hv] & _) & _) end.
  match goal with Hg : get_entry _ _ = Some _ |- _ => destruct (get_entry_In _ _ _ _ Hg) as [Hin Hp] end.
  rewrite <- Hp. apply (Forall_valid_In _ _ Hv Hin).
Qed.

(* what the commands know about the nodes of a snapshot they walked *)
Definition NsGood2 (ns : list node) : Prop :=
  exists its, ns = map node_of its /\ Forall wf_item its /\
              Canonical (flat_items [] its) /\ Forall valid_entry (flat_items [] its) /\
              ng_entries (flat_items [] its).

Lemma walked_NsGood2 : forall st id c d ns,
  SnapshotsGood' st -> NoGoitSnaps st -> get_commit st id = Some c ->
  get_kind st KTree (c_tree c) = Some d -> walk_tree (S (length st)) st d = Some ns ->
  NsGood2 ns.
Proof.
  intros st id c d ns Hs Hn Hc Hk Hw. destruct (Hs id c Hc) as (d' & its & Hk' & Hw' & Hwf & Hcan & Hval).
  rewrite Hk in Hk'. injection Hk' as <-. rewrite Hw in Hw'. injection Hw' as ->.
  exists its. split; [reflexivity|]. split; [exact Hwf|]. split; [exact Hcan|]. split; [exact Hval|].
  apply (Hn id). unfold snapshot. rewrite Hc, Hk, Hw, (flatten_items its Hwf). reflexivity.
Qed.

Lemma NsGood2_flatten : forall ns, NsGood2 ns ->
  (Canonical (flatten [] ns) /\ Forall valid_entry (flatten [] ns)) /\ ng_entries (flatten [] ns).
Proof.
  intros ns (its & -> & Hwf & Hc & Hv & Hn). rewrite (flatten_items its Hwf). auto.
Qed.

Lemma NsGood2_leaf : forall ns p n, NsGood2 ns -> leaf_node ns p = Some n ->
  (length (n_id n) = 20 /\ valid_path p) /\ ~ goit_path p.
Proof.
  intros ns p n (its & -> & Hwf & Hc & Hv & Hn) Hl. unfold leaf_node in Hl.
  destruct (get_node (map node_of its) p) as [n0|] eqn:Eg; [|discriminate Hl].
  destruct (is_leaf n0) eqn:El; [|discriminate Hl]. injection Hl as <-.
  pose proof (get_node_leaf_id its p n0 Hwf Eg El) as Hin.
  split; [exact (Forall_valid_In _ _ Hv Hin) | exact (ng_In _ _ Hn Hin)].
Qed.

Lemma restore_index_spec2 : forall ns p w,
  (Live w -> NsGood2 ns) ->
  hoare Inv2 G2 (eq w) (restore_index ns p) (fun _ w' => Live w' -> NsGood2 ns).
Proof.
  intros ns p w Hns. hinline. hsteps; try exact Hns.
  all: gsplit2; [|intro HL; apply Hns; exact (Live_effect_before _ _ HL)].
  - apply inv2_set_index; [assumption|]. intros HL ((_ & [Hc Hv] & _) & [Hn _]).
    match goal with Hl : leaf_node ns p = Some ?n0, Hu : idx_update _ _ _ = Some _ |- _ =>
      destruct (NsGood2_leaf ns p n0 (Hns HL) Hl) as [[Hid Hp] Hng];
      split; [apply (idx_update_good _ _ _ _ Hc Hv Hid Hp Hu) | apply (idx_update_ng _ _ _ _ Hc Hn Hng Hu)] end.
  - apply (set_index_delete2 w p); assumption.
  - apply inv2_set_index; [assumption|]. intros HL ((_ & [Hc Hv] & _) & [Hn _]).
    match goal with Hl : leaf_node ns p = Some ?n0, Hu : idx_update _ _ _ = Some _ |- _ =>
      destruct (NsGood2_leaf ns p n0 (Hns HL) Hl) as [[Hid Hp] Hng];
      split; [apply (idx_update_good _ _ _ _ Hc Hv Hid Hp Hu) | apply (idx_update_ng _ _ _ _ Hc Hn Hng Hu)] end.
Qed.

Lemma head_tree_nodes_spec2 : forall c w,
  CtxOk w c -> x_headc c <> None ->
  hoare Inv2 G2 (eq w) (head_tree_nodes c) (fun ns w' => w' = w /\ (Live w -> NsGood2 ns)).
Proof.
  intros c w (_ & _ & Hh) Hne. unfold head_tree_nodes. hsteps.
  - split; [reflexivity|]. intro HL.
    match goal with Hi : Inv2 w |- _ => destruct (Hi HL) as ((_ & _ & Hs & _) & [_ Hn]) end.
    destruct Hh as [_ Hc].
    match goal with Hk : get_kind _ _ _ = Some _, Hw : walk_tree _ _ _ = Some _ |- _ =>
      apply (walked_NsGood2 _ _ _ _ _ Hs Hn Hc Hk Hw) end.
  - contradiction.
Qed.

Lemma cmd_restore_spec2 : forall c staged args w,
  CtxOk w c -> hoare Inv2 G2 (eq w) (cmd_restore c staged args) (fun _ _ => True).
Proof.
  intros c staged args w Hctx. unfold cmd_restore. hsteps.
  - apply at_bind_call with (P := eq w) (R := fun ns w' => w' = w /\ (Live w -> NsGood2 ns)).
    + apply head_tree_nodes_spec2; [exact Hctx | congruence].
    + reflexivity.
    + intros ns w' _ [-> Hns]. hsteps.
      apply at_bind_iterM with (J := fun w' => Live w' -> NsGood2 ns).
      * intros _. exact Hns.
      * intros t w' _ _ Hj. apply at_iterM with (J := fun w' => Live w' -> NsGood2 ns).
        -- intros _. exact Hj.
        -- intros q w'' _ _ Hj'. apply restore_index_spec2. exact Hj'.
        -- auto.
      * intros w' _ _. hsteps. exact Logic.I.
  - apply at_bind_iterM with (J := fun _ => True).
    + auto.
    + intros t w' _ _ _. apply at_iterM with (J := fun _ => True); auto.
      intros q w'' _ _ _. call_emits2 restore_wd_emits2.
    + intros w' _ _. hsteps. exact Logic.I.
Qed.

Lemma cmd_reset_emits2 : forall e c soft mixed hard args, emits Inv2 G2 (cmd_reset e c soft mixed hard args).
Proof.
  intros. hinline. hsteps; try benign2; try exact Logic.I.
  - gsplit2. apply inv2_set_index; [assumption|]. intros _ ((_ & _ & Hs & _) & [_ Hn]).
    autorewrite with wfields in Hs, Hn.
    match goal with
      Hc : get_commit _ _ = Some _, Hk : get_kind _ _ _ = Some _, Hw : walk_tree _ _ _ = Some _ |- _ =>
      apply NsGood2_flatten; apply (walked_NsGood2 _ _ _ _ _ Hs Hn Hc Hk Hw) end.
  - match goal with |- hoare _ _ _ (bind (iterM _ ?es) _) _ =>
      apply at_bind_iterM with (J := fun w' => Live w' -> Forall valid_entry es) end.
    + intros Hi HL. destruct (Hi HL) as ((_ & [_ Hv] & _) & _). rewrite idx_of_set in Hv. exact Hv.
    + intros en w' Hin _ Hj. hsteps. apply wt_put_spec2; [exact Hj|].
      intro HL. apply (Forall_valid_In _ _ (Hj HL) Hin).
    + intros w' _ _. hsteps. exact Logic.I.
Qed.

(* ---------- commit ---------- *)
Lemma put_trees_spec2 : forall l w,
  hoare Inv2 G2 (eq w) (iterM (fun d => put_obj KTree d ;;; ret tt) l)
        (fun _ w' => w' = apply_effects (map put_tree_eff l) w).
Proof.
  induction l as [|d l IH]; intro w; cbn [iterM map].
  - hsteps. reflexivity.
  - unfold put_obj at 1. hsteps.
    + gsplit2. apply inv2_put; [discriminate | assumption].
    + eapply hoare_conseq; [apply IH | intros ? _ <-; reflexivity |].
      intros [] w' _ ->. reflexivity.
Qed.

Lemma do_commit_emits2 : forall e c msg w,
  CtxOk w c -> hoare Inv2 G2 (eq w) (do_commit e c msg) (fun _ _ => True).
Proof.
  intros e c msg w Hctx. unfold do_commit. hsteps.
  apply at_bind_call with (P := eq w)
    (R := fun _ w' => w' = apply_effects (map put_tree_eff (snd a ++ [fst a])) w);
    [apply put_trees_spec2 | reflexivity |].
  intros [] w1 _ ->. destruct a as [root subs]. cbn [fst snd] in *.
  repeat (hsteps; try unfold put_obj); try benign2; try exact Logic.I.
  all: fold (commit_parent w) in *; fold (commit_sign e c) in *; fold (commit_data e c msg w root) in *.
  gsplit2. apply inv2_put_commit; [assumption|]. intros HL [Hg [Hni _]] c0 Hp0.
  destruct (premises_from c w _ Hctx
              (puts_frame _ w_index w_index_EPutObj _ _)
              (puts_frame _ w_lcfg w_lcfg_EPutObj _ _)
              (puts_frame _ w_gcfg w_gcfg_EPutObj _ _) Hg) as (Hix & Hcl & Hcg).
  match goal with Hw : write_tree_top _ = Some _ |- _ =>
    destruct (do_commit_core e c msg w root subs c0 Hix Hcl Hcg Hw Hp0 HL) as [Hsn Hsnap] end.
  rewrite w_objs_EPutObj in Hsn, Hsnap.
  split; [exact Hsn|]. intros es Hes. rewrite Hsnap in Hes. injection Hes as <-.
  unfold NoGoitIdx, idx_of in Hni |- *.
  rewrite (puts_frame _ w_index w_index_EPutObj) in Hni. exact Hni.
Qed.

Lemma cmd_commit_emits2 : forall e c msg w,
  CtxOk w c -> hoare Inv2 G2 (eq w) (cmd_commit e c msg) (fun _ _ => True).
Proof.
  intros e c msg w Hctx. unfold cmd_commit. hsteps.
  - apply at_bind_call with (P := eq w) (R := fun _ _ => True);
      [apply do_commit_emits2; exact Hctx | reflexivity |].
    intros [] w' _ _. hsteps. exact Logic.I.
  - apply at_bind_call with (P := eq w) (R := fun ns w' => w' = w /\ (Live w -> NsGood2 ns)).
    + apply head_tree_nodes_spec2; [exact Hctx | congruence].
    + reflexivity.
    + intros ns w' _ [-> _]. hsteps.
      apply at_bind_call with (P := eq w) (R := fun _ _ => True);
        [apply do_commit_emits2; exact Hctx | reflexivity |].
      intros [] w' _ _. hsteps. exact Logic.I.
Qed.

Lemma run_cmd_emits2 : forall e c, emits Inv2 G2 (run_cmd e c).
Proof.
  intros e c. unfold run_cmd. apply emits_bind_getw. intros w Hi.
  destruct c; [call_emits2 cmd_init_emits2 | ..];
    (hstep;
     apply at_bind_call with (P := eq w) (R := fun x w' => w' = w /\ CtxOk2 w x);
       [apply load_ctx_spec2 | reflexivity |]; intros x w' _ [-> [Hctx Hb]]).
  - call_emits2 cmd_config_emits2.
  - call_emits2 cmd_add_emits2. exact Hb.
  - call_emits2 cmd_rm_emits2.
  - apply cmd_commit_emits2. exact Hctx.
  - call_emits2 cmd_status_emits2.
  - call_emits2 cmd_branch_emits2.
  - call_emits2 cmd_switch_emits2.
  - call_emits2 cmd_reset_emits2.
  - apply cmd_restore_spec2. exact Hctx.
  - call_emits2 cmd_update_ref_emits2.
  - call_emits2 cmd_log_emits2.
  - call_emits2 cmd_reflog_emits2.
  - call_emits2 cmd_cat_file_emits2.
  - call_emits2 cmd_hash_object_emits2.
  - call_emits2 cmd_ls_files_emits2.
  - call_emits2 cmd_rev_parse_emits2.
  - call_emits2 cmd_write_tree_emits2.
Qed.

(* ---------- histories ---------- *)
Lemma Good2_edit : forall u w, edit_ok u -> Good2 w -> Good2 (apply_edit u w).
Proof.
  intros u w Hok [Hg [Hi Hs]]. split; [apply GoodW_edit; assumption|]. split.
  - unfold NoGoitIdx, idx_of in *. rewrite w_index_apply_edit. exact Hi.
  - rewrite w_objs_apply_edit. exact Hs.
Qed.

Lemma Inv2_edit : forall u w, edit_ok u -> Inv2 w -> Inv2 (apply_edit u w).
Proof.
  intros u w Hok Hi [Hc Hs]. rewrite w_coll_apply_edit in Hc. rewrite w_objs_apply_edit in Hs.
  apply Good2_edit; [exact Hok|]. apply Hi. split; assumption.
Qed.

Theorem step_Inv2 : forall a w, action_ok a -> Inv2 w -> Inv2 (step_w a w).
Proof.
  intros [e c|u] w Hok Hi; unfold step_w; cbn [step].
  - destruct (run_m (run_cmd e c) w) as [[r w'] tr] eqn:Erun.
    destruct (emits_sound Inv2 G2 _ _ _ _ _ _ (run_cmd_emits2 e c) Hi Erun) as (Hi' & _).
    destruct r; exact Hi'.
  - cbn [fst]. apply Inv2_edit; assumption.
Qed.

Theorem run_Inv2 : forall h w, Forall action_ok h -> Inv2 w -> Inv2 (run h w).
Proof.
  induction h as [|a h IH]; intros w Hall Hi; [exact Hi|].
  inversion Hall as [|? ? Ha Hh]; subst. rewrite run_cons. apply IH; [exact Hh|].
  apply step_Inv2; assumption.
Qed.

Lemma Good2_empty : Good2 w_empty.
Proof.
  split; [exact GoodW_empty|]. split.
  - constructor.
  - intros id es H. discriminate H.
Qed.

(* one step from a good world (any world, not only reachable ones) *)
Theorem no_goit_step : forall a w,
  action_ok a -> GoodW w -> NoGoit w ->
  w_coll (step_w a w) = false -> SmallStore (w_objs (step_w a w)) -> NoGoit (step_w a w).
Proof.
  intros a w Hok Hg Hn Hc Hs.
  assert (Hi : Inv2 w) by (intros _; split; assumption).
  exact (proj2 (step_Inv2 a w Hok Hi (conj Hc Hs))).
Qed.

Theorem no_goit_run : forall h,
  Forall action_ok h ->
  w_coll (run h w_empty) = false -> SmallStore (w_objs (run h w_empty)) ->
  NoGoit (run h w_empty).
Proof.
  intros h Hall Hc Hs.
  assert (Hi : Inv2 w_empty) by (intros _; exact Good2_empty).
  exact (proj2 (run_Inv2 h w_empty Hall Hi (conj Hc Hs))).
Qed.

(* (I2, second half) no reachable world tracks a path inside .goit/, and no
   commit it stores has such a path in its snapshot *)
Theorem reachable_tracks_no_goit_path : forall w,
  Reachable w -> w_coll w = false -> SmallStore (w_objs w) ->
  (forall p, tracked w p = true -> ~ goit_path p) /\
  (forall p, In p (paths (idx_of w)) -> ~ goit_path p) /\
  (forall cid es p, snapshot (w_objs w) cid = Some es -> In p (paths es) -> ~ goit_path p).
Proof.
  intros w (h & Hall & ->) Hc Hs. destruct (no_goit_run h Hall Hc Hs) as [Hi Hsn].
  assert (Hp : forall p, In p (paths (idx_of (run h w_empty))) -> ~ goit_path p).
  { intros p Hin. apply in_map_iff in Hin. destruct Hin as [e [<- He]]. exact (ng_In _ _ Hi He). }
  split; [|split].
  - intros p Ht. destruct (tracked_In _ p Ht) as [e [He <-]]. exact (ng_In _ _ Hi He).
  - exact Hp.
  - intros cid es p Hsnap Hin. apply in_map_iff in Hin. destruct Hin as [e [<- He]].
    exact (ng_In _ _ (Hsn cid es Hsnap) He).
Qed.

(* ================================================================== *)
(** * 6. (I3) Goit's directory is never written by [restore] / [reset] *)

(* an effect that leaves every file inside .goit/ alone *)
Definition spares_goit (e : effect) : Prop :=
  match e with
  | EWriteFile q _ => ~ goit_path q
  | ERemovePath _ => False
  | _ => True
  end.

Lemma spares_goit_files : forall tr w q, Forall spares_goit tr -> goit_path q ->
  file (apply_effects tr w) q = file w q.
Proof.
  induction tr as [|e tr IH]; intros w q Hall Hq; [reflexivity|].
  inversion Hall as [|e' tr' He Htr]; subst. rewrite apply_effects_cons, (IH _ q Htr Hq).
  unfold file. destruct e; cbn [spares_goit] in He; autorewrite with wfields; try reflexivity; [|destruct He].
  apply ex_am_get_set_other. intros ->. exact (He Hq).
Qed.

Lemma reset_entries_snapshot : forall w a es, reset_entries w a = Some es ->
  exists tid, snapshot (w_objs w) tid = Some es.
Proof.
  intros w a es H. unfold reset_entries in H.
  destruct (reset_target w a) as [tid|]; [|discriminate H]. exists tid. exact H.
Qed.

(* from any world satisfying the invariant *)
Theorem restore_spares_goit : forall c st args w r w' tr,
  Canonical (idx_of w) -> NoGoit w ->
  run_m (cmd_restore c st args) w = (r, w', tr) ->
  w' = apply_effects tr w /\ Forall spares_goit tr.
Proof.
  intros c st args w r w' tr Hc [Hn _] Hrun.
  destruct (restore_writes_tracked_only c st args w r w' tr Hc Hrun) as [Hw Hall].
  split; [exact Hw|]. eapply Forall_impl; [|exact Hall].
  intros e He. destruct e; try contradiction He; try exact Logic.I.
  destruct He as [_ Hin]. apply in_map_iff in Hin. destruct Hin as [en [<- Hen]].
  exact (ng_In _ _ Hn Hen).
Qed.

Theorem reset_spares_goit : forall e c soft mixed hard args w r w' tr,
  NoGoit w ->
  run_m (cmd_reset e c soft mixed hard args) w = (r, w', tr) ->
  w' = apply_effects tr w /\ Forall spares_goit tr.
Proof.
  intros e c soft mixed hard args w r w' tr [_ Hs] Hrun.
  destruct (reset_writes_snapshot_only e c soft mixed hard args w r w' tr Hrun) as [Hw Hall].
  split; [exact Hw|]. eapply Forall_impl; [|exact Hall].
  intros e0 He. destruct e0; try contradiction He; try exact Logic.I.
  destruct He as (a & es & _ & Hes & Hin). destruct (reset_entries_snapshot w a es Hes) as [tid Hsn].
  apply in_map_iff in Hin. destruct Hin as [en [<- Hen]].
  exact (ng_In _ _ (Hs tid es Hsn) Hen).
Qed.

Lemma step_dispatch : forall e c w w' o tr,
  c <> CInit -> step (ACmd e c) w = (w', o, tr) ->
  (w' = w /\ tr = []) \/
  exists x, ctx_of w = Some x /\ exists r, run_m (dispatch e c x) w = (r, w', tr).
Proof.
  intros e c w w' o tr Hc Hstep.
  destruct (w_inited w) eqn:Hin.
  2:{ rewrite (step_not_loaded e c w Hc) in Hstep; [|left; exact Hin].
      injection Hstep as <- _ <-. left. auto. }
  destruct (ctx_of w) as [x|] eqn:Hctx.
  2:{ rewrite (step_not_loaded e c w Hc) in Hstep; [|right; exact Hctx].
      injection Hstep as <- _ <-. left. auto. }
  rewrite (step_loaded e c w x Hc Hin Hctx) in Hstep. injection Hstep as Hw' _ Htr.
  right. exists x. split; [reflexivity|]. exists (fst (dispatch e c x (mkMS w [] None))).
  rewrite run_m_eq3, Hw', Htr. reflexivity.
Qed.

(* (I3): in every reachable world (no collision flagged, no giant object), a
   `restore` (either mode) or a `reset` (any mode), whatever its arguments and
   its outcome, performs no effect on a path inside .goit/: nothing is
   removed, no file inside .goit/ is written; every file inside .goit/ is the
   same afterwards *)
Theorem goit_dir_never_overwritten : forall w, Reachable w ->
  w_coll w = false -> SmallStore (w_objs w) ->
  forall e cm, (exists st args, cm = CRestore st args) \/ (exists s m h args, cm = CReset s m h args) ->
  forall w' o tr, step (ACmd e cm) w = (w', o, tr) ->
    Forall spares_goit tr /\ forall q, goit_path q -> file w' q = file w q.
Proof.
  intros w Hr Hc Hs e cm Hcm w' o tr Hstep.
  assert (Hng : NoGoit w).
  { destruct Hr as (h & Hall & ->). apply no_goit_run; assumption. }
  assert (Hcan : Canonical (idx_of w)).
  { destruct (reachable_good w Hr Hc Hs) as (_ & [Hcan _] & _). exact Hcan. }
  assert (Hne : cm <> CInit).
  { destruct Hcm as [(st & args & ->)|(s & m & h & args & ->)]; discriminate. }
  assert (Hsp : w' = apply_effects tr w /\ Forall spares_goit tr).
  { destruct (step_dispatch e cm w w' o tr Hne Hstep) as [[-> ->]|(x & _ & r & Hrun)].
    - split; [reflexivity | constructor].
    - destruct Hcm as [(st & args & ->)|(s & m & h & args & ->)]; cbn [dispatch] in Hrun.
      + apply (restore_spares_goit x st args w r w' tr Hcan Hng Hrun).
      + apply (reset_spares_goit e x s m h args w r w' tr Hng Hrun). }
  destruct Hsp as [-> Hall]. split; [exact Hall|].
  intros q Hq. apply spares_goit_files; assumption.
Qed.

(* ================================================================== *)
(** * 7. (I2) through [step], for reachable worlds *)

Theorem status_step_never_lists_excluded : forall w, Reachable w ->
  w_coll w = false -> SmallStore (w_objs w) ->
  forall e w' out tr, step (ACmd e CStatus) w = (w', OOk out, tr) ->
    w' = w /\ tr = [] /\
    exists c, ctx_of w = Some c /\
      (forall p, In (str "untracked " ++ p) out ->
         file w p <> None /\ tracked w p = false /\ ignored w (x_pats c) p = false /\ ~ goit_path p) /\
      (forall p, In (str "modified " ++ p) out -> tracked w p = true /\ ~ goit_path p) /\
      (forall p, In (str "deleted " ++ p) out -> tracked w p = true /\ ~ goit_path p) /\
      (forall k p, In (dkind_tag k ++ p) out -> ~ goit_path p).
Proof.
  intros w Hr Hc Hs e w' out tr Hstep.
  destruct (reachable_tracks_no_goit_path w Hr Hc Hs) as (Htrk & Hidx & Hsnap).
  assert (Hcan : Canonical (idx_of w)).
  { destruct (reachable_good w Hr Hc Hs) as (_ & [Hcan _] & _). exact Hcan. }
  destruct (w_inited w) eqn:Hin.
  2:{ rewrite (step_not_loaded e CStatus w) in Hstep; [discriminate Hstep | discriminate | left; exact Hin]. }
  destruct (ctx_of w) as [c|] eqn:Hctx.
  2:{ rewrite (step_not_loaded e CStatus w) in Hstep; [discriminate Hstep | discriminate | right; exact Hctx]. }
  rewrite (step_loaded e CStatus w c) in Hstep; [|discriminate | exact Hin | exact Hctx].
  cbn [dispatch] in Hstep. injection Hstep as Hw' Ho Htr.
  assert (Hrun : run_m (cmd_status c) w = (Ok out, w', tr)).
  { rewrite run_m_eq3, Hw', Htr. destruct (fst (cmd_status c (mkMS w [] None))); try discriminate Ho.
    cbn [outcome_of] in Ho. injection Ho as ->. reflexivity. }
  destruct (status_never_lists_excluded c w (Ok out) w' tr Hrun) as (E1 & E2 & Hlines).
  split; [exact E1|]. split; [exact E2|]. exists c. split; [reflexivity|].
  destruct (Hlines out eq_refl) as (Hu & Hm & Hd & ns & Hns & Hst). split; [|split; [|split]].
  - intros p Hp. destruct (Hu p Hp) as (H1 & H2 & _ & H4 & H5).
    split; [exact H1|]. split; [exact H2|]. split; [exact H4|]. apply H5. exact (ctx_of_builtin w c Hctx).
  - intros p Hp. destruct (Hm p Hp) as [H1 _]. split; [exact H1 | apply Htrk; exact H1].
  - intros p Hp. destruct (Hd p Hp) as [_ H1]. split; [exact (H1 Hcan) | apply Htrk; exact (H1 Hcan)].
  - intros k p Hp. destruct (Hst k p Hp) as [Hq|Hq]; [apply Hidx; exact Hq|].
    unfold head_ns in Hns. pose proof (ctx_of_headc w c Hctx) as Hhc.
    destruct (x_headc c) as [[hid cm]|].
    + destruct (head_commit_some w hid cm Hhc) as [_ Hgc]. destruct Hns as (d & Hk & Hwk).
      apply (Hsnap hid (flatten [] ns) p); [|exact Hq].
      unfold snapshot. rewrite Hgc, Hk, Hwk. reflexivity.
    + subst ns. destruct Hq.
Qed.

(* ================================================================== *)
(** * 8. Non-vacuity, by computation *)

Definition c17_env : env := mkEnv 1700000000 32400.
(* a work tree with a .goitignore ("out/" and "*.log"), files it excludes at
   several depths, look-alikes it must not exclude, and a file the user put
   inside .goit/ *)
Definition c17_setup : list action :=
  [ ACmd c17_env CInit;
    ACmd c17_env (CConfig false [str "user.name"; str "Ada L"]);
    ACmd c17_env (CConfig false [str "user.email"; str "ada@example.com"]);
    AEdit (UWrite (str ".goitignore") (str "out/" ++ [c_nl] ++ str "*.log" ++ [c_nl]));
    AEdit (UWrite (str "a.txt") (str "A"));
    AEdit (UWrite (str "out/x") (str "X"));
    AEdit (UWrite (str "src/out/c") (str "C"));
    AEdit (UWrite (str "b.log") (str "L"));
    AEdit (UWrite (str "about/b") (str "B"));
    AEdit (UWrite (str "x.goit/f") (str "F"));
    AEdit (UWrite (str ".goit/hook") (str "H")) ].
Definition c17_hist : list action :=
  c17_setup ++
  [ ACmd c17_env (CAdd [str "."]);
    ACmd c17_env (CAdd [str "out/x"; str ".goit/hook"; str "b.log"]);
    ACmd c17_env (CCommit (str "first"));
    AEdit (UWrite (str "a.txt") (str "A2"));
    AEdit (UWrite (str "new") (str "N"));
    AEdit (UWrite (str "c.log") (str "L2")) ].

Definition c17_w : world := Eval vm_compute in run c17_hist w_empty.
Lemma c17_w_run : run c17_hist w_empty = c17_w.
Proof. vm_compute. reflexivity. Qed.

Example c17_hist_ok : Forall action_ok c17_hist.
Proof.
  unfold c17_hist, c17_setup. cbn [app].
  repeat (apply Forall_cons || apply Forall_nil); cbn [action_ok edit_ok]; try exact Logic.I.
  all: unfold valid_path; simpl; tf_valid.
Qed.

Example c17_reachable : Reachable c17_w /\ w_coll c17_w = false /\ SmallStore (w_objs c17_w).
Proof.
  split; [exists c17_hist; split; [exact c17_hist_ok | symmetry; exact c17_w_run]|].
  split; [vm_compute; reflexivity | apply small_store_b; vm_compute; reflexivity].
Qed.

(* `add .` then explicit `add` of excluded paths: exactly the non-excluded
   files are staged (x.goit/f and about/b are NOT excluded) *)
Example c17_staged_paths :
  paths (idx_of c17_w) = [str ".goitignore"; str "a.txt"; str "about/b"; str "x.goit/f"].
Proof. vm_compute. reflexivity. Qed.

(* `status` in that world: the modified tracked file and the one new file that
   is not excluded; c.log, b.log, out/x, src/out/c, .goit/hook are not listed *)
Example c17_status :
  snd (fst (step (ACmd c17_env CStatus) c17_w)) = OOk [str "modified a.txt"; str "untracked new"].
Proof. vm_compute. reflexivity. Qed.

(* the theorems apply to it *)
Example c17_invariant_applies :
  forall p, tracked c17_w p = true -> ~ goit_path p.
Proof.
  destruct c17_reachable as (Hr & Hc & Hs).
  exact (proj1 (reachable_tracks_no_goit_path c17_w Hr Hc Hs)).
Qed.

(* `reset --hard HEAD@{0}` and `restore .` in that world do write files
   (a.txt is restored) and spare .goit/hook *)
Definition c17_reset : action := ACmd c17_env (CReset false false true [str "HEAD@{0}"]).
Definition c17_restore : action := ACmd c17_env (CRestore false [str "."]).

Example c17_reset_effects :
  snd (step c17_reset c17_w) <> [] /\
  existsb (fun e => match e with EWriteFile q _ => bytes_eqb q (str "a.txt") | _ => false end)
          (snd (step c17_reset c17_w)) = true /\
  file (step_w c17_reset c17_w) (str "a.txt") = Some (str "A") /\
  file (step_w c17_reset c17_w) (str ".goit/hook") = Some (str "H").
Proof.
  split; [vm_compute; discriminate|]. split; [vm_compute; reflexivity|].
  split; vm_compute; reflexivity.
Qed.

Example c17_restore_effects :
  snd (fst (step c17_restore c17_w)) = OOk [] /\
  file (step_w c17_restore c17_w) (str "a.txt") = Some (str "A") /\
  file (step_w c17_restore c17_w) (str ".goit/hook") = Some (str "H").
Proof. split; [vm_compute; reflexivity|]. split; vm_compute; reflexivity. Qed.

Lemma step_eta : forall a w, step a w = (step_w a w, snd (fst (step a w)), snd (step a w)).
Proof. intros a w. unfold step_w. destruct (step a w) as [[w1 o1] t1]. reflexivity. Qed.

Example c17_never_overwritten_applies :
  Forall spares_goit (snd (step c17_reset c17_w)) /\ Forall spares_goit (snd (step c17_restore c17_w)).
Proof.
  destruct c17_reachable as (Hr & Hc & Hs). split.
  - refine (proj1 (goit_dir_never_overwritten c17_w Hr Hc Hs c17_env _
             (or_intror (ex_intro _ false (ex_intro _ false (ex_intro _ true (ex_intro _ [str "HEAD@{0}"] eq_refl)))))
             (step_w c17_reset c17_w) (snd (fst (step c17_reset c17_w))) _ _)).
    apply step_eta.
  - refine (proj1 (goit_dir_never_overwritten c17_w Hr Hc Hs c17_env _
             (or_introl (ex_intro _ false (ex_intro _ [str "."] eq_refl)))
             (step_w c17_restore c17_w) (snd (fst (step c17_restore c17_w))) _ _)).
    apply step_eta.
Qed.

(* (I1) applied: the world just before the `add .` of the history above *)
Lemma wt_consistent_b : forall w,
  forallb (fun kv => match wt_stat w (fst kv) with SFile => true | _ => false end) (w_files w) = true ->
  ex_wt_consistent w.
Proof.
  intros w H f data Hf. rewrite forallb_forall in H.
  specialize (H (f, data) (am_get_In _ _ _ _ Hf)). cbn [fst] in H.
  destruct (wt_stat w f); try discriminate H. reflexivity.
Qed.

Definition c17_ws : world := Eval vm_compute in run c17_setup w_empty.
Lemma c17_ws_run : run c17_setup w_empty = c17_ws.
Proof. vm_compute. reflexivity. Qed.
Definition c17_add_dot : action := ACmd c17_env (CAdd [str "."]).

Example c17_add_theorem_applies :
  ctx_of c17_ws <> None /\
  staged (step_w c17_add_dot c17_ws) (str "a.txt") <> None /\
  forall c, ctx_of c17_ws = Some c ->
    forall q, staged (step_w c17_add_dot c17_ws) q <> staged c17_ws q ->
              staged (step_w c17_add_dot c17_ws) q <> None ->
              ignored c17_ws (x_pats c) q = false /\ ign_match (x_pats c) q = false.
Proof.
  split; [vm_compute; discriminate|]. split; [vm_compute; discriminate|].
  assert (Hcan : Canonical (idx_of c17_ws)) by (vm_compute; apply Canonical_nil).
  assert (Hcons : ex_wt_consistent c17_ws) by (apply wt_consistent_b; vm_compute; reflexivity).
  destruct (add_step_never_stages_excluded c17_env [str "."] c17_ws _ _ _ Hcan (step_eta c17_add_dot c17_ws))
    as [_ H].
  exact (H Hcons).
Qed.

(* (I4) without a .goitignore: `add .` stages every file outside .goit/,
   including *.log and out/ *)
Definition c17_plain : list action :=
  [ ACmd c17_env CInit;
    AEdit (UWrite (str "a.txt") (str "A"));
    AEdit (UWrite (str "out/x") (str "X"));
    AEdit (UWrite (str "b.log") (str "L"));
    AEdit (UWrite (str "x.goit/f") (str "F"));
    AEdit (UWrite (str ".goit/hook") (str "H"));
    ACmd c17_env (CAdd [str "."]) ].
Example c17_plain_staged :
  paths (idx_of (run c17_plain w_empty)) = [str "a.txt"; str "b.log"; str "out/x"; str "x.goit/f"].
Proof. vm_compute. reflexivity. Qed.

(* [goit_path] has no newline clause.  The patterns are compiled with the `s`
   flag, so the `.` of the built-in pattern `\.goit/.*` matches '\n' as well:
   a file ".goit/a\nb" (which only the user can have created: none of Goit's
   own files has a newline in its name) is skipped by `add .` like everything
   else below .goit/.  Before that repair this very history staged it. *)
Definition c17_nl_path : bytes := str ".goit/a" ++ [c_nl] ++ str "b".
Definition c17_nl_hist : list action :=
  [ ACmd c17_env CInit;
    AEdit (UWrite c17_nl_path (str "Z"));
    ACmd c17_env (CAdd [str "."]) ].
Example c17_newline_no_longer_escapes :
  Forall action_ok c17_nl_hist /\
  w_coll (run c17_nl_hist w_empty) = false /\
  file (run c17_nl_hist w_empty) c17_nl_path = Some (str "Z") /\
  tracked (run c17_nl_hist w_empty) c17_nl_path = false /\
  paths (idx_of (run c17_nl_hist w_empty)) = [] /\
  ign_match [ign_builtin] c17_nl_path = true /\
  goit_path c17_nl_path.
Proof.
  split.
  - unfold c17_nl_hist. repeat (apply Forall_cons || apply Forall_nil); cbn [action_ok edit_ok]; try exact Logic.I.
    all: unfold valid_comp; vm_compute; intuition discriminate.
  - repeat (split; [vm_compute; reflexivity|]).
    exact (goit_path_top (str "a" ++ [c_nl] ++ str "b")).
Qed.

(* and the general theorem says so for that path, in any world *)
Example c17_newline_theorem_applies : forall e args w w' o tr,
  Canonical (idx_of w) -> step (ACmd e (CAdd args)) w = (w', o, tr) ->
  staged w' c17_nl_path = staged w c17_nl_path \/ staged w' c17_nl_path = None.
Proof.
  intros e args w w' o tr Hc Hstep.
  exact (proj1 (add_step_never_stages_excluded e args w w' o tr Hc Hstep) c17_nl_path
           (goit_path_top (str "a" ++ [c_nl] ++ str "b"))).
Qed.

(* F55: an empty line of .goitignore is not an entry.  With .goitignore =
   "*.log\n\n" the untracked files d/f and src/deep/h are listed by `status`
   and staged by `add .` / `add d`; d/g.log is excluded by the entry that IS
   there.  Before the repair the empty line was the empty pattern, which matched
   every directory target "d/": this very history listed only .goitignore and
   staged nothing beneath d or src (last clause: under the pattern list the
   pre-repair loader built, the directory d is ignored and d/f is not visible in
   this world). *)
Definition c17_blank_setup : list action :=
  [ ACmd c17_env CInit;
    AEdit (UWrite (str ".goitignore") (str "*.log" ++ [c_nl] ++ [c_nl]));
    AEdit (UWrite (str "d/f") (str "F"));
    AEdit (UWrite (str "d/g.log") (str "G"));
    AEdit (UWrite (str "src/deep/h") (str "H")) ].
Definition c17_blank_w : world := Eval vm_compute in run c17_blank_setup w_empty.
Lemma c17_blank_w_run : run c17_blank_setup w_empty = c17_blank_w.
Proof. vm_compute. reflexivity. Qed.

Example c17_blank_line_hides_nothing :
  Forall action_ok c17_blank_setup /\
  snd (fst (step (ACmd c17_env CStatus) c17_blank_w))
    = OOk [str "untracked .goitignore"; str "untracked d/f"; str "untracked src/deep/h"] /\
  paths (idx_of (step_w (ACmd c17_env (CAdd [str "."])) c17_blank_w))
    = [str ".goitignore"; str "d/f"; str "src/deep/h"] /\
  paths (idx_of (step_w (ACmd c17_env (CAdd [str "d"])) c17_blank_w)) = [str "d/f"] /\
  (forall c, ctx_of c17_blank_w = Some c ->
     x_pats c = [ign_builtin; RCat (RStar RAny) (RCat (RChar x2e) (lit_then (str "log") REps))] /\
     ign_match (x_pats c) (str "d/") = false /\
     ignored c17_blank_w (x_pats c) (str "d") = false /\
     visible c17_blank_w (x_pats c) (str "d/f") = true /\
     visible c17_blank_w (x_pats c) (str "d/g.log") = false) /\
  ctx_of c17_blank_w <> None /\
  (let old := [ign_builtin; RCat (RStar RAny) (RCat (RChar x2e) (lit_then (str "log") REps)); REps] in
   ignored c17_blank_w old (str "d") = true /\ visible c17_blank_w old (str "d/f") = false).
Proof.
  split.
  { unfold c17_blank_setup.
    repeat (apply Forall_cons || apply Forall_nil); cbn [action_ok edit_ok]; try exact Logic.I.
    all: unfold valid_path; simpl; tf_valid. }
  split; [vm_compute; reflexivity|]. split; [vm_compute; reflexivity|]. split; [vm_compute; reflexivity|].
  split.
  { intros c Hc.
    assert (Hp : x_pats c = [ign_builtin; RCat (RStar RAny) (RCat (RChar x2e) (lit_then (str "log") REps))]).
    { pose proof (ctx_of_pats _ _ Hc) as Hl. vm_compute in Hl. injection Hl as Hl. symmetry. exact Hl. }
    rewrite Hp. split; [reflexivity|]. repeat split; vm_compute; reflexivity. }
  split; [vm_compute; discriminate | split; vm_compute; reflexivity].
Qed.

(* ================================================================== *)
Print Assumptions c17_blank_line_hides_nothing.
Print Assumptions add_never_stages_excluded_gen.
Print Assumptions add_never_stages_excluded.
Print Assumptions add_never_stages_goit_dir.
Print Assumptions add_step_never_stages_excluded.
Print Assumptions no_ignore_file_staged.
Print Assumptions no_ignore_dir_all_staged.
Print Assumptions no_ignore_add_dot_all_staged.
Print Assumptions no_ignore_nothing_hidden.
Print Assumptions status_never_lists_excluded.
Print Assumptions restore_writes_tracked_only.
Print Assumptions reset_writes_snapshot_only.
Print Assumptions run_cmd_emits2.
Print Assumptions no_goit_step.
Print Assumptions no_goit_run.
Print Assumptions reachable_tracks_no_goit_path.
Print Assumptions restore_spares_goit.
Print Assumptions reset_spares_goit.
Print Assumptions goit_dir_never_overwritten.
Print Assumptions status_step_never_lists_excluded.
Print Assumptions cx_inconsistent_tree.
Print Assumptions c17_reachable.
Print Assumptions c17_status.
Print Assumptions c17_add_theorem_applies.
Print Assumptions c17_never_overwritten_applies.
Print Assumptions c17_newline_no_longer_escapes.
Print Assumptions c17_newline_theorem_applies.
Print Assumptions goit_path_iff_builtin.
Print Assumptions goit_path_iff_under_named.
