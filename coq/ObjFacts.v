(* ObjFacts.v — property C01: the object store is content addressed and the
   object codec is a lossless round trip. *)
From Coq Require Import Strings.Byte.
From Coq Require Import List Bool NArith ZArith Arith.
From Coq Require Import Lia ZifyBool ZifyNat ZifyN.
From Goit Require Import Bytes Sha1 Obj BytesFacts.
Import ListNotations.
Local Open Scope N_scope.

(* [sha1] is never unfolded in proofs; the only fact used is [sha1_length]
   (and, inside the satisfiability Example, evaluation by [vm_compute]). *)
Arguments sha1 : simpl never.

(* ------------------------------------------------------------------ *)
(** * 1. [sscanf_d] on decimal text *)

Lemma digit_not_blank : forall c : byte, is_digit c = true -> is_blank c = false.
Proof. intro c. destruct c; vm_compute; intro H; try reflexivity; discriminate H. Qed.

Lemma digit_not_minus : forall c : byte, is_digit c = true -> beqb c x2d = false.
Proof. intro c. destruct c; vm_compute; intro H; try reflexivity; discriminate H. Qed.

Lemma digit_not_plus : forall c : byte, is_digit c = true -> beqb c x2b = false.
Proof. intro c. destruct c; vm_compute; intro H; try reflexivity; discriminate H. Qed.

Lemma int64_max : (2 ^ 63)%N = 9223372036854775808%N.
Proof. reflexivity. Qed.

(* complete description of [sscanf_d] on the decimal text of a natural *)
Lemma sscanf_d_dec_full : forall n : N,
  sscanf_d (dec n) =
  if Z.leb (Z.of_N n) 9223372036854775807 then Some (Z.of_N n) else None.
Proof.
  intro n. destruct (dec_head_digit n) as [c [r [Hd Hc]]].
  pose proof (span_digits_dec_nil n) as Hspan.
  pose proof (digits_val_dec n) as Hval.
  unfold sscanf_d. rewrite Hd in *. cbn [skip_blanks].
  rewrite (digit_not_blank c Hc), (digit_not_minus c Hc), (digit_not_plus c Hc).
  rewrite Hspan, Hval. reflexivity.
Qed.

Lemma sscanf_d_dec_le : forall n : N,
  (Z.of_N n <= 9223372036854775807)%Z -> sscanf_d (dec n) = Some (Z.of_N n).
Proof.
  intros n Hn. rewrite sscanf_d_dec_full.
  destruct (Z.leb (Z.of_N n) 9223372036854775807) eqn:E; [reflexivity | lia].
Qed.

Lemma sscanf_d_dec : forall n : N, n < 2 ^ 63 -> sscanf_d (dec n) = Some (Z.of_N n).
Proof.
  intros n Hn. rewrite int64_max in Hn. apply sscanf_d_dec_le. lia.
Qed.

(* the bound is necessary *)
Lemma sscanf_d_dec_big : forall n : N, 2 ^ 63 <= n -> sscanf_d (dec n) = None.
Proof.
  intros n Hn. rewrite int64_max in Hn. rewrite sscanf_d_dec_full.
  destruct (Z.leb (Z.of_N n) 9223372036854775807) eqn:E; [lia | reflexivity].
Qed.

Lemma sscanf_d_dec_len : forall d : bytes,
  lenN d < 2 ^ 63 -> sscanf_d (dec (lenN d)) = Some (Z.of_nat (length d)).
Proof.
  intros d Hd. rewrite (sscanf_d_dec _ Hd). unfold lenN.
  rewrite nat_N_Z. reflexivity.
Qed.

(* ------------------------------------------------------------------ *)
(** * 2. Kind names *)

Lemma kind_of_s_kind_s : forall k : kind, kind_of_s (kind_s k) = Some k.
Proof. intro k. destruct k; vm_compute; reflexivity. Qed.

Lemma kind_s_no_sp : forall k : kind, ~ In c_sp (kind_s k).
Proof.
  intros k Hin. destruct k; cbn [kind_s In] in Hin;
    repeat (destruct Hin as [Hin | Hin]; [discriminate Hin|]); exact Hin.
Qed.

Lemma kind_s_no_nul : forall k : kind, ~ In c_nul (kind_s k).
Proof.
  intros k Hin. destruct k; cbn [kind_s In] in Hin;
    repeat (destruct Hin as [Hin | Hin]; [discriminate Hin|]); exact Hin.
Qed.

Lemma kind_s_inj : forall a b : kind, kind_s a = kind_s b -> a = b.
Proof.
  intros a b Hab. pose proof (kind_of_s_kind_s a) as Ha.
  rewrite Hab, kind_of_s_kind_s in Ha. injection Ha as Ha. symmetry. exact Ha.
Qed.

Lemma kind_eqb_eq : forall a b : kind, kind_eqb a b = true <-> a = b.
Proof.
  intros a b. destruct a; destruct b; cbn [kind_eqb]; split; intro H;
    try reflexivity; discriminate H.
Qed.

(* ------------------------------------------------------------------ *)
(** * 3. Payload round trip *)

Lemma header_split : forall k n d,
  header k n ++ d = (kind_s k ++ c_sp :: dec n) ++ c_nul :: d.
Proof.
  intros k n d. unfold header. rewrite <- !app_assoc. reflexivity.
Qed.

Lemma header_no_nul : forall k n, ~ In c_nul (kind_s k ++ c_sp :: dec n).
Proof.
  intros k n Hin. apply in_app_or in Hin. destruct Hin as [Hk | [Hsp | Hdec]].
  - exact (kind_s_no_nul k Hk).
  - discriminate Hsp.
  - exact (dec_no_byte n c_nul eq_refl Hdec).
Qed.

Lemma parse_payload_header : forall k n d,
  parse_payload (header k n ++ d) =
  match sscanf_d (dec n) with
  | Some z => if Z.eqb z (Z.of_nat (length d)) then Some (k, d) else None
  | None => None
  end.
Proof.
  intros k n d. unfold parse_payload.
  rewrite header_split.
  rewrite (split1_app_sep c_nul _ d (header_no_nul k n)).
  rewrite (split1_app_sep c_sp _ (dec n) (kind_s_no_sp k)).
  rewrite kind_of_s_kind_s. reflexivity.
Qed.

Lemma payload_roundtrip : forall k d,
  lenN d < 2 ^ 63 -> parse_payload (payload k d) = Some (k, d).
Proof.
  intros k d Hd. unfold payload. rewrite parse_payload_header.
  rewrite (sscanf_d_dec_len d Hd), Z.eqb_refl. reflexivity.
Qed.

(* the bound is necessary: an object of 2^63 bytes or more is not readable *)
Lemma payload_too_big : forall k d,
  2 ^ 63 <= lenN d -> parse_payload (payload k d) = None.
Proof.
  intros k d Hd. unfold payload. rewrite parse_payload_header.
  rewrite (sscanf_d_dec_big _ Hd). reflexivity.
Qed.

(* decoding is injective on what it accepts from [payload] *)
Lemma payload_inj : forall k d k' d',
  lenN d < 2 ^ 63 -> payload k d = payload k' d' -> k = k' /\ d = d'.
Proof.
  intros k d k' d' Hd Heq.
  assert (Hd' : lenN d' < 2 ^ 63).
  { destruct (N.ltb (lenN d') (2 ^ 63)) eqn:E.
    - apply N.ltb_lt. exact E.
    - apply N.ltb_ge in E. pose proof (payload_too_big k' d' E) as Hnone.
      rewrite <- Heq, (payload_roundtrip k d Hd) in Hnone. discriminate Hnone. }
  pose proof (payload_roundtrip k d Hd) as H1.
  rewrite Heq, (payload_roundtrip k' d' Hd') in H1.
  injection H1 as Hk Hdd. split; symmetry; assumption.
Qed.

(* ------------------------------------------------------------------ *)
(** * 4. The store *)

Lemma st_lookup_cons : forall k v r id,
  st_lookup ((k, v) :: r) id = if bytes_eqb k id then Some v else st_lookup r id.
Proof. reflexivity. Qed.

Lemma st_set_cons : forall k v0 r id v,
  st_set ((k, v0) :: r) id v =
  if bytes_eqb k id then (k, v) :: r else (k, v0) :: st_set r id v.
Proof. reflexivity. Qed.

Lemma st_lookup_set_same : forall st id v, st_lookup (st_set st id v) id = Some v.
Proof.
  intros st id v. induction st as [|[k v0] r IH].
  - cbn [st_set]. rewrite st_lookup_cons, bytes_eqb_refl. reflexivity.
  - rewrite st_set_cons. destruct (bytes_eqb k id) eqn:E.
    + rewrite st_lookup_cons, E. reflexivity.
    + rewrite st_lookup_cons, E. exact IH.
Qed.

Lemma st_lookup_set_other : forall st id v id',
  id' <> id -> st_lookup (st_set st id v) id' = st_lookup st id'.
Proof.
  intros st id v id' Hne. induction st as [|[k v0] r IH].
  - cbn [st_set]. rewrite st_lookup_cons.
    assert (E : bytes_eqb id id' = false).
    { apply bytes_eqb_neq. intro H. apply Hne. symmetry. exact H. }
    rewrite E. reflexivity.
  - rewrite st_set_cons. destruct (bytes_eqb k id) eqn:E.
    + apply bytes_eqb_eq in E. subst k. rewrite !st_lookup_cons.
      assert (E' : bytes_eqb id id' = false).
      { apply bytes_eqb_neq. intro H. apply Hne. symmetry. exact H. }
      rewrite E'. reflexivity.
    + rewrite !st_lookup_cons. rewrite IH. reflexivity.
Qed.

Lemma put_idempotent : forall st id v,
  st_lookup st id = Some v -> st_set st id v = st.
Proof.
  intros st id v. induction st as [|[k v0] r IH]; intro Hl.
  - discriminate Hl.
  - rewrite st_lookup_cons in Hl. rewrite st_set_cons.
    destruct (bytes_eqb k id) eqn:E.
    + injection Hl as Hv. subst v0. reflexivity.
    + rewrite (IH Hl). reflexivity.
Qed.

Lemma st_set_set : forall st id v, st_set (st_set st id v) id v = st_set st id v.
Proof.
  intros st id v. apply put_idempotent. apply st_lookup_set_same.
Qed.

Lemma st_collides_false_set : forall st id v,
  st_lookup st id = Some v -> st_collides st id v = false.
Proof.
  intros st id v Hl. unfold st_collides. rewrite Hl, bytes_eqb_refl. reflexivity.
Qed.

(* ------------------------------------------------------------------ *)
(** * 5./6. [get_obj] *)

Lemma get_obj_integrity : forall st id k d,
  get_obj st id = Some (k, d) ->
  exists p, st_lookup st id = Some p /\ sha1 p = id /\ parse_payload p = Some (k, d).
Proof.
  intros st id k d Hg. unfold get_obj in Hg.
  destruct (st_lookup st id) as [p|] eqn:El; [|discriminate Hg].
  destruct (parse_payload p) as [kd|] eqn:Ep; [|discriminate Hg].
  destruct (bytes_eqb (sha1 p) id) eqn:Es; [|discriminate Hg].
  apply bytes_eqb_eq in Es. injection Hg as Hkd. subst kd.
  exists p. split; [reflexivity|]. split; [exact Es | exact Ep].
Qed.

Lemma get_obj_intro : forall st id p kd,
  st_lookup st id = Some p -> sha1 p = id -> parse_payload p = Some kd ->
  get_obj st id = Some kd.
Proof.
  intros st id p kd Hl Hs Hp. unfold get_obj.
  rewrite Hl, Hp, Hs, bytes_eqb_refl. reflexivity.
Qed.

Lemma get_obj_id_length : forall st id kd, get_obj st id = Some kd -> length id = 20%nat.
Proof.
  intros st id [k d] Hg. destruct (get_obj_integrity st id k d Hg) as [p [_ [Hs _]]].
  rewrite <- Hs. apply sha1_length.
Qed.

Lemma get_put : forall st k d,
  lenN d < 2 ^ 63 ->
  get_obj (st_set st (obj_id k d) (payload k d)) (obj_id k d) = Some (k, d).
Proof.
  intros st k d Hd. apply (get_obj_intro _ _ (payload k d)).
  - apply st_lookup_set_same.
  - reflexivity.
  - apply payload_roundtrip. exact Hd.
Qed.

Lemma get_frame_gen : forall st id0 v id,
  id <> id0 -> get_obj (st_set st id0 v) id = get_obj st id.
Proof.
  intros st id0 v id Hne. unfold get_obj.
  rewrite (st_lookup_set_other st id0 v id Hne). reflexivity.
Qed.

Lemma get_frame : forall st k d id,
  id <> obj_id k d ->
  get_obj (st_set st (obj_id k d) (payload k d)) id = get_obj st id.
Proof.
  intros st k d id Hne. apply get_frame_gen. exact Hne.
Qed.

(* storing again an object that is already there changes nothing *)
Lemma put_again : forall st k d,
  st_lookup st (obj_id k d) = Some (payload k d) ->
  st_set st (obj_id k d) (payload k d) = st.
Proof. intros st k d Hl. apply put_idempotent. exact Hl. Qed.

Lemma put_twice_get : forall st k d id,
  get_obj (st_set (st_set st (obj_id k d) (payload k d)) (obj_id k d) (payload k d)) id
  = get_obj (st_set st (obj_id k d) (payload k d)) id.
Proof. intros st k d id. rewrite st_set_set. reflexivity. Qed.

(* ------------------------------------------------------------------ *)
(** * 7. Histories of writes *)

Definition put_all (st : store) (l : list (kind * bytes)) : store :=
  fold_left (fun s kd => st_set s (obj_id (fst kd) (snd kd)) (payload (fst kd) (snd kd))) l st.

(* the files that the store holds under their own SHA-1 *)
Definition stored (st : store) (p : bytes) : Prop := st_lookup st (sha1 p) = Some p.
(* the files that the history writes *)
Definition added (l : list (kind * bytes)) (p : bytes) : Prop :=
  exists k d, In (k, d) l /\ p = payload k d.

(* SHA-1 does not collide on the files in play: those properly stored already
   and those about to be written.  Nothing is assumed about other inputs. *)
Definition no_collision (st : store) (l : list (kind * bytes)) : Prop :=
  forall p q, (stored st p \/ added l p) -> (stored st q \/ added l q) ->
              sha1 p = sha1 q -> p = q.

Lemma put_all_cons : forall st k d l,
  put_all st ((k, d) :: l) = put_all (st_set st (obj_id k d) (payload k d)) l.
Proof. reflexivity. Qed.

Lemma put_all_nil : forall st, put_all st [] = st.
Proof. reflexivity. Qed.

Lemma put_all_app : forall st l1 l2, put_all st (l1 ++ l2) = put_all (put_all st l1) l2.
Proof. intros st l1 l2. unfold put_all. apply fold_left_app. Qed.

Lemma added_cons : forall k d l p, added l p -> added ((k, d) :: l) p.
Proof.
  intros k d l p [k' [d' [Hin Hp]]]. exists k', d'. split; [right; exact Hin | exact Hp].
Qed.

Lemma added_head : forall k d l, added ((k, d) :: l) (payload k d).
Proof. intros k d l. exists k, d. split; [left; reflexivity | reflexivity]. Qed.

Lemma cand_step : forall st k d l p,
  stored (st_set st (obj_id k d) (payload k d)) p \/ added l p ->
  stored st p \/ added ((k, d) :: l) p.
Proof.
  intros st k d l p [Hs | Ha].
  - unfold stored in Hs. destruct (bytes_eq_dec (sha1 p) (obj_id k d)) as [He | Hne].
    + rewrite He, st_lookup_set_same in Hs. injection Hs as Hp. subst p.
      right. apply added_head.
    + rewrite (st_lookup_set_other _ _ _ _ Hne) in Hs. left. exact Hs.
  - right. apply added_cons. exact Ha.
Qed.

Lemma no_collision_step : forall st k d l,
  no_collision st ((k, d) :: l) ->
  no_collision (st_set st (obj_id k d) (payload k d)) l.
Proof.
  intros st k d l Hnc p q Hp Hq Hpq.
  apply (Hnc p q (cand_step st k d l p Hp) (cand_step st k d l q Hq) Hpq).
Qed.

(* one write leaves every retrievable object retrievable and unchanged *)
Lemma put_preserves : forall st k d l id kd,
  no_collision st ((k, d) :: l) ->
  get_obj st id = Some kd ->
  get_obj (st_set st (obj_id k d) (payload k d)) id = Some kd.
Proof.
  intros st k d l id [k0 d0] Hnc Hg.
  destruct (bytes_eq_dec id (obj_id k d)) as [He | Hne].
  - destruct (get_obj_integrity st id k0 d0 Hg) as [p [Hl [Hs Hp]]].
    assert (Hpp : p = payload k d).
    { apply Hnc.
      - left. unfold stored. rewrite Hs. exact Hl.
      - right. apply added_head.
      - rewrite Hs, He. reflexivity. }
    subst p. rewrite <- He. rewrite (put_idempotent st id _ Hl). exact Hg.
  - rewrite (get_frame st k d id Hne). exact Hg.
Qed.

Theorem history_preserves : forall st l,
  no_collision st l ->
  forall id kd, get_obj st id = Some kd -> get_obj (put_all st l) id = Some kd.
Proof.
  intros st l. revert st. induction l as [|[k d] l' IH]; intros st Hnc id kd Hg.
  - exact Hg.
  - rewrite put_all_cons. apply IH.
    + apply no_collision_step. exact Hnc.
    + apply (put_preserves st k d l' id kd Hnc Hg).
Qed.

Theorem history_retrievable : forall st l,
  no_collision st l ->
  Forall (fun kd => lenN (snd kd) < 2 ^ 63) l ->
  forall k d, In (k, d) l -> get_obj (put_all st l) (obj_id k d) = Some (k, d).
Proof.
  intros st l. revert st. induction l as [|[k0 d0] l' IH]; intros st Hnc Hsz k d Hin.
  - destruct Hin.
  - rewrite put_all_cons.
    pose proof (no_collision_step st k0 d0 l' Hnc) as Hnc'.
    inversion Hsz as [|x xs Hsz0 Hsz' Hx]. subst x xs. cbn [snd] in Hsz0.
    destruct Hin as [Heq | Hin'].
    + injection Heq as Hk Hd. subst k0 d0.
      apply (history_preserves _ l' Hnc').
      apply get_put. exact Hsz0.
    + apply (IH _ Hnc' Hsz' k d Hin').
Qed.

(* Satisfiability of the hypotheses: a store that already holds the blob "hi",
   and a history writing the blob "a" and the commit "b". *)
Definition ex_st : store := put_all [] [(KBlob, [x68; x69])].
Definition ex_l : list (kind * bytes) := [(KBlob, [x61]); (KCommit, [x62])].

Lemma stored_singleton : forall i v p, stored [(i, v)] p -> p = v.
Proof.
  intros i v p Hs. unfold stored in Hs. rewrite st_lookup_cons in Hs.
  destruct (bytes_eqb i (sha1 p)) eqn:E.
  - injection Hs as Hv. symmetry. exact Hv.
  - discriminate Hs.
Qed.

Lemma ex_cand : forall p,
  stored ex_st p \/ added ex_l p ->
  p = payload KBlob [x68; x69] \/ p = payload KBlob [x61] \/ p = payload KCommit [x62].
Proof.
  intros p [Hs | [k [d [Hin Hp]]]].
  - left. apply (stored_singleton (obj_id KBlob [x68; x69])). exact Hs.
  - right. destruct Hin as [Hin | [Hin | []]]; injection Hin as Hk Hd; subst k d.
    + left. exact Hp.
    + right. exact Hp.
Qed.

Example hypotheses_satisfiable :
  no_collision ex_st ex_l /\ Forall (fun kd => lenN (snd kd) < 2 ^ 63) ex_l.
Proof.
  split.
  - intros p q Hp Hq Hpq.
    destruct (ex_cand p Hp) as [Ep | [Ep | Ep]];
    destruct (ex_cand q Hq) as [Eq | [Eq | Eq]];
    subst p q; try reflexivity;
    exfalso; vm_compute in Hpq; discriminate Hpq.
  - repeat constructor.
Qed.

Example ex_retrievable :
  get_obj (put_all ex_st ex_l) (obj_id KCommit [x62]) = Some (KCommit, [x62]) /\
  get_obj (put_all ex_st ex_l) (obj_id KBlob [x68; x69]) = Some (KBlob, [x68; x69]).
Proof.
  destruct hypotheses_satisfiable as [Hnc Hsz]. split.
  - apply (history_retrievable ex_st ex_l Hnc Hsz). right. left. reflexivity.
  - apply (history_preserves ex_st ex_l Hnc). apply get_put. vm_compute. reflexivity.
Qed.

(* Remark: [parse_payload] accepts non-canonical headers (here "blob 03"), so
   [get_obj st id = Some (k, d)] does not imply [id = obj_id k d]; it implies
   only what [get_obj_integrity] says. *)
Example parse_payload_noncanonical :
  let p := [x62; x6c; x6f; x62; x20; x30; x33; x00; x61; x62; x63] in
  parse_payload p = Some (KBlob, [x61; x62; x63]) /\ p <> payload KBlob [x61; x62; x63].
Proof.
  split.
  - vm_compute. reflexivity.
  - vm_compute. intro H. discriminate H.
Qed.

(* ------------------------------------------------------------------ *)
(** * 8. [read_hash] *)

Lemma has_hex_run_all : forall s need cur,
  forallb is_lower_hex s = true ->
  (cur < need)%nat -> (need <= cur + length s)%nat ->
  has_hex_run need cur s = true.
Proof.
  intro s. induction s as [|c r IH]; intros need cur Hall Hlt Hle.
  - cbn [length] in Hle. lia.
  - cbn [forallb] in Hall. apply andb_true_iff in Hall. destruct Hall as [Hc Hr].
    cbn [has_hex_run]. rewrite Hc.
    destruct (Nat.eqb (S cur) need) eqn:E.
    + reflexivity.
    + apply IH.
      * exact Hr.
      * apply Nat.eqb_neq in E. lia.
      * cbn [length] in Hle. lia.
Qed.

Lemma read_hash_hex : forall id : bytes, length id = 20%nat -> read_hash (hex id) = Some id.
Proof.
  intros id Hlen. unfold read_hash.
  rewrite (has_hex_run_all (hex id) 40 0 (hex_lower id)).
  - apply unhex_hex.
  - lia.
  - rewrite hex_length, Hlen. cbn [Nat.mul Nat.add]. lia.
Qed.

Lemma read_hash_obj_id : forall k d, read_hash (hex (obj_id k d)) = Some (obj_id k d).
Proof. intros k d. apply read_hash_hex. apply sha1_length. Qed.

(* ------------------------------------------------------------------ *)

Print Assumptions sscanf_d_dec.
Print Assumptions sscanf_d_dec_len.
Print Assumptions kind_of_s_kind_s.
Print Assumptions payload_roundtrip.
Print Assumptions st_lookup_set_same.
Print Assumptions st_lookup_set_other.
Print Assumptions get_put.
Print Assumptions get_frame.
Print Assumptions put_idempotent.
Print Assumptions get_obj_integrity.
Print Assumptions history_retrievable.
Print Assumptions history_preserves.
Print Assumptions hypotheses_satisfiable.
Print Assumptions ex_retrievable.
Print Assumptions read_hash_hex.
