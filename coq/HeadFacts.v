(* HeadFacts.v — the current branch name and every branch name of a reachable
   repository are names Goit accepts ([valid_branch_name]).

   1. [NamesValid]: the invariant; which single effects keep it
      ([names_safe]); every sub-command only emits such effects (also when a
      write fails in the middle of it);
   2. [reachable_names_valid], [reachable_head_valid];
   3. applications: theorems of GateFacts / CommitCmdFacts restated without
      their hypothesis on the name HEAD holds;
   4. non-vacuity. *)
From Coq Require Import Strings.String Strings.Byte.
From Coq Require Import List Bool NArith ZArith Arith Lia ZifyBool ZifyNat ZifyN.
From Goit Require Import Bytes Sha1 Obj Tree Index Regex GoRegex Commit Reflog Config Ignore World Repo.
From Goit Require Import BytesFacts ObjFacts RegexFacts MonadFacts BranchFacts Inv.
From Goit Require Refs CommitFacts CommitCmdFacts GateFacts.
Import ListNotations.

Arguments sha1 : simpl never.

(* ================================================================== *)
(** * 1. The invariant *)

Definition NamesValid (w : world) : Prop :=
  (w_inited w = true -> valid_branch_name (w_head w) = true) /\
  Forall (fun kv => valid_branch_name (fst kv) = true) (w_refs w).

(* the equivalent reading through lookups *)
Lemma Forall_names_get : forall (m : amap bytes) n id,
  Forall (fun kv => valid_branch_name (fst kv) = true) m ->
  am_get m n = Some id -> valid_branch_name n = true.
Proof.
  intros m n id Hf Hg. apply am_get_in in Hg.
  rewrite Forall_forall in Hf. exact (Hf (n, id) Hg).
Qed.

Lemma Forall_names_mem : forall (m : amap bytes) n,
  Forall (fun kv => valid_branch_name (fst kv) = true) m ->
  am_mem m n = true -> valid_branch_name n = true.
Proof.
  intros m n Hf Hm. apply am_mem_get in Hm. destruct Hm as [id Hg].
  exact (Forall_names_get m n id Hf Hg).
Qed.

Lemma NamesValid_get : forall w n id,
  NamesValid w -> am_get (w_refs w) n = Some id -> valid_branch_name n = true.
Proof. intros w n id [_ Hf] Hg. exact (Forall_names_get _ n id Hf Hg). Qed.

Lemma NamesValid_mem : forall w n,
  NamesValid w -> am_mem (w_refs w) n = true -> valid_branch_name n = true.
Proof. intros w n [_ Hf] Hm. exact (Forall_names_mem _ n Hf Hm). Qed.

Lemma valid_main : valid_branch_name (str "main"%string) = true.
Proof. vm_compute. reflexivity. Qed.

(* which single effects keep [NamesValid] *)
Definition names_safe (w : world) (e : effect) : Prop :=
  match e with
  | ESetRef n _ => valid_branch_name n = true
  | ERenameRef _ n => valid_branch_name n = true
  | ESetHead n => valid_branch_name n = true
  | _ => True
  end.

Definition names_static (e : effect) : Prop :=
  match e with
  | ESetRef _ _ | ERenameRef _ _ | ESetHead _ => False
  | _ => True
  end.

Lemma names_static_safe : forall w e, names_static e -> names_safe w e.
Proof. intros w e H. destruct e; try exact Logic.I; contradiction H. Qed.

Lemma NamesValid_safe : forall e w, NamesValid w -> names_safe w e -> NamesValid (apply_effect e w).
Proof.
  intros e w [Hh Hf] Hg. unfold NamesValid.
  destruct e; autorewrite with wfields; cbn [names_safe] in Hg; try (split; assumption).
  - (* EInit *) split; [intros _; exact valid_main | exact Hf].
  - (* ESetRef *) split; [exact Hh|]. apply Forall_am_set; [exact Hf | exact Hg].
  - (* EDelRef *) split; [exact Hh|]. apply Forall_am_del. exact Hf.
  - (* ERenameRef *) split; [exact Hh|].
    destruct (am_get (w_refs w) old) as [i|]; [|exact Hf].
    apply Forall_am_set; [apply Forall_am_del; exact Hf | exact Hg].
  - (* ESetHead *) split; [intros _; exact Hg | exact Hf].
Qed.

Lemma nv_pair : forall e w, NamesValid w -> names_safe w e -> names_safe w e /\ NamesValid (apply_effect e w).
Proof. intros e w Hi Hg. split; [exact Hg | apply NamesValid_safe; assumption]. Qed.

Lemma emit_static_nv : forall e, names_static e -> emits NamesValid names_safe (emit e).
Proof.
  intros e He. apply emits_emit. intros w Hi. apply nv_pair; [exact Hi | apply names_static_safe; exact He].
Qed.

Lemma NamesValid_edit : forall u w, NamesValid w -> NamesValid (apply_edit u w).
Proof.
  intros u w Hi. unfold NamesValid.
  rewrite w_inited_apply_edit, w_head_apply_edit, w_refs_apply_edit. exact Hi.
Qed.

Lemma NamesValid_empty : NamesValid w_empty.
Proof. split; [intro H; discriminate H | constructor]. Qed.

(* ------------------------------------------------------------------ *)
(** ** every sub-command only emits [names_safe] effects *)

Create HintDb nvlaws discriminated.

Ltac nstep :=
  first
  [ assumption
  | lazymatch goal with
    | |- emits _ _ (bind _ _) => apply emits_bind; [ | intro ]
    | |- emits _ _ (ret _) => apply emits_ret
    | |- emits _ _ fail => apply emits_fail
    | |- emits _ _ getw => apply emits_getw
    | |- emits _ _ (emit _) => apply emit_static_nv; exact Logic.I
    | |- emits _ _ (of_opt _) => apply emits_of_opt
    | |- emits _ _ (guard _) => apply emits_guard
    | |- emits _ _ (iterM _ _) => apply emits_iterM; intros ? _
    | |- emits _ _ (let _ := _ in _) => cbv zeta
    | |- emits _ _ (match ?x with _ => _ end) => destruct x; cbv beta iota
    | |- emits _ _ ((fix f (l : list _) {struct l} : M _ := _) ?args) =>
        induction args; cbv beta iota
    end
  | solve [ auto with nvlaws nocore ] ].
Ltac nsteps := repeat nstep.

Local Notation nv m := (emits NamesValid names_safe m).

Lemma put_obj_nv : forall k d, nv (put_obj k d).
Proof. intros k d. unfold put_obj. nsteps. Qed.
#[export] Hint Resolve put_obj_nv : nvlaws.
Lemma wt_put_nv : forall p data, nv (wt_put p data).
Proof. intros p data. unfold wt_put. nsteps. Qed.
#[export] Hint Resolve wt_put_nv : nvlaws.
Lemma head_tree_nodes_nv : forall c, nv (head_tree_nodes c).
Proof. intros c. unfold head_tree_nodes. nsteps. Qed.
#[export] Hint Resolve head_tree_nodes_nv : nvlaws.
Lemma load_ctx_nv : nv load_ctx.
Proof. unfold load_ctx. nsteps. Qed.
#[export] Hint Resolve load_ctx_nv : nvlaws.
Lemma cmd_init_nv : nv cmd_init.
Proof. unfold cmd_init. nsteps. Qed.
Lemma cmd_config_nv : forall c g args, nv (cmd_config c g args).
Proof. intros c g args. unfold cmd_config. nsteps. Qed.
Lemma add_file_nv : forall p, nv (add_file p).
Proof. intros p. unfold add_file. nsteps. Qed.
#[export] Hint Resolve add_file_nv : nvlaws.
Lemma cmd_add_nv : forall c args, nv (cmd_add c args).
Proof. intros c args. unfold cmd_add. nsteps. Qed.
Lemma rm_one_nv : forall p, nv (rm_one p).
Proof. intros p. unfold rm_one. nsteps. Qed.
#[export] Hint Resolve rm_one_nv : nvlaws.
Lemma cmd_rm_nv : forall args, nv (cmd_rm args).
Proof. intros args. unfold cmd_rm. nsteps. Qed.
Lemma cmd_status_nv : forall c, nv (cmd_status c).
Proof. intros c. unfold cmd_status. nsteps. Qed.
Lemma restore_wd_nv : forall p, nv (restore_wd p).
Proof. intros p. unfold restore_wd. nsteps. Qed.
#[export] Hint Resolve restore_wd_nv : nvlaws.
Lemma restore_index_nv : forall ns p, nv (restore_index ns p).
Proof. intros ns p. unfold restore_index. nsteps. Qed.
#[export] Hint Resolve restore_index_nv : nvlaws.
Lemma cmd_restore_nv : forall c st args, nv (cmd_restore c st args).
Proof. intros c st args. unfold cmd_restore. nsteps. Qed.
Lemma cmd_log_nv : forall c n, nv (cmd_log c n).
Proof. intros c n. unfold cmd_log. nsteps. Qed.
Lemma cmd_reflog_nv : nv cmd_reflog.
Proof. unfold cmd_reflog. nsteps. Qed.
Lemma cmd_cat_file_nv : forall t p args, nv (cmd_cat_file t p args).
Proof. intros t p args. unfold cmd_cat_file. nsteps. Qed.
Lemma cmd_hash_object_nv : forall args, nv (cmd_hash_object args).
Proof. intros args. unfold cmd_hash_object. nsteps. Qed.
Lemma cmd_ls_files_nv : forall s, nv (cmd_ls_files s).
Proof. intros s. unfold cmd_ls_files. nsteps. Qed.
Lemma cmd_rev_parse_nv : forall args, nv (cmd_rev_parse args).
Proof. intros args. unfold cmd_rev_parse. nsteps. Qed.
Lemma cmd_write_tree_nv : nv cmd_write_tree.
Proof. unfold cmd_write_tree. nsteps. Qed.

(* ---------- the commands that write HEAD or a branch ---------- *)
(* leave the symbolic execution at a world and finish with the static rules *)
Ltac to_static_nv :=
  apply hoare_at with (P := fun _ : world => True); [apply emits_hoare; nsteps | exact Logic.I].

(* at an [emit]: the effect is allowed because the name is valid *)
Ltac nv_emit :=
  apply nv_pair; [assumption | cbn [names_safe]; try exact Logic.I; try assumption].

(* a goal [valid_branch_name n = true] from a guard passed earlier, or from the
   invariant and a lookup that succeeded *)
Ltac nv_name :=
  match goal with
  | Hv : valid_branch_name ?n = true |- valid_branch_name ?n = true => exact Hv
  | Hi : NamesValid ?w0, Hg : am_get (w_refs ?w0) ?n = Some _ |- valid_branch_name ?n = true =>
      exact (NamesValid_get w0 n _ Hi Hg)
  | Hi : NamesValid ?w0, Hm : am_mem (w_refs ?w0) ?n = true |- valid_branch_name ?n = true =>
      exact (NamesValid_mem w0 n Hi Hm)
  end.

(* the last [emit] of a procedure also asks for the (trivial) post-condition *)
Ltac nv_emit_last :=
  lazymatch goal with
  | |- names_safe ?w0 ?e0 /\ NamesValid (apply_effect ?e0 ?w0) /\ True =>
      cut (names_safe w0 e0 /\ NamesValid (apply_effect e0 w0));
      [ intros [? ?]; auto | nv_emit ]
  end.

Lemma head_update_nv : forall name, nv (head_update name).
Proof.
  intros name. hinline. hsteps; try exact Logic.I.
  nv_emit. nv_name.
Qed.
#[export] Hint Resolve head_update_nv : nvlaws.

Lemma cmd_update_ref_nv : forall args, nv (cmd_update_ref args).
Proof.
  intros args. hinline. hsteps; try exact Logic.I.
  all: try (nv_emit; nv_name).
  all: to_static_nv.
Qed.

Lemma cmd_reset_nv : forall e c s m h args, nv (cmd_reset e c s m h args).
Proof.
  intros e c s m h args. hinline. hsteps; try exact Logic.I.
  all: try (nv_emit; nv_name).
  all: to_static_nv.
Qed.

(* a call of [head_update] in the middle of a symbolic execution: the world
   after it is only known to satisfy the invariant *)
Ltac call_head_update :=
  lazymatch goal with
  | |- hoare _ _ (eq _) (bind (head_update _) _) _ =>
      apply at_bind_emits; [apply head_update_nv | intros ? ? ?]
  end.

Lemma cmd_switch_nv : forall e c args create, nv (cmd_switch e c args create).
Proof.
  intros e c args create. hinline. hsteps; try exact Logic.I.
  all: try (nv_emit; nv_name).
  all: call_head_update; hsteps; try exact Logic.I.
  all: try (nv_emit; nv_name).
  all: to_static_nv.
Qed.

Lemma cmd_branch_nv : forall e c args lst rename delete, nv (cmd_branch e c args lst rename delete).
Proof.
  intros e c args lst rename delete. hinline. hsteps; try exact Logic.I.
  all: try (nv_emit; nv_name).
Qed.

(* [commit]: the current branch either exists already (its name is then one
   of the valid names of [w_refs]) or passes the explicit check *)
Lemma do_commit_nv : forall e c msg, nv (do_commit e c msg).
Proof.
  intros e c msg. hinline. hsteps.
  apply at_bind_iterM with (J := fun _ => True).
  - auto.
  - intros d w' _ _ _. cbv beta. to_static_nv.
  - intros w' _ _. hsteps. hinline. hsteps; try exact Logic.I.
    all: try (nv_emit; nv_name).
    all: try (nv_emit_last; nv_name).
Qed.
#[export] Hint Resolve do_commit_nv : nvlaws.

Lemma cmd_commit_nv : forall e c msg, nv (cmd_commit e c msg).
Proof. intros e c msg. unfold cmd_commit. nsteps. Qed.

Theorem run_cmd_nv : forall e c, nv (run_cmd e c).
Proof.
  intros e c. unfold run_cmd.
  apply emits_bind; [apply emits_getw | intro w].
  destruct c;
    try (apply emits_bind; [apply emits_guard | intros _];
         apply emits_bind; [apply load_ctx_nv | intro x]).
  - apply cmd_init_nv.
  - apply cmd_config_nv.
  - apply cmd_add_nv.
  - apply cmd_rm_nv.
  - apply cmd_commit_nv.
  - apply cmd_status_nv.
  - apply cmd_branch_nv.
  - apply cmd_switch_nv.
  - apply cmd_reset_nv.
  - apply cmd_restore_nv.
  - apply cmd_update_ref_nv.
  - apply cmd_log_nv.
  - apply cmd_reflog_nv.
  - apply cmd_cat_file_nv.
  - apply cmd_hash_object_nv.
  - apply cmd_ls_files_nv.
  - apply cmd_rev_parse_nv.
  - apply cmd_write_tree_nv.
Qed.

(* ================================================================== *)
(** * 2. Every reachable world *)

Theorem names_valid_step : forall a w, NamesValid w -> NamesValid (step_w a w).
Proof.
  apply (step_invariant NamesValid names_safe).
  - exact run_cmd_nv.
  - exact NamesValid_edit.
Qed.

Theorem names_valid_run_from : forall h w, NamesValid w -> NamesValid (run h w).
Proof.
  apply (run_invariant NamesValid names_safe).
  - exact run_cmd_nv.
  - exact NamesValid_edit.
Qed.

Theorem reachable_names_valid : forall w, Reachable w -> NamesValid w.
Proof.
  intros w (h & _ & ->). apply names_valid_run_from. exact NamesValid_empty.
Qed.

Corollary reachable_head_valid : forall w,
  Reachable w -> w_inited w = true -> valid_branch_name (w_head w) = true.
Proof. intros w Hr Hi. exact (proj1 (reachable_names_valid w Hr) Hi). Qed.

Corollary reachable_branch_valid : forall w n id,
  Reachable w -> am_get (w_refs w) n = Some id -> valid_branch_name n = true.
Proof. intros w n id Hr Hg. exact (NamesValid_get w n id (reachable_names_valid w Hr) Hg). Qed.

Corollary reachable_branch_mem_valid : forall w n,
  Reachable w -> am_mem (w_refs w) n = true -> valid_branch_name n = true.
Proof. intros w n Hr Hm. exact (NamesValid_mem w n (reachable_names_valid w Hr) Hm). Qed.

(* also in the world a command stops in when one of its writes fails (fault
   injection), and after every prefix of the effects of a command *)
Theorem names_valid_fault : forall e c w k r s',
  NamesValid w -> run_cmd e c (mkMS w [] (Some k)) = (r, s') -> NamesValid (ms_w s').
Proof.
  intros e c w k r s' Hi Hrun.
  destruct (emits_sound_fault NamesValid names_safe _ _ _ _ _ _ (run_cmd_nv e c) Hi Hrun) as [H _].
  exact H.
Qed.

Theorem names_valid_prefix : forall e c w w' o tr n,
  NamesValid w -> step (ACmd e c) w = (w', o, tr) ->
  NamesValid (apply_effects (firstn n tr) w).
Proof.
  intros e c w w' o tr n Hi Hstep. cbn [step] in Hstep.
  destruct (run_m (run_cmd e c) w) as [[r w1] tr1] eqn:Erun.
  destruct (emits_sound NamesValid names_safe _ _ _ _ _ _ (run_cmd_nv e c) Hi Erun) as (_ & _ & _ & Hpre & _).
  assert (Htr : tr1 = tr) by (destruct r; injection Hstep as _ _ Ht; exact Ht).
  subst tr1. apply Hpre.
Qed.

(* ================================================================== *)
(** * 3. Applications: hypotheses on the name HEAD holds, discharged *)

(* [ctx_of w = Some c] alone does not say that the repository is initialised
   (before `init` both configuration files are simply absent); over histories
   [GateFacts.reachable_inited] gives it as soon as there is a branch or an
   index file *)
Lemma gate_open_inited : forall w c,
  Reachable w -> CommitCmdFacts.gate_open w c -> w_inited w = true.
Proof.
  intros w c Hr [_ Hg]. apply (GateFacts.reachable_inited w Hr).
  destruct (w_refs w) as [|kv rs] eqn:Er.
  - right. apply GateFacts.idx_nonempty_index. exact Hg.
  - left. discriminate.
Qed.

(* what [do_commit] needs from the loaded context holds in every reachable,
   initialised world whose context loads *)
Theorem reachable_head_ok : forall w c,
  Reachable w -> w_inited w = true -> ctx_of w = Some c -> CommitCmdFacts.head_ok w c.
Proof.
  intros w c Hr Hi Hx. apply CommitCmdFacts.head_ok_loaded; [exact Hx|].
  intros _. exact (reachable_head_valid w Hr Hi).
Qed.

(* GateFacts.history_first_commit_succeeds (= Props/C07.C07_first_commit_succeeds)
   without [valid_branch_name (w_head w) = true] *)
Theorem history_first_commit_succeeds' : forall w e msg c,
  Reachable w -> ctx_of w = Some c ->
  w_refs w = [] -> idx_of w <> [] ->
  user_set (x_l c) (x_g c) = true ->
  CommitFacts.sign_ok (user_name (x_l c) (x_g c)) (user_email (x_l c) (x_g c)) (e_time e) (e_off e) ->
  exists root subs,
    write_tree_top (idx_of w) = Some (root, subs) /\
    step (ACmd e (CCommit msg)) w =
    (CommitCmdFacts.after_commit e c msg w root subs, OOk [],
     CommitCmdFacts.do_commit_trace e c msg w root subs).
Proof.
  intros w e msg c Hr Hx Hrf Hne Hu Hso.
  apply GateFacts.history_first_commit_succeeds; try assumption.
  apply (reachable_head_valid w Hr).
  apply (GateFacts.reachable_inited w Hr). right. apply GateFacts.idx_nonempty_index. exact Hne.
Qed.

(* CommitCmdFacts.commit_step without [w_inited w = true] and without
   [tip_of w = None -> valid_branch_name (w_head w) = true] *)
Theorem commit_step' : forall e msg w c root subs cm,
  Reachable w -> ctx_of w = Some c ->
  CommitCmdFacts.gate_open w c ->
  write_tree_top (idx_of w) = Some (root, subs) ->
  parse_commit (CommitCmdFacts.commit_data e c msg w root) = Some cm ->
  step (ACmd e (CCommit msg)) w =
  (CommitCmdFacts.after_commit e c msg w root subs, OOk [],
   CommitCmdFacts.do_commit_trace e c msg w root subs).
Proof.
  intros e msg w c root subs cm Hr Hx Hg Hw Hp.
  pose proof (gate_open_inited w c Hr Hg) as Hi.
  apply (CommitCmdFacts.commit_step e msg w c root subs cm); try assumption.
  intros _. exact (reachable_head_valid w Hr Hi).
Qed.

(* CommitCmdFacts.commit_step_spec (= Props/C02.C02_commit_spec), likewise *)
Theorem commit_step_spec' : forall e msg w c root subs cm,
  Reachable w -> ctx_of w = Some c ->
  CommitCmdFacts.gate_open w c ->
  Forall TreeFacts.valid_entry (idx_of w) ->
  write_tree_top (idx_of w) = Some (root, subs) ->
  (forall d, In d (subs ++ [root]) -> (lenN d < 2 ^ 63)%N) ->
  (lenN (CommitCmdFacts.commit_data e c msg w root) < 2 ^ 63)%N ->
  parse_commit (CommitCmdFacts.commit_data e c msg w root) = Some cm ->
  ~ In c_nl (CommitCmdFacts.commit_sign e c) ->
  let w' := CommitCmdFacts.after_commit e c msg w root subs in
  step (ACmd e (CCommit msg)) w = (w', OOk [], CommitCmdFacts.do_commit_trace e c msg w root subs) /\
  CommitCmdFacts.commit_post e c msg w root cm w'.
Proof.
  intros e msg w c root subs cm Hr Hx Hg Hv Hw Hsz Hszc Hp Hnl.
  pose proof (gate_open_inited w c Hr Hg) as Hi.
  apply (CommitCmdFacts.commit_step_spec e msg w c root subs cm); try assumption.
  intros _. exact (reachable_head_valid w Hr Hi).
Qed.

(* the late refusal of [GateFacts.do_commit_bad_branch] (tree and commit
   objects written, then "invalid branch name") never happens in a reachable
   world: a `commit` whose gate is open and whose text reads back succeeds *)
Corollary reachable_commit_not_refused_late : forall e msg w c root subs cm,
  Reachable w -> ctx_of w = Some c ->
  CommitCmdFacts.gate_open w c ->
  write_tree_top (idx_of w) = Some (root, subs) ->
  parse_commit (CommitCmdFacts.commit_data e c msg w root) = Some cm ->
  snd (fst (step (ACmd e (CCommit msg)) w)) = OOk [].
Proof.
  intros e msg w c root subs cm Hr Hx Hg Hw Hp.
  rewrite (commit_step' e msg w c root subs cm Hr Hx Hg Hw Hp). reflexivity.
Qed.

(* the HEAD file of a reachable repository reads back: the name it holds is
   valid, and a valid name has no newline *)
Lemma hf_is_ctl_nl : is_ctl c_nl = true.
Proof. vm_compute. reflexivity. Qed.

Lemma hf_valid_no_nl : forall n, valid_branch_name n = true -> ~ In c_nl n.
Proof.
  intros n Hv Hin. unfold valid_branch_name in Hv.
  apply andb_true_iff in Hv. destruct Hv as [_ Hctl].
  apply negb_true_iff in Hctl.
  assert (Hex : existsb is_ctl n = true).
  { apply existsb_exists. exists c_nl. split; [exact Hin | exact hf_is_ctl_nl]. }
  rewrite Hex in Hctl. discriminate Hctl.
Qed.

Theorem reachable_head_file_reads_back : forall w,
  Reachable w -> w_inited w = true ->
  Refs.parse_head (Refs.render_head (w_head w)) = Some (w_head w).
Proof.
  intros w Hr Hi. pose proof (reachable_head_valid w Hr Hi) as Hv.
  apply parse_head_render; [exact Hv | exact (hf_valid_no_nl _ Hv)].
Qed.

(* no branch of a reachable repository is named "", ".", "..", or holds a
   slash, a backslash or a newline *)
Theorem reachable_branch_name_shape : forall w n id,
  Reachable w -> am_get (w_refs w) n = Some id ->
  n <> [] /\ n <> [x2e] /\ n <> [x2e; x2e] /\
  contains_byte c_slash n = false /\ contains_byte x5c n = false /\ ~ In c_nl n.
Proof.
  intros w n id Hr Hg. pose proof (reachable_branch_valid w n id Hr Hg) as Hv.
  destruct (valid_branch_name_parts n Hv) as (H1 & H2 & H3 & H4 & H5).
  repeat split; try assumption. exact (hf_valid_no_nl n Hv).
Qed.

(* ================================================================== *)
(** * 4. Non-vacuity *)

(* GateFacts.gx_hist (init; identity; three files; add; commit; edits; add),
   then `switch --create dev`: HEAD now holds a name the user chose *)
Definition hx_env : env := mkEnv 1700001200 3600.
Definition hx_hist : list action :=
  GateFacts.gx_hist ++ [ ACmd hx_env (CSwitch [] (str "dev"%string)) ].

Definition hx_w : world := Eval vm_compute in run hx_hist w_empty.
Lemma hx_w_run : run hx_hist w_empty = hx_w.
Proof. vm_compute. reflexivity. Qed.

Example hx_actions_ok : Forall action_ok hx_hist.
Proof.
  unfold hx_hist. apply Forall_app. split; [exact GateFacts.gx_actions_ok|].
  constructor; [exact Logic.I | constructor].
Qed.

Example hx_reachable : Reachable hx_w.
Proof. exists hx_hist. split; [exact hx_actions_ok | symmetry; exact hx_w_run]. Qed.

(* the state, by computation: initialised, HEAD = "dev", branches dev and main *)
Example hx_state :
  w_inited hx_w = true /\ w_head hx_w = str "dev"%string /\
  map fst (w_refs hx_w) = [str "dev"%string; str "main"%string] /\
  w_head GateFacts.gx_w = str "main"%string.
Proof. repeat split; vm_compute; reflexivity. Qed.

(* the theorems apply ... *)
Example hx_names_valid : NamesValid hx_w.
Proof. exact (reachable_names_valid hx_w hx_reachable). Qed.

Example hx_head_valid : valid_branch_name (w_head hx_w) = true.
Proof. exact (reachable_head_valid hx_w hx_reachable (proj1 hx_state)). Qed.

Example hx_head_file : Refs.parse_head (Refs.render_head (w_head hx_w)) = Some (str "dev"%string).
Proof.
  rewrite (reachable_head_file_reads_back hx_w hx_reachable (proj1 hx_state)).
  rewrite (proj1 (proj2 hx_state)). reflexivity.
Qed.

(* ... and agree with plain computation *)
Example hx_head_valid_computed :
  valid_branch_name (w_head hx_w) = true /\ forallb (fun kv => valid_branch_name (fst kv)) (w_refs hx_w) = true.
Proof. split; vm_compute; reflexivity. Qed.

(* a name Goit refuses never reaches HEAD: `switch --create a/b`, `switch
   --create ..` and a name with a newline are refused with nothing written *)
Example hx_bad_names_refused :
  map (fun n => step (ACmd hx_env (CSwitch [] n)) hx_w)
      [str "a/b"%string; [x2e; x2e]; str "x"%string ++ [c_nl] ++ str "y"%string]
  = [(hx_w, OErr, []); (hx_w, OErr, []); (hx_w, OErr, [])].
Proof. vm_compute. reflexivity. Qed.

(* the invariant is not a consequence of the shape of a world alone: the
   unreachable world [GateFacts.gx_bad_head] (HEAD = "a/b") violates it, and
   there the first commit is refused late *)
Example hx_unreachable : ~ Reachable GateFacts.gx_bad_head.
Proof.
  intro Hr.
  assert (Hv : valid_branch_name (w_head GateFacts.gx_bad_head) = true).
  { apply (reachable_head_valid _ Hr). vm_compute. reflexivity. }
  rewrite (proj1 GateFacts.gx_bad_head_refused) in Hv. discriminate Hv.
Qed.

(* the first commit of CommitCmdFacts.ex_w through the primed theorem: no
   hypothesis on the name in HEAD is left *)
Example hx_first_commit :
  exists root subs,
    write_tree_top (idx_of CommitCmdFacts.ex_w) = Some (root, subs) /\
    step (ACmd CommitCmdFacts.ex_env (CCommit CommitCmdFacts.ex_msg)) CommitCmdFacts.ex_w =
    (CommitCmdFacts.after_commit CommitCmdFacts.ex_env CommitCmdFacts.ex_c CommitCmdFacts.ex_msg
       CommitCmdFacts.ex_w root subs, OOk [],
     CommitCmdFacts.do_commit_trace CommitCmdFacts.ex_env CommitCmdFacts.ex_c CommitCmdFacts.ex_msg
       CommitCmdFacts.ex_w root subs).
Proof.
  apply history_first_commit_succeeds'.
  - exists CommitCmdFacts.ex_hist. split; [|vm_compute; reflexivity].
    pose proof GateFacts.gx_actions_ok as Hall. unfold GateFacts.gx_hist in Hall.
    apply Forall_app in Hall. exact (proj1 Hall).
  - exact CommitCmdFacts.ex_ctx.
  - reflexivity.
  - vm_compute. discriminate.
  - vm_compute. reflexivity.
  - exact CommitCmdFacts.ex_sign_ok.
Qed.

(* ------------------------------------------------------------------ *)
Print Assumptions run_cmd_nv.
Print Assumptions reachable_names_valid.
Print Assumptions reachable_head_valid.
Print Assumptions reachable_branch_valid.
Print Assumptions names_valid_fault.
Print Assumptions names_valid_prefix.
Print Assumptions reachable_head_ok.
Print Assumptions history_first_commit_succeeds'.
Print Assumptions commit_step'.
Print Assumptions commit_step_spec'.
Print Assumptions reachable_commit_not_refused_late.
Print Assumptions reachable_head_file_reads_back.
Print Assumptions reachable_branch_name_shape.
Print Assumptions hx_head_valid.
Print Assumptions hx_unreachable.
Print Assumptions hx_first_commit.
