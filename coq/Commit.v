(* Commit.v — author/committer line, commit text, Goit's commit reader
   (internal/object/commit.go, after the time-zone repair). *)
From Coq Require Import Strings.String Strings.Byte.
From Coq Require Import List Bool NArith ZArith.
From Goit Require Import Bytes Sha1 Obj Regex GoRegex.
Import ListNotations.
Local Open Scope N_scope.

(* fmt "%02d" of a non-negative number *)
Definition dec2 (n : N) : bytes := if N.ltb n 10 then x30 :: dec n else dec n.

(* Sign.String: "<name> <<email>> <secs> <+|-><HH><MM>"; offset in seconds *)
Definition tz_string (off : Z) : bytes :=
  let a := Z.to_N (Z.abs off) in
  (if Z.leb 0 off then [x2b] else [x2d]) ++ dec2 (a / 3600) ++ dec2 ((a / 60) mod 60).

Definition sign_string (name email : bytes) (t : Z) (off : Z) : bytes :=
  name ++ [c_sp; x3c] ++ email ++ [x3e; c_sp]
  ++ (if Z.ltb t 0 then x2d :: dec (Z.to_N (- t)) else dec (Z.to_N t))
  ++ [c_sp] ++ tz_string off.

Record sign := mkSign { s_name : bytes; s_email : bytes; s_time : Z; s_off : Z }.

(* fmt.Sscanf(s, "+%02d%02d") after the sign character: two numbers of at
   most two digits each *)
Definition scan2 (s : bytes) : option (N * bytes) :=
  match s with
  | a :: b :: r =>
      if is_digit a then
        if is_digit b then Some (digit_val a * 10 + digit_val b, r) else Some (digit_val a, b :: r)
      else None
  | [a] => if is_digit a then Some (digit_val a, []) else None
  | [] => None
  end.

(* readSign: the regexp gate, then SplitN on " <", "> ", " " *)
Definition read_sign (s : bytes) : option sign :=
  if re_search re_signRegexp s then
    match split1s [c_sp; x3c] s with
    | (name, Some r1) =>
      match split1s [x3e; c_sp] r1 with
      | (email, Some r2) =>
        match split1 c_sp r2 with
        | (ts, Some tz) =>
          match parse_dec ts, tz with
          | Some t, sg :: digits =>
              match scan2 digits with
              | Some (hh, r3) =>
                match scan2 r3 with
                | Some (mm, _) =>
                    let mag := Z.of_N (3600 * hh + 60 * mm) in
                    let off := if beqb sg x2d then (- mag)%Z else mag in
                    if Z.leb (Z.of_N t) 9223372036854775807
                    then Some (mkSign name email (Z.of_N t) off) else None
                | None => None
                end
              | None => None
              end
          | _, _ => None
          end
        | (_, None) => None
        end
      | (_, None) => None
      end
    | (_, None) => None
    end
  else None.

(* the text commit() formats *)
Definition commit_text (tree : bytes) (parent : option bytes) (author committer : bytes) (msg : bytes) : bytes :=
  str "tree "%string ++ hex tree ++ [c_nl]
  ++ match parent with Some p => str "parent "%string ++ p ++ [c_nl] | None => [] end
  ++ str "author "%string ++ author ++ [c_nl]
  ++ str "committer "%string ++ committer ++ [c_nl]
  ++ [c_nl] ++ msg ++ [c_nl].

Record commit := mkCommit {
  c_tree : bytes; c_parents : list bytes;
  c_author : option sign; c_committer : option sign; c_msg : bytes }.

(* NewCommit: the data split at line feeds only (a final empty piece dropped);
   header lines until the first line that has no space; the message is the
   remaining lines joined by "\n". *)
Fixpoint parse_headers (ls : list bytes) (c : commit) : option (commit * list bytes) :=
  match ls with
  | [] => Some (c, [])
  | l :: r =>
    match split1 c_sp l with
    | (_, None) => Some (c, r)
    | (ty, Some body) =>
      if bytes_eqb ty (str "tree"%string) then
        match read_hash body with
        | Some h => parse_headers r (mkCommit h (c_parents c) (c_author c) (c_committer c) (c_msg c))
        | None => None
        end
      else if bytes_eqb ty (str "parent"%string) then
        match read_hash body with
        | Some h => parse_headers r (mkCommit (c_tree c) (c_parents c ++ [h]) (c_author c) (c_committer c) (c_msg c))
        | None => None
        end
      else if bytes_eqb ty (str "author"%string) then
        match read_sign body with
        | Some s => parse_headers r (mkCommit (c_tree c) (c_parents c) (Some s) (c_committer c) (c_msg c))
        | None => None
        end
      else if bytes_eqb ty (str "committer"%string) then
        match read_sign body with
        | Some s => parse_headers r (mkCommit (c_tree c) (c_parents c) (c_author c) (Some s) (c_msg c))
        | None => None
        end
      else parse_headers r c
    end
  end.

Definition parse_commit (data : bytes) : option commit :=
  match parse_headers (lf_lines data) (mkCommit [] [] None None []) with
  | Some (c, msg_lines) =>
      Some (mkCommit (c_tree c) (c_parents c) (c_author c) (c_committer c) (join [c_nl] msg_lines))
  | None => None
  end.

(* load a commit object from the store *)
Definition get_commit (st : store) (id : bytes) : option commit :=
  match get_kind st KCommit id with
  | Some d => parse_commit d
  | None => None
  end.
