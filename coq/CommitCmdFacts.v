(* CommitCmdFacts.v — property C02 at COMMAND level:
   "commit records exactly the staged snapshot and extends the current branch".

   1. [do_commit_runs]   the EXACT effect trace of [do_commit]
   2. [commit_spec_*]    what that trace does to the world: the branch, the
                         frame, the commit object, its parents, the snapshot
                         read back by the independent reader [spec_flatten],
                         author = committer, the message
   3. [cmd_commit_*]     the gate of [cmd_commit]
   4. [ex_*]             non-vacuity by computation *)
From Coq Require Import Strings.String Strings.Byte.
From Coq Require Import List Bool NArith ZArith Arith Lia.
From Goit Require Import Bytes Sha1 Obj Tree Index Regex GoRegex Commit Reflog Config Ignore World Repo.
From Goit Require Import BytesFacts RegexFacts ObjFacts IndexFacts TreeFacts CommitFacts DiffFacts MonadFacts Inv.
From Goit Require Import BranchFacts ExactFacts TotalFacts.
Import ListNotations.

#[local] Arguments sha1 : simpl never.
#[local] Arguments obj_id : simpl never.
#[local] Arguments payload : simpl never.
#[local] Arguments header : simpl never.

(* ================================================================== *)
(** * 0. Vocabulary *)

Definition put_tree_eff (d : bytes) : effect := EPutObj (obj_id KTree d) (payload KTree d).

(* the tip of the current branch, if the branch exists *)
Definition tip_of (w : world) : option bytes := am_get (w_refs w) (w_head w).

Definition commit_sign (e : env) (c : ctx) : bytes :=
  sign_string (user_name (x_l c) (x_g c)) (user_email (x_l c) (x_g c)) (e_time e) (e_off e).

(* the text of the commit object [do_commit] writes *)
Definition commit_data (e : env) (c : ctx) (msg : bytes) (w : world) (root : bytes) : bytes :=
  commit_text (obj_id KTree root) (option_map hex (tip_of w)) (commit_sign e c) (commit_sign e c) msg.

Definition commit_id (e : env) (c : ctx) (msg : bytes) (w : world) (root : bytes) : bytes :=
  obj_id KCommit (commit_data e c msg w root).

(* the journal line *)
Definition commit_line (e : env) (c : ctx) (msg : bytes) (w : world) (root : bytes) : bytes :=
  log_rec e c (tip_of w) (Some (commit_id e c msg w root)) RCommit (first_line msg).

Definition commit_tail (e : env) (c : ctx) (msg : bytes) (w : world) (root : bytes) : list effect :=
  [ EPutObj (commit_id e c msg w root) (payload KCommit (commit_data e c msg w root));
    ESetRef (w_head w) (commit_id e c msg w root);
    EAppendHlog (commit_line e c msg w root);
    EAppendBlog (w_head w) (commit_line e c msg w root);
    ESetHead (w_head w) ].

(* sub-trees first (children before parents), the root tree last, then the
   commit object, the branch, the two journals, HEAD *)
Definition do_commit_trace (e : env) (c : ctx) (msg : bytes) (w : world) (root : bytes) (subs : list bytes)
  : list effect :=
  map put_tree_eff (subs ++ [root]) ++ commit_tail e c msg w root.

(* what [do_commit] needs from the loaded context: when the current branch
   exists, the context holds its tip (that is what [load_ctx] puts there);
   when it does not, its name must be one Goit accepts for a new branch *)
Definition head_ok (w : world) (c : ctx) : Prop :=
  match tip_of w with
  | Some tip => exists cm0, x_headc c = Some (tip, cm0)
  | None => valid_branch_name (w_head w) = true
  end.

Lemma head_ok_loaded : forall w c,
  ctx_of w = Some c -> (tip_of w = None -> valid_branch_name (w_head w) = true) -> head_ok w c.
Proof.
  intros w c Hx Hv. unfold head_ok. pose proof (ctx_of_headc w c Hx) as Hh.
  unfold tip_of in *. unfold head_commit in Hh.
  destruct (am_get (w_refs w) (w_head w)) as [tip|] eqn:Et.
  - destruct (get_commit (w_objs w) tip) as [cm0|]; [|discriminate Hh].
    injection Hh as Hh. exists cm0. symmetry. exact Hh.
  - apply Hv. reflexivity.
Qed.

(* ================================================================== *)
(** * 1. The exact trace of [do_commit] *)

Lemma put_trees_runs : forall l w,
  runs (iterM (fun d => put_obj KTree d ;;; ret tt) l) w (Ok tt) (map put_tree_eff l).
Proof.
  induction l as [|d l IH]; intro w; cbn [iterM map].
  - apply runs_ret.
  - unfold put_obj at 1. repeat rstep. apply IH.
Qed.

Theorem do_commit_runs : forall e c msg w root subs cm,
  write_tree_top (idx_of w) = Some (root, subs) ->
  parse_commit (commit_data e c msg w root) = Some cm ->
  head_ok w c ->
  runs (do_commit e c msg) w (Ok tt) (do_commit_trace e c msg w root subs).
Proof.
  intros e c msg w root subs cm Hw Hp Hh. unfold do_commit, do_commit_trace.
  rstep. ropt (root, subs) Hw. cbn [fst snd].
  apply runs_seq; [apply put_trees_runs|]. cbv zeta.
  ropt cm Hp. unfold put_obj. unfold commit_tail.
  fold (tip_of w). fold (commit_sign e c).
  change (match tip_of w with Some id => Some (hex id) | None => None end) with (option_map hex (tip_of w)).
  fold (commit_data e c msg w root). fold (commit_id e c msg w root).
  do 3 rstep.
  unfold head_ok in Hh. unfold am_mem. fold (tip_of w).
  destruct (tip_of w) as [tip|] eqn:Et.
  - destruct Hh as [cm0 Hc0]. rewrite Hc0.
    unfold commit_line. rewrite Et.
    repeat rstep.
  - unfold commit_line. rewrite Et.
    rguard Hh. repeat rstep.
Qed.

(* the commit text does not read back: the trees have been written, nothing
   else happens and the command reports an error *)
Theorem do_commit_unparsable : forall e c msg w root subs,
  write_tree_top (idx_of w) = Some (root, subs) ->
  parse_commit (commit_data e c msg w root) = None ->
  runs (do_commit e c msg) w Err (map put_tree_eff (subs ++ [root])).
Proof.
  intros e c msg w root subs Hw Hp. unfold do_commit.
  rstep. ropt (root, subs) Hw. cbn [fst snd].
  rewrite <- (app_nil_r (map put_tree_eff (subs ++ [root]))).
  apply runs_seq; [apply put_trees_runs|]. cbv zeta.
  apply runs_bind_of_opt_none.
  fold (tip_of w). fold (commit_sign e c).
  change (match tip_of w with Some id => Some (hex id) | None => None end) with (option_map hex (tip_of w)).
  exact Hp.
Qed.

(* ================================================================== *)
(** * 2. Reading the commit text back *)

(* Whatever the signature line is, as long as it has no line feed: if the
   text [commit_text] formats reads back at all, it reads back with the tree
   and the parent that were written, the same author and committer (the line
   as written, read by [read_sign]), and the message that was given, byte
   for byte. *)
Theorem parse_commit_shape : forall tree parent sg msg cm,
  length tree = 20 -> (forall p, parent = Some p -> length p = 20) -> ~ In c_nl sg ->
  parse_commit (commit_text tree (option_map hex parent) sg sg msg) = Some cm ->
  exists s, read_sign sg = Some s /\
    cm = mkCommit tree (parent_list parent) (Some s) (Some s) msg.
Proof.
  intros tree parent sg msg cm Htree Hparent Hsg H.
  unfold parse_commit, commit_text in H.
  rewrite (lf_hex_line (str "tree ") tree _ eq_refl) in H.
  rewrite parse_headers_tree, (read_hash_hex tree Htree) in H.
  cbn [c_tree c_parents c_author c_committer c_msg] in H.
  assert (Hrest : forall c0,
    match parse_headers (lf_lines (str "author " ++ sg ++ [c_nl] ++ str "committer " ++ sg ++ [c_nl]
                                   ++ [c_nl] ++ msg ++ [c_nl])) c0 with
    | Some (c1, ml) => Some (mkCommit (c_tree c1) (c_parents c1) (c_author c1) (c_committer c1) (join [c_nl] ml))
    | None => None
    end = Some cm ->
    exists s, read_sign sg = Some s /\
      cm = mkCommit (c_tree c0) (c_parents c0) (Some s) (Some s) msg).
  { intros c0 H0.
    rewrite (lf_sign_line (str "author ") sg _ eq_refl Hsg) in H0.
    rewrite parse_headers_author in H0.
    destruct (read_sign sg) as [s|] eqn:Es; [|discriminate H0].
    rewrite (lf_sign_line (str "committer ") sg _ eq_refl Hsg) in H0.
    rewrite parse_headers_committer, Es in H0.
    cbn [c_tree c_parents c_author c_committer c_msg] in H0.
    rewrite lf_blank_msg in H0.
    rewrite parse_headers_blank in H0. cbn [c_tree c_parents c_author c_committer c_msg] in H0.
    rewrite msg_lines in H0.
    injection H0 as <-. exists s. split; reflexivity. }
  destruct parent as [p|]; cbn [option_map parent_list] in *.
  - rewrite <- !app_assoc in H.
    rewrite (lf_hex_line (str "parent ") p _ eq_refl) in H.
    rewrite parse_headers_parent, (read_hash_hex p (Hparent p eq_refl)) in H.
    cbn [c_tree c_parents c_author c_committer c_msg] in H.
    exact (Hrest _ H).
  - rewrite app_nil_l in H. exact (Hrest _ H).
Qed.

(* ================================================================== *)
(** * 3. The world after the trace *)

Definition after_commit (e : env) (c : ctx) (msg : bytes) (w : world) (root : bytes) (subs : list bytes) : world :=
  apply_effects (do_commit_trace e c msg w root subs) w.

(* the world after the tree objects have been written *)
Definition after_trees (w : world) (root : bytes) (subs : list bytes) : world :=
  apply_effects (map put_tree_eff (subs ++ [root])) w.

Lemma puts_frame : forall (T : Type) (f : world -> T),
  (forall i p w, f (apply_effect (EPutObj i p) w) = f w) ->
  forall l w, f (apply_effects (map put_tree_eff l) w) = f w.
Proof.
  intros T f Hf. induction l as [|d l IH]; intro w; [reflexivity|].
  cbn [map]. rewrite apply_effects_cons, IH. apply Hf.
Qed.

Lemma after_commit_eq : forall e c msg w root subs,
  after_commit e c msg w root subs = apply_effects (commit_tail e c msg w root) (after_trees w root subs).
Proof. intros. unfold after_commit, do_commit_trace, after_trees. apply apply_effects_app. Qed.

Definition appended (old : option bytes) (line : bytes) : bytes :=
  match old with Some b => b ++ line | None => line end.

(* (a) the current branch now names the new commit; every other branch, HEAD,
   the staging area, the work tree and both configuration files are what
   they were; the journal line is appended to both journals *)
Theorem commit_spec_frame : forall e c msg w root subs,
  let w' := after_commit e c msg w root subs in
  let cid := commit_id e c msg w root in
  let line := commit_line e c msg w root in
  w_refs w' = am_set (w_refs w) (w_head w) cid /\
  am_get (w_refs w') (w_head w) = Some cid /\
  (forall n, n <> w_head w -> am_get (w_refs w') n = am_get (w_refs w) n) /\
  w_head w' = w_head w /\ w_index w' = w_index w /\
  w_files w' = w_files w /\ w_dirs w' = w_dirs w /\
  w_lcfg w' = w_lcfg w /\ w_gcfg w' = w_gcfg w /\ w_inited w' = w_inited w /\
  w_hlog w' = Some (appended (w_hlog w) line) /\
  w_blogs w' = am_set (w_blogs w) (w_head w) (appended (am_get (w_blogs w) (w_head w)) line).
Proof.
  intros e c msg w root subs w' cid line. unfold w'. rewrite after_commit_eq.
  unfold commit_tail, after_trees. fold cid. fold line.
  assert (Er : w_refs (apply_effects (commit_tail e c msg w root) (after_trees w root subs))
               = am_set (w_refs w) (w_head w) cid).
  { unfold commit_tail, after_trees. fold cid. fold line. autorewrite with wfields.
    rewrite (puts_frame _ w_refs w_refs_EPutObj). reflexivity. }
  unfold commit_tail, after_trees in Er. fold cid in Er. fold line in Er.
  split; [exact Er|]. split; [rewrite Er; apply ex_am_get_set_same|].
  split; [intros n Hn; rewrite Er; apply ex_am_get_set_other; exact Hn|].
  autorewrite with wfields.
  rewrite (puts_frame _ w_index w_index_EPutObj), (puts_frame _ w_files w_files_EPutObj),
          (puts_frame _ w_dirs w_dirs_EPutObj), (puts_frame _ w_lcfg w_lcfg_EPutObj),
          (puts_frame _ w_gcfg w_gcfg_EPutObj), (puts_frame _ w_inited w_inited_EPutObj),
          (puts_frame _ w_hlog w_hlog_EPutObj), (puts_frame _ w_blogs w_blogs_EPutObj).
  repeat split; reflexivity.
Qed.

(* the store: the tree objects in order, then the commit object *)
Lemma after_commit_objs : forall e c msg w root subs,
  w_objs (after_commit e c msg w root subs) =
  st_set (w_objs (after_trees w root subs)) (commit_id e c msg w root)
         (payload KCommit (commit_data e c msg w root)).
Proof.
  intros. rewrite after_commit_eq. unfold commit_tail. autorewrite with wfields. reflexivity.
Qed.

Lemma after_commit_coll : forall e c msg w root subs,
  w_coll (after_commit e c msg w root subs) =
  w_coll (after_trees w root subs)
  || st_collides (w_objs (after_trees w root subs)) (commit_id e c msg w root)
                 (payload KCommit (commit_data e c msg w root)).
Proof.
  intros. rewrite after_commit_eq. unfold commit_tail. autorewrite with wfields. reflexivity.
Qed.

(* no collision at the end: every put on the way either added a fresh id or
   re-wrote the payload already there, so every written tree is still held
   under its id at the end of ANY continuation of the trace *)
Lemma put_trees_holds : forall l rest w d,
  w_coll (apply_effects (map put_tree_eff l ++ rest) w) = false -> In d l ->
  st_lookup (w_objs (apply_effects (map put_tree_eff l ++ rest) w)) (obj_id KTree d)
  = Some (payload KTree d).
Proof.
  induction l as [|a l IH]; intros rest w d Hc Hin; [destruct Hin|].
  cbn [map app] in *. rewrite apply_effects_cons in *. destruct Hin as [->|Hin].
  - apply MonadFacts.trace_store_grows; [exact Hc|].
    unfold put_tree_eff. rewrite w_objs_EPutObj. apply st_lookup_set_same.
  - apply IH; assumption.
Qed.

Lemma commit_trees_held : forall e c msg w root subs d,
  w_coll (after_commit e c msg w root subs) = false -> In d (subs ++ [root]) ->
  st_lookup (w_objs (after_commit e c msg w root subs)) (obj_id KTree d) = Some (payload KTree d).
Proof.
  intros e c msg w root subs d Hc Hin. unfold after_commit, do_commit_trace in *.
  apply put_trees_holds; assumption.
Qed.

(* (b) the commit object: it is stored under its id and reads back as the
   parsed text (no hypothesis on collisions is needed for that: it is the
   last object written); without collision everything readable before is
   readable after *)
Theorem commit_spec_object : forall e c msg w root subs cm,
  let w' := after_commit e c msg w root subs in
  parse_commit (commit_data e c msg w root) = Some cm ->
  (lenN (commit_data e c msg w root) < 2 ^ 63)%N ->
  get_commit (w_objs w') (commit_id e c msg w root) = Some cm.
Proof.
  intros e c msg w root subs cm w' Hp Hsz. unfold w'.
  rewrite after_commit_objs. unfold get_commit, get_kind, commit_id.
  rewrite (get_put _ KCommit _ Hsz). cbn [kind_eqb]. exact Hp.
Qed.

Theorem commit_spec_kept : forall e c msg w root subs,
  let w' := after_commit e c msg w root subs in
  w_coll w' = false -> objs_kept w w'.
Proof. intros e c msg w root subs w' Hc. apply objs_kept_trace. exact Hc. Qed.

Corollary commit_spec_commits_kept : forall e c msg w root subs id cm0,
  let w' := after_commit e c msg w root subs in
  w_coll w' = false -> get_commit (w_objs w) id = Some cm0 -> get_commit (w_objs w') id = Some cm0.
Proof.
  intros e c msg w root subs id cm0 w' Hc Hg. unfold w' in *. clear w'.
  unfold get_commit, get_kind in *.
  destruct (get_obj (w_objs w) id) as [kd|] eqn:Eg; [|discriminate Hg].
  rewrite (commit_spec_kept e c msg w root subs Hc id kd Eg). exact Hg.
Qed.

(* tree, parents, author = committer, message: read off the parsed text.  The
   only hypothesis on the identity is that the signature line holds no line
   feed (values loaded from a configuration file never do) *)
Theorem commit_spec_fields : forall e c msg w root cm,
  parse_commit (commit_data e c msg w root) = Some cm ->
  ~ In c_nl (commit_sign e c) ->
  (forall tip, tip_of w = Some tip -> length tip = 20) ->
  c_tree cm = obj_id KTree root /\
  c_parents cm = parent_list (tip_of w) /\
  c_author cm = c_committer cm /\
  (exists s, read_sign (commit_sign e c) = Some s /\ c_author cm = Some s) /\
  c_msg cm = msg.
Proof.
  intros e c msg w root cm Hp Hnl Htip. unfold commit_data in Hp.
  destruct (parse_commit_shape _ _ _ _ _ (sha1_length _) Htip Hnl Hp) as (s & Hs & ->).
  cbn [c_tree c_parents c_author c_committer c_msg].
  repeat split. exists s. split; [exact Hs | reflexivity].
Qed.

Lemma parent_list_some : forall tip, parent_list (Some tip) = [tip].
Proof. reflexivity. Qed.
Lemma parent_list_none : parent_list None = [].
Proof. reflexivity. Qed.

(* (c) the snapshot: the independent reader, run on the final store from the
   tree the new commit names, returns exactly the staging area *)
Theorem commit_spec_snapshot : forall e c msg w root subs,
  let w' := after_commit e c msg w root subs in
  Forall valid_entry (idx_of w) ->
  write_tree_top (idx_of w) = Some (root, subs) ->
  (forall d, In d (subs ++ [root]) -> (lenN d < 2 ^ 63)%N) ->
  w_coll w' = false ->
  spec_flatten (S (length (w_objs w'))) (w_objs w') [] (obj_id KTree root) = Some (idx_of w).
Proof.
  intros e c msg w root subs w' Hv Hw Hsz Hc.
  apply (spec_flatten_write_tree_store_fuel payload_roundtrip bytes_eqb_eq (idx_of w) root subs);
    [exact Hv | exact Hw | | exact Hsz].
  intros d Hd. apply commit_trees_held; assumption.
Qed.

(* ---------- the identity ---------- *)
Lemma dec_nl : forall n, ~ In c_nl (dec n).
Proof. intro n. apply dec_no_byte. reflexivity. Qed.

Lemma dec2_nl : forall n, ~ In c_nl (dec2 n).
Proof.
  intro n. unfold dec2. destruct (N.ltb n 10); [|apply dec_nl].
  intros [H|H]; [discriminate H | exact (dec_nl n H)].
Qed.

(* a signature line holds a line feed only if the name or the e-mail does *)
Lemma commit_sign_nl : forall e c,
  ~ In c_nl (user_name (x_l c) (x_g c)) -> ~ In c_nl (user_email (x_l c) (x_g c)) ->
  ~ In c_nl (commit_sign e c).
Proof.
  intros e c Hn He. unfold commit_sign, sign_string, tz_string.
  rewrite !in_app_iff. intros [H|[H|[H|[H|[H|[H|[H|[H|H]]]]]]]].
  - exact (Hn H).
  - destruct H as [H|[H|[]]]; discriminate H.
  - exact (He H).
  - destruct H as [H|[H|[]]]; discriminate H.
  - destruct (Z.ltb (e_time e) 0); [destruct H as [H|H]; [discriminate H|]|]; exact (dec_nl _ H).
  - destruct H as [H|[]]. discriminate H.
  - destruct (Z.leb 0 (e_off e)); destruct H as [H|[]]; discriminate H.
  - exact (dec2_nl _ H).
  - exact (dec2_nl _ H).
Qed.

(* (d) with a well-formed identity, a positive time and a whole-minute zone
   offset, the text DOES read back, whatever the message, and
   as exactly this commit: author and committer are the same configured
   person at the same instant, the message is the one given *)
Definition commit_of (e : env) (c : ctx) (msg : bytes) (w : world) (root : bytes) : commit :=
  let who := mkSign (user_name (x_l c) (x_g c)) (user_email (x_l c) (x_g c)) (e_time e) (e_off e) in
  mkCommit (obj_id KTree root) (parent_list (tip_of w)) (Some who) (Some who) msg.

Theorem commit_parses : forall e c msg w root,
  sign_ok (user_name (x_l c) (x_g c)) (user_email (x_l c) (x_g c)) (e_time e) (e_off e) ->
  (forall tip, tip_of w = Some tip -> length tip = 20) ->
  parse_commit (commit_data e c msg w root) = Some (commit_of e c msg w root).
Proof.
  intros e c msg w root Hs Htip. unfold commit_data, commit_sign, commit_of.
  apply commit_roundtrip; try assumption. apply sha1_length.
Qed.

Lemma sign_ok_nl : forall e c,
  sign_ok (user_name (x_l c) (x_g c)) (user_email (x_l c) (x_g c)) (e_time e) (e_off e) ->
  ~ In c_nl (commit_sign e c).
Proof.
  intros e c (_ & Hn & He & _). apply commit_sign_nl; [exact Hn | apply email_no_nl; exact He].
Qed.

(* ================================================================== *)
(** * 4. C02 at command level, in one statement *)

Record commit_post (e : env) (c : ctx) (msg : bytes) (w : world) (root : bytes) (cm : commit) (w' : world)
  : Prop := {
  (* (a) the branch and the frame *)
  cp_branch : am_get (w_refs w') (w_head w) = Some (commit_id e c msg w root);
  cp_others : forall n, n <> w_head w -> am_get (w_refs w') n = am_get (w_refs w) n;
  cp_head : w_head w' = w_head w;
  cp_index : w_index w' = w_index w;
  cp_files : w_files w' = w_files w;
  cp_dirs : w_dirs w' = w_dirs w;
  cp_lcfg : w_lcfg w' = w_lcfg w;
  cp_gcfg : w_gcfg w' = w_gcfg w;
  cp_hlog : w_hlog w' = Some (appended (w_hlog w) (commit_line e c msg w root));
  cp_blog : am_get (w_blogs w') (w_head w)
            = Some (appended (am_get (w_blogs w) (w_head w)) (commit_line e c msg w root));
  (* (b) the commit object *)
  cp_commit : get_commit (w_objs w') (commit_id e c msg w root) = Some cm;
  cp_tree : c_tree cm = obj_id KTree root;
  cp_parents : c_parents cm = match tip_of w with Some tip => [tip] | None => [] end;
  (* (d) one person, one message *)
  cp_same : c_author cm = c_committer cm;
  cp_signed : exists s, c_author cm = Some s;
  cp_msg : c_msg cm = msg;
  (* (b), (c): unless a SHA-1 collision was met *)
  cp_kept : w_coll w' = false -> objs_kept w w';
  cp_snapshot : w_coll w' = false ->
                spec_flatten (S (length (w_objs w'))) (w_objs w') [] (c_tree cm) = Some (idx_of w)
}.

Theorem commit_spec : forall e c msg w root subs cm,
  Forall valid_entry (idx_of w) ->
  write_tree_top (idx_of w) = Some (root, subs) ->
  (forall d, In d (subs ++ [root]) -> (lenN d < 2 ^ 63)%N) ->
  (lenN (commit_data e c msg w root) < 2 ^ 63)%N ->
  parse_commit (commit_data e c msg w root) = Some cm ->
  ~ In c_nl (commit_sign e c) ->
  (forall tip, tip_of w = Some tip -> length tip = 20) ->
  head_ok w c ->
  let tr := do_commit_trace e c msg w root subs in
  let w' := after_commit e c msg w root subs in
  run_m (do_commit e c msg) w = (Ok tt, w', tr) /\ commit_post e c msg w root cm w'.
Proof.
  intros e c msg w root subs cm Hv Hw Hsz Hszc Hp Hnl Htip Hh tr w'. split.
  - apply runs_run_m. apply (do_commit_runs e c msg w root subs cm); assumption.
  - destruct (commit_spec_frame e c msg w root subs)
      as (Er & Eb & Eo & Ehd & Ei & Ef & Ed & El & Eg & _ & Ehl & Ebl).
    destruct (commit_spec_fields e c msg w root cm Hp Hnl Htip) as (Et & Epar & Esame & (s & _ & Es) & Emsg).
    constructor.
    + exact Eb.
    + exact Eo.
    + exact Ehd.
    + exact Ei.
    + exact Ef.
    + exact Ed.
    + exact El.
    + exact Eg.
    + exact Ehl.
    + unfold w'. rewrite Ebl. apply ex_am_get_set_same.
    + apply commit_spec_object; assumption.
    + exact Et.
    + rewrite Epar. destruct (tip_of w); reflexivity.
    + exact Esame.
    + exists s. exact Es.
    + exact Emsg.
    + intro Hc. apply commit_spec_kept. exact Hc.
    + intro Hc. rewrite Et. apply commit_spec_snapshot; assumption.
Qed.

(* the same with the hypotheses on the identity, the clock and the message
   from which the text is KNOWN to read back; the commit is [commit_of] *)
Theorem commit_spec_ok : forall e c msg w root subs,
  Forall valid_entry (idx_of w) ->
  write_tree_top (idx_of w) = Some (root, subs) ->
  (forall d, In d (subs ++ [root]) -> (lenN d < 2 ^ 63)%N) ->
  (lenN (commit_data e c msg w root) < 2 ^ 63)%N ->
  sign_ok (user_name (x_l c) (x_g c)) (user_email (x_l c) (x_g c)) (e_time e) (e_off e) ->
  (forall tip, tip_of w = Some tip -> length tip = 20) ->
  head_ok w c ->
  let tr := do_commit_trace e c msg w root subs in
  let w' := after_commit e c msg w root subs in
  run_m (do_commit e c msg) w = (Ok tt, w', tr) /\
  commit_post e c msg w root (commit_of e c msg w root) w' /\
  c_msg (commit_of e c msg w root) = msg.
Proof.
  intros e c msg w root subs Hv Hw Hsz Hszc Hs Htip Hh tr w'.
  destruct (commit_spec e c msg w root subs (commit_of e c msg w root) Hv Hw Hsz Hszc
              (commit_parses e c msg w root Hs Htip) (sign_ok_nl e c Hs) Htip Hh) as [Hr Hpost].
  split; [exact Hr|]. split; [exact Hpost | reflexivity].
Qed.

(* ================================================================== *)
(** * 5. The gate of [cmd_commit] *)

(* [ExactFacts.head_nodes c w]: the nodes of HEAD's snapshot as the command
   loads them; [None] when the context holds no HEAD commit or its tree does
   not read *)
Lemma head_tree_nodes_runs : forall c w ns B (f : list node -> M B) r tr,
  head_nodes c w = Some ns -> runs (f ns) w r tr -> runs (bind (head_tree_nodes c) f) w r tr.
Proof.
  intros c w ns B f r tr Hn Hf. unfold head_nodes in Hn. unfold head_tree_nodes.
  destruct (x_headc c) as [[hid hcm]|]; [|discriminate Hn].
  destruct (get_kind (w_objs w) KTree (c_tree hcm)) as [d|] eqn:Ek; [|discriminate Hn].
  apply runs_assoc. rstep. ropt d Ek. ropt ns Hn. exact Hf.
Qed.

Lemma head_tree_nodes_fails : forall c w B (f : list node -> M B),
  x_headc c <> None -> head_nodes c w = None -> runs (bind (head_tree_nodes c) f) w Err [].
Proof.
  intros c w B f Hx Hn. unfold head_nodes in Hn. unfold head_tree_nodes.
  destruct (x_headc c) as [[hid hcm]|]; [|contradiction Hx; reflexivity].
  apply runs_assoc. rstep.
  destruct (get_kind (w_objs w) KTree (c_tree hcm)) as [d|] eqn:Ek.
  - ropt d (eq_refl (Some d)). apply runs_bind_of_opt_none. exact Hn.
  - apply runs_assoc. apply runs_bind_of_opt_none. reflexivity.
Qed.

(* no configured identity: refused, nothing written (TotalFacts:
   [cmd_commit_no_identity], [commit_no_identity_refused]) *)
Theorem cmd_commit_no_identity_runs : forall e c msg w,
  user_set (x_l c) (x_g c) = false -> runs (cmd_commit e c msg) w Err [].
Proof.
  intros e c msg w Hu t. rewrite (cmd_commit_no_identity e c msg _ Hu), app_nil_r. reflexivity.
Qed.

(* no branch at all and nothing staged *)
Theorem cmd_commit_first_nothing : forall e c msg w,
  w_refs w = [] -> idx_of w = [] -> runs (cmd_commit e c msg) w Err [].
Proof.
  intros e c msg w Hr Hi. unfold cmd_commit.
  destruct (user_set (x_l c) (x_g c)) eqn:Hu; [|apply runs_bind_guard_false; reflexivity].
  apply runs_bind_guard; [reflexivity | cbv beta]. apply runs_assoc. rstep. rewrite Hr. cbn [is_nil].
  apply runs_bind_err. apply runs_bind_guard_false. rewrite Hi. reflexivity.
Qed.

(* some branch exists but HEAD's snapshot cannot be loaded *)
Theorem cmd_commit_no_head : forall e c msg w,
  w_refs w <> [] -> head_nodes c w = None -> runs (cmd_commit e c msg) w Err [].
Proof.
  intros e c msg w Hr Hn. unfold cmd_commit.
  destruct (user_set (x_l c) (x_g c)) eqn:Hu; [|apply runs_bind_guard_false; reflexivity].
  apply runs_bind_guard; [reflexivity | cbv beta]. apply runs_assoc. rstep.
  destruct (w_refs w) as [|kv rs] eqn:Er; [contradiction Hr; reflexivity|]. cbn [is_nil].
  apply runs_bind_err.
  destruct (x_headc c) as [hc|] eqn:Ex; [|apply runs_fail].
  apply head_tree_nodes_fails; [rewrite Ex; discriminate | exact Hn].
Qed.

(* some branch exists and the staging area does not differ from HEAD's snapshot *)
Theorem cmd_commit_nothing_staged : forall e c msg w ns,
  w_refs w <> [] -> head_nodes c w = Some ns -> diff_with_tree (idx_of w) ns = [] ->
  runs (cmd_commit e c msg) w Err [].
Proof.
  intros e c msg w ns Hr Hn Hd. unfold cmd_commit.
  destruct (user_set (x_l c) (x_g c)) eqn:Hu; [|apply runs_bind_guard_false; reflexivity].
  apply runs_bind_guard; [reflexivity | cbv beta]. apply runs_assoc. rstep.
  destruct (w_refs w) as [|kv rs] eqn:Er; [contradiction Hr; reflexivity|]. cbn [is_nil].
  apply runs_bind_err.
  destruct (x_headc c) as [hc|] eqn:Ex; [|apply runs_fail].
  apply (head_tree_nodes_runs c w ns); [exact Hn|].
  apply runs_bind_guard_false. rewrite Hd. reflexivity.
Qed.

(* otherwise the command is [do_commit] *)
Definition gate_open (w : world) (c : ctx) : Prop :=
  user_set (x_l c) (x_g c) = true /\
  match w_refs w with
  | [] => idx_of w <> []
  | _ :: _ => exists ns, head_nodes c w = Some ns /\ diff_with_tree (idx_of w) ns <> []
  end.

Lemma is_nil_neq : forall (A : Type) (l : list A), l <> [] -> negb (is_nil l) = true.
Proof. intros A [|x l] H; [contradiction H; reflexivity | reflexivity]. Qed.

Theorem cmd_commit_passes : forall e c msg w tr,
  gate_open w c ->
  (runs (do_commit e c msg) w (Ok tt) tr -> runs (cmd_commit e c msg) w (Ok []) tr) /\
  (runs (do_commit e c msg) w Err tr -> runs (cmd_commit e c msg) w Err tr).
Proof.
  intros e c msg w tr [Hu Hg].
  assert (Hgen : forall r r', (r = Ok tt /\ r' = Ok [] \/ r = Err /\ r' = Err) ->
            runs (do_commit e c msg) w r tr -> runs (cmd_commit e c msg) w r' tr).
  { intros r r' Hrr Hrun.
    assert (Hend : runs (bind (do_commit e c msg) (fun _ => ret (@nil bytes))) w r' tr).
    { destruct Hrr as [[-> ->]|[-> ->]].
      - rewrite <- (app_nil_r tr). apply (runs_bind _ _ _ _ w tt); [exact Hrun | apply runs_ret].
      - apply runs_bind_err. exact Hrun. }
    unfold cmd_commit. rguard Hu. apply runs_assoc. rstep.
    destruct (w_refs w) as [|kv rs] eqn:Er; cbn [is_nil].
    - rguard (is_nil_neq _ _ Hg). exact Hend.
    - destruct Hg as (ns & Hn & Hd).
      assert (Hx : x_headc c <> None).
      { unfold head_nodes in Hn. destruct (x_headc c); [discriminate | discriminate Hn]. }
      destruct (x_headc c) as [hc|] eqn:Ex; [|contradiction Hx; reflexivity].
      apply runs_assoc. apply (head_tree_nodes_runs c w ns); [exact Hn|].
      rguard (is_nil_neq _ _ Hd). exact Hend. }
  split; apply Hgen; [left | right]; split; reflexivity.
Qed.

(* ---------- one step of the whole program ---------- *)
(* [commit] from an initialised world whose context loads, with an identity
   and something to commit: the step answers Ok, performs exactly the trace
   of section 1 and ends in the world of section 4 *)
Theorem commit_step : forall e msg w c root subs cm,
  w_inited w = true -> ctx_of w = Some c ->
  gate_open w c ->
  (tip_of w = None -> valid_branch_name (w_head w) = true) ->
  write_tree_top (idx_of w) = Some (root, subs) ->
  parse_commit (commit_data e c msg w root) = Some cm ->
  step (ACmd e (CCommit msg)) w =
  (after_commit e c msg w root subs, OOk [], do_commit_trace e c msg w root subs).
Proof.
  intros e msg w c root subs cm Hi Hx Hg Hv Hw Hp.
  rewrite (step_loaded e (CCommit msg) w c); [|discriminate | exact Hi | exact Hx].
  cbn [dispatch].
  pose proof (do_commit_runs e c msg w root subs cm Hw Hp (head_ok_loaded w c Hx Hv)) as Hrun.
  apply (proj1 (cmd_commit_passes e c msg w _ Hg)) in Hrun.
  rewrite (Hrun []). reflexivity.
Qed.

(* and a refused commit leaves the world alone *)
Theorem commit_step_refused : forall e msg w c,
  w_inited w = true -> ctx_of w = Some c ->
  runs (cmd_commit e c msg) w Err [] ->
  step (ACmd e (CCommit msg)) w = (w, OErr, []).
Proof.
  intros e msg w c Hi Hx Hrun.
  rewrite (step_loaded e (CCommit msg) w c); [|discriminate | exact Hi | exact Hx].
  cbn [dispatch]. rewrite (Hrun []). reflexivity.
Qed.

(* a loaded context only ever holds a 20-byte tip: the tip was read as an
   object, and objects are only found under 20-byte names *)
Lemma loaded_tip_length : forall w c tip,
  ctx_of w = Some c -> tip_of w = Some tip -> length tip = 20.
Proof.
  intros w c tip Hx Ht. pose proof (ctx_of_headc w c Hx) as Hh.
  unfold head_commit in Hh. unfold tip_of in Ht. rewrite Ht in Hh.
  destruct (get_commit (w_objs w) tip) as [cm0|] eqn:Eg; [|discriminate Hh].
  unfold get_commit, get_kind in Eg.
  destruct (get_obj (w_objs w) tip) as [kd|] eqn:Eo; [|discriminate Eg].
  exact (get_obj_id_length _ _ _ Eo).
Qed.

(* C02 for one step of the program *)
Theorem commit_step_spec : forall e msg w c root subs cm,
  w_inited w = true -> ctx_of w = Some c ->
  gate_open w c ->
  (tip_of w = None -> valid_branch_name (w_head w) = true) ->
  Forall valid_entry (idx_of w) ->
  write_tree_top (idx_of w) = Some (root, subs) ->
  (forall d, In d (subs ++ [root]) -> (lenN d < 2 ^ 63)%N) ->
  (lenN (commit_data e c msg w root) < 2 ^ 63)%N ->
  parse_commit (commit_data e c msg w root) = Some cm ->
  ~ In c_nl (commit_sign e c) ->
  let w' := after_commit e c msg w root subs in
  step (ACmd e (CCommit msg)) w = (w', OOk [], do_commit_trace e c msg w root subs) /\
  commit_post e c msg w root cm w'.
Proof.
  intros e msg w c root subs cm Hi Hx Hg Hnb Hv Hw Hsz Hszc Hp Hnl w'. split.
  - apply (commit_step e msg w c root subs cm); assumption.
  - apply (commit_spec e c msg w root subs cm); try assumption.
    + intros tip Ht. exact (loaded_tip_length w c tip Hx Ht).
    + apply head_ok_loaded; assumption.
Qed.

(* ================================================================== *)
(** * 6. Non-vacuity *)

(* init; configure an identity; three files whose names share the prefix
   "lib" (a directory, and two files that sort before it); add everything *)
Definition ex_env : env := mkEnv 1700000000 32400.
Definition ex_msg : bytes := str "first".
Definition ex_hist : list action :=
  [ ACmd ex_env CInit;
    ACmd ex_env (CConfig false [str "user.name"; str "Ann Lee"]);
    ACmd ex_env (CConfig false [str "user.email"; str "ann@example.org"]);
    AEdit (UWrite (str "lib/a") (str "alpha" ++ [c_nl]));
    AEdit (UWrite (str "lib.go") (str "package lib" ++ [c_nl]));
    AEdit (UWrite (str "lib-old") (str "old" ++ [c_nl]));
    ACmd ex_env (CAdd [str "."]) ].
Definition ex_w : world := Eval vm_compute in run ex_hist w_empty.
Definition ex_c : ctx :=
  Eval vm_compute in match ctx_of ex_w with Some c => c | None => mkCtx [] [] None [] end.
Definition ex_root : bytes :=
  Eval vm_compute in match write_tree_top (idx_of ex_w) with Some (r, _) => r | None => [] end.
Definition ex_subs : list bytes :=
  Eval vm_compute in match write_tree_top (idx_of ex_w) with Some (_, ss) => ss | None => [] end.

Example ex_staged : map e_path (idx_of ex_w) = [str "lib-old"; str "lib.go"; str "lib/a"].
Proof. vm_compute. reflexivity. Qed.

Example ex_ctx : ctx_of ex_w = Some ex_c.
Proof. vm_compute. reflexivity. Qed.

Example ex_tree : write_tree_top (idx_of ex_w) = Some (ex_root, ex_subs).
Proof. vm_compute. reflexivity. Qed.

(* one sub-tree ("lib"), then the root *)
Example ex_two_trees : length (ex_subs ++ [ex_root]) = 2.
Proof. vm_compute. reflexivity. Qed.

Example ex_valid : Forall valid_entry (idx_of ex_w).
Proof. unfold valid_entry, valid_path. vm_compute. tf_valid. Qed.

Example ex_sizes : forall d, In d (ex_subs ++ [ex_root]) -> (lenN d < 2 ^ 63)%N.
Proof.
  intros d Hd. vm_compute in Hd.
  repeat (destruct Hd as [Hd|Hd]; [subst d; vm_compute; reflexivity|]). destruct Hd.
Qed.

Example ex_size_commit : (lenN (commit_data ex_env ex_c ex_msg ex_w ex_root) < 2 ^ 63)%N.
Proof. vm_compute. reflexivity. Qed.

Example ex_sign_ok : sign_ok (user_name (x_l ex_c) (x_g ex_c)) (user_email (x_l ex_c) (x_g ex_c))
                             (e_time ex_env) (e_off ex_env).
Proof.
  unfold sign_ok. split; [apply contains_byte_false; vm_compute; reflexivity|].
  split; [apply contains_byte_false; vm_compute; reflexivity|].
  split; [unfold valid_email; apply matches_spec; vm_compute; reflexivity|].
  cbn [e_time e_off ex_env]. split; [lia|]. split; [lia | reflexivity].
Qed.

Example ex_gate : gate_open ex_w ex_c.
Proof. split; [vm_compute; reflexivity|]. vm_compute. discriminate. Qed.

Example ex_tip : forall tip, tip_of ex_w = Some tip -> length tip = 20.
Proof. intros tip H. vm_compute in H. discriminate H. Qed.

Example ex_new_branch : tip_of ex_w = None -> valid_branch_name (w_head ex_w) = true.
Proof. intros _. vm_compute. reflexivity. Qed.

(* every hypothesis of the theorems holds here: the step IS the trace of
   section 1 and ends in a world with the post-condition of section 4 *)
Example ex_commit_by_theorem :
  let w' := after_commit ex_env ex_c ex_msg ex_w ex_root ex_subs in
  step (ACmd ex_env (CCommit ex_msg)) ex_w
  = (w', OOk [], do_commit_trace ex_env ex_c ex_msg ex_w ex_root ex_subs) /\
  commit_post ex_env ex_c ex_msg ex_w ex_root (commit_of ex_env ex_c ex_msg ex_w ex_root) w'.
Proof.
  intro w'. split.
  - apply (commit_step ex_env ex_msg ex_w ex_c ex_root ex_subs (commit_of ex_env ex_c ex_msg ex_w ex_root)).
    + reflexivity.
    + exact ex_ctx.
    + exact ex_gate.
    + exact ex_new_branch.
    + exact ex_tree.
    + apply commit_parses; [exact ex_sign_ok | exact ex_tip].
  - apply (commit_spec_ok ex_env ex_c ex_msg ex_w ex_root ex_subs ex_valid ex_tree ex_sizes ex_size_commit
             ex_sign_ok ex_tip (head_ok_loaded ex_w ex_c ex_ctx ex_new_branch)).
Qed.

(* and by plain computation: the step answers Ok with seven effects (two
   trees, the commit, the branch, two journal lines, HEAD); no collision; the
   branch "main" names a commit without parent whose snapshot, read by the
   independent reader, is the three staged entries *)
Definition ex_step1 : world * outcome * list effect :=
  Eval vm_compute in step (ACmd ex_env (CCommit ex_msg)) ex_w.
Definition ex_w1 : world := fst (fst ex_step1).

Example ex_step1_eq : step (ACmd ex_env (CCommit ex_msg)) ex_w = ex_step1.
Proof. vm_compute. reflexivity. Qed.

Example ex_commit_computed :
  snd (fst ex_step1) = OOk [] /\ length (snd ex_step1) = 7 /\ w_coll ex_w1 = false /\
  match am_get (w_refs ex_w1) (str "main") with
  | Some cid =>
      match get_commit (w_objs ex_w1) cid with
      | Some cm =>
          c_parents cm = [] /\ c_author cm = c_committer cm /\ c_msg cm = ex_msg /\
          spec_flatten (S (length (w_objs ex_w1))) (w_objs ex_w1) [] (c_tree cm) = Some (idx_of ex_w) /\
          option_map (map e_path) (spec_flatten (S (length (w_objs ex_w1))) (w_objs ex_w1) [] (c_tree cm))
          = Some [str "lib-old"; str "lib.go"; str "lib/a"]
      | None => False
      end
  | None => False
  end.
Proof. vm_compute. repeat split; reflexivity. Qed.

(* the very same commit again: nothing differs from HEAD, refused, no effect *)
Example ex_again_refused : step (ACmd ex_env (CCommit ex_msg)) ex_w1 = (ex_w1, OErr, []).
Proof. vm_compute. reflexivity. Qed.

(* a second commit after a change: its single parent is the tip it extends,
   its snapshot is the new staging area, the first commit still reads *)
Definition ex_env2 : env := mkEnv 1700000600 (-12600).
Definition ex_hist2 : list action :=
  [ AEdit (UWrite (str "lib.go") (str "package lib // v2" ++ [c_nl]));
    AEdit (UDelete (str "lib-old"));
    ACmd ex_env2 (CAdd [str "lib.go"; str "lib-old"]) ].
Definition ex_w2 : world := Eval vm_compute in run ex_hist2 ex_w1.
Definition ex_step2 : world * outcome * list effect :=
  Eval vm_compute in step (ACmd ex_env2 (CCommit (str "second" ++ [c_nl; c_nl] ++ str "body"))) ex_w2.
Definition ex_w3 : world := fst (fst ex_step2).

Example ex_second_commit :
  snd (fst ex_step2) = OOk [] /\ w_coll ex_w3 = false /\
  map e_path (idx_of ex_w2) = [str "lib.go"; str "lib/a"] /\
  match am_get (w_refs ex_w1) (str "main"), am_get (w_refs ex_w3) (str "main") with
  | Some tip, Some cid =>
      tip <> cid /\
      match get_commit (w_objs ex_w3) cid, get_commit (w_objs ex_w3) tip with
      | Some cm, Some cm1 =>
          c_parents cm = [tip] /\ c_author cm = c_committer cm /\
          spec_flatten (S (length (w_objs ex_w3))) (w_objs ex_w3) [] (c_tree cm) = Some (idx_of ex_w2) /\
          spec_flatten (S (length (w_objs ex_w3))) (w_objs ex_w3) [] (c_tree cm1) = Some (idx_of ex_w)
      | _, _ => False
      end
  | _, _ => False
  end.
Proof. vm_compute. repeat split; try reflexivity. discriminate. Qed.

(* the hypothesis "no line feed in the signature line" of [parse_commit_shape]
   and [commit_spec] cannot be dropped: with a line feed in the name (which no
   configuration file can deliver) the text reads back with ANOTHER tree *)
Definition ex_bad_name : bytes :=
  str "A <a@b.cc> 1700000000 +0000" ++ [c_nl] ++ str "tree " ++ hex (repeat x00 20) ++ [c_nl] ++ str "zz".
Example ex_line_feed_matters :
  let sg := sign_string ex_bad_name (str "ann@example.org") 1700000000 0 in
  option_map c_tree (parse_commit (commit_text (repeat x01 20) None sg sg (str "m")))
  = Some (repeat x00 20).
Proof. vm_compute. reflexivity. Qed.

(* ------------------------------------------------------------------ *)
Print Assumptions do_commit_runs.
Print Assumptions do_commit_unparsable.
Print Assumptions parse_commit_shape.
Print Assumptions put_trees_holds.
Print Assumptions commit_spec_frame.
Print Assumptions commit_spec_object.
Print Assumptions commit_spec_kept.
Print Assumptions commit_spec_fields.
Print Assumptions commit_spec_snapshot.
Print Assumptions commit_parses.
Print Assumptions commit_spec.
Print Assumptions commit_spec_ok.
Print Assumptions cmd_commit_no_identity_runs.
Print Assumptions cmd_commit_first_nothing.
Print Assumptions cmd_commit_no_head.
Print Assumptions cmd_commit_nothing_staged.
Print Assumptions cmd_commit_passes.
Print Assumptions commit_step.
Print Assumptions commit_step_refused.
Print Assumptions commit_step_spec.
Print Assumptions ex_commit_by_theorem.
Print Assumptions ex_commit_computed.
Print Assumptions ex_second_commit.
