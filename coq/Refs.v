(* Refs.v — the text of .goit/HEAD and of a branch file, and Goit's readers of
   them (internal/store/head.go NewHead after the SplitN repair, refs.go
   loadHash).  The world of World.v keeps these regions decoded; this file is
   the codec that ties the decoded form to the bytes on disk. *)
From Coq Require Import Strings.String Strings.Byte.
From Coq Require Import List Bool NArith.
From Goit Require Import Bytes Regex GoRegex Obj.
Import ListNotations.

Definition head_prefix : bytes := str "ref: refs/heads/"%string.

(* Head.Update / init: "ref: refs/heads/<name>" *)
Definition render_head (name : bytes) : bytes := head_prefix ++ name.

(* NewHead: the text must contain a match of headRegexp; the branch is the part
   after the first ": ", cut at its last '/' *)
Definition parse_head (raw : bytes) : option bytes :=
  if re_search re_headRegexp raw then
    match split1s [x3a; c_sp] raw with
    | (_, Some rest) => Some (last (split_all c_slash rest) [])
    | (_, None) => None
    end
  else None.

(* branch.write: 40 hex digits; loadHash: sha.ReadHash of the whole file *)
Definition render_ref (id : bytes) : bytes := hex id.
Definition parse_ref (raw : bytes) : option bytes := read_hash raw.
