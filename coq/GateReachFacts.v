(* GateReachFacts.v — hypothesis removal on reachable repositories for C07
   (the commit gate, the staged section of `status`) and C17 (`add` never stages
   an excluded path).

   1. C07.  [head_snapshot w]: the snapshot of the commit the current branch
      holds, [] before the first commit.
      [reachable_tip_snapshot]            the tip's snapshot reads (derived, no
                                          longer assumed)
      [reachable_commit_succeeds] [reachable_commit_succeeds_tip]
                                          C07_commit_succeeds_on_any_staged_difference
                                          without the snapshot hypothesis, first
                                          commit included
      [reachable_commit_succeeds_iff] [reachable_commit_refused_iff]
                                          commit succeeds IFF identity configured
                                          and staging area <> head_snapshot
      [reachable_status_staged_section_exact] [reachable_status_before_first_commit]
      [reachable_status_exact]            the staged section of `status`, with and
                                          without a commit
   2. C17.
      [reachable_add_never_stages_excluded]   Canonical (idx_of w) derived
      [wt_consistent_chk] [wt_consistent_chk_iff]  the executable check
      [WtTree] [wt_tree_chk]              the invariant behind ex_wt_consistent
      [wt_safe] [WtTree_effect]           which effects keep it
      [run_cmd_ws] [wt_tree_cmd_step]     every command step keeps it
      [edit_wt_ok] [WtTree_edit]          so do the edits a file system allows
      [edits_wt_okb] [wt_tree_run] [wt_consistent_run]
                                          hence an invariant of such histories
      [history_add_never_stages_excluded] C17 with no hypothesis on the world
   3. [cx_consistent_not_preserved]: ex_wt_consistent ALONE is not preserved by
      a command step (after an edit outside the side condition); examples. *)
From Coq Require Import Strings.String Strings.Byte.
From Coq Require Import List Bool NArith ZArith Arith Lia ZifyBool ZifyNat ZifyN Sorted.
From Goit Require Import Bytes Sha1 Obj Tree Index Regex GoRegex Commit Reflog Config Ignore World Repo.
From Goit Require Import BytesFacts RegexFacts ObjFacts IndexFacts TreeFacts CommitFacts DiffFacts MonadFacts Inv.
From Goit Require Import BranchFacts ExactFacts SnapshotFacts CommitCmdFacts GateFacts IgnoreFacts IgnoreCmdFacts.
From Goit Require ConnectedFacts ResetFacts HeadFacts StatusFacts RestoreFacts.
Import ListNotations.

#[local] Arguments sha1 : simpl never.
#[local] Arguments obj_id : simpl never.
#[local] Arguments payload : simpl never.
#[local] Arguments header : simpl never.

(* ================================================================== *)
(** * 1. C07 on reachable repositories *)

(* HEAD's snapshot as a function of the world: the snapshot of the commit the
   current branch holds; empty before the first commit *)
Definition head_snapshot (w : world) : list entry :=
  match tip_of w with
  | Some hid => match snapshot (w_objs w) hid with Some s => s | None => [] end
  | None => []
  end.

Lemma head_snapshot_tip : forall w hid s,
  tip_of w = Some hid -> snapshot (w_objs w) hid = Some s -> head_snapshot w = s.
Proof. intros w hid s Ht Hs. unfold head_snapshot. rewrite Ht, Hs. reflexivity. Qed.

Lemma head_snapshot_no_tip : forall w, tip_of w = None -> head_snapshot w = [].
Proof. intros w Ht. unfold head_snapshot. rewrite Ht. reflexivity. Qed.

(* the tip of the current branch of a reachable repository is a stored commit
   whose snapshot reads (no context needed) *)
Theorem reachable_tip_snapshot : forall w hid,
  Reachable w -> w_coll w = false -> SmallStore (w_objs w) ->
  tip_of w = Some hid ->
  exists s, snapshot (w_objs w) hid = Some s /\ head_snapshot w = s /\
            Canonical s /\ Forall valid_entry s.
Proof.
  intros w hid Hr Hc Hsm Ht.
  destruct (ConnectedFacts.reachable_connected w Hr Hc Hsm) as (Hrefs & _).
  destruct (Hrefs (w_head w) hid Ht) as [cm Hcm].
  destruct (ResetFacts.reachable_snapshot w hid cm Hr Hc Hsm Hcm) as (d & ns & _ & _ & Hs & Hcan & Hval).
  exists (flatten [] ns). split; [exact Hs|]. split; [exact (head_snapshot_tip w hid _ Ht Hs)|].
  split; assumption.
Qed.

(* no tip = no branch at all *)
Lemma reachable_no_tip : forall w,
  Reachable w -> w_coll w = false -> SmallStore (w_objs w) ->
  tip_of w = None -> w_refs w = [].
Proof.
  intros w Hr Hc Hsm Ht.
  destruct (ConnectedFacts.reachable_connected w Hr Hc Hsm) as (_ & [Hn|Hm] & _); [exact Hn|].
  unfold am_mem in Hm. unfold tip_of in Ht. rewrite Ht in Hm. discriminate Hm.
Qed.

Lemma head_snapshot_canonical : forall w,
  Reachable w -> w_coll w = false -> SmallStore (w_objs w) ->
  Canonical (head_snapshot w) /\ Forall valid_entry (head_snapshot w).
Proof.
  intros w Hr Hc Hsm. destruct (tip_of w) as [hid|] eqn:Ht.
  - destruct (reachable_tip_snapshot w hid Hr Hc Hsm Ht) as (s & _ & -> & Hcan & Hval). auto.
  - rewrite (head_snapshot_no_tip w Ht). split; [apply Canonical_nil | constructor].
Qed.

(* ---------- commit ---------- *)
(* C07_commit_succeeds_on_any_staged_difference without its hypothesis
   [snapshot (w_objs w) hid = Some s], and the first commit in the same
   statement: the staging area differs from [head_snapshot w] *)
Theorem reachable_commit_succeeds : forall w e msg c,
  Reachable w -> w_coll w = false -> SmallStore (w_objs w) ->
  ctx_of w = Some c ->
  head_snapshot w <> idx_of w ->
  user_set (x_l c) (x_g c) = true ->
  sign_ok (user_name (x_l c) (x_g c)) (user_email (x_l c) (x_g c)) (e_time e) (e_off e) ->
  exists root subs, write_tree_top (idx_of w) = Some (root, subs) /\
    step (ACmd e (CCommit msg)) w
    = (after_commit e c msg w root subs, OOk [], do_commit_trace e c msg w root subs).
Proof.
  intros w e msg c Hr Hc Hsm Hx Hne Hu Hso.
  destruct (tip_of w) as [hid|] eqn:Ht.
  - destruct (reachable_tip_snapshot w hid Hr Hc Hsm Ht) as (s & Hs & Hhs & _).
    rewrite Hhs in Hne.
    exact (history_commit_succeeds w e msg c hid s Hr Hc Hsm Hx Ht Hs Hne Hu Hso).
  - rewrite (head_snapshot_no_tip w Ht) in Hne.
    apply HeadFacts.history_first_commit_succeeds'; try assumption.
    + exact (reachable_no_tip w Hr Hc Hsm Ht).
    + intro E. apply Hne. symmetry. exact E.
Qed.

(* the same in the shape of the Props theorem: the tip is named, its snapshot
   is found, not assumed *)
Corollary reachable_commit_succeeds_tip : forall w e msg c hid,
  Reachable w -> w_coll w = false -> SmallStore (w_objs w) ->
  ctx_of w = Some c -> tip_of w = Some hid ->
  exists s, snapshot (w_objs w) hid = Some s /\
    (s <> idx_of w ->
     user_set (x_l c) (x_g c) = true ->
     sign_ok (user_name (x_l c) (x_g c)) (user_email (x_l c) (x_g c)) (e_time e) (e_off e) ->
     exists root subs, write_tree_top (idx_of w) = Some (root, subs) /\
       step (ACmd e (CCommit msg)) w
       = (after_commit e c msg w root subs, OOk [], do_commit_trace e c msg w root subs)).
Proof.
  intros w e msg c hid Hr Hc Hsm Hx Ht.
  destruct (reachable_tip_snapshot w hid Hr Hc Hsm Ht) as (s & Hs & _).
  exists s. split; [exact Hs|]. intros Hne Hu Hso.
  exact (history_commit_succeeds w e msg c hid s Hr Hc Hsm Hx Ht Hs Hne Hu Hso).
Qed.

(* EXACTLY: on a reachable repository whose context loads and whose identity
   and clock are in the domain of C12, `commit` (any message) succeeds iff an
   identity is configured and the staging area differs from HEAD's snapshot
   (the empty snapshot before the first commit) *)
Theorem reachable_commit_succeeds_iff : forall e msg w c,
  Reachable w -> w_coll w = false -> SmallStore (w_objs w) ->
  ctx_of w = Some c ->
  sign_ok (user_name (x_l c) (x_g c)) (user_email (x_l c) (x_g c)) (e_time e) (e_off e) ->
  ((exists out, snd (fst (step (ACmd e (CCommit msg)) w)) = OOk out) <->
   user_set (x_l c) (x_g c) = true /\ head_snapshot w <> idx_of w).
Proof.
  intros e msg w c Hr Hc Hsm Hx Hso. split.
  - intros [out Ho].
    destruct (step (ACmd e (CCommit msg)) w) as [[w' o] tr] eqn:Hstep. cbn [fst snd] in Ho. subst o.
    destruct (commit_success_inv e msg w w' out tr Hstep)
      as (_ & Hi & c' & root' & subs' & cm & Hx' & Hgate & _).
    rewrite Hx in Hx'. injection Hx' as <-.
    destruct (tip_of w) as [hid|] eqn:Ht.
    + destruct (reachable_tip_snapshot w hid Hr Hc Hsm Ht) as (s & Hs & Hhs & _).
      rewrite Hhs.
      apply (commit_succeeds_iff e msg w c hid s); try assumption.
      * apply reachable_good; assumption.
      * intros root subs _. rewrite (commit_parses e c msg w root Hso); [discriminate|].
        intros tip Htip. exact (loaded_tip_length w c tip Hx Htip).
      * exists out. rewrite Hstep. reflexivity.
    + destruct Hgate as [Hu Hg]. split; [exact Hu|].
      rewrite (head_snapshot_no_tip w Ht), (reachable_no_tip w Hr Hc Hsm Ht) in *.
      intro E. apply Hg. symmetry. exact E.
  - intros [Hu Hne].
    destruct (reachable_commit_succeeds w e msg c Hr Hc Hsm Hx Hne Hu Hso) as (root & subs & _ & Hstep).
    exists []. rewrite Hstep. reflexivity.
Qed.

(* refused = no identity, or nothing staged that HEAD's snapshot does not hold;
   `commit` never crashes *)
Corollary reachable_commit_refused_iff : forall e msg w c,
  Reachable w -> w_coll w = false -> SmallStore (w_objs w) ->
  ctx_of w = Some c ->
  sign_ok (user_name (x_l c) (x_g c)) (user_email (x_l c) (x_g c)) (e_time e) (e_off e) ->
  (snd (fst (step (ACmd e (CCommit msg)) w)) = OErr <->
   user_set (x_l c) (x_g c) = false \/ head_snapshot w = idx_of w).
Proof.
  intros e msg w c Hr Hc Hsm Hx Hso.
  pose proof (reachable_commit_succeeds_iff e msg w c Hr Hc Hsm Hx Hso) as Hiff.
  pose proof (commit_never_panics e msg w) as Hnp.
  assert (Hdec : head_snapshot w = idx_of w \/ head_snapshot w <> idx_of w).
  { assert (Hed : forall a b : entry, {a = b} + {a <> b}).
    { intros [i1 p1] [i2 p2]. destruct (bytes_eq_dec i1 i2) as [->|Ni]; [|right; intro E; injection E as E _; exact (Ni E)].
      destruct (bytes_eq_dec p1 p2) as [->|Np]; [left; reflexivity | right; intro E; injection E as E; exact (Np E)]. }
    destruct (list_eq_dec Hed (head_snapshot w) (idx_of w)); auto. }
  destruct (snd (fst (step (ACmd e (CCommit msg)) w))) as [out| |] eqn:Eo.
  - split; [intro H; discriminate H|].
    destruct (proj1 Hiff (ex_intro _ out eq_refl)) as [Hu Hne].
    intros [Hf|He]; [rewrite Hu in Hf; discriminate Hf | contradiction].
  - split; [|intros _; reflexivity]. intros _.
    destruct (user_set (x_l c) (x_g c)) eqn:Hu; [|left; reflexivity].
    destruct Hdec as [He|Hne]; [right; exact He|].
    destruct (proj2 Hiff (conj eq_refl Hne)) as [out Ho]. discriminate Ho.
  - contradiction Hnp. reflexivity.
Qed.

(* ---------- status ---------- *)
(* C07_status_staged_section_exact without [snapshot (w_objs w) hid = Some s] *)
Theorem reachable_status_staged_section_exact : forall w e c hid,
  Reachable w -> w_coll w = false -> SmallStore (w_objs w) ->
  ctx_of w = Some c -> tip_of w = Some hid ->
  exists s ns, snapshot (w_objs w) hid = Some s /\ head_snapshot w = s /\
    head_nodes c w = Some ns /\ flatten [] ns = s /\
    let out := staged_lines w ns ++ unstaged_lines w c in
    step (ACmd e CStatus) w = (w, OOk out, []) /\
    filter is_staged_line out
    = map (fun d => dkind_tag (fst d) ++ snd d) (diff_with_tree (idx_of w) ns) /\
    (forall k p, In (dkind_tag k ++ p) out <-> classify (stg s p) (staged w p) = Some k) /\
    (forall p, (exists k, In (dkind_tag k ++ p) out) <-> staged w p <> stg s p) /\
    NoDup (map snd (diff_with_tree (idx_of w) ns)).
Proof.
  intros w e c hid Hr Hc Hsm Hx Ht.
  destruct (reachable_tip_snapshot w hid Hr Hc Hsm Ht) as (s & Hs & Hhs & _).
  destruct (history_status_exact w e c hid s Hr Hc Hsm Hx Ht Hs) as (ns & H).
  exists s, ns. split; [exact Hs|]. split; [exact Hhs | exact H].
Qed.

(* before the first commit: the comparison is made with the empty snapshot,
   every staged path is listed, once, as new.  ([w_inited w = true] cannot be
   dropped here: before `init` the context of an empty directory loads, and
   `status` is refused) *)
Theorem reachable_status_before_first_commit : forall w e c,
  Reachable w -> w_coll w = false -> SmallStore (w_objs w) ->
  w_inited w = true -> ctx_of w = Some c -> tip_of w = None ->
  let out := map (fun en => str "staged-new "%string ++ e_path en) (idx_of w) ++ unstaged_lines w c in
  step (ACmd e CStatus) w = (w, OOk out, []) /\
  filter is_staged_line out = map (fun en => str "staged-new "%string ++ e_path en) (idx_of w) /\
  (forall k p, In (dkind_tag k ++ p) out <-> (k = DNew /\ staged w p <> None)) /\
  (forall k p, In (dkind_tag k ++ p) out <-> classify (stg [] p) (staged w p) = Some k) /\
  (forall p, (exists k, In (dkind_tag k ++ p) out) <-> staged w p <> stg [] p) /\
  NoDup (map e_path (idx_of w)).
Proof.
  intros w e c Hr Hc Hsm Hi Hx Ht out.
  destruct (reachable_good w Hr Hc Hsm) as (_ & [Hcan _] & _).
  assert (Hstep : step (ACmd e CStatus) w = (w, OOk (staged_lines w [] ++ unstaged_lines w c), [])).
  { apply status_step; [exact Hi | exact Hx|]. unfold status_nodes.
    rewrite (loaded_no_head w c Hx Ht). reflexivity. }
  assert (Hout : out = staged_lines w [] ++ unstaged_lines w c).
  { unfold out, staged_lines. rewrite diff_with_no_tree, map_map. reflexivity. }
  assert (Hcls : forall k p, In (dkind_tag k ++ p) out <-> classify (stg [] p) (staged w p) = Some k).
  { intros k p. rewrite Hout, staged_line_in_report, staged_stg.
    exact (diff_classifies (idx_of w) [] Hcan (Forall_nil _) Canonical_nil k p). }
  split; [rewrite Hout; exact Hstep|].
  split; [rewrite Hout, staged_section_is_filter; unfold staged_lines;
          rewrite diff_with_no_tree, map_map; reflexivity|].
  split.
  { intros k p. rewrite Hcls. unfold stg at 1. cbn [get_entry option_map].
    destruct (staged w p) as [id|]; cbn [classify]; split.
    - intro H. injection H as <-. split; [reflexivity | discriminate].
    - intros [-> _]. reflexivity.
    - intro H. discriminate H.
    - intros [_ H]. contradiction H. reflexivity. }
  split; [exact Hcls|].
  split; [|apply Canonical_NoDup_paths; exact Hcan].
  intro p. split.
  - intros [k Hk] Heq. apply Hcls in Hk.
    assert (Hn : classify (stg [] p) (staged w p) = None) by (apply classify_none_iff; symmetry; exact Heq).
    rewrite Hn in Hk. discriminate Hk.
  - intro Hne. destruct (classify (stg [] p) (staged w p)) as [k|] eqn:E.
    + exists k. apply Hcls. exact E.
    + apply classify_none_iff in E. exfalso. apply Hne. symmetry. exact E.
Qed.

(* both cases in one statement, with [head_snapshot] *)
Theorem reachable_status_exact : forall w e c,
  Reachable w -> w_coll w = false -> SmallStore (w_objs w) ->
  w_inited w = true -> ctx_of w = Some c ->
  exists ns, status_nodes c w = Some ns /\ flatten [] ns = head_snapshot w /\
    let out := staged_lines w ns ++ unstaged_lines w c in
    step (ACmd e CStatus) w = (w, OOk out, []) /\
    filter is_staged_line out
    = map (fun d => dkind_tag (fst d) ++ snd d) (diff_with_tree (idx_of w) ns) /\
    (forall k p, In (dkind_tag k ++ p) out <->
                 classify (stg (head_snapshot w) p) (staged w p) = Some k) /\
    (forall p, (exists k, In (dkind_tag k ++ p) out) <-> staged w p <> stg (head_snapshot w) p) /\
    NoDup (map snd (diff_with_tree (idx_of w) ns)).
Proof.
  intros w e c Hr Hc Hsm Hi Hx. destruct (tip_of w) as [hid|] eqn:Ht.
  - destruct (reachable_status_staged_section_exact w e c hid Hr Hc Hsm Hx Ht)
      as (s & ns & Hs & Hhs & Hn & Hf & H).
    exists ns. rewrite Hhs.
    split; [|split; [exact Hf | exact H]].
    unfold status_nodes. destruct (loaded_head w c hid Hx Ht) as (cm & -> & _). exact Hn.
  - destruct (reachable_status_before_first_commit w e c Hr Hc Hsm Hi Hx Ht)
      as (Hstep & Hfil & _ & Hcls & Hdiff & Hnd).
    exists []. rewrite (head_snapshot_no_tip w Ht).
    split; [unfold status_nodes; rewrite (loaded_no_head w c Hx Ht); reflexivity|].
    split; [reflexivity|]. cbv zeta.
    assert (Hout : staged_lines w [] ++ unstaged_lines w c
                   = map (fun en => str "staged-new "%string ++ e_path en) (idx_of w) ++ unstaged_lines w c).
    { unfold staged_lines. rewrite diff_with_no_tree, map_map. reflexivity. }
    rewrite Hout. split; [exact Hstep|].
    split; [rewrite Hfil, diff_with_no_tree, map_map; reflexivity|].
    split; [exact Hcls|]. split; [exact Hdiff|].
    rewrite diff_with_no_tree, map_map. cbn [snd]. exact Hnd.
Qed.

(* [w_inited] is implied as soon as there is a branch or an index file *)
Corollary reachable_status_exact_tracked : forall w e c,
  Reachable w -> w_coll w = false -> SmallStore (w_objs w) ->
  w_refs w <> [] \/ w_index w <> None -> ctx_of w = Some c ->
  exists out, step (ACmd e CStatus) w = (w, OOk out, []) /\
    (forall k p, In (dkind_tag k ++ p) out <->
                 classify (stg (head_snapshot w) p) (staged w p) = Some k) /\
    (forall p, (exists k, In (dkind_tag k ++ p) out) <-> staged w p <> stg (head_snapshot w) p).
Proof.
  intros w e c Hr Hc Hsm Hne Hx.
  destruct (reachable_status_exact w e c Hr Hc Hsm (reachable_inited w Hr Hne) Hx)
    as (ns & _ & _ & Hstep & _ & Hcls & Hdiff & _).
  eexists. split; [exact Hstep|]. split; assumption.
Qed.

(* the hypothesis [w_inited w = true] of the statements about `status` with no
   commit yet is needed: in the empty directory the context loads and `status`
   is refused ("not a goit repository") *)
Example status_before_init_refused : forall e,
  ctx_of w_empty <> None /\ Reachable w_empty /\ step (ACmd e CStatus) w_empty = (w_empty, OErr, []).
Proof.
  intro e. split; [vm_compute; discriminate|]. split; [exists []; split; [constructor | reflexivity]|].
  apply status_step_refused. left. reflexivity.
Qed.

(* ================================================================== *)
(** * 2. C17 on reachable repositories *)

(* C17_add_never_stages_excluded without [Canonical (idx_of w)] *)
Theorem reachable_add_never_stages_excluded : forall e args w w' o tr,
  Reachable w -> w_coll w = false -> SmallStore (w_objs w) ->
  step (ACmd e (CAdd args)) w = (w', o, tr) ->
  (forall q, goit_path q -> staged w' q = staged w q \/ staged w' q = None) /\
  (ex_wt_consistent w -> forall c, ctx_of w = Some c -> forall q,
     staged w' q <> staged w q -> staged w' q <> None ->
     ignored w (x_pats c) q = false /\ ign_match (x_pats c) q = false).
Proof.
  intros e args w w' o tr Hr Hc Hsm Hstep.
  destruct (reachable_good w Hr Hc Hsm) as (_ & [Hcan _] & _).
  exact (add_step_never_stages_excluded e args w w' o tr Hcan Hstep).
Qed.

(* ------------------------------------------------------------------ *)
(** ** 2a. The executable check of [ex_wt_consistent] *)

Definition wt_consistent_chk (w : world) : bool :=
  forallb (fun kv => match wt_stat w (fst kv) with SFile => true | _ => false end) (w_files w).

Theorem wt_consistent_chk_iff : forall w, wt_consistent_chk w = true <-> ex_wt_consistent w.
Proof.
  intro w. split; [apply wt_consistent_b|].
  intro H. unfold wt_consistent_chk. apply forallb_forall. intros [k v] Hin. cbn [fst].
  destruct (ex_am_get_in _ _ _ _ Hin) as [v' Hv']. rewrite (H k v' Hv'). reflexivity.
Qed.

(* ------------------------------------------------------------------ *)
(** ** 2b. Paths and their ancestors *)

Lemma anc_from_app : forall s1 s2 pre,
  ancestors_from pre (s1 ++ s2) = ancestors_from pre s1 ++ ancestors_from (rev s1 ++ pre) s2.
Proof.
  induction s1 as [|c s1 IH]; intros s2 pre; [reflexivity|].
  cbn [app ancestors_from rev]. rewrite IH, <- app_assoc. cbn [app].
  destruct (beqb c c_slash); reflexivity.
Qed.

Lemma anc_from_noslash : forall s pre, ~ In c_slash s -> ancestors_from pre s = [].
Proof.
  intros s pre H. rewrite RestoreFacts.rf_ancestors_from_map.
  change (ancestors_from [] s) with (ancestors s).
  rewrite (RestoreFacts.rf_ancestors_noslash s H). reflexivity.
Qed.

Lemma anc_split : forall dd n, ~ In c_slash n ->
  ancestors (dd ++ c_slash :: n) = ancestors dd ++ [dd].
Proof.
  intros dd n Hn. unfold ancestors. rewrite anc_from_app. cbn [ancestors_from].
  rewrite beqb_refl, app_nil_r, rev_involutive, (anc_from_noslash n _ Hn). reflexivity.
Qed.

Lemma last_slash_split : forall p : bytes,
  ~ In c_slash p \/ exists dd n, p = dd ++ c_slash :: n /\ ~ In c_slash n.
Proof.
  induction p as [|c p IH]; [left; intros []|].
  destruct IH as [Hn|(dd & n & -> & Hn)].
  - destruct (Byte.byte_eq_dec c c_slash) as [->|Hc].
    + right. exists [], p. split; [reflexivity | exact Hn].
    + left. intros [E|Hin]; [apply Hc; exact E | exact (Hn Hin)].
  - right. exists (c :: dd), n. split; [reflexivity | exact Hn].
Qed.

Lemma anc_snoc : forall p dd, parent_dir p = Some dd -> ancestors p = ancestors dd ++ [dd].
Proof.
  intros p dd. destruct (last_slash_split p) as [Hn|(d0 & n & -> & Hn)].
  - unfold parent_dir. rewrite (RestoreFacts.rf_ancestors_noslash p Hn). discriminate.
  - unfold parent_dir. rewrite (anc_split d0 n Hn), rev_app_distr. cbn [rev app].
    intro H. injection H as <-. reflexivity.
Qed.

Lemma parent_none_anc : forall p, parent_dir p = None -> ancestors p = [].
Proof.
  intros p. unfold parent_dir. destruct (rev (ancestors p)) as [|x l] eqn:E; [|discriminate].
  intros _. apply (f_equal (@rev bytes)) in E. rewrite rev_involutive in E. exact E.
Qed.

Lemma anc_dot : ancestors [x2e] = [].
Proof. reflexivity. Qed.

Lemma anc_neq : forall a x, In a (ancestors x) -> a <> x.
Proof. intros a x H E. subst a. apply ex_ancestor_shorter in H. lia. Qed.

(* an ancestor that [under_dir] does not see: the path is the ancestor
   followed by one slash *)
Lemma anc_not_under : forall a x,
  In a (ancestors x) -> a <> [x2e] -> under_dir a x = false -> x = a ++ [c_slash].
Proof.
  intros a x Hin Hd Hu. apply ancestors_In in Hin. destruct Hin as [r ->].
  destruct r as [|b r]; [reflexivity|]. exfalso.
  assert (Ht : under_dir a (a ++ c_slash :: b :: r) = true).
  { apply (under_dir_spec a _ Hd). exists (b :: r). split; [discriminate | reflexivity]. }
  rewrite Ht in Hu. discriminate Hu.
Qed.

Lemma under_anc : forall p a x, under_dir p a = true -> In a (ancestors x) -> under_dir p x = true.
Proof.
  intros p a x Hu Hin. apply ancestors_In in Hin. destruct Hin as [r ->].
  destruct (bytes_eq_dec p [x2e]) as [->|Hd].
  - apply under_dir_dot. apply under_dir_dot in Hu. destruct a; [contradiction Hu; reflexivity | discriminate].
  - apply (under_dir_spec p _ Hd) in Hu. destruct Hu as (rest & Hne & ->).
    apply (under_dir_spec p _ Hd). exists (rest ++ c_slash :: r). split.
    + destruct rest; [contradiction Hne; reflexivity | discriminate].
    + rewrite <- !app_assoc. reflexivity.
Qed.

Lemma valid_no_dslash : forall a r, ~ valid_path (a ++ c_slash :: c_slash :: r).
Proof.
  intros a r Hv. unfold valid_path in Hv. rewrite BranchFacts.split_all_app_sep in Hv.
  apply Forall_app in Hv. destruct Hv as [_ Hv]. cbn [split_all] in Hv. rewrite beqb_refl in Hv.
  inversion Hv as [|x l [Hne _] _]; subst. apply Hne. reflexivity.
Qed.

Lemma valid_no_trailing : forall a, ~ valid_path (a ++ [c_slash]).
Proof.
  intros a Hv. apply StatusFacts.valid_path_last in Hv. apply Hv. apply last_last.
Qed.

(* ------------------------------------------------------------------ *)
(** ** 2c. Look-ups after the three work-tree effects *)

Lemma file_write : forall w p data f,
  file (apply_effect (EWriteFile p data) w) f = if bytes_eqb f p then Some data else file w f.
Proof.
  intros w p data f. unfold file. rewrite w_files_EWriteFile.
  destruct (bytes_eqb f p) eqn:E.
  - apply bytes_eqb_eq in E. subst f. apply ex_am_get_set_same.
  - apply bytes_eqb_neq in E. apply ex_am_get_set_other. exact E.
Qed.

Lemma file_remove_mono : forall w p f,
  file (apply_effect (ERemovePath p) w) f <> None -> file w f <> None.
Proof.
  intros w p f H. unfold file in *. rewrite w_files_ERemovePath in H.
  destruct (am_get (am_del (w_files w) p) f) as [d|] eqn:E; [|contradiction H; reflexivity].
  destruct (am_get_del_some _ _ _ _ _ E) as [d' ->]. discriminate.
Qed.

Lemma file_remove_none : forall w p f,
  file w f = None -> file (apply_effect (ERemovePath p) w) f = None.
Proof.
  intros w p f H. destruct (file (apply_effect (ERemovePath p) w) f) as [d|] eqn:E; [|reflexivity].
  exfalso. apply (file_remove_mono w p f); [rewrite E; discriminate | exact H].
Qed.

Lemma set_del_In : forall s p x, In x (set_del s p) <-> In x s /\ x <> p.
Proof.
  intros s p x. unfold set_del. rewrite filter_In. split; intros [H1 H2]; (split; [exact H1|]).
  - intro E. subst x. rewrite bytes_eqb_refl in H2. discriminate H2.
  - apply negb_true_iff. apply bytes_eqb_neq. exact H2.
Qed.

Lemma dirs_mkdir_In : forall w d x,
  In x (w_dirs (apply_effect (EMkdirAll d) w)) <-> In x (w_dirs w) \/ In x (ancestors d ++ [d]).
Proof. intros w d x. rewrite w_dirs_EMkdirAll. apply StatusFacts.fold_set_add_In. Qed.

Lemma am_get_filter_key : forall (V : Type) (g : bytes * V -> bool) (m : amap V) k v,
  am_get (filter g m) k = Some v -> g (k, v) = true.
Proof.
  intros V g m k v. induction m as [|[k' v'] r IH]; cbn [filter]; [discriminate|].
  destruct (g (k', v')) eqn:Eg; [|exact IH].
  cbn [am_get]. destruct (bytes_eqb k' k) eqn:E; [|exact IH].
  intro H. injection H as <-. apply bytes_eqb_eq in E. subst k'. exact Eg.
Qed.

(* ------------------------------------------------------------------ *)
(** ** 2d. What [wt_stat] answers *)

Lemma file_none_mem : forall w x, file w x = None -> am_mem (w_files w) x = false.
Proof. intros w x H. apply am_mem_false. exact H. Qed.

Lemma anc_clear : forall w p,
  (forall d, In d (ancestors p) -> file w d = None) ->
  existsb (fun d => am_mem (w_files w) d) (ancestors p) = false.
Proof.
  intros w p H. destruct (existsb (fun d => am_mem (w_files w) d) (ancestors p)) eqn:E; [|reflexivity].
  apply existsb_exists in E. destruct E as [d [Hd Hm]].
  rewrite (file_none_mem w d (H d Hd)) in Hm. discriminate Hm.
Qed.

Lemma anc_clear_inv : forall w p d,
  existsb (fun d => am_mem (w_files w) d) (ancestors p) = false -> In d (ancestors p) -> file w d = None.
Proof.
  intros w p d E Hd. apply am_mem_false. destruct (am_mem (w_files w) d) eqn:Em; [|reflexivity].
  assert (Hex : existsb (fun d => am_mem (w_files w) d) (ancestors p) = true).
  { apply existsb_exists. exists d. split; assumption. }
  rewrite Hex in E. discriminate E.
Qed.

Lemma stat_SFile_inv : forall w p, wt_stat w p = SFile ->
  p <> [x2e] /\ (forall d, In d (ancestors p) -> file w d = None) /\ file w p <> None.
Proof.
  intros w p. unfold wt_stat. destruct (bytes_eqb p [x2e]) eqn:Ed; [discriminate|].
  destruct (existsb (fun d => am_mem (w_files w) d) (ancestors p)) eqn:Ea; [discriminate|].
  destruct (am_mem (w_files w) p) eqn:Em.
  - intros _. split; [apply bytes_eqb_neq; exact Ed|]. split; [intros d Hd; exact (anc_clear_inv w p d Ea Hd)|].
    apply ex_am_mem_get. exact Em.
  - destruct (set_mem (w_dirs w) p); discriminate.
Qed.

Lemma stat_SNone_inv : forall w p, wt_stat w p = SNone ->
  p <> [x2e] /\ (forall d, In d (ancestors p) -> file w d = None) /\ file w p = None /\ ~ In p (w_dirs w).
Proof.
  intros w p H. destruct (StatusFacts.wt_stat_SNone_inv w p H) as (H1 & H2 & H3 & H4).
  split; [exact H1|]. split; [intros d Hd; apply am_mem_false; exact (H2 d Hd)|]. split; [exact H3|].
  intro Hin. apply StatusFacts.set_mem_iff in Hin. rewrite Hin in H4. discriminate H4.
Qed.

Lemma stat_SDir_inv : forall w p, wt_stat w p = SDir ->
  p = [x2e] \/
  (p <> [x2e] /\ (forall d, In d (ancestors p) -> file w d = None) /\ file w p = None /\ In p (w_dirs w)).
Proof.
  intros w p. unfold wt_stat. destruct (bytes_eqb p [x2e]) eqn:Ed.
  - intros _. left. apply bytes_eqb_eq. exact Ed.
  - destruct (existsb (fun d => am_mem (w_files w) d) (ancestors p)) eqn:Ea; [discriminate|].
    destruct (am_mem (w_files w) p) eqn:Em; [discriminate|].
    destruct (set_mem (w_dirs w) p) eqn:Es; [|discriminate].
    intros _. right. split; [apply bytes_eqb_neq; exact Ed|].
    split; [intros d Hd; exact (anc_clear_inv w p d Ea Hd)|].
    split; [apply am_mem_false; exact Em | apply StatusFacts.set_mem_iff; exact Es].
Qed.

Lemma stat_wt_put_ok : forall w p, wt_stat w p = SFile \/ wt_stat w p = SNone -> wt_put_ok w p.
Proof.
  intros w p [H|H].
  - destruct (stat_SFile_inv w p H) as (H1 & H2 & H3).
    split; [exact H1|]. split; [intros d Hd; apply file_none_mem; exact (H2 d Hd)|].
    left. apply ex_am_mem_get. exact H3.
  - destruct (StatusFacts.wt_stat_SNone_inv w p H) as (H1 & H2 & H3 & H4).
    split; [exact H1|]. split; [exact H2|]. right. exact H4.
Qed.

Lemma wt_put_ok_inv : forall w p, wt_put_ok w p ->
  p <> [x2e] /\ (forall d, In d (ancestors p) -> file w d = None) /\
  (file w p <> None \/ ~ In p (w_dirs w)).
Proof.
  intros w p (H1 & H2 & H3). split; [exact H1|].
  split; [intros d Hd; apply am_mem_false; exact (H2 d Hd)|].
  destruct H3 as [H3|H3]; [left; apply ex_am_mem_get; exact H3|].
  right. intro Hin. apply StatusFacts.set_mem_iff in Hin. rewrite Hin in H3. discriminate H3.
Qed.

(* after [mkdir -p d] (nothing in the way), [d] is a directory *)
Lemma mkdir_stat_SDir : forall w d,
  wt_stat w d = SNone \/ wt_stat w d = SDir ->
  wt_stat (apply_effect (EMkdirAll d) w) d = SDir.
Proof.
  intros w d H.
  assert (Hc : d = [x2e] \/ (d <> [x2e] /\ (forall a, In a (ancestors d) -> file w a = None) /\ file w d = None)).
  { destruct H as [H|H].
    - destruct (stat_SNone_inv w d H) as (H1 & H2 & H3 & _). right. auto.
    - destruct (stat_SDir_inv w d H) as [->|(H1 & H2 & H3 & _)]; [left; reflexivity | right; auto]. }
  destruct Hc as [->|(H1 & H2 & H3)]; [reflexivity|].
  unfold wt_stat. rewrite w_files_EMkdirAll.
  apply bytes_eqb_neq in H1. rewrite H1, (anc_clear w d H2), (file_none_mem w d H3).
  assert (Hs : set_mem (w_dirs (apply_effect (EMkdirAll d) w)) d = true).
  { apply StatusFacts.set_mem_iff. apply dirs_mkdir_In. right. apply in_or_app. right. left. reflexivity. }
  rewrite Hs. reflexivity.
Qed.

(* ------------------------------------------------------------------ *)
(** ** 2e. The invariant behind [ex_wt_consistent]

   [ex_wt_consistent] alone is NOT preserved by the commands (see
   [cx_consistent_not_preserved] below): `restore` and `reset --hard` create
   the file p when nothing exists at p, and "nothing exists" is decided from
   the list of directories.  What is preserved is the description of a work
   tree a file system can hold:
   - no file is "." or lies below a file                  ([ex_wt_consistent]);
   - every directory above a file exists;
   - every directory above a directory exists;
   - no path is both a file and a directory. *)
Record WtTree (w : world) : Prop := {
  wt_cons : forall f, file w f <> None ->
              f <> [x2e] /\ forall d, In d (ancestors f) -> file w d = None;
  wt_cover : forall f d, file w f <> None -> In d (ancestors f) -> d = [x2e] \/ In d (w_dirs w);
  (* ([x = a ++ "/"]: a directory the user made with a trailing slash in its
     name; it is never above a file with a valid path) *)
  wt_closed : forall x a, In x (w_dirs w) -> In a (ancestors x) ->
              a = [x2e] \/ In a (w_dirs w) \/ x = a ++ [c_slash];
  wt_disj : forall x, In x (w_dirs w) -> file w x = None }.

Theorem WtTree_consistent : forall w, WtTree w -> ex_wt_consistent w.
Proof.
  intros w H f data Hf.
  destruct (wt_cons w H f) as [Hd Ha]; [rewrite Hf; discriminate|].
  unfold wt_stat. apply bytes_eqb_neq in Hd. rewrite Hd, (anc_clear w f Ha).
  assert (Hm : am_mem (w_files w) f = true) by (apply ex_am_mem_get; unfold file in Hf; rewrite Hf; discriminate).
  rewrite Hm. reflexivity.
Qed.

Lemma WtTree_ext : forall w w',
  w_files w' = w_files w -> w_dirs w' = w_dirs w -> WtTree w -> WtTree w'.
Proof.
  intros w w' Hf Hd [H1 H2 H3 H4]. unfold file in *.
  constructor; unfold file; rewrite ?Hf, ?Hd; assumption.
Qed.

Lemma WtTree_empty : WtTree w_empty.
Proof.
  constructor.
  - intros f H. contradiction H. reflexivity.
  - intros f d H. contradiction H. reflexivity.
  - intros x a [].
  - intros x [].
Qed.

(* the executable form *)
Definition wt_tree_chk (w : world) : bool :=
  wt_consistent_chk w
  && forallb (fun kv => forallb (fun d => bytes_eqb d [x2e] || set_mem (w_dirs w) d) (ancestors (fst kv))) (w_files w)
  && forallb (fun x => forallb (fun a => bytes_eqb a [x2e] || set_mem (w_dirs w) a || bytes_eqb x (a ++ [c_slash]))
                               (ancestors x)) (w_dirs w)
  && forallb (fun x => negb (am_mem (w_files w) x)) (w_dirs w).

Theorem wt_tree_chk_sound : forall w, wt_tree_chk w = true -> WtTree w.
Proof.
  intros w H. unfold wt_tree_chk in H.
  apply andb_true_iff in H. destruct H as [H H4].
  apply andb_true_iff in H. destruct H as [H H3].
  apply andb_true_iff in H. destruct H as [H1 H2].
  apply wt_consistent_chk_iff in H1.
  rewrite forallb_forall in H2, H3, H4.
  assert (Hin : forall f, file w f <> None -> exists v, In (f, v) (w_files w)).
  { intros f Hf. unfold file in Hf. destruct (am_get (w_files w) f) as [v|] eqn:E; [|contradiction Hf; reflexivity].
    exists v. apply (am_get_In _ _ _ _ E). }
  constructor.
  - intros f Hf. destruct (file w f) as [data|] eqn:E; [|contradiction Hf; reflexivity].
    pose proof (H1 f data E) as Hs. destruct (stat_SFile_inv w f Hs) as (Hd & Ha & _). auto.
  - intros f d Hf Hd. destruct (Hin f Hf) as [v Hv].
    specialize (H2 (f, v) Hv). cbn [fst] in H2. rewrite forallb_forall in H2.
    specialize (H2 d Hd). apply orb_true_iff in H2. destruct H2 as [H2|H2].
    + left. apply bytes_eqb_eq. exact H2.
    + right. apply StatusFacts.set_mem_iff. exact H2.
  - intros x a Hx Ha. specialize (H3 x Hx). rewrite forallb_forall in H3. specialize (H3 a Ha).
    apply orb_true_iff in H3. destruct H3 as [H3|H3].
    + apply orb_true_iff in H3. destruct H3 as [H3|H3].
      * left. apply bytes_eqb_eq. exact H3.
      * right. left. apply StatusFacts.set_mem_iff. exact H3.
    + right. right. apply bytes_eqb_eq. exact H3.
  - intros x Hx. specialize (H4 x Hx). apply negb_true_iff in H4. apply am_mem_false. exact H4.
Qed.

(* ------------------------------------------------------------------ *)
(** ** 2f. Which single effects keep [WtTree] *)

(* what the program has checked when it performs a work-tree effect *)
Definition wt_safe (w : world) (e : effect) : Prop :=
  match e with
  | EWriteFile p _ =>
      (wt_stat w p = SFile \/ wt_stat w p = SNone) /\
      (forall d, parent_dir p = Some d -> wt_stat w d = SDir)
  | ERemovePath p => wt_stat w p = SFile \/ wt_stat w p = SNone \/ dir_empty w p = true
  | EMkdirAll d => wt_stat w d = SNone \/ wt_stat w d = SDir
  | _ => True
  end.

Lemma dir_empty_inv : forall w p, dir_empty w p = true ->
  (forall f, file w f <> None -> under_dir p f = false) /\
  (forall x, In x (w_dirs w) -> under_dir p x = false).
Proof.
  intros w p H. unfold dir_empty in H. apply andb_true_iff in H. destruct H as [Hf Hd].
  apply negb_true_iff in Hf. apply negb_true_iff in Hd. split.
  - intros f Hn. unfold file in Hn. destruct (am_get (w_files w) f) as [v|] eqn:E; [|contradiction Hn; reflexivity].
    destruct (under_dir p f) eqn:Eu; [|reflexivity].
    assert (Hex : existsb (fun kv => under_dir p (fst kv)) (w_files w) = true).
    { apply existsb_exists. exists (f, v). split; [apply (am_get_In _ _ _ _ E) | exact Eu]. }
    rewrite Hex in Hf. discriminate Hf.
  - intros x Hx. destruct (under_dir p x) eqn:Eu; [|reflexivity].
    assert (Hex : existsb (fun x => under_dir p x) (w_dirs w) = true).
    { apply existsb_exists. exists x. split; assumption. }
    rewrite Hex in Hd. discriminate Hd.
Qed.

Lemma WtTree_write : forall w p data,
  WtTree w -> valid_path p -> wt_safe w (EWriteFile p data) ->
  WtTree (apply_effect (EWriteFile p data) w).
Proof.
  intros w p data H Hv [Hst Hpar].
  destruct (wt_put_ok_inv w p (stat_wt_put_ok w p Hst)) as (Hp1 & Hp2 & Hp3).
  pose proof (file_write w p data) as Hf'.
  assert (Hd' : w_dirs (apply_effect (EWriteFile p data) w) = w_dirs w) by apply w_dirs_EWriteFile.
  constructor.
  - intros f Hf. rewrite Hf' in Hf. destruct (bytes_eqb f p) eqn:E.
    + apply bytes_eqb_eq in E. subst f. split; [exact Hp1|]. intros d Hd. rewrite Hf'.
      destruct (bytes_eqb d p) eqn:E2; [|exact (Hp2 d Hd)].
      apply bytes_eqb_eq in E2. subst d. contradiction (anc_neq p p Hd). reflexivity.
    + destruct (wt_cons w H f Hf) as [Hfd Hfa]. split; [exact Hfd|]. intros d Hd. rewrite Hf'.
      destruct (bytes_eqb d p) eqn:E2; [exfalso | exact (Hfa d Hd)].
      apply bytes_eqb_eq in E2. subst d.
      destruct Hp3 as [Hp3|Hp3]; [exact (Hp3 (Hfa p Hd))|].
      destruct (wt_cover w H f p Hf Hd) as [Hc|Hc]; [exact (Hp1 Hc) | exact (Hp3 Hc)].
  - intros f d Hf Hd. rewrite Hd'. rewrite Hf' in Hf. destruct (bytes_eqb f p) eqn:E.
    + apply bytes_eqb_eq in E. subst f. destruct (parent_dir p) as [dd|] eqn:Epd.
      * pose proof (Hpar dd eq_refl) as Hsd.
        rewrite (anc_snoc p dd Epd) in Hd. apply in_app_or in Hd. destruct Hd as [Hd|[<-|[]]].
        -- destruct (stat_SDir_inv w dd Hsd) as [->|(_ & _ & _ & Hin)]; [rewrite anc_dot in Hd; contradiction Hd|].
           destruct (wt_closed w H dd d Hin Hd) as [Hc|[Hc|Hc]]; [left; exact Hc | right; exact Hc | exfalso].
           pose proof (ex_parent_dir_ancestor p dd Epd) as Hanc. apply ancestors_In in Hanc.
           destruct Hanc as [r Hr]. rewrite Hr, Hc, <- app_assoc in Hv. cbn [app] in Hv.
           exact (valid_no_dslash d r Hv).
        -- destruct (stat_SDir_inv w dd Hsd) as [->|(_ & _ & _ & Hin)]; [left; reflexivity | right; exact Hin].
      * rewrite (parent_none_anc p Epd) in Hd. contradiction Hd.
    + exact (wt_cover w H f d Hf Hd).
  - rewrite Hd'. exact (wt_closed w H).
  - intros x Hx. rewrite Hd' in Hx. rewrite Hf'. destruct (bytes_eqb x p) eqn:E; [exfalso | exact (wt_disj w H x Hx)].
    apply bytes_eqb_eq in E. subst x.
    destruct Hp3 as [Hp3|Hp3]; [exact (Hp3 (wt_disj w H p Hx)) | exact (Hp3 Hx)].
Qed.

Lemma WtTree_remove : forall w p,
  WtTree w -> WtValid w -> wt_safe w (ERemovePath p) ->
  WtTree (apply_effect (ERemovePath p) w).
Proof.
  intros w p H Hv Hs.
  (* [p] is above no file and above no directory, or is no directory *)
  assert (Hk : ~ In p (w_dirs w) \/ dir_empty w p = true).
  { destruct Hs as [Hs|[Hs|Hs]]; [left | left | right; exact Hs].
    - destruct (stat_SFile_inv w p Hs) as (_ & _ & Hf). intro Hin. exact (Hf (wt_disj w H p Hin)).
    - destruct (stat_SNone_inv w p Hs) as (_ & _ & _ & Hn). exact Hn. }
  assert (Hdir : forall x, In x (w_dirs (apply_effect (ERemovePath p) w)) <-> In x (w_dirs w) /\ x <> p).
  { intro x. rewrite w_dirs_ERemovePath. apply set_del_In. }
  assert (K1 : forall f d, file w f <> None -> In d (ancestors f) -> In d (w_dirs w) -> d <> [x2e] -> d <> p).
  { intros f d Hf Hd Hin Hdot E. subst d. destruct Hk as [Hk|Hk]; [exact (Hk Hin)|].
    destruct (dir_empty_inv w p Hk) as [He _].
    pose proof (anc_not_under p f Hd Hdot (He f Hf)) as Ef.
    unfold file in Hf. destruct (am_get (w_files w) f) as [v|] eqn:Eg; [|contradiction Hf; reflexivity].
    pose proof (Hv f v Eg) as Hvf. rewrite Ef in Hvf. exact (valid_no_trailing p Hvf). }
  constructor.
  - intros f Hf. apply file_remove_mono in Hf. destruct (wt_cons w H f Hf) as [Hfd Hfa].
    split; [exact Hfd|]. intros d Hd. apply file_remove_none. exact (Hfa d Hd).
  - intros f d Hf Hd. apply file_remove_mono in Hf.
    destruct (bytes_eq_dec d [x2e]) as [Ed|Ed]; [left; exact Ed|].
    destruct (wt_cover w H f d Hf Hd) as [Hc|Hc]; [left; exact Hc|]. right.
    apply Hdir. split; [exact Hc | exact (K1 f d Hf Hd Hc Ed)].
  - intros x a Hx Ha. apply Hdir in Hx. destruct Hx as [Hx Hxp].
    destruct (bytes_eq_dec a [x2e]) as [Ed|Ed]; [left; exact Ed|].
    destruct (wt_closed w H x a Hx Ha) as [Hc|[Hc|Hc]]; [left; exact Hc | | right; right; exact Hc].
    destruct (bytes_eq_dec a p) as [->|Eap]; [|right; left; apply Hdir; split; assumption].
    destruct Hk as [Hk|Hk]; [contradiction (Hk Hc)|].
    destruct (dir_empty_inv w p Hk) as [_ He].
    right. right. exact (anc_not_under p x Ha Ed (He x Hx)).
  - intros x Hx. apply Hdir in Hx. destruct Hx as [Hx _]. apply file_remove_none. exact (wt_disj w H x Hx).
Qed.

Lemma WtTree_mkdir : forall w d,
  WtTree w -> wt_safe w (EMkdirAll d) -> WtTree (apply_effect (EMkdirAll d) w).
Proof.
  intros w d H Hs.
  assert (Hnew : forall x, In x (ancestors d ++ [d]) -> file w x = None).
  { assert (Hc : (forall a, In a (ancestors d) -> file w a = None) /\ file w d = None).
    { destruct Hs as [Hs|Hs].
      - destruct (stat_SNone_inv w d Hs) as (_ & H2 & H3 & _). auto.
      - destruct (stat_SDir_inv w d Hs) as [->|(_ & H2 & H3 & _)]; [|auto].
        split; [intros a []|]. destruct (file w [x2e]) as [v|] eqn:E; [|reflexivity].
        destruct (wt_cons w H [x2e]) as [Hne _]; [rewrite E; discriminate | contradiction Hne; reflexivity]. }
    destruct Hc as [Ha Hd]. intros x Hx. apply in_app_or in Hx. destruct Hx as [Hx|[<-|[]]]; auto. }
  assert (Hf' : forall f, file (apply_effect (EMkdirAll d) w) f = file w f).
  { intro f. unfold file. rewrite w_files_EMkdirAll. reflexivity. }
  constructor.
  - intros f Hf. rewrite Hf' in Hf. destruct (wt_cons w H f Hf) as [Hfd Hfa].
    split; [exact Hfd|]. intros a Ha. rewrite Hf'. exact (Hfa a Ha).
  - intros f a Hf Ha. rewrite Hf' in Hf. destruct (wt_cover w H f a Hf Ha) as [Hc|Hc]; [left; exact Hc|].
    right. apply dirs_mkdir_In. left. exact Hc.
  - intros x a Hx Ha. apply dirs_mkdir_In in Hx. destruct Hx as [Hx|Hx].
    + destruct (wt_closed w H x a Hx Ha) as [Hc|[Hc|Hc]]; [left; exact Hc | | right; right; exact Hc].
      right. left. apply dirs_mkdir_In. left. exact Hc.
    + right. left. apply dirs_mkdir_In. right. apply in_or_app. left.
      apply in_app_or in Hx. destruct Hx as [Hx|[<-|[]]]; [|exact Ha].
      exact (ex_ancestors_trans a x d Ha Hx).
  - intros x Hx. rewrite Hf'. apply dirs_mkdir_In in Hx. destruct Hx as [Hx|Hx]; [exact (wt_disj w H x Hx) | exact (Hnew x Hx)].
Qed.

Definition wt_static (e : effect) : Prop :=
  match e with
  | EWriteFile _ _ | ERemovePath _ | EMkdirAll _ => False
  | _ => True
  end.

Lemma wt_static_frame : forall e w, wt_static e ->
  w_files (apply_effect e w) = w_files w /\ w_dirs (apply_effect e w) = w_dirs w.
Proof.
  intros e w Hs. destruct e; try contradiction Hs; split; try reflexivity;
    cbn [apply_effect]; destruct (am_get (w_refs w) old); reflexivity.
Qed.

Lemma wt_static_safe : forall w e, wt_static e -> wt_safe w e.
Proof. intros w e H. destruct e; try exact Logic.I; contradiction H. Qed.

(* MAIN (local): an allowed effect, between two worlds whose files have valid
   paths, keeps the invariant *)
Theorem WtTree_effect : forall e w,
  WtTree w -> WtValid w -> WtValid (apply_effect e w) -> wt_safe w e ->
  WtTree (apply_effect e w).
Proof.
  intros e w H Hv Hv' Hs.
  destruct e;
    try (match goal with |- WtTree (apply_effect ?e0 _) =>
           destruct (wt_static_frame e0 w Logic.I) as [Ef Ed] end;
         apply (WtTree_ext w); [exact Ef | exact Ed | exact H]).
  - (* EWriteFile *) apply WtTree_write; [exact H | | exact Hs].
    apply (Hv' path data). rewrite w_files_EWriteFile. apply ex_am_get_set_same.
  - (* ERemovePath *) apply WtTree_remove; assumption.
  - (* EMkdirAll *) apply WtTree_mkdir; assumption.
Qed.

(* ------------------------------------------------------------------ *)
(** ** 2g. Every sub-command only performs [wt_safe] effects

   No invariant is needed for this: the test is made by the program just
   before the effect ([wt_put], [rm_one]); every other effect leaves the work
   tree alone. *)
Definition TrueInv (w : world) : Prop := True.

Lemma emit_static_ws : forall e, wt_static e -> emits TrueInv wt_safe (emit e).
Proof.
  intros e He. apply emits_emit. intros w _. split; [apply wt_static_safe; exact He | exact Logic.I].
Qed.

Create HintDb wslaws discriminated.

Ltac wstep :=
  first
  [ assumption
  | lazymatch goal with
    | |- emits _ _ (bind _ _) => apply emits_bind; [ | intro ]
    | |- emits _ _ (ret _) => apply emits_ret
    | |- emits _ _ fail => apply emits_fail
    | |- emits _ _ getw => apply emits_getw
    | |- emits _ _ (emit _) => apply emit_static_ws; exact Logic.I
    | |- emits _ _ (of_opt _) => apply emits_of_opt
    | |- emits _ _ (guard _) => apply emits_guard
    | |- emits _ _ (iterM _ _) => apply emits_iterM; intros ? _
    | |- emits _ _ (let _ := _ in _) => cbv zeta
    | |- emits _ _ (match ?x with _ => _ end) => destruct x; cbv beta iota
    | |- emits _ _ ((fix f (l : list _) {struct l} : M _ := _) ?args) =>
        induction args; cbv beta iota
    end
  | solve [ auto with wslaws nocore ] ].
Ltac wsteps := repeat wstep.

Local Notation ws m := (emits TrueInv wt_safe m).

(* the two procedures that touch the work tree *)
Lemma wt_put_ws : forall p data, ws (wt_put p data).
Proof.
  intros p data. hinline. hsteps; try exact Logic.I.
  all: cbn [wt_safe]; repeat (split; try exact Logic.I).
  all: try (left; assumption); try (right; assumption).
  all: intros d0 Hd0;
    match goal with
    | Hp : parent_dir _ = None |- _ => rewrite Hp in Hd0; discriminate Hd0
    | Hp : parent_dir _ = Some _ |- _ => rewrite Hp in Hd0; injection Hd0 as <-
    end.
  all: try assumption.
  all: apply mkdir_stat_SDir; left; assumption.
Qed.
#[export] Hint Resolve wt_put_ws : wslaws.

Lemma rm_one_ws : forall p, ws (rm_one p).
Proof.
  intros p. hinline. hsteps; try exact Logic.I.
  all: cbn [wt_safe]; repeat (split; try exact Logic.I).
  all: try (left; assumption); try (right; right; assumption).
Qed.
#[export] Hint Resolve rm_one_ws : wslaws.

Lemma put_obj_ws : forall k d, ws (put_obj k d).
Proof. intros k d. unfold put_obj. wsteps. Qed.
#[export] Hint Resolve put_obj_ws : wslaws.
Lemma head_tree_nodes_ws : forall c, ws (head_tree_nodes c).
Proof. intros c. unfold head_tree_nodes. wsteps. Qed.
#[export] Hint Resolve head_tree_nodes_ws : wslaws.
Lemma load_ctx_ws : ws load_ctx.
Proof. unfold load_ctx. wsteps. Qed.
#[export] Hint Resolve load_ctx_ws : wslaws.
Lemma cmd_init_ws : ws cmd_init.
Proof. unfold cmd_init. wsteps. Qed.
Lemma cmd_config_ws : forall c g args, ws (cmd_config c g args).
Proof. intros c g args. unfold cmd_config. wsteps. Qed.
Lemma add_file_ws : forall p, ws (add_file p).
Proof. intros p. unfold add_file. wsteps. Qed.
#[export] Hint Resolve add_file_ws : wslaws.
Lemma cmd_add_ws : forall c args, ws (cmd_add c args).
Proof. intros c args. unfold cmd_add. wsteps. Qed.
Lemma cmd_rm_ws : forall args, ws (cmd_rm args).
Proof. intros args. unfold cmd_rm. wsteps. Qed.
Lemma cmd_status_ws : forall c, ws (cmd_status c).
Proof. intros c. unfold cmd_status. wsteps. Qed.
Lemma restore_wd_ws : forall p, ws (restore_wd p).
Proof. intros p. unfold restore_wd. wsteps. Qed.
#[export] Hint Resolve restore_wd_ws : wslaws.
Lemma restore_index_ws : forall ns p, ws (restore_index ns p).
Proof. intros ns p. unfold restore_index. wsteps. Qed.
#[export] Hint Resolve restore_index_ws : wslaws.
Lemma cmd_restore_ws : forall c st args, ws (cmd_restore c st args).
Proof. intros c st args. unfold cmd_restore. wsteps. Qed.
Lemma cmd_log_ws : forall c n, ws (cmd_log c n).
Proof. intros c n. unfold cmd_log. wsteps. Qed.
Lemma cmd_reflog_ws : ws cmd_reflog.
Proof. unfold cmd_reflog. wsteps. Qed.
Lemma cmd_cat_file_ws : forall t p args, ws (cmd_cat_file t p args).
Proof. intros t p args. unfold cmd_cat_file. wsteps. Qed.
Lemma cmd_hash_object_ws : forall args, ws (cmd_hash_object args).
Proof. intros args. unfold cmd_hash_object. wsteps. Qed.
Lemma cmd_ls_files_ws : forall s, ws (cmd_ls_files s).
Proof. intros s. unfold cmd_ls_files. wsteps. Qed.
Lemma cmd_rev_parse_ws : forall args, ws (cmd_rev_parse args).
Proof. intros args. unfold cmd_rev_parse. wsteps. Qed.
Lemma cmd_write_tree_ws : ws cmd_write_tree.
Proof. unfold cmd_write_tree. wsteps. Qed.
Lemma head_update_ws : forall name, ws (head_update name).
Proof. intros name. unfold head_update. wsteps. Qed.
#[export] Hint Resolve head_update_ws : wslaws.
Lemma cmd_update_ref_ws : forall args, ws (cmd_update_ref args).
Proof. intros args. unfold cmd_update_ref. wsteps. Qed.
Lemma cmd_reset_ws : forall e c s m h args, ws (cmd_reset e c s m h args).
Proof. intros e c s m h args. unfold cmd_reset. wsteps. Qed.
Lemma cmd_switch_ws : forall e c args create, ws (cmd_switch e c args create).
Proof. intros e c args create. unfold cmd_switch. wsteps. Qed.
Lemma cmd_branch_ws : forall e c args lst rename delete, ws (cmd_branch e c args lst rename delete).
Proof. intros e c args lst rename delete. unfold cmd_branch. wsteps. Qed.
Lemma do_commit_ws : forall e c msg, ws (do_commit e c msg).
Proof. intros e c msg. unfold do_commit. wsteps. Qed.
#[export] Hint Resolve do_commit_ws : wslaws.
Lemma cmd_commit_ws : forall e c msg, ws (cmd_commit e c msg).
Proof. intros e c msg. unfold cmd_commit. wsteps. Qed.

Theorem run_cmd_ws : forall e c, ws (run_cmd e c).
Proof.
  intros e c. unfold run_cmd.
  apply emits_bind; [apply emits_getw | intro w].
  destruct c;
    try (apply emits_bind; [apply emits_guard | intros _];
         apply emits_bind; [apply load_ctx_ws | intro x]).
  - apply cmd_init_ws.
  - apply cmd_config_ws.
  - apply cmd_add_ws.
  - apply cmd_rm_ws.
  - apply cmd_commit_ws.
  - apply cmd_status_ws.
  - apply cmd_branch_ws.
  - apply cmd_switch_ws.
  - apply cmd_reset_ws.
  - apply cmd_restore_ws.
  - apply cmd_update_ref_ws.
  - apply cmd_log_ws.
  - apply cmd_reflog_ws.
  - apply cmd_cat_file_ws.
  - apply cmd_hash_object_ws.
  - apply cmd_ls_files_ws.
  - apply cmd_rev_parse_ws.
  - apply cmd_write_tree_ws.
Qed.

(* ------------------------------------------------------------------ *)
(** ** 2h. Command steps *)

(* both facts about the trace of a command at once: every intermediate world
   satisfies SnapshotFacts.Inv (valid paths in the work tree, the staging area
   and the snapshots), every effect is [wt_safe] where it is performed *)
Lemma run_cmd_both : forall e c,
  emits (fun w => SnapshotFacts.Inv w /\ TrueInv w)
        (fun w ef => SnapshotFacts.G w ef /\ wt_safe w ef) (run_cmd e c).
Proof. intros e c. apply emits_conj; [apply run_cmd_emits | apply run_cmd_ws]. Qed.

Lemma steps_wt : forall tr w,
  steps_ok (fun w => SnapshotFacts.Inv w /\ TrueInv w)
           (fun w ef => SnapshotFacts.G w ef /\ wt_safe w ef) w tr ->
  SnapshotFacts.Inv w -> Live (apply_effects tr w) -> WtTree w -> WtTree (apply_effects tr w).
Proof.
  induction tr as [|ef tr IH]; intros w Hs Hi Hl Ht; [exact Ht|].
  cbn [steps_ok] in Hs. destruct Hs as ([_ Hsafe] & [Hi' _] & Hrest).
  rewrite apply_effects_cons in Hl |- *.
  pose proof (Live_trace_before tr _ Hl) as Hl1.
  pose proof (Live_effect_before ef w Hl1) as Hl0.
  destruct (Hi Hl0) as (Hv0 & _). destruct (Hi' Hl1) as (Hv1 & _).
  apply IH; [exact Hrest | exact Hi' | exact Hl|].
  apply WtTree_effect; assumption.
Qed.

(* MAIN: every command step keeps [WtTree] (no SHA-1 collision met, no giant
   object: the conditions under which the paths Goit writes are known valid) *)
Theorem wt_tree_cmd_step : forall e c w,
  SnapshotFacts.Inv w -> WtTree w -> Live (step_w (ACmd e c) w) ->
  WtTree (step_w (ACmd e c) w).
Proof.
  intros e c w Hi Ht. unfold step_w. cbn [step].
  destruct (run_m (run_cmd e c) w) as [[r w'] tr] eqn:Erun.
  destruct (emits_sound _ _ _ _ _ _ _ _ (run_cmd_both e c) (conj Hi Logic.I) Erun) as (_ & Hw' & Hs & _).
  assert (Hgoal : Live w' -> WtTree w').
  { intro Hl. rewrite Hw' in Hl |- *. apply steps_wt; assumption. }
  destruct r; cbn [fst]; exact Hgoal.
Qed.

Lemma reachable_Inv : forall w, Reachable w -> SnapshotFacts.Inv w.
Proof. intros w (h & Hall & ->). apply run_Inv; [exact Hall | apply GoodW_Inv; exact GoodW_empty]. Qed.

(* ------------------------------------------------------------------ *)
(** ** 2i. User edits: the side condition *)

(* - write: nothing above [p] is a file and [p] is not a directory;
   - delete: an existing file (or nothing at all, or an empty directory);
   - rmtree: any;
   - mkdir -p: nothing above [p] is a file and [p] is not a file. *)
Definition edit_wt_ok (w : world) (u : edit) : bool :=
  match u with
  | UWrite p _ => match wt_stat w p with SFile | SNone => true | _ => false end
  | UDelete p => match wt_stat w p with
                 | SFile | SNone => true
                 | SDir => dir_empty w p
                 | SNotDir => false
                 end
  | URmTree _ => true
  | UMkdir p => match wt_stat w p with SDir | SNone => true | _ => false end
  end.

Lemma WtTree_rmtree : forall w p, WtTree w -> WtValid w -> WtTree (apply_edit (URmTree p) w).
Proof.
  intros w p H Hv. cbn [apply_edit].
  set (g := fun kv : bytes * bytes => negb (under_dir p (fst kv)) && negb (bytes_eqb (fst kv) p)).
  set (gd := fun d : bytes => negb (under_dir p d) && negb (bytes_eqb d p)).
  set (w' := set_wt w (filter g (w_files w)) (filter gd (w_dirs w))).
  assert (Hfile : forall f, file w' f <> None -> file w f <> None /\ under_dir p f = false /\ f <> p).
  { intros f Hf. unfold file in *. cbn [w' set_wt w_files] in Hf.
    destruct (am_get (filter g (w_files w)) f) as [v|] eqn:E; [|contradiction Hf; reflexivity].
    destruct (am_get_filter_some _ _ _ _ _ E) as [v' Ev']. rewrite Ev'. split; [discriminate|].
    apply am_get_filter_key in E. unfold g in E. cbn [fst] in E.
    apply andb_true_iff in E. destruct E as [E1 E2].
    apply negb_true_iff in E1. apply negb_true_iff in E2. apply bytes_eqb_neq in E2. auto. }
  assert (Hnone : forall f, file w f = None -> file w' f = None).
  { intros f Hf. destruct (file w' f) as [v|] eqn:E; [|reflexivity].
    destruct (Hfile f) as [Hc _]; [rewrite E; discriminate | contradiction]. }
  assert (Hdirs : forall x, In x (w_dirs w') <-> In x (w_dirs w) /\ under_dir p x = false /\ x <> p).
  { intro x. cbn [w' set_wt w_dirs]. rewrite filter_In. unfold gd.
    rewrite andb_true_iff, !negb_true_iff, bytes_eqb_neq. tauto. }
  (* a surviving path has no removed directory above it, except with a
     trailing slash *)
  assert (Hup : forall a x, In a (ancestors x) -> under_dir p x = false -> x <> p -> a <> [x2e] ->
                  (under_dir p a = false /\ a <> p) \/ x = a ++ [c_slash]).
  { intros a x Ha Hux Hxp Hdot.
    destruct (under_dir p a) eqn:Eu; [rewrite (under_anc p a x Eu Ha) in Hux; discriminate Hux|].
    destruct (bytes_eq_dec a p) as [->|Eap]; [right; exact (anc_not_under p x Ha Hdot Hux) | left; auto]. }
  constructor.
  - intros f Hf. destruct (Hfile f Hf) as (Hf0 & _). destruct (wt_cons w H f Hf0) as [Hfd Hfa].
    split; [exact Hfd|]. intros d Hd. apply Hnone. exact (Hfa d Hd).
  - intros f d Hf Hd. destruct (Hfile f Hf) as (Hf0 & Huf & Hfp).
    destruct (bytes_eq_dec d [x2e]) as [Ed|Ed]; [left; exact Ed|].
    destruct (wt_cover w H f d Hf0 Hd) as [Hc|Hc]; [left; exact Hc|]. right.
    destruct (Hup d f Hd Huf Hfp Ed) as [[H1 H2]|Ef]; [apply Hdirs; auto|].
    exfalso. unfold file in Hf0. destruct (am_get (w_files w) f) as [v|] eqn:Eg; [|contradiction Hf0; reflexivity].
    pose proof (Hv f v Eg) as Hvf. rewrite Ef in Hvf. exact (valid_no_trailing d Hvf).
  - intros x a Hx Ha. apply Hdirs in Hx. destruct Hx as (Hx & Hux & Hxp).
    destruct (bytes_eq_dec a [x2e]) as [Ed|Ed]; [left; exact Ed|].
    destruct (wt_closed w H x a Hx Ha) as [Hc|[Hc|Hc]]; [left; exact Hc | | right; right; exact Hc].
    destruct (Hup a x Ha Hux Hxp Ed) as [[H1 H2]|Ex]; [right; left; apply Hdirs; auto | right; right; exact Ex].
  - intros x Hx. apply Hdirs in Hx. destruct Hx as (Hx & _). apply Hnone. exact (wt_disj w H x Hx).
Qed.

Theorem WtTree_edit : forall u w,
  edit_ok u -> WtValid w -> WtTree w -> edit_wt_ok w u = true -> WtTree (apply_edit u w).
Proof.
  intros [p data|p|p|p] w Hok Hv H Hb; cbn [edit_wt_ok edit_ok] in *.
  - (* write *)
    assert (Hst : wt_stat w p = SFile \/ wt_stat w p = SNone).
    { destruct (wt_stat w p); try discriminate Hb; auto. }
    pose proof (stat_wt_put_ok w p Hst) as Hput.
    cbn [apply_edit]. destruct (parent_dir p) as [dd|] eqn:Epd.
    + pose proof (wt_put_ok_parent w p dd Hput Epd) as Hdd.
      assert (Hsafe : wt_safe w (EMkdirAll dd)) by (cbn [wt_safe]; tauto).
      apply WtTree_write; [apply WtTree_mkdir; assumption | exact Hok|].
      split; [apply wt_put_ok_stat; apply wt_put_ok_mkdir; assumption|].
      intros d0 Hd0. rewrite Epd in Hd0. injection Hd0 as <-. apply mkdir_stat_SDir. tauto.
    + apply WtTree_write; [exact H | exact Hok|].
      split; [exact Hst|]. intros d0 Hd0. rewrite Epd in Hd0. discriminate Hd0.
  - (* delete *)
    cbn [apply_edit]. apply WtTree_remove; [exact H | exact Hv|]. cbn [wt_safe].
    destruct (wt_stat w p); try discriminate Hb; auto.
  - (* rmtree *) apply WtTree_rmtree; assumption.
  - (* mkdir *)
    cbn [apply_edit]. apply WtTree_mkdir; [exact H|]. cbn [wt_safe].
    destruct (wt_stat w p); try discriminate Hb; auto.
Qed.

(* ------------------------------------------------------------------ *)
(** ** 2j. Histories *)

(* every edit of the history satisfies the side condition in the world where
   it is made *)
Fixpoint edits_wt_okb (h : list action) (w : world) : bool :=
  match h with
  | [] => true
  | a :: r =>
      match a with AEdit u => edit_wt_ok w u | ACmd _ _ => true end
      && edits_wt_okb r (step_w a w)
  end.

Lemma Live_run_before : forall h w, Live (run h w) -> Live w.
Proof.
  intros h w [Hc Hs]. split; [exact (run_coll_false_before h w Hc)|].
  exact (SmallStore_ext _ _ (run_store_ext h w Hc) Hs).
Qed.

Theorem wt_tree_step : forall a w,
  action_ok a -> SnapshotFacts.Inv w -> WtTree w ->
  match a with AEdit u => edit_wt_ok w u = true | ACmd _ _ => True end ->
  Live (step_w a w) -> WtTree (step_w a w).
Proof.
  intros [e c|u] w Hok Hi Ht Hb Hl.
  - apply wt_tree_cmd_step; assumption.
  - assert (Hl0 : Live w) by exact (Live_run_before [AEdit u] w Hl).
    destruct (Hi Hl0) as (Hv & _). unfold step_w. cbn [step fst].
    apply WtTree_edit; assumption.
Qed.

Theorem wt_tree_run_from : forall h w,
  Forall action_ok h -> SnapshotFacts.Inv w -> WtTree w -> edits_wt_okb h w = true ->
  Live (run h w) -> WtTree (run h w).
Proof.
  induction h as [|a h IH]; intros w Hall Hi Ht Hb Hl; [exact Ht|].
  inversion Hall as [|? ? Ha Hh]; subst. rewrite run_cons in Hl |- *.
  cbn [edits_wt_okb] in Hb. apply andb_true_iff in Hb. destruct Hb as [Hb1 Hb2].
  apply IH; [exact Hh | apply step_Inv; assumption | | exact Hb2 | exact Hl].
  apply wt_tree_step; [exact Ha | exact Hi | exact Ht | | exact (Live_run_before h _ Hl)].
  destruct a; [exact Logic.I | exact Hb1].
Qed.

(* MAIN: for histories whose edits satisfy the side condition,
   [ex_wt_consistent] IS an invariant *)
Theorem wt_tree_run : forall h,
  Forall action_ok h -> edits_wt_okb h w_empty = true ->
  w_coll (run h w_empty) = false -> SmallStore (w_objs (run h w_empty)) ->
  WtTree (run h w_empty).
Proof.
  intros h Hall Hb Hc Hs. apply wt_tree_run_from; try assumption.
  - apply GoodW_Inv. exact GoodW_empty.
  - exact WtTree_empty.
  - split; assumption.
Qed.

Theorem wt_consistent_run : forall h,
  Forall action_ok h -> edits_wt_okb h w_empty = true ->
  w_coll (run h w_empty) = false -> SmallStore (w_objs (run h w_empty)) ->
  ex_wt_consistent (run h w_empty).
Proof. intros h Hall Hb Hc Hs. apply WtTree_consistent. apply wt_tree_run; assumption. Qed.

(* one more command, one more allowed edit *)
Corollary reachable_cmd_step_consistent : forall e c w,
  Reachable w -> WtTree w ->
  w_coll (step_w (ACmd e c) w) = false -> SmallStore (w_objs (step_w (ACmd e c) w)) ->
  WtTree (step_w (ACmd e c) w) /\ ex_wt_consistent (step_w (ACmd e c) w).
Proof.
  intros e c w Hr Ht Hc Hs.
  assert (H : WtTree (step_w (ACmd e c) w)).
  { apply wt_tree_cmd_step; [apply reachable_Inv; exact Hr | exact Ht | split; assumption]. }
  split; [exact H | apply WtTree_consistent; exact H].
Qed.

Corollary reachable_edit_step_consistent : forall u w,
  Reachable w -> w_coll w = false -> SmallStore (w_objs w) -> WtTree w ->
  edit_ok u -> edit_wt_ok w u = true ->
  WtTree (apply_edit u w) /\ ex_wt_consistent (apply_edit u w).
Proof.
  intros u w Hr Hc Hs Ht Hok Hb.
  destruct (reachable_good w Hr Hc Hs) as (Hv & _).
  assert (H : WtTree (apply_edit u w)) by (apply WtTree_edit; assumption).
  split; [exact H | apply WtTree_consistent; exact H].
Qed.

(* C17_add_never_stages_excluded over such histories: neither
   [Canonical (idx_of w)] nor [ex_wt_consistent w] is assumed *)
Theorem history_add_never_stages_excluded : forall h e args w w' o tr,
  Forall action_ok h -> edits_wt_okb h w_empty = true -> w = run h w_empty ->
  w_coll w = false -> SmallStore (w_objs w) ->
  step (ACmd e (CAdd args)) w = (w', o, tr) ->
  (forall q, goit_path q -> staged w' q = staged w q \/ staged w' q = None) /\
  (forall c, ctx_of w = Some c -> forall q,
     staged w' q <> staged w q -> staged w' q <> None ->
     ignored w (x_pats c) q = false /\ ign_match (x_pats c) q = false).
Proof.
  intros h e args w w' o tr Hall Hb Hw Hc Hs Hstep.
  assert (Hr : Reachable w) by (exists h; split; assumption).
  destruct (reachable_add_never_stages_excluded e args w w' o tr Hr Hc Hs Hstep) as [H1 H2].
  split; [exact H1|]. apply H2. subst w. apply wt_consistent_run; assumption.
Qed.

(* ================================================================== *)
(** * 3. Counterexample and non-vacuity *)

(* ---------- [ex_wt_consistent] alone is not kept by the commands ---------- *)
(* a tracked file a is replaced by a directory a/ holding a/b; the user then
   removes the DIRECTORY ENTRY a while a/b stays (an edit no file system
   performs: [edit_wt_ok] refuses it).  The work tree is still consistent in
   the sense of [ex_wt_consistent]; `restore a` finds nothing at a and writes
   the file a above a/b.  (Not a defect of the program.) *)
Definition gr_env : env := mkEnv 1700003000 0.
Definition gr_cx_hist : list action :=
  [ ACmd gr_env CInit;
    AEdit (UWrite (str "a") (str "1"));
    ACmd gr_env (CAdd [str "a"]);
    AEdit (UDelete (str "a"));
    AEdit (UWrite (str "a/b") (str "2"));
    AEdit (UDelete (str "a")) ].
Definition gr_cx_w : world := Eval vm_compute in run gr_cx_hist w_empty.
Lemma gr_cx_w_run : run gr_cx_hist w_empty = gr_cx_w.
Proof. vm_compute. reflexivity. Qed.
Definition gr_cx_restore : action := ACmd gr_env (CRestore false [str "a"]).

Example cx_consistent_not_preserved :
  Reachable gr_cx_w /\ w_coll gr_cx_w = false /\ SmallStore (w_objs gr_cx_w) /\
  ex_wt_consistent gr_cx_w /\
  snd (fst (step gr_cx_restore gr_cx_w)) = OOk [] /\
  map fst (w_files (step_w gr_cx_restore gr_cx_w)) = [str "a"; str "a/b"] /\
  ~ ex_wt_consistent (step_w gr_cx_restore gr_cx_w) /\
  (* the side condition fails at the last edit, and only there *)
  edits_wt_okb gr_cx_hist w_empty = false /\
  edits_wt_okb (removelast gr_cx_hist) w_empty = true.
Proof.
  split.
  { exists gr_cx_hist. split; [|symmetry; exact gr_cx_w_run].
    unfold gr_cx_hist. repeat (apply Forall_cons || apply Forall_nil); cbn [action_ok edit_ok]; try exact Logic.I.
    all: unfold valid_path; simpl; tf_valid. }
  split; [vm_compute; reflexivity|].
  split; [apply small_store_b; vm_compute; reflexivity|].
  split; [apply wt_consistent_chk_iff; vm_compute; reflexivity|].
  split; [vm_compute; reflexivity|].
  split; [vm_compute; reflexivity|].
  split; [intro H; apply wt_consistent_chk_iff in H; vm_compute in H; discriminate H|].
  split; vm_compute; reflexivity.
Qed.

(* ---------- a history with every kind of edit ---------- *)
Definition gr_hist : list action :=
  [ ACmd gr_env CInit;
    ACmd gr_env (CConfig false [str "user.name"; str "Ann Lee"]);
    ACmd gr_env (CConfig false [str "user.email"; str "ann@example.org"]);
    AEdit (UWrite (str "d/e/f") (str "1"));
    AEdit (UWrite (str "a") (str "2"));
    AEdit (UMkdir (str "m/n"));
    ACmd gr_env (CAdd [str "."]);
    ACmd gr_env (CCommit (str "one"));
    AEdit (UDelete (str "a"));
    AEdit (URmTree (str "d"));
    AEdit (UWrite (str "d") (str "3"));
    ACmd gr_env (CAdd [str "."; str "a"]);
    ACmd gr_env (CCommit (str "two"));
    AEdit (UDelete (str "d"));
    ACmd gr_env (CReset false false true [str "HEAD@{1}"]);
    ACmd gr_env (CRm [str "a"]);
    AEdit (UDelete (str "m/n")) ].
Definition gr_w : world := Eval vm_compute in run gr_hist w_empty.
Lemma gr_w_run : run gr_hist w_empty = gr_w.
Proof. vm_compute. reflexivity. Qed.

Example gr_hist_ok : Forall action_ok gr_hist.
Proof.
  unfold gr_hist. repeat (apply Forall_cons || apply Forall_nil); cbn [action_ok edit_ok]; try exact Logic.I.
  all: unfold valid_path; simpl; tf_valid.
Qed.

Example gr_edits_ok : edits_wt_okb gr_hist w_empty = true.
Proof. vm_compute. reflexivity. Qed.

(* by the theorem ... *)
Example gr_tree_by_theorem : WtTree gr_w /\ ex_wt_consistent gr_w.
Proof.
  assert (H : WtTree gr_w).
  { rewrite <- gr_w_run. apply wt_tree_run; [exact gr_hist_ok | exact gr_edits_ok | |].
    - rewrite gr_w_run. vm_compute. reflexivity.
    - rewrite gr_w_run. apply small_store_b. vm_compute. reflexivity. }
  split; [exact H | apply WtTree_consistent; exact H].
Qed.

(* ... and by computation; `reset --hard` brought d/e/f back, `rm` removed a *)
Example gr_tree_computed :
  wt_tree_chk gr_w = true /\
  map fst (w_files gr_w) = [str "d/e/f"] /\ w_dirs gr_w = [str "d"; str "d/e"; str "m"].
Proof. repeat split; vm_compute; reflexivity. Qed.

(* ---------- C17 over a history: no hypothesis on the world is left ---------- *)
Example gr_c17_setup_ok : Forall action_ok c17_setup /\ edits_wt_okb c17_setup w_empty = true.
Proof.
  split; [|vm_compute; reflexivity].
  pose proof c17_hist_ok as H. unfold c17_hist in H. apply Forall_app in H. exact (proj1 H).
Qed.

Example gr_c17_add_by_theorem :
  forall c, ctx_of c17_ws = Some c ->
  forall q, staged (step_w c17_add_dot c17_ws) q <> staged c17_ws q ->
            staged (step_w c17_add_dot c17_ws) q <> None ->
            ignored c17_ws (x_pats c) q = false /\ ign_match (x_pats c) q = false.
Proof.
  destruct gr_c17_setup_ok as [Hall Hb].
  refine (proj2 (history_add_never_stages_excluded c17_setup c17_env [str "."] c17_ws
                   (step_w c17_add_dot c17_ws) (snd (fst (step c17_add_dot c17_ws))) (snd (step c17_add_dot c17_ws))
                   Hall Hb (eq_sym c17_ws_run) _ _ _)).
  - vm_compute. reflexivity.
  - apply small_store_b. vm_compute. reflexivity.
  - unfold step_w, c17_add_dot. destruct (step (ACmd c17_env (CAdd [str "."])) c17_ws) as [[w' o] tr]. reflexivity.
Qed.

(* ---------- C07: the iff on GateFacts' example world (a tip, four staged
   differences) ---------- *)
Example gr_commit_iff_applies :
  head_snapshot gx_w <> idx_of gx_w /\
  exists out, snd (fst (step (ACmd gx_env (CCommit gx_msg)) gx_w)) = OOk out.
Proof.
  assert (Hne : head_snapshot gx_w <> idx_of gx_w) by (vm_compute; discriminate).
  split; [exact Hne|].
  apply (reachable_commit_succeeds_iff gx_env gx_msg gx_w gx_c gx_reachable gx_coll gx_small gx_ctx gx_sign_ok).
  split; [exact gx_user_set | exact Hne].
Qed.

(* the world after that commit: clean, so the iff says refused *)
Example gr_gx_w'_reachable : Reachable gx_w'.
Proof.
  exists (gx_hist ++ [ACmd gx_env (CCommit gx_msg)]). split.
  - apply Forall_app. split; [exact gx_actions_ok | repeat constructor].
  - rewrite run_app, gx_w_run. cbn [run fold_left]. unfold step_w. rewrite gx_step_eq. reflexivity.
Qed.

Definition gr_c' : ctx :=
  Eval vm_compute in match ctx_of gx_w' with Some c => c | None => mkCtx [] [] None [] end.
Example gr_ctx' : ctx_of gx_w' = Some gr_c'.
Proof. vm_compute. reflexivity. Qed.
Example gr_sign_ok' : sign_ok (user_name (x_l gr_c') (x_g gr_c')) (user_email (x_l gr_c') (x_g gr_c'))
                              (e_time gx_env) (e_off gx_env).
Proof.
  unfold sign_ok. split; [apply contains_byte_false; vm_compute; reflexivity|].
  split; [apply contains_byte_false; vm_compute; reflexivity|].
  split; [unfold valid_email; apply matches_spec; vm_compute; reflexivity|].
  cbn [e_time e_off gx_env]. split; [lia|]. split; [lia | reflexivity].
Qed.

Example gr_commit_refused_applies :
  head_snapshot gx_w' = idx_of gx_w' /\
  snd (fst (step (ACmd gx_env (CCommit gx_msg)) gx_w')) = OErr.
Proof.
  assert (He : head_snapshot gx_w' = idx_of gx_w') by (vm_compute; reflexivity).
  split; [exact He|].
  apply (reachable_commit_refused_iff gx_env gx_msg gx_w' gr_c' gr_gx_w'_reachable
           (proj2 gx_commit_computed) gx_small' gr_ctx' gr_sign_ok').
  right. exact He.
Qed.

(* no commit yet (CommitCmdFacts.ex_w: three staged files, no branch) *)
Example gr_ex_w_reachable :
  Reachable CommitCmdFacts.ex_w /\ w_coll CommitCmdFacts.ex_w = false /\
  SmallStore (w_objs CommitCmdFacts.ex_w) /\ tip_of CommitCmdFacts.ex_w = None /\
  w_inited CommitCmdFacts.ex_w = true.
Proof.
  split.
  { exists CommitCmdFacts.ex_hist. split; [|vm_compute; reflexivity].
    pose proof gx_actions_ok as H. unfold gx_hist in H. apply Forall_app in H. exact (proj1 H). }
  split; [vm_compute; reflexivity|]. split; [apply small_store_b; vm_compute; reflexivity|].
  split; vm_compute; reflexivity.
Qed.

Example gr_first_commit_iff_applies :
  head_snapshot CommitCmdFacts.ex_w = [] /\
  exists out, snd (fst (step (ACmd CommitCmdFacts.ex_env (CCommit CommitCmdFacts.ex_msg)) CommitCmdFacts.ex_w)) = OOk out.
Proof.
  destruct gr_ex_w_reachable as (Hr & Hc & Hs & Ht & _).
  split; [exact (head_snapshot_no_tip _ Ht)|].
  apply (reachable_commit_succeeds_iff _ _ _ CommitCmdFacts.ex_c Hr Hc Hs CommitCmdFacts.ex_ctx CommitCmdFacts.ex_sign_ok).
  split; [vm_compute; reflexivity|]. rewrite (head_snapshot_no_tip _ Ht). vm_compute. discriminate.
Qed.

Example gr_status_before_first_commit :
  filter is_staged_line
    (match snd (fst (step (ACmd CommitCmdFacts.ex_env CStatus) CommitCmdFacts.ex_w)) with OOk out => out | _ => [] end)
  = [str "staged-new lib-old"; str "staged-new lib.go"; str "staged-new lib/a"].
Proof.
  destruct gr_ex_w_reachable as (Hr & Hc & Hs & Ht & Hi).
  destruct (reachable_status_before_first_commit _ CommitCmdFacts.ex_env CommitCmdFacts.ex_c Hr Hc Hs Hi CommitCmdFacts.ex_ctx Ht) as (Hstep & Hfil & _).
  rewrite Hstep. cbn [fst snd]. rewrite Hfil. vm_compute. reflexivity.
Qed.

(* ------------------------------------------------------------------ *)
Print Assumptions reachable_tip_snapshot.
Print Assumptions reachable_commit_succeeds.
Print Assumptions reachable_commit_succeeds_tip.
Print Assumptions reachable_commit_succeeds_iff.
Print Assumptions reachable_commit_refused_iff.
Print Assumptions reachable_status_staged_section_exact.
Print Assumptions reachable_status_before_first_commit.
Print Assumptions reachable_status_exact.
Print Assumptions reachable_status_exact_tracked.
Print Assumptions status_before_init_refused.
Print Assumptions reachable_add_never_stages_excluded.
Print Assumptions wt_consistent_chk_iff.
Print Assumptions WtTree_consistent.
Print Assumptions wt_tree_chk_sound.
Print Assumptions WtTree_effect.
Print Assumptions run_cmd_ws.
Print Assumptions wt_tree_cmd_step.
Print Assumptions WtTree_edit.
Print Assumptions wt_tree_step.
Print Assumptions wt_tree_run.
Print Assumptions wt_consistent_run.
Print Assumptions reachable_cmd_step_consistent.
Print Assumptions reachable_edit_step_consistent.
Print Assumptions history_add_never_stages_excluded.
Print Assumptions cx_consistent_not_preserved.
Print Assumptions gr_tree_by_theorem.
Print Assumptions gr_tree_computed.
Print Assumptions gr_c17_add_by_theorem.
Print Assumptions gr_commit_iff_applies.
Print Assumptions gr_commit_refused_applies.
Print Assumptions gr_first_commit_iff_applies.
Print Assumptions gr_status_before_first_commit.
