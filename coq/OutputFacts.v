(* OutputFacts.v -- C05 / C06: what `ls-files [-s]` and `cat-file -p <tree>` PRINT on the
   worlds a history reaches, and the staging-area codec on those worlds.

   A.  [ls_files_spec] [ls_files_s_spec] [ls_files_plain_spec] [step_ls_files_eq] [ls_line_s_inj]
   A'. [reset_mixed_succeeded]  a successful `reset --mixed`, taken apart (any world);
       [commit_reset_ls_files] [commit_reset_position_ls_files]
         commit in a reachable world, ANY later history, reset --mixed to that
         commit, ls-files -s: exactly the entries staged at the commit
   B.  [cat_file_tree_spec] (and ['], [cat_file_tree_children]): cat-file -p / -t of the
       tree of every stored commit of a reachable world and of every directory
       at any depth below it ([dir_below]); [reachable_stored_inited]
   C.  [reachable_index_roundtrip] [reachable_index_roundtrip_canonical];
       the path-length guard is needed: [long_path_not_lossless]
   D.  the theorems applied to the worked histories of SnapshotFacts / ResetFacts.

   Hypotheses carried: [Reachable], [w_coll = false], [SmallStore]; for the
   commands [ctx_of w = Some c] (the two configuration files and .goitignore
   load) and, in A, [w_inited w = true] (derived in A' and in
   [cat_file_tree_spec']); for C the two bounds of the file format. *)
From Coq Require Import Strings.String Strings.Byte.
From Coq Require Import List Bool NArith ZArith Arith Lia ZifyBool ZifyNat ZifyN Sorted.
From Goit Require Import Bytes Sha1 Obj Tree Index Regex GoRegex Commit Reflog Config Ignore World Repo.
From Goit Require Import BytesFacts ObjFacts IndexFacts TreeFacts DiffFacts RegexFacts ReflogFacts CommitFacts MonadFacts Inv.
From Goit Require Import BranchFacts ConnectedFacts SnapshotFacts ExactFacts CommitCmdFacts ObjCmdFacts RestoreFacts GateFacts ResetFacts.
From Goit Require TreeUniqueFacts.
Import ListNotations.

#[local] Arguments sha1 : simpl never.
#[local] Arguments obj_id : simpl never.
#[local] Arguments payload : simpl never.
#[local] Arguments header : simpl never.

(* ================================================================== *)
(** * A. `ls-files` *)

(* one line of `ls-files -s`: the id in hex, a space, the path; without -s: the path *)
Definition ls_line (s : bool) (en : entry) : bytes :=
  if s then hex (e_id en) ++ [c_sp] ++ e_path en else e_path en.

Lemma cmd_ls_files_eq : forall s st,
  cmd_ls_files s st = (Ok (map (ls_line s) (idx_of (ms_w st))), st).
Proof. intros s st. unfold cmd_ls_files. rewrite ev_bind_getw. reflexivity. Qed.

Theorem ls_files_spec : forall e w c s,
  w_inited w = true -> ctx_of w = Some c ->
  step (ACmd e (CLsFiles s)) w = (w, OOk (map (ls_line s) (idx_of w)), []).
Proof.
  intros e w c s Hi Hx.
  rewrite (step_loaded e (CLsFiles s) w c); [|discriminate | exact Hi | exact Hx].
  cbn [dispatch]. rewrite cmd_ls_files_eq. reflexivity.
Qed.

(* the two renderings, spelled out *)
Corollary ls_files_s_spec : forall e w c,
  w_inited w = true -> ctx_of w = Some c ->
  step (ACmd e (CLsFiles true)) w =
  (w, OOk (map (fun en => hex (e_id en) ++ [c_sp] ++ e_path en) (idx_of w)), []).
Proof. intros e w c Hi Hx. exact (ls_files_spec e w c true Hi Hx). Qed.

Corollary ls_files_plain_spec : forall e w c,
  w_inited w = true -> ctx_of w = Some c ->
  step (ACmd e (CLsFiles false)) w = (w, OOk (map e_path (idx_of w)), []).
Proof. intros e w c Hi Hx. exact (ls_files_spec e w c false Hi Hx). Qed.

(* total form: whatever the world, `ls-files` changes nothing and writes nothing *)
Theorem step_ls_files_eq : forall e s w,
  step (ACmd e (CLsFiles s)) w =
  (w,
   if w_inited w then
     match ctx_of w with Some _ => OOk (map (ls_line s) (idx_of w)) | None => OErr end
   else OErr,
   []).
Proof.
  intros e s w. rewrite step_cmd_eq, run_cmd_eq. cbn [ms_w].
  destruct (w_inited w); [|reflexivity].
  destruct (ctx_of w) as [x|]; [|reflexivity].
  cbn [dispatch]. rewrite cmd_ls_files_eq. reflexivity.
Qed.

Lemma of_app_eq_len : forall (A : Type) (a b c d : list A),
  length a = length b -> a ++ c = b ++ d -> a = b /\ c = d.
Proof.
  intros A a. induction a as [|x a IH]; intros [|y b] c d Hl H; cbn in Hl; try discriminate Hl.
  - split; [reflexivity | exact H].
  - cbn in H. injection H as -> H. injection Hl as Hl.
    destruct (IH b c d Hl H) as [-> ->]. split; reflexivity.
Qed.

(* the -s line determines the entry: nothing is lost in the rendering of a valid entry *)
Lemma ls_line_s_inj : forall a b,
  length (e_id a) = 20 -> length (e_id b) = 20 ->
  ls_line true a = ls_line true b -> a = b.
Proof.
  intros [ia pa] [ib pb] Ha Hb H. unfold ls_line in H. cbn [e_id e_path] in *.
  assert (Hl : length (hex ia) = length (hex ib)) by (rewrite !hex_length, Ha, Hb; reflexivity).
  destruct (of_app_eq_len _ (hex ia) (hex ib) _ _ Hl H) as [Hh Hr].
  apply hex_inj in Hh. injection Hr as Hr. subst. reflexivity.
Qed.

(* ================================================================== *)
(** * A'. commit, any later history, `reset --mixed` to that commit, `ls-files -s` *)

(* an accepted argument with a context that has no HEAD commit: refused *)
Lemma reset_no_head_refused : forall e c w soft mixed hard a tid,
  ExactFacts.reset_target w a = Some tid -> x_headc c = None ->
  runs (cmd_reset e c soft mixed hard [a]) w Err [].
Proof.
  intros e c w soft mixed hard a tid Ht Hh.
  destruct (reset_target_elim w a tid Ht) as (n & hl & rs & rc & H1 & H2 & H3 & H4 & H5 & H6).
  unfold cmd_reset. cbv zeta.
  destruct (reset_mode_ok soft mixed hard) eqn:Em.
  2:{ apply runs_bind_guard_false. exact Em. }
  apply runs_bind_guard; [exact Em|].
  apply (runs_bind_of_opt _ _ _ n); [exact H1|].
  apply runs_bind_guard; [exact H2|]. rstep.
  apply (runs_bind_of_opt _ _ _ hl); [exact H3|].
  apply (runs_bind_of_opt _ _ _ rs); [exact H4|].
  apply (runs_bind_of_opt _ _ _ rc); [exact H5|].
  apply (runs_bind_of_opt _ _ _ tid); [exact H6|].
  rewrite Hh. apply runs_fail.
Qed.

Lemma ctx_of_pats : forall w c,
  ctx_of w = Some c -> ign_load (am_get (w_files w) (str ".goitignore"%string)) = Some (x_pats c).
Proof.
  intros w c Hx. unfold ctx_of in Hx.
  destruct (cfg_of (w_gcfg w)); [|discriminate Hx].
  destruct (cfg_of (w_lcfg w)); [|discriminate Hx].
  destruct (head_commit w); [|discriminate Hx].
  destruct (ign_load (am_get (w_files w) (str ".goitignore"%string))) as [p0|]; [|discriminate Hx].
  injection Hx as <-. reflexivity.
Qed.

(* a `reset --mixed` that SUCCEEDED, taken apart: the world it leaves is
   initialised, loads a context, and its staging area is the snapshot of the
   commit the argument resolves to.  No reachability is needed here. *)
Theorem reset_mixed_succeeded : forall e w a tid es w' out tr,
  step (ACmd e (CReset false true false [a])) w = (w', OOk out, tr) ->
  ExactFacts.reset_target w a = Some tid ->
  snapshot (w_objs w) tid = Some es ->
  exists c tc,
    ctx_of w = Some c /\ get_commit (w_objs w) tid = Some tc /\
    w_inited w' = true /\
    ctx_of w' = Some (mkCtx (x_l c) (x_g c) (Some (tid, tc)) (x_pats c)) /\
    idx_of w' = es /\ out = [] /\ same_wt w w' /\ same_objs w w'.
Proof.
  intros e w a tid es w' out tr Hstep Ht Hsn.
  destruct (w_inited w) eqn:Hi.
  2:{ rewrite (step_not_loaded e _ w) in Hstep; [discriminate Hstep | discriminate | left; exact Hi]. }
  destruct (ctx_of w) as [c|] eqn:Hx.
  2:{ rewrite (step_not_loaded e _ w) in Hstep; [discriminate Hstep | discriminate | right; exact Hx]. }
  destruct (snapshot_inv _ _ _ Hsn) as (tc & d & ns & Htc & Hk & Hw & ->).
  destruct (x_headc c) as [[prev pc]|] eqn:Hh.
  2:{ rewrite (step_reset_runs e c w false true false [a] Err [] Hi Hx
                 (reset_no_head_refused e c w false true false a tid Ht Hh)) in Hstep.
      discriminate Hstep. }
  assert (Hb : am_mem (w_refs w) (w_head w) = true).
  { pose proof (ctx_of_headc w c Hx) as Hhc. rewrite Hh in Hhc.
    destruct (head_commit_some w prev pc Hhc) as [Hg _]. unfold am_mem. rewrite Hg. reflexivity. }
  destruct (cmd_reset_mixed_spec e c w a prev tid pc tc Ht Hh Htc Hb d ns Hk Hw)
    as (Hruns & Hpost & Hidx & Hwt).
  cbv zeta in Hruns, Hpost, Hidx, Hwt.
  remember (reset_head_trace e c w prev tid a ++ [ESetIndex (flatten [] ns)]) as tr1 eqn:Etr1.
  clear Etr1.
  rewrite (step_reset_runs e c w false true false [a] (Ok []) _ Hi Hx Hruns) in Hstep.
  cbn [outcome_of] in Hstep. injection Hstep as Hw' Hout Htr.
  rewrite Hw' in Hpost, Hidx, Hwt.
  exists c, tc. split; [reflexivity|]. split; [exact Htc|].
  split; [destruct Hpost as [_ _ _ _ (_ & _ & Hin)]; rewrite Hin; exact Hi|].
  split.
  - apply (ctx_after_reset w w' c tid tc (x_pats c) Hx Hpost Htc).
    unfold file. destruct Hwt as [Hf _]. rewrite Hf. apply ctx_of_pats. exact Hx.
  - split; [exact Hidx|]. split; [symmetry; exact Hout|]. split; [exact Hwt|].
    destruct Hpost as [_ _ _ Ho _]. exact Ho.
Qed.

Lemma step_w_of_step : forall a w w' o tr, step a w = (w', o, tr) -> step_w a w = w'.
Proof. intros a w w' o tr H. unfold step_w. rewrite H. reflexivity. Qed.

(* C05 at the level of what is PRINTED.  A `commit` that succeeds in a
   reachable world [w0]; any later history [h] (commands accepted or refused,
   edits, other commits, branch switches ...); a `reset --mixed` whose argument
   resolves, in the journal of that later world, to the commit made at [w0]:
   then `ls-files -s` prints, line by line, exactly the entries that were staged
   when the commit was made -- id in hex, space, path -- and `ls-files`
   their paths; both leave the world as it is.
   Guards: no flagged SHA-1 collision and no object of 8 EiB or more at the
   moment of the reset (they imply the same for every earlier world). *)
Theorem commit_reset_ls_files : forall e0 msg w0 w1 out0 tr0 h e a w' out tr cid,
  Reachable w0 ->
  step (ACmd e0 (CCommit msg)) w0 = (w1, OOk out0, tr0) ->
  am_get (w_refs w1) (w_head w1) = Some cid ->
  w_coll (run h w1) = false -> SmallStore (w_objs (run h w1)) ->
  step (ACmd e (CReset false true false [a])) (run h w1) = (w', OOk out, tr) ->
  ExactFacts.reset_target (run h w1) a = Some cid ->
  idx_of w' = idx_of w0 /\
  forall e2 s,
    step (ACmd e2 (CLsFiles s)) w' = (w', OOk (map (ls_line s) (idx_of w0)), []).
Proof.
  intros e0 msg w0 w1 out0 tr0 h e a w' out tr cid Hr Hc Hhead Hcoll Hsm Hreset Ht.
  pose proof (step_w_of_step _ _ _ _ _ Hc) as Hw1.
  assert (Hrun : run (ACmd e0 (CCommit msg) :: h) w0 = run h w1).
  { rewrite run_cons, Hw1. reflexivity. }
  assert (Hg0 : GoodW w0).
  { apply (reachable_good w0 Hr).
    - apply (run_coll_false_before (ACmd e0 (CCommit msg) :: h) w0). rewrite Hrun. exact Hcoll.
    - apply (SmallStore_ext (w_objs w0) (w_objs (run h w1))); [|exact Hsm].
      rewrite <- Hrun. apply run_store_ext. rewrite Hrun. exact Hcoll. }
  destruct (commit_snapshot e0 msg w0 w1 out0 tr0 h Hg0 Hc Hcoll Hsm) as (cid' & Hh' & Hsn).
  rewrite Hhead in Hh'. injection Hh' as <-.
  destruct (reset_mixed_succeeded e (run h w1) a cid (idx_of w0) w' out tr Hreset Ht Hsn)
    as (c & tc & _ & _ & Hi' & Hx' & Hidx & _).
  split; [exact Hidx|]. intros e2 s.
  rewrite (ls_files_spec e2 w' _ s Hi' Hx'), Hidx. reflexivity.
Qed.

(* the same with the argument written as a journal position: "HEAD@{n}" *)
Corollary commit_reset_position_ls_files : forall e0 msg w0 w1 out0 tr0 h e n hl rs r w' out tr cid,
  Reachable w0 ->
  step (ACmd e0 (CCommit msg)) w0 = (w1, OOk out0, tr0) ->
  am_get (w_refs w1) (w_head w1) = Some cid ->
  w_coll (run h w1) = false -> SmallStore (w_objs (run h w1)) ->
  (n <= 9223372036854775807)%N ->
  w_hlog (run h w1) = Some hl -> parse_reflog hl = Some rs ->
  get_record rs (N.to_nat n) = Some r -> r_id r = Some cid ->
  step (ACmd e (CReset false true false [head_at n])) (run h w1) = (w', OOk out, tr) ->
  forall e2,
    step (ACmd e2 (CLsFiles true)) w' =
    (w', OOk (map (fun en => hex (e_id en) ++ [c_sp] ++ e_path en) (idx_of w0)), []).
Proof.
  intros e0 msg w0 w1 out0 tr0 h e n hl rs r w' out tr cid Hr Hc Hhead Hcoll Hsm Hn Hhl Hrs Hrec Hid Hreset e2.
  pose proof (reset_target_at (run h w1) n hl rs r cid Hn Hhl Hrs Hrec Hid) as Ht.
  destruct (commit_reset_ls_files e0 msg w0 w1 out0 tr0 h e (head_at n) w' out tr cid
              Hr Hc Hhead Hcoll Hsm Hreset Ht) as [_ Hls].
  exact (Hls e2 true).
Qed.

(* ================================================================== *)
(** * C. C06: the staging-area file of a reachable world is lossless *)

(* what the file format needs of an entry, beyond validity: the path length
   fits the two bytes the format gives it *)
Definition short_path (e : entry) : Prop := (lenN (e_path e) < 65536)%N.

Lemma valid_short_wf : forall e, valid_entry e -> short_path e -> wf_entry e.
Proof. intros e [Hid _] Hs. split; [exact Hid | exact Hs]. Qed.

Lemma reachable_index_wf : forall w,
  Reachable w -> w_coll w = false -> SmallStore (w_objs w) ->
  Forall short_path (idx_of w) -> Forall wf_entry (idx_of w).
Proof.
  intros w Hr Hc Hs Hshort.
  destruct (staging_area_sorted w Hr Hc Hs) as (_ & _ & Hval).
  rewrite Forall_forall in *. intros en Hen.
  apply valid_short_wf; [apply Hval | apply Hshort]; exact Hen.
Qed.

(* the guards: fewer than 2^32 entries (the count field has four bytes) and
   every path shorter than 2^16 bytes (its length field has two) *)
Theorem reachable_index_roundtrip : forall w,
  Reachable w -> w_coll w = false -> SmallStore (w_objs w) ->
  (N.of_nat (length (idx_of w)) < 2 ^ 32)%N ->
  Forall short_path (idx_of w) ->
  decode_index (encode_index (idx_of w)) = Some (idx_of w).
Proof.
  intros w Hr Hc Hs Hcnt Hshort. apply index_roundtrip.
  - apply reachable_index_wf; assumption.
  - exact Hcnt.
Qed.

(* ... and what is read back is again strictly ascending, duplicate-free and valid *)
Corollary reachable_index_roundtrip_canonical : forall w,
  Reachable w -> w_coll w = false -> SmallStore (w_objs w) ->
  (N.of_nat (length (idx_of w)) < 2 ^ 32)%N ->
  Forall short_path (idx_of w) ->
  exists es, decode_index (encode_index (idx_of w)) = Some es /\ es = idx_of w /\
             StronglySorted (fun a b => blt (e_path a) (e_path b) = true) es /\
             NoDup (paths es) /\ Forall valid_entry es.
Proof.
  intros w Hr Hc Hs Hcnt Hshort. exists (idx_of w).
  split; [apply reachable_index_roundtrip; assumption|]. split; [reflexivity|].
  apply staging_area_sorted; assumption.
Qed.

(* the path-length guard is needed by the FORMAT (a two-byte length field,
   written modulo 2^16), not by the proof: one valid entry whose path has
   65536 bytes is written with length 0 and read back with an empty path *)
Definition long_entry : entry := mkE (repeat x00 20) (repeat x61 (N.to_nat 65536)).

Lemma long_entry_valid : valid_entry long_entry.
Proof.
  split; [reflexivity|]. unfold valid_path, long_entry. cbn [e_path].
  assert (Hns : ~ In c_slash (repeat x61 (N.to_nat 65536))).
  { intro Hin. apply repeat_spec in Hin. discriminate Hin. }
  rewrite tf_split_all_split1, (tf_split1_none c_slash _ Hns).
  constructor; [|constructor]. split; [|split].
  - intro E. apply (f_equal (@length byte)) in E. rewrite repeat_length in E. cbn [length] in E. lia.
  - exact Hns.
  - intro Hin. apply repeat_spec in Hin. discriminate Hin.
Qed.

Example long_path_not_lossless :
  decode_index (encode_index [long_entry]) = Some [mkE (repeat x00 20) []].
Proof. vm_compute. reflexivity. Qed.

(* ================================================================== *)
(** * B. `cat-file -p <tree>` *)

(* one printed line of Tree.String: kind, id in hex, complete name *)
Definition listing_line (x : bool * bytes * bytes) : bytes :=
  let '(isd, i, n) := x in
  (if isd : bool then str "tree "%string else str "blob "%string) ++ hex i ++ [c_sp] ++ n.

(* the same line, read off the item of the pure tree *)
Definition item_line (i : item) : bytes :=
  match i with
  | IFile n id => str "blob "%string ++ hex id ++ [c_sp] ++ n
  | IDir n sub => str "tree "%string ++ hex (obj_id KTree (ser sub)) ++ [c_sp] ++ n
  end.

Lemma tree_lines_eq : forall ns, tree_lines ns = map listing_line (tree_listing ns).
Proof. reflexivity. Qed.

Lemma listing_item_line : forall i, listing_line (item_listing i) = item_line i.
Proof. intros [n id | n sub]; reflexivity. Qed.

Lemma tree_lines_items : forall its,
  Forall wf_item its -> tree_lines (map node_of its) = map item_line its.
Proof.
  intros its Hwf. rewrite tree_lines_eq, (tree_listing_items its Hwf), map_map.
  apply map_ext. exact listing_item_line.
Qed.

(* a stored tree that walks: `cat-file -p` prints its listing *)
Lemma cat_file_out_tree : forall w tid d ns,
  get_kind (w_objs w) KTree tid = Some d ->
  walk_tree (S (length (w_objs w))) (w_objs w) d = Some ns ->
  cat_file_out w false true (hex tid) = Ok (tree_lines ns) /\
  cat_file_out w true false (hex tid) = Ok [str "tree"%string].
Proof.
  intros w tid d ns Hk Hw. apply get_kind_iff in Hk. split.
  - unfold cat_file_out. cbn [andb].
    rewrite (read_hash_hex tid (get_obj_id_length _ _ _ Hk)), Hk.
    unfold cat_p_lines. cbn [fst snd]. rewrite Hw. reflexivity.
  - rewrite (cat_file_out_t w tid KTree d Hk). reflexivity.
Qed.

Lemma step_cat_tree : forall e w c tid d ns,
  w_inited w = true -> ctx_of w = Some c ->
  get_kind (w_objs w) KTree tid = Some d ->
  walk_tree (S (length (w_objs w))) (w_objs w) d = Some ns ->
  step (ACmd e (CCatFile false true [hex tid])) w = (w, OOk (tree_lines ns), []) /\
  step (ACmd e (CCatFile true false [hex tid])) w = (w, OOk [str "tree"%string], []).
Proof.
  intros e w c tid d ns Hi Hx Hk Hw.
  destruct (cat_file_out_tree w tid d ns Hk Hw) as [Hp Ht].
  rewrite !step_cat_file_eq, Hi, Hx, Hp, Ht. split; reflexivity.
Qed.

(* ---------- the sub-trees ---------- *)

(* Goit's reader, one level down: a directory item among the nodes read means
   that its id names a stored tree which the reader walked into those children *)
Lemma wk_go_child : forall (rec : bytes -> option (list node)) st items its n sub,
  wk_go rec st items = Some (map node_of its) -> sub <> [] ->
  In (IDir n sub) its ->
  exists d', get_kind st KTree (obj_id KTree (ser sub)) = Some d' /\ rec d' = Some (map node_of sub).
Proof.
  intros rec st. induction items as [|[[mode name] id] items IH]; intros its n sub H Hne Hin.
  - cbn [wk_go] in H. injection H as H. destruct its as [|i its]; [contradiction Hin | discriminate H].
  - cbn [wk_go] in H.
    destruct (if bytes_eqb mode mode_dir
              then match get_kind st KTree id with Some d => rec d | None => None end
              else Some []) as [ch|] eqn:Esub; [|discriminate H].
    destruct (wk_go rec st items) as [ns|] eqn:Ego; [|discriminate H].
    destruct its as [|i its]; [contradiction Hin|].
    cbn [map] in H. injection H as Hnode Hns.
    destruct Hin as [->|Hin].
    + rewrite node_of_dir in Hnode. injection Hnode as Hid _ Hch. subst id ch.
      destruct (bytes_eqb mode mode_dir).
      * destruct (get_kind st KTree (obj_id KTree (ser sub))) as [d'|]; [|discriminate Esub].
        exists d'. split; [reflexivity | exact Esub].
      * injection Esub as Esub. destruct sub; [contradiction Hne; reflexivity | discriminate Esub].
    + apply (IH its n sub); [rewrite Hns; reflexivity | exact Hne | exact Hin].
Qed.

Lemma walk_child : forall st f d its n sub,
  walk_tree f st d = Some (map node_of its) -> Forall wf_item its -> In (IDir n sub) its ->
  Forall wf_item sub /\
  exists d', get_kind st KTree (obj_id KTree (ser sub)) = Some d' /\
             walk_tree (pred f) st d' = Some (map node_of sub).
Proof.
  intros st f d its n sub Hw Hwf Hin.
  destruct (in_dir_wf n sub its Hwf Hin) as (Hwf' & Hne & _).
  split; [exact Hwf'|].
  destruct f as [|f]; [discriminate Hw|]. rewrite walk_tree_S in Hw.
  destruct (parse_tree_items (S (length d)) d) as [items|]; [|discriminate Hw].
  cbn [pred]. exact (wk_go_child (walk_tree f st) st items its n sub Hw Hne Hin).
Qed.

(* the directories at any depth below the top level [top] *)
Inductive dir_below (top : list item) : list item -> Prop :=
| db_child : forall n sub, In (IDir n sub) top -> dir_below top sub
| db_deeper : forall mid n sub, dir_below top mid -> In (IDir n sub) mid -> dir_below top sub.

Lemma dir_below_walks : forall st f d top,
  walk_tree f st d = Some (map node_of top) -> Forall wf_item top ->
  forall sub, dir_below top sub ->
  Forall wf_item sub /\
  exists d' f', f' <= f /\ get_kind st KTree (obj_id KTree (ser sub)) = Some d' /\
                walk_tree f' st d' = Some (map node_of sub).
Proof.
  intros st f d top Hw Hwf sub Hb. induction Hb as [n sub Hin | mid n sub Hb IH Hin].
  - destruct (walk_child st f d top n sub Hw Hwf Hin) as (Hwf' & d' & Hk & Hw').
    split; [exact Hwf'|]. exists d', (pred f). split; [lia|]. split; assumption.
  - destruct IH as (Hwfm & dm & fm & Hle & _ & Hwm).
    destruct (walk_child st fm dm mid n sub Hwm Hwfm Hin) as (Hwf' & d' & Hk & Hw').
    split; [exact Hwf'|]. exists d', (pred fm). split; [lia|]. split; assumption.
Qed.

(* C05, `cat-file -p` on EVERY reachable repository.  For every stored commit
   [cm] there is a pure item tree [its] -- well formed, flattening to the
   commit's snapshot as `reset` reads it, canonical, valid, without two
   directories of one name at any level -- such that
     `cat-file -p <tree of cm>` prints one line per DIRECT child of [its], in
       order: "blob <hex id> <name>" for a file, "tree <hex id> <name>" for a
       directory, the name complete (spaces included), the id that of the
       child's own serialisation;
     `cat-file -p <id of a directory at ANY depth>` prints the same for that
       directory's direct children;
     `cat-file -t` of each prints "tree";
   and none of these commands changes the world or writes anything. *)
Theorem cat_file_tree_spec : forall w c id cm,
  Reachable w -> w_coll w = false -> SmallStore (w_objs w) ->
  w_inited w = true -> ctx_of w = Some c ->
  get_commit (w_objs w) id = Some cm ->
  exists d its,
    get_kind (w_objs w) KTree (c_tree cm) = Some d /\
    walk_tree (S (length (w_objs w))) (w_objs w) d = Some (map node_of its) /\
    snapshot (w_objs w) id = Some (flat_items [] its) /\
    Forall wf_item its /\ Canonical (flat_items [] its) /\ Forall valid_entry (flat_items [] its) /\
    nodes_unique (map node_of its) /\
    (forall e,
       step (ACmd e (CCatFile false true [hex (c_tree cm)])) w = (w, OOk (map item_line its), []) /\
       step (ACmd e (CCatFile true false [hex (c_tree cm)])) w = (w, OOk [str "tree"%string], [])) /\
    (forall sub, dir_below its sub ->
       Forall wf_item sub /\
       forall e,
         step (ACmd e (CCatFile false true [hex (obj_id KTree (ser sub))])) w
           = (w, OOk (map item_line sub), []) /\
         step (ACmd e (CCatFile true false [hex (obj_id KTree (ser sub))])) w
           = (w, OOk [str "tree"%string], [])).
Proof.
  intros w c id cm Hr Hc Hs Hi Hx Hcm.
  destruct (TreeUniqueFacts.reachable_unique w Hr Hc Hs id cm Hcm)
    as (d & its & Hk & Hw & Hwf & Hcan & Hval & Hu).
  exists d, its. split; [exact Hk|]. split; [exact Hw|].
  split; [unfold snapshot; rewrite Hcm, Hk, Hw, (flatten_items its Hwf); reflexivity|].
  split; [exact Hwf|]. split; [exact Hcan|]. split; [exact Hval|]. split; [exact Hu|].
  split.
  - intro e. rewrite <- (tree_lines_items its Hwf).
    exact (step_cat_tree e w c (c_tree cm) d (map node_of its) Hi Hx Hk Hw).
  - intros sub Hb.
    destruct (dir_below_walks _ _ _ _ Hw Hwf sub Hb) as (Hwf' & d' & f' & Hle & Hk' & Hw').
    split; [exact Hwf'|]. intro e. rewrite <- (tree_lines_items sub Hwf').
    apply (step_cat_tree e w c _ d' (map node_of sub) Hi Hx Hk').
    exact (walk_tree_mono_le f' (S (length (w_objs w))) _ _ _ Hle Hw').
Qed.

(* the statement of the task, in its short form *)
Corollary cat_file_tree_children : forall e w c id cm,
  Reachable w -> w_coll w = false -> SmallStore (w_objs w) ->
  w_inited w = true -> ctx_of w = Some c ->
  get_commit (w_objs w) id = Some cm ->
  exists d its,
    get_kind (w_objs w) KTree (c_tree cm) = Some d /\
    walk_tree (S (length (w_objs w))) (w_objs w) d = Some (map node_of its) /\
    Forall wf_item its /\
    step (ACmd e (CCatFile false true [hex (c_tree cm)])) w =
      (w, OOk (map listing_line (tree_listing (map node_of its))), []).
Proof.
  intros e w c id cm Hr Hc Hs Hi Hx Hcm.
  destruct (TreeUniqueFacts.reachable_unique w Hr Hc Hs id cm Hcm)
    as (d & its & Hk & Hw & Hwf & _).
  exists d, its. split; [exact Hk|]. split; [exact Hw|]. split; [exact Hwf|].
  rewrite <- tree_lines_eq.
  exact (proj1 (step_cat_tree e w c (c_tree cm) d (map node_of its) Hi Hx Hk Hw)).
Qed.

(* [w_inited] follows from reachability as soon as anything is stored: nothing
   is written to the object store before `init` *)
Definition NoObjs (w : world) : Prop := w_inited w = false -> w_objs w = [].

Lemma NoObjs_step : forall a w, NoObjs w -> NoObjs (step_w a w).
Proof.
  intros [e c|u] w Hb.
  - destruct (w_inited w) eqn:Hi.
    + intro Hf. exfalso.
      destruct (step_w_eq (ACmd e c) w) as [tr Htr]. rewrite Htr in Hf.
      rewrite (inited_trace_mono tr w Hi) in Hf. discriminate Hf.
    + destruct c; try (unfold step_w; rewrite step_not_loaded; [exact Hb | discriminate | left; exact Hi]).
      unfold NoObjs, step_w. rewrite step_cmd_eq. cbn [fst].
      unfold run_cmd, cmd_init. ev. rewrite Hi. cbn [negb]. ev.
      unfold ret. cbn [snd ms_w]. rewrite w_inited_EInit. intro Hf. discriminate Hf.
  - unfold step_w. cbn [step fst]. intro Hf. rewrite w_inited_apply_edit in Hf.
    rewrite w_objs_apply_edit. apply Hb. exact Hf.
Qed.

Lemma NoObjs_run : forall h w, NoObjs w -> NoObjs (run h w).
Proof.
  induction h as [|a h IH]; intros w Hb; [exact Hb|].
  rewrite run_cons. apply IH. apply NoObjs_step. exact Hb.
Qed.

Theorem reachable_stored_inited : forall w id kd,
  Reachable w -> get_obj (w_objs w) id = Some kd -> w_inited w = true.
Proof.
  intros w id kd (h & _ & ->) Hg.
  assert (Hb : NoObjs (run h w_empty)) by (apply NoObjs_run; intros _; reflexivity).
  destruct (w_inited (run h w_empty)) eqn:Hi; [reflexivity|].
  rewrite (Hb Hi) in Hg. discriminate Hg.
Qed.

Corollary reachable_commit_inited : forall w id cm,
  Reachable w -> get_commit (w_objs w) id = Some cm -> w_inited w = true.
Proof.
  intros w id cm Hr Hcm. unfold get_commit in Hcm.
  destruct (get_kind (w_objs w) KCommit id) as [d|] eqn:Hk; [|discriminate Hcm].
  apply get_kind_iff in Hk. exact (reachable_stored_inited w id _ Hr Hk).
Qed.

(* [cat_file_tree_spec] without the hypothesis [w_inited w = true] *)
Corollary cat_file_tree_spec' : forall w c id cm,
  Reachable w -> w_coll w = false -> SmallStore (w_objs w) -> ctx_of w = Some c ->
  get_commit (w_objs w) id = Some cm ->
  exists its,
    snapshot (w_objs w) id = Some (flat_items [] its) /\ Forall wf_item its /\
    (forall e, step (ACmd e (CCatFile false true [hex (c_tree cm)])) w = (w, OOk (map item_line its), [])) /\
    (forall sub e, dir_below its sub ->
       step (ACmd e (CCatFile false true [hex (obj_id KTree (ser sub))])) w = (w, OOk (map item_line sub), [])).
Proof.
  intros w c id cm Hr Hc Hs Hx Hcm.
  destruct (cat_file_tree_spec w c id cm Hr Hc Hs (reachable_commit_inited w id cm Hr Hcm) Hx Hcm)
    as (d & its & _ & _ & Hsn & Hwf & _ & _ & _ & Htop & Hsub).
  exists its. split; [exact Hsn|]. split; [exact Hwf|]. split.
  - intro e. exact (proj1 (Htop e)).
  - intros sub e Hb. exact (proj1 (proj2 (Hsub sub Hb) e)).
Qed.

(* ================================================================== *)
(** * D. Non-vacuity: the theorems applied to two worked histories *)

(* SnapshotFacts and ExactFacts define the same function *)
Lemma reset_target_same : forall w a, SnapshotFacts.reset_target w a = ExactFacts.reset_target w a.
Proof. reflexivity. Qed.

Local Notation sx_env := SnapshotFacts.ex_env.
Local Notation sx_w0 := SnapshotFacts.ex_w0.
Local Notation sx_c1 := (ACmd SnapshotFacts.ex_env (CCommit (str "first"%string))).
Local Notation sx_rs := (ACmd SnapshotFacts.ex_env (CReset false true false [str "HEAD@{1}"%string])).
Local Notation sx_w1 := (step_w sx_c1 sx_w0).
Local Notation sx_w2 := (run SnapshotFacts.ex_suffix sx_w1).
Local Notation sx_cid := SnapshotFacts.ex_cid.

Lemma sx_w0_reachable : Reachable sx_w0.
Proof.
  exists SnapshotFacts.ex_prefix. split; [|reflexivity].
  pose proof SnapshotFacts.ex_history_ok as H. unfold SnapshotFacts.ex_history in H.
  apply Forall_app in H. apply H.
Qed.

(* SnapshotFacts' history: init, identity, three files (one in a directory, one
   name with a space), add ., commit "first" | edit, add, commit "second" |
   reset HEAD@{1}: `ls-files -s` then prints what was staged at "first" *)
Example sx_ls_files_after_reset : forall e2 s,
  step (ACmd e2 (CLsFiles s)) (step_w sx_rs sx_w2) =
  (step_w sx_rs sx_w2, OOk (map (ls_line s) (idx_of sx_w0)), []).
Proof.
  refine (proj2 (commit_reset_ls_files sx_env (str "first"%string) sx_w0 sx_w1 [] (snd (step sx_c1 sx_w0))
                   SnapshotFacts.ex_suffix
                   sx_env (str "HEAD@{1}"%string) (step_w sx_rs sx_w2) [] (snd (step sx_rs sx_w2)) sx_cid
                   sx_w0_reachable (SnapshotFacts.step_ok_intro sx_c1 sx_w0 [] SnapshotFacts.ex_h2)
                   SnapshotFacts.ex_s2 SnapshotFacts.ex_s3 SnapshotFacts.ex_s4
                   (SnapshotFacts.step_ok_intro sx_rs sx_w2 [] SnapshotFacts.ex_h5) _)).
  rewrite <- reset_target_same. exact SnapshotFacts.ex_s6.
Qed.

(* the lines, by computation; the ids are the ones Git gives the same contents *)
Example sx_ls_lines :
  map (ls_line true) (idx_of sx_w0) =
  [str "1d19714ffbc272ba0da6eb419d66123c20527174 a";
   str "64c5e5885a4b06010b3a0c20edb7900dd0311025 d-a";
   str "43dd47ea691c90a5fa7827892c70241913351963 d/x y"].
Proof. vm_compute. reflexivity. Qed.

(* ResetFacts' history (three commits; the last snapshot is a, d/x, d/y) *)
Lemma zx_inited : w_inited zx_w = true.
Proof. vm_compute. reflexivity. Qed.
Lemma zx_commit3 : get_commit (w_objs zx_w) zx_c3 = Some zx_pc.
Proof. vm_compute. reflexivity. Qed.

Definition zx_d3 := Eval vm_compute in zx_get [] (get_kind (w_objs zx_w) KTree (c_tree zx_pc)).
Lemma zx_kind3 : get_kind (w_objs zx_w) KTree (c_tree zx_pc) = Some zx_d3.
Proof. vm_compute. reflexivity. Qed.
Definition zx_ns3 := Eval vm_compute in zx_get [] (walk_tree (S (length (w_objs zx_w))) (w_objs zx_w) zx_d3).
Lemma zx_walk3 : walk_tree (S (length (w_objs zx_w))) (w_objs zx_w) zx_d3 = Some zx_ns3.
Proof. vm_compute. reflexivity. Qed.

Example zx_index_roundtrip : decode_index (encode_index (idx_of zx_w)) = Some (idx_of zx_w).
Proof.
  apply (reachable_index_roundtrip zx_w zx_reachable zx_coll zx_small).
  - vm_compute. reflexivity.
  - unfold short_path. repeat (apply Forall_cons || apply Forall_nil); vm_compute; reflexivity.
Qed.

(* what the two commands print there, by computation *)
Example zx_cat_tree_output :
  step (zx_cmd (CCatFile false true [str "092b2accd76b50aced17a28c632ed3eb789f2b2f"])) zx_w =
  (zx_w, OOk [str "blob 64c5e5885a4b06010b3a0c20edb7900dd0311025 a";
              str "tree 47932fcc0cd13ed7dee1a011520815062b4b8560 d"], []) /\
  step (zx_cmd (CCatFile false true [str "47932fcc0cd13ed7dee1a011520815062b4b8560"])) zx_w =
  (zx_w, OOk [str "blob c77b47c1cddfaadb4e22e71d28caaea0850dc0be x";
              str "blob f4dd1b69875a0a8030fce3dac5c582601f8fdad1 y"], []) /\
  hex (c_tree zx_pc) = str "092b2accd76b50aced17a28c632ed3eb789f2b2f".
Proof. split; [|split]; vm_compute; reflexivity. Qed.

Lemma node_of_leaf_inv : forall i id n, wf_item i -> node_of i = Node id n [] -> i = IFile n id.
Proof.
  intros [n0 id0 | n0 s] id n Hwf H.
  - cbn [node_of] in H. injection H as -> ->. reflexivity.
  - exfalso. rewrite node_of_dir in H. pose proof (f_equal n_children H) as Hs. cbn [n_children] in Hs.
    inversion Hwf as [|n1 s1 _ Hne _]; subst. destruct s; [apply Hne; reflexivity | discriminate Hs].
Qed.

(* a node with children among the nodes read is a directory item *)
Lemma dir_item_of_node : forall its id n ch,
  In (Node id n ch) (map node_of its) -> ch <> [] ->
  exists sub, In (IDir n sub) its /\ map node_of sub = ch.
Proof.
  intros its id n ch Hin Hne. apply in_map_iff in Hin. destruct Hin as ([n0 id0 | n0 s] & Hi & Hin).
  - exfalso. cbn [node_of] in Hi. pose proof (f_equal n_children Hi) as Hc. cbn [n_children] in Hc.
    apply Hne. symmetry. exact Hc.
  - rewrite node_of_dir in Hi.
    pose proof (f_equal n_name Hi) as Hn. pose proof (f_equal n_children Hi) as Hc.
    cbn [n_name n_children] in Hn, Hc. subst n0. exists s. split; [exact Hin | exact Hc].
Qed.

Lemma two_leaves_inv : forall sub ia na ib nb,
  Forall wf_item sub -> map node_of sub = [Node ia na []; Node ib nb []] ->
  sub = [IFile na ia; IFile nb ib].
Proof.
  intros sub ia na ib nb Hwf H.
  destruct sub as [|j1 [|j2 [|j3 r]]]; try discriminate H.
  cbn [map] in H. injection H as Hj1 Hj2.
  inversion Hwf as [|? ? Hw1 Hwf']; subst. inversion Hwf' as [|? ? Hw2 _]; subst.
  rewrite (node_of_leaf_inv j1 _ _ Hw1 Hj1), (node_of_leaf_inv j2 _ _ Hw2 Hj2). reflexivity.
Qed.

(* the second node read from the last commit's tree is the directory d with two leaves *)
Definition zx_nd : node := Eval vm_compute in nth 1 zx_ns3 (Node [] [] []).
Definition zx_did : bytes := Eval vm_compute in n_id zx_nd.
Definition zx_chd : list node := Eval vm_compute in n_children zx_nd.
Definition zx_xid : bytes := Eval vm_compute in n_id (nth 0 zx_chd (Node [] [] [])).
Definition zx_yid : bytes := Eval vm_compute in n_id (nth 1 zx_chd (Node [] [] [])).
Lemma zx_nd_in : In (Node zx_did (str "d"%string) zx_chd) zx_ns3.
Proof. vm_compute. right. left. reflexivity. Qed.
Lemma zx_chd_eq : zx_chd = [Node zx_xid (str "x"%string) []; Node zx_yid (str "y"%string) []].
Proof. vm_compute. reflexivity. Qed.
Lemma zx_chd_ne : zx_chd <> [].
Proof. rewrite zx_chd_eq. discriminate. Qed.

(* [cat_file_tree_spec] applies to it, and its sub-tree clause is not vacuous:
   the item tree it speaks of has the directory d below its top level, and the
   listing of d is the two files *)
Example zx_cat_tree_applies :
  exists its sub,
    snapshot (w_objs zx_w) zx_c3 = Some (flat_items [] its) /\
    (forall e, step (ACmd e (CCatFile false true [hex (c_tree zx_pc)])) zx_w = (zx_w, OOk (map item_line its), [])) /\
    dir_below its sub /\
    (forall e, step (ACmd e (CCatFile false true [hex (obj_id KTree (ser sub))])) zx_w
               = (zx_w, OOk (map item_line sub), [])) /\
    map item_line sub = [str "blob c77b47c1cddfaadb4e22e71d28caaea0850dc0be x"%string;
                         str "blob f4dd1b69875a0a8030fce3dac5c582601f8fdad1 y"%string].
Proof.
  destruct (cat_file_tree_spec zx_w zx_c zx_c3 zx_pc zx_reachable zx_coll zx_small zx_inited zx_ctx zx_commit3)
    as (d & its & Hk & Hw & Hsn & Hwf & _ & _ & _ & Htop & Hsub).
  rewrite zx_kind3 in Hk. injection Hk as <-. rewrite zx_walk3 in Hw. injection Hw as Hns.
  pose proof zx_nd_in as Hin. rewrite Hns in Hin.
  destruct (dir_item_of_node its zx_did (str "d"%string) zx_chd Hin zx_chd_ne) as (sub & Hsubin & Hch).
  assert (Hb : dir_below its sub) by (apply (db_child its (str "d"%string) sub); exact Hsubin).
  pose proof (Hsub sub Hb) as Hs.
  exists its, sub.
  split; [exact Hsn|]. split; [intro e; exact (proj1 (Htop e))|]. split; [exact Hb|].
  split; [intro e; exact (proj1 (proj2 Hs e))|].
  rewrite zx_chd_eq in Hch.
  rewrite (two_leaves_inv sub _ _ _ _ (proj1 Hs) Hch).
  vm_compute. reflexivity.
Qed.

(* ================================================================== *)
Print Assumptions ls_files_spec.
Print Assumptions step_ls_files_eq.
Print Assumptions reset_mixed_succeeded.
Print Assumptions commit_reset_ls_files.
Print Assumptions commit_reset_position_ls_files.
Print Assumptions cat_file_tree_spec.
Print Assumptions cat_file_tree_spec'.
Print Assumptions cat_file_tree_children.
Print Assumptions reachable_stored_inited.
Print Assumptions reachable_index_roundtrip.
Print Assumptions reachable_index_roundtrip_canonical.
Print Assumptions long_path_not_lossless.
Print Assumptions sx_ls_files_after_reset.
Print Assumptions zx_cat_tree_output.
Print Assumptions zx_cat_tree_applies.
Print Assumptions zx_index_roundtrip.
