(* Regex.v — byte-level regular expressions: AST, denotation, Brzozowski
   derivative matcher, Go's unanchored MatchString.  Definitions only; the
   correctness theorem (matches r s = true <-> lang r s) is in RegexFacts.v.

   Go's RE2 works on runes; for the patterns Goit uses (classes over ASCII,
   '.', [^<]) a multi-byte rune behaves as a sequence of bytes each of which
   is matched by '.', and by a negated ASCII class, so the byte-level reading
   accepts the same strings (checked against Go's regexp by the harness). *)
From Coq Require Import Strings.Byte.
From Coq Require Import List Bool NArith.
From Goit Require Import Bytes.
Import ListNotations.

(* a class is a list of inclusive byte ranges, possibly negated *)
Record cls := mkCls { c_neg : bool; c_ranges : list (N * N) }.

Definition in_ranges (rs : list (N * N)) (b : byte) : bool :=
  existsb (fun r => N.leb (fst r) (bN b) && N.leb (bN b) (snd r)) rs.
Definition in_cls (c : cls) (b : byte) : bool :=
  if c_neg c then negb (in_ranges (c_ranges c) b) else in_ranges (c_ranges c) b.

Inductive regex :=
| REmpty                       (* no string *)
| REps                         (* the empty string *)
| RCls (c : cls)
| RCat (a b : regex)
| RAlt (a b : regex)
| RStar (a : regex).

Definition RChar (b : byte) : regex := RCls (mkCls false [(bN b, bN b)]).
Definition RAnyNoNL : regex := RCls (mkCls true [(10%N, 10%N)]).   (* Go '.' *)
Definition RAny : regex := RCls (mkCls true []).
Definition RPlus (a : regex) : regex := RCat a (RStar a).
Definition ROpt (a : regex) : regex := RAlt a REps.
Fixpoint RLit (s : bytes) : regex :=
  match s with [] => REps | c :: r => RCat (RChar c) (RLit r) end.
Fixpoint RRep (n : nat) (a : regex) : regex :=
  match n with O => REps | S k => RCat a (RRep k a) end.
Definition RRepMin (n : nat) (a : regex) : regex := RCat (RRep n a) (RStar a).

Inductive lang : regex -> bytes -> Prop :=
| LEps : lang REps []
| LCls c b : in_cls c b = true -> lang (RCls c) [b]
| LCat a b s t : lang a s -> lang b t -> lang (RCat a b) (s ++ t)
| LAltL a b s : lang a s -> lang (RAlt a b) s
| LAltR a b s : lang b s -> lang (RAlt a b) s
| LStar0 a : lang (RStar a) []
| LStarS a s t : lang a s -> lang (RStar a) t -> lang (RStar a) (s ++ t).

Fixpoint nullable (r : regex) : bool :=
  match r with
  | REmpty => false
  | REps => true
  | RCls _ => false
  | RCat a b => nullable a && nullable b
  | RAlt a b => nullable a || nullable b
  | RStar _ => true
  end.

(* smart constructors keep derivatives small *)
Definition mkCat (a b : regex) : regex :=
  match a, b with
  | REmpty, _ => REmpty
  | _, REmpty => REmpty
  | REps, _ => b
  | _, REps => a
  | _, _ => RCat a b
  end.
Definition mkAlt (a b : regex) : regex :=
  match a, b with
  | REmpty, _ => b
  | _, REmpty => a
  | _, _ => RAlt a b
  end.

Fixpoint deriv (c : byte) (r : regex) : regex :=
  match r with
  | REmpty => REmpty
  | REps => REmpty
  | RCls k => if in_cls k c then REps else REmpty
  | RCat a b =>
      if nullable a then mkAlt (mkCat (deriv c a) b) (deriv c b)
      else mkCat (deriv c a) b
  | RAlt a b => mkAlt (deriv c a) (deriv c b)
  | RStar a => mkCat (deriv c a) (RStar a)
  end.

Fixpoint matches (r : regex) (s : bytes) : bool :=
  match s with
  | [] => nullable r
  | c :: t => matches (deriv c r) t
  end.

(* a pattern as written in Go: optional ^ and $ anchors around a body *)
Record pattern := mkPat { p_bol : bool; p_body : regex; p_eol : bool }.

Definition pat_regex (p : pattern) : regex :=
  let r := p_body p in
  let r := if p_bol p then r else RCat (RStar RAny) r in
  if p_eol p then r else RCat r (RStar RAny).

(* regexp.MatchString: is there a match anywhere in s *)
Definition re_search (p : pattern) (s : bytes) : bool := matches (pat_regex p) s.
