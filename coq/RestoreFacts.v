(* RestoreFacts.v — C09, TOTALITY of [restore] on reachable worlds, for whole
   argument lists.

   ExactFacts.v proves the success-case specifications ("if the command answers
   Ok then ...") and total specifications for ONE file argument.  This file
   adds, for argument LISTS mixing files and directories:

   (R1) [restore_worktree_total]   restore <args> answers Ok, writes exactly the
        selected tracked paths with their staged blobs, creates the missing
        parent directories, and changes nothing else;
   (R2) [restore_staged_total]     restore --staged <args> answers Ok, sets
        exactly the selected entries of the staging area to their state in
        HEAD's snapshot, and changes nothing else;
   (R3) [restore_unknown_refused]  when SOME argument is known to neither the
        staging area nor (with --staged) HEAD's snapshot, the whole command is
        refused: world unchanged, empty trace, both modes.

   Findings (each shown by a closed computation at the end of the file):
   (F-1) [restorable] alone is not enough for (R1): the staging area of a
         reachable world may hold a path AND a path beneath it (ExactFacts F-b);
         restoring both fails half-way.  Hence the hypothesis [wd_flat].
   (F-2) `restore --staged x x` (a path named twice, staged but not in HEAD)
         answers Err after having unstaged x; likewise `restore --staged d d/x`.
         A repeated path that IS a file of HEAD is harmless.  Hence the
         hypothesis [repeats_in_head] of (R2) (implied by [NoDup] of the targets;
         [idx_targets_nodup] gives a sufficient condition on the arguments).
   (F-3, repaired) `restore --staged .` used to leave out the paths of HEAD that
         were removed from the staging area (the root of the snapshot is not a
         tree node, [get_node ns "."] finds nothing).  Since the repair "."
         selects every path of the staging area AND of HEAD's snapshot
         ([rx_staged_dot_restores]), [st_selected_spec] needs no exception for
         "." and [restore_staged_dot_resets_everything] says that the staging
         area becomes HEAD's snapshot.
   The exact description of what a directory argument selects in HEAD
   ([head_dir_paths_complete], [st_selected_iff]) carries the hypothesis
   [nodes_unique]: no two directory entries of one name in a tree.  Goit never
   writes such trees but the history invariant of SnapshotFacts does not record
   it.  Soundness ([head_dir_paths_sound]) and totality need no such hypothesis. *)
From Coq Require Import Strings.String Strings.Byte.
From Coq Require Import List Bool NArith ZArith Arith Lia Sorted.
From Goit Require Import Bytes Sha1 Obj Tree Index Regex GoRegex Commit Reflog Config Ignore World Repo.
From Goit Require Import BytesFacts ObjFacts IndexFacts TreeFacts DiffFacts IgnoreFacts MonadFacts Inv.
From Goit Require Import BranchFacts ConnectedFacts SnapshotFacts ExactFacts.
Import ListNotations.

#[local] Arguments sha1 : simpl never.
#[local] Arguments obj_id : simpl never.
#[local] Arguments payload : simpl never.
#[local] Arguments header : simpl never.

(* ================================================================== *)
(** * 0. Sets of directories, work-tree status *)

Lemma rf_set_add_keep : forall s k q,
  existsb (bytes_eqb q) s = true -> existsb (bytes_eqb q) (set_add s k) = true.
Proof.
  intros s k q. induction s as [|k' r IH]; cbn [set_add existsb]; intro H; [discriminate H|].
  destruct (bytes_eqb k' k) eqn:E; [cbn [existsb]; exact H|].
  destruct (blt k k') eqn:L; cbn [existsb].
  - rewrite H. apply orb_true_r.
  - apply orb_true_iff in H. destruct H as [H|H]; [rewrite H; reflexivity|].
    rewrite (IH H). apply orb_true_r.
Qed.

Lemma rf_set_add_new : forall s k, existsb (bytes_eqb k) (set_add s k) = true.
Proof.
  intros s k. induction s as [|k' r IH]; cbn [set_add existsb].
  - rewrite bytes_eqb_refl. reflexivity.
  - destruct (bytes_eqb k' k) eqn:E.
    + cbn [existsb]. rewrite bytes_eqb_sym, E. reflexivity.
    + destruct (blt k k') eqn:L; cbn [existsb].
      * rewrite bytes_eqb_refl. reflexivity.
      * rewrite IH. apply orb_true_r.
Qed.

Lemma rf_set_mem_fold_keep : forall l s q,
  set_mem s q = true -> set_mem (fold_left set_add l s) q = true.
Proof.
  induction l as [|k l IH]; intros s q H; cbn [fold_left]; [exact H|].
  apply IH. unfold set_mem in *. apply rf_set_add_keep. exact H.
Qed.

Lemma rf_set_mem_fold_new : forall l s q, In q l -> set_mem (fold_left set_add l s) q = true.
Proof.
  induction l as [|k l IH]; intros s q Hin; [contradiction Hin|].
  cbn [fold_left]. destruct Hin as [->|Hin].
  - apply rf_set_mem_fold_keep. unfold set_mem. apply rf_set_add_new.
  - apply IH. exact Hin.
Qed.

Lemma rf_wt_stat_SDir : forall w d, wt_stat w d = SDir -> d = [x2e] \/ set_mem (w_dirs w) d = true.
Proof.
  intros w d. unfold wt_stat. destruct (bytes_eqb d [x2e]) eqn:E.
  - intros _. left. apply bytes_eqb_eq. exact E.
  - destruct (existsb (fun a => am_mem (w_files w) a) (ancestors d)); [discriminate|].
    destruct (am_mem (w_files w) d); [discriminate|].
    destruct (set_mem (w_dirs w) d); [intros _; right; reflexivity | discriminate].
Qed.

(* [restorable w q]: [restore] can write [q] in the work tree of [w]: no FILE
   sits where a directory is needed for [q] (the status would be SNotDir) and
   no DIRECTORY sits at [q] (the status would be SDir; "." is a directory) *)
Definition restorable (w : world) (q : bytes) : Prop := wt_stat w q = SFile \/ wt_stat w q = SNone.

Lemma restorable_iff : forall w q, restorable w q <-> wt_put_ok w q.
Proof.
  intros w q. split; [|apply wt_put_ok_stat].
  unfold restorable, wt_put_ok, wt_stat. intro H.
  destruct (bytes_eqb q [x2e]) eqn:Edot; [destruct H as [H|H]; discriminate H|].
  destruct (existsb (fun a => am_mem (w_files w) a) (ancestors q)) eqn:Ea; [destruct H as [H|H]; discriminate H|].
  split; [apply bytes_eqb_neq; exact Edot|]. split.
  - intros d Hd. destruct (am_mem (w_files w) d) eqn:Em; [|reflexivity].
    assert (Hex : existsb (fun a => am_mem (w_files w) a) (ancestors q) = true).
    { apply existsb_exists. exists d. split; assumption. }
    rewrite Hex in Ea. discriminate Ea.
  - destruct (am_mem (w_files w) q); [left; reflexivity|].
    destruct (set_mem (w_dirs w) q); [destruct H as [H|H]; discriminate H | right; reflexivity].
Qed.

(* the same, spelled out *)
Lemma restorable_spelled : forall w q,
  restorable w q <->
  q <> [x2e] /\ (forall d, In d (ancestors q) -> file w d = None) /\
  (file w q <> None \/ set_mem (w_dirs w) q = false).
Proof.
  intros w q. rewrite restorable_iff. unfold wt_put_ok, file, am_mem. split.
  - intros (H1 & H2 & H3). split; [exact H1|]. split.
    + intros d Hd. specialize (H2 d Hd). destruct (am_get (w_files w) d); [discriminate H2 | reflexivity].
    + destruct (am_get (w_files w) q); [left; discriminate | destruct H3 as [H3|H3]; [discriminate H3 | right; exact H3]].
  - intros (H1 & H2 & H3). split; [exact H1|]. split.
    + intros d Hd. rewrite (H2 d Hd). reflexivity.
    + destruct (am_get (w_files w) q); [left; reflexivity | destruct H3 as [H3|H3]; [contradiction H3; reflexivity | right; exact H3]].
Qed.

(* ================================================================== *)
(** * 1. One path: the world after [restore_wd] *)

(* the directories after [wt_put p]: the parent and its ancestors are made when
   the parent is missing *)
Definition wt_put_dirs (w : world) (p : bytes) : list bytes :=
  match parent_dir p with
  | Some d => match wt_stat w d with
              | SNone => fold_left set_add (ancestors d ++ [d]) (w_dirs w)
              | _ => w_dirs w
              end
  | None => w_dirs w
  end.

Lemma wt_put_trace_world : forall w p data,
  w_files (apply_effects (wt_put_trace w p data) w) = am_set (w_files w) p data /\
  w_dirs (apply_effects (wt_put_trace w p data) w) = wt_put_dirs w p.
Proof.
  intros w p data. unfold wt_put_trace, wt_put_dirs.
  destruct (parent_dir p) as [d|]; [destruct (wt_stat w d)|]; split; reflexivity.
Qed.

Lemma wt_put_dirs_mono : forall w p d, set_mem (w_dirs w) d = true -> set_mem (wt_put_dirs w p) d = true.
Proof.
  intros w p d H. unfold wt_put_dirs. destruct (parent_dir p) as [pd|]; [|exact H].
  destruct (wt_stat w pd); try exact H. apply rf_set_mem_fold_keep. exact H.
Qed.

Lemma wt_put_dirs_bound : forall w p d, set_mem (wt_put_dirs w p) d = true ->
  set_mem (w_dirs w) d = true \/ In d (ancestors p).
Proof.
  intros w p d. unfold wt_put_dirs. destruct (parent_dir p) as [pd|] eqn:Hpd; [|auto].
  destruct (wt_stat w pd); auto. intro H. apply ex_set_mem_fold_add in H.
  destruct H as [H|H]; [left; exact H|]. right.
  pose proof (ex_parent_dir_ancestor p pd Hpd) as Hanc.
  apply in_app_or in H. destruct H as [H|[H|[]]].
  - apply (ex_ancestors_trans d pd p H Hanc).
  - subst d. exact Hanc.
Qed.

Lemma wt_put_dirs_parent : forall w p d, wt_put_ok w p -> parent_dir p = Some d ->
  d = [x2e] \/ set_mem (wt_put_dirs w p) d = true.
Proof.
  intros w p d Hok Hpd. unfold wt_put_dirs. rewrite Hpd.
  destruct (wt_put_ok_parent w p d Hok Hpd) as [Hs|Hs]; rewrite Hs.
  - apply rf_wt_stat_SDir. exact Hs.
  - right. apply rf_set_mem_fold_new. apply in_or_app. right. left. reflexivity.
Qed.

Lemma restore_wd_runs : forall w p data, blob_of w p = Some data -> wt_put_ok w p ->
  runs (restore_wd p) w (Ok tt) (wt_put_trace w p data).
Proof.
  intros w p data Hb Hok. unfold restore_wd. rstep. unfold blob_of, staged in Hb.
  destruct (get_entry (idx_of w) p) as [[i en]|]; [|discriminate Hb]. cbn [option_map snd] in Hb.
  destruct (get_obj (w_objs w) (e_id en)) as [kd|] eqn:Hg; [|discriminate Hb].
  cbn [option_map] in Hb. injection Hb as <-.
  apply (runs_bind_of_opt _ _ _ kd); [reflexivity|]. apply wt_put_runs. exact Hok.
Qed.

(* ================================================================== *)
(** * 2. A list of paths, work-tree mode *)

(* what holds after the paths [done] have been restored *)
Record wd_state (w : world) (done : list bytes) (w1 : world) : Prop := {
  wds_index : w_index w1 = w_index w;
  wds_objs : same_objs w w1;
  wds_meta : ExactFacts.same_meta w w1;
  wds_done : forall q, In q done -> file w1 q = blob_of w q;
  wds_kept : forall q, ~ In q done -> file w1 q = file w q;
  wds_dirs_mono : forall d, set_mem (w_dirs w) d = true -> set_mem (w_dirs w1) d = true;
  wds_dirs_bound : forall d, set_mem (w_dirs w1) d = true ->
                     set_mem (w_dirs w) d = true \/ exists q, In q done /\ In d (ancestors q);
  wds_parent : forall q d, In q done -> parent_dir q = Some d -> d = [x2e] \/ set_mem (w_dirs w1) d = true
}.

Lemma wd_state_init : forall w, wd_state w [] w.
Proof.
  intro w. constructor; try reflexivity.
  - apply same_objs_refl.
  - apply ExactFacts.same_meta_refl.
  - intros q [].
  - auto.
  - auto.
  - intros q d [].
Qed.

Lemma rf_am_mem_file : forall w q, am_mem (w_files w) q = match file w q with Some _ => true | None => false end.
Proof. reflexivity. Qed.

(* the place of a later path is still free after the earlier ones are written *)
Lemma wd_state_ok : forall w l done x w1,
  (forall q, In q l -> wt_put_ok w q) ->
  (forall q1 q2, In q1 l -> In q2 l -> ~ In q1 (ancestors q2)) ->
  (forall q, In q l -> exists data, blob_of w q = Some data) ->
  incl done l -> In x l -> wd_state w done w1 -> wt_put_ok w1 x.
Proof.
  intros w l done x w1 Hok Hflat Hblob Hincl Hx St.
  destruct (Hok x Hx) as (Hdot & Hanc & Hfree).
  split; [exact Hdot|]. split.
  - intros d Hd. rewrite rf_am_mem_file.
    destruct (in_dec bytes_eq_dec d done) as [Hin|Hnin].
    + exfalso. apply (Hflat d x (Hincl d Hin) Hx Hd).
    + rewrite (wds_kept _ _ _ St d Hnin). rewrite <- rf_am_mem_file. apply Hanc. exact Hd.
  - rewrite rf_am_mem_file.
    destruct (in_dec bytes_eq_dec x done) as [Hin|Hnin].
    + left. rewrite (wds_done _ _ _ St x Hin). destruct (Hblob x Hx) as [data ->]. reflexivity.
    + rewrite (wds_kept _ _ _ St x Hnin). rewrite <- rf_am_mem_file.
      destruct Hfree as [Hf|Hf]; [left; exact Hf|]. right.
      destruct (set_mem (w_dirs w1) x) eqn:E; [|reflexivity]. exfalso.
      destruct (wds_dirs_bound _ _ _ St x E) as [H|[q [Hq Hxq]]]; [congruence|].
      apply (Hflat x q Hx (Hincl q Hq) Hxq).
Qed.

Lemma wd_state_step : forall w done x w1 data,
  wd_state w done w1 -> blob_of w x = Some data -> wt_put_ok w1 x ->
  wd_state w (done ++ [x]) (apply_effects (wt_put_trace w1 x data) w1).
Proof.
  intros w done x w1 data St Hb Hok1.
  destruct (wt_put_trace_post w1 x data) as [Pf Po Pi Pob Pm].
  destruct (wt_put_trace_world w1 x data) as [_ Wd].
  destruct St as [Ji Jo Jm Jd Jk Jmono Jbound Jpar].
  constructor.
  - congruence.
  - apply (same_objs_trans _ _ _ Jo Pob).
  - apply (ExactFacts.same_meta_trans _ _ _ Jm Pm).
  - intros q Hq. destruct (bytes_eq_dec q x) as [->|Hne]; [congruence|].
    apply in_app_or in Hq. destruct Hq as [Hq|[Hq|[]]]; [|congruence].
    rewrite (Po q Hne). apply Jd. exact Hq.
  - intros q Hq. assert (Hne : q <> x).
    { intros ->. apply Hq. apply in_or_app. right. left. reflexivity. }
    rewrite (Po q Hne). apply Jk. intro H. apply Hq. apply in_or_app. left. exact H.
  - intros d Hd. rewrite Wd. apply wt_put_dirs_mono. apply Jmono. exact Hd.
  - intros d Hd. rewrite Wd in Hd. destruct (wt_put_dirs_bound w1 x d Hd) as [H|H].
    + destruct (Jbound d H) as [H'|[q [Hq Ha]]]; [left; exact H'|].
      right. exists q. split; [apply in_or_app; left; exact Hq | exact Ha].
    + right. exists x. split; [apply in_or_app; right; left; reflexivity | exact H].
  - intros q d Hq Hpd. rewrite Wd. apply in_app_or in Hq. destruct Hq as [Hq|[Hq|[]]].
    + destruct (Jpar q d Hq Hpd) as [H|H]; [left; exact H | right; apply wt_put_dirs_mono; exact H].
    + subst q. apply (wt_put_dirs_parent w1 x d Hok1 Hpd).
Qed.

Theorem restore_wd_list_total : forall w l,
  (forall q, In q l -> wt_put_ok w q) ->
  (forall q1 q2, In q1 l -> In q2 l -> ~ In q1 (ancestors q2)) ->
  (forall q, In q l -> exists data, blob_of w q = Some data) ->
  exists tr, runs (iterM restore_wd l) w (Ok tt) tr /\
             Forall (wt_G (fun q => In q l) w) tr /\ wd_state w l (apply_effects tr w).
Proof.
  intros w l Hok Hflat Hblob.
  apply (runs_iterM _ restore_wd (fun done w1 => wd_state w done w1) (wt_G (fun q => In q l) w) l w).
  - apply wd_state_init.
  - intros done x rest w1 El St.
    assert (Hx : In x l) by (rewrite El; apply in_or_app; right; left; reflexivity).
    assert (Hincl : incl done l) by (intros q Hq; rewrite El; apply in_or_app; left; exact Hq).
    destruct (Hblob x Hx) as [data Hb].
    assert (Hb1 : blob_of w1 x = Some data).
    { rewrite (blob_of_same w w1 x (wds_index _ _ _ St) (wds_objs _ _ _ St)). exact Hb. }
    pose proof (wd_state_ok w l done x w1 Hok Hflat Hblob Hincl Hx St) as Hok1.
    exists (wt_put_trace w1 x data). split; [apply restore_wd_runs; assumption|]. split.
    + apply (Forall_impl _ (P := wt_G (eq x) w1)); [|apply wt_put_trace_eff].
      intros ef Hef. destruct ef; cbn in Hef |- *; try exact Hef. subst path. exact Hx.
    + apply wd_state_step; assumption.
Qed.

(* ================================================================== *)
(** * 3. The command, work-tree mode *)

(* the tracked paths an argument list selects: a tracked argument selects
   itself; an argument that is not tracked selects the tracked paths beneath it *)
Definition wd_selected (w : world) (args : list bytes) (q : bytes) : Prop :=
  exists a, In a args /\
    ((q = a /\ staged w a <> None) \/
     (staged w a = None /\ staged w q <> None /\ under_dir a q = true)).

(* an argument the staging area knows: a tracked path or a tracked directory *)
Definition wd_known (w : world) (a : bytes) : Prop :=
  staged w a <> None \/ exists q, staged w q <> None /\ under_dir a q = true.

(* no selected path lies beneath another selected path *)
Definition wd_flat (w : world) (args : list bytes) : Prop :=
  forall q1 q2, wd_selected w args q1 -> wd_selected w args q2 -> ~ In q1 (ancestors q2).

Lemma wd_targets_selected : forall w args q, Canonical (idx_of w) ->
  (In q (wd_targets w args) <-> wd_selected w args q).
Proof. intros w args q Hc. apply wd_targets_iff. exact Hc. Qed.

Lemma wd_known_targets : forall w a, Canonical (idx_of w) -> wd_known w a ->
  negb (is_nil (restore_targets w false [] a)) = true.
Proof.
  intros w a Hc Hk. unfold restore_targets. rewrite stg_tracked.
  destruct (staged w a) as [i|] eqn:Hs; [reflexivity|].
  destruct Hk as [Hk|[q [Hq Hu]]]; [contradiction Hk; reflexivity|].
  assert (Hin : In q (map e_path (entries_by_dir (idx_of w) a))).
  { apply (dir_targets_iff (idx_of w) a q Hc). split; [exact Hq | exact Hu]. }
  destruct (map e_path (entries_by_dir (idx_of w) a)); [contradiction Hin | reflexivity].
Qed.

Record restore_wt_result (w : world) (args : list bytes) (w' : world) : Prop := {
  (* every selected path holds the content of its staged blob *)
  rwr_done : forall q, wd_selected w args q ->
               exists id data, staged w q = Some id /\ get_obj (w_objs w) id = Some (KBlob, data) /\
                               file w' q = Some data;
  (* every other file is unchanged (present or absent as before) *)
  rwr_kept : forall q, ~ wd_selected w args q -> file w' q = file w q;
  (* directories: none is removed; the new ones are ancestors of selected paths;
     the parent directory of every selected path exists afterwards *)
  rwr_dirs_mono : forall d, set_mem (w_dirs w) d = true -> set_mem (w_dirs w') d = true;
  rwr_dirs_bound : forall d, set_mem (w_dirs w') d = true ->
                     set_mem (w_dirs w) d = true \/ exists q, wd_selected w args q /\ In d (ancestors q);
  rwr_parent : forall q d, wd_selected w args q -> parent_dir q = Some d -> wt_stat w' d = SDir;
  (* nothing else changes *)
  rwr_index : w_index w' = w_index w;
  rwr_objs : same_objs w w';
  rwr_meta : ExactFacts.same_meta w w'
}.

(* every staged id names a stored blob (on reachable worlds: [Connected]) *)
Definition blobs_stored (w : world) : Prop :=
  forall q id, staged w q = Some id -> exists data, get_obj (w_objs w) id = Some (KBlob, data).

Lemma blobs_stored_blob_of : forall w q id, blobs_stored w -> staged w q = Some id ->
  exists data, get_obj (w_objs w) id = Some (KBlob, data) /\ blob_of w q = Some data.
Proof.
  intros w q id Hb Hs. destruct (Hb q id Hs) as [data Hg]. exists data. split; [exact Hg|].
  unfold blob_of. rewrite Hs, Hg. reflexivity.
Qed.

(* (R1), on any world whose staging area is canonical and whose staged blobs are stored *)
Theorem cmd_restore_wd_total : forall c w args,
  Canonical (idx_of w) -> blobs_stored w ->
  args <> [] ->
  (forall a, In a args -> wd_known w a) ->
  (forall q, wd_selected w args q -> restorable w q) ->
  wd_flat w args ->
  exists tr, runs (cmd_restore c false args) w (Ok []) tr /\
             Forall (wt_G (wd_selected w args) w) tr /\
             restore_wt_result w args (apply_effects tr w).
Proof.
  intros c w args Hc Hbl Hne Hknown Hres Hflat.
  set (l := wd_targets w args).
  assert (Hl : forall q, In q l <-> wd_selected w args q) by (intro q; apply wd_targets_selected; exact Hc).
  destruct (restore_wd_list_total w l) as (tr & Hr & Hg & St).
  { intros q Hq. apply restorable_iff. apply Hres. apply Hl. exact Hq. }
  { intros q1 q2 H1 H2. apply Hflat; apply Hl; assumption. }
  { intros q Hq. apply Hl in Hq.
    assert (Hs : staged w q <> None).
    { destruct Hq as [a [_ [[-> H]|(_ & H & _)]]]; exact H. }
    destruct (staged w q) as [id|] eqn:Es; [|contradiction Hs; reflexivity].
    destruct (blobs_stored_blob_of w q id Hbl Es) as [data [_ Hb]]. exists data. exact Hb. }
  exists tr. split; [|split].
  - apply (runs_ext _ _ _ _ _ _ (cmd_restore_wd_flat c args)). unfold restore_wd_flat.
    apply runs_bind_guard; [destruct args; [contradiction Hne; reflexivity | reflexivity]|].
    rstep. apply runs_bind_guard.
    { apply forallb_forall. intros t Ht. apply in_map_iff in Ht. destruct Ht as [a [<- Ha]].
      apply wd_known_targets; [exact Hc | apply Hknown; exact Ha]. }
    fold l. rewrite <- (app_nil_r tr). apply runs_seq; [exact Hr|]. rstep.
  - apply (Forall_impl _ (P := wt_G (fun q => In q l) w)); [|exact Hg].
    intros ef Hef. destruct ef; cbn in Hef |- *; try exact Hef. apply Hl. exact Hef.
  - destruct St as [Ji Jo Jm Jd Jk Jmono Jbound Jpar]. constructor; try assumption.
    + intros q Hq. pose proof Hq as Hq'. apply Hl in Hq'.
      assert (Hs : staged w q <> None).
      { destruct Hq as [a [_ [[-> H]|(_ & H & _)]]]; exact H. }
      destruct (staged w q) as [id|] eqn:Es; [|contradiction Hs; reflexivity].
      destruct (blobs_stored_blob_of w q id Hbl Es) as [data [Hgo Hb]].
      exists id, data. split; [reflexivity|]. split; [exact Hgo|].
      rewrite (Jd q Hq'). exact Hb.
    + intros q Hq. apply Jk. intro H. apply Hq. apply Hl. exact H.
    + intros d Hd. destruct (Jbound d Hd) as [H|[q [Hq Ha]]]; [left; exact H|].
      right. exists q. split; [apply Hl; exact Hq | exact Ha].
    + (* the parent of a selected path is a directory afterwards *)
      intros q d Hq Hpd. pose proof Hq as Hq'. apply Hl in Hq'.
      pose proof (ex_parent_dir_ancestor q d Hpd) as Hdq.
      destruct (proj1 (restorable_iff w q) (Hres q Hq)) as (_ & Hanc & _).
      assert (Hnf : forall a, In a (ancestors q) -> am_mem (w_files (apply_effects tr w)) a = false).
      { intros a Ha. rewrite rf_am_mem_file.
        assert (Hna : ~ In a l).
        { intro Hal. apply (Hflat a q); [apply Hl; exact Hal | exact Hq | exact Ha]. }
        rewrite (Jk a Hna), <- rf_am_mem_file. apply Hanc. exact Ha. }
      unfold wt_stat. destruct (bytes_eqb d [x2e]) eqn:Edot; [reflexivity|].
      assert (Hex : existsb (fun a => am_mem (w_files (apply_effects tr w)) a) (ancestors d) = false).
      { destruct (existsb (fun a => am_mem (w_files (apply_effects tr w)) a) (ancestors d)) eqn:E; [|reflexivity].
        apply existsb_exists in E. destruct E as [a [Ha Hm]].
        rewrite (Hnf a (ex_ancestors_trans a d q Ha Hdq)) in Hm. discriminate Hm. }
      rewrite Hex, (Hnf d Hdq).
      destruct (Jpar q d Hq' Hpd) as [H|H]; [|rewrite H; reflexivity].
      subst d. rewrite bytes_eqb_refl in Edot. discriminate Edot.
Qed.

(* ================================================================== *)
(** * 4. (R1) on reachable worlds, at the level of [step] *)

Lemma reachable_canonical : forall w,
  Reachable w -> w_coll w = false -> SmallStore (w_objs w) -> Canonical (idx_of w).
Proof. intros w Hr Hc Hs. destruct (reachable_good w Hr Hc Hs) as (_ & [Hcan _] & _). exact Hcan. Qed.

Lemma reachable_blobs_stored : forall w,
  Reachable w -> w_coll w = false -> SmallStore (w_objs w) -> blobs_stored w.
Proof.
  intros w Hr Hc Hs q id Hq.
  pose proof (reachable_canonical w Hr Hc Hs) as Hcan.
  destruct (reachable_connected w Hr Hc Hs) as (_ & _ & Hblobs & _).
  apply (staged_some_iff w q id Hcan) in Hq.
  rewrite Forall_forall in Hblobs. destruct (Hblobs _ Hq) as [d Hd]. cbn [e_id] in Hd.
  exists d. apply get_kind_iff. exact Hd.
Qed.

Lemma step_restore_runs : forall e c w staged args r tr,
  w_inited w = true -> ctx_of w = Some c ->
  runs (cmd_restore c staged args) w r tr ->
  step (ACmd e (CRestore staged args)) w = (apply_effects tr w, outcome_of r, tr).
Proof.
  intros e c w staged args r tr Hi Hx Hr.
  rewrite (step_loaded e (CRestore staged args) w c); [|discriminate | exact Hi | exact Hx].
  cbn [dispatch]. rewrite (Hr []). reflexivity.
Qed.

(* (R1) *)
Theorem restore_worktree_total : forall e c w args,
  Reachable w -> w_coll w = false -> SmallStore (w_objs w) ->
  w_inited w = true -> ctx_of w = Some c ->
  args <> [] ->
  (forall a, In a args -> wd_known w a) ->
  (forall q, wd_selected w args q -> restorable w q) ->
  wd_flat w args ->
  exists w' tr,
    step (ACmd e (CRestore false args)) w = (w', OOk [], tr) /\
    restore_wt_result w args w' /\
    w' = apply_effects tr w /\
    Forall (fun ef => match ef with
                      | EWriteFile q _ => wd_selected w args q
                      | EMkdirAll _ => True
                      | _ => False
                      end) tr.
Proof.
  intros e c w args Hr Hc Hs Hi Hx Hne Hknown Hres Hflat.
  destruct (cmd_restore_wd_total c w args (reachable_canonical w Hr Hc Hs)
              (reachable_blobs_stored w Hr Hc Hs) Hne Hknown Hres Hflat) as (tr & Hruns & Hg & Hpost).
  exists (apply_effects tr w), tr. split; [|split; [exact Hpost|split; [reflexivity|]]].
  - rewrite (step_restore_runs e c w false args (Ok []) tr Hi Hx Hruns). reflexivity.
  - apply (Forall_impl _ (P := wt_G (wd_selected w args) w)); [|exact Hg].
    intros ef Hef. destruct ef; exact Hef.
Qed.

(* ================================================================== *)
(** * 5. HEAD's snapshot: files and directories found by [get_node] *)

Lemma rf_ancestors_from_map : forall s pre,
  ancestors_from pre s = map (fun a => rev pre ++ a) (ancestors_from [] s).
Proof.
  induction s as [|ch s IH]; intro pre; [reflexivity|].
  cbn [ancestors_from]. rewrite (IH (ch :: pre)), (IH [ch]).
  assert (E : map (fun a => rev (ch :: pre) ++ a) (ancestors_from [] s)
              = map (fun a => rev pre ++ a) (map (fun a => rev [ch] ++ a) (ancestors_from [] s))).
  { rewrite map_map. apply map_ext. intro a. cbn [rev app]. rewrite <- app_assoc. reflexivity. }
  rewrite E. destruct (beqb ch c_slash); cbn [map rev app]; rewrite ?app_nil_r; reflexivity.
Qed.

Lemma rf_ancestors_noslash : forall s, ~ In c_slash s -> ancestors s = [].
Proof.
  intros s H. unfold ancestors. generalize (@nil byte) as pre.
  induction s as [|ch s IH]; intro pre; [reflexivity|].
  cbn [ancestors_from]. destruct (beqb ch c_slash) eqn:E.
  - exfalso. apply H. left. symmetry. apply tf_beqb_true. exact E.
  - apply IH. intro Hin. apply H. right. exact Hin.
Qed.

Lemma rf_ancestors_push : forall n r, ~ In c_slash n ->
  ancestors (n ++ c_slash :: r) = n :: map (fun a => n ++ c_slash :: a) (ancestors r).
Proof.
  intros n r Hn. unfold ancestors.
  assert (G : forall pre, ancestors_from pre (n ++ c_slash :: r)
                = (rev pre ++ n) :: ancestors_from (c_slash :: rev n ++ pre) r).
  { induction n as [|ch n IH]; intro pre.
    - cbn [app ancestors_from rev]. rewrite tf_beqb_refl, app_nil_r. reflexivity.
    - cbn [app ancestors_from]. destruct (beqb ch c_slash) eqn:E.
      + exfalso. apply Hn. left. symmetry. apply tf_beqb_true. exact E.
      + rewrite IH; [|intro Hin; apply Hn; right; exact Hin].
        cbn [rev]. rewrite <- !app_assoc. reflexivity. }
  rewrite (G []). cbn [rev app]. rewrite app_nil_r. f_equal.
  rewrite (rf_ancestors_from_map r (c_slash :: rev n)). apply map_ext. intro a.
  cbn [rev]. rewrite rev_involutive, <- app_assoc. reflexivity.
Qed.

Lemma rf_dirname_noslash : forall s, ~ In c_slash s -> dirname s = [].
Proof. intros s H. unfold dirname, parent_dir. rewrite (rf_ancestors_noslash s H). reflexivity. Qed.

Lemma rf_last_aux : forall (f : bytes -> bytes) (n : bytes) (R : list bytes),
  match map f R ++ [n] with [] => None | d :: _ => Some d end =
  Some (match (match R with d :: _ => Some d | [] => None end) with Some d => f d | None => n end).
Proof. intros f n [|d l]; reflexivity. Qed.

Lemma rf_parent_dir_push : forall n r, ~ In c_slash n ->
  parent_dir (n ++ c_slash :: r) = Some (match parent_dir r with Some d => n ++ c_slash :: d | None => n end).
Proof.
  intros n r Hn. unfold parent_dir. rewrite (rf_ancestors_push n r Hn).
  generalize (ancestors r) as A. intro A. cbn [rev]. rewrite <- map_rev.
  apply (rf_last_aux (fun a => n ++ c_slash :: a) n (rev A)).
Qed.

Lemma rf_dirname_push : forall n r, ~ In c_slash n ->
  dirname (n ++ c_slash :: r) = match parent_dir r with Some d => n ++ c_slash :: d | None => n end.
Proof. intros n r Hn. unfold dirname. rewrite (rf_parent_dir_push n r Hn). reflexivity. Qed.

Lemma rf_join_path_cons : forall root name, root <> [] -> join_path root name = root ++ c_slash :: name.
Proof. intros root name H. destruct root; [contradiction H; reflexivity | reflexivity]. Qed.

(* a directory found at [p]: its entries, pushed under [p], are entries of the forest *)
Lemma rf_gn_dir : forall f its p x, Forall wf_item its ->
  get_node_fuel f (map node_of its) p = Some x -> is_leaf x = false ->
  exists nm sub, x = node_of (IDir nm sub) /\ wf_item (IDir nm sub) /\
                 join_path (dirname p) nm = p /\
                 incl (map (push p) (flat_items [] sub)) (flat_items [] its).
Proof.
  induction f as [|f IH]; intros its p x Hwf H Hnl; [discriminate H|].
  rewrite get_node_fuel_S in H.
  destruct (split1 c_slash p) as [name rest] eqn:E. cbn [fst snd] in H.
  revert Hwf H. induction its as [|i its IHl]; intros Hwf H; [discriminate H|].
  inversion Hwf as [|? ? Hi Hwf']; subst.
  assert (Htail : gn_scan (get_node_fuel f) name rest (map node_of its) = Some x ->
            exists nm sub, x = node_of (IDir nm sub) /\ wf_item (IDir nm sub) /\
                 join_path (dirname p) nm = p /\
                 incl (map (push p) (flat_items [] sub)) (flat_items [] (i :: its))).
  { intro Ht. destruct (IHl Hwf' Ht) as (nm & sub & H1 & H2 & H3 & H4).
    exists nm, sub. split; [exact H1|]. split; [exact H2|]. split; [exact H3|].
    intros y Hy. rewrite flat_items_cons. apply in_or_app. right. apply H4. exact Hy. }
  cbn [map gn_scan] in H.
  destruct (bytes_eqb (n_name (node_of i)) name) eqn:En; [|exact (Htail H)].
  apply bytes_eqb_eq in En.
  destruct rest as [p'|].
  - destruct (tf_split1_some_inv _ _ _ _ E) as [Hp Hns].
    destruct (is_leaf (node_of i)) eqn:El; [exact (Htail H)|].
    destruct (get_node_fuel f (n_children (node_of i)) p') as [y|] eqn:R; [|exact (Htail H)].
    injection H as ->. destruct i as [n id | n sub']; [discriminate El|].
    rewrite node_of_dir in En, R. cbn [n_name n_children] in En, R. subst name.
    inversion Hi as [|? ? Hvc Hne Hsub']; subst.
    destruct (IH sub' p' x Hsub' R Hnl) as (nm & sub & H1 & H2 & H3 & H4).
    exists nm, sub. split; [exact H1|]. split; [exact H2|].
    inversion H2 as [|? ? Hvnm _ _]; subst.
    split.
    + rewrite (rf_dirname_push n p' Hns).
      destruct (parent_dir p') as [dp|] eqn:Hpd.
      * unfold dirname in H3. rewrite Hpd in H3.
        rewrite rf_join_path_cons; [|destruct n; [destruct Hvc as [X _]; contradiction X; reflexivity | discriminate]].
        destruct dp as [|b dp].
        -- cbn [join_path] in H3. exfalso.
           pose proof (ex_parent_dir_ancestor p' [] Hpd) as Hanc. rewrite <- H3 in Hanc.
           rewrite (rf_ancestors_noslash nm (proj1 (proj2 Hvnm))) in Hanc. contradiction Hanc.
        -- rewrite rf_join_path_cons in H3; [|discriminate]. rewrite <- H3.
           rewrite <- app_assoc. reflexivity.
      * unfold dirname in H3. rewrite Hpd in H3. cbn [join_path] in H3. subst p'.
        rewrite rf_join_path_cons; [reflexivity|].
        destruct n; [destruct Hvc as [X _]; contradiction X; reflexivity | discriminate].
    + intros y Hy. apply in_map_iff in Hy. destruct Hy as [e0 [<- He0]].
      rewrite flat_items_cons, (flat_item_dir_push n sub' Hi). apply in_or_app. left.
      assert (Epush : push (n ++ c_slash :: p') e0 = push n (push p' e0)).
      { unfold push. cbn [e_id e_path]. rewrite <- app_assoc. reflexivity. }
      rewrite Epush. apply in_map. apply H4. apply in_map. exact He0.
  - destruct (tf_split1_none_inv _ _ _ E) as [Hp Hns]. injection H as <-.
    destruct i as [n id | n sub]; [discriminate Hnl|].
    rewrite node_of_dir in En. cbn [n_name] in En. subst name p.
    exists n, sub. split; [reflexivity|]. split; [exact Hi|]. split.
    + rewrite (rf_dirname_noslash n Hns). reflexivity.
    + intros y Hy. rewrite flat_items_cons, (flat_item_dir_push n sub Hi).
      apply in_or_app. left. exact Hy.
Qed.

(* the entries of a well-formed item have non-empty paths *)
Lemma rf_flat_path_nonempty : forall its e, Forall wf_item its -> In e (flat_items [] its) -> e_path e <> [].
Proof.
  intros its e Hwf Hin. unfold flat_items in Hin. apply in_flat_map in Hin.
  destruct Hin as [i [Hi He]]. rewrite Forall_forall in Hwf. specialize (Hwf i Hi).
  destruct i as [n id | n sub].
  - cbn in He. destruct He as [<-|[]]. cbn [e_path]. inversion Hwf as [? ? Hvc _|]; subst.
    exact (proj1 Hvc).
  - rewrite (flat_item_dir_push n sub Hwf) in He. apply in_map_iff in He.
    destruct He as [e0 [<- _]]. unfold push. cbn [e_path]. intro X.
    apply (f_equal (@length byte)) in X. rewrite app_length in X. cbn [length] in X. lia.
Qed.

Lemma rf_under_dir_push : forall a r, r <> [] -> under_dir a (a ++ c_slash :: r) = true.
Proof.
  intros a r Hr. destruct (bytes_eq_dec a [x2e]) as [->|Hne].
  - apply under_dir_dot. discriminate.
  - apply (under_dir_spec a _ Hne). exists r. split; [exact Hr|]. reflexivity.
Qed.

(* the paths [restore --staged] takes from HEAD's snapshot for a directory argument *)
(* "." names the root of the snapshot, which is not a node: every file of the
   snapshot lies beneath it *)
Definition head_dir_paths (ns : list node) (a : bytes) : list bytes :=
  (if bytes_eqb a [x2e] then map e_path (flatten [] ns) else []) ++
  match get_node ns a with
  | Some n => if is_leaf n then [] else map e_path (flatten_node (dirname a) n)
  | None => []
  end.

Lemma head_dir_paths_dot : forall its q, Forall wf_item its ->
  In q (paths_of its) -> In q (head_dir_paths (map node_of its) [x2e]).
Proof.
  intros its q Hwf Hq. unfold head_dir_paths. rewrite bytes_eqb_refl. apply in_or_app. left.
  rewrite (flatten_items its Hwf). exact Hq.
Qed.

(* they are files of the snapshot, beneath the argument *)
Lemma head_dir_paths_sound : forall its a q, Forall wf_item its ->
  In q (head_dir_paths (map node_of its) a) -> In q (paths_of its) /\ under_dir a q = true.
Proof.
  intros its a q Hwf Hq. unfold head_dir_paths in Hq. apply in_app_or in Hq.
  destruct Hq as [Hq|Hq].
  { destruct (bytes_eqb a [x2e]) eqn:Ea; [|contradiction Hq]. apply bytes_eqb_eq in Ea. subst a.
    rewrite (flatten_items its Hwf) in Hq. split; [exact Hq|].
    apply under_dir_dot. unfold paths_of in Hq. apply in_map_iff in Hq. destruct Hq as [e0 [<- He0]].
    apply (rf_flat_path_nonempty its e0 Hwf He0). }
  destruct (get_node (map node_of its) a) as [x|] eqn:Hg; [|contradiction Hq].
  destruct (is_leaf x) eqn:Hl; [contradiction Hq|].
  unfold get_node in Hg.
  destruct (rf_gn_dir _ its a x Hwf Hg Hl) as (nm & sub & -> & Hwd & Hj & Hincl).
  inversion Hwd as [|? ? Hvc Hne Hsub]; subst.
  rewrite node_of_dir, flatten_node_eq in Hq.
  destruct (map node_of sub) as [|c0 ch0] eqn:Em.
  { destruct sub; [contradiction Hne; reflexivity | discriminate Em]. }
  rewrite <- Em, Hj in Hq.
  change (flat_map (flatten_node a) (map node_of sub)) with (flatten a (map node_of sub)) in Hq.
  rewrite (flatten_nodes (S (ldepth sub)) sub a (Nat.lt_succ_diag_r _) Hsub) in Hq.
  rewrite (flat_items_prefix (S (ldepth sub)) sub a (Nat.lt_succ_diag_r _) Hsub) in Hq.
  rewrite map_map in Hq. apply in_map_iff in Hq. destruct Hq as [e0 [<- He0]].
  assert (Ha : a <> []).
  { rewrite <- Hj. unfold join_path. destruct (dirname a); [exact (proj1 Hvc) | discriminate]. }
  unfold add_prefix. cbn [e_path]. rewrite (rf_join_path_cons a (e_path e0) Ha). split.
  - unfold paths_of. apply in_map_iff. exists (push a e0). split; [reflexivity|].
    apply Hincl. apply in_map. exact He0.
  - apply rf_under_dir_push. apply (rf_flat_path_nonempty sub e0 Hsub He0).
Qed.

(* [head_leaf] reads the snapshot *)
Lemma head_leaf_stg : forall ns q, NsGood ns -> head_leaf ns q = stg (flatten [] ns) q.
Proof.
  intros ns q (its & -> & Hwf & Hc & Hv). rewrite (flatten_items its Hwf).
  unfold head_leaf, leaf_node.
  destruct (get_node (map node_of its) q) as [n|] eqn:Hg.
  - destruct (is_leaf n) eqn:Hl.
    + cbn [option_map]. symmetry. apply (stg_some_iff _ _ _ Hc).
      apply (get_node_leaf_id its q n Hwf Hg Hl).
    + cbn [option_map]. symmetry. apply (stg_none_iff _ _ Hc). intro Hin.
      apply (get_node_leaf_iff its Hwf Hc q) in Hin. destruct Hin as [n' [Hg' Hl']].
      rewrite Hg in Hg'. injection Hg' as <-. rewrite Hl in Hl'. discriminate Hl'.
  - cbn [option_map]. symmetry. apply (stg_none_iff _ _ Hc). intro Hin.
    apply (get_node_leaf_iff its Hwf Hc q) in Hin. destruct Hin as [n' [Hg' _]].
    rewrite Hg in Hg'. discriminate Hg'.
Qed.

Lemma leaf_node_head_leaf : forall ns q, leaf_node ns q <> None <-> head_leaf ns q <> None.
Proof.
  intros ns q. unfold head_leaf. destruct (leaf_node ns q) as [n|]; cbn [option_map]; split; intro H.
  - intro X. discriminate X.
  - intro X. discriminate X.
  - contradiction H. reflexivity.
  - contradiction H. reflexivity.
Qed.

(* ---------- [dedup_first] ---------- *)
Lemma rf_dedup_In : forall l x, In x (dedup l) <-> In x l.
Proof.
  induction l as [|y r IH]; intro x; [reflexivity|].
  cbn [dedup]. destruct (set_mem r y) eqn:E.
  - rewrite IH. split; [intro H; right; exact H|]. intros [<-|H]; [|exact H].
    unfold set_mem in E. apply existsb_exists in E. destruct E as [z [Hz Ez]].
    apply bytes_eqb_eq in Ez. subst z. exact Hz.
  - cbn [In]. rewrite IH. reflexivity.
Qed.

Lemma rf_dedup_NoDup : forall l, NoDup (dedup l).
Proof.
  induction l as [|y r IH]; [constructor|].
  cbn [dedup]. destruct (set_mem r y) eqn:E; [exact IH|].
  constructor; [|exact IH]. rewrite rf_dedup_In. intro Hin.
  assert (Ht : set_mem r y = true).
  { unfold set_mem. apply existsb_exists. exists y. split; [exact Hin | apply bytes_eqb_refl]. }
  rewrite Ht in E. discriminate E.
Qed.

Lemma rf_dedup_first_In : forall l x, In x (dedup_first l) <-> In x l.
Proof. intros l x. unfold dedup_first. rewrite <- in_rev, rf_dedup_In, <- in_rev. reflexivity. Qed.

Lemma rf_dedup_first_NoDup : forall l, NoDup (dedup_first l).
Proof. intro l. unfold dedup_first. apply NoDup_rev. apply rf_dedup_NoDup. Qed.

(* ================================================================== *)
(** * 6. A list of paths, staging-area mode *)

Lemma restore_index_trace_idx : forall w ns p,
  Forall (fun e => is_idx e = true) (restore_index_trace w ns p).
Proof.
  intros w ns p. unfold restore_index_trace.
  destruct (leaf_node ns p) as [n|];
    [destruct (idx_update (idx_of w) (n_id n) p) | destruct (idx_delete (idx_of w) p)];
    repeat constructor.
Qed.

(* a path that occurs twice in the list is a file of HEAD's snapshot (a second
   [restore_index] of a path that HEAD does not have finds it neither staged
   nor in HEAD, and fails: finding F-2) *)
Definition repeats_in_head (ns : list node) (l : list bytes) : Prop :=
  forall l1 x l2, l = l1 ++ x :: l2 -> In x l1 -> leaf_node ns x <> None.

Lemma nodup_repeats_in_head : forall ns l, NoDup l -> repeats_in_head ns l.
Proof.
  intros ns l Hnd l1 x l2 El Hin. exfalso.
  apply (ex_nodup_mid _ l1 x l2); [rewrite <- El; exact Hnd | exact Hin].
Qed.

Theorem restore_index_list_total : forall w ns l,
  Canonical (idx_of w) -> repeats_in_head ns l ->
  (forall q, In q l -> staged w q <> None \/ leaf_node ns q <> None) ->
  exists tr, runs (iterM (restore_index ns) l) w (Ok tt) tr /\
             Forall (fun e => is_idx e = true) tr /\
             restore_idx_post w ns l (apply_effects tr w).
Proof.
  intros w ns l Hc Hnd Hsel.
  destruct (runs_iterM _ (restore_index ns)
     (fun done w1 => Canonical (idx_of w1) /\ same_wt w w1 /\ same_objs w w1 /\ ExactFacts.same_meta w w1 /\
              (forall q, In q done -> staged w1 q = head_leaf ns q) /\
              (forall q, ~ In q done -> staged w1 q = staged w q))
     (fun e => is_idx e = true) l w) as (tr & Hr & Hg & HJ).
  - split; [exact Hc|]. split; [apply same_wt_refl|]. split; [apply same_objs_refl|].
    split; [apply ExactFacts.same_meta_refl|]. split; [intros q []|reflexivity].
  - intros done x rest w1 El (Jc & Jw & Jo & Jm & Jd & Jk).
    assert (Hx : In x l) by (rewrite El; apply in_or_app; right; left; reflexivity).
    assert (Hor : staged w1 x <> None \/ leaf_node ns x <> None).
    { destruct (in_dec bytes_eq_dec x done) as [Hxd|Hnx].
      - right. apply (Hnd done x rest El Hxd).
      - rewrite (Jk x Hnx). apply Hsel. exact Hx. }
    destruct (proj2 (ExactFacts.restore_index_spec w1 ns x Jc) Hor) as [Hrun Hpost].
    exists (restore_index_trace w1 ns x). split; [exact Hrun|]. split; [apply restore_index_trace_idx|].
    destruct Hpost as [Pc Ps Po Pw Pob Pm].
    split; [exact Pc|]. split; [apply (same_wt_trans _ _ _ Jw Pw)|].
    split; [apply (same_objs_trans _ _ _ Jo Pob)|]. split; [apply (ExactFacts.same_meta_trans _ _ _ Jm Pm)|]. split.
    + intros q Hq. destruct (bytes_eq_dec q x) as [->|Hne]; [exact Ps|].
      apply in_app_or in Hq. destruct Hq as [Hq|[Hq|[]]]; [|congruence].
      rewrite (Po q Hne). apply Jd. exact Hq.
    + intros q Hq. assert (Hne : q <> x).
      { intros ->. apply Hq. apply in_or_app. right. left. reflexivity. }
      rewrite (Po q Hne). apply Jk. intro H. apply Hq. apply in_or_app. left. exact H.
  - exists tr. split; [exact Hr|]. split; [exact Hg|].
    destruct HJ as (Jc & Jw & Jo & Jm & Jd & Jk). constructor; assumption.
Qed.

(* ================================================================== *)
(** * 7. The command, staging-area mode *)

(* what one argument selects, [restore --staged] *)
Lemma restore_targets_staged_In : forall w ns a q, Canonical (idx_of w) ->
  (In q (restore_targets w true ns a) <->
   (q = a /\ (staged w a <> None \/ leaf_node ns a <> None)) \/
   (staged w a = None /\ leaf_node ns a = None /\
    ((staged w q <> None /\ under_dir a q = true) \/ In q (head_dir_paths ns a)))).
Proof.
  intros w ns a q Hc. unfold restore_targets. rewrite stg_tracked.
  destruct (staged w a) as [i|] eqn:Hs; cbn [orb].
  - split.
    + intros [<-|[]]. left. split; [reflexivity | left; discriminate].
    + intros [[-> _]|(H & _)]; [left; reflexivity | discriminate H].
  - destruct (leaf_node ns a) as [n|] eqn:Hl.
    + split.
      * intros [<-|[]]. left. split; [reflexivity | right; discriminate].
      * intros [[-> _]|(_ & H & _)]; [left; reflexivity | discriminate H].
    + change ((if bytes_eqb a [x2e] then map e_path (flatten [] ns) else []) ++
              match get_node ns a with
              | Some n => if is_leaf n then [] else map e_path (flatten_node (dirname a) n)
              | None => []
              end) with (head_dir_paths ns a).
      rewrite rf_dedup_first_In, in_app_iff, (dir_targets_iff (idx_of w) a q Hc), <- staged_stg. split.
      * intro H. right. split; [reflexivity|]. split; [reflexivity | exact H].
      * intros [[_ [H|H]]|(_ & _ & H)]; [contradiction H; reflexivity | contradiction H; reflexivity | exact H].
Qed.

Lemma idx_targets_In : forall w ns args q,
  In q (idx_targets w ns args) <-> exists a, In a args /\ In q (restore_targets w true ns a).
Proof.
  intros w ns args q. unfold idx_targets. rewrite in_concat. split.
  - intros [t [Ht Hq]]. apply in_map_iff in Ht. destruct Ht as [a [<- Ha]]. exists a. auto.
  - intros [a [Ha Hq]]. exists (restore_targets w true ns a). split; [apply in_map; exact Ha | exact Hq].
Qed.

(* the paths an argument list selects, in terms of the staging area and of
   HEAD's snapshot [flatten [] ns]: an argument that is staged or a file of the
   snapshot selects itself; any other argument selects the staged paths beneath
   it and the files of the snapshot beneath the directory of that name *)
Definition st_selected (w : world) (ns : list node) (args : list bytes) (q : bytes) : Prop :=
  exists a, In a args /\
    ((q = a /\ (staged w a <> None \/ stg (flatten [] ns) a <> None)) \/
     (staged w a = None /\ stg (flatten [] ns) a = None /\
      ((staged w q <> None /\ under_dir a q = true) \/ In q (head_dir_paths ns a)))).

Lemma rf_leaf_stg_some : forall ns a, NsGood ns -> (leaf_node ns a <> None <-> stg (flatten [] ns) a <> None).
Proof. intros ns a Hns. rewrite leaf_node_head_leaf, (head_leaf_stg ns a Hns). reflexivity. Qed.

Lemma rf_leaf_stg_none : forall ns a, NsGood ns -> (leaf_node ns a = None <-> stg (flatten [] ns) a = None).
Proof.
  intros ns a Hns. rewrite <- (head_leaf_stg ns a Hns). unfold head_leaf.
  destruct (leaf_node ns a); cbn [option_map]; split; intro H; try reflexivity; discriminate H.
Qed.

Lemma idx_targets_selected : forall w ns args q, Canonical (idx_of w) -> NsGood ns ->
  (In q (idx_targets w ns args) <-> st_selected w ns args q).
Proof.
  intros w ns args q Hc Hns. rewrite idx_targets_In. unfold st_selected.
  split; intros [a [Ha H]]; exists a; (split; [exact Ha|]).
  - apply (restore_targets_staged_In w ns a q Hc) in H.
    rewrite (rf_leaf_stg_some ns a Hns), (rf_leaf_stg_none ns a Hns) in H. exact H.
  - apply (restore_targets_staged_In w ns a q Hc).
    rewrite (rf_leaf_stg_some ns a Hns), (rf_leaf_stg_none ns a Hns). exact H.
Qed.

(* an argument known to the staging area or to HEAD's snapshot *)
Definition st_known (w : world) (ns : list node) (a : bytes) : Prop :=
  staged w a <> None \/ stg (flatten [] ns) a <> None \/
  (exists q, staged w q <> None /\ under_dir a q = true) \/
  head_dir_paths ns a <> [].

Lemma st_known_targets : forall w ns a, Canonical (idx_of w) -> NsGood ns -> st_known w ns a ->
  restore_targets w true ns a <> [].
Proof.
  intros w ns a Hc Hns Hk.
  assert (Hex : exists q, In q (restore_targets w true ns a)).
  { destruct (staged w a) as [i|] eqn:Hs.
    { exists a. apply (restore_targets_staged_In w ns a a Hc). left.
      split; [reflexivity | left; rewrite Hs; discriminate]. }
    destruct (leaf_node ns a) as [n|] eqn:Hl.
    { exists a. apply (restore_targets_staged_In w ns a a Hc). left.
      split; [reflexivity | right; rewrite Hl; discriminate]. }
    destruct Hk as [Hk|[Hk|[[q [Hq Hu]]|Hk]]].
    - exfalso. exact (Hk Hs).
    - apply (rf_leaf_stg_some ns a Hns) in Hk. exfalso. exact (Hk Hl).
    - exists q. apply (restore_targets_staged_In w ns a q Hc). right. rewrite Hs. auto.
    - destruct (head_dir_paths ns a) as [|q l] eqn:Eh; [contradiction Hk; reflexivity|].
      exists q. apply (restore_targets_staged_In w ns a q Hc). right. rewrite Hs, Eh.
      split; [reflexivity|]. split; [exact Hl|]. right. left. reflexivity. }
  destruct Hex as [q Hq]. intro E. rewrite E in Hq. contradiction Hq.
Qed.

(* every target is staged or a file of the snapshot: [restore_index] accepts it *)
Lemma idx_targets_accepted : forall w ns args q, Canonical (idx_of w) -> NsGood ns ->
  In q (idx_targets w ns args) -> staged w q <> None \/ leaf_node ns q <> None.
Proof.
  intros w ns args q Hc Hns Hq. apply idx_targets_In in Hq. destruct Hq as [a [_ Hq]].
  apply (restore_targets_staged_In w ns a q Hc) in Hq.
  destruct Hq as [[-> H]|(_ & _ & [[H _]|H])]; [exact H | left; exact H|].
  right. destruct Hns as (its & -> & Hwf & Hcan & Hv).
  destruct (head_dir_paths_sound its a q Hwf H) as [Hin _].
  apply (get_node_leaf_iff its Hwf Hcan q) in Hin. destruct Hin as [n [Hg Hl]].
  unfold leaf_node. rewrite Hg, Hl. discriminate.
Qed.

Record restore_st_result (w : world) (ns : list node) (args : list bytes) (w' : world) : Prop := {
  rsr_canon : Canonical (idx_of w');
  (* every selected entry is as in HEAD's snapshot: same id, or absent when HEAD has none *)
  rsr_done : forall q, st_selected w ns args q -> staged w' q = stg (flatten [] ns) q;
  (* every other entry is unchanged *)
  rsr_kept : forall q, ~ st_selected w ns args q -> staged w' q = staged w q;
  (* the work tree, the objects, refs, HEAD, journals, configuration are unchanged *)
  rsr_wt : same_wt w w';
  rsr_objs : same_objs w w';
  rsr_meta : ExactFacts.same_meta w w'
}.

Theorem cmd_restore_idx_total : forall c w args hid cm d ns,
  Canonical (idx_of w) ->
  am_mem (w_refs w) (w_head w) = true -> x_headc c = Some (hid, cm) ->
  get_kind (w_objs w) KTree (c_tree cm) = Some d ->
  walk_tree (S (length (w_objs w))) (w_objs w) d = Some ns ->
  NsGood ns ->
  args <> [] ->
  (forall a, In a args -> st_known w ns a) ->
  repeats_in_head ns (idx_targets w ns args) ->
  exists tr, runs (cmd_restore c true args) w (Ok []) tr /\
             Forall (fun e => is_idx e = true) tr /\
             restore_st_result w ns args (apply_effects tr w).
Proof.
  intros c w args hid cm d ns Hc Hb Hh Hd Hw Hns Hne Hknown Hnd.
  destruct (restore_index_list_total w ns (idx_targets w ns args) Hc Hnd) as (tr & Hr & Hg & Hpost).
  { intros q Hq. apply (idx_targets_accepted w ns args q Hc Hns Hq). }
  exists tr. split; [|split; [exact Hg|]].
  - apply (runs_ext _ _ _ _ _ _ (cmd_restore_idx_flat c args)). unfold restore_idx_flat.
    apply runs_bind_guard; [destruct args; [contradiction Hne; reflexivity | reflexivity]|].
    rstep. rstep. rguard Hb. rewrite Hh.
    unfold head_tree_nodes. rstep. rstep. rewrite Hh. ropt d Hd. ropt ns Hw.
    apply runs_bind_guard.
    { apply forallb_forall. intros t Ht. apply in_map_iff in Ht. destruct Ht as [a [<- Ha]].
      pose proof (st_known_targets w ns a Hc Hns (Hknown a Ha)) as Hk.
      destruct (restore_targets w true ns a); [contradiction Hk; reflexivity | reflexivity]. }
    rewrite <- (app_nil_r tr). apply runs_seq; [exact Hr|]. rstep.
  - destruct Hpost as [Pc Pw Po Pm Pd Pk]. constructor; try assumption.
    + intros q Hq. rewrite <- (head_leaf_stg ns q Hns). apply Pd.
      apply (idx_targets_selected w ns args q Hc Hns). exact Hq.
    + intros q Hq. apply Pk. intro H. apply Hq.
      apply (idx_targets_selected w ns args q Hc Hns). exact H.
Qed.

(* ================================================================== *)
(** * 8. (R2) on reachable worlds, at the level of [step] *)

(* what a reachable world knows about the nodes [restore --staged] loads *)
Lemma reachable_head_nodes : forall w c ns,
  Reachable w -> w_coll w = false -> SmallStore (w_objs w) ->
  ctx_of w = Some c -> head_nodes c w = Some ns ->
  exists hid cm d,
    x_headc c = Some (hid, cm) /\ am_get (w_refs w) (w_head w) = Some hid /\
    get_kind (w_objs w) KTree (c_tree cm) = Some d /\
    walk_tree (S (length (w_objs w))) (w_objs w) d = Some ns /\
    NsGood ns /\ snapshot (w_objs w) hid = Some (flatten [] ns).
Proof.
  intros w c ns Hr Hc Hs Hx Hn. unfold head_nodes in Hn.
  destruct (x_headc c) as [[hid cm]|] eqn:Hh; [|discriminate Hn].
  destruct (get_kind (w_objs w) KTree (c_tree cm)) as [d|] eqn:Hd; [|discriminate Hn].
  pose proof (ctx_of_headc w c Hx) as Hhc. rewrite Hh in Hhc.
  destruct (head_commit_some w hid cm Hhc) as [Href Hcm].
  destruct (reachable_good w Hr Hc Hs) as (_ & _ & Hsn & _).
  exists hid, cm, d. split; [reflexivity|]. split; [exact Href|]. split; [exact Hd|].
  split; [exact Hn|]. split; [apply (walked_NsGood _ hid cm d ns Hsn Hcm Hd Hn)|].
  unfold snapshot. rewrite Hcm, Hd, Hn. reflexivity.
Qed.

(* they do load as soon as the current branch has a commit *)
Lemma reachable_head_nodes_exist : forall w c hid,
  Reachable w -> w_coll w = false -> SmallStore (w_objs w) ->
  ctx_of w = Some c -> am_get (w_refs w) (w_head w) = Some hid ->
  exists ns, head_nodes c w = Some ns.
Proof.
  intros w c hid Hr Hc Hs Hx Href.
  pose proof (ctx_of_headc w c Hx) as Hhc. unfold head_commit in Hhc. rewrite Href in Hhc.
  destruct (get_commit (w_objs w) hid) as [cm|] eqn:Hcm; [|discriminate Hhc].
  injection Hhc as Hh.
  destruct (reachable_good w Hr Hc Hs) as (_ & _ & Hsn & _).
  destruct (Hsn hid cm Hcm) as (d & its & Hd & Hw & _).
  exists (map node_of its). unfold head_nodes. rewrite <- Hh, Hd. exact Hw.
Qed.

(* (R2) *)
Theorem restore_staged_total : forall e c w args ns,
  Reachable w -> w_coll w = false -> SmallStore (w_objs w) ->
  w_inited w = true -> ctx_of w = Some c ->
  head_nodes c w = Some ns ->
  args <> [] ->
  (forall a, In a args -> st_known w ns a) ->
  repeats_in_head ns (idx_targets w ns args) ->
  exists w' tr,
    step (ACmd e (CRestore true args)) w = (w', OOk [], tr) /\
    restore_st_result w ns args w' /\
    w' = apply_effects tr w /\ Forall (fun ef => is_idx ef = true) tr.
Proof.
  intros e c w args ns Hr Hc Hs Hi Hx Hn Hne Hknown Hnd.
  destruct (reachable_head_nodes w c ns Hr Hc Hs Hx Hn) as (hid & cm & d & Hh & Href & Hd & Hw & Hns & _).
  assert (Hb : am_mem (w_refs w) (w_head w) = true) by (unfold am_mem; rewrite Href; reflexivity).
  destruct (cmd_restore_idx_total c w args hid cm d ns (reachable_canonical w Hr Hc Hs)
              Hb Hh Hd Hw Hns Hne Hknown Hnd) as (tr & Hruns & Hg & Hpost).
  exists (apply_effects tr w), tr. split; [|split; [exact Hpost | split; [reflexivity | exact Hg]]].
  rewrite (step_restore_runs e c w true args (Ok []) tr Hi Hx Hruns). reflexivity.
Qed.

(* ---------- a sufficient condition for the [NoDup] hypothesis ---------- *)
Lemma rf_nodup_app : forall (A : Type) (a b : list A),
  NoDup a -> NoDup b -> (forall x, In x a -> ~ In x b) -> NoDup (a ++ b).
Proof.
  intros A a b Ha Hb Hd. induction a as [|x a IH]; [exact Hb|].
  inversion Ha as [|? ? Hx Ha']; subst. cbn [app]. constructor.
  - intro Hin. apply in_app_or in Hin. destruct Hin as [Hin|Hin]; [exact (Hx Hin)|].
    apply (Hd x); [left; reflexivity | exact Hin].
  - apply IH; [exact Ha'|]. intros y Hy. apply Hd. right. exact Hy.
Qed.

Lemma restore_targets_staged_nodup : forall w ns a, NoDup (restore_targets w true ns a).
Proof.
  intros w ns a. unfold restore_targets.
  destruct (tracked w a || match leaf_node ns a with Some _ => true | None => false end).
  - constructor; [intros [] | constructor].
  - apply rf_dedup_first_NoDup.
Qed.

(* what an argument can select at all: itself or something beneath it *)
Definition covers (a q : bytes) : Prop := q = a \/ under_dir a q = true.

Lemma restore_targets_covers : forall w ns a q, Canonical (idx_of w) -> NsGood ns ->
  In q (restore_targets w true ns a) -> covers a q.
Proof.
  intros w ns a q Hc Hns Hq. apply (restore_targets_staged_In w ns a q Hc) in Hq.
  destruct Hq as [[-> _]|(_ & _ & [[_ H]|H])]; [left; reflexivity | right; exact H|].
  right. destruct Hns as (its & -> & Hwf & _). apply (head_dir_paths_sound its a q Hwf H).
Qed.

(* distinct arguments, none of which names a path another one covers *)
Theorem idx_targets_nodup : forall w ns args, Canonical (idx_of w) -> NsGood ns ->
  NoDup args ->
  (forall a b q, In a args -> In b args -> a <> b -> covers a q -> covers b q -> False) ->
  NoDup (idx_targets w ns args).
Proof.
  intros w ns args Hc Hns Hnd Hdis. unfold idx_targets.
  induction args as [|a args IH]; [constructor|].
  inversion Hnd as [|? ? Ha Hnd']; subst. cbn [map concat]. apply rf_nodup_app.
  - apply restore_targets_staged_nodup.
  - apply IH; [exact Hnd'|]. intros a' b q Ha' Hb. apply Hdis; right; assumption.
  - intros q Hq Hq'. apply in_concat in Hq'. destruct Hq' as [t [Ht Hqt]].
    apply in_map_iff in Ht. destruct Ht as [b [<- Hb]].
    apply (Hdis a b q); [left; reflexivity | right; exact Hb | intros ->; exact (Ha Hb) | |].
    + apply (restore_targets_covers w ns a q Hc Hns Hq).
    + apply (restore_targets_covers w ns b q Hc Hns Hqt).
Qed.

(* ================================================================== *)
(** * 9. (R3) an unknown argument: the whole command is refused *)

Lemma rf_entries_by_dir_nil : forall es a,
  (forall en, In en es -> under_dir a (e_path en) = false) -> entries_by_dir es a = [].
Proof.
  intros es a H. unfold entries_by_dir. induction es as [|x es IH]; [reflexivity|].
  cbn [filter]. rewrite (H x (or_introl eq_refl)). apply IH. intros en Hen. apply H. right. exact Hen.
Qed.

(* with --staged, "." names the root of HEAD's snapshot: it is unknown only
   when the snapshot is empty *)
Lemma restore_targets_unknown : forall w stg_mode ns a,
  staged w a = None -> (forall en, In en (idx_of w) -> under_dir a (e_path en) = false) ->
  (stg_mode = true -> get_node ns a = None /\ (a = [x2e] -> flatten [] ns = [])) ->
  restore_targets w stg_mode ns a = [].
Proof.
  intros w stg_mode ns a Hs Hu Hn. unfold restore_targets. rewrite stg_tracked, Hs.
  rewrite (rf_entries_by_dir_nil (idx_of w) a Hu). destruct stg_mode; [|reflexivity].
  destruct (Hn eq_refl) as [Hg Hdot].
  unfold leaf_node. rewrite Hg. cbn [orb map app].
  destruct (bytes_eqb a [x2e]) eqn:Ea; [|reflexivity].
  apply bytes_eqb_eq in Ea. rewrite (Hdot Ea). reflexivity.
Qed.

Lemma cmd_restore_unknown_runs : forall c w stg_mode args a,
  In a args -> staged w a = None ->
  (forall en, In en (idx_of w) -> under_dir a (e_path en) = false) ->
  (stg_mode = true -> forall ns, head_nodes c w = Some ns ->
     get_node ns a = None /\ (a = [x2e] -> flatten [] ns = [])) ->
  runs (cmd_restore c stg_mode args) w Err [].
Proof.
  intros c w stg_mode args a Ha Hs Hu Hn.
  assert (Hguard : forall ns, (stg_mode = true -> head_nodes c w = Some ns) ->
            forallb (fun t => negb (is_nil t)) (map (restore_targets w stg_mode ns) args) = false).
  { intros ns Hns.
    destruct (forallb (fun t => negb (is_nil t)) (map (restore_targets w stg_mode ns) args)) eqn:E; [|reflexivity].
    exfalso. rewrite forallb_forall in E. specialize (E (restore_targets w stg_mode ns a) (in_map _ _ _ Ha)).
    rewrite (restore_targets_unknown w stg_mode ns a Hs Hu) in E; [discriminate E|].
    intro Hm. apply (Hn Hm ns). apply Hns. exact Hm. }
  destruct stg_mode.
  - apply (runs_ext _ _ _ _ _ _ (cmd_restore_idx_flat c args)). unfold restore_idx_flat.
    apply runs_bind_guard; [destruct args; [contradiction Ha | reflexivity]|].
    rstep. rstep.
    destruct (am_mem (w_refs w) (w_head w)) eqn:Hb; [|apply runs_bind_guard_false; reflexivity].
    apply runs_bind_guard; [reflexivity|].
    destruct (x_headc c) as [[hid cm]|] eqn:Hh; [|rstep].
    unfold head_tree_nodes. rstep. rstep. rewrite Hh.
    destruct (get_kind (w_objs w) KTree (c_tree cm)) as [d|] eqn:Hd;
      [|repeat (apply runs_assoc); apply runs_bind_of_opt_none; reflexivity].
    ropt d (@eq_refl _ (Some d)).
    destruct (walk_tree (S (length (w_objs w))) (w_objs w) d) as [ns|] eqn:Hw;
      [|repeat (apply runs_assoc); apply runs_bind_of_opt_none; reflexivity].
    ropt ns (@eq_refl _ (Some ns)).
    apply runs_bind_guard_false. apply Hguard. intros _.
    unfold head_nodes. rewrite Hh, Hd. exact Hw.
  - apply (runs_ext _ _ _ _ _ _ (cmd_restore_wd_flat c args)). unfold restore_wd_flat.
    apply runs_bind_guard; [destruct args; [contradiction Ha | reflexivity]|].
    rstep. apply runs_bind_guard_false. apply Hguard. intro H. discriminate H.
Qed.

(* (R3), both modes, ANY world (initialised or not, loadable or not): when some
   argument is unknown — not staged, nothing staged beneath it and, with
   --staged, nothing at or beneath it in the nodes of HEAD ("." names the root
   of HEAD's snapshot: nothing beneath it means that the snapshot is empty) —
   the command is refused, the world is unchanged and nothing at all has been
   written, whatever the other arguments are *)
Theorem restore_unknown_refused : forall e w stg_mode args a,
  In a args -> staged w a = None ->
  (forall en, In en (idx_of w) -> under_dir a (e_path en) = false) ->
  (stg_mode = true -> forall c ns, ctx_of w = Some c -> head_nodes c w = Some ns ->
     get_node ns a = None /\ (a = [x2e] -> flatten [] ns = [])) ->
  step (ACmd e (CRestore stg_mode args)) w = (w, OErr, []).
Proof.
  intros e w stg_mode args a Ha Hs Hu Hn.
  destruct (w_inited w) eqn:Hi; [|apply step_not_loaded; [discriminate | left; exact Hi]].
  destruct (ctx_of w) as [c|] eqn:Hx; [|apply step_not_loaded; [discriminate | right; exact Hx]].
  rewrite (step_restore_runs e c w stg_mode args Err [] Hi Hx); [reflexivity|].
  apply (cmd_restore_unknown_runs c w stg_mode args a Ha Hs Hu).
  intros Hm ns Hns. apply (Hn Hm c ns eq_refl Hns).
Qed.

(* nothing at or beneath [a] among the files of the snapshot: no node at [a] *)
Lemma get_node_none_intro : forall ns a, NsGood ns ->
  (forall en, In en (flatten [] ns) -> e_path en <> a /\ under_dir a (e_path en) = false) ->
  get_node ns a = None.
Proof.
  intros ns a (its & -> & Hwf & Hc & Hv) Hno. rewrite (flatten_items its Hwf) in Hno.
  destruct (get_node (map node_of its) a) as [x|] eqn:Hg; [|reflexivity]. exfalso.
  destruct (is_leaf x) eqn:Hl.
  - pose proof (get_node_leaf_id its a x Hwf Hg Hl) as Hin.
    destruct (Hno _ Hin) as [Hne _]. apply Hne. reflexivity.
  - unfold get_node in Hg.
    destruct (rf_gn_dir _ its a x Hwf Hg Hl) as (nm & sub & _ & Hwd & _ & Hincl).
    destruct (wf_dir_entry nm sub Hwd) as [e0 He0].
    inversion Hwd as [|? ? _ _ Hsub]; subst.
    assert (Hin : In (push a e0) (flat_items [] its)) by (apply Hincl; apply in_map; exact He0).
    destruct (Hno _ Hin) as [_ Hu]. unfold push in Hu. cbn [e_path] in Hu.
    rewrite (rf_under_dir_push a (e_path e0) (rf_flat_path_nonempty sub e0 Hsub He0)) in Hu.
    discriminate Hu.
Qed.

(* (R3) on reachable worlds, in terms of the staging area and of HEAD's snapshot *)
Corollary restore_unknown_refused_reachable : forall e w stg_mode args a,
  Reachable w -> w_coll w = false -> SmallStore (w_objs w) ->
  In a args ->
  (forall q, staged w q <> None -> q <> a /\ under_dir a q = false) ->
  (stg_mode = true -> forall hid s, am_get (w_refs w) (w_head w) = Some hid ->
     snapshot (w_objs w) hid = Some s ->
     forall en, In en s -> e_path en <> a /\ under_dir a (e_path en) = false) ->
  step (ACmd e (CRestore stg_mode args)) w = (w, OErr, []).
Proof.
  intros e w stg_mode args a Hr Hc Hs Ha Hidx Hsnap.
  pose proof (reachable_canonical w Hr Hc Hs) as Hcan.
  assert (Hen : forall en, In en (idx_of w) -> staged w (e_path en) <> None).
  { intros [i p] Hin. cbn [e_path]. apply (staged_some_iff w p i Hcan) in Hin. rewrite Hin. discriminate. }
  apply (restore_unknown_refused e w stg_mode args a Ha).
  - destruct (staged w a) eqn:E; [|reflexivity]. exfalso.
    assert (Hne : staged w a <> None) by (rewrite E; discriminate).
    destruct (Hidx a Hne) as [H _]. apply H. reflexivity.
  - intros en Hin. apply (Hidx (e_path en) (Hen en Hin)).
  - intros Hm c ns Hx Hn.
    destruct (reachable_head_nodes w c ns Hr Hc Hs Hx Hn) as (hid & cm & d & _ & Href & _ & _ & Hns & Hsn).
    pose proof (Hsnap Hm hid (flatten [] ns) Href Hsn) as Hno.
    split; [apply (get_node_none_intro ns a Hns); exact Hno|].
    intros ->. destruct Hns as (its & -> & Hwf & _). rewrite (flatten_items its Hwf) in Hno |- *.
    destruct (flat_items [] its) as [|en l] eqn:Ef; [reflexivity|]. exfalso.
    assert (Hin : In en (flat_items [] its)) by (rewrite Ef; left; reflexivity).
    destruct (Hno en (or_introl eq_refl)) as [_ Hu].
    assert (Ht : under_dir [x2e] (e_path en) = true).
    { apply under_dir_dot. apply (rf_flat_path_nonempty its en Hwf Hin). }
    rewrite Ht in Hu. discriminate Hu.
Qed.

(* ================================================================== *)
(** * 10. Which files of HEAD a directory argument selects, exactly *)

(* [get_node] returns the FIRST directory node of the wanted name at each
   level.  The trees Goit writes never hold two directory entries of one name
   (TreeFacts.group_shape), but the history invariant [SnapshotsGood'] does not
   record it; completeness of the selection is therefore stated under the
   explicit hypothesis [nodes_unique] (checkable by computation). *)
Inductive nodes_unique : list node -> Prop :=
| nu_intro : forall ns,
    NoDup (map n_name (filter (fun c => negb (is_leaf c)) ns)) ->
    (forall c, In c ns -> nodes_unique (n_children c)) ->
    nodes_unique ns.

Lemma rf_nodup_map_inj : forall (A B : Type) (f : A -> B) l x y,
  NoDup (map f l) -> In x l -> In y l -> f x = f y -> x = y.
Proof.
  intros A B f l x y. induction l as [|z l IH]; intros Hnd Hx Hy Hf; [contradiction Hx|].
  cbn [map] in Hnd. inversion Hnd as [|? ? Hz Hnd']; subst.
  destruct Hx as [->|Hx]; destruct Hy as [->|Hy].
  - reflexivity.
  - exfalso. apply Hz. rewrite Hf. apply in_map. exact Hy.
  - exfalso. apply Hz. rewrite <- Hf. apply in_map. exact Hx.
  - apply IH; assumption.
Qed.

Lemma nodes_unique_dirs : forall ns c1 c2, nodes_unique ns ->
  In c1 ns -> In c2 ns -> is_leaf c1 = false -> is_leaf c2 = false -> n_name c1 = n_name c2 -> c1 = c2.
Proof.
  intros ns c1 c2 Hu H1 H2 L1 L2 Hn. inversion Hu as [? Hnd _]; subst.
  apply (rf_nodup_map_inj _ _ n_name _ c1 c2 Hnd); [| |exact Hn];
    apply filter_In; split; try assumption; [rewrite L1 | rewrite L2]; reflexivity.
Qed.

(* the paths below a directory node found at [a] *)
Lemma flatten_dir_node : forall a nm sub, wf_item (IDir nm sub) -> join_path (dirname a) nm = a ->
  map e_path (flatten_node (dirname a) (node_of (IDir nm sub)))
  = map (fun e0 => a ++ c_slash :: e_path e0) (flat_items [] sub).
Proof.
  intros a nm sub Hwd Hj. inversion Hwd as [|? ? Hvc Hne Hsub]; subst.
  rewrite node_of_dir, flatten_node_eq.
  destruct (map node_of sub) as [|c0 ch0] eqn:Em.
  { destruct sub; [contradiction Hne; reflexivity | discriminate Em]. }
  rewrite <- Em, Hj.
  change (flat_map (flatten_node a) (map node_of sub)) with (flatten a (map node_of sub)).
  rewrite (flatten_nodes (S (ldepth sub)) sub a (Nat.lt_succ_diag_r _) Hsub).
  rewrite (flat_items_prefix (S (ldepth sub)) sub a (Nat.lt_succ_diag_r _) Hsub).
  rewrite map_map. apply map_ext. intro e0.
  assert (Ha : a <> []).
  { rewrite <- Hj. unfold join_path. destruct (dirname a); [exact (proj1 Hvc) | discriminate]. }
  unfold add_prefix. cbn [e_path]. apply (rf_join_path_cons a (e_path e0) Ha).
Qed.

Lemma rf_gn_dir_complete : forall f its a e r,
  path_depth a < f -> Forall wf_item its -> nodes_unique (map node_of its) ->
  In e (flat_items [] its) -> e_path e = a ++ c_slash :: r ->
  exists x, get_node_fuel f (map node_of its) a = Some x /\
    (is_leaf x = true \/
     exists nm sub e1, x = node_of (IDir nm sub) /\ wf_item (IDir nm sub) /\
                       In e1 (flat_items [] sub) /\ e = push a e1).
Proof.
  induction f as [|f IH]; intros its a e r Hf Hwf Hu He Hp; [lia|].
  rewrite get_node_fuel_S.
  destruct (split1 c_slash a) as [name rest] eqn:E. cbn [fst snd].
  unfold flat_items in He. apply in_flat_map in He. destruct He as [i [Hi Hei]].
  pose proof (proj1 (Forall_forall _ _) Hwf i Hi) as Hwi.
  destruct i as [m id | m sub'].
  { exfalso. cbn in Hei. destruct Hei as [<-|[]]. cbn [e_path] in Hp.
    inversion Hwi as [? ? Hvc _|]; subst. apply (proj1 (proj2 Hvc)).
    apply in_or_app. right. left. reflexivity. }
  rewrite (flat_item_dir_push m sub' Hwi) in Hei. apply in_map_iff in Hei. destruct Hei as [e0 [<- He0]].
  inversion Hwi as [|? ? Hvm Hne Hsub']; subst.
  unfold push in Hp. cbn [e_path] in Hp.
  pose proof (tf_split1_app_sep c_slash m (e_path e0) (proj1 (proj2 Hvm))) as S1. rewrite Hp in S1.
  assert (Hdepth : forall p', rest = Some p' -> path_depth p' < f).
  { intros p' ->. rewrite (tf_path_depth_split _ _ _ E) in Hf. lia. }
  assert (Hm : m = name /\ e_path e0 = match rest with Some p' => p' ++ c_slash :: r | None => r end).
  { destruct rest as [p'|].
    - destruct (tf_split1_some_inv _ _ _ _ E) as [Ha Hns]. rewrite Ha, <- app_assoc in S1. cbn [app] in S1.
      rewrite (tf_split1_app_sep c_slash name (p' ++ c_slash :: r) Hns) in S1.
      injection S1 as -> ->. split; reflexivity.
    - destruct (tf_split1_none_inv _ _ _ E) as [Ha Hns]. subst name.
      rewrite (tf_split1_app_sep c_slash a r Hns) in S1. injection S1 as -> ->. split; reflexivity. }
  destruct Hm as [-> He0p].
  (* the scan stops at the directory node of that name, which is unique *)
  assert (Hscan : forall l, Forall wf_item l -> In (IDir name sub') l ->
            (forall c1 c2, In c1 (map node_of l) -> In c2 (map node_of l) ->
               is_leaf c1 = false -> is_leaf c2 = false -> n_name c1 = n_name c2 -> c1 = c2) ->
            exists x, gn_scan (get_node_fuel f) name rest (map node_of l) = Some x /\
              (is_leaf x = true \/
               exists nm sub e1, x = node_of (IDir nm sub) /\ wf_item (IDir nm sub) /\
                                 In e1 (flat_items [] sub) /\ push name e0 = push a e1)).
  { induction l as [|i0 l IHl]; intros Hwl Hin Huq; [contradiction Hin|].
    inversion Hwl as [|? ? Hw0 Hwl']; subst.
    assert (Htail : In (IDir name sub') l ->
              exists x, gn_scan (get_node_fuel f) name rest (map node_of l) = Some x /\
              (is_leaf x = true \/
               exists nm sub e1, x = node_of (IDir nm sub) /\ wf_item (IDir nm sub) /\
                                 In e1 (flat_items [] sub) /\ push name e0 = push a e1)).
    { intro Hin'. apply IHl; [exact Hwl' | exact Hin'|].
      intros c1 c2 H1 H2. apply Huq; right; assumption. }
    cbn [map gn_scan].
    destruct (bytes_eqb (n_name (node_of i0)) name) eqn:En.
    2:{ apply Htail. destruct Hin as [->|Hin]; [|exact Hin].
        rewrite node_of_dir in En. cbn [n_name] in En. rewrite bytes_eqb_refl in En. discriminate En. }
    apply bytes_eqb_eq in En.
    (* a directory item of that name is THE directory item *)
    assert (Hsame : forall s1, i0 = IDir name s1 -> node_of (IDir name s1) = node_of (IDir name sub')).
    { intros s1 ->. apply Huq.
      - left. reflexivity.
      - apply in_map. exact Hin.
      - apply (wf_dir_not_leaf name s1 Hw0).
      - apply (wf_dir_not_leaf name sub' Hwi).
      - rewrite !node_of_dir. reflexivity. }
    destruct rest as [p'|].
    - destruct (tf_split1_some_inv _ _ _ _ E) as [Ha Hns].
      destruct i0 as [n0 id0 | n0 s1].
      + (* a file of that name: skipped *)
        change (is_leaf (node_of (IFile n0 id0))) with true. cbv iota.
        apply Htail. destruct Hin as [Hin|Hin]; [discriminate Hin | exact Hin].
      + rewrite node_of_dir in En. cbn [n_name] in En. subst n0.
        rewrite (Hsame s1 eq_refl). rewrite (wf_dir_not_leaf name sub' Hwi).
        rewrite node_of_dir. cbn [n_children].
        assert (Hu' : nodes_unique (map node_of sub')).
        { inversion Hu as [? _ Hch]; subst.
          specialize (Hch (node_of (IDir name sub')) (in_map node_of _ _ Hi)).
          rewrite node_of_dir in Hch. exact Hch. }
        destruct (IH sub' p' e0 r (Hdepth p' eq_refl) Hsub' Hu' He0 He0p) as (x & Hx & Hcase).
        rewrite Hx. exists x. split; [reflexivity|].
        destruct Hcase as [Hl|(nm & sub & e1 & H1 & H2 & H3 & H4)]; [left; exact Hl|].
        right. exists nm, sub, e1. split; [exact H1|]. split; [exact H2|]. split; [exact H3|].
        rewrite H4, Ha. unfold push. cbn [e_id e_path]. rewrite <- app_assoc. reflexivity.
    - destruct (tf_split1_none_inv _ _ _ E) as [Ha Hns]. subst a.
      exists (node_of i0). split; [reflexivity|].
      destruct i0 as [n0 id0 | n0 s1]; [left; reflexivity|].
      rewrite node_of_dir in En. cbn [n_name] in En. subst n0.
      right. exists name, sub', e0. split; [apply (Hsame s1 eq_refl)|].
      split; [exact Hwi|]. split; [exact He0 | reflexivity]. }
  apply (Hscan its Hwf Hi). intros c1 c2. apply (nodes_unique_dirs _ c1 c2 Hu).
Qed.

(* exactness of the selection in HEAD: under [nodes_unique], for a directory
   argument — "." included, which selects the whole snapshot — EVERY file of
   the snapshot beneath it is selected *)
Theorem head_dir_paths_complete : forall its a q,
  Forall wf_item its -> nodes_unique (map node_of its) ->
  leaf_node (map node_of its) a = None ->
  In q (paths_of its) -> under_dir a q = true ->
  In q (head_dir_paths (map node_of its) a).
Proof.
  intros its a q Hwf Hu Hl Hq Hund.
  destruct (bytes_eq_dec a [x2e]) as [->|Hdot]; [apply (head_dir_paths_dot its q Hwf Hq)|].
  apply (under_dir_spec a q Hdot) in Hund. destruct Hund as (r & Hr & Eq).
  unfold paths_of in Hq. apply in_map_iff in Hq. destruct Hq as [e [He Hin]].
  assert (Hp : e_path e = a ++ c_slash :: r) by (rewrite He, Eq; reflexivity).
  destruct (rf_gn_dir_complete (S (S (path_depth a))) its a e r (Nat.lt_lt_succ_r _ _ (Nat.lt_succ_diag_r _)) Hwf Hu Hin Hp)
    as (x & Hx & Hcase).
  fold (get_node (map node_of its) a) in Hx.
  unfold head_dir_paths. rewrite Hx. apply in_or_app. right.
  destruct Hcase as [Hlf|(nm & sub & e1 & -> & Hwd & He1 & Epe)].
  { exfalso. unfold leaf_node in Hl. rewrite Hx, Hlf in Hl. discriminate Hl. }
  rewrite (wf_dir_not_leaf nm sub Hwd).
  assert (Hj : join_path (dirname a) nm = a).
  { unfold get_node in Hx.
    destruct (rf_gn_dir _ its a _ Hwf Hx (wf_dir_not_leaf nm sub Hwd)) as (nm' & sub'' & Hxx & _ & Hj & _).
    apply (f_equal n_name) in Hxx. rewrite !node_of_dir in Hxx. cbn [n_name] in Hxx. subst nm'. exact Hj. }
  rewrite (flatten_dir_node a nm sub Hwd Hj). apply in_map_iff. exists e1. split; [|exact He1].
  rewrite <- He, Epe. reflexivity.
Qed.

(* the selection of [restore --staged], in terms of the staging area and the
   snapshot ONLY (no tree nodes) *)
Definition st_selected_spec (w : world) (s : list entry) (args : list bytes) (q : bytes) : Prop :=
  exists a, In a args /\
    ((q = a /\ (staged w a <> None \/ stg s a <> None)) \/
     (staged w a = None /\ stg s a = None /\ under_dir a q = true /\
      (staged w q <> None \/ stg s q <> None))).

(* "." selects every path of the staging area and every path of the snapshot *)
Lemma st_selected_spec_dot : forall w s q, stg s [x2e] = None -> staged w [x2e] = None ->
  (st_selected_spec w s [[x2e]] q <-> q <> [] /\ (staged w q <> None \/ stg s q <> None)).
Proof.
  intros w s q Hs Hw. unfold st_selected_spec. split.
  - intros [a [[<-|[]] [[-> [H|H]]|(_ & _ & Hu & H)]]].
    + contradiction (H Hw).
    + contradiction (H Hs).
    + split; [apply under_dir_dot; exact Hu | exact H].
  - intros [Hq H]. exists [x2e]. split; [left; reflexivity|]. right.
    split; [exact Hw|]. split; [exact Hs|]. split; [apply under_dir_dot; exact Hq | exact H].
Qed.

(* the two agree when HEAD's tree holds no two directories of one name; the
   direction "selected by the model -> selected by the specification" needs no
   such hypothesis *)
Lemma st_selected_sound : forall w its args q,
  Forall wf_item its -> Canonical (flat_items [] its) ->
  st_selected w (map node_of its) args q -> st_selected_spec w (flat_items [] its) args q.
Proof.
  intros w its args q Hwf Hc. unfold st_selected, st_selected_spec.
  rewrite (flatten_items its Hwf).
  intros [a [Ha H]]; exists a; (split; [exact Ha|]).
  destruct H as [H|(H1 & H2 & [[H3 H4]|H3])]; [left; exact H | right; auto |].
  right. split; [exact H1|]. split; [exact H2|].
  destruct (head_dir_paths_sound its a q Hwf H3) as [Hin Hund]. split; [exact Hund|]. right.
  intro H. apply (stg_none_iff _ _ Hc) in H. exact (H Hin).
Qed.

Theorem st_selected_iff : forall w its args q,
  Forall wf_item its -> Canonical (flat_items [] its) -> nodes_unique (map node_of its) ->
  (st_selected w (map node_of its) args q <-> st_selected_spec w (flat_items [] its) args q).
Proof.
  intros w its args q Hwf Hc Hu. unfold st_selected, st_selected_spec.
  rewrite (flatten_items its Hwf).
  assert (Hstg : forall p, stg (flat_items [] its) p <> None <-> In p (paths_of its)).
  { intro p. split.
    - intro H. destruct (in_dec bytes_eq_dec p (paths_of its)) as [Hi|Hn]; [exact Hi|].
      exfalso. apply H. apply (stg_none_iff _ _ Hc). exact Hn.
    - intros Hi H. apply (stg_none_iff _ _ Hc) in H. exact (H Hi). }
  split; intros [a [Ha H]]; exists a; (split; [exact Ha|]).
  - destruct H as [H|(H1 & H2 & [[H3 H4]|H3])]; [left; exact H | right; auto |].
    right. split; [exact H1|]. split; [exact H2|].
    destruct (head_dir_paths_sound its a q Hwf H3) as [Hin Hund]. split; [exact Hund|]. right.
    apply Hstg; exact Hin.
  - destruct H as [H|(H1 & H2 & H3 & [H4|H5])]; [left; exact H | right; auto |].
    right. split; [exact H1|]. split; [exact H2|]. right.
    apply (head_dir_paths_complete its a q Hwf Hu); [|apply Hstg; exact H5 | exact H3].
    unfold leaf_node. destruct (get_node (map node_of its) a) as [n|] eqn:Hg; [|reflexivity].
    destruct (is_leaf n) eqn:Hl; [|reflexivity]. exfalso.
    assert (Hin : In a (paths_of its)).
    { apply (get_node_leaf_iff its Hwf Hc a). exists n. split; assumption. }
    apply (Hstg a) in Hin. exact (Hin H2).
Qed.

(* (R2) with the selection stated on the staging area and the snapshot only *)
Corollary restore_staged_total_spec : forall e c w args its,
  Reachable w -> w_coll w = false -> SmallStore (w_objs w) ->
  w_inited w = true -> ctx_of w = Some c ->
  head_nodes c w = Some (map node_of its) ->
  Forall wf_item its -> Canonical (flat_items [] its) -> nodes_unique (map node_of its) ->
  args <> [] ->
  (forall a, In a args -> st_known w (map node_of its) a) ->
  repeats_in_head (map node_of its) (idx_targets w (map node_of its) args) ->
  exists w' tr,
    step (ACmd e (CRestore true args)) w = (w', OOk [], tr) /\
    Canonical (idx_of w') /\
    (forall q, st_selected_spec w (flat_items [] its) args q -> staged w' q = stg (flat_items [] its) q) /\
    (forall q, ~ st_selected_spec w (flat_items [] its) args q -> staged w' q = staged w q) /\
    same_wt w w' /\ same_objs w w' /\ ExactFacts.same_meta w w' /\
    w' = apply_effects tr w /\ Forall (fun ef => is_idx ef = true) tr.
Proof.
  intros e c w args its Hr Hc Hs Hi Hx Hn Hwf Hcan Hu Hne Hknown Hrep.
  destruct (restore_staged_total e c w args (map node_of its) Hr Hc Hs Hi Hx Hn Hne Hknown Hrep)
    as (w' & tr & Hstep & [Pc Pd Pk Pw Po Pm] & Hw' & Hg).
  exists w', tr. split; [exact Hstep|]. split; [exact Pc|].
  rewrite (flatten_items its Hwf) in Pd.
  split; [|split; [|auto 10]].
  - intros q Hq. apply Pd. apply (st_selected_iff w its args q Hwf Hcan Hu). exact Hq.
  - intros q Hq. apply Pk. intro H. apply Hq. apply (st_selected_iff w its args q Hwf Hcan Hu). exact H.
Qed.

(* ---------- `restore --staged .` resets the whole staging area ---------- *)
Lemma rf_valid_path_nonempty : forall q, valid_path q -> q <> [].
Proof.
  intros q Hv ->. unfold valid_path in Hv. cbn [split_all] in Hv.
  inversion Hv as [|? ? [Hne _] _]. apply Hne. reflexivity.
Qed.

(* "." is known as soon as something is staged or HEAD's snapshot holds a file *)
Lemma st_known_dot : forall w ns, Canonical (idx_of w) -> Forall valid_entry (idx_of w) ->
  idx_of w <> [] \/ flatten [] ns <> [] -> st_known w ns [x2e].
Proof.
  intros w ns Hc Hv [Hi|Hf]; right; right.
  - left. destruct (idx_of w) as [|[i q] l] eqn:Ei; [contradiction Hi; reflexivity|].
    exists q. split.
    + assert (Hs : staged w q = Some i).
      { apply (staged_some_iff w q i); [rewrite Ei; exact Hc | rewrite Ei; left; reflexivity]. }
      rewrite Hs. discriminate.
    + apply under_dir_dot. inversion Hv as [|? ? [_ Hp] _]. cbn [e_path] in Hp.
      apply (rf_valid_path_nonempty q Hp).
  - right. unfold head_dir_paths. rewrite bytes_eqb_refl.
    destruct (flatten [] ns); [contradiction Hf; reflexivity | discriminate].
Qed.

(* one argument never names a path twice *)
Lemma repeats_in_head_one : forall w ns a, repeats_in_head ns (idx_targets w ns [a]).
Proof.
  intros w ns a. apply nodup_repeats_in_head. unfold idx_targets. cbn [map concat].
  rewrite app_nil_r. apply restore_targets_staged_nodup.
Qed.

(* what "." selects: every staged path and every file of HEAD's snapshot (the
   name "." itself is neither: it names the root of the work tree) *)
Lemma st_selected_dot : forall w ns q, NsGood ns -> Canonical (idx_of w) -> Forall valid_entry (idx_of w) ->
  staged w [x2e] = None -> stg (flatten [] ns) [x2e] = None ->
  (st_selected w ns [[x2e]] q <-> staged w q <> None \/ stg (flatten [] ns) q <> None).
Proof.
  intros w ns q Hns Hcan Hv Hw Hs. destruct Hns as (its & -> & Hwf & Hc & _).
  assert (Hstg : forall p, stg (flatten [] (map node_of its)) p <> None <-> In p (paths_of its)).
  { intro p. rewrite (flatten_items its Hwf). split.
    - intro H. destruct (in_dec bytes_eq_dec p (paths_of its)) as [Hi|Hn]; [exact Hi|].
      exfalso. apply H. apply (stg_none_iff _ _ Hc). exact Hn.
    - intros Hi H. apply (stg_none_iff _ _ Hc) in H. exact (H Hi). }
  unfold st_selected. split.
  - intros [a [[<-|[]] [[-> H]|(_ & _ & [[H _]|H])]]]; [exact H | left; exact H | right].
    apply Hstg. apply (head_dir_paths_sound its [x2e] q Hwf H).
  - intro H. exists [x2e]. split; [left; reflexivity|]. right.
    split; [exact Hw|]. split; [exact Hs|]. destruct H as [H|H].
    + left. split; [exact H|]. apply under_dir_dot.
      destruct (staged w q) as [i|] eqn:Eq; [|contradiction H; reflexivity].
      apply (staged_some_iff w q i Hcan) in Eq.
      rewrite Forall_forall in Hv. destruct (Hv _ Eq) as [_ Hvp]. cbn [e_path] in Hvp.
      apply (rf_valid_path_nonempty q Hvp).
    + right. apply (head_dir_paths_dot its q Hwf). apply Hstg. exact H.
Qed.

(* `restore --staged .` on a reachable repository: the staging area BECOMES
   HEAD's snapshot — paths staged but not in HEAD are unstaged, paths of HEAD
   that were removed from the staging area are re-created, every id is HEAD's —
   and nothing else changes.  The hypotheses are those of (R2) for the one
   argument ".": something is staged or HEAD's snapshot holds a file (otherwise
   "." names nothing and the command is refused); [repeats_in_head] holds of a
   single argument.  "." itself must not be the name of a staged path or of a
   file of HEAD: the model, like the program, takes a tracked name as that one
   path (no file can be called "." on disk, but no invariant of this
   development records that such a name is never staged). *)
Corollary restore_staged_dot_resets_everything : forall e c w ns,
  Reachable w -> w_coll w = false -> SmallStore (w_objs w) ->
  w_inited w = true -> ctx_of w = Some c ->
  head_nodes c w = Some ns ->
  staged w [x2e] = None -> stg (flatten [] ns) [x2e] = None ->
  idx_of w <> [] \/ flatten [] ns <> [] ->
  exists w' tr,
    step (ACmd e (CRestore true [[x2e]])) w = (w', OOk [], tr) /\
    idx_of w' = flatten [] ns /\
    (forall q, staged w' q = stg (flatten [] ns) q) /\
    same_wt w w' /\ same_objs w w' /\ ExactFacts.same_meta w w' /\
    w' = apply_effects tr w /\ Forall (fun ef => is_idx ef = true) tr.
Proof.
  intros e c w ns Hr Hc Hs Hi Hx Hn Hw Hh Hne.
  destruct (reachable_head_nodes w c ns Hr Hc Hs Hx Hn) as (_ & _ & _ & _ & _ & _ & _ & Hns & _).
  pose proof (reachable_canonical w Hr Hc Hs) as Hcan.
  destruct (reachable_good w Hr Hc Hs) as (_ & [_ Hv] & _).
  destruct (restore_staged_total e c w [[x2e]] ns Hr Hc Hs Hi Hx Hn) as (w' & tr & Hstep & [Pc Pd Pk Pw Po Pm] & Hw' & Hg).
  - discriminate.
  - intros a [<-|[]]. apply (st_known_dot w ns Hcan Hv Hne).
  - apply repeats_in_head_one.
  - assert (Hall : forall q, staged w' q = stg (flatten [] ns) q).
    { intro q.
      destruct (staged w q) as [i|] eqn:Eq.
      { apply Pd. apply (st_selected_dot w ns q Hns Hcan Hv Hw Hh). left. rewrite Eq. discriminate. }
      destruct (stg (flatten [] ns) q) as [j|] eqn:Ej.
      { rewrite <- Ej. apply Pd. apply (st_selected_dot w ns q Hns Hcan Hv Hw Hh). right. rewrite Ej. discriminate. }
      rewrite <- Eq. apply Pk. intro Hsel. apply (st_selected_dot w ns q Hns Hcan Hv Hw Hh) in Hsel.
      destruct Hsel as [H|H]; [exact (H Eq) | exact (H Ej)]. }
    exists w', tr. split; [exact Hstep|]. split; [|split; [exact Hall | auto 10]].
    destruct Hns as (its & Ens & Hwf & Hcf & _).
    apply Canonical_ext; [exact Pc | rewrite Ens, (flatten_items its Hwf); exact Hcf |].
    intros [i q].
    rewrite <- (staged_some_iff w' q i Pc), Hall.
    apply stg_some_iff. rewrite Ens, (flatten_items its Hwf). exact Hcf.
Qed.

(* (R1) under the simpler, stronger hypotheses "every tracked path can be
   written" and "no tracked path lies beneath another tracked path" *)
Lemma wd_selected_staged : forall w args q, wd_selected w args q -> staged w q <> None.
Proof. intros w args q [a [_ [[-> H]|(_ & H & _)]]]; exact H. Qed.

Definition idx_treelike (w : world) : Prop :=
  forall q1 q2, staged w q1 <> None -> staged w q2 <> None -> ~ In q1 (ancestors q2).

Corollary restore_worktree_total_simple : forall e c w args,
  Reachable w -> w_coll w = false -> SmallStore (w_objs w) ->
  w_inited w = true -> ctx_of w = Some c ->
  args <> [] ->
  (forall a, In a args -> wd_known w a) ->
  (forall q, staged w q <> None -> restorable w q) ->
  idx_treelike w ->
  exists w' tr,
    step (ACmd e (CRestore false args)) w = (w', OOk [], tr) /\
    restore_wt_result w args w' /\ w' = apply_effects tr w.
Proof.
  intros e c w args Hr Hc Hs Hi Hx Hne Hknown Hres Htl.
  destruct (restore_worktree_total e c w args Hr Hc Hs Hi Hx Hne Hknown) as (w' & tr & H1 & H2 & H3 & _).
  - intros q Hq. apply Hres. apply (wd_selected_staged w args q Hq).
  - intros q1 q2 H1 H2. apply Htl; [apply (wd_selected_staged w args q1 H1) | apply (wd_selected_staged w args q2 H2)].
  - exists w', tr. auto.
Qed.

(* ================================================================== *)
(** * 11. Non-vacuity and findings, by closed computation *)

Definition rx_env : env := mkEnv 1700000000 32400.
(* a repository with one commit holding a, d-old, d/e/y, d/x ... *)
Definition rx_hist : list action :=
  [ ACmd rx_env CInit;
    ACmd rx_env (CConfig false [str "user.name"%string; str "Ada L"%string]);
    ACmd rx_env (CConfig false [str "user.email"%string; str "ada@example.com"%string]);
    AEdit (UWrite (str "d/x"%string) (str "one"%string));
    AEdit (UWrite (str "d/e/y"%string) (str "two"%string));
    AEdit (UWrite (str "d-old"%string) (str "three"%string));
    AEdit (UWrite (str "a"%string) (str "four"%string));
    ACmd rx_env (CAdd [str "."%string]);
    ACmd rx_env (CCommit (str "first"%string)) ].
(* ... then: a is modified, a new file n is staged, d/x is removed with [rm],
   the whole directory d is deleted from disk *)
Definition rx_hist2 : list action :=
  [ AEdit (UWrite (str "a"%string) (str "changed"%string));
    AEdit (UWrite (str "n"%string) (str "new"%string));
    ACmd rx_env (CAdd [str "n"%string]);
    ACmd rx_env (CRm [str "d/x"%string]);
    AEdit (URmTree (str "d"%string)) ].
Definition rx_w1 : world := Eval vm_compute in run (rx_hist ++ rx_hist2) w_empty.

Lemma rx_w1_run : rx_w1 = run (rx_hist ++ rx_hist2) w_empty.
Proof. vm_compute. reflexivity. Qed.

Lemma rx_reachable : Reachable rx_w1.
Proof.
  exists (rx_hist ++ rx_hist2). split; [|exact rx_w1_run].
  apply action_ok_b_ok. vm_compute. reflexivity.
Qed.
Lemma rx_coll : w_coll rx_w1 = false. Proof. vm_compute. reflexivity. Qed.
Lemma rx_small : SmallStore (w_objs rx_w1). Proof. apply small_store_b. vm_compute. reflexivity. Qed.
Lemma rx_inited : w_inited rx_w1 = true. Proof. vm_compute. reflexivity. Qed.

Definition rx_c : ctx :=
  Eval vm_compute in match ctx_of rx_w1 with Some c => c | None => mkCtx [] [] None [] end.
Lemma rx_ctx : ctx_of rx_w1 = Some rx_c. Proof. vm_compute. reflexivity. Qed.
Definition rx_ns : list node :=
  Eval vm_compute in match head_nodes rx_c rx_w1 with Some ns => ns | None => [] end.
Lemma rx_head : head_nodes rx_c rx_w1 = Some rx_ns. Proof. vm_compute. reflexivity. Qed.

Example rx_state :
  map e_path (idx_of rx_w1) = [str "a"%string; str "d-old"%string; str "d/e/y"%string; str "n"%string] /\
  map e_path (flatten [] rx_ns) = [str "a"%string; str "d-old"%string; str "d/e/y"%string; str "d/x"%string] /\
  map fst (w_files rx_w1) = [str "a"%string; str "d-old"%string; str "n"%string] /\
  w_dirs rx_w1 = [].
Proof. vm_compute. repeat split. Qed.

Lemma rx_canonical : Canonical (idx_of rx_w1).
Proof. apply (reachable_canonical rx_w1 rx_reachable rx_coll rx_small). Qed.

Lemma rx_tracked : forall q, staged rx_w1 q <> None ->
  In q [str "a"%string; str "d-old"%string; str "d/e/y"%string; str "n"%string].
Proof.
  intros q Hs.
  destruct (in_dec bytes_eq_dec q (paths (idx_of rx_w1))) as [Hin|Hn].
  - vm_compute in Hin. vm_compute. exact Hin.
  - exfalso. apply Hs. rewrite staged_stg. apply (stg_none_iff _ _ rx_canonical). exact Hn.
Qed.

(* ---------- (R1) applies: restore a d ---------- *)
Example rx_worktree_total_applies :
  exists w' tr,
    step (ACmd rx_env (CRestore false [str "a"%string; str "d"%string])) rx_w1 = (w', OOk [], tr) /\
    restore_wt_result rx_w1 [str "a"%string; str "d"%string] w' /\ w' = apply_effects tr rx_w1.
Proof.
  apply (restore_worktree_total_simple rx_env rx_c rx_w1 _ rx_reachable rx_coll rx_small rx_inited rx_ctx).
  - discriminate.
  - intros a [<-|[<-|[]]].
    + left. vm_compute. discriminate.
    + right. exists (str "d/e/y"%string). split; [vm_compute; discriminate | vm_compute; reflexivity].
  - intros q Hs. apply rx_tracked in Hs.
    repeat (destruct Hs as [<-|Hs]; [first [left; vm_compute; reflexivity | right; vm_compute; reflexivity]|]).
    contradiction Hs.
  - intros q1 q2 H1 H2 Hanc. apply rx_tracked in H1. apply rx_tracked in H2.
    repeat (destruct H1 as [<-|H1];
            [repeat (destruct H2 as [<-|H2];
                     [vm_compute in Hanc; repeat (destruct Hanc as [Hanc|Hanc]; [discriminate Hanc|]); exact Hanc|]);
             contradiction H2|]).
    contradiction H1.
Qed.

(* and what it computes: the modified file is back to its staged content, the
   deleted directory is re-created with the one path still tracked below it
   (d/x, removed with [rm], is not), nothing else moves *)
Example rx_worktree_computed :
  let '(w', o, tr) := step (ACmd rx_env (CRestore false [str "a"%string; str "d"%string])) rx_w1 in
  o = OOk [] /\
  tr = [EWriteFile (str "a"%string) (str "four"%string); EMkdirAll (str "d/e"%string);
        EWriteFile (str "d/e/y"%string) (str "two"%string)] /\
  map fst (w_files w') = [str "a"%string; str "d-old"%string; str "d/e/y"%string; str "n"%string] /\
  w_dirs w' = [str "d"%string; str "d/e"%string] /\ w_index w' = w_index rx_w1.
Proof. vm_compute. repeat split. Qed.

(* ---------- [restorable] is needed ---------- *)
(* a FILE where a directory is needed: d is now a file, d/e/y is tracked *)
Definition rx_w_file : world := Eval vm_compute in run [AEdit (UWrite (str "d"%string) (str "in the way"%string))] rx_w1.
Example rx_restorable_needed_file :
  ~ restorable rx_w_file (str "d/e/y"%string) /\
  step (ACmd rx_env (CRestore false [str "d"%string])) rx_w_file = (rx_w_file, OErr, []).
Proof.
  split; [intros [H|H]; vm_compute in H; discriminate H | vm_compute; reflexivity].
Qed.
(* a DIRECTORY at a selected path: d/e/y is now a directory *)
Definition rx_w_dir : world := Eval vm_compute in run [AEdit (UWrite (str "d/e/y/z"%string) (str "below"%string))] rx_w1.
Example rx_restorable_needed_dir :
  ~ restorable rx_w_dir (str "d/e/y"%string) /\
  step (ACmd rx_env (CRestore false [str "d"%string])) rx_w_dir = (rx_w_dir, OErr, []).
Proof.
  split; [intros [H|H]; vm_compute in H; discriminate H | vm_compute; reflexivity].
Qed.

(* ---------- (F-1) [wd_flat] is needed ---------- *)
(* ExactFacts.ex_w4 (reachable) stages d-old AND d-old/b; with both absent from
   disk each of them is [restorable], yet [restore .] writes ad/x, writes d-old
   as a file and then fails on d-old/b (its parent is now a file): Err after
   two writes *)
Definition rx_w_nest : world := Eval vm_compute in run [AEdit (URmTree (str "d-old"%string))] ex_w4.
Example rx_flat_needed :
  (forall q, In q (paths (idx_of rx_w_nest)) -> restorable rx_w_nest q) /\
  In (str "d-old"%string) (ancestors (str "d-old/b"%string)) /\
  staged rx_w_nest (str "d-old"%string) <> None /\ staged rx_w_nest (str "d-old/b"%string) <> None /\
  let '(w', o, tr) := step (ACmd rx_env (CRestore false [str "."%string])) rx_w_nest in
  o = OErr /\ length tr = 2 /\ file w' (str "d-old"%string) = Some (str "three"%string).
Proof.
  split.
  { intros q Hq. vm_compute in Hq.
    repeat (destruct Hq as [<-|Hq]; [first [left; vm_compute; reflexivity | right; vm_compute; reflexivity]|]).
    contradiction Hq. }
  split; [vm_compute; left; reflexivity|].
  split; [vm_compute; discriminate|]. split; [vm_compute; discriminate|].
  vm_compute. repeat split.
Qed.

(* ---------- (R2) applies: restore --staged d n a ---------- *)
Example rx_staged_total_applies :
  exists w' tr,
    step (ACmd rx_env (CRestore true [str "d"%string; str "n"%string; str "a"%string])) rx_w1 = (w', OOk [], tr) /\
    restore_st_result rx_w1 rx_ns [str "d"%string; str "n"%string; str "a"%string] w' /\
    w' = apply_effects tr rx_w1 /\ Forall (fun ef => is_idx ef = true) tr.
Proof.
  apply (restore_staged_total rx_env rx_c rx_w1 _ rx_ns rx_reachable rx_coll rx_small rx_inited rx_ctx rx_head).
  - discriminate.
  - intros a [<-|[<-|[<-|[]]]].
    + right. right. left. exists (str "d/e/y"%string). split; [vm_compute; discriminate | vm_compute; reflexivity].
    + left. vm_compute. discriminate.
    + left. vm_compute. discriminate.
  - apply nodup_repeats_in_head.
    assert (E : idx_targets rx_w1 rx_ns [str "d"%string; str "n"%string; str "a"%string]
                = [str "d/e/y"%string; str "d/x"%string; str "n"%string; str "a"%string])
      by (vm_compute; reflexivity).
    rewrite E.
    repeat (constructor; [intro H; vm_compute in H; repeat (destruct H as [H|H]; [discriminate H|]); exact H|]).
    constructor.
Qed.

(* and what it computes: d/x (removed with [rm]) is staged again with HEAD's
   id, n (not in HEAD) is unstaged, a and d/e/y keep HEAD's ids; one index
   write per entry that changes; the work tree is untouched *)
Example rx_staged_computed :
  let '(w', o, tr) := step (ACmd rx_env (CRestore true [str "d"%string; str "n"%string; str "a"%string])) rx_w1 in
  o = OOk [] /\ length tr = 2 /\
  idx_of w' = flatten [] rx_ns /\ w_files w' = w_files rx_w1 /\ w_dirs w' = w_dirs rx_w1.
Proof. vm_compute. repeat split. Qed.

(* ---------- (F-2) a path named twice ---------- *)
(* n is staged but not in HEAD: the first occurrence unstages it, the second
   finds it neither staged nor in HEAD: Err AFTER the staging area was written *)
Example rx_staged_twice_fails :
  let '(w', o, tr) := step (ACmd rx_env (CRestore true [str "n"%string; str "n"%string])) rx_w1 in
  o = OErr /\ length tr = 1 /\ staged rx_w1 (str "n"%string) <> None /\ staged w' (str "n"%string) = None.
Proof. vm_compute. repeat split. discriminate. Qed.
(* the same with a directory and a path beneath it *)
Definition rx_w_dn : world :=
  Eval vm_compute in run [AEdit (UWrite (str "d/new"%string) (str "nn"%string)); ACmd rx_env (CAdd [str "d/new"%string])] rx_w1.
Example rx_staged_overlap_fails :
  let '(w', o, tr) := step (ACmd rx_env (CRestore true [str "d"%string; str "d/new"%string])) rx_w_dn in
  o = OErr /\ staged rx_w_dn (str "d/new"%string) <> None /\ staged w' (str "d/new"%string) = None /\
  staged w' (str "d/x"%string) <> None.
Proof. vm_compute. repeat split; discriminate. Qed.
(* a repeated path that IS in HEAD is harmless ([repeats_in_head]) *)
Example rx_staged_twice_in_head_ok :
  snd (fst (step (ACmd rx_env (CRestore true [str "d"%string; str "d/x"%string])) rx_w1)) = OOk [].
Proof. vm_compute. reflexivity. Qed.

(* ---------- (F-3, repaired) "." selects the whole of HEAD's snapshot ---------- *)
(* d/x is in HEAD's snapshot and was removed from the staging area with [rm];
   [restore --staged .] stages it again with HEAD's id, exactly as
   [restore --staged d] does, unstages n (not in HEAD), and the staging area is
   HEAD's snapshot again; the work tree is untouched *)
Example rx_staged_dot_restores :
  staged rx_w1 (str "d/x"%string) = None /\
  stg (flatten [] rx_ns) (str "d/x"%string) <> None /\
  under_dir (str "."%string) (str "d/x"%string) = true /\
  (let '(w', o, tr) := step (ACmd rx_env (CRestore true [str "."%string])) rx_w1 in
   o = OOk [] /\ length tr = 2 /\
   staged w' (str "d/x"%string) = stg (flatten [] rx_ns) (str "d/x"%string) /\
   staged w' (str "n"%string) = None /\
   idx_of w' = flatten [] rx_ns /\ w_files w' = w_files rx_w1 /\ w_dirs w' = w_dirs rx_w1) /\
  (let '(w', o, tr) := step (ACmd rx_env (CRestore true [str "d"%string])) rx_w1 in
   o = OOk [] /\ staged w' (str "d/x"%string) = stg (flatten [] rx_ns) (str "d/x"%string)).
Proof. vm_compute. repeat split; discriminate. Qed.

(* after [rm] of SEVERAL committed paths (a file at the top, a whole directory)
   nothing of them is staged; [restore --staged .] re-creates every one of them *)
Definition rx_w_rm : world :=
  Eval vm_compute in run [ACmd rx_env (CRm [str "d-old"%string; str "d"%string])] rx_w1.
Example rx_staged_dot_restores_all :
  map e_path (idx_of rx_w_rm) = [str "a"%string; str "n"%string] /\
  (let '(w', o, tr) := step (ACmd rx_env (CRestore true [str "."%string])) rx_w_rm in
   o = OOk [] /\
   map e_path (idx_of w') = [str "a"%string; str "d-old"%string; str "d/e/y"%string; str "d/x"%string] /\
   idx_of w' = flatten [] rx_ns /\ w_files w' = w_files rx_w_rm /\ w_dirs w' = w_dirs rx_w_rm).
Proof. vm_compute. repeat split. Qed.

(* the corollary applies to the example *)
Example rx_staged_dot_applies :
  exists w' tr,
    step (ACmd rx_env (CRestore true [str "."%string])) rx_w1 = (w', OOk [], tr) /\
    idx_of w' = flatten [] rx_ns /\
    (forall q, staged w' q = stg (flatten [] rx_ns) q) /\
    same_wt rx_w1 w' /\ same_objs rx_w1 w' /\ ExactFacts.same_meta rx_w1 w' /\
    w' = apply_effects tr rx_w1 /\ Forall (fun ef => is_idx ef = true) tr.
Proof.
  apply (restore_staged_dot_resets_everything rx_env rx_c rx_w1 rx_ns
           rx_reachable rx_coll rx_small rx_inited rx_ctx rx_head).
  - vm_compute. reflexivity.
  - vm_compute. reflexivity.
  - left. vm_compute. discriminate.
Qed.

(* ---------- (R3) applies, both modes ---------- *)
Example rx_unknown_refused : forall stg_mode,
  step (ACmd rx_env (CRestore stg_mode [str "a"%string; str "nope"%string; str "d"%string])) rx_w1 = (rx_w1, OErr, []).
Proof.
  intro stg_mode.
  apply (restore_unknown_refused rx_env rx_w1 stg_mode _ (str "nope"%string)).
  - right. left. reflexivity.
  - vm_compute. reflexivity.
  - intros en Hin. vm_compute in Hin.
    repeat (destruct Hin as [<-|Hin]; [vm_compute; reflexivity|]). contradiction Hin.
  - intros _ c ns Hx Hn. rewrite rx_ctx in Hx. injection Hx as <-.
    rewrite rx_head in Hn. injection Hn as <-. split; [vm_compute; reflexivity | intro H; discriminate H].
Qed.
(* the computation agrees, and without the unknown argument both succeed *)
Example rx_unknown_computed :
  step (ACmd rx_env (CRestore false [str "a"%string; str "nope"%string; str "d"%string])) rx_w1 = (rx_w1, OErr, []) /\
  step (ACmd rx_env (CRestore true [str "a"%string; str "nope"%string; str "d"%string])) rx_w1 = (rx_w1, OErr, []) /\
  snd (fst (step (ACmd rx_env (CRestore false [str "a"%string; str "d"%string])) rx_w1)) = OOk [] /\
  snd (fst (step (ACmd rx_env (CRestore true [str "a"%string; str "d"%string])) rx_w1)) = OOk [].
Proof. vm_compute. repeat split. Qed.

(* ---------- [nodes_unique] holds of the example and the two selections agree ---------- *)
Ltac rf_nodes_unique :=
  constructor;
  [ vm_compute;
    repeat (constructor; [let H := fresh "H" in intro H; vm_compute in H;
                          repeat (destruct H as [H|H]; [discriminate H|]); exact H|]);
    constructor
  | let c := fresh "c" in let Hc := fresh "Hc" in
    intros c Hc; vm_compute in Hc;
    repeat (destruct Hc as [<-|Hc]; [rf_nodes_unique|]); contradiction Hc ].

Lemma rx_nodes_unique : nodes_unique rx_ns.
Proof. rf_nodes_unique. Qed.

Example rx_selection_exact : forall q,
  st_selected rx_w1 rx_ns [str "d"%string; str "n"%string] q <->
  st_selected_spec rx_w1 (flatten [] rx_ns) [str "d"%string; str "n"%string] q.
Proof.
  intro q.
  destruct (reachable_head_nodes rx_w1 rx_c rx_ns rx_reachable rx_coll rx_small rx_ctx rx_head)
    as (hid & cm & d & _ & _ & _ & _ & (its & Ens & Hwf & Hcan & _) & _).
  pose proof rx_nodes_unique as Hu. rewrite Ens in Hu |- *.
  rewrite (flatten_items its Hwf).
  apply (st_selected_iff rx_w1 its _ q Hwf Hcan Hu).
Qed.

(* ================================================================== *)
Print Assumptions restore_worktree_total.
Print Assumptions restore_worktree_total_simple.
Print Assumptions restore_staged_total.
Print Assumptions restore_staged_total_spec.
Print Assumptions restore_unknown_refused.
Print Assumptions restore_unknown_refused_reachable.
Print Assumptions cmd_restore_wd_total.
Print Assumptions cmd_restore_idx_total.
Print Assumptions idx_targets_nodup.
Print Assumptions head_dir_paths_sound.
Print Assumptions head_dir_paths_complete.
Print Assumptions st_selected_iff.
Print Assumptions rx_worktree_total_applies.
Print Assumptions rx_staged_total_applies.
Print Assumptions rx_unknown_refused.
Print Assumptions rx_flat_needed.
Print Assumptions rx_staged_twice_fails.
Print Assumptions restore_staged_dot_resets_everything.
Print Assumptions rx_staged_dot_restores.
Print Assumptions rx_staged_dot_restores_all.
Print Assumptions rx_staged_dot_applies.
Print Assumptions rx_selection_exact.
