(* GateFacts.v — property C07 at COMMAND level, the parts that were missing:
   "Immediately after a successful commit that list [status's 'Changes to be
   committed'] is empty ... Conversely, any staged difference makes `commit`
   succeed."

   1. [commit_succeeds_on_any_staged_difference] [first_commit_succeeds]
      [commit_succeeds_spec]            (G1) a staged difference => commit succeeds
      [commit_outcome] [commit_success_inv] [commit_succeeds_iff]
                                        the converse: WHEN a commit step answers Ok
   2. [cmd_status_runs] [status_step] [status_step_refused]
      [staged_section_is_filter]        the exact output of `status`
      [status_staged_section_exact] [staged_line_iff] [staged_paths_iff]
      [staged_paths_nodup]              (G3) its staged section is exact
   3. [status_after_commit_clean] [commit_then_status]
                                        (G2) after a successful commit it is empty
   4. [reachable_inited] [history_*]    (G4) the same on every reachable world
   5. [gx_*]                            non-vacuity by computation *)
From Coq Require Import Strings.String Strings.Byte.
From Coq Require Import List Bool NArith ZArith Arith Lia Sorted.
From Goit Require Import Bytes Sha1 Obj Tree Index Regex GoRegex Commit Reflog Config Ignore World Repo.
From Goit Require Import BytesFacts RegexFacts ObjFacts IndexFacts TreeFacts CommitFacts DiffFacts MonadFacts Inv.
From Goit Require Import BranchFacts ExactFacts TotalFacts SnapshotFacts CommitCmdFacts.
Import ListNotations.

#[local] Arguments sha1 : simpl never.
#[local] Arguments obj_id : simpl never.
#[local] Arguments payload : simpl never.
#[local] Arguments header : simpl never.

(* ================================================================== *)
(** * 0. Small facts *)

Lemma triple_eq_inv : forall (A B C : Type) (a a' : A) (b b' : B) (c c' : C),
  (a, b, c) = (a', b', c') -> a = a' /\ b = b' /\ c = c'.
Proof. intros A B C a a' b b' c c' H. injection H as -> -> ->. auto. Qed.

(* one step of `commit`, from any total run of [cmd_commit] *)
Lemma step_commit_runs : forall e msg w c r tr,
  w_inited w = true -> ctx_of w = Some c ->
  runs (cmd_commit e c msg) w r tr ->
  step (ACmd e (CCommit msg)) w = (apply_effects tr w, outcome_of r, tr).
Proof.
  intros e msg w c r tr Hi Hx Hrun.
  rewrite (step_loaded e (CCommit msg) w c); [|discriminate | exact Hi | exact Hx].
  cbn [dispatch]. rewrite (Hrun []). reflexivity.
Qed.

(* what a loaded context holds when the current branch has a tip *)
Lemma loaded_head : forall w c hid,
  ctx_of w = Some c -> tip_of w = Some hid ->
  exists cm, x_headc c = Some (hid, cm) /\ get_commit (w_objs w) hid = Some cm.
Proof.
  intros w c hid Hx Ht. pose proof (ctx_of_headc w c Hx) as Hh.
  unfold head_commit in Hh. unfold tip_of in Ht. rewrite Ht in Hh.
  destruct (get_commit (w_objs w) hid) as [cm|] eqn:Ec; [|discriminate Hh].
  injection Hh as Hh. exists cm. split; [symmetry; exact Hh | reflexivity].
Qed.

Lemma loaded_no_head : forall w c,
  ctx_of w = Some c -> tip_of w = None -> x_headc c = None.
Proof.
  intros w c Hx Ht. pose proof (ctx_of_headc w c Hx) as Hh.
  unfold head_commit in Hh. unfold tip_of in Ht. rewrite Ht in Hh.
  injection Hh as Hh. symmetry. exact Hh.
Qed.

(* a snapshot that reads, taken apart *)
Lemma snapshot_inv : forall st cid s,
  snapshot st cid = Some s ->
  exists cm d ns, get_commit st cid = Some cm /\ get_kind st KTree (c_tree cm) = Some d /\
                  walk_tree (S (length st)) st d = Some ns /\ s = flatten [] ns.
Proof.
  intros st cid s H. unfold snapshot in H.
  destruct (get_commit st cid) as [cm|]; [|discriminate H].
  destruct (get_kind st KTree (c_tree cm)) as [d|] eqn:Ek; [|discriminate H].
  destruct (walk_tree (S (length st)) st d) as [ns|] eqn:Ew; [|discriminate H].
  injection H as <-. exists cm, d, ns. auto.
Qed.

(* HEAD's snapshot, as the command loads it *)
Lemma head_nodes_snapshot : forall w c hid s,
  ctx_of w = Some c -> tip_of w = Some hid -> snapshot (w_objs w) hid = Some s ->
  exists cm d ns, x_headc c = Some (hid, cm) /\ get_commit (w_objs w) hid = Some cm /\
    get_kind (w_objs w) KTree (c_tree cm) = Some d /\
    walk_tree (S (length (w_objs w))) (w_objs w) d = Some ns /\
    head_nodes c w = Some ns /\ flatten [] ns = s.
Proof.
  intros w c hid s Hx Ht Hs.
  destruct (loaded_head w c hid Hx Ht) as (cm & Hc & Hg).
  destruct (snapshot_inv _ _ _ Hs) as (cm' & d & ns & Hg' & Hk & Hw & ->).
  rewrite Hg in Hg'. injection Hg' as <-.
  exists cm, d, ns. repeat split; try assumption.
  unfold head_nodes. rewrite Hc, Hk. exact Hw.
Qed.

Lemma tip_refs_nonempty : forall w hid, tip_of w = Some hid -> w_refs w <> [].
Proof. intros w hid Ht Hr. unfold tip_of in Ht. rewrite Hr in Ht. discriminate Ht. Qed.

Lemma no_refs_no_tip : forall w, w_refs w = [] -> tip_of w = None.
Proof. intros w Hr. unfold tip_of. rewrite Hr. reflexivity. Qed.

(* ================================================================== *)
(** * 1. (G1) Any staged difference makes `commit` succeed *)

(* the gate of [cmd_commit] is open as soon as HEAD's snapshot, read the way
   Goit reads it, is not the staging area *)
Lemma gate_open_of_difference : forall w c hid s,
  GoodW w -> ctx_of w = Some c ->
  tip_of w = Some hid -> snapshot (w_objs w) hid = Some s -> s <> idx_of w ->
  user_set (x_l c) (x_g c) = true ->
  gate_open w c.
Proof.
  intros w c hid s Hg Hx Ht Hs Hne Hu.
  destruct (head_nodes_snapshot w c hid s Hx Ht Hs) as (cm & d & ns & Hc & Hgc & Hk & Hw & Hn & Hf).
  assert (Hd : diff_with_tree (idx_of w) ns <> []).
  { intro Hd. apply (commit_guard w hid cm d ns Hg Hgc Hk Hw) in Hd.
    rewrite Hs in Hd. injection Hd as Hd. exact (Hne Hd). }
  split; [exact Hu|].
  pose proof (tip_refs_nonempty w hid Ht) as Hr.
  destruct (w_refs w) as [|kv rs]; [contradiction Hr; reflexivity|].
  exists ns. split; assumption.
Qed.

(* (G1), in its weakest form: the only thing asked of the identity, the clock
   and the message is that the commit text Goit formats reads back *)
Theorem commit_succeeds_if_text_reads : forall e msg w c hid s root subs cm,
  GoodW w -> w_inited w = true -> ctx_of w = Some c ->
  tip_of w = Some hid -> snapshot (w_objs w) hid = Some s -> s <> idx_of w ->
  user_set (x_l c) (x_g c) = true ->
  write_tree_top (idx_of w) = Some (root, subs) ->
  parse_commit (commit_data e c msg w root) = Some cm ->
  step (ACmd e (CCommit msg)) w =
  (after_commit e c msg w root subs, OOk [], do_commit_trace e c msg w root subs).
Proof.
  intros e msg w c hid s root subs cm Hg Hi Hx Ht Hs Hne Hu Hw Hp.
  apply (commit_step e msg w c root subs cm); try assumption.
  - apply (gate_open_of_difference w c hid s); assumption.
  - intro Hn. rewrite Ht in Hn. discriminate Hn.
Qed.

(* (G1) as stated: identity and clock in the domain of C12, any message *)
Theorem commit_succeeds_on_any_staged_difference : forall e msg w c hid s root subs,
  GoodW w -> w_inited w = true -> ctx_of w = Some c ->
  tip_of w = Some hid -> snapshot (w_objs w) hid = Some s -> s <> idx_of w ->
  user_set (x_l c) (x_g c) = true ->
  sign_ok (user_name (x_l c) (x_g c)) (user_email (x_l c) (x_g c)) (e_time e) (e_off e) ->
  write_tree_top (idx_of w) = Some (root, subs) ->
  step (ACmd e (CCommit msg)) w =
  (after_commit e c msg w root subs, OOk [], do_commit_trace e c msg w root subs).
Proof.
  intros e msg w c hid s root subs Hg Hi Hx Ht Hs Hne Hu Hso Hw.
  apply (commit_succeeds_if_text_reads e msg w c hid s root subs (commit_of e c msg w root));
    try assumption.
  apply commit_parses; [exact Hso|].
  intros tip Htip. exact (loaded_tip_length w c tip Hx Htip).
Qed.

(* the trees always exist: [write_tree_top] is total *)
Corollary commit_succeeds_on_any_staged_difference_ex : forall e msg w c hid s,
  GoodW w -> w_inited w = true -> ctx_of w = Some c ->
  tip_of w = Some hid -> snapshot (w_objs w) hid = Some s -> s <> idx_of w ->
  user_set (x_l c) (x_g c) = true ->
  sign_ok (user_name (x_l c) (x_g c)) (user_email (x_l c) (x_g c)) (e_time e) (e_off e) ->
  exists root subs,
    write_tree_top (idx_of w) = Some (root, subs) /\
    step (ACmd e (CCommit msg)) w =
    (after_commit e c msg w root subs, OOk [], do_commit_trace e c msg w root subs).
Proof.
  intros e msg w c hid s Hg Hi Hx Ht Hs Hne Hu Hso.
  destruct (write_tree_fuel_any (idx_of w)) as [[root subs] Hw].
  exists root, subs. split; [exact Hw|].
  apply (commit_succeeds_on_any_staged_difference e msg w c hid s); assumption.
Qed.

(* the first commit of a repository: no branch at all, something staged.  No
   invariant is needed; the name HEAD holds must be one Goit accepts for a new
   branch (it is "main" after `init`) *)
Theorem first_commit_succeeds : forall e msg w c root subs,
  w_inited w = true -> ctx_of w = Some c ->
  w_refs w = [] -> idx_of w <> [] ->
  valid_branch_name (w_head w) = true ->
  user_set (x_l c) (x_g c) = true ->
  sign_ok (user_name (x_l c) (x_g c)) (user_email (x_l c) (x_g c)) (e_time e) (e_off e) ->
  write_tree_top (idx_of w) = Some (root, subs) ->
  step (ACmd e (CCommit msg)) w =
  (after_commit e c msg w root subs, OOk [], do_commit_trace e c msg w root subs).
Proof.
  intros e msg w c root subs Hi Hx Hr Hne Hv Hu Hso Hw.
  apply (commit_step e msg w c root subs (commit_of e c msg w root)); try assumption.
  - split; [exact Hu|]. rewrite Hr. exact Hne.
  - intros _. exact Hv.
  - apply commit_parses; [exact Hso|].
    intros tip Htip. exact (loaded_tip_length w c tip Hx Htip).
Qed.

(* (G1) with what the successful commit did (C02's post-condition); the size
   guards are only needed for this second half *)
Theorem commit_succeeds_spec : forall e msg w c hid s root subs,
  GoodW w -> w_inited w = true -> ctx_of w = Some c ->
  tip_of w = Some hid -> snapshot (w_objs w) hid = Some s -> s <> idx_of w ->
  user_set (x_l c) (x_g c) = true ->
  sign_ok (user_name (x_l c) (x_g c)) (user_email (x_l c) (x_g c)) (e_time e) (e_off e) ->
  write_tree_top (idx_of w) = Some (root, subs) ->
  (forall d, In d (subs ++ [root]) -> (lenN d < 2 ^ 63)%N) ->
  (lenN (commit_data e c msg w root) < 2 ^ 63)%N ->
  let w' := after_commit e c msg w root subs in
  step (ACmd e (CCommit msg)) w = (w', OOk [], do_commit_trace e c msg w root subs) /\
  CommitCmdFacts.commit_post e c msg w root (commit_of e c msg w root) w' /\
  c_parents (commit_of e c msg w root) = [hid] /\
  c_msg (commit_of e c msg w root) = msg.
Proof.
  intros e msg w c hid s root subs Hg Hi Hx Ht Hs Hne Hu Hso Hw Hsz Hszc w'.
  split; [apply (commit_succeeds_on_any_staged_difference e msg w c hid s); assumption|].
  assert (Htip : forall tip, tip_of w = Some tip -> length tip = 20).
  { intros tip Htip. exact (loaded_tip_length w c tip Hx Htip). }
  destruct Hg as (_ & [_ Hv] & _).
  destruct (commit_spec_ok e c msg w root subs Hv Hw Hsz Hszc Hso Htip) as (_ & Hpost & Hmsg).
  { apply head_ok_loaded; [exact Hx|]. intro Hn. rewrite Ht in Hn. discriminate Hn. }
  split; [exact Hpost|]. split; [|exact Hmsg].
  unfold commit_of. cbn [c_parents]. rewrite Ht. reflexivity.
Qed.

(* ================================================================== *)
(** * 1b. The converse: WHEN does a commit step answer Ok *)

(* the one way [do_commit] can still fail after the commit object has been
   written: there is no branch yet and HEAD holds a name Goit refuses *)
Lemma do_commit_bad_branch : forall e c msg w root subs cm,
  write_tree_top (idx_of w) = Some (root, subs) ->
  parse_commit (commit_data e c msg w root) = Some cm ->
  tip_of w = None -> valid_branch_name (w_head w) = false ->
  runs (do_commit e c msg) w Err
       (map put_tree_eff (subs ++ [root]) ++
        [EPutObj (commit_id e c msg w root) (payload KCommit (commit_data e c msg w root))]).
Proof.
  intros e c msg w root subs cm Hw Hp Et Hv. unfold do_commit.
  rstep. ropt (root, subs) Hw. cbn [fst snd].
  apply runs_seq; [apply put_trees_runs|]. cbv zeta.
  ropt cm Hp. unfold put_obj.
  fold (tip_of w). fold (commit_sign e c).
  change (match tip_of w with Some id => Some (hex id) | None => None end) with (option_map hex (tip_of w)).
  fold (commit_data e c msg w root). fold (commit_id e c msg w root).
  do 3 rstep.
  unfold am_mem. fold (tip_of w). rewrite Et.
  apply runs_bind_err. apply runs_bind_guard_false. exact Hv.
Qed.

(* every commit step is one of: refused (possibly after writing tree objects
   or the commit object: the four "late" refusals), or the successful commit
   of section 1 of CommitCmdFacts; it never crashes *)
Theorem commit_outcome : forall e msg w w' o tr,
  step (ACmd e (CCommit msg)) w = (w', o, tr) ->
  o = OErr \/
  (o = OOk [] /\ w_inited w = true /\
   exists c root subs cm,
     ctx_of w = Some c /\ gate_open w c /\
     (tip_of w = None -> valid_branch_name (w_head w) = true) /\
     write_tree_top (idx_of w) = Some (root, subs) /\
     parse_commit (commit_data e c msg w root) = Some cm /\
     w' = after_commit e c msg w root subs /\
     tr = do_commit_trace e c msg w root subs).
Proof.
  intros e msg w w' o tr Hstep.
  assert (Hne : CCommit msg <> CInit) by discriminate.
  destruct (w_inited w) eqn:Hi.
  2:{ rewrite (step_not_loaded e _ w Hne (or_introl Hi)) in Hstep.
      apply triple_eq_inv in Hstep. left. symmetry. apply Hstep. }
  destruct (ctx_of w) as [c|] eqn:Hx.
  2:{ rewrite (step_not_loaded e _ w Hne (or_intror Hx)) in Hstep.
      apply triple_eq_inv in Hstep. left. symmetry. apply Hstep. }
  assert (Hrefused : forall tr0, runs (cmd_commit e c msg) w Err tr0 -> o = OErr).
  { intros tr0 Hrun. rewrite (step_commit_runs e msg w c Err tr0 Hi Hx Hrun) in Hstep.
    apply triple_eq_inv in Hstep. symmetry. apply Hstep. }
  destruct (user_set (x_l c) (x_g c)) eqn:Hu.
  2:{ left. apply (Hrefused []). apply cmd_commit_no_identity_runs. exact Hu. }
  assert (Hgate : gate_open w c \/ o = OErr).
  { unfold gate_open. destruct (w_refs w) as [|kv rs] eqn:Er.
    - destruct (idx_of w) as [|en es] eqn:Ei.
      + right. apply (Hrefused []). apply cmd_commit_first_nothing; assumption.
      + left. split; [exact Hu | discriminate].
    - assert (Hr : w_refs w <> []) by (rewrite Er; discriminate).
      destruct (head_nodes c w) as [ns|] eqn:Hn.
      + destruct (diff_with_tree (idx_of w) ns) as [|x l] eqn:Hd.
        * right. apply (Hrefused []). apply (cmd_commit_nothing_staged e c msg w ns); assumption.
        * left. split; [exact Hu|]. exists ns. split; [reflexivity|]. rewrite Hd. discriminate.
      + right. apply (Hrefused []). apply cmd_commit_no_head; assumption. }
  destruct Hgate as [Hgate|Ho]; [|left; exact Ho].
  destruct (write_tree_fuel_any (idx_of w)) as [[root subs] Hw].
  destruct (parse_commit (commit_data e c msg w root)) as [cm|] eqn:Hp.
  2:{ left. apply (Hrefused (map put_tree_eff (subs ++ [root]))).
      apply (proj2 (cmd_commit_passes e c msg w _ Hgate)).
      apply do_commit_unparsable; assumption. }
  assert (Hcase : (tip_of w = None -> valid_branch_name (w_head w) = true) \/
                  (tip_of w = None /\ valid_branch_name (w_head w) = false)).
  { destruct (tip_of w) as [tip|]; [left; intro H; discriminate H|].
    destruct (valid_branch_name (w_head w)); [left; intros _; reflexivity | right; split; reflexivity]. }
  destruct Hcase as [Hv|[Et Hvb]].
  - right.
    rewrite (commit_step e msg w c root subs cm Hi Hx Hgate Hv Hw Hp) in Hstep.
    apply triple_eq_inv in Hstep. destruct Hstep as (<- & <- & <-).
    split; [reflexivity|]. split; [reflexivity|].
    exists c, root, subs, cm.
    split; [reflexivity|]. split; [exact Hgate|]. split; [exact Hv|]. split; [exact Hw|].
    split; [exact Hp|]. split; reflexivity.
  - left. eapply Hrefused.
    apply (proj2 (cmd_commit_passes e c msg w _ Hgate)).
    apply (do_commit_bad_branch e c msg w root subs cm); assumption.
Qed.

Corollary commit_never_panics : forall e msg w, snd (fst (step (ACmd e (CCommit msg)) w)) <> OPanic.
Proof.
  intros e msg w. destruct (step (ACmd e (CCommit msg)) w) as [[w' o] tr] eqn:Hstep. cbn [fst snd].
  destruct (commit_outcome e msg w w' o tr Hstep) as [->|[-> _]]; discriminate.
Qed.

(* a successful commit, taken apart *)
Theorem commit_success_inv : forall e msg w w' out tr,
  step (ACmd e (CCommit msg)) w = (w', OOk out, tr) ->
  out = [] /\ w_inited w = true /\
  exists c root subs cm,
    ctx_of w = Some c /\ gate_open w c /\
    (tip_of w = None -> valid_branch_name (w_head w) = true) /\
    write_tree_top (idx_of w) = Some (root, subs) /\
    parse_commit (commit_data e c msg w root) = Some cm /\
    w' = after_commit e c msg w root subs /\
    tr = do_commit_trace e c msg w root subs.
Proof.
  intros e msg w w' out tr Hstep.
  destruct (commit_outcome e msg w w' (OOk out) tr Hstep) as [Ho|[Ho Hrest]]; [discriminate Ho|].
  injection Ho as ->. split; [reflexivity | exact Hrest].
Qed.

(* on a world satisfying the history invariants, with a current branch whose
   snapshot reads and a commit text that reads back: `commit` succeeds EXACTLY
   when there is an identity and the staging area differs from HEAD's snapshot *)
Theorem commit_succeeds_iff : forall e msg w c hid s,
  GoodW w -> w_inited w = true -> ctx_of w = Some c ->
  tip_of w = Some hid -> snapshot (w_objs w) hid = Some s ->
  (forall root subs, write_tree_top (idx_of w) = Some (root, subs) ->
                     parse_commit (commit_data e c msg w root) <> None) ->
  ((exists out, snd (fst (step (ACmd e (CCommit msg)) w)) = OOk out) <->
   (user_set (x_l c) (x_g c) = true /\ s <> idx_of w)).
Proof.
  intros e msg w c hid s Hg Hi Hx Ht Hs Hp. split.
  - intros [out Ho].
    destruct (step (ACmd e (CCommit msg)) w) as [[w' o] tr] eqn:Hstep. cbn [fst snd] in Ho. subst o.
    destruct (commit_success_inv e msg w w' out tr Hstep)
      as (_ & _ & c' & root' & subs' & cm & Hx' & [Hu Hgate] & _).
    rewrite Hx in Hx'. injection Hx' as <-. split; [exact Hu|].
    intros ->.
    pose proof (tip_refs_nonempty w hid Ht) as Hr.
    destruct (w_refs w) as [|kv rs]; [contradiction Hr; reflexivity|].
    destruct Hgate as (ns & Hn & Hd).
    destruct (head_nodes_snapshot w c hid _ Hx Ht Hs) as (cm0 & d & ns0 & _ & Hgc & Hk & Hw & Hn0 & _).
    rewrite Hn in Hn0. injection Hn0 as <-.
    apply Hd. apply (commit_guard w hid cm0 d ns Hg Hgc Hk Hw). exact Hs.
  - intros [Hu Hne].
    destruct (write_tree_fuel_any (idx_of w)) as [[root subs] Hw].
    destruct (parse_commit (commit_data e c msg w root)) as [cm|] eqn:Ep.
    + exists []. rewrite (commit_succeeds_if_text_reads e msg w c hid s root subs cm); try assumption.
      reflexivity.
    + exfalso. exact (Hp root subs Hw Ep).
Qed.

(* ================================================================== *)
(** * 2. The exact output of `status` *)

(* the 'Changes to be committed' section: one line per reported difference *)
Definition staged_lines (w : world) (ns : list node) : list bytes :=
  map (fun d => dkind_tag (fst d) ++ snd d) (diff_with_tree (idx_of w) ns).

(* the rest of the report: modified / deleted / untracked work-tree files *)
Definition unstaged_lines (w : world) (c : ctx) : list bytes :=
  let idx := idx_of w in
  let vis := filter (fun kv => visible w (x_pats c) (fst kv)) (w_files w) in
  let untracked := filter (fun kv => negb (tracked w (fst kv))) vis in
  let modified :=
    filter (fun kv => match get_entry idx (fst kv) with
                      | Some (_, e) => negb (bytes_eqb (e_id e) (obj_id KBlob (snd kv)))
                      | None => false
                      end) vis in
  let deleted := filter (fun e => match wt_stat w (e_path e) with SFile => false | _ => true end) idx in
  map (fun kv => str "modified "%string ++ fst kv) modified
  ++ map (fun e => str "deleted "%string ++ e_path e) deleted
  ++ map (fun kv => str "untracked "%string ++ fst kv) untracked.

(* the nodes `status` compares the staging area with: none before the first
   commit of the current branch, HEAD's snapshot afterwards *)
Definition status_nodes (c : ctx) (w : world) : option (list node) :=
  match x_headc c with
  | None => Some []
  | Some _ => head_nodes c w
  end.

Lemma cmd_status_runs : forall c w ns,
  status_nodes c w = Some ns ->
  runs (cmd_status c) w (Ok (staged_lines w ns ++ unstaged_lines w c)) [].
Proof.
  intros c w ns Hn. unfold cmd_status. rstep. unfold status_nodes in Hn.
  destruct (x_headc c) as [hc|] eqn:Ex.
  - apply (head_tree_nodes_runs c w ns); [exact Hn|].
    unfold staged_lines, unstaged_lines. exact (runs_ret _ _ _).
  - injection Hn as <-. unfold head_tree_nodes. apply runs_assoc. rstep. rewrite Ex. rstep.
    unfold staged_lines, unstaged_lines. exact (runs_ret _ _ _).
Qed.

Lemma cmd_status_fails : forall c w,
  status_nodes c w = None -> runs (cmd_status c) w Err [].
Proof.
  intros c w Hn. unfold cmd_status. rstep. unfold status_nodes in Hn.
  destruct (x_headc c) as [hc|] eqn:Ex; [|discriminate Hn].
  apply head_tree_nodes_fails; [rewrite Ex; discriminate | exact Hn].
Qed.

(* `status` never writes: the world is unchanged and the trace empty *)
Theorem status_step : forall e w c ns,
  w_inited w = true -> ctx_of w = Some c -> status_nodes c w = Some ns ->
  step (ACmd e CStatus) w = (w, OOk (staged_lines w ns ++ unstaged_lines w c), []).
Proof.
  intros e w c ns Hi Hx Hn.
  rewrite (step_loaded e CStatus w c); [|discriminate | exact Hi | exact Hx].
  cbn [dispatch]. rewrite (cmd_status_runs c w ns Hn []). reflexivity.
Qed.

Theorem status_step_refused : forall e w,
  w_inited w = false \/ ctx_of w = None \/
  (exists c, ctx_of w = Some c /\ status_nodes c w = None) ->
  step (ACmd e CStatus) w = (w, OErr, []).
Proof.
  intros e w [Hi|[Hx|(c & Hx & Hn)]].
  - apply step_not_loaded; [discriminate | left; exact Hi].
  - apply step_not_loaded; [discriminate | right; exact Hx].
  - destruct (w_inited w) eqn:Hi; [|apply step_not_loaded; [discriminate | left; exact Hi]].
    rewrite (step_loaded e CStatus w c); [|discriminate | exact Hi | exact Hx].
    cbn [dispatch]. rewrite (cmd_status_fails c w Hn []). reflexivity.
Qed.

Theorem status_never_writes : forall e w, exists o, step (ACmd e CStatus) w = (w, o, []).
Proof.
  intros e w. destruct (w_inited w) eqn:Hi.
  - destruct (ctx_of w) as [c|] eqn:Hx.
    + destruct (status_nodes c w) as [ns|] eqn:Hn.
      * eexists. apply (status_step e w c ns); assumption.
      * exists OErr. apply status_step_refused. right. right. exists c. auto.
    + exists OErr. apply status_step_refused. auto.
  - exists OErr. apply status_step_refused. auto.
Qed.

(* ---------- which lines form the staged section ---------- *)
Definition is_staged_line (l : bytes) : bool := is_prefix (str "staged-"%string) l.

Lemma staged_tag_line : forall k p, is_staged_line (dkind_tag k ++ p) = true.
Proof. intros k p. destruct k; reflexivity. Qed.

Lemma filter_map_all : forall (A B : Type) (P : B -> bool) (f : A -> B) l,
  (forall x, P (f x) = true) -> filter P (map f l) = map f l.
Proof.
  intros A B P f l H. induction l as [|x l IH]; [reflexivity|].
  cbn [map filter]. rewrite H, IH. reflexivity.
Qed.

Lemma filter_map_none : forall (A B : Type) (P : B -> bool) (f : A -> B) l,
  (forall x, P (f x) = false) -> filter P (map f l) = [].
Proof.
  intros A B P f l H. induction l as [|x l IH]; [reflexivity|].
  cbn [map filter]. rewrite H, IH. reflexivity.
Qed.

Lemma filter_app_l : forall (A : Type) (P : A -> bool) a b,
  filter P (a ++ b) = filter P a ++ filter P b.
Proof.
  intros A P a b. induction a as [|x a IH]; [reflexivity|].
  cbn [app filter]. destruct (P x); [cbn [app]; rewrite IH|]; auto.
Qed.

Lemma unstaged_not_staged : forall w c, filter is_staged_line (unstaged_lines w c) = [].
Proof.
  intros w c. unfold unstaged_lines. cbv zeta. rewrite !filter_app_l.
  rewrite !filter_map_none; [reflexivity | | |]; intro x; reflexivity.
Qed.

Lemma unstaged_line_not_staged : forall w c l, In l (unstaged_lines w c) -> is_staged_line l = false.
Proof.
  intros w c l Hin. destruct (is_staged_line l) eqn:E; [|reflexivity].
  assert (H : In l (filter is_staged_line (unstaged_lines w c))) by (apply filter_In; auto).
  rewrite unstaged_not_staged in H. destruct H.
Qed.

(* the lines of the report that start with "staged-" are exactly the lines
   made from [dkind_tag], in the order of [diff_with_tree] *)
Theorem staged_section_is_filter : forall w c ns,
  filter is_staged_line (staged_lines w ns ++ unstaged_lines w c) = staged_lines w ns.
Proof.
  intros w c ns. rewrite filter_app_l, unstaged_not_staged, app_nil_r.
  unfold staged_lines. apply filter_map_all. intros [k p]. apply staged_tag_line.
Qed.

(* the kind and the path can be read back from a line: the three tags are
   distinct and none is a prefix of another *)
Lemma staged_line_inj : forall k p k' p',
  dkind_tag k ++ p = dkind_tag k' ++ p' -> k = k' /\ p = p'.
Proof.
  intros k p k' p' H. destruct k, k'; try (split; [reflexivity|]); try discriminate H.
  all: repeat (injection H as H); exact H.
Qed.

(* ================================================================== *)
(** * 2b. (G3) The staged section is exact *)

(* how a path is classified from its entry in the HEAD snapshot and its
   entry in the staging area *)
Definition classify (old new : option bytes) : option dkind :=
  match old, new with
  | Some a, Some b => if bytes_eqb a b then None else Some DModified
  | Some _, None => Some DDeleted
  | None, Some _ => Some DNew
  | None, None => None
  end.

Lemma stg_of_path : forall es p, Canonical es -> In p (map e_path es) -> exists id, stg es p = Some id.
Proof.
  intros es p Hc Hin. destruct (stg es p) as [id|] eqn:E; [exists id; reflexivity|].
  apply (stg_none_iff es p Hc) in E. contradiction.
Qed.

Lemma stg_of_entry : forall es e, Canonical es -> In e es -> stg es (e_path e) = Some (e_id e).
Proof.
  intros es e Hc Hin. apply (stg_some_iff es (e_path e) (e_id e) Hc).
  rewrite <- entry_eta. exact Hin.
Qed.

(* [diff_exact] read through the two look-ups: the report holds (k, p) exactly
   when p's entry in the snapshot and p's entry in the staging area classify
   as k *)
Theorem diff_classifies : forall es its,
  Canonical es -> Forall wf_item its -> Canonical (flat_items [] its) ->
  forall k p,
  In (k, p) (diff_with_tree es (map node_of its)) <->
  classify (stg (flat_items [] its) p) (stg es p) = Some k.
Proof.
  intros es its Hes Hwf Hhs k p. rewrite (diff_exact es its Hes Hwf Hhs k p).
  set (hs := flat_items [] its) in *. split.
  - intros [(-> & Hin & Hn)|[(-> & a & b & Ha & Hb & Hpa & Hpb & Hne)|(-> & Hin & Hn)]].
    + destruct (stg_of_path hs p Hhs Hin) as [id ->].
      apply (stg_none_iff es p Hes) in Hn. rewrite Hn. reflexivity.
    + pose proof (stg_of_entry es a Hes Ha) as Sa. pose proof (stg_of_entry hs b Hhs Hb) as Sb.
      rewrite Hpa in Sa. rewrite Hpb in Sb. rewrite Sa, Sb. cbn [classify].
      destruct (bytes_eqb (e_id b) (e_id a)) eqn:E; [|reflexivity].
      apply bytes_eqb_eq in E. exfalso. apply Hne. symmetry. exact E.
    + destruct (stg_of_path es p Hes Hin) as [id ->].
      apply (stg_none_iff hs p Hhs) in Hn. rewrite Hn. reflexivity.
  - intro Hc.
    destruct (stg hs p) as [a|] eqn:Sa; destruct (stg es p) as [b|] eqn:Sb; cbn [classify] in Hc.
    + destruct (bytes_eqb a b) eqn:E; [discriminate Hc|]. injection Hc as <-.
      apply bytes_eqb_neq in E.
      apply (stg_some_iff hs p a Hhs) in Sa. apply (stg_some_iff es p b Hes) in Sb.
      right. left. split; [reflexivity|]. exists (mkE b p), (mkE a p).
      repeat split; try assumption. cbn [e_id]. intro H. apply E. symmetry. exact H.
    + injection Hc as <-. left. split; [reflexivity|].
      apply (stg_some_iff hs p a Hhs) in Sa. apply (stg_none_iff es p Hes) in Sb.
      split; [|exact Sb]. apply in_map_iff. exists (mkE a p). split; [reflexivity | exact Sa].
    + injection Hc as <-. right. right. split; [reflexivity|].
      apply (stg_some_iff es p b Hes) in Sb. apply (stg_none_iff hs p Hhs) in Sa.
      split; [|exact Sa]. apply in_map_iff. exists (mkE b p). split; [reflexivity | exact Sb].
    + discriminate Hc.
Qed.

Lemma classify_none_iff : forall old new, classify old new = None <-> old = new.
Proof.
  intros [a|] [b|]; cbn [classify]; split; intro H; try discriminate H; try reflexivity.
  - destruct (bytes_eqb a b) eqn:E; [|discriminate H]. apply bytes_eqb_eq in E. subst. reflexivity.
  - injection H as ->. rewrite bytes_eqb_refl. reflexivity.
Qed.

(* a path is listed exactly when its staged entry differs from the snapshot's *)
Corollary diff_lists_differences : forall es its,
  Canonical es -> Forall wf_item its -> Canonical (flat_items [] its) ->
  forall p,
  In p (map snd (diff_with_tree es (map node_of its))) <-> stg es p <> stg (flat_items [] its) p.
Proof.
  intros es its Hes Hwf Hhs p. split.
  - intros Hin Heq. apply in_map_iff in Hin. destruct Hin as [[k p'] [Hp Hin]]. cbn [snd] in Hp. subst p'.
    apply (diff_classifies es its Hes Hwf Hhs) in Hin.
    assert (Hn : classify (stg (flat_items [] its) p) (stg es p) = None).
    { apply classify_none_iff. symmetry. exact Heq. }
    rewrite Hn in Hin. discriminate Hin.
  - intro Hne. destruct (classify (stg (flat_items [] its) p) (stg es p)) as [k|] eqn:E.
    + apply (diff_classifies es its Hes Hwf Hhs) in E.
      apply in_map_iff. exists (k, p). split; [reflexivity | exact E].
    + apply classify_none_iff in E. exfalso. apply Hne. symmetry. exact E.
Qed.

(* ---------- every path is listed at most once ---------- *)
Lemma nodup_flat_map_paths : forall (f : entry -> list (dkind * bytes)) (l : list entry),
  (forall x k p, In (k, p) (f x) -> p = e_path x) ->
  (forall x, length (f x) <= 1) ->
  NoDup (map e_path l) -> NoDup (map snd (flat_map f l)).
Proof.
  intros f l Hp Hlen. induction l as [|x l IH]; intro Hnd; cbn [flat_map map]; [constructor|].
  cbn [map] in Hnd. inversion Hnd as [|? ? Hx Hl]; subst.
  rewrite map_app. specialize (IH Hl).
  assert (Hsub : forall q, In q (map snd (flat_map f l)) -> In q (map e_path l)).
  { intros q Hq. apply in_map_iff in Hq. destruct Hq as [[k q'] [E Hq]]. cbn [snd] in E. subst q'.
    apply in_flat_map in Hq. destruct Hq as [y [Hy Hq]].
    rewrite (Hp y k q Hq). apply in_map. exact Hy. }
  specialize (Hlen x). destruct (f x) as [|[k p] [|z r]] eqn:Ef; cbn [length] in Hlen; try lia.
  - exact IH.
  - cbn [map snd app]. constructor; [|exact IH].
    intro Hq. apply Hsub in Hq. rewrite (Hp x k p) in Hq; [contradiction|].
    rewrite Ef. left. reflexivity.
Qed.

Lemma nodup_app_intro : forall (A : Type) (a b : list A),
  NoDup a -> NoDup b -> (forall x, In x a -> In x b -> False) -> NoDup (a ++ b).
Proof.
  intros A a b Ha Hb Hd. induction a as [|x a IH]; [exact Hb|].
  inversion Ha as [|? ? Hx Ha']; subst. cbn [app]. constructor.
  - intro Hin. apply in_app_or in Hin. destruct Hin as [Hin|Hin]; [exact (Hx Hin)|].
    apply (Hd x); [left; reflexivity | exact Hin].
  - apply IH; [exact Ha'|]. intros y Hy. apply Hd. right. exact Hy.
Qed.

Theorem diff_paths_nodup : forall es its,
  Canonical es -> Forall wf_item its -> Canonical (flat_items [] its) ->
  NoDup (map snd (diff_with_tree es (map node_of its))).
Proof.
  intros es its Hes Hwf Hhs.
  rewrite diff_with_tree_eq, (flatten_nodes (S (ldepth its)) its [] (Nat.lt_succ_diag_r _) Hwf).
  rewrite map_app.
  assert (H1 : NoDup (map snd (flat_map (gone_of es) (flat_items [] its)))).
  { apply nodup_flat_map_paths.
    - intros g k p Hin. apply (gone_of_spec es g k p Hes) in Hin.
      destruct Hin as [(_ & Hp & _)|(_ & Hp & _)]; exact Hp.
    - intro g. unfold gone_of. destruct (get_entry es (e_path g)) as [[i e]|]; [|cbn; lia].
      destruct (bytes_eqb (e_id e) (e_id g)); cbn; lia.
    - apply Canonical_NoDup_paths. exact Hhs. }
  assert (H2 : NoDup (map snd (flat_map (fresh_of (map node_of its)) es))).
  { apply nodup_flat_map_paths.
    - intros e k p Hin. apply (fresh_of_spec its e k p Hwf Hhs) in Hin. apply Hin.
    - intro e. unfold fresh_of. destruct (get_node (map node_of its) (e_path e)) as [n|]; [|cbn; lia].
      destruct (is_leaf n); cbn; lia.
    - apply Canonical_NoDup_paths. exact Hes. }
  (* the two halves are disjoint: the first lists snapshot paths, the second
     paths outside the snapshot *)
  apply nodup_app_intro; [exact H1 | exact H2|].
  intros q Hq1 Hq2.
  apply in_map_iff in Hq1. destruct Hq1 as [[k1 q1] [E1 Hq1]]. cbn [snd] in E1. subst q1.
  apply in_flat_map in Hq1. destruct Hq1 as [g [Hg Hq1]].
  apply (gone_of_spec es g k1 q Hes) in Hq1.
  assert (Hqg : q = e_path g) by (destruct Hq1 as [(_ & Hp & _)|(_ & Hp & _)]; exact Hp).
  apply in_map_iff in Hq2. destruct Hq2 as [[k2 q2] [E2 Hq2]]. cbn [snd] in E2. subst q2.
  apply in_flat_map in Hq2. destruct Hq2 as [e [He Hq2]].
  apply (fresh_of_spec its e k2 q Hwf Hhs) in Hq2. destruct Hq2 as (_ & _ & Hn).
  apply Hn. unfold paths_of. rewrite Hqg. apply in_map. exact Hg.
Qed.

(* ---------- the step ---------- *)
(* the lines of the whole report that carry a staged tag *)
Lemma staged_line_in_report : forall w c ns k p,
  In (dkind_tag k ++ p) (staged_lines w ns ++ unstaged_lines w c) <->
  In (k, p) (diff_with_tree (idx_of w) ns).
Proof.
  intros w c ns k p. split.
  - intro Hin. apply in_app_or in Hin. destruct Hin as [Hin|Hin].
    + unfold staged_lines in Hin. apply in_map_iff in Hin. destruct Hin as [[k' p'] [E Hin]].
      cbn [fst snd] in E. apply staged_line_inj in E. destruct E as [-> ->]. exact Hin.
    + apply unstaged_line_not_staged in Hin. rewrite staged_tag_line in Hin. discriminate Hin.
  - intro Hin. apply in_or_app. left. unfold staged_lines.
    apply in_map_iff. exists (k, p). split; [reflexivity | exact Hin].
Qed.

(* (G3) `status` on a world satisfying the history invariants, with a current
   branch whose tip is the commit [hid] with snapshot [s]:
   - it changes nothing and performs no effect;
   - its lines starting with "staged-" are, in order, the lines made from the
     comparison of the staging area with HEAD's snapshot;
   - that comparison holds (k, p) exactly when the entry of p in [s] and the
     staged entry of p classify as k: deleted = in [s], not staged; new =
     staged, not in [s]; modified = in both with different ids; a path whose
     staged entry is the one of [s] is not listed; no path is listed twice *)
Theorem status_staged_section_exact : forall e w c hid s,
  GoodW w -> w_inited w = true -> ctx_of w = Some c ->
  tip_of w = Some hid -> snapshot (w_objs w) hid = Some s ->
  exists ns,
    head_nodes c w = Some ns /\ flatten [] ns = s /\
    let out := staged_lines w ns ++ unstaged_lines w c in
    step (ACmd e CStatus) w = (w, OOk out, []) /\
    filter is_staged_line out =
      map (fun d => dkind_tag (fst d) ++ snd d) (diff_with_tree (idx_of w) ns) /\
    (forall k p, In (dkind_tag k ++ p) out <-> In (k, p) (diff_with_tree (idx_of w) ns)) /\
    (forall k p, In (k, p) (diff_with_tree (idx_of w) ns) <->
                 classify (stg s p) (staged w p) = Some k) /\
    (forall k p, In (k, p) (diff_with_tree (idx_of w) ns) <->
       (k = DDeleted /\ In p (map e_path s) /\ ~ In p (map e_path (idx_of w))) \/
       (k = DModified /\ exists a b, In a (idx_of w) /\ In b s /\
                                     e_path a = p /\ e_path b = p /\ e_id a <> e_id b) \/
       (k = DNew /\ In p (map e_path (idx_of w)) /\ ~ In p (map e_path s))) /\
    (forall p, In p (map snd (diff_with_tree (idx_of w) ns)) <-> staged w p <> stg s p) /\
    NoDup (map snd (diff_with_tree (idx_of w) ns)).
Proof.
  intros e w c hid s Hg Hi Hx Ht Hs.
  destruct (head_nodes_snapshot w c hid s Hx Ht Hs) as (cm & d & ns & Hc & Hgc & Hk & Hw & Hn & Hf).
  pose proof Hg as (_ & [Hcan _] & Hsn & _).
  destruct (walked_NsGood _ _ _ _ _ Hsn Hgc Hk Hw) as (its & -> & Hwf & Hcan' & _).
  assert (Hs' : s = flat_items [] its) by (rewrite <- Hf; apply flatten_items; exact Hwf).
  exists (map node_of its). split; [exact Hn|]. split; [exact Hf|]. cbv zeta.
  split; [apply status_step; [exact Hi | exact Hx|]; unfold status_nodes; rewrite Hc; exact Hn|].
  split; [apply staged_section_is_filter|].
  split; [apply staged_line_in_report|].
  rewrite Hs'.
  split; [intros k p; rewrite staged_stg; apply (diff_classifies _ its Hcan Hwf Hcan')|].
  split; [apply (diff_exact _ its Hcan Hwf Hcan')|].
  split; [intro p; rewrite staged_stg; apply (diff_lists_differences _ its Hcan Hwf Hcan')|].
  apply (diff_paths_nodup _ its Hcan Hwf Hcan').
Qed.

(* before the first commit of the current branch everything staged is new *)
Lemma get_node_nil : forall p, get_node [] p = None.
Proof. intro p. unfold get_node. cbn [Tree.get_node_fuel]. destruct (split1 c_slash p) as [nm rest]. reflexivity. Qed.

Lemma diff_with_no_tree : forall es, diff_with_tree es [] = map (fun en => (DNew, e_path en)) es.
Proof.
  intro es. rewrite diff_with_tree_eq. cbn [flatten flat_map app].
  induction es as [|en es IH]; [reflexivity|].
  cbn [flat_map map]. rewrite IH. unfold fresh_of. rewrite get_node_nil. reflexivity.
Qed.

Theorem status_before_first_commit : forall e w c,
  w_inited w = true -> ctx_of w = Some c -> tip_of w = None ->
  step (ACmd e CStatus) w =
  (w, OOk (map (fun en => str "staged-new "%string ++ e_path en) (idx_of w) ++ unstaged_lines w c), []).
Proof.
  intros e w c Hi Hx Ht.
  rewrite (status_step e w c []); [|exact Hi | exact Hx|].
  - unfold staged_lines. rewrite diff_with_no_tree, map_map. reflexivity.
  - unfold status_nodes. rewrite (loaded_no_head w c Hx Ht). reflexivity.
Qed.

(* ================================================================== *)
(** * 3. (G2) Immediately after a successful commit the staged section is empty *)

(* the context the next command loads after a command that left both
   configuration files and the work tree alone *)
Lemma ctx_of_frame : forall w w' c hc,
  ctx_of w = Some c ->
  w_lcfg w' = w_lcfg w -> w_gcfg w' = w_gcfg w -> w_files w' = w_files w ->
  head_commit w' = Some hc ->
  ctx_of w' = Some (mkCtx (x_l c) (x_g c) hc (x_pats c)).
Proof.
  intros w w' c hc Hx El Eg Ef Hh. unfold ctx_of in *. rewrite El, Eg, Ef, Hh.
  destruct (cfg_of (w_gcfg w)) as [g|]; [|discriminate Hx].
  destruct (cfg_of (w_lcfg w)) as [l|]; [|discriminate Hx].
  destruct (head_commit w) as [hc0|]; [|discriminate Hx].
  destruct (ign_load (am_get (w_files w) (str ".goitignore"%string))) as [pats|]; [|discriminate Hx].
  injection Hx as <-. reflexivity.
Qed.

(* Any successful commit — whatever made it succeed — on a world satisfying
   the history invariants, when no SHA-1 collision was met and no object of
   2^63 bytes or more is held afterwards:
   the next command loads the new commit as HEAD, HEAD's snapshot is the
   staging area, the comparison `status` and `commit` make is empty, the
   report of `status` holds no "staged-" line and a second `commit` is refused *)
Theorem status_after_commit_clean : forall e msg w w' out tr,
  GoodW w -> step (ACmd e (CCommit msg)) w = (w', OOk out, tr) ->
  w_coll w' = false -> SmallStore (w_objs w') ->
  GoodW w' /\ w_inited w' = true /\ idx_of w' = idx_of w /\
  exists c' cid cm' ns',
    ctx_of w' = Some c' /\ tip_of w' = Some cid /\ x_headc c' = Some (cid, cm') /\
    snapshot (w_objs w') cid = Some (idx_of w') /\
    head_nodes c' w' = Some ns' /\ flatten [] ns' = idx_of w' /\
    diff_with_tree (idx_of w') ns' = [] /\
    (forall e', step (ACmd e' CStatus) w' = (w', OOk (unstaged_lines w' c'), [])) /\
    (forall l, In l (unstaged_lines w' c') -> is_staged_line l = false) /\
    (forall e' msg', step (ACmd e' (CCommit msg')) w' = (w', OErr, [])).
Proof.
  intros e msg w w' out tr Hg Hstep Hc Hsm.
  assert (Hg' : GoodW w').
  { assert (Hw' : step_w (ACmd e (CCommit msg)) w = w') by (unfold step_w; rewrite Hstep; reflexivity).
    rewrite <- Hw'. apply good_step; [exact Logic.I | exact Hg | rewrite Hw'; exact Hc | rewrite Hw'; exact Hsm]. }
  destruct (commit_snapshot_step e msg w w' out tr Hg Hstep Hc Hsm) as (cid & Hr & Hsn & Hidx).
  destruct (commit_success_inv e msg w w' out tr Hstep)
    as (_ & Hi & c & root & subs & cm & Hx & _ & _ & _ & _ & Hw' & _).
  destruct (commit_spec_frame e c msg w root subs)
    as (_ & _ & _ & _ & _ & Ef & _ & El & Egc & Ein & _).
  rewrite <- Hw' in Ef, El, Egc, Ein.
  split; [exact Hg'|]. split; [rewrite Ein; exact Hi|]. split; [exact Hidx|].
  rewrite <- Hidx in Hsn.
  destruct (snapshot_inv _ _ _ Hsn) as (cm' & d & ns' & Hgc & Hk & Hwk & Hfl).
  assert (Hh : head_commit w' = Some (Some (cid, cm'))).
  { unfold head_commit. rewrite Hr, Hgc. reflexivity. }
  pose proof (ctx_of_frame w w' c _ Hx El Egc Ef Hh) as Hx'.
  set (c' := mkCtx (x_l c) (x_g c) (Some (cid, cm')) (x_pats c)) in *.
  assert (Hn : head_nodes c' w' = Some ns').
  { unfold head_nodes, c'. cbn [x_headc]. rewrite Hk. exact Hwk. }
  assert (Hd : diff_with_tree (idx_of w') ns' = []).
  { apply (commit_guard w' cid cm' d ns' Hg' Hgc Hk Hwk). exact Hsn. }
  exists c', cid, cm', ns'.
  split; [exact Hx'|]. split; [exact Hr|]. split; [reflexivity|]. split; [exact Hsn|].
  split; [exact Hn|]. split; [symmetry; exact Hfl|]. split; [exact Hd|].
  split; [|split].
  - intro e'. rewrite (status_step e' w' c' ns'); [| rewrite Ein; exact Hi | exact Hx' |].
    + unfold staged_lines. rewrite Hd. reflexivity.
    + unfold status_nodes, c'. cbn [x_headc]. exact Hn.
  - apply unstaged_line_not_staged.
  - intros e' msg'. apply (commit_nothing_refused e' msg' w' cid Hg' Hr Hsn).
Qed.

(* (G1)+(G2) in one statement: a staged difference, an identity, a commit text
   in the domain of C12, the size guards: `commit` answers Ok and the `status`
   that follows lists nothing as staged *)
Theorem commit_then_status : forall e msg w c hid s root subs,
  GoodW w -> w_inited w = true -> ctx_of w = Some c ->
  tip_of w = Some hid -> snapshot (w_objs w) hid = Some s -> s <> idx_of w ->
  user_set (x_l c) (x_g c) = true ->
  sign_ok (user_name (x_l c) (x_g c)) (user_email (x_l c) (x_g c)) (e_time e) (e_off e) ->
  write_tree_top (idx_of w) = Some (root, subs) ->
  let w' := after_commit e c msg w root subs in
  w_coll w' = false -> SmallStore (w_objs w') ->
  step (ACmd e (CCommit msg)) w = (w', OOk [], do_commit_trace e c msg w root subs) /\
  exists c', ctx_of w' = Some c' /\
    forall e', exists out',
      step (ACmd e' CStatus) w' = (w', OOk out', []) /\
      filter is_staged_line out' = [] /\
      (forall l, In l out' -> is_staged_line l = false).
Proof.
  intros e msg w c hid s root subs Hg Hi Hx Ht Hs Hne Hu Hso Hw w' Hc Hsm.
  pose proof (commit_succeeds_on_any_staged_difference e msg w c hid s root subs
                Hg Hi Hx Ht Hs Hne Hu Hso Hw) as Hstep.
  split; [exact Hstep|].
  destruct (status_after_commit_clean e msg w w' [] _ Hg Hstep Hc Hsm)
    as (_ & _ & _ & c' & cid & cm' & ns' & Hx' & _ & _ & _ & _ & _ & _ & Hst & Hno & _).
  exists c'. split; [exact Hx'|]. intro e'. exists (unstaged_lines w' c').
  split; [apply Hst|]. split; [apply unstaged_not_staged | exact Hno].
Qed.

(* ================================================================== *)
(** * 4. (G4) On every world a history reaches *)

(* nothing exists before `init`: a world without .goit has no branch and no
   index file, along every history *)
Lemma inited_effect_mono : forall ef w, w_inited w = true -> w_inited (apply_effect ef w) = true.
Proof. intros ef w H. destruct ef; autorewrite with wfields; try exact H; reflexivity. Qed.

Lemma inited_trace_mono : forall tr w, w_inited w = true -> w_inited (apply_effects tr w) = true.
Proof.
  induction tr as [|ef tr IH]; intros w H; [exact H|].
  rewrite apply_effects_cons. apply IH. apply inited_effect_mono. exact H.
Qed.

Definition Blank (w : world) : Prop := w_inited w = false -> w_refs w = [] /\ w_index w = None.

Lemma Blank_step : forall a w, Blank w -> Blank (step_w a w).
Proof.
  intros [e c|u] w Hb.
  - destruct (w_inited w) eqn:Hi.
    + intro Hf. exfalso.
      destruct (step_w_eq (ACmd e c) w) as [tr Htr]. rewrite Htr in Hf.
      rewrite (inited_trace_mono tr w Hi) in Hf. discriminate Hf.
    + destruct c; try (unfold step_w; rewrite step_not_loaded; [exact Hb | discriminate | left; exact Hi]).
      unfold Blank, step_w. rewrite step_cmd_eq. cbn [fst].
      unfold run_cmd, cmd_init. ev. rewrite Hi. cbn [negb]. ev.
      unfold ret. cbn [snd ms_w]. rewrite w_inited_EInit. intro Hf. discriminate Hf.
  - unfold step_w. cbn [step fst]. intro Hf. rewrite w_inited_apply_edit in Hf.
    rewrite w_refs_apply_edit, w_index_apply_edit. apply Hb. exact Hf.
Qed.

Lemma Blank_run : forall h w, Blank w -> Blank (run h w).
Proof.
  induction h as [|a h IH]; intros w Hb; [exact Hb|].
  rewrite run_cons. apply IH. apply Blank_step. exact Hb.
Qed.

Theorem reachable_inited : forall w,
  Reachable w -> w_refs w <> [] \/ w_index w <> None -> w_inited w = true.
Proof.
  intros w (h & _ & ->) Hne.
  assert (Hb : Blank (run h w_empty)).
  { apply Blank_run. intros _. split; reflexivity. }
  destruct (w_inited (run h w_empty)) eqn:Hi; [reflexivity|].
  destruct (Hb Hi) as [Hr Hx]. destruct Hne as [Hne|Hne]; contradiction.
Qed.

Lemma idx_nonempty_index : forall w, idx_of w <> [] -> w_index w <> None.
Proof. intros w H E. unfold idx_of in H. rewrite E in H. apply H. reflexivity. Qed.

(* (G1) over histories.  What remains to be assumed is about the staging
   area, HEAD and the identity only:
   - the context loads (both configuration files and .goitignore read);
   - the current branch has a tip whose snapshot reads as [s];
   - [s] is not the staging area;
   - an identity is configured, and it and the clock are in the domain of C12
     (the message is any byte string).
   [w_coll w = false] and [SmallStore (w_objs w)] are the two conditions under
   which the invariants are known (no SHA-1 collision met, no stored object of
   2^63 bytes or more) *)
Theorem history_commit_succeeds : forall w e msg c hid s,
  Reachable w -> w_coll w = false -> SmallStore (w_objs w) ->
  ctx_of w = Some c ->
  tip_of w = Some hid -> snapshot (w_objs w) hid = Some s -> s <> idx_of w ->
  user_set (x_l c) (x_g c) = true ->
  sign_ok (user_name (x_l c) (x_g c)) (user_email (x_l c) (x_g c)) (e_time e) (e_off e) ->
  exists root subs,
    write_tree_top (idx_of w) = Some (root, subs) /\
    step (ACmd e (CCommit msg)) w =
    (after_commit e c msg w root subs, OOk [], do_commit_trace e c msg w root subs).
Proof.
  intros w e msg c hid s Hr Hc Hsm Hx Ht Hs Hne Hu Hso.
  apply (commit_succeeds_on_any_staged_difference_ex e msg w c hid s); try assumption.
  - apply reachable_good; assumption.
  - apply (reachable_inited w Hr). left. exact (tip_refs_nonempty w hid Ht).
Qed.

(* the first commit over histories *)
Theorem history_first_commit_succeeds : forall w e msg c,
  Reachable w -> ctx_of w = Some c ->
  w_refs w = [] -> idx_of w <> [] ->
  valid_branch_name (w_head w) = true ->
  user_set (x_l c) (x_g c) = true ->
  sign_ok (user_name (x_l c) (x_g c)) (user_email (x_l c) (x_g c)) (e_time e) (e_off e) ->
  exists root subs,
    write_tree_top (idx_of w) = Some (root, subs) /\
    step (ACmd e (CCommit msg)) w =
    (after_commit e c msg w root subs, OOk [], do_commit_trace e c msg w root subs).
Proof.
  intros w e msg c Hr Hx Hrf Hne Hv Hu Hso.
  destruct (write_tree_fuel_any (idx_of w)) as [[root subs] Hw].
  exists root, subs. split; [exact Hw|].
  apply first_commit_succeeds; try assumption.
  apply (reachable_inited w Hr). right. apply idx_nonempty_index. exact Hne.
Qed.

(* (G2) over histories: [h] ends with a successful commit *)
Theorem history_status_after_commit_clean : forall h e msg w' out tr,
  Forall action_ok h ->
  step (ACmd e (CCommit msg)) (run h w_empty) = (w', OOk out, tr) ->
  w_coll w' = false -> SmallStore (w_objs w') ->
  Reachable w' /\
  exists c' cid ns',
    ctx_of w' = Some c' /\ tip_of w' = Some cid /\
    snapshot (w_objs w') cid = Some (idx_of w') /\
    head_nodes c' w' = Some ns' /\ diff_with_tree (idx_of w') ns' = [] /\
    (forall e', step (ACmd e' CStatus) w' = (w', OOk (unstaged_lines w' c'), [])) /\
    (forall l, In l (unstaged_lines w' c') -> is_staged_line l = false) /\
    (forall e' msg', step (ACmd e' (CCommit msg')) w' = (w', OErr, [])).
Proof.
  intros h e msg w' out tr Hall Hstep Hc Hsm.
  assert (Hw' : w' = run (h ++ [ACmd e (CCommit msg)]) w_empty).
  { rewrite run_app. cbn [run fold_left]. unfold step_w. rewrite Hstep. reflexivity. }
  assert (Hr' : Reachable w').
  { exists (h ++ [ACmd e (CCommit msg)]). split; [|exact Hw'].
    apply Forall_app. split; [exact Hall|]. constructor; [exact Logic.I | constructor]. }
  split; [exact Hr'|].
  assert (Hg : GoodW (run h w_empty)).
  { apply good_run_strong; [exact Hall | |].
    - assert (Hc' : w_coll (run [ACmd e (CCommit msg)] (run h w_empty)) = false).
      { rewrite <- run_app, <- Hw'. exact Hc. }
      exact (run_coll_false_before _ _ Hc').
    - assert (Hext : store_ext (w_objs (run h w_empty)) (w_objs (run [ACmd e (CCommit msg)] (run h w_empty)))).
      { apply run_store_ext. rewrite <- run_app, <- Hw'. exact Hc. }
      rewrite <- run_app, <- Hw' in Hext. exact (SmallStore_ext _ _ Hext Hsm). }
  destruct (status_after_commit_clean e msg _ w' out tr Hg Hstep Hc Hsm)
    as (_ & _ & _ & c' & cid & cm' & ns' & Hx' & Ht' & _ & Hsn & Hn & _ & Hd & Hst & Hno & Hre).
  exists c', cid, ns'. repeat split; assumption.
Qed.

(* (G3) over histories *)
Theorem history_status_exact : forall w e c hid s,
  Reachable w -> w_coll w = false -> SmallStore (w_objs w) ->
  ctx_of w = Some c -> tip_of w = Some hid -> snapshot (w_objs w) hid = Some s ->
  exists ns,
    head_nodes c w = Some ns /\ flatten [] ns = s /\
    let out := staged_lines w ns ++ unstaged_lines w c in
    step (ACmd e CStatus) w = (w, OOk out, []) /\
    filter is_staged_line out =
      map (fun d => dkind_tag (fst d) ++ snd d) (diff_with_tree (idx_of w) ns) /\
    (forall k p, In (dkind_tag k ++ p) out <-> classify (stg s p) (staged w p) = Some k) /\
    (forall p, (exists k, In (dkind_tag k ++ p) out) <-> staged w p <> stg s p) /\
    NoDup (map snd (diff_with_tree (idx_of w) ns)).
Proof.
  intros w e c hid s Hr Hc Hsm Hx Ht Hs.
  assert (Hg : GoodW w) by (apply reachable_good; assumption).
  assert (Hi : w_inited w = true).
  { apply (reachable_inited w Hr). left. exact (tip_refs_nonempty w hid Ht). }
  destruct (status_staged_section_exact e w c hid s Hg Hi Hx Ht Hs)
    as (ns & Hn & Hf & Hstep & Hfil & Hline & Hcls & _ & Hdiff & Hnd).
  exists ns. split; [exact Hn|]. split; [exact Hf|]. cbv zeta in *.
  split; [exact Hstep|]. split; [exact Hfil|].
  split; [intros k p; rewrite Hline; apply Hcls|]. split; [|exact Hnd].
  intro p. rewrite <- Hdiff. split.
  - intros [k Hk]. apply Hline in Hk. apply in_map_iff. exists (k, p). auto.
  - intro Hin. apply in_map_iff in Hin. destruct Hin as [[k p'] [E Hin]]. cbn [snd] in E. subst p'.
    exists k. apply Hline. exact Hin.
Qed.

(* ================================================================== *)
(** * 5. Non-vacuity: every hypothesis above is met by a concrete history *)

(* init; identity; three files sharing the prefix "lib"; add; commit "first"
   (CommitCmdFacts.ex_hist, ex_msg); then: one file modified, one deleted, two
   created (one of them inside the directory), everything staged *)
Definition gx_env : env := mkEnv 1700000600 (-12600).
Definition gx_msg : bytes := str "second"%string ++ [c_nl; c_nl] ++ str "body"%string.
Definition gx_hist : list action :=
  CommitCmdFacts.ex_hist ++
  [ ACmd CommitCmdFacts.ex_env (CCommit CommitCmdFacts.ex_msg);
    AEdit (UWrite (str "lib.go"%string) (str "package lib // v2"%string ++ [c_nl]));
    AEdit (UDelete (str "lib-old"%string));
    AEdit (UWrite (str "lib/b"%string) (str "beta"%string ++ [c_nl]));
    AEdit (UWrite (str "lib.h"%string) (str "#pragma once"%string ++ [c_nl]));
    ACmd gx_env (CAdd [str "."%string; str "lib-old"%string]) ].

Definition gx_w : world := Eval vm_compute in run gx_hist w_empty.
Lemma gx_w_run : run gx_hist w_empty = gx_w.
Proof. vm_compute. reflexivity. Qed.

Definition gx_c : ctx :=
  Eval vm_compute in match ctx_of gx_w with Some c => c | None => mkCtx [] [] None [] end.
Definition gx_hid : bytes :=
  Eval vm_compute in match tip_of gx_w with Some i => i | None => [] end.
Definition gx_s : list entry :=
  Eval vm_compute in match snapshot (w_objs gx_w) gx_hid with Some s => s | None => [] end.

Example gx_actions_ok : Forall action_ok gx_hist.
Proof.
  unfold gx_hist, CommitCmdFacts.ex_hist. cbn [app].
  repeat (apply Forall_cons || apply Forall_nil); cbn [action_ok edit_ok]; try exact Logic.I.
  all: unfold valid_path; simpl; tf_valid.
Qed.

Example gx_reachable : Reachable gx_w.
Proof. exists gx_hist. split; [exact gx_actions_ok | symmetry; exact gx_w_run]. Qed.

Example gx_coll : w_coll gx_w = false.
Proof. vm_compute. reflexivity. Qed.

Example gx_small : SmallStore (w_objs gx_w).
Proof. apply small_store_b. vm_compute. reflexivity. Qed.

Example gx_good : GoodW gx_w.
Proof. apply reachable_good; [exact gx_reachable | exact gx_coll | exact gx_small]. Qed.

Example gx_inited : w_inited gx_w = true.
Proof. apply (reachable_inited gx_w gx_reachable). left. vm_compute. discriminate. Qed.

Example gx_ctx : ctx_of gx_w = Some gx_c.
Proof. vm_compute. reflexivity. Qed.

Example gx_tip : tip_of gx_w = Some gx_hid.
Proof. vm_compute. reflexivity. Qed.

Example gx_snapshot : snapshot (w_objs gx_w) gx_hid = Some gx_s.
Proof. vm_compute. reflexivity. Qed.

(* HEAD's snapshot and the staging area *)
Example gx_paths :
  map e_path gx_s = [str "lib-old"; str "lib.go"; str "lib/a"]%string /\
  map e_path (idx_of gx_w) = [str "lib.go"; str "lib.h"; str "lib/a"; str "lib/b"]%string.
Proof. split; vm_compute; reflexivity. Qed.

Example gx_differs : gx_s <> idx_of gx_w.
Proof. vm_compute. discriminate. Qed.

Example gx_user_set : user_set (x_l gx_c) (x_g gx_c) = true.
Proof. vm_compute. reflexivity. Qed.

Example gx_sign_ok : sign_ok (user_name (x_l gx_c) (x_g gx_c)) (user_email (x_l gx_c) (x_g gx_c))
                             (e_time gx_env) (e_off gx_env).
Proof.
  unfold sign_ok. split; [apply contains_byte_false; vm_compute; reflexivity|].
  split; [apply contains_byte_false; vm_compute; reflexivity|].
  split; [unfold valid_email; apply matches_spec; vm_compute; reflexivity|].
  cbn [e_time e_off gx_env]. split; [lia|]. split; [lia | reflexivity].
Qed.

(* (G1)/(G4): the theorem applies; and the same outcome by plain computation *)
Example gx_commit_by_theorem :
  exists root subs,
    write_tree_top (idx_of gx_w) = Some (root, subs) /\
    step (ACmd gx_env (CCommit gx_msg)) gx_w =
    (after_commit gx_env gx_c gx_msg gx_w root subs, OOk [],
     do_commit_trace gx_env gx_c gx_msg gx_w root subs).
Proof.
  exact (history_commit_succeeds gx_w gx_env gx_msg gx_c gx_hid gx_s
           gx_reachable gx_coll gx_small gx_ctx gx_tip gx_snapshot gx_differs
           gx_user_set gx_sign_ok).
Qed.

Definition gx_step : world * outcome * list effect :=
  Eval vm_compute in step (ACmd gx_env (CCommit gx_msg)) gx_w.
Definition gx_w' : world := Eval vm_compute in fst (fst gx_step).

Example gx_step_eq : step (ACmd gx_env (CCommit gx_msg)) gx_w = (gx_w', OOk [], snd gx_step).
Proof. vm_compute. reflexivity. Qed.

(* two trees, the commit, the branch, two journal lines, HEAD *)
Example gx_commit_computed : length (snd gx_step) = 7 /\ w_coll gx_w' = false.
Proof. split; vm_compute; reflexivity. Qed.

(* (G3): the staged section of `status` before the commit, by the theorem ... *)
Example gx_status_by_theorem :
  exists ns,
    head_nodes gx_c gx_w = Some ns /\ flatten [] ns = gx_s /\
    let out := staged_lines gx_w ns ++ unstaged_lines gx_w gx_c in
    step (ACmd gx_env CStatus) gx_w = (gx_w, OOk out, []) /\
    filter is_staged_line out =
      map (fun d => dkind_tag (fst d) ++ snd d) (diff_with_tree (idx_of gx_w) ns) /\
    (forall k p, In (dkind_tag k ++ p) out <-> classify (stg gx_s p) (staged gx_w p) = Some k) /\
    (forall p, (exists k, In (dkind_tag k ++ p) out) <-> staged gx_w p <> stg gx_s p) /\
    NoDup (map snd (diff_with_tree (idx_of gx_w) ns)).
Proof.
  exact (history_status_exact gx_w gx_env gx_c gx_hid gx_s
           gx_reachable gx_coll gx_small gx_ctx gx_tip gx_snapshot).
Qed.

(* ... and by computation: one deleted, one modified, two new (one of them
   inside the directory "lib" whose siblings "lib-old", "lib.go", "lib.h" sort
   between "lib" and "lib/"); the unchanged "lib/a" is not listed *)
Example gx_status_computed :
  match snd (fst (step (ACmd gx_env CStatus) gx_w)) with
  | OOk out => filter is_staged_line out
  | _ => []
  end = [ str "staged-deleted lib-old"; str "staged-modified lib.go";
          str "staged-new lib.h"; str "staged-new lib/b" ]%string.
Proof. vm_compute. reflexivity. Qed.

(* (G2): after the commit, by the theorem ... *)
Example gx_small' : SmallStore (w_objs gx_w').
Proof. apply small_store_b. vm_compute. reflexivity. Qed.

Example gx_clean_by_theorem :
  exists c' cid ns',
    ctx_of gx_w' = Some c' /\ tip_of gx_w' = Some cid /\
    snapshot (w_objs gx_w') cid = Some (idx_of gx_w') /\
    head_nodes c' gx_w' = Some ns' /\ diff_with_tree (idx_of gx_w') ns' = [] /\
    (forall e', step (ACmd e' CStatus) gx_w' = (gx_w', OOk (unstaged_lines gx_w' c'), [])) /\
    (forall l, In l (unstaged_lines gx_w' c') -> is_staged_line l = false) /\
    (forall e' msg', step (ACmd e' (CCommit msg')) gx_w' = (gx_w', OErr, [])).
Proof.
  destruct (status_after_commit_clean gx_env gx_msg gx_w gx_w' [] (snd gx_step)
              gx_good gx_step_eq (proj2 gx_commit_computed) gx_small')
    as (_ & _ & _ & c' & cid & cm' & ns' & H1 & H2 & _ & H3 & H4 & _ & H5 & H6 & H7 & H8).
  exists c', cid, ns'. repeat split; assumption.
Qed.

(* ... and by computation: the work tree is clean too, the report is empty *)
Example gx_clean_computed : step (ACmd gx_env CStatus) gx_w' = (gx_w', OOk [], []).
Proof. vm_compute. reflexivity. Qed.

(* the first commit: CommitCmdFacts.ex_w has no branch and three staged files *)
Example gx_first_commit_by_theorem :
  step (ACmd CommitCmdFacts.ex_env (CCommit CommitCmdFacts.ex_msg)) CommitCmdFacts.ex_w =
  (after_commit CommitCmdFacts.ex_env ex_c CommitCmdFacts.ex_msg CommitCmdFacts.ex_w ex_root ex_subs,
   OOk [],
   do_commit_trace CommitCmdFacts.ex_env ex_c CommitCmdFacts.ex_msg CommitCmdFacts.ex_w ex_root ex_subs).
Proof.
  apply first_commit_succeeds.
  - reflexivity.
  - exact ex_ctx.
  - reflexivity.
  - vm_compute. discriminate.
  - vm_compute. reflexivity.
  - vm_compute. reflexivity.
  - exact CommitCmdFacts.ex_sign_ok.
  - exact ex_tree.
Qed.

(* the hypothesis on the name HEAD holds cannot be dropped from
   [first_commit_succeeds]: with another name in HEAD and no branch, the
   commit object is written and the command then fails *)
Definition gx_bad_head : world := set_head CommitCmdFacts.ex_w (str "a/b"%string).
Example gx_bad_head_refused :
  valid_branch_name (w_head gx_bad_head) = false /\
  snd (fst (step (ACmd CommitCmdFacts.ex_env (CCommit CommitCmdFacts.ex_msg)) gx_bad_head)) = OErr /\
  length (snd (step (ACmd CommitCmdFacts.ex_env (CCommit CommitCmdFacts.ex_msg)) gx_bad_head)) = 3.
Proof. repeat split; vm_compute; reflexivity. Qed.

(* ------------------------------------------------------------------ *)
Print Assumptions commit_succeeds_if_text_reads.
Print Assumptions commit_succeeds_on_any_staged_difference.
Print Assumptions commit_succeeds_on_any_staged_difference_ex.
Print Assumptions first_commit_succeeds.
Print Assumptions commit_succeeds_spec.
Print Assumptions commit_outcome.
Print Assumptions commit_never_panics.
Print Assumptions commit_success_inv.
Print Assumptions commit_succeeds_iff.
Print Assumptions status_step.
Print Assumptions status_step_refused.
Print Assumptions status_never_writes.
Print Assumptions staged_section_is_filter.
Print Assumptions diff_classifies.
Print Assumptions diff_lists_differences.
Print Assumptions diff_paths_nodup.
Print Assumptions status_staged_section_exact.
Print Assumptions status_before_first_commit.
Print Assumptions status_after_commit_clean.
Print Assumptions commit_then_status.
Print Assumptions reachable_inited.
Print Assumptions history_commit_succeeds.
Print Assumptions history_first_commit_succeeds.
Print Assumptions history_status_after_commit_clean.
Print Assumptions history_status_exact.
Print Assumptions gx_commit_by_theorem.
Print Assumptions gx_status_by_theorem.
Print Assumptions gx_status_computed.
Print Assumptions gx_clean_by_theorem.
Print Assumptions gx_clean_computed.
Print Assumptions gx_first_commit_by_theorem.
